/-
Pointer-level skip list refines the height-list model SST/Model/SkipList.lean:
`findGE_refines`, `insert_refines`, the reads, and `skiplist_ptr_refines`.
-/
import SST.Proofs.SkipListPtrInsert
namespace SST.SkipListPtr
open SST SST.Proofs

variable {K V : Type}

/-! ### Splitting the order at a key -/

theorem split_order {cmp : K → K → Ordering} (hl : LawfulCmp cmp) {pl : PList K V}
    {order : List (Nat × SNode K V)} (hrep : Rep cmp pl order) (key : K) :
    ∃ o1 o2, order = o1 ++ o2 ∧ (∀ e ∈ o1, cmp key e.2.key = .gt) ∧
      (∀ e ∈ o2, cmp key e.2.key ≠ .gt) ∧
      Split cmp key (order.map (·.2)) (o1.map (·.2)) (o2.map (·.2)) := by
  obtain ⟨l1, l2, hsp⟩ := exists_split hl key (order.map (·.2)) hrep.sorted
  obtain ⟨o1, o2, ho, h1, h2⟩ := List.map_eq_append_iff.1 hsp.eq
  subst h1 h2
  refine ⟨o1, o2, ho, ?_, ?_, hsp⟩
  · intro e he; exact hsp.lo e.2 (List.mem_map_of_mem he)
  · intro e he; exact hsp.ge e.2 (List.mem_map_of_mem he)

theorem abs_heights {cmp : K → K → Ordering} {pl : PList K V} {order : List (Nat × SNode K V)}
    (hrep : Rep cmp pl order) : ∀ n ∈ order.map (·.2), 1 ≤ n.height := by
  intro n hn
  obtain ⟨e, he, rfl⟩ := List.mem_map.1 hn
  exact (hrep.hts e he).1

theorem abs_inv {cmp : K → K → Ordering} {pl : PList K V} (hwf : WF cmp pl) :
    Inv cmp (abs pl).nodes := by
  obtain ⟨order, hrep⟩ := hwf
  rw [abs_of_rep hrep]
  exact ⟨hrep.sorted, abs_heights hrep⟩

/-! ### The abstract `insert`, explicitly -/

theorem abs_insert_some {cmp : K → K → Ordering} {s : SkipList K V} {k : K} (v : V) (h : Nat)
    {l1 l2 : List (SNode K V)} (hsp : Split cmp k s.nodes l1 l2) (hh : ∀ n ∈ s.nodes, 1 ≤ n.height)
    (hne : ∀ n t, l2 = n :: t → cmp k n.key ≠ .eq) :
    SkipList.insert cmp s k v h = some { s with nodes := l1 ++ ⟨k, v, h⟩ :: l2 } := by
  cases l2 with
  | nil =>
    simp only [SkipList.insert, findGE_nil hsp hh]
    simp [hsp.eq]
  | cons n t =>
    have := hne n t rfl
    simp only [SkipList.insert, findGE_cons hsp hh]
    simp [hsp.eq, this]

theorem abs_insert_none {cmp : K → K → Ordering} {s : SkipList K V} {k : K} (v : V) (h : Nat)
    {l1 : List (SNode K V)} {n : SNode K V} {t : List (SNode K V)}
    (hsp : Split cmp k s.nodes l1 (n :: t)) (hh : ∀ n ∈ s.nodes, 1 ≤ n.height)
    (heq : cmp k n.key = .eq) :
    SkipList.insert cmp s k v h = none := by
  simp only [SkipList.insert, findGE_cons hsp hh]
  simp [hsp.eq, heq]

/-! ### `findGreaterOrEqual` -/

/-- The pointer-level descent returns the address of the node the height-list `findGE` returns
(nil if it returns none), never panics and needs no more fuel than it gets; if a `prevTable` is
given, each slot `l` ends up holding the predecessor at level `l` of the returned position: the last
node before it that is linked into level `l`, or the head. -/
theorem findGE_refines {cmp : K → K → Ordering} (hl : LawfulCmp cmp) {pl : PList K V}
    (hwf : WF cmp pl) (key : K) (pt : Option (List (Option Ref)))
    (hpt : ∀ t, pt = some t → t.length = pl.maxHeight) :
    ∃ pt', findGE cmp pl key pt
        = some ((SkipList.findGE cmp (abs pl) key).1.bind
            (fun j => (levelList pl 0)[j]?.map (·.1)), pt') ∧
      (pt = none → pt' = none) ∧
      ∀ t, pt = some t → ∃ t', pt' = some t' ∧ t'.length = pl.maxHeight ∧
        ∀ l, l < pl.maxHeight → t'[l]? = some (some
          (predRef ((levelList pl 0).take (SkipList.findGE cmp (abs pl) key).2) l)) := by
  obtain ⟨order, hrep⟩ := hwf
  obtain ⟨o1, o2, ho, hlo, hge, hsp⟩ := split_order hl hrep key
  obtain ⟨pt', hfind, hrel⟩ := findGE_spec hrep ho hlo hge pt hpt
  have habs := abs_of_rep hrep
  have hsp' : Split cmp key (abs pl).nodes (o1.map (·.2)) (o2.map (·.2)) := by
    rw [habs]; exact hsp
  have hh' : ∀ n ∈ (abs pl).nodes, 1 ≤ n.height := by rw [habs]; exact abs_heights hrep
  have hlev : levelList pl 0 = order := by
    rw [levelList_of_rep hrep (by have := hrep.mh; omega), filter_lvl0 hrep]
  have hf := findGE_split hsp' hh'
  have hfst : (SkipList.findGE cmp (abs pl) key).1.bind (fun j => (levelList pl 0)[j]?.map (·.1))
      = o2.head?.map (·.1) := by
    rw [hf, hlev, habs, ho]
    cases o2 with
    | nil => simp
    | cons e t => simp
  have hsnd : (levelList pl 0).take (SkipList.findGE cmp (abs pl) key).2 = o1 := by
    rw [hf, hlev, ho]; simp
  refine ⟨pt', by rw [hfst]; exact hfind, hrel.1, ?_⟩
  intro t ht
  obtain ⟨t', ht', hlen, hslots, _⟩ := hrel.2 t ht
  refine ⟨t', ht', by rw [hlen]; exact hpt t ht, ?_⟩
  intro l hl
  rw [hsnd]; exact hslots l hl

/-! ### `Insert` -/

/-- `Insert` preserves well-formedness and is the height-list `insert` on the abstract image, for every
height `1 ≤ h ≤ maxHeight`; it panics exactly when the height-list `insert` reports a duplicate. -/
theorem insert_refines {cmp : K → K → Ordering} (hl : LawfulCmp cmp) {pl : PList K V}
    (hwf : WF cmp pl) (k : K) (v : V) (h : Nat) (h1 : 1 ≤ h) (hh : h ≤ pl.maxHeight) :
    match SkipList.insert cmp (abs pl) k v h with
    | none => insert cmp pl k v h = none
    | some s' => ∃ pl', insert cmp pl k v h = some pl' ∧ WF cmp pl' ∧ abs pl' = s' ∧
        pl'.maxHeight = pl.maxHeight := by
  obtain ⟨order, hrep⟩ := hwf
  obtain ⟨o1, o2, ho, hlo, hge, hsp⟩ := split_order hl hrep k
  have habs := abs_of_rep hrep
  have hsp' : Split cmp k (abs pl).nodes (o1.map (·.2)) (o2.map (·.2)) := by
    rw [habs]; exact hsp
  have hh' : ∀ n ∈ (abs pl).nodes, 1 ≤ n.height := by rw [habs]; exact abs_heights hrep
  obtain ⟨hdupcase, hokcase⟩ := insert_rep v hrep ho hlo hge h1 hh
  by_cases hdup : ∃ e t, o2 = e :: t ∧ cmp k e.2.key = .eq
  · obtain ⟨e, t, ho2, heq⟩ := hdup
    subst ho2
    rw [abs_insert_none v h (n := e.2) (t := t.map (·.2)) hsp' hh' heq]
    exact hdupcase e t rfl heq
  · have hne : ∀ e t, o2 = e :: t → cmp k e.2.key ≠ .eq := fun e t h1 h2 => hdup ⟨e, t, h1, h2⟩
    have hne' : ∀ n t, o2.map (·.2) = n :: t → cmp k n.key ≠ .eq := by
      intro n t hnt
      cases o2 with
      | nil => cases hnt
      | cons e t' =>
        simp only [List.map_cons, List.cons.injEq] at hnt
        rw [← hnt.1]; exact hne e t' rfl
    have hins := abs_insert_some v h hsp' hh' hne'
    rw [hins]
    -- the new abstract list is sorted (height-list `insert` keeps the invariant)
    have hall : ∀ n ∈ (abs pl).nodes, cmp k n.key ≠ .eq := by
      intro n hn
      rw [hsp'.eq] at hn
      rcases List.mem_append.1 hn with hn | hn
      · rw [hsp'.lo n hn]; decide
      · cases ho2 : o2.map (·.2) with
        | nil => rw [ho2] at hn; cases hn
        | cons m t =>
          rw [ho2] at hn
          rcases List.mem_cons.1 hn with rfl | hn
          · exact hne' _ t ho2
          · rw [hsp'.tl m t ho2 n hn]; decide
    obtain ⟨s1, hs1, hinv1, _⟩ := insert_spec hl (abs pl) ⟨by rw [habs]; exact hrep.sorted, hh'⟩
      k v h h1 hall
    rw [hins] at hs1
    have hsorted : Sorted cmp ((o1 ++ (pl.arena.length, ⟨k, v, h⟩) :: o2).map (·.2)) := by
      have := hinv1.sorted
      rw [← Option.some.inj hs1] at this
      simpa using this
    obtain ⟨pl', hpl', hmh, hrep'⟩ := hokcase hne hsorted
    refine ⟨pl', hpl', ⟨_, hrep'⟩, ?_, hmh⟩
    rw [abs_of_rep hrep', hmh, habs]
    simp

/-! ### Reads -/

theorem drain_done (cmp : K → K → Ordering) (pl : PList K V) (fuel : Nat) (p : Option Nat)
    (hi : Option K) : drain cmp pl (fuel + 1) ⟨p, hi, true⟩ = some [] := by
  cases p <;> simp [drain, Iter.next]

theorem drain_all {cmp : K → K → Ordering} {pl : PList K V} :
    ∀ (T : List (Nat × SNode K V)) (p : Option Nat) (fuel : Nat),
      (∀ e ∈ T, ∃ n : PNode K V, pl.arena[e.1]? = some n ∧ e.2 = toS n) →
      Seg pl.arena 0 p (T.map (·.1)) none → T.length + 1 ≤ fuel →
      drain cmp pl fuel ⟨p, none, false⟩ = some (T.map fun e => (e.2.key, e.2.val)) := by
  intro T
  induction T with
  | nil =>
    intro p fuel _ hs hf
    have : p = none := hs
    subst this
    cases fuel with
    | zero => omega
    | succ f => simp [drain, Iter.next]
  | cons e T ih =>
    intro p fuel hn hs hf
    obtain ⟨hp, n, hget, r, hr, hs'⟩ := hs
    subst hp
    obtain ⟨n', hget', he⟩ := hn e List.mem_cons_self
    have : n' = n := by rw [hget] at hget'; exact (Option.some.inj hget').symm
    subst this
    cases fuel with
    | zero => omega
    | succ f =>
      have := ih r f (fun e' he' => hn e' (List.mem_cons_of_mem _ he')) hs'
        (by simp only [List.length_cons] at hf; omega)
      simp [drain, Iter.next, hget, hr, this, he, toS]

theorem drain_upTo {cmp : K → K → Ordering} {pl : PList K V} (hi : K) :
    ∀ (T : List (Nat × SNode K V)) (p : Option Nat) (fuel : Nat),
      (∀ e ∈ T, ∃ n : PNode K V, pl.arena[e.1]? = some n ∧ e.2 = toS n) →
      Seg pl.arena 0 p (T.map (·.1)) none → T.length + 1 ≤ fuel →
      drain cmp pl fuel ⟨p, some hi, false⟩ = some (SkipList.takeUpTo cmp hi (T.map (·.2))) := by
  intro T
  induction T with
  | nil =>
    intro p fuel _ hs hf
    have : p = none := hs
    subst this
    cases fuel with
    | zero => omega
    | succ f => simp [drain, Iter.next, SkipList.takeUpTo]
  | cons e T ih =>
    intro p fuel hn hs hf
    obtain ⟨hp, n, hget, r, hr, hs'⟩ := hs
    subst hp
    obtain ⟨n', hget', he⟩ := hn e List.mem_cons_self
    have : n = n' := by rw [hget] at hget'; exact Option.some.inj hget'
    subst this
    cases fuel with
    | zero => omega
    | succ f =>
      have hf' : T.length + 1 ≤ f := by simp only [List.length_cons] at hf; omega
      have := ih r f (fun e' he' => hn e' (List.mem_cons_of_mem _ he')) hs' hf'
      have hk : e.2.key = n.key := by rw [he]; rfl
      have hv : e.2.val = n.val := by rw [he]; rfl
      cases hc : cmp n.key hi with
      | lt => simp [drain, Iter.next, hget, hr, this, hk, hv, hc, SkipList.takeUpTo]
      | gt => simp [drain, Iter.next, hget, hr, hk, hc, SkipList.takeUpTo]
      | eq =>
        obtain ⟨f', rfl⟩ : ∃ f', f = f' + 1 := ⟨f - 1, by omega⟩
        simp [drain, Iter.next, hget, hr, hk, hv, hc, SkipList.takeUpTo]
        cases r <;> simp

/-- the level-0 chain from the node `findGreaterOrEqual` returns -/
theorem seg_suffix {cmp : K → K → Ordering} {pl : PList K V} {order o1 o2 : List (Nat × SNode K V)}
    (hrep : Rep cmp pl order) (ho : order = o1 ++ o2) :
    Seg pl.arena 0 (o2.head?.map (·.1)) (o2.map (·.1)) none := by
  obtain ⟨p, _, hs⟩ := hrep.chain 0 (by have := hrep.mh; omega)
  rw [idxAt, filter_lvl0 hrep, ho, List.map_append] at hs
  obtain ⟨r, _, h2⟩ := (seg_append _ _ _ _).1 hs
  have := seg_head h2
  rw [List.head?_map] at this
  rw [← this]; exact h2

/-- On a well-formed structure every read equals the height-list model's read on the abstract image
(no panic, fuel suffices). -/
theorem reads_refine {cmp : K → K → Ordering} (hl : LawfulCmp cmp) {pl : PList K V}
    (hwf : WF cmp pl) :
    size pl = (abs pl).size ∧
    iterAll cmp pl = some (SkipList.iterAll (abs pl)) ∧
    (∀ k, get cmp pl k = some (SkipList.get cmp (abs pl) k)) ∧
    (∀ k, contains cmp pl k = some (SkipList.contains cmp (abs pl) k)) ∧
    (∀ k, iterFrom cmp pl k = some (SkipList.iterFrom cmp (abs pl) k)) ∧
    (∀ lo hi, iterBetween cmp pl lo hi = some (SkipList.iterBetween cmp (abs pl) lo hi)) := by
  obtain ⟨order, hrep⟩ := hwf
  have habs := abs_of_rep hrep
  have hh' : ∀ n ∈ (abs pl).nodes, 1 ≤ n.height := by rw [habs]; exact abs_heights hrep
  have hmh := hrep.mh
  have hget : ∀ k, get cmp pl k = some (SkipList.get cmp (abs pl) k) := by
    intro k
    obtain ⟨o1, o2, ho, hlo, hge, hsp⟩ := split_order hl hrep k
    have hsp' : Split cmp k (abs pl).nodes (o1.map (·.2)) (o2.map (·.2)) := by
      rw [habs]; exact hsp
    obtain ⟨pt', hfind, _⟩ := findGE_spec hrep ho hlo hge none nofun
    unfold get SkipList.get
    rw [hfind, bind_findGE hsp' hh']
    cases o2 with
    | nil => rfl
    | cons e t =>
      obtain ⟨n, hn, hs⟩ := hrep.node e (by rw [ho]; simp)
      simp only [List.head?_cons, Option.map_some, hn, List.map_cons]
      rw [hs]; simp only [toS]
      split <;> simp [*]
  refine ⟨?_, ?_, hget, ?_, ?_, ?_⟩
  · rw [habs]; simp [size, SkipList.size, hrep.size]
  · -- Iterator()
    obtain ⟨p, hp, hs⟩ := hrep.chain 0 (by omega)
    rw [idxAt, filter_lvl0 hrep] at hs
    simp only [iterAll, iterator, nextOf, hp, Option.map_some, Option.bind_some]
    rw [drain_all order p (pl.size + 1) hrep.node hs (by rw [hrep.size]; exact Nat.le_refl _), habs]
    simp [SkipList.iterAll]
  · intro k
    simp only [contains, hget k, Option.map_some, SkipList.contains]
  · -- IteratorStartingAt
    intro k
    obtain ⟨o1, o2, ho, hlo, hge, hsp⟩ := split_order hl hrep k
    have hsp' : Split cmp k (abs pl).nodes (o1.map (·.2)) (o2.map (·.2)) := by
      rw [habs]; exact hsp
    obtain ⟨pt', hfind, _⟩ := findGE_spec hrep ho hlo hge none nofun
    have hnode : ∀ e ∈ o2, ∃ n : PNode K V, pl.arena[e.1]? = some n ∧ e.2 = toS n :=
      fun e he => hrep.node e (by rw [ho]; exact List.mem_append_right _ he)
    have hlen : o2.length + 1 ≤ pl.size + 1 := by rw [hrep.size, ho]; simp
    simp only [iterFrom, iteratorStartingAt, hfind, Option.map_some, Option.bind_some]
    rw [drain_all o2 _ (pl.size + 1) hnode (seg_suffix hrep ho) hlen]
    unfold SkipList.iterFrom
    cases o2 with
    | nil => rw [findGE_nil hsp' hh']; rfl
    | cons e t =>
      rw [findGE_cons hsp' hh']
      simp [hsp'.eq]
  · -- IteratorBetween
    intro lo hi
    obtain ⟨o1, o2, ho, hlo, hge, hsp⟩ := split_order hl hrep lo
    have hsp' : Split cmp lo (abs pl).nodes (o1.map (·.2)) (o2.map (·.2)) := by
      rw [habs]; exact hsp
    obtain ⟨pt', hfind, _⟩ := findGE_spec hrep ho hlo hge none nofun
    have hnode : ∀ e ∈ o2, ∃ n : PNode K V, pl.arena[e.1]? = some n ∧ e.2 = toS n :=
      fun e he => hrep.node e (by rw [ho]; exact List.mem_append_right _ he)
    have hlen : o2.length + 1 ≤ pl.size + 1 := by rw [hrep.size, ho]; simp
    unfold iterBetween iteratorBetween SkipList.iterBetween
    rw [hfind]
    by_cases hc : (cmp lo hi == .gt) = true
    · simp [hc]
    · have hc' : (cmp lo hi == .gt) = false := by simpa using hc
      simp only [hc', Bool.false_eq_true, if_false]
      rw [drain_upTo hi o2 _ (pl.size + 1) hnode (seg_suffix hrep ho) hlen]
      cases o2 with
      | nil => rw [findGE_nil hsp' hh']; rfl
      | cons e t =>
        rw [findGE_cons hsp' hh']
        simp [hsp'.eq]

/-! ### Sequences of inserts -/

theorem rep_empty (cmp : K → K → Ordering) : Rep cmp (empty : PList K V) [] := by
  refine ⟨List.nodup_nil, nofun, by simp [empty], by simp [empty], nofun, ?_, rfl, List.Pairwise.nil⟩
  intro l hl
  have hl' : l < 12 := hl
  refine ⟨none, ?_, rfl⟩
  rw [show (empty : PList K V).head = List.replicate 12 none from rfl, List.getElem?_replicate,
    if_pos hl']

theorem wf_empty (cmp : K → K → Ordering) : WF cmp (empty : PList K V) := ⟨[], rep_empty cmp⟩

theorem abs_empty : abs (empty : PList K V) = SkipList.empty := rfl

theorem insertAll_refines {cmp : K → K → Ordering} (hl : LawfulCmp cmp) :
    ∀ (ins : List (K × V × Nat)) (pl : PList K V), WF cmp pl →
      (∀ x ∈ ins, 1 ≤ x.2.2 ∧ x.2.2 ≤ pl.maxHeight) →
      match SkipList.insertAll cmp (abs pl) ins with
      | none => insertAll cmp pl ins = none
      | some s' => ∃ pl', insertAll cmp pl ins = some pl' ∧ WF cmp pl' ∧ abs pl' = s' ∧
          pl'.maxHeight = pl.maxHeight := by
  intro ins
  induction ins with
  | nil => intro pl hwf _; exact ⟨pl, rfl, hwf, rfl, rfl⟩
  | cons x rest ih =>
    intro pl hwf hh
    obtain ⟨k, v, h⟩ := x
    have hx := hh (k, v, h) List.mem_cons_self
    have hins := insert_refines hl hwf k v h hx.1 hx.2
    simp only [SkipList.insertAll, insertAll]
    cases hs : SkipList.insert cmp (abs pl) k v h with
    | none =>
      rw [hs] at hins
      simp only [hins]
    | some s1 =>
      rw [hs] at hins
      obtain ⟨pl1, hpl1, hwf1, habs1, hmh1⟩ := hins
      simp only [hpl1]
      have := ih pl1 hwf1 (fun y hy => by rw [hmh1]; exact hh y (List.mem_cons_of_mem _ hy))
      rw [habs1] at this
      cases hs2 : SkipList.insertAll cmp s1 rest with
      | none => rw [hs2] at this; exact this
      | some s2 =>
        rw [hs2] at this
        obtain ⟨pl2, h1, h2, h3, h4⟩ := this
        exact ⟨pl2, h1, h2, h3, h4.trans hmh1⟩

end SST.SkipListPtr
