/-
Zero-padded cuts of the flag file, record level: the one record of the flag, cut anywhere and followed by any number
of zero bytes, does not read, or reads as its payload cut and padded with zeros to its length.
(Helper file of SST/Proofs/CompDirBytesPad.lean.)
-/
import SST.Proofs.CompDirBytesPadPb
namespace SST.Proofs.CompDir.Pad
open SST SST.CompDir Generated SST.Proofs SST.Proofs.Pb

/-! ## header varints over zeros -/

theorem canonDec_nil (w : Win) : canonDec w [] = .error w.end0 := by
  rw [canonDec_eq]; simp [uvarintDec, uvarintDecAux, Win.map]

theorem canonDec_zero (w : Win) (l : Bytes) : canonDec w (0 :: l) = .ok (0, 1) := by
  rw [canonDec_eq, uvarintDec_zero]; simp [Win.map]

theorem canonDec_zeros (w : Win) (y : Nat) :
    (∃ e, canonDec w (zeros y) = .error e) ∨ (0 < y ∧ canonDec w (zeros y) = .ok (0, 1)) := by
  cases y with
  | zero => exact Or.inl ⟨_, canonDec_nil w⟩
  | succ y => exact Or.inr ⟨by omega, canonDec_zero w _⟩

theorem magic_length : magicBytes.length = 3 := rfl

theorem canonDec_magic (w : Win) (rest : Bytes) : canonDec w (magicBytes ++ rest) = .ok (magicNumber, 3) := by
  have := canonDec_enc w magicNumber rest (by decide)
  rw [uvarintEnc_magic] at this
  exact this

/-- a varint cut after at least one of its bytes and continued by zeros is not canonical (or runs off the end) -/
theorem canonDec_cut (w : Win) (E : Bytes) (hE : IsVar E) (t : Nat) (h1 : 1 ≤ t) (ht : t < E.length) (z : Nat) :
    ∃ e, canonDec w (E.take t ++ zeros z) = .error e := by
  rw [canonDec_eq]
  cases z with
  | zero =>
    rw [zeros_zero, List.append_nil]
    obtain ⟨e, he⟩ := isVar_take_err E hE t ht 0 0 0
    have he' : uvarintDec (E.take t) = .error e := he
    obtain ⟨e', he''⟩ := Win.map_error (α := Nat × Nat) w e
    rw [he', he'']; exact ⟨_, rfl⟩
  | succ z =>
    obtain ⟨v0, _⟩ := isVar_take_zero E hE t ht
    have hl : (E.take t).length = t := by rw [List.length_take]; omega
    have hs : E.take t ++ zeros (z + 1) = (E.take t ++ [0]) ++ zeros z := by
      rw [zeros_succ]; simp
    rw [hs]
    rcases uvarintDecAux_isVar _ v0 (zeros z) 0 0 0 with ⟨e, he⟩ | hok
    · have he' : uvarintDec ((E.take t ++ [0]) ++ zeros z) = .error e := he
      obtain ⟨e', he''⟩ := Win.map_error (α := Nat × Nat) w e
      rw [he', he'']; exact ⟨_, rfl⟩
    · have hok' : uvarintDec ((E.take t ++ [0]) ++ zeros z) = .ok (vval (E.take t ++ [0]), t + 1) := by
        unfold uvarintDec; rw [hok]; simp [hl]
      rw [hok', Win.map_ok']
      simp only []
      have hg : ((E.take t ++ [0]) ++ zeros z).getD (t + 1 - 1) 0 = 0 := by
        rw [Nat.add_sub_cancel, List.getD_eq_getElem?_getD, List.append_assoc,
          List.getElem?_append_right (by omega), hl, Nat.sub_self]
        rfl
      rw [if_pos ⟨by omega, hg⟩]
      exact ⟨_, rfl⟩

theorem readHeader_err6 (w : Win) (c1 : Nat) (nb : UInt8) (rest : Bytes) (u c2 cl c3 ex c4 : Nat)
    (h1 : canonDec w w.bytes = .ok (magicNumber, c1)) (h2 : w.bytes.drop c1 = nb :: rest)
    (h3 : canonDec w rest = .ok (u, c2)) (h4 : canonDec w (rest.drop c2) = .ok (cl, c3))
    (h5 : canonDec w ((rest.drop c2).drop c3) = .ok (ex, c4))
    (h6 : (crc32c (w.bytes.take (c1 + 1 + c2 + c3))).toNat ≠ ex) :
    readHeader w = .error .headerCrc := by
  rw [readHeader_eq, h1]; simp only []; rw [if_neg (by simp), h2]; simp only []; rw [h3]
  simp only []; rw [h4]; simp only []; rw [h5]; simp only []; rw [if_pos h6]

/-! ## the header of the flag's record, cut and padded -/

theorem uvarintEnc_zero : uvarintEnc 0 = [0] := by
  rw [uvarintEnc_lt 0 (by omega)]; rfl

theorem headerBody_decomp (n : Nat) : headerBody false n 0 = magicBytes ++ ([0] ++ (uvarintEnc n ++ [0])) := by
  rw [headerBody, uvarintEnc_zero]; simp

theorem encHeader_decomp (n : Nat) : encHeader false n 0 =
    magicBytes ++ ([0] ++ (uvarintEnc n ++ ([0] ++ uvarintEnc (crc32c (headerBody false n 0)).toNat))) := by
  rw [encHeader]
  generalize (crc32c (headerBody false n 0)).toNat = crc
  rw [headerBody_decomp]; simp

theorem crc_m000 : (crc32c (magicBytes ++ [0, 0, 0])).toNat ≠ 0 := by decide +kernel

theorem crc_n0 : (crc32c (headerBody false 0 0)).toNat ≠ 0 := by
  rw [headerBody_decomp, uvarintEnc_zero]
  exact crc_m000

/-- nothing but zeros after the magic number (or after the nil flag): lengths 0, checksum 0 ≠ the actual one -/
theorem hdr_zeros (w : Win) (y : Nat) (hw : w.bytes = magicBytes ++ zeros y) : ∃ e, readHeader w = .error e := by
  have h1 : canonDec w w.bytes = .ok (magicNumber, 3) := by rw [hw]; exact canonDec_magic w _
  have hd : w.bytes.drop 3 = zeros y := by rw [hw]; exact List.drop_left' rfl
  cases y with
  | zero => exact ⟨_, readHeader_err2 w 3 h1 hd⟩
  | succ y =>
    rw [zeros_succ] at hd
    rcases canonDec_zeros w y with ⟨e, he⟩ | ⟨hp1, hk1⟩
    · exact ⟨e, readHeader_err3 w 3 0 _ e h1 hd he⟩
    have hd1 : (zeros y).drop 1 = zeros (y - 1) := zeros_drop _ _
    rcases canonDec_zeros w (y - 1) with ⟨e, he⟩ | ⟨hp2, hk2⟩
    · exact ⟨e, readHeader_err4 w 3 0 _ 0 1 e h1 hd hk1 (by rw [hd1]; exact he)⟩
    have hd2 : ((zeros y).drop 1).drop 1 = zeros (y - 1 - 1) := by rw [hd1]; exact zeros_drop _ _
    rcases canonDec_zeros w (y - 1 - 1) with ⟨e, he⟩ | ⟨hp3, hk3⟩
    · exact ⟨e, readHeader_err5 w 3 0 _ 0 1 0 1 e h1 hd hk1 (by rw [hd1]; exact hk2) (by rw [hd2]; exact he)⟩
    refine ⟨_, readHeader_err6 w 3 0 _ 0 1 0 1 0 1 h1 hd hk1 (by rw [hd1]; exact hk2) (by rw [hd2]; exact hk3) ?_⟩
    obtain ⟨y3, rfl⟩ : ∃ y3, y = y3 + 2 := ⟨y - 2, by omega⟩
    have ht : w.bytes.take (3 + 1 + 1 + 1) = magicBytes ++ [0, 0, 0] := by
      rw [hw]
      show (magicBytes ++ ([0, 0, 0] ++ zeros y3)).take 6 = _
      rw [← List.append_assoc]
      exact List.take_left' rfl
    rw [ht]
    exact crc_m000

/-- the stream ends (in zeros) after the length field or after the compressed-length byte -/
theorem hdr_afterU (w : Win) (n : Nat) (hn : n < 2 ^ 64) (y : Nat)
    (hw : w.bytes = magicBytes ++ ([0] ++ (uvarintEnc n ++ zeros y))) :
    (∃ e, readHeader w = .error e) ∨ ((crc32c (headerBody false n 0)).toNat = 0 ∧ 2 ≤ y) := by
  have h1 : canonDec w w.bytes = .ok (magicNumber, 3) := by rw [hw]; exact canonDec_magic w _
  have h2 : w.bytes.drop 3 = 0 :: (uvarintEnc n ++ zeros y) := by rw [hw]; exact List.drop_left' rfl
  have h3 : canonDec w (uvarintEnc n ++ zeros y) = .ok (n, (uvarintEnc n).length) := canonDec_enc w n _ hn
  have hd3 : (uvarintEnc n ++ zeros y).drop (uvarintEnc n).length = zeros y := List.drop_left
  rcases canonDec_zeros w y with ⟨e, he⟩ | ⟨hp1, hk1⟩
  · exact Or.inl ⟨e, readHeader_err4 w 3 0 _ n _ e h1 h2 h3 (by rw [hd3]; exact he)⟩
  have hd4 : ((uvarintEnc n ++ zeros y).drop (uvarintEnc n).length).drop 1 = zeros (y - 1) := by
    rw [hd3]; exact zeros_drop _ _
  rcases canonDec_zeros w (y - 1) with ⟨e, he⟩ | ⟨hp2, hk2⟩
  · exact Or.inl ⟨e, readHeader_err5 w 3 0 _ n _ 0 1 e h1 h2 h3 (by rw [hd3]; exact hk1) (by rw [hd4]; exact he)⟩
  by_cases hcrc : (crc32c (headerBody false n 0)).toNat = 0
  · exact Or.inr ⟨hcrc, by omega⟩
  · left
    refine ⟨_, readHeader_err6 w 3 0 _ n _ 0 1 0 1 h1 h2 h3 (by rw [hd3]; exact hk1) (by rw [hd4]; exact hk2) ?_⟩
    obtain ⟨y1, rfl⟩ : ∃ y1, y = y1 + 1 := ⟨y - 1, by omega⟩
    have ht : w.bytes.take (3 + 1 + (uvarintEnc n).length + 1) = headerBody false n 0 := by
      rw [hw, headerBody_decomp, zeros_succ]
      have : magicBytes ++ ([0] ++ (uvarintEnc n ++ (0 :: zeros y1))) =
          (magicBytes ++ ([0] ++ (uvarintEnc n ++ [0]))) ++ zeros y1 := by simp
      rw [this]
      apply List.take_left'
      simp [magic_length]; omega
    rw [ht]
    exact hcrc

theorem take_append_ge' (A B : Bytes) (k a : Nat) (ha : A.length = a) (h : a ≤ k) :
    (A ++ B).take k = A ++ B.take (k - a) := by
  rw [List.take_append, List.take_of_length_le (by omega), ha]

theorem fileWin_pad (A : Bytes) (hA : A.length ≤ recordHeaderMax) (z : Nat) :
    ∃ z', z' ≤ z ∧ (fileWin (A ++ zeros z)).bytes = A ++ zeros z' := by
  unfold fileWin
  split
  · refine ⟨min (recordHeaderMax - A.length) z, Nat.min_le_right _ _, ?_⟩
    simp only []
    rw [List.take_append, List.take_of_length_le hA, zeros_take]
  · exact ⟨z, Nat.le_refl _, rfl⟩

/-- the header of the flag's record, cut and zero padded: the header parse fails, or the checksum field happens to be
a single zero byte and the padding has completed the header -/
theorem hdr_pad (n : Nat) (hn : n < 2 ^ 64) (k : Nat) (hk : k < (encHeader false n 0).length) (z : Nat) :
    (∃ e, readHeader (fileWin ((encHeader false n 0).take k ++ zeros z)) = .error e) ∨
    ((crc32c (headerBody false n 0)).toNat = 0 ∧
      ∃ y, (encHeader false n 0).take k ++ zeros z = encHeader false n 0 ++ zeros y) := by
  have hU10 := uvarintEnc_len64 n hn
  have hUpos := uvarintEnc_len_pos n
  have hK5 := uvarintEnc_len32 (crc32c (headerBody false n 0)).toNat (UInt32.toNat_lt _)
  have hKpos := uvarintEnc_len_pos (crc32c (headerBody false n 0)).toNat
  have hM := magic_length
  have hmax : recordHeaderMax = 36 := rfl
  have hH := encHeader_decomp n
  have hHl : (encHeader false n 0).length =
      5 + (uvarintEnc n).length + (uvarintEnc (crc32c (headerBody false n 0)).toNat).length := by
    rw [encHeader_length, uvarintEnc_zero]; simp; omega
  rw [hHl] at hk
  -- the shape shared by the two "zeros where the lengths end" cases
  have caseU : ∀ y, (encHeader false n 0).take k ++ zeros z = magicBytes ++ ([0] ++ (uvarintEnc n ++ zeros y)) →
      (∃ e, readHeader (fileWin ((encHeader false n 0).take k ++ zeros z)) = .error e) ∨
      ((crc32c (headerBody false n 0)).toNat = 0 ∧
        ∃ y, (encHeader false n 0).take k ++ zeros z = encHeader false n 0 ++ zeros y) := by
    intro y hs
    rw [hs]
    have hs' : magicBytes ++ ([0] ++ (uvarintEnc n ++ zeros y)) = (magicBytes ++ ([0] ++ uvarintEnc n)) ++ zeros y := by
      simp
    obtain ⟨y', hle, hwb⟩ := fileWin_pad (magicBytes ++ ([0] ++ uvarintEnc n)) (by simp [hM]; omega) y
    rw [← hs'] at hwb
    rcases hdr_afterU _ n hn y' (by rw [hwb]; simp) with h | ⟨hcrc, hy⟩
    · exact Or.inl h
    · right
      refine ⟨hcrc, y - 2, ?_⟩
      obtain ⟨y2, rfl⟩ : ∃ y2, y = y2 + 2 := ⟨y - 2, by omega⟩
      rw [hH, hcrc, uvarintEnc_zero]
      simp [zeros_succ]
  have caseZ : ∀ y, (encHeader false n 0).take k ++ zeros z = magicBytes ++ zeros y →
      ∃ e, readHeader (fileWin ((encHeader false n 0).take k ++ zeros z)) = .error e := by
    intro y hs
    rw [hs]
    obtain ⟨y', _, hwb⟩ := fileWin_pad magicBytes (by rw [hM]; omega) y
    exact hdr_zeros _ y' hwb
  by_cases c3 : k ≤ 3
  · -- inside the magic number
    left
    have ht : (encHeader false n 0).take k = magicBytes.take k := by
      rw [hH]; exact List.take_append_of_le_length (by omega)
    by_cases c0 : k = 0
    · subst c0
      rw [ht, List.take_zero, List.nil_append]
      cases z with
      | zero =>
        have hw : (fileWin (zeros 0)).bytes = [] := rfl
        exact ⟨_, readHeader_err1 _ _ (by rw [hw]; exact canonDec_nil _)⟩
      | succ z =>
        obtain ⟨l, hl⟩ := fileWin_zero z
        exact ⟨_, readHeader_zero _ l hl⟩
    · by_cases c33 : k = 3
      · subst c33
        exact caseZ z (by rw [ht]; rfl)
      · rw [ht]
        obtain ⟨vM, _⟩ := isVar_enc magicNumber
        rw [uvarintEnc_magic] at vM
        obtain ⟨z', _, hwb⟩ := fileWin_pad (magicBytes.take k) (by rw [List.length_take]; omega) z
        obtain ⟨e, he⟩ := canonDec_cut (fileWin (magicBytes.take k ++ zeros z)) magicBytes vM k (by omega)
          (by omega) z'
        exact ⟨e, readHeader_err1 _ e (by rw [hwb]; exact he)⟩
  · have t1 : (encHeader false n 0).take k = magicBytes ++ ([0] ++
        (uvarintEnc n ++ ([0] ++ uvarintEnc (crc32c (headerBody false n 0)).toNat)).take (k - 3 - 1)) := by
      rw [hH, take_append_ge' _ _ k 3 hM (by omega), take_append_ge' _ _ (k - 3) 1 rfl (by omega)]
    by_cases c4 : k = 4
    · left
      apply caseZ (z + 1)
      rw [t1, c4, zeros_succ]; simp
    by_cases cU : k - 3 - 1 < (uvarintEnc n).length
    · -- inside the length field
      left
      have t2 : (encHeader false n 0).take k = magicBytes ++ ([0] ++ (uvarintEnc n).take (k - 3 - 1)) := by
        rw [t1, List.take_append_of_le_length (by omega)]
      have hs : (encHeader false n 0).take k ++ zeros z =
          (magicBytes ++ [0]) ++ ((uvarintEnc n).take (k - 3 - 1) ++ zeros z) := by
        rw [t2]; simp
      have hs2 : (encHeader false n 0).take k ++ zeros z =
          (magicBytes ++ ([0] ++ (uvarintEnc n).take (k - 3 - 1))) ++ zeros z := by
        rw [t2]
      obtain ⟨z', _, hwb⟩ := fileWin_pad (magicBytes ++ ([0] ++ (uvarintEnc n).take (k - 3 - 1)))
        (by simp [hM, List.length_take]; omega) z
      rw [hs2]
      obtain ⟨e, he⟩ := canonDec_cut (fileWin ((magicBytes ++ ([0] ++ (uvarintEnc n).take (k - 3 - 1))) ++ zeros z))
        (uvarintEnc n) (isVar_enc n).1 (k - 3 - 1) (by omega) cU z'
      refine ⟨e, readHeader_err3 _ 3 0 ((uvarintEnc n).take (k - 3 - 1) ++ zeros z') e ?_ ?_ he⟩
      · rw [hwb, List.append_assoc]; exact canonDec_magic _ _
      · rw [hwb]
        have : (magicBytes ++ ([0] ++ (uvarintEnc n).take (k - 3 - 1))) ++ zeros z' =
            magicBytes ++ (0 :: ((uvarintEnc n).take (k - 3 - 1) ++ zeros z')) := by simp
        rw [this]; exact List.drop_left' rfl
    · have t2 : (encHeader false n 0).take k = magicBytes ++ ([0] ++ (uvarintEnc n ++
          ([0] ++ uvarintEnc (crc32c (headerBody false n 0)).toNat).take (k - 3 - 1 - (uvarintEnc n).length))) := by
        rw [t1, take_append_ge' _ _ _ _ rfl (by omega)]
      by_cases cU0 : k - 3 - 1 - (uvarintEnc n).length = 0
      · apply caseU z
        rw [t2, cU0]; simp
      · have t3 : (encHeader false n 0).take k = magicBytes ++ ([0] ++ (uvarintEnc n ++
            ([0] ++ (uvarintEnc (crc32c (headerBody false n 0)).toNat).take
              (k - 3 - 1 - (uvarintEnc n).length - 1)))) := by
          rw [t2, take_append_ge' _ _ _ 1 rfl (by omega)]
        by_cases cK0 : k - 3 - 1 - (uvarintEnc n).length - 1 = 0
        · apply caseU (z + 1)
          rw [t3, cK0, zeros_succ]; simp
        · -- inside the checksum field
          left
          generalize htd : k - 3 - 1 - (uvarintEnc n).length - 1 = t at t3 cK0
          generalize hKd : uvarintEnc (crc32c (headerBody false n 0)).toNat = K at *
          have hvK : IsVar K := by rw [← hKd]; exact (isVar_enc _).1
          have htK : t < K.length := by omega
          rw [t3]
          obtain ⟨z', _, hwb⟩ := fileWin_pad (magicBytes ++ ([0] ++ (uvarintEnc n ++ ([0] ++ K.take t))))
            (by simp [hM, List.length_take]; omega) z
          obtain ⟨e, he⟩ := canonDec_cut
            (fileWin ((magicBytes ++ ([0] ++ (uvarintEnc n ++ ([0] ++ K.take t)))) ++ zeros z))
            K hvK t (by omega) htK z'
          have hb : (magicBytes ++ ([0] ++ (uvarintEnc n ++ ([0] ++ K.take t)))) ++ zeros z' =
              magicBytes ++ (0 :: (uvarintEnc n ++ (0 :: (K.take t ++ zeros z')))) := by simp
          refine ⟨e, readHeader_err5 _ 3 0 (uvarintEnc n ++ (0 :: (K.take t ++ zeros z'))) n (uvarintEnc n).length
            0 1 e ?_ ?_ (canonDec_enc _ n _ hn) ?_ ?_⟩
          · rw [hwb, hb]; exact canonDec_magic _ _
          · rw [hwb, hb]; exact List.drop_left' rfl
          · rw [List.drop_left]; exact canonDec_zero _ _
          · rw [List.drop_left]; exact he

/-! ## the record -/

theorem flagRecord_eq (P : Bytes) : encRecord none (some P) = encHeader false P.length 0 ++ P := rfl

/-- header intact, payload cut and padded -/
theorem readNext_payload (P : Bytes) (hP : P.length < 2 ^ 64) (j : Nat) (hj : j < P.length) (z : Nat) :
    (∃ e, readNextS none (encHeader false P.length 0 ++ (P.take j ++ zeros z)) = .error e) ∨
    ∃ n', readNextS none (encHeader false P.length 0 ++ (P.take j ++ zeros z)) = .ok (some (padCut P j 0), n') := by
  have hl : (P.take j ++ zeros z).length = j + z := by
    rw [List.length_append, List.length_take, zeros_length]; omega
  unfold readNextS
  rw [readHeader_fileWin false P.length 0 _ hP (by decide)]
  simp only [expectedLen, Bool.false_eq_true, if_false, List.drop_left, hl]
  rw [if_neg (by omega)]
  by_cases h0 : j + z = 0
  · rw [if_pos h0]; exact Or.inl ⟨_, rfl⟩
  rw [if_neg h0]
  by_cases h1 : j + z < P.length
  · rw [if_pos h1]; exact Or.inl ⟨_, rfl⟩
  rw [if_neg h1]
  right
  have ht : (P.take j ++ zeros z).take P.length = padCut P j 0 := by
    unfold padCut
    rw [List.take_append, List.take_of_length_le (by rw [List.length_take]; omega), List.length_take, zeros_take]
    congr 2; omega
  rw [ht]
  exact ⟨_, rfl⟩

/-- the record level -/
theorem rec_pad (P : Bytes) (hP : P.length < 2 ^ 64) (k : Nat) (hk : k < (encRecord none (some P)).length) (z : Nat) :
    (∃ e, readNextS none ((encRecord none (some P)).take k ++ zeros z) = .error e) ∨
    ∃ j n', j < P.length ∧
      readNextS none ((encRecord none (some P)).take k ++ zeros z) = .ok (some (padCut P j 0), n') := by
  rw [flagRecord_eq] at hk ⊢
  rw [List.length_append] at hk
  by_cases hcut : k < (encHeader false P.length 0).length
  · rw [List.take_append_of_le_length (by omega)]
    rcases hdr_pad P.length hP k hcut z with h | ⟨hcrc, y, hy⟩
    · exact Or.inl (readNextS_of_header_error none _ h)
    · have hn0 : 0 < P.length := by
        rcases Nat.eq_zero_or_pos P.length with h | h
        · rw [h] at hcrc; exact absurd hcrc crc_n0
        · exact h
      rw [hy]
      have : encHeader false P.length 0 ++ zeros y = encHeader false P.length 0 ++ (P.take 0 ++ zeros y) := by simp
      rw [this]
      rcases readNext_payload P hP 0 hn0 y with h | ⟨n', h⟩
      · exact Or.inl h
      · exact Or.inr ⟨0, n', hn0, h⟩
  · rw [take_append_ge' _ _ k _ rfl (by omega)]
    rw [List.append_assoc]
    rcases readNext_payload P hP (k - (encHeader false P.length 0).length) (by omega) z with h | ⟨n', h⟩
    · exact Or.inl h
    · exact Or.inr ⟨_, n', by omega, h⟩

end SST.Proofs.CompDir.Pad
