/-
Pointer-level skip list (SST/Model/SkipListPtr.lean): pointer chains, the representation relation
`Rep` between the pointer structure and the level-0 order with heights, and the effect of one
`SetNext` / one level of the pointer surgery of `Insert`.
-/
import SST.Model.SkipListPtr
import SST.Proofs.SkipList
namespace SST.SkipListPtr
open SST SST.Proofs

variable {K V : Type}

/-! ### Pointer chains -/

/-- following the level-`level` pointers from `p` visits exactly the addresses `L` and ends at `q` -/
def Seg (arena : List (PNode K V)) (level : Nat) : Option Nat → List Nat → Option Nat → Prop
  | p, [], q => p = q
  | p, i :: is, q =>
    p = some i ∧ ∃ n, arena[i]? = some n ∧ ∃ r, n.next[level]? = some r ∧ Seg arena level r is q

theorem seg_append {arena : List (PNode K V)} {l : Nat} : ∀ (A B : List Nat) (p q : Option Nat),
    Seg arena l p (A ++ B) q ↔ ∃ r, Seg arena l p A r ∧ Seg arena l r B q := by
  intro A
  induction A with
  | nil => intro B p q; simp [Seg]
  | cons a A ih =>
    intro B p q
    simp only [List.cons_append, Seg, ih]
    constructor
    · rintro ⟨hp, n, hn, r, hr, r', h1, h2⟩; exact ⟨r', ⟨hp, n, hn, r, hr, h1⟩, h2⟩
    · rintro ⟨r', ⟨hp, n, hn, r, hr, h1⟩, h2⟩; exact ⟨hp, n, hn, r, hr, r', h1, h2⟩

theorem seg_head {arena : List (PNode K V)} {l : Nat} {p : Option Nat} {L : List Nat}
    (h : Seg arena l p L none) : p = L.head? := by
  cases L with
  | nil => exact h
  | cons i is => exact h.1

theorem seg_frame {arena arena' : List (PNode K V)} {l : Nat} : ∀ (L : List Nat) (p q : Option Nat),
    (∀ i ∈ L, ∀ n, arena[i]? = some n → ∃ n', arena'[i]? = some n' ∧ n'.next[l]? = n.next[l]?) →
    Seg arena l p L q → Seg arena' l p L q := by
  intro L
  induction L with
  | nil => intro p q _ h; exact h
  | cons i is ih =>
    intro p q hf h
    obtain ⟨hp, n, hn, r, hr, hs⟩ := h
    obtain ⟨n', hn', hnext⟩ := hf i List.mem_cons_self n hn
    exact ⟨hp, n', hn', r, hnext ▸ hr, ih r q (fun j hj => hf j (List.mem_cons_of_mem _ hj)) hs⟩

theorem seg_frame_eq {arena arena' : List (PNode K V)} {l : Nat} {L : List Nat} {p q : Option Nat}
    (hf : ∀ i ∈ L, arena'[i]? = arena[i]?) (h : Seg arena l p L q) : Seg arena' l p L q :=
  seg_frame L p q (fun i hi n hn => ⟨n, (hf i hi).trans hn, rfl⟩) h

/-- the reference held by `x` / a `prevTable` slot for "last address of a chain prefix, else the head" -/
def lastRef : Option Nat → Ref
  | none => .head
  | some i => .node i

/-- the node after the last node of a prefix `A` of a level chain is the first node of the rest -/
theorem nextOf_pred {pl : PList K V} {l : Nat} {p : Option Nat} {A B : List Nat}
    (hh : pl.head[l]? = some p) (hs : Seg pl.arena l p (A ++ B) none) :
    nextOf pl (lastRef A.getLast?) l = some B.head? := by
  rcases List.eq_nil_or_concat A with rfl | ⟨A', a, rfl⟩
  · simp only [List.getLast?_nil, lastRef, nextOf, hh]
    rw [seg_head hs]; rfl
  · rw [List.concat_eq_append] at hs ⊢
    obtain ⟨r, h1, h2⟩ := (seg_append _ _ _ _).1 hs
    obtain ⟨r', _, h4⟩ := (seg_append _ _ _ _).1 h1
    obtain ⟨_, n, hn, r'', hr'', hrr⟩ := h4
    have hrr : r'' = r := hrr
    subst hrr
    simp only [List.getLast?_concat, lastRef, nextOf, hn, Option.bind_some, hr'']
    rw [seg_head h2]

/-! ### Effect of `SetNext` -/

/-- `pl'` differs from `pl` only in level-`l` pointers -/
structure Upd (pl pl' : PList K V) (l : Nat) : Prop where
  mh : pl'.maxHeight = pl.maxHeight
  size : pl'.size = pl.size
  headLen : pl'.head.length = pl.head.length
  arenaLen : pl'.arena.length = pl.arena.length
  head : ∀ l', l' ≠ l → pl'.head[l']? = pl.head[l']?
  node : ∀ (i : Nat) (n : PNode K V), pl.arena[i]? = some n → ∃ n' : PNode K V, pl'.arena[i]? = some n' ∧ n'.key = n.key ∧
    n'.val = n.val ∧ n'.next.length = n.next.length ∧ ∀ l', l' ≠ l → n'.next[l']? = n.next[l']?

theorem Upd.refl (pl : PList K V) (l : Nat) : Upd pl pl l :=
  ⟨rfl, rfl, rfl, rfl, fun _ _ => rfl, fun _ n hn => ⟨n, hn, rfl, rfl, rfl, fun _ _ => rfl⟩⟩

theorem Upd.trans {pl pl1 pl2 : PList K V} {l : Nat} (h1 : Upd pl pl1 l) (h2 : Upd pl1 pl2 l) :
    Upd pl pl2 l := by
  refine ⟨h2.mh.trans h1.mh, h2.size.trans h1.size, h2.headLen.trans h1.headLen,
    h2.arenaLen.trans h1.arenaLen, fun l' hl' => (h2.head l' hl').trans (h1.head l' hl'), ?_⟩
  intro i n hn
  obtain ⟨n1, hn1, hk1, hv1, hl1, hx1⟩ := h1.node i n hn
  obtain ⟨n2, hn2, hk2, hv2, hl2, hx2⟩ := h2.node i n1 hn1
  exact ⟨n2, hn2, hk2.trans hk1, hv2.trans hv1, hl2.trans hl1,
    fun l' hl' => (hx2 l' hl').trans (hx1 l' hl')⟩

theorem setNext_head {pl : PList K V} {l : Nat} {p : Option Nat} (h : l < pl.head.length) :
    setNext pl .head l p = some { pl with head := pl.head.set l p } := by
  simp [setNext, h]

theorem setNext_node {pl : PList K V} {i l : Nat} {p : Option Nat} {n : PNode K V}
    (hn : pl.arena[i]? = some n) (h : l < n.next.length) :
    setNext pl (.node i) l p
      = some { pl with arena := pl.arena.set i { n with next := n.next.set l p } } := by
  simp [setNext, hn, h]

theorem upd_head (pl : PList K V) (l : Nat) (p : Option Nat) :
    Upd pl { pl with head := pl.head.set l p } l := by
  refine ⟨rfl, rfl, by simp, rfl, ?_, fun _ n hn => ⟨n, hn, rfl, rfl, rfl, fun _ _ => rfl⟩⟩
  intro l' hl'
  exact List.getElem?_set_ne (Ne.symm hl')

theorem upd_node (pl : PList K V) (i l : Nat) (p : Option Nat) (n : PNode K V)
    (hn : pl.arena[i]? = some n) :
    Upd pl { pl with arena := pl.arena.set i { n with next := n.next.set l p } } l := by
  refine ⟨rfl, rfl, rfl, by simp, fun _ _ => rfl, ?_⟩
  intro j n0 hn0
  by_cases hji : j = i
  · subst hji
    have hlt : j < pl.arena.length := (List.getElem?_eq_some_iff.1 hn).1
    have : n0 = n := by rw [hn] at hn0; exact (Option.some.inj hn0).symm
    subst this
    refine ⟨_, List.getElem?_set_self hlt, rfl, rfl, by simp, ?_⟩
    intro l' hl'
    exact List.getElem?_set_ne (Ne.symm hl')
  · refine ⟨n0, ?_, rfl, rfl, rfl, fun _ _ => rfl⟩
    show (pl.arena.set i _)[j]? = some n0
    rw [List.getElem?_set_ne (Ne.symm hji)]; exact hn0

/-- chains of the other levels are untouched -/
theorem Upd.seg {pl pl' : PList K V} {l l' : Nat} (h : Upd pl pl' l) (hne : l' ≠ l)
    {L : List Nat} {p q : Option Nat} (hs : Seg pl.arena l' p L q) : Seg pl'.arena l' p L q :=
  seg_frame L p q (fun i _ n hn => by
    obtain ⟨n', hn', _, _, _, hx⟩ := h.node i n hn
    exact ⟨n', hn', hx l' hne⟩) hs

/-! ### One level of the pointer surgery -/

/-- `x.SetNext(l, prev.Next(l)); prev.SetNext(l, x)` with `prev` = the last node of the chain prefix `A`
(or the head) splices `xi` between `A` and `B` in the level-`l` chain and touches nothing else. -/
theorem linkLevel_spec {pl : PList K V} {l xi : Nat} {p : Option Nat} {A B : List Nat}
    {pt : List (Option Ref)} {nx : PNode K V}
    (hh : pl.head[l]? = some p) (hs : Seg pl.arena l p (A ++ B) none)
    (hnd : (A ++ B).Nodup) (hfresh : xi ∉ A ++ B)
    (hx : pl.arena[xi]? = some nx) (hxl : l < nx.next.length)
    (hpt : pt[l]? = some (some (lastRef A.getLast?))) :
    ∃ pl', linkLevel pl pt xi l = some pl' ∧ Upd pl pl' l ∧
      ∃ p', pl'.head[l]? = some p' ∧ Seg pl'.arena l p' (A ++ xi :: B) none := by
  have hnext := nextOf_pred hh hs
  have hset1 := setNext_node (p := B.head?) hx hxl
  -- state after `x.SetNext(l, prev.Next(l))`
  let nx1 : PNode K V := { nx with next := nx.next.set l B.head? }
  let pl1 : PList K V := { pl with arena := pl.arena.set xi nx1 }
  have hu1 : Upd pl pl1 l := upd_node pl xi l B.head? nx hx
  have hxlt : xi < pl.arena.length := (List.getElem?_eq_some_iff.1 hx).1
  have hx1 : pl1.arena[xi]? = some nx1 := List.getElem?_set_self hxlt
  have hnx1 : nx1.next[l]? = some B.head? := List.getElem?_set_self hxl
  have hother : ∀ i, i ≠ xi → pl1.arena[i]? = pl.arena[i]? := fun i hi =>
    List.getElem?_set_ne (Ne.symm hi)
  have hs1 : Seg pl1.arena l p (A ++ B) none :=
    seg_frame_eq (fun i hi => hother i (fun h => hfresh (h ▸ hi))) hs
  obtain ⟨r, hA, hB⟩ := (seg_append _ _ _ _).1 hs1
  have hr : r = B.head? := seg_head hB
  subst hr
  have hxB : Seg pl1.arena l (some xi) (xi :: B) none := ⟨rfl, nx1, hx1, _, hnx1, hB⟩
  have hlink : linkLevel pl pt xi l = setNext pl1 (lastRef A.getLast?) l (some xi) := by
    simp only [linkLevel, hpt, hnext, hset1]
    rfl
  rw [hlink]
  have hnd' := List.nodup_append.1 hnd
  rcases List.eq_nil_or_concat A with rfl | ⟨A', a, rfl⟩
  · -- prev = head
    have hl : l < pl1.head.length := (List.getElem?_eq_some_iff.1 hh).1
    refine ⟨_, setNext_head hl, hu1.trans (upd_head pl1 l (some xi)), some xi, ?_, hxB⟩
    exact List.getElem?_set_self hl
  · -- prev = node a
    rw [List.concat_eq_append] at hA hnd' hfresh ⊢
    obtain ⟨r', hA', ha⟩ := (seg_append _ _ _ _).1 hA
    obtain ⟨hr', na, hna, r'', hr'', hrr⟩ := ha
    have hrr : r'' = B.head? := hrr
    subst hr'
    have hal : l < na.next.length := (List.getElem?_eq_some_iff.1 hr'').1
    have haxi : a ≠ xi := fun h => hfresh (by simp [h])
    have haA' : a ∉ A' := by
      have := (List.nodup_append.1 hnd'.1).2.2
      intro hm; exact this a hm a (by simp) rfl
    have haB : a ∉ B := fun hm => hnd'.2.2 a (by simp) a hm rfl
    simp only [List.getLast?_concat, lastRef]
    refine ⟨_, setNext_node hna hal, hu1.trans (upd_node pl1 a l (some xi) na hna), p, hh, ?_⟩
    let na1 : PNode K V := { na with next := na.next.set l (some xi) }
    show Seg (pl1.arena.set a na1) l p (A' ++ [a] ++ xi :: B) none
    have halt : a < pl1.arena.length := (List.getElem?_eq_some_iff.1 hna).1
    have hother2 : ∀ i, i ≠ a → (pl1.arena.set a na1)[i]? = pl1.arena[i]? := fun i hi =>
      List.getElem?_set_ne (Ne.symm hi)
    rw [seg_append]
    refine ⟨some xi, ?_, ?_⟩
    · rw [seg_append]
      refine ⟨some a, seg_frame_eq (fun i hi => hother2 i (fun h => haA' (h ▸ hi))) hA', ?_⟩
      exact ⟨rfl, na1, List.getElem?_set_self halt, some xi, List.getElem?_set_self hal, rfl⟩
    · refine seg_frame_eq (fun i hi => hother2 i ?_) hxB
      intro h
      rcases List.mem_cons.1 hi with h' | h'
      · exact haxi (h ▸ h')
      · exact haB (h ▸ h')

end SST.SkipListPtr
