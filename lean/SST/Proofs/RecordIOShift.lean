/-
C12, frame-shifting header alterations: ANY alteration of ANY header byte either makes both readers
fail, or the altered stream begins with a second, differently framed but correctly checksummed header
(`Crc32Coincides`) — the explicit residual of a 32-bit checksum read from a moved position.
-/
import SST.Proofs.RecordIODamage
namespace SST.Proofs
open SST Generated

/-! ## a canonical varint is the encoder's output -/

theorem uvarintDecAux_shape : ∀ (bs : Bytes) (i x s v n : Nat), uvarintDecAux bs i x s = .ok (v, n) →
    ∃ X rem, bs = X ++ rem ∧ IsVar X ∧ n = i + X.length ∧ v = x + vval X * 2 ^ s := by
  intro bs
  induction bs with
  | nil =>
    intro i x s v n h
    simp only [uvarintDecAux] at h
    split at h
    · cases h
    · split at h <;> cases h
  | cons b bs ih =>
    intro i x s v n h
    have hb256 := UInt8.toNat_lt b
    simp only [uvarintDecAux] at h
    by_cases h10 : i ≥ 10
    · rw [if_pos h10] at h; cases h
    rw [if_neg h10] at h
    by_cases hb : b.toNat < 128
    · rw [if_pos hb] at h
      by_cases h9 : i = 9 ∧ b.toNat > 1
      · rw [if_pos h9] at h; cases h
      · rw [if_neg h9] at h
        cases h
        refine ⟨[b], bs, rfl, Or.inl ⟨rfl, hb⟩, rfl, ?_⟩
        simp only [vval, Nat.mul_zero, Nat.add_zero, Nat.mod_eq_of_lt hb]
    · rw [if_neg hb] at h
      obtain ⟨X, rem, e1, e2, e3, e4⟩ := ih _ _ _ _ _ h
      refine ⟨b :: X, rem, by rw [e1]; rfl, Or.inr ⟨by omega, e2⟩, by simp only [List.length_cons]; omega, ?_⟩
      have m1 : b.toNat % 128 = b.toNat - 128 := by omega
      rw [e4]
      simp only [vval]
      rw [m1, Nat.pow_add]
      generalize 2 ^ s = p
      generalize vval X = q
      generalize b.toNat - 128 = r
      grind

theorem isVar_ne_nil (X : Bytes) (h : IsVar X) : X ≠ [] := by
  cases X with
  | nil => cases h
  | cons b bs => simp

theorem getD_last_cons (b : UInt8) (bs : Bytes) (h : bs ≠ []) :
    (b :: bs).getD ((b :: bs).length - 1) 0 = bs.getD (bs.length - 1) 0 := by
  cases bs with
  | nil => exact absurd rfl h
  | cons b' t => simp

theorem vval_pos (X : Bytes) : IsVar X → X.getD (X.length - 1) 0 ≠ 0 → 1 ≤ vval X := by
  induction X with
  | nil => intro h; cases h
  | cons b bs ih =>
    intro h hl
    rcases h with ⟨h1, h2⟩ | ⟨h1, h2⟩
    · subst h1
      simp only [List.length_singleton, Nat.sub_self, List.getD_cons_zero] at hl
      have : b.toNat ≠ 0 := fun h0 => hl (UInt8.toNat_inj.mp (by simpa using h0))
      simp only [vval]; omega
    · rw [getD_last_cons b bs (isVar_ne_nil bs h2)] at hl
      have := ih h2 hl
      simp only [vval]; omega

/-- shape + "not zero-padded" pins the bytes down: they are `uvarintEnc` of their value -/
theorem canon_unique (X : Bytes) : IsVar X → (X.length > 1 → X.getD (X.length - 1) 0 ≠ 0) →
    X = uvarintEnc (vval X) := by
  induction X with
  | nil => intro h; cases h
  | cons b bs ih =>
    intro h hl
    have hb256 := UInt8.toNat_lt b
    rcases h with ⟨h1, h2⟩ | ⟨h1, h2⟩
    · subst h1
      have : vval [b] = b.toNat := by simp only [vval]; omega
      rw [this, uvarintEnc_lt _ h2, UInt8.ofNat_toNat]
    · have hne := isVar_ne_nil bs h2
      have hlen : (b :: bs).length > 1 := by
        have := List.length_pos_iff.mpr hne
        simp only [List.length_cons]; omega
      have hlast := hl hlen
      rw [getD_last_cons b bs hne] at hlast
      have hpos := vval_pos bs h2 hlast
      have ihbs := ih h2 (fun _ => hlast)
      have hv : vval (b :: bs) = (b.toNat - 128) + 128 * vval bs := by simp only [vval]; omega
      rw [hv, uvarintEnc_ge _ (by omega)]
      have e1 : ((b.toNat - 128) + 128 * vval bs) % 128 + 128 = b.toNat := by omega
      have e2 : ((b.toNat - 128) + 128 * vval bs) / 128 = vval bs := by omega
      rw [e1, e2, UInt8.ofNat_toNat, ← ihbs]

/-- a successful canonical read consumed exactly the encoder's bytes for the value it returned -/
theorem canonDec_ok_enc (w : Win) (bs : Bytes) (v n : Nat) (h : canonDec w bs = .ok (v, n)) :
    ∃ rem, bs = uvarintEnc v ++ rem ∧ n = (uvarintEnc v).length := by
  obtain ⟨hd, hc⟩ := canonDec_ok_inv w bs v n h
  obtain ⟨X, rem, e1, e2, e3, e4⟩ := uvarintDecAux_shape bs 0 0 0 v n hd
  have hpos := List.length_pos_iff.mpr (isVar_ne_nil X e2)
  have hn : n = X.length := by omega
  have hv : v = vval X := by simpa using e4
  have hcan : X.length > 1 → X.getD (X.length - 1) 0 ≠ 0 := by
    intro hgt h0
    apply hc
    refine ⟨by omega, ?_⟩
    rw [hn, e1, List.getD_eq_getElem?_getD, List.getElem?_append_left (by omega),
      ← List.getD_eq_getElem?_getD]
    exact h0
  have := canon_unique X e2 hcan
  rw [← hv] at this
  exact ⟨rem, by rw [e1, ← this], by rw [hn, ← this]⟩

/-! ## the residual: a second, differently framed, correctly checksummed header -/

/-- the checksummed part of a V4 record header with an arbitrary nil-flag byte -/
def rawBody (nb : UInt8) (u cl : Nat) : Bytes :=
  magicBytes ++ [nb] ++ uvarintEnc u ++ uvarintEnc cl

theorem headerBody_eq_rawBody (nf : Bool) (u cl : Nat) :
    headerBody nf u cl = rawBody (if nf then 1 else 0) u cl := rfl

/-- `s` begins with a header exactly as the writer would lay it out for flag byte `nb` and lengths
`u`, `cl`: marker, flag, the two canonical length varints, and the canonical varint of the CRC-32C of
exactly those bytes. -/
def WellFormedHeader (s : Bytes) (nb : UInt8) (u cl : Nat) : Prop :=
  ∃ tail, s = rawBody nb u cl ++ uvarintEnc (crc32c (rawBody nb u cl)).toNat ++ tail

/-- The residual of header-damage detection.  Both byte streams begin with a well-formed, correctly
checksummed header, but over DIFFERENT checksummed bytes.  When `altered` differs from `original` in one
header byte this is only possible if that byte moved a field boundary (see
`header_alter_detected_or_coincides`) so that a different stretch of bytes is checksummed and four bytes
further on happen to be the canonical varint of its CRC-32C: a genuine 32-bit coincidence.  No instance
is known to us and the generators of the correspondence harness never produced one; it cannot be ruled
out by a 32-bit checksum. -/
def Crc32Coincides (original altered : Bytes) : Prop :=
  ∃ nb u cl nb' u' cl', WellFormedHeader original nb u cl ∧ WellFormedHeader altered nb' u' cl' ∧
    rawBody nb' u' cl' ≠ rawBody nb u cl

/-- whenever the header parser accepts, the window starts with a well-formed header for the values it
returns -/
theorem readHeader_ok_wellFormed (w : Win) (h : RecHeader) (hok : readHeader w = .ok h) :
    ∃ nb, WellFormedHeader w.bytes nb h.ulen h.clen ∧ h.isNil = (nb == 1) ∧
      h.hlen = (rawBody nb h.ulen h.clen).length +
        (uvarintEnc (crc32c (rawBody nb h.ulen h.clen)).toNat).length := by
  obtain ⟨c1, nb, rest, u, c2, cl, c3, ex, c4, g1, g2, g3, g4, g5, g6, rfl⟩ := readHeader_ok_inv w h hok
  obtain ⟨r1, a1, b1⟩ := canonDec_ok_enc _ _ _ _ g1
  obtain ⟨r2, a2, b2⟩ := canonDec_ok_enc _ _ _ _ g3
  rw [a1, b1, List.drop_left] at g2
  subst g2
  rw [a2, b2, List.drop_left] at g4
  obtain ⟨r3, a3, b3⟩ := canonDec_ok_enc _ _ _ _ g4
  rw [a2, b2, List.drop_left, a3, b3, List.drop_left] at g5
  obtain ⟨r4, a4, b4⟩ := canonDec_ok_enc _ _ _ _ g5
  have hbytes : w.bytes = rawBody nb u cl ++ (uvarintEnc ex ++ r4) := by
    rw [a1, a2, a3, a4, rawBody, uvarintEnc_magic]; simp
  have hlen : (rawBody nb u cl).length = c1 + 1 + c2 + c3 := by
    rw [b1, b2, b3, rawBody, uvarintEnc_magic]; simp only [List.length_append, List.length_singleton]
  rw [hbytes, List.take_left' hlen] at g6
  refine ⟨nb, ⟨r4, ?_⟩, rfl, ?_⟩
  · simp only []
    rw [g6, hbytes, List.append_assoc]
  · simp only []
    rw [g6, hlen, b4]

theorem wellFormedHeader_append (s t : Bytes) (nb : UInt8) (u cl : Nat) (h : WellFormedHeader s nb u cl) :
    WellFormedHeader (s ++ t) nb u cl := by
  obtain ⟨tail, ht⟩ := h
  exact ⟨tail ++ t, by rw [ht, List.append_assoc]⟩

theorem encRecord_wellFormed (c : Compression) (r : GoBytes) (rest : Bytes) :
    ∃ nb u cl, WellFormedHeader (encRecord c r ++ rest) nb u cl ∧
      (headerOf c r).length = (rawBody nb u cl).length +
        (uvarintEnc (crc32c (rawBody nb u cl)).toNat).length := by
  cases r with
  | none =>
    exact ⟨1, 0, clenOf c [], ⟨rest, rfl⟩, by
      simp only [headerOf, encHeader, List.length_append]; rfl⟩
  | some r =>
    exact ⟨0, r.length, clenOf c r, ⟨stored c r ++ rest, by
      simp only [encRecord, encHeader, List.append_assoc]; rfl⟩, by
      simp only [headerOf, encHeader, List.length_append]; rfl⟩

/-- two streams with the same well-formed header agree on all of its bytes -/
theorem wellFormed_same_prefix (s s' : Bytes) (nb : UInt8) (u cl : Nat) (nb' : UInt8) (u' cl' : Nat)
    (h : WellFormedHeader s nb u cl) (h' : WellFormedHeader s' nb' u' cl')
    (hb : rawBody nb' u' cl' = rawBody nb u cl) (i : Nat)
    (hi : i < (rawBody nb u cl).length + (uvarintEnc (crc32c (rawBody nb u cl)).toNat).length) :
    s'[i]? = s[i]? := by
  obtain ⟨t, ht⟩ := h
  obtain ⟨t', ht'⟩ := h'
  rw [hb] at ht'
  rw [← List.length_append] at hi
  generalize rawBody nb u cl ++ uvarintEnc (crc32c (rawBody nb u cl)).toNat = A at ht ht' hi
  rw [ht, ht', List.getElem?_append_left hi, List.getElem?_append_left hi]

/-- a successful header parse over a window that is a prefix of the altered record stream yields the
coincidence -/
theorem coincides_of_header_ok (c : Compression) (r : GoBytes) (rest : Bytes) (i : Nat) (x : UInt8)
    (hi : i < (headerOf c r).length) (hx : x ≠ (headerOf c r)[i])
    (w : Win) (t : Bytes) (hw : (encRecord c r).set i x ++ rest = w.bytes ++ t)
    (h : RecHeader) (hok : readHeader w = .ok h) :
    Crc32Coincides (encRecord c r ++ rest) ((encRecord c r).set i x ++ rest) := by
  obtain ⟨nb', hwf', _, _⟩ := readHeader_ok_wellFormed w h hok
  have hwf'' := wellFormedHeader_append _ t _ _ _ hwf'
  rw [← hw] at hwf''
  obtain ⟨nb, u, cl, hwf, hlen⟩ := encRecord_wellFormed c r rest
  refine ⟨nb, u, cl, nb', h.ulen, h.clen, hwf, hwf'', ?_⟩
  intro hb
  have hsame := wellFormed_same_prefix _ _ _ _ _ _ _ _ hwf hwf'' hb i (by omega)
  have hHR : ∃ S, encRecord c r = headerOf c r ++ S := by
    cases r with
    | none => exact ⟨[], (List.append_nil _).symm⟩
    | some r => exact ⟨stored c r, rfl⟩
  obtain ⟨S, hS⟩ := hHR
  have hiR : i < (encRecord c r).length := by rw [hS, List.length_append]; omega
  rw [List.getElem?_append_left (by rw [List.length_set]; exact hiR),
    List.getElem?_append_left hiR, List.getElem?_set_self hiR, List.getElem?_eq_getElem hiR] at hsame
  have : (encRecord c r)[i] = (headerOf c r)[i] := by
    simp only [hS]; rw [List.getElem_append_left hi]
  rw [this] at hsame
  exact hx (Option.some.inj hsame)

/-- C12 header clause at full strength: altering ANY header byte to ANY other value makes both readers
fail on that record, or else the alteration is frame shifting and the altered stream carries a
different, correctly checksummed header (`Crc32Coincides`). -/
theorem header_alter_detected_or_coincides (c : Compression) (r : GoBytes) (pre rest : Bytes)
    (hf : FitsRec c r) (i : Nat) (x : UInt8) (hi : i < (headerOf c r).length)
    (hx : x ≠ (headerOf c r)[i]) :
    ((∃ e, readNextS c ((encRecord c r).set i x ++ rest) = .error e) ∧
     (∃ e, readAt c (pre ++ (encRecord c r).set i x ++ rest) pre.length = .error e)) ∨
    (¬ FramePreserving (headerOf c r) i x ∧
      Crc32Coincides (encRecord c r ++ rest) ((encRecord c r).set i x ++ rest)) := by
  by_cases hfp : FramePreserving (headerOf c r) i x
  · exact Or.inl (header_alter_detected_partial c r pre rest hf i x hfp)
  generalize hs : (encRecord c r).set i x ++ rest = s
  have hspos : 0 < s.length := by
    rw [← hs, List.length_append, List.length_set]
    have := encRecord_pos c r; omega
  -- sequential reader
  cases hr1 : readHeader (fileWin s) with
  | ok h =>
    right
    refine ⟨hfp, ?_⟩
    have hpre : ∃ t, s = (fileWin s).bytes ++ t := by
      unfold fileWin
      split
      · exact ⟨s.drop recordHeaderMax, (List.take_append_drop _ _).symm⟩
      · exact ⟨[], (List.append_nil _).symm⟩
    obtain ⟨t, ht⟩ := hpre
    rw [← hs] at ht ⊢
    exact coincides_of_header_ok c r rest i x hi hx _ t (by rw [hs] at ht ⊢; exact ht) h hr1
  | error e1 =>
    cases hr2 : readHeader (mmapWin s) with
    | ok h =>
      right
      refine ⟨hfp, ?_⟩
      have ht : s = (mmapWin s).bytes ++ s.drop recordHeaderMax := (List.take_append_drop _ _).symm
      rw [← hs]
      exact coincides_of_header_ok c r rest i x hi hx _ _ (by rw [hs]; exact ht) h hr2
    | error e2 =>
      left
      refine ⟨readNextS_of_header_error c s ⟨e1, hr1⟩, ?_⟩
      have hfile : pre ++ (encRecord c r).set i x ++ rest = pre ++ s := by
        rw [← hs, List.append_assoc]
      rw [hfile]
      unfold readAt
      rw [if_neg (by rw [List.length_append]; omega), if_neg (by rw [List.length_append]; omega)]
      simp only [List.drop_left]
      rw [hr2]
      exact ⟨e2, rfl⟩

/-- what "not frame preserving" means for a genuine alteration: a varint byte (not the nil flag) whose
continuation bit was flipped -/
theorem frameShifting_of_not_preserving (h : Bytes) (i : Nat) (x : UInt8) (hi : i < h.length)
    (hx : x ≠ h[i]) (hn : ¬ FramePreserving h i x) :
    i ≠ magicBytes.length ∧ ¬ (x.toNat ≥ 128 ↔ h[i].toNat ≥ 128) :=
  ⟨fun h3 => hn ⟨hi, hx, Or.inl h3⟩, fun hc => hn ⟨hi, hx, Or.inr hc⟩⟩

end SST.Proofs
