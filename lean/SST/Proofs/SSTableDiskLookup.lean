/-
The disk index loader after the repairs 37d0b89 (failed reads are not cached), 93d8a40 (end-of-file inside
the binary search means "look below") and 90fd3ef (upper bound below every key = empty range): on an index
file without phantom records its point lookups and iterators answer like the sorted map of the entries,
IN EVERY STATE OF THE OFFSET CACHE that holds only fresh reads — and every call keeps the cache like that.

Structure: `SeekModel` abstracts the index file (record `k` starts at `off k`, decodes to `ents[k]`, a seek
finds the first record at or after the start offset); `findAt_fresh` makes the cache transparent;
`bsLoop_eq` reduces the loop over byte offsets to `slices.BinarySearchFunc` over the probe predicate;
`bs_cut` turns its answer into the cut index of the key; `diskIter_range` runs the iterator to an end offset.
-/
import SST.Proofs.SSTableDisk
import SST.Proofs.SSTableDiskSpec
namespace SST.Proofs.Sst
open SST Generated SST.Proofs

/-! ## the offset cache is transparent -/

/-- the error part of a `SeekNext` answer as `findAt` reports it -/
def seekErr : Except Err Nat → Option Err
  | .ok _ => none
  | .error e => some e

/-- with a cache of fresh reads `findAt` answers what a fresh `SeekNext` answers, and keeps the cache fresh
(full or not: `diskCacheMax` plays no role) -/
theorem findAt_fresh (d : DiskIdx) (h : Nat) (hc : DiskCacheFresh d) :
    ∃ d', d.findAt h = (d', (diskSeekEntry d.c d.file h).2, seekErr (diskSeekEntry d.c d.file h).1) ∧
      d'.file = d.file ∧ d'.c = d.c ∧ DiskCacheFresh d' := by
  unfold DiskIdx.findAt
  cases hf : d.cache.find? (·.1 == h) with
  | some p =>
    obtain ⟨o, en⟩ := p
    have hm := List.mem_of_find?_eq_some hf
    have ho : o = h := by have := List.find?_some hf; simpa using this
    obtain ⟨q, hq⟩ := hc (o, en) hm
    subst ho
    simp only [] at hq
    refine ⟨d, ?_, rfl, rfl, hc⟩
    simp only [hq, seekErr]
  | none =>
    simp only []
    generalize hr : diskSeekEntry d.c d.file h = x
    obtain ⟨res, en⟩ := x
    cases res with
    | error e => exact ⟨d, rfl, rfl, rfl, hc⟩
    | ok p =>
      simp only [seekErr]
      by_cases hlen : d.cache.length < diskCacheMax
      · refine ⟨{ d with cache := d.cache ++ [(h, en)] }, by rw [if_pos hlen], rfl, rfl, ?_⟩
        intro pr hpr
        rcases List.mem_append.1 hpr with hpr | hpr
        · exact hc pr hpr
        · rw [List.mem_singleton.1 hpr]; exact ⟨p, hr⟩
      · exact ⟨d, by rw [if_neg hlen], rfl, rfl, hc⟩

/-! ## the index file as the lookups see it -/

/-- what the lookups need to know of the index file `F`: record `k` starts at `off k` and decodes to
`ents[k]`; a seek from `h` finds the first record that starts at or after `h`, or end-of-file -/
structure SeekModel (c : Compression) (F : Bytes) (off : Nat → Nat) (ents : List IndexEntry) : Prop where
  mono : ∀ j k, j < k → k < ents.length → off j < off k
  inFile : ∀ k, k < ents.length → off k < F.length
  small : ents.length ≤ F.length
  pos : 0 < F.length
  seek : ∀ h, h ≤ F.length →
    match seekNext c F h with
    | .ok (p, r) => ∃ k, ∃ hk : k < ents.length, p = off k ∧ decIndexEntry (r.getD []) = (ents[k], none) ∧
        h ≤ p ∧ ∀ j, j < k → off j < h
    | .error e => e = .eof ∧ ∀ k, k < ents.length → off k < h

/-- the record `SeekNext` leaves behind when it fails -/
def noEntry : IndexEntry := { key := none, valueOffset := 0, checksum := 0 }

/-- the smallest offset from which a seek finds record `t` (one past the start of record `t - 1`) -/
def startOff (off : Nat → Nat) (t : Nat) : Nat := if t = 0 then 0 else off (t - 1) + 1

theorem startOff_succ (off : Nat → Nat) (t : Nat) : startOff off (t + 1) = off t + 1 := by
  simp [startOff]

namespace SeekModel
variable {c : Compression} {F : Bytes} {off : Nat → Nat} {ents : List IndexEntry}

theorem mono_le (M : SeekModel c F off ents) {j k : Nat} (hjk : j ≤ k) (hk : k < ents.length) :
    off j ≤ off k := by
  rcases Nat.eq_or_lt_of_le hjk with rfl | h
  · exact Nat.le_refl _
  · exact Nat.le_of_lt (M.mono j k h hk)

theorem seek_record (M : SeekModel c F off ents) (h k : Nat) (hk : k < ents.length)
    (hlo : ∀ j, j < k → off j < h) (hhi : h ≤ off k) :
    ∃ r, seekNext c F h = .ok (off k, r) ∧ decIndexEntry (r.getD []) = (ents[k], none) := by
  have hn : h ≤ F.length := by have := M.inFile k hk; omega
  have hs := M.seek h hn
  cases hr : seekNext c F h with
  | error e =>
    rw [hr] at hs
    have := hs.2 k hk; omega
  | ok pr =>
    obtain ⟨p, r⟩ := pr
    rw [hr] at hs
    obtain ⟨k', hk', hp, hd, hle, hbefore⟩ := hs
    have hkk : k' = k := by
      rcases Nat.lt_trichotomy k' k with h1 | h1 | h1
      · have := hlo k' h1; omega
      · exact h1
      · have := hbefore k h1; omega
    subst hkk
    exact ⟨r, by rw [hp], hd⟩

theorem seek_eof (M : SeekModel c F off ents) (h : Nat) (hn : h ≤ F.length)
    (hall : ∀ k, k < ents.length → off k < h) : seekNext c F h = .error .eof := by
  have hs := M.seek h hn
  cases hr : seekNext c F h with
  | error e => rw [hr] at hs; rw [hs.1]
  | ok pr =>
    obtain ⟨p, r⟩ := pr
    rw [hr] at hs
    obtain ⟨k', hk', hp, _, hle, _⟩ := hs
    have := hall k' hk'; omega

theorem entry_record (M : SeekModel c F off ents) (h k : Nat) (hk : k < ents.length)
    (hlo : ∀ j, j < k → off j < h) (hhi : h ≤ off k) :
    diskSeekEntry c F h = (.ok (off k), ents[k]) := by
  obtain ⟨r, h1, h2⟩ := M.seek_record h k hk hlo hhi
  unfold diskSeekEntry; rw [h1]; simp only [h2]

theorem entry_eof (M : SeekModel c F off ents) (h : Nat) (hn : h ≤ F.length)
    (hall : ∀ k, k < ents.length → off k < h) : diskSeekEntry c F h = (.error .eof, noEntry) := by
  unfold diskSeekEntry; rw [M.seek_eof h hn hall]; rfl

/-- a seek from any offset inside the file: the first record at or after it, or end-of-file -/
theorem entry_cases (M : SeekModel c F off ents) (h : Nat) (hn : h ≤ F.length) :
    (∃ k, ∃ hk : k < ents.length, diskSeekEntry c F h = (.ok (off k), ents[k]) ∧ h ≤ off k ∧
      ∀ j, j < k → off j < h) ∨
    (diskSeekEntry c F h = (.error .eof, noEntry) ∧ ∀ k, k < ents.length → off k < h) := by
  have hs := M.seek h hn
  cases hr : seekNext c F h with
  | error e =>
    rw [hr] at hs
    exact Or.inr ⟨M.entry_eof h hn hs.2, hs.2⟩
  | ok pr =>
    obtain ⟨p, r⟩ := pr
    rw [hr] at hs
    obtain ⟨k, hk, hp, hd, hle, hb⟩ := hs
    exact Or.inl ⟨k, hk, M.entry_record h k hk hb (by omega), by omega, hb⟩

theorem startOff_below (M : SeekModel c F off ents) (t : Nat) (ht : t ≤ ents.length) :
    ∀ j, j < t → off j < startOff off t := by
  intro j hj
  unfold startOff
  rw [if_neg (by omega)]
  have := M.mono_le (show j ≤ t - 1 by omega) (by omega)
  omega

theorem startOff_le_off (M : SeekModel c F off ents) (t : Nat) (ht : t < ents.length) :
    startOff off t ≤ off t := by
  unfold startOff
  by_cases h0 : t = 0
  · rw [if_pos h0]; omega
  · rw [if_neg h0]; have := M.mono (t - 1) t (by omega) ht; omega

theorem startOff_le_len (M : SeekModel c F off ents) (t : Nat) (ht : t ≤ ents.length) :
    startOff off t ≤ F.length := by
  unfold startOff
  by_cases h0 : t = 0
  · rw [if_pos h0]; omega
  · rw [if_neg h0]; have := M.inFile (t - 1) (by omega); omega

theorem startOff_mono (M : SeekModel c F off ents) {a b : Nat} (hab : a ≤ b) (hb : b ≤ ents.length) :
    startOff off a ≤ startOff off b := by
  unfold startOff
  by_cases ha : a = 0
  · rw [if_pos ha]; omega
  · rw [if_neg ha, if_neg (by omega)]
    have := M.mono_le (show a - 1 ≤ b - 1 by omega) (by omega)
    omega

theorem startOff_lt_succ (M : SeekModel c F off ents) (t : Nat) (ht : t < ents.length) :
    startOff off t < startOff off (t + 1) := by
  rw [startOff_succ]; have := M.startOff_le_off t ht; omega

/-- from `startOff t` a seek finds record `t` -/
theorem entry_startOff (M : SeekModel c F off ents) (t : Nat) (ht : t < ents.length) :
    diskSeekEntry c F (startOff off t) = (.ok (off t), ents[t]) :=
  M.entry_record _ t ht (M.startOff_below t (by omega)) (M.startOff_le_off t ht)

theorem entry_startOff_end (M : SeekModel c F off ents) :
    diskSeekEntry c F (startOff off ents.length) = (.error .eof, noEntry) :=
  M.entry_eof _ (M.startOff_le_len _ (Nat.le_refl _)) (M.startOff_below _ (Nat.le_refl _))

end SeekModel

/-! ## the binary search over byte offsets -/

/-- the index is (still) the one of file `F`: same file, same compressor, a cache of fresh reads -/
structure DiskOk (c : Compression) (F : Bytes) (d : DiskIdx) : Prop where
  file : d.file = F
  comp : d.c = c
  fresh : DiskCacheFresh d

theorem findAt_ok {c : Compression} {F : Bytes} (d : DiskIdx) (hd : DiskOk c F d) (h : Nat) :
    ∃ d', d.findAt h = (d', (diskSeekEntry c F h).2, seekErr (diskSeekEntry c F h).1) ∧ DiskOk c F d' := by
  obtain ⟨d', h1, h2, h3, h4⟩ := findAt_fresh d h hd.fresh
  rw [hd.file, hd.comp] at h1
  exact ⟨d', h1, ⟨h2.trans hd.file, h3.trans hd.comp, h4⟩⟩

/-- the comparison `binarySearch` makes at probe offset `h`: "the record found from `h` is below the
target"; end-of-file counts as "not below" (that is the repair 93d8a40) -/
def probeLt (c : Compression) (F : Bytes) (target : Bytes) (h : Nat) : Bool :=
  match diskSeekEntry c F h with
  | (.ok _, en) => bytesCmp (en.key.getD []) target == .lt
  | (.error _, _) => false

section Search
variable {c : Compression} {F : Bytes} {off : Nat → Nat} {ents : List IndexEntry}

theorem keys_lt (hs : StrictAsc keyCmp (ents.map IndexEntry.toI)) (j k : Nat) (hjk : j < k)
    (hk : k < ents.length) : bytesCmp (ents[j].key.getD []) (ents[k].key.getD []) = .lt := by
  have := (List.pairwise_iff_getElem.1 hs) j k (by simp; omega) (by simpa using hk) hjk
  simpa [IndexEntry.toI, keyCmp] using this

theorem probeLt_record (M : SeekModel c F off ents) (target : Bytes) (h k : Nat) (hk : k < ents.length)
    (hlo : ∀ j, j < k → off j < h) (hhi : h ≤ off k) :
    probeLt c F target h = (bytesCmp (ents[k].key.getD []) target == .lt) := by
  unfold probeLt; rw [M.entry_record h k hk hlo hhi]

/-- at the start of record `j` the probe compares key `j` -/
theorem probeLt_at (M : SeekModel c F off ents) (target : Bytes) (j : Nat) (hj : j < ents.length) :
    probeLt c F target (off j) = (bytesCmp (ents[j].key.getD []) target == .lt) :=
  probeLt_record M target (off j) j hj (fun j' hj' => M.mono j' j hj' hj) (Nat.le_refl _)

theorem probeLt_eof (M : SeekModel c F off ents) (target : Bytes) (h : Nat) (hn : h ≤ F.length)
    (hall : ∀ k, k < ents.length → off k < h) : probeLt c F target h = false := by
  unfold probeLt; rw [M.entry_eof h hn hall]

/-- the probe predicate is "true … true, false … false" along the byte offsets -/
theorem probeLt_mono (M : SeekModel c F off ents) (hs : StrictAsc keyCmp (ents.map IndexEntry.toI))
    (target : Bytes) :
    ∀ a b, a ≤ b → b < F.length → probeLt c F target b = true → probeLt c F target a = true := by
  intro a b hab hb hlt
  rcases M.entry_cases b (by omega) with ⟨kb, hkb, eb, lb, bb⟩ | ⟨eb, _⟩
  · rcases M.entry_cases a (by omega) with ⟨ka, hka, ea, la, ba⟩ | ⟨ea, alla⟩
    · have hkab : ka ≤ kb := by
        rcases Nat.lt_or_ge kb ka with h1 | h1
        · have := ba kb h1; omega
        · exact h1
      unfold probeLt at hlt ⊢
      rw [eb] at hlt; rw [ea]
      simp only at hlt ⊢
      rcases Nat.eq_or_lt_of_le hkab with h1 | h1
      · subst h1; exact hlt
      · have h2 := keys_lt hs ka kb h1 hkb
        have h3 : bytesCmp (ents[kb].key.getD []) target = .lt := by simpa using hlt
        simp [bytesCmp_trans_lt _ _ _ h2 h3]
    · have := alla kb hkb; omega
  · unfold probeLt at hlt; rw [eb] at hlt; simp at hlt

/-- the loop of `binarySearch` is `slices.BinarySearchFunc` over the probe predicate, whatever the cache
holds; it never fails on this file and keeps the cache fresh -/
theorem bsLoop_eq (M : SeekModel c F off ents) (target : Bytes) :
    ∀ fuel d i j, DiskOk c F d → j ≤ F.length → j - i < fuel →
      ∃ d', DiskIdx.bsLoop target fuel d i j = (d', .ok (binSearchAux (probeLt c F target) fuel i j)) ∧
        DiskOk c F d' := by
  intro fuel
  induction fuel with
  | zero => intro d i j _ _ h; omega
  | succ f ih =>
    intro d i j hd hj hf
    unfold DiskIdx.bsLoop binSearchAux
    by_cases hij : i < j
    · simp only [hij, if_true]
      obtain ⟨d', hfa, hd'⟩ := findAt_ok d hd ((i + j) / 2)
      rw [hfa]
      rcases M.entry_cases ((i + j) / 2) (by omega) with ⟨k, hk, e, h1, h2⟩ | ⟨e, h1⟩
      · have hp := probeLt_record M target ((i + j) / 2) k hk h2 h1
        rw [e, hp]
        simp only [seekErr]
        by_cases hc : (bytesCmp (ents[k].key.getD []) target == .lt) = true
        · simp only [hc, if_true]; exact ih d' _ _ hd' hj (by omega)
        · simp only [hc]; exact ih d' _ _ hd' (by omega) (by omega)
      · have hp := probeLt_eof M target ((i + j) / 2) (by omega) h1
        rw [e, hp]
        simp only [seekErr]
        exact ih d' _ _ hd' (by omega) (by omega)
    · simp only [hij, if_false]; exact ⟨d, rfl, hd⟩

/-- every key below offset `r` is below the target and every key from `r` on is not: `t` cuts the entries -/
theorem cut_of (M : SeekModel c F off ents) (target : Bytes) (r t : Nat)
    (hlo : ∀ x, x < r → probeLt c F target x = true)
    (hhi : ∀ x, r ≤ x → x < F.length → probeLt c F target x = false)
    (h1 : ∀ j, j < t → j < ents.length → off j < r) (h2 : ∀ j, t ≤ j → j < ents.length → r ≤ off j) :
    Cut keyCmp (ents.map IndexEntry.toI) (some target) t := by
  constructor
  · intro e he
    obtain ⟨j, hj, rfl⟩ := List.mem_take_iff_getElem.1 he
    have hjl : j < ents.length := by simp at hj; omega
    have := hlo (off j) (h1 j (by omega) hjl)
    rw [probeLt_at M target j hjl] at this
    simp only [List.getElem_map, IndexEntry.toI]
    rw [keyCmp_some, ← bytesCmp_lt_iff_gt]
    simpa using this
  · intro e he
    obtain ⟨j, hj, rfl⟩ := List.mem_drop_iff_getElem.1 he
    have hjl : t + j < ents.length := by simp at hj; omega
    have := hhi (off (t + j)) (h2 (t + j) (by omega) hjl) (M.inFile _ hjl)
    rw [probeLt_at M target (t + j) hjl] at this
    simp only [List.getElem_map, IndexEntry.toI]
    rw [keyCmp_some, Ne, ← bytesCmp_lt_iff_gt]
    simpa using this

/-- the offset the loop ends on is the smallest offset from which a seek finds the first entry that is not
below the target -/
theorem bs_cut (M : SeekModel c F off ents) (target : Bytes) (r : Nat) (hr : r ≤ F.length)
    (hlo : ∀ x, x < r → probeLt c F target x = true)
    (hhi : ∀ x, r ≤ x → x < F.length → probeLt c F target x = false) :
    ∃ t, t ≤ ents.length ∧ Cut keyCmp (ents.map IndexEntry.toI) (some target) t ∧ r = startOff off t := by
  rcases M.entry_cases r hr with ⟨k, hk, e, hle, hb⟩ | ⟨e, hall⟩
  · -- a record is found from `r`: it is the first one not below the target
    have hrn : r < F.length := by have := M.inFile k hk; omega
    have hnot : (bytesCmp (ents[k].key.getD []) target == .lt) = false := by
      rw [← probeLt_record M target r k hk hb hle]; exact hhi r (Nat.le_refl _) hrn
    refine ⟨k, by omega, ?_, ?_⟩
    · apply cut_of M target r k hlo hhi (fun j hj _ => hb j hj)
      intro j hj hjl
      have := M.mono_le hj hjl; omega
    · by_cases h0 : k = 0
      · subst h0
        simp only [startOff, if_true]
        rcases Nat.eq_zero_or_pos r with h | h
        · exact h
        · have h3 := hlo 0 h
          rw [probeLt_record M target 0 0 hk (fun j hj => by omega) (by omega), hnot] at h3
          cases h3
      · have h1 := hb (k - 1) (by omega)
        have hs : startOff off k = off (k - 1) + 1 := by simp [startOff, h0]
        rw [hs]
        rcases Nat.lt_or_ge (off (k - 1) + 1) r with h | h
        · have h3 := hlo _ h
          rw [probeLt_record M target _ k hk
            (fun j hj => by have := M.mono_le (show j ≤ k - 1 by omega) (by omega); omega) (by omega), hnot] at h3
          cases h3
        · omega
  · -- end-of-file from `r`: every key is below the target
    refine ⟨ents.length, Nat.le_refl _, ?_, ?_⟩
    · exact cut_of M target r ents.length hlo hhi (fun j _ hjl => hall j hjl) (fun j hj hjl => by omega)
    · by_cases h0 : ents.length = 0
      · simp only [startOff, h0, if_true]
        rcases Nat.eq_zero_or_pos r with h | h
        · exact h
        · have h3 := hlo 0 h
          rw [probeLt_eof M target 0 (by omega) (fun k hk => by omega)] at h3
          cases h3
      · have h1 := hall (ents.length - 1) (by omega)
        have hs : startOff off ents.length = off (ents.length - 1) + 1 := by simp [startOff, h0]
        rw [hs]
        rcases Nat.lt_or_ge (off (ents.length - 1) + 1) r with h | h
        · have h3 := hlo _ h
          rw [probeLt_eof M target _ (by omega)
            (fun k hk => by have := M.mono_le (show k ≤ ents.length - 1 by omega) (by omega); omega)] at h3
          cases h3
        · omega

/-- what `binarySearch` returns when the cut index of the target is `t` -/
def bsOut (F : Bytes) (off : Nat → Nat) (ents : List IndexEntry) (target : Bytes) (t : Nat) : BsRes :=
  match ents[t]? with
  | some en => ⟨startOff off t, some en, bytesCmp (en.key.getD []) target == .eq⟩
  | none => ⟨F.length, none, false⟩

/-- `binarySearch` in any fresh cache state: it succeeds, finds the cut index of the target, keeps the
cache fresh -/
theorem bs_spec (M : SeekModel c F off ents) (hs : StrictAsc keyCmp (ents.map IndexEntry.toI))
    (d : DiskIdx) (hd : DiskOk c F d) (target : Bytes) :
    ∃ d' t, d.binarySearch target = (d', .ok (bsOut F off ents target t)) ∧ DiskOk c F d' ∧
      t ≤ ents.length ∧ Cut keyCmp (ents.map IndexEntry.toI) (some target) t := by
  obtain ⟨d1, hloop, hd1⟩ := bsLoop_eq M target (F.length + 1) d 0 F.length hd (Nat.le_refl _) (by omega)
  obtain ⟨hr, hlo, hhi⟩ := binSearchAux_inv (probeLt c F target) F.length (probeLt_mono M hs target)
    (F.length + 1) 0 F.length (Nat.zero_le _) (Nat.le_refl _) (by omega)
    (fun x hx => absurd hx (Nat.not_lt_zero x)) (fun x h1 h2 => by omega)
  generalize binSearchAux (probeLt c F target) (F.length + 1) 0 F.length = r at hloop hr hlo hhi
  obtain ⟨t, htl, hcut, hrt⟩ := bs_cut M target r hr hlo hhi
  obtain ⟨d2, hfa, hd2⟩ := findAt_ok d1 hd1 r
  refine ⟨d2, t, ?_, hd2, htl, hcut⟩
  unfold DiskIdx.binarySearch
  simp only [hd.file, hloop, hfa]
  subst hrt
  rcases Nat.lt_or_ge t ents.length with ht | ht
  · have hlt : startOff off t < F.length := by
      have := M.startOff_le_off t ht; have := M.inFile t ht; omega
    rw [M.entry_startOff t ht]
    simp only [seekErr, bsOut, List.getElem?_eq_getElem ht, hlt, decide_true, Bool.true_and]
  · have : t = ents.length := by omega
    subst this
    rw [M.entry_startOff_end]
    simp only [seekErr, bsOut, List.getElem?_eq_none (Nat.le_refl _)]

end Search

/-! ## the iterator up to an end offset -/

section Iter
variable {c : Compression} {F : Bytes} {off : Nat → Nat} {ents : List IndexEntry}

/-- started at the end of the file the iterator is exhausted, whatever its end offset -/
theorem diskIter_end (M : SeekModel c F off ents) (endOff f : Nat) :
    diskIter c F (f + 1) F.length endOff = ([], .done) := by
  unfold diskIter
  by_cases h : F.length > endOff
  · rw [if_pos h]
  · rw [if_neg h, M.seek_eof F.length (Nat.le_refl _) M.inFile]

/-- the iterator started where a seek finds record `k`, with an end offset that admits exactly the
records before `m`: it yields the entries `k … m-1` and ends with `Done`.  (Only the START of each seek is
compared with the end offset: record `j + 1` is read iff `off j + 1 ≤ endOff`.) -/
theorem diskIter_range (M : SeekModel c F off ents) (endOff m : Nat)
    (hstop1 : ∀ k, k < m → startOff off k ≤ endOff)
    (hstop2 : m < ents.length → endOff < startOff off m) :
    ∀ (rem k fuel : Nat), k + rem = ents.length → rem < fuel →
      diskIter c F fuel (startOff off k) endOff = (((ents.take m).drop k).map IndexEntry.toI, .done) := by
  intro rem
  induction rem with
  | zero =>
    intro k fuel hk hfu
    cases fuel with
    | zero => omega
    | succ f =>
      have hkl : k = ents.length := by omega
      subst hkl
      have hnil : (ents.take m).drop ents.length = [] := by
        apply List.drop_eq_nil_of_le; rw [List.length_take]; omega
      rw [hnil]
      unfold diskIter
      by_cases h : startOff off ents.length > endOff
      · rw [if_pos h]; rfl
      · rw [if_neg h, M.seek_eof _ (M.startOff_le_len _ (Nat.le_refl _)) (M.startOff_below _ (Nat.le_refl _))]
        rfl
  | succ rem ih =>
    intro k fuel hk hfu
    cases fuel with
    | zero => omega
    | succ f =>
      have hkl : k < ents.length := by omega
      unfold diskIter
      by_cases h : startOff off k > endOff
      · rw [if_pos h]
        have hmk : m ≤ k := by
          rcases Nat.lt_or_ge k m with h1 | h1
          · have := hstop1 k h1; omega
          · exact h1
        have hnil : (ents.take m).drop k = [] := by
          apply List.drop_eq_nil_of_le; rw [List.length_take]; omega
        rw [hnil]; rfl
      · rw [if_neg h]
        have hkm : k < m := by
          rcases Nat.lt_or_ge k m with h1 | h1
          · exact h1
          · have h2 := hstop2 (by omega)
            have h3 := M.startOff_mono h1 (Nat.le_of_lt hkl)
            omega
        obtain ⟨r, h1, h2⟩ := M.seek_record (startOff off k) k hkl (M.startOff_below k (by omega))
          (M.startOff_le_off k hkl)
        rw [h1]
        simp only [h2]
        rw [← startOff_succ off k, ih (k + 1) f (by omega) (by omega)]
        have hlt : k < (ents.take m).length := by rw [List.length_take]; omega
        rw [List.drop_eq_getElem_cons hlt]
        simp only [List.map_cons, List.getElem_take]

/-- the iterator started at the offset a binary search returned (cut index `t1`) -/
theorem iter_from_bs (M : SeekModel c F off ents) (target : Bytes) (t1 : Nat) (ht1 : t1 ≤ ents.length)
    (endOff m : Nat) (hstop1 : ∀ k, k < m → startOff off k ≤ endOff)
    (hstop2 : m < ents.length → endOff < startOff off m) :
    diskIter c F (F.length + 2) (bsOut F off ents target t1).off endOff =
      (((ents.take m).drop t1).map IndexEntry.toI, .done) := by
  rcases Nat.lt_or_ge t1 ents.length with ht | ht
  · have : (bsOut F off ents target t1).off = startOff off t1 := by
      simp only [bsOut, List.getElem?_eq_getElem ht]
    rw [this]
    have := M.small
    exact diskIter_range M endOff m hstop1 hstop2 (ents.length - t1) t1 (F.length + 2) (by omega) (by omega)
  · have : (bsOut F off ents target t1).off = F.length := by
      simp only [bsOut, List.getElem?_eq_none ht]
    rw [this, diskIter_end M endOff (F.length + 1)]
    have hnil : (ents.take m).drop t1 = [] := by
      apply List.drop_eq_nil_of_le; rw [List.length_take]; omega
    rw [hnil]; rfl

end Iter

/-! ## the five index calls, in any fresh cache state -/

section Calls
variable {c : Compression} {F : Bytes} {off : Nat → Nat} {ents : List IndexEntry}

theorem iter_eq (d : DiskIdx) (hd : DiskOk c F d) (a b : Nat) :
    d.iter a b = diskIter c F (F.length + 2) a b := by
  unfold DiskIdx.iter; rw [hd.file, hd.comp]

theorem toI_getElem? (t : Nat) : (ents.map IndexEntry.toI)[t]? = (ents[t]?).map IndexEntry.toI := by
  simp

theorem disk_get (M : SeekModel c F off ents) (hs : StrictAsc keyCmp (ents.map IndexEntry.toI))
    (d : DiskIdx) (hd : DiskOk c F d) (k : Bytes) :
    ∃ d', d.get k = (d', getRes (specGet keyCmp (ents.map IndexEntry.toI) (some k))) ∧ DiskOk c F d' := by
  obtain ⟨d', t, hbs, hd', _, hcut⟩ := bs_spec M hs d hd k
  refine ⟨d', ?_, hd'⟩
  unfold DiskIdx.get
  rw [hbs, hcut.specGet keyCmp_lawful hs, toI_getElem?]
  cases he : ents[t]? with
  | none => simp only [bsOut, he, Option.map_none]; rfl
  | some en =>
    simp only [bsOut, he, Option.map_some, IndexEntry.toI, keyCmp_some, bytesCmp_beq_eq_comm k]
    by_cases hb : (bytesCmp (en.key.getD []) k == .eq) = true
    · simp only [hb, if_true]; rfl
    · simp only [hb]; rfl

theorem disk_contains (M : SeekModel c F off ents) (hs : StrictAsc keyCmp (ents.map IndexEntry.toI))
    (d : DiskIdx) (hd : DiskOk c F d) (k : Bytes) :
    ∃ d', d.contains k = (d', .ok (specGet keyCmp (ents.map IndexEntry.toI) (some k)).isSome) ∧
      DiskOk c F d' := by
  obtain ⟨d', t, hbs, hd', _, hcut⟩ := bs_spec M hs d hd k
  refine ⟨d', ?_, hd'⟩
  unfold DiskIdx.contains
  rw [hbs, hcut.specGet keyCmp_lawful hs, toI_getElem?]
  cases he : ents[t]? with
  | none => simp only [bsOut, he, Option.map_none]; rfl
  | some en =>
    simp only [bsOut, he, Option.map_some, IndexEntry.toI, keyCmp_some, bytesCmp_beq_eq_comm k]
    by_cases hb : (bytesCmp (en.key.getD []) k == .eq) = true
    · simp only [hb, if_true]; rfl
    · simp only [hb]; simp

theorem map_take_drop (m t : Nat) :
    ((ents.take m).drop t).map IndexEntry.toI = ((ents.map IndexEntry.toI).take m).drop t := by
  rw [List.map_drop, List.map_take]

theorem disk_from (M : SeekModel c F off ents) (hs : StrictAsc keyCmp (ents.map IndexEntry.toI))
    (d : DiskIdx) (hd : DiskOk c F d) (k : Bytes) :
    ∃ d', d.from k = (d', .ok (specFrom keyCmp (ents.map IndexEntry.toI) (some k), .done)) ∧
      DiskOk c F d' := by
  obtain ⟨d', t, hbs, hd', htl, hcut⟩ := bs_spec M hs d hd k
  refine ⟨d', ?_, hd'⟩
  unfold DiskIdx.from
  rw [hbs]
  simp only [iter_eq d' hd', hd'.file]
  rw [iter_from_bs M k t htl F.length ents.length
    (fun j hj => M.startOff_le_len j (by omega)) (fun h => absurd h (Nat.lt_irrefl _))]
  rw [hcut.specFrom, List.take_length, List.map_drop]

theorem disk_between (M : SeekModel c F off ents) (hs : StrictAsc keyCmp (ents.map IndexEntry.toI))
    (d : DiskIdx) (hd : DiskOk c F d) (lo hi : Bytes) :
    ∃ d', d.between lo hi =
        (d', betweenRes (specBetween keyCmp (ents.map IndexEntry.toI) (some lo) (some hi))) ∧
      DiskOk c F d' := by
  unfold DiskIdx.between
  by_cases hgt : (bytesCmp lo hi == .gt) = true
  · refine ⟨d, ?_, hd⟩
    have hgt' : (keyCmp (some lo) (some hi) == .gt) = true := hgt
    rw [if_pos hgt]
    unfold SST.specBetween
    rw [if_pos hgt']; rfl
  · rw [if_neg hgt]
    obtain ⟨d1, t1, hbs1, hd1, ht1, hc1⟩ := bs_spec M hs d hd lo
    obtain ⟨d2, t2, hbs2, hd2, ht2, hc2⟩ := bs_spec M hs d1 hd1 hi
    refine ⟨d2, ?_, hd2⟩
    have hgt' : ¬ (keyCmp (some lo) (some hi) == .gt) = true := hgt
    rw [hbs1]; simp only [hbs2]
    rw [Cut.specBetween keyCmp_lawful hs hc1 hc2, if_neg hgt', toI_getElem?]
    simp only [betweenRes, iter_eq d2 hd2]
    cases he : ents[t2]? with
    | none =>
      -- the upper bound is above every key: the search answered "offset n, not found"
      have hl : ents.length ≤ t2 := by
        rcases Nat.lt_or_ge t2 ents.length with h | h
        · rw [List.getElem?_eq_getElem h] at he; cases he
        · exact h
      have ht2' : t2 = ents.length := by omega
      have hpos := M.pos
      have hb : bsOut F off ents hi t2 = ⟨F.length, none, false⟩ := by simp only [bsOut, he]
      rw [hb]
      simp only [Option.map_none, Bool.false_eq_true, if_false]
      rw [if_neg (by omega)]
      rw [iter_from_bs M lo t1 ht1 (F.length - 1) ents.length
        (fun j hj => by have := M.startOff_le_off j hj; have := M.inFile j hj; omega)
        (fun h => absurd h (Nat.lt_irrefl _))]
      rw [map_take_drop, ht2']
    | some en =>
      have hl : t2 < ents.length := by
        rcases Nat.lt_or_ge t2 ents.length with h | h
        · exact h
        · rw [List.getElem?_eq_none h] at he; cases he
      have hen : en = ents[t2] := by
        rw [List.getElem?_eq_getElem hl] at he; exact (Option.some.inj he).symm
      have hb : bsOut F off ents hi t2 =
          ⟨startOff off t2, some en, bytesCmp (en.key.getD []) hi == .eq⟩ := by simp only [bsOut, he]
      rw [hb]
      simp only [Option.map_some, IndexEntry.toI, keyCmp_some']
      by_cases hf : (bytesCmp (en.key.getD []) hi == .eq) = true
      · -- the upper bound is a key: the iterator may still START a seek at its record
        have heq : bytesCmp (en.key.getD []) hi = .eq := by simpa using hf
        simp only [heq]
        rw [iter_from_bs M lo t1 ht1 (startOff off t2) (t2 + 1)
          (fun j hj => M.startOff_mono (by omega) (by omega))
          (fun _ => M.startOff_lt_succ t2 hl)]
        rw [map_take_drop]; rfl
      · -- not a key: the entry at the cut is above the bound, the iterator must stop before it
        have hne : bytesCmp (en.key.getD []) hi ≠ .eq := by simpa using hf
        have hge : keyCmp (some hi) en.key ≠ .gt := by
          have hl' : t2 < (ents.map IndexEntry.toI).length := by simpa using hl
          have := hc2.ge ((ents.map IndexEntry.toI)[t2]'hl') (by
            rw [List.drop_eq_getElem_cons hl']; exact List.mem_cons_self)
          simpa [IndexEntry.toI, hen] using this
        have hgt2 : bytesCmp (en.key.getD []) hi = .gt := by
          rw [keyCmp_some] at hge
          have h1 := bytesCmp_swap (en.key.getD []) hi
          cases h2 : bytesCmp hi (en.key.getD []) with
          | lt => rw [h2] at h1; exact h1
          | eq => rw [h2] at h1; exact absurd h1 hne
          | gt => exact absurd h2 hge
        simp only [hgt2]
        by_cases h0 : startOff off t2 = 0
        · -- below every key: the empty iterator `newIterator(1, 0)`
          have ht0 : t2 = 0 := by
            rcases Nat.eq_zero_or_pos t2 with h | h
            · exact h
            · have : startOff off t2 = off (t2 - 1) + 1 := by simp [startOff]; omega
              omega
          rw [if_pos h0]
          have : diskIter c F (F.length + 2) 1 0 = ([], .done) := by
            unfold diskIter; rw [if_pos (by omega)]
          rw [this, ht0]
          simp
        · rw [if_neg h0]
          have htp : 0 < t2 := by
            rcases Nat.eq_zero_or_pos t2 with h | h
            · subst h; simp [startOff] at h0
            · exact h
          have hso : startOff off t2 = off (t2 - 1) + 1 := by simp [startOff]; omega
          rw [iter_from_bs M lo t1 ht1 (startOff off t2 - 1) t2
            (fun j hj => by
              have := M.startOff_le_off j (by omega)
              have := M.mono_le (show j ≤ t2 - 1 by omega) (by omega)
              omega)
            (fun _ => by omega)]
          rw [map_take_drop]; rfl

end Calls

/-! ## from the index to the reader, with state -/

/-- `IdxRefines` (all probes) for an index with state: in every reachable state the index answers like the
sorted map of its entries and the state stays reachable -/
structure IdxRefinesFrom (idx0 : Index) (E : List IEntry) : Prop where
  init : IndexState idx0 idx0
  get : ∀ idx, IndexState idx0 idx → ∀ k,
    ∃ idx', idx.get k = (idx', some (getRes (specGet keyCmp E (some k)))) ∧ IndexState idx0 idx'
  contains : ∀ idx, IndexState idx0 idx → ∀ k,
    ∃ idx', idx.contains k = (idx', some (.ok (specGet keyCmp E (some k)).isSome)) ∧ IndexState idx0 idx'
  all : ∀ idx, IndexState idx0 idx → idx.all = (E, .done)
  from_ : ∀ idx, IndexState idx0 idx → ∀ k,
    ∃ idx', idx.from k = (idx', .ok (specFrom keyCmp E (some k), .done)) ∧ IndexState idx0 idx'
  between : ∀ idx, IndexState idx0 idx → ∀ lo hi,
    ∃ idx', idx.between lo hi = (idx', betweenRes (specBetween keyCmp E (some lo) (some hi))) ∧
      IndexState idx0 idx'

/-- stateful index refinement + the table files ⇒ the reader answers like the sorted map in every state
(`reads_as_map` with the index state threaded) -/
theorem reads_as_map_from (comps : Nat → Compression) (cfg : SstCfg) (kvs : List KV)
    (hc : CompsOk comps cfg) (hf : FitsKV cfg kvs) (o : ReadOpts) (bloom : Option (Bytes → Bool))
    (hb : BloomOk bloom kvs) (idx0 : Index)
    (hr : IdxRefinesFrom idx0 (loadedEntries cfg kvs)) :
    ReadsAsMapFrom comps (readerOf cfg kvs o bloom) idx0 kvs := by
  obtain ⟨hcd, _, hld, _, hdct, _⟩ := hc
  have hv : ∀ t ∈ trips cfg kvs, getValueAtOffset (readerOf cfg kvs o bloom).dc (readerOf cfg kvs o bloom).data t.2.2
      (readerOf cfg kvs o bloom).skipHashOnRead = .ok t.2.1 :=
    fun t ht => getValue_table cfg kvs hld hf _ t ht
  have hE : loadedEntries cfg kvs = (trips cfg kvs).map Trip.ie := rfl
  have hsome : ∀ k, (specGet keyCmp (loadedEntries cfg kvs) (some k)).isSome = (specGet bytesCmp kvs k).isSome := by
    intro k
    have := isSome_spec (trips cfg kvs) k
    rwa [trips_kv] at this
  refine ⟨hr.init, ?_, ?_, ?_, ?_, ?_⟩
  · intro idx hi k
    obtain ⟨idx', e, hi'⟩ := hr.get idx hi k
    refine ⟨idx', ?_, hi'⟩
    unfold Reader.get
    rw [e]
    have := getWith_spec (readerOf cfg kvs o bloom) (trips cfg kvs) hv k
    rw [trips_kv] at this
    simp only [Option.map_some, hE, this]
  · intro idx hi k
    obtain ⟨idx', e, hi'⟩ := hr.contains idx hi k
    unfold Reader.contains
    cases hbl : (readerOf cfg kvs o bloom).bloom with
    | none => exact ⟨idx', by simp only [e, hsome], hi'⟩
    | some bf =>
      simp only
      by_cases hbf : bf k = true
      · exact ⟨idx', by simp only [hbf, if_true, e, hsome], hi'⟩
      · have hno : (specGet bytesCmp kvs k).isSome = false := by
          cases hg : specGet bytesCmp kvs k with
          | none => rfl
          | some v =>
            exfalso
            unfold specGet at hg
            cases hfd : kvs.find? (fun p => bytesCmp k p.1 == .eq) with
            | none => rw [hfd] at hg; cases hg
            | some p =>
              have hp : p ∈ kvs := List.mem_of_find?_eq_some hfd
              have heq : bytesCmp k p.1 = .eq := by
                have := List.find?_some hfd; simpa using this
              have : k = p.1 := (bytesCmp_eq_iff _ _).mp heq
              have hbt := hb bf hbl p hp
              rw [← this] at hbt
              exact hbf hbt
        refine ⟨idx, ?_, hi⟩
        simp only [hbf, hno]
        rfl
  · intro idx hi
    unfold Reader.scan
    rw [hr.all idx hi]
    have hopen : openSeq comps (readerOf cfg kvs o bloom).data = .ok (cfg.dc, encAll cfg.dc (kvs.map (·.2))) := by
      have := openSeq_file comps cfg.dct (encAll cfg.dc (kvs.map (·.2))) hdct
      rw [hcd] at this; exact this
    rw [fullScan_of comps _ _ _ _ hopen]
    have := fullScanS_trip cfg.dc hld (readerOf cfg kvs o bloom).skipHashOnRead kvs fileHeaderSize
      (fun p hp => (hf.1 p hp).1)
    simp only [hE, trips]
    rw [this]
  · intro idx hi k
    obtain ⟨idx', e, hi'⟩ := hr.from_ idx hi k
    refine ⟨idx', ?_, hi'⟩
    unfold Reader.scanFrom
    rw [e]
    simp only [Except.map]
    unfold specScanFrom SST.specFrom
    rw [hE, filter_E (trips cfg kvs) (fun b => bytesCmp k b != .gt) (fun g => keyCmp (some k) g != .gt)
      (fun b => by simp [keyCmp_some_norm])]
    rw [scanIter_filter _ _ hv (fun b => bytesCmp k b != .gt)]
    have := filter_kvs (trips cfg kvs) (fun b => bytesCmp k b != .gt)
    rw [trips_kv] at this
    rw [this]
  · intro idx hi lo hi2
    obtain ⟨idx', e, hi'⟩ := hr.between idx hi lo hi2
    refine ⟨idx', ?_, hi'⟩
    unfold Reader.scanRange
    rw [e]
    unfold specScanRange SST.specBetween
    have hk : keyCmp (some lo) (some hi2) = bytesCmp lo hi2 := rfl
    rw [hk]
    by_cases hgt : (bytesCmp lo hi2 == .gt) = true
    · simp only [hgt, if_true, betweenRes, Except.map]
    · simp only [hgt, if_false, betweenRes, Except.map, Bool.false_eq_true]
      rw [hE, filter_E (trips cfg kvs) (fun b => bytesCmp lo b != .gt && bytesCmp b hi2 != .gt)
        (fun g => keyCmp (some lo) g != .gt && keyCmp g (some hi2) != .gt)
        (fun b => by simp [keyCmp_some_norm, keyCmp_norm_some])]
      rw [scanIter_filter _ _ hv (fun b => bytesCmp lo b != .gt && bytesCmp b hi2 != .gt)]
      have := filter_kvs (trips cfg kvs) (fun b => bytesCmp lo b != .gt && bytesCmp b hi2 != .gt)
      rw [trips_kv] at this
      rw [this]

/-! ## the index file of a written table is a `SeekModel` -/

/-- the index entry a reader decodes from the record of `e` -/
def entryOf (e : Bytes × IndexVal) : IndexEntry :=
  { key := normKey e.1, valueOffset := e.2.off, checksum := e.2.sum }

theorem seekModel_of (c : Compression) (ct : Nat) (es : List (Bytes × IndexVal))
    (hl : LawfulC c) (hf : ∀ r ∈ es.map indexRecOf, FitsRec c r)
    (hfit : ∀ e ∈ es, e.1.length < 2 ^ 64 ∧ e.2.off < 2 ^ 64 ∧ e.2.sum < 2 ^ 64)
    (hnp : NoPhantom c ct (es.map indexRecOf)) :
    SeekModel c (fileHeader currentVersion ct ++ encAll c (es.map indexRecOf))
      (offsetOf c (es.map indexRecOf)) (es.map entryOf) where
  mono := fun j k hjk hk => offsetOf_lt c _ j k hjk (by simp at hk ⊢; omega)
  inFile := fun k hk => by
    have hk' : k < (es.map indexRecOf).length := by simpa using hk
    have h1 := offsetOf_succ c _ k hk'
    have h2 := encRecord_pos c (es.map indexRecOf)[k]
    have h3 := offsetOf_le_file c ct (es.map indexRecOf) (k + 1)
    omega
  small := by
    have := length_le_encAll c (es.map indexRecOf)
    simp only [List.length_append, List.length_map] at this ⊢
    omega
  pos := by
    simp only [List.length_append, fileHeader_length]; omega
  seek := fun h hn => by
    have h0 := seekNext_first_record c ct _ hl hf hnp h hn
    cases hr : seekNext c (fileHeader currentVersion ct ++ encAll c (es.map indexRecOf)) h with
    | error e =>
      rw [hr] at h0
      exact ⟨h0.1, fun k hk => h0.2 k (by simpa using hk)⟩
    | ok pr =>
      obtain ⟨p, r⟩ := pr
      rw [hr] at h0
      obtain ⟨k, hk, hp, hrr, hle, hbef⟩ := h0
      have hk' : k < es.length := by simpa using hk
      refine ⟨k, by simpa using hk', hp, ?_, hle, hbef⟩
      obtain ⟨f1, f2, f3⟩ := hfit es[k] (List.getElem_mem hk')
      have hdec := Pb.decIndexEntry_enc es[k].1 es[k].2.off es[k].2.sum f1 f2 f3
      simp only [hrr, List.getElem_map, indexRecOf, Option.getD_some, hdec, entryOf]

theorem entryOf_toI (es : List (Bytes × IndexVal)) :
    (es.map entryOf).map IndexEntry.toI = es.map fun e => (normKey e.1, e.2) := by
  rw [List.map_map]; rfl

/-! ## the disk loader on a written table -/

theorem disk_all_eq (d d0 : DiskIdx) (h1 : d.file = d0.file) (h2 : d.c = d0.c) : d.all = d0.all := by
  unfold DiskIdx.all DiskIdx.iter; rw [h1, h2]

/-- the disk index of a freshly written table (no phantoms in its index file) answers like the sorted map
of the loaded entries in every fresh state of its offset cache -/
theorem disk_table (comps : Nat → Compression) (cfg : SstCfg) (kvs : List KV)
    (hc : CompsOk comps cfg) (hf : FitsKV cfg kvs) (hs : StrictAsc bytesCmp kvs)
    (hnp : NoPhantom cfg.ic cfg.ict ((entriesOf cfg.dc kvs).map indexRecOf)) :
    ∃ idx, loadIndex comps .disk (indexFileOf cfg kvs) = .ok idx ∧
      IdxRefinesFrom idx (loadedEntries cfg kvs) := by
  obtain ⟨idx, hload, hall⟩ := disk_all comps cfg kvs hc hf hnp
  obtain ⟨_, hci, _, hli, _, hict⟩ := hc
  obtain ⟨h1, h2, _⟩ := hf
  have hopen : openMmap comps (indexFileOf cfg kvs) = .ok cfg.ic := by
    have := openMmap_file comps cfg.ict (encAll cfg.ic ((entriesOf cfg.dc kvs).map indexRecOf)) hict
    rw [hci] at this; exact this
  have hidx : idx = .disk { file := indexFileOf cfg kvs, c := cfg.ic, cache := [] } := by
    have := loadIndex_disk_of comps _ _ hopen
    rw [hload] at this
    exact Except.ok.inj this
  have hfit : ∀ e ∈ entriesOf cfg.dc kvs, e.1.length < 2 ^ 64 ∧ e.2.off < 2 ^ 64 ∧ e.2.sum < 2 ^ 64 := by
    intro e he
    have hk : e.1 ∈ kvs.map (·.1) := by
      rw [← entriesFrom_keys cfg.dc kvs fileHeaderSize]
      exact List.mem_map_of_mem he
    obtain ⟨p, hp, hpe⟩ := List.mem_map.mp hk
    exact ⟨hpe ▸ (h1 p hp).2, (h2 e he).1, entriesFrom_sum _ _ _ e he⟩
  have hfr : ∀ r ∈ (entriesOf cfg.dc kvs).map indexRecOf, FitsRec cfg.ic r := by
    intro r hr
    obtain ⟨e, he, rfl⟩ := List.mem_map.mp hr
    exact (h2 e he).2
  have M := seekModel_of cfg.ic cfg.ict (entriesOf cfg.dc kvs) hli hfr hfit hnp
  have hEq : ((entriesOf cfg.dc kvs).map entryOf).map IndexEntry.toI = loadedEntries cfg kvs := by
    rw [entryOf_toI, loadedEntries_eq]
  have hsE : StrictAsc keyCmp (((entriesOf cfg.dc kvs).map entryOf).map IndexEntry.toI) := by
    rw [hEq]; exact loadedEntries_strictAsc cfg kvs hs
  have hF : indexFileOf cfg kvs =
      fileHeader currentVersion cfg.ict ++ encAll cfg.ic ((entriesOf cfg.dc kvs).map indexRecOf) := rfl
  -- reachable states = `DiskOk` indexes of this file
  have hst : ∀ i, IndexState idx i → ∃ d, i = .disk d ∧ DiskOk cfg.ic (indexFileOf cfg kvs) d := by
    intro i hi
    rw [hidx] at hi
    obtain ⟨d, rfl, e1, e2, e3⟩ := hi
    exact ⟨d, rfl, ⟨e1, e2, e3⟩⟩
  have hts : ∀ d, DiskOk cfg.ic (indexFileOf cfg kvs) d → IndexState idx (.disk d) := by
    intro d hd
    rw [hidx]
    exact ⟨d, rfl, hd.file, hd.comp, hd.fresh⟩
  refine ⟨idx, hload, ?_, ?_, ?_, ?_, ?_, ?_⟩
  · rw [hidx]
    exact ⟨_, rfl, rfl, rfl, fun p hp => by cases hp⟩
  · intro i hi k
    obtain ⟨d, rfl, hd⟩ := hst i hi
    rw [hF] at hd
    obtain ⟨d', e, hd'⟩ := disk_get M hsE d hd k
    rw [hEq] at e
    exact ⟨.disk d', by simp only [Index.get, e], hts d' (by rw [hF]; exact hd')⟩
  · intro i hi k
    obtain ⟨d, rfl, hd⟩ := hst i hi
    rw [hF] at hd
    obtain ⟨d', e, hd'⟩ := disk_contains M hsE d hd k
    rw [hEq] at e
    exact ⟨.disk d', by simp only [Index.contains, e], hts d' (by rw [hF]; exact hd')⟩
  · intro i hi
    obtain ⟨d, rfl, hd⟩ := hst i hi
    rw [← hall, hidx]
    exact disk_all_eq d _ hd.file hd.comp
  · intro i hi k
    obtain ⟨d, rfl, hd⟩ := hst i hi
    rw [hF] at hd
    obtain ⟨d', e, hd'⟩ := disk_from M hsE d hd k
    rw [hEq] at e
    exact ⟨.disk d', by simp only [Index.from, e], hts d' (by rw [hF]; exact hd')⟩
  · intro i hi lo hi2
    obtain ⟨d, rfl, hd⟩ := hst i hi
    rw [hF] at hd
    obtain ⟨d', e, hd'⟩ := disk_between M hsE d hd lo hi2
    rw [hEq] at e
    exact ⟨.disk d', by simp only [Index.between, e], hts d' (by rw [hF]; exact hd')⟩

/-- a table written from an ascending list and opened with the disk loader reads back as the sorted map of
the list: every call, in every state any calls before may have left the offset cache in -/
theorem disk_table_reads (comps : Nat → Compression) (cfg : SstCfg) (kvs : List KV)
    (hcmp : cfg.cmp = bytesCmp) (hc : CompsOk comps cfg) (hf : FitsKV cfg kvs) (hs : StrictAsc bytesCmp kvs)
    (hnp : NoPhantom cfg.ic cfg.ict ((entriesOf cfg.dc kvs).map indexRecOf))
    (o : ReadOpts) (bloom : Option (Bytes → Bool)) (hb : BloomOk bloom kvs) :
    ∃ r idx, openTable comps .disk o (writeTable cfg kvs) bloom = .ok (r, idx) ∧
      ReadsAsMapFrom comps r idx kvs := by
  obtain ⟨idx, hload, href⟩ := disk_table comps cfg kvs hc hf hs hnp
  refine ⟨readerOf cfg kvs o bloom, idx, ?_, reads_as_map_from comps cfg kvs hc hf o bloom hb idx href⟩
  rw [writeTable_eq cfg kvs (by rw [hcmp]; exact hs)]
  exact openTable_ok comps cfg kvs hc hf .disk o bloom idx hload (href.all idx href.init)

/-- the stateful form is no new property: for the slice loader (its only reachable state is the loaded
index) it follows from `ReadsAsMap` -/
theorem slice_table_reads_from (comps : Nat → Compression) (cfg : SstCfg) (kvs : List KV)
    (hcmp : cfg.cmp = bytesCmp) (hc : CompsOk comps cfg) (hf : FitsKV cfg kvs) (hs : StrictAsc bytesCmp kvs)
    (o : ReadOpts) (bloom : Option (Bytes → Bool)) (hb : BloomOk bloom kvs) :
    ∃ r idx, openTable comps .slice o (writeTable cfg kvs) bloom = .ok (r, idx) ∧
      ReadsAsMapFrom comps r idx kvs := by
  obtain ⟨h1, h2, h3, h4, h5⟩ := slice_refines _ (loadedEntries_strictAsc cfg kvs hs)
  have href : IdxRefines (fun _ => True) (.slice (loadedEntries cfg kvs)) (loadedEntries cfg kvs) :=
    ⟨fun k _ => by simp [Index.get, h1], fun k _ => by simp [Index.contains, h2], by simp [Index.all, h3],
      fun k => by simp [Index.from, h4], fun lo hi => by simp [Index.between, h5]⟩
  have hload := loadIndex_slice_of comps _ _ (loadEntries_table comps cfg kvs hc hf)
  refine ⟨readerOf cfg kvs o bloom, .slice (loadedEntries cfg kvs), ?_, ?_⟩
  · rw [writeTable_eq cfg kvs (by rw [hcmp]; exact hs)]
    exact openTable_ok comps cfg kvs hc hf .slice o bloom _ hload href.all
  · exact (reads_as_map comps cfg kvs hc hf o bloom hb _ _ href).toFrom (fun _ => Iff.rfl)

/-! ## `NoPhantom` is a finite check on the index file -/

/-- `ValidAt` as a check -/
def validAtB (c : Compression) (file : Bytes) (p : Nat) : Bool :=
  ((file.drop p).take magicBytes.length == magicBytes) &&
    (match readAt c file p with | .ok _ => true | .error _ => false)

/-- `NoPhantom` follows from a check over the positions of the file (used for the non-vacuity example of
the hypothesis in SST/Props/C03.lean) -/
theorem noPhantom_of_check (c : Compression) (ct : Nat) (rs : List GoBytes)
    (h : ∀ p, p < (fileHeader currentVersion ct ++ encAll c rs).length →
      validAtB c (fileHeader currentVersion ct ++ encAll c rs) p = true →
      ∃ k, k < rs.length ∧ p = offsetOf c rs k) : NoPhantom c ct rs := by
  intro p hv
  obtain ⟨hm, r, hr⟩ := hv
  have hlen := readAt_ok_len c _ p r hr
  apply h p (by omega)
  unfold validAtB
  rw [hr]
  unfold MarkerAt at hm
  simp [hm]

end SST.Proofs.Sst
