/-
The heap over fallible inputs (SST/Model/PQF.lean) against the heap over infallible ones (SST/Model/PQ.lean):
it coincides with `PQ` when nothing fails, it never reaches Done while an input with a pending error is on
the heap, and what it returns before an error is a prefix of the merge of the available items.
-/
import SST.Model.PQF
import SST.Proofs.PQ
namespace SST.Proofs.FH
open SST PQ SST.Proofs.PQB

variable {K V : Type}

/-! ### the (avail, endErr) view of a failing iterator, call by call -/

theorem nextAt_avail (i : FInput K V) (n : Nat) (h : n < i.avail.length) :
    i.nextAt n = .item i.avail[n].1 i.avail[n].2 := by
  unfold FInput.nextAt
  cases hf : i.failAt with
  | none =>
    have ha : i.avail = i.items := by simp [FInput.avail, hf]
    have hn : n < i.items.length := by rw [ha] at h; exact h
    simp [ha, List.getElem?_eq_getElem hn]
  | some p =>
    have ha : i.avail = i.items.take p := by simp [FInput.avail, hf]
    have hl : n < (i.items.take p).length := by rw [ha] at h; exact h
    have hn : n < p ∧ n < i.items.length := by
      rw [List.length_take] at hl; omega
    have hne : ¬ (p = n) := by omega
    simp [ha, hne, List.getElem?_eq_getElem hn.2, List.getElem_take]

theorem nextAt_end (i : FInput K V) :
    i.nextAt i.avail.length = (match i.endErr with | some e => .err e | none => .done) := by
  unfold FInput.nextAt FInput.endErr
  cases hf : i.failAt with
  | none => simp [FInput.avail, hf]
  | some p =>
    simp only [FInput.avail, hf, List.length_take]
    by_cases hp : p ≤ i.items.length
    · have : min p i.items.length = p := by omega
      simp [this, hp]
    · have h1 : min p i.items.length = i.items.length := by omega
      have h2 : ¬ (p = i.items.length) := by omega
      simp [h1, h2, hp]

theorem avail_of_clean {i : FInput K V} (h : i.endErr = none) : i.avail = i.items := by
  unfold FInput.endErr at h
  unfold FInput.avail
  cases hf : i.failAt with
  | none => rfl
  | some p =>
    rw [hf] at h
    simp only [] at h
    split at h
    · cases h
    · simp only []
      apply List.take_of_length_le; omega

/-! ### one `Next` -/

variable {cmp : K → K → Ordering} {ee : Nat → Option Err}

theorem next_item {h h' : Heap K V} {o : K × V × Nat} (hn : PQF.next cmp ee h = .item o h') :
    PQ.next cmp h = some (o, h') := by
  cases h with
  | nil => simp [PQF.next] at hn
  | cons top tl =>
    cases hr : top.rest with
    | cons kv rest' =>
      obtain ⟨k', v'⟩ := kv
      simp only [PQF.next, hr, PQF.Step.item.injEq] at hn
      simp only [PQ.next, hr, hn.1, hn.2]
    | nil =>
      simp only [PQF.next, hr] at hn
      cases he : ee top.ctx with
      | some e => rw [he] at hn; cases hn
      | none =>
        rw [he] at hn
        simp only [] at hn
        cases hl : (top :: tl).getLast? with
        | none => rw [hl] at hn; cases hn
        | some last =>
          rw [hl] at hn
          simp only [PQF.Step.item.injEq] at hn
          simp only [PQ.next, hr, hl, hn.1, hn.2]

theorem next_item_cases {h h' : Heap K V} {o : K × V × Nat} (hn : PQF.next cmp ee h = .item o h') :
    ∃ top tl, h = top :: tl ∧ (top.rest = [] → ee top.ctx = none) := by
  cases h with
  | nil => simp [PQF.next] at hn
  | cons top tl =>
    refine ⟨top, tl, rfl, ?_⟩
    intro hr
    unfold PQF.next at hn
    simp only [hr] at hn
    split at hn
    · cases hn
    · assumption

theorem next_done {h : Heap K V} (hn : PQF.next cmp ee h = .done) : h = [] := by
  cases h with
  | nil => rfl
  | cons top tl =>
    unfold PQF.next at hn
    simp only [] at hn
    split at hn
    · cases hn
    · split at hn
      · cases hn
      · split at hn
        · cases hn
        · rename_i hl
          rw [List.getLast?_cons] at hl
          simp at hl

theorem next_err {h : Heap K V} {e : Err} (hn : PQF.next cmp ee h = .err e) :
    ∃ top tl, h = top :: tl ∧ top.rest = [] ∧ ee top.ctx = some e := by
  cases h with
  | nil => simp [PQF.next] at hn
  | cons top tl =>
    refine ⟨top, tl, rfl, ?_⟩
    unfold PQF.next at hn
    simp only [] at hn
    split at hn
    · cases hn
    · rename_i hr
      split at hn
      · rename_i e' he
        simp only [PQF.Step.err.injEq] at hn
        exact ⟨hr, by rw [he, hn]⟩
      · split at hn <;> cases hn

/-- with no pending error on the heap the fallible `Next` is the infallible one -/
theorem next_of_clean {h : Heap K V} (hc : ∀ el ∈ h, ee el.ctx = none) :
    PQF.next cmp ee h = (match PQ.next cmp h with | some (o, h') => .item o h' | none => .done) := by
  cases h with
  | nil => simp [PQF.next, PQ.next]
  | cons top tl =>
    have ht := hc top List.mem_cons_self
    cases hr : top.rest with
    | cons kv rest' =>
      obtain ⟨k', v'⟩ := kv
      simp only [PQF.next, PQ.next, hr]
    | nil =>
      simp only [PQF.next, PQ.next, hr, ht]
      cases (top :: tl).getLast? <;> rfl

theorem pendingCount_eq (h : Heap K V) : PQF.pendingCount h = (pending h).length := by
  induction h with
  | nil => simp [PQF.pendingCount, pending]
  | cons e h ih =>
    rw [pending_cons, List.length_append, ← ih]
    simp [PQF.pendingCount, items]

/-- the invariants one successful `Next` keeps -/
theorem next_item_inv (hl : LawfulCmp cmp) {h h' : Heap K V} {o : K × V × Nat}
    (ho : HeapOrd cmp h) (hn : PQF.next cmp ee h = .item o h') :
    HeapOrd cmp h' ∧ PQF.pendingCount h = PQF.pendingCount h' + 1 ∧
    (∀ el ∈ h', ∃ el0 ∈ h, el0.ctx = el.ctx) ∧
    (∀ el0 ∈ h, ee el0.ctx ≠ none → ∃ el ∈ h', el.ctx = el0.ctx) := by
  have hpq := next_item hn
  obtain ⟨top', tl', hh', hclean⟩ := next_item_cases hn
  obtain ⟨top, tl, hh, _, ho', hcase⟩ := next_spec hl ho hpq
  obtain ⟨_, _, h'', hh2, _, _, hp, hpend, _, _⟩ := next_step hl ho hpq
  have hcount : PQF.pendingCount h = PQF.pendingCount h' + 1 := by
    rw [pendingCount_eq, pendingCount_eq, hpend, (pending_perm hp).length_eq]; simp
  subst hh
  simp only [List.cons.injEq] at hh'
  obtain ⟨rfl, rfl⟩ := hh'
  refine ⟨ho', hcount, ?_, ?_⟩
  · intro el hel
    rcases hcase with ⟨k', v', rest', _, hperm⟩ | ⟨_, hperm⟩
    · have := hperm.mem_iff.mp hel
      rcases List.mem_cons.mp this with rfl | hm
      · exact ⟨top, List.mem_cons_self, rfl⟩
      · exact ⟨el, List.mem_cons_of_mem _ hm, rfl⟩
    · exact ⟨el, List.mem_cons_of_mem _ (hperm.mem_iff.mp hel), rfl⟩
  · intro el0 hel0 hne
    rcases hcase with ⟨k', v', rest', _, hperm⟩ | ⟨hr, hperm⟩
    · rcases List.mem_cons.mp hel0 with rfl | hm
      · exact ⟨_, hperm.mem_iff.mpr List.mem_cons_self, rfl⟩
      · exact ⟨el0, hperm.mem_iff.mpr (List.mem_cons_of_mem _ hm), rfl⟩
    · rcases List.mem_cons.mp hel0 with rfl | hm
      · exact absurd (hclean hr) hne
      · exact ⟨el0, hperm.mem_iff.mpr hm, rfl⟩

/-! ### sequences of `Next` -/

/-- from heap `h`, `Next` returns the items `xs` and then ends with `t` -/
inductive Yields (cmp : K → K → Ordering) (ee : Nat → Option Err) :
    Heap K V → List (K × V × Nat) → PQF.Term → Prop where
  | done {h : Heap K V} : PQF.next cmp ee h = .done → Yields cmp ee h [] .done
  | err {h : Heap K V} {e : Err} : PQF.next cmp ee h = .err e → Yields cmp ee h [] (.err e)
  | item {h h' : Heap K V} {o : K × V × Nat} {xs : List (K × V × Nat)} {t : PQF.Term} :
      PQF.next cmp ee h = .item o h' → Yields cmp ee h' xs t → Yields cmp ee h (o :: xs) t

/-- `run` with enough fuel is such a sequence (the fuel never runs out) -/
theorem run_yields (hl : LawfulCmp cmp) : ∀ (fuel : Nat) (h : Heap K V), HeapOrd cmp h →
    PQF.pendingCount h < fuel → Yields cmp ee h (PQF.run cmp ee fuel h).1 (PQF.run cmp ee fuel h).2 := by
  intro fuel
  induction fuel with
  | zero => intro h _ hf; omega
  | succ n ih =>
    intro h ho hf
    unfold PQF.run
    cases hn : PQF.next cmp ee h with
    | done => exact Yields.done hn
    | err e => exact Yields.err hn
    | item o h' =>
      obtain ⟨ho', hc, _, _⟩ := next_item_inv hl ho hn
      exact Yields.item hn (ih h' ho' (by omega))

theorem yields_length (hl : LawfulCmp cmp) {h : Heap K V} {xs : List (K × V × Nat)} {t : PQF.Term}
    (ho : HeapOrd cmp h) (hy : Yields cmp ee h xs t) : xs.length ≤ PQF.pendingCount h := by
  induction hy with
  | done _ => simp
  | err _ => simp
  | item hn _ ih =>
    obtain ⟨ho', hc, _, _⟩ := next_item_inv hl ho hn
    have := ih ho'
    simp; omega

/-- reaching Done means no input with a pending error was on the heap, and the items are the infallible
heap's -/
theorem yields_done (hl : LawfulCmp cmp) {h : Heap K V} {xs : List (K × V × Nat)} {t : PQF.Term}
    (ho : HeapOrd cmp h) (hy : Yields cmp ee h xs t) (ht : t = .done) :
    (∀ el ∈ h, ee el.ctx = none) ∧ ∀ F, xs.length ≤ F → PQ.drainAux cmp F h = xs := by
  induction hy with
  | done hn =>
    have := next_done hn
    subst this
    refine ⟨by simp, ?_⟩
    intro F _
    cases F <;> simp [PQ.drainAux, PQ.next]
  | err _ => cases ht
  | item hn _ ih =>
    rename_i h0 h' o xs' t'
    obtain ⟨ho', _, _, hpers⟩ := next_item_inv hl ho hn
    obtain ⟨ihc, ihd⟩ := ih ho' ht
    constructor
    · intro el hel
      cases hc : ee el.ctx with
      | none => rfl
      | some e =>
        obtain ⟨el', hel', hctx⟩ := hpers el hel (by rw [hc]; simp)
        have := ihc el' hel'
        rw [hctx, hc] at this; cases this
    · intro F hF
      cases F with
      | zero => simp at hF
      | succ F' =>
        simp only [List.length_cons] at hF
        unfold PQ.drainAux
        rw [next_item hn]
        simp only []
        rw [ihd F' (by omega)]

/-- an error comes from an input that was on the heap -/
theorem yields_err (hl : LawfulCmp cmp) {h : Heap K V} {xs : List (K × V × Nat)} {t : PQF.Term} {e : Err}
    (ho : HeapOrd cmp h) (hy : Yields cmp ee h xs t) (ht : t = .err e) :
    ∃ el ∈ h, ee el.ctx = some e := by
  induction hy with
  | done _ => cases ht
  | err hn =>
    obtain ⟨top, tl, rfl, _, he⟩ := next_err hn
    simp only [PQF.Term.err.injEq] at ht
    subst ht
    exact ⟨top, List.mem_cons_self, he⟩
  | item hn _ ih =>
    obtain ⟨ho', _, hsub, _⟩ := next_item_inv hl ho hn
    obtain ⟨el, hel, he⟩ := ih ho' ht
    obtain ⟨el0, hel0, hctx⟩ := hsub el hel
    exact ⟨el0, hel0, by rw [hctx]; exact he⟩

/-- nothing can fail: the sequence is the infallible drain, ending in Done -/
theorem yields_clean (hl : LawfulCmp cmp) : ∀ (F : Nat) (h : Heap K V), HeapOrd cmp h →
    (∀ c, ee c = none) → PQF.pendingCount h < F → Yields cmp ee h (PQ.drainAux cmp F h) .done := by
  intro F
  induction F with
  | zero => intro h _ _ hf; omega
  | succ n ih =>
    intro h ho hc hf
    have hnc := next_of_clean (cmp := cmp) (ee := ee) (h := h) (fun el _ => hc el.ctx)
    unfold PQ.drainAux
    cases hn : PQ.next cmp h with
    | none =>
      rw [hn] at hnc
      exact Yields.done hnc
    | some r =>
      obtain ⟨o, h'⟩ := r
      rw [hn] at hnc
      simp only [] at hnc ⊢
      obtain ⟨ho', hcnt, _, _⟩ := next_item_inv hl ho hnc
      exact Yields.item hnc (ih h' ho' hc (by omega))

theorem yields_det {h : Heap K V} {xs ys : List (K × V × Nat)} {t u : PQF.Term}
    (h1 : Yields cmp ee h xs t) (h2 : Yields cmp ee h ys u) : xs = ys ∧ t = u := by
  induction h1 generalizing ys u with
  | done hn => cases h2 with
    | done _ => exact ⟨rfl, rfl⟩
    | err hn2 => rw [hn] at hn2; cases hn2
    | item hn2 _ => rw [hn] at hn2; cases hn2
  | err hn => cases h2 with
    | done hn2 => rw [hn] at hn2; cases hn2
    | err hn2 => rw [hn] at hn2; cases hn2; exact ⟨rfl, rfl⟩
    | item hn2 _ => rw [hn] at hn2; cases hn2
  | item hn _ ih => cases h2 with
    | done hn2 => rw [hn] at hn2; cases hn2
    | err hn2 => rw [hn] at hn2; cases hn2
    | item hn2 hy2 =>
      rw [hn] at hn2
      simp only [PQF.Step.item.injEq] at hn2
      obtain ⟨rfl, rfl⟩ := hn2
      obtain ⟨rfl, rfl⟩ := ih hy2
      exact ⟨rfl, rfl⟩

/-! ### `init` -/

theorem initAux_ok : ∀ (ins : List (FInput K V)) (h : Heap K V) (n : Nat) (h' : Heap K V),
    PQF.initAux cmp h n ins = .ok h' →
      h' = PQ.initAux cmp h n (ins.map FInput.avail) ∧ ∀ i ∈ ins, i.avail = [] → i.endErr = none := by
  intro ins
  induction ins with
  | nil =>
    intro h n h' hi
    simp only [PQF.initAux, Except.ok.injEq] at hi
    simp [PQ.initAux, hi]
  | cons inp ins ih =>
    intro h n h' hi
    unfold PQF.initAux at hi
    cases ha : inp.avail with
    | nil =>
      rw [ha] at hi
      simp only [] at hi
      cases he : inp.endErr with
      | some e => rw [he] at hi; cases hi
      | none =>
        rw [he] at hi
        simp only [] at hi
        obtain ⟨h1, h2⟩ := ih h (n + 1) h' hi
        refine ⟨by simp [ha, PQ.initAux, h1], ?_⟩
        intro i hmem hav
        rcases List.mem_cons.mp hmem with rfl | hm
        · exact he
        · exact h2 i hm hav
    | cons kv rest =>
      obtain ⟨k, v⟩ := kv
      rw [ha] at hi
      simp only [] at hi
      obtain ⟨h1, h2⟩ := ih _ (n + 1) h' hi
      refine ⟨by simp [ha, PQ.initAux, h1], ?_⟩
      intro i hmem hav
      rcases List.mem_cons.mp hmem with rfl | hm
      · rw [ha] at hav; cases hav
      · exact h2 i hm hav

theorem initAux_err : ∀ (ins : List (FInput K V)) (h : Heap K V) (n : Nat) (e : Err),
    PQF.initAux cmp h n ins = .error e → ∃ i ∈ ins, i.endErr = some e := by
  intro ins
  induction ins with
  | nil => intro h n e hi; simp [PQF.initAux] at hi
  | cons inp ins ih =>
    intro h n e hi
    unfold PQF.initAux at hi
    cases ha : inp.avail with
    | nil =>
      rw [ha] at hi
      simp only [] at hi
      cases he : inp.endErr with
      | some e' =>
        rw [he] at hi
        simp only [Except.error.injEq] at hi
        exact ⟨inp, List.mem_cons_self, by rw [he, hi]⟩
      | none =>
        rw [he] at hi
        obtain ⟨i, hm, hie⟩ := ih h (n + 1) e hi
        exact ⟨i, List.mem_cons_of_mem _ hm, hie⟩
    | cons kv rest =>
      obtain ⟨k, v⟩ := kv
      rw [ha] at hi
      obtain ⟨i, hm, hie⟩ := ih _ (n + 1) e hi
      exact ⟨i, List.mem_cons_of_mem _ hm, hie⟩

theorem initAux_clean : ∀ (ins : List (FInput K V)) (h : Heap K V) (n : Nat),
    (∀ i ∈ ins, i.endErr = none) →
      PQF.initAux cmp h n ins = .ok (PQ.initAux cmp h n (ins.map FInput.items)) := by
  intro ins
  induction ins with
  | nil => intro h n _; simp [PQF.initAux, PQ.initAux]
  | cons inp ins ih =>
    intro h n hc
    have hinp := hc inp List.mem_cons_self
    have hrest : ∀ i ∈ ins, i.endErr = none := fun i hi => hc i (List.mem_cons_of_mem _ hi)
    have hav := avail_of_clean hinp
    unfold PQF.initAux
    rw [hav, hinp]
    cases hitems : inp.items with
    | nil => simp only [List.map_cons, hitems, PQ.initAux]; exact ih h (n + 1) hrest
    | cons kv rest =>
      obtain ⟨k, v⟩ := kv
      simp only [List.map_cons, hitems, PQ.initAux]
      exact ih _ (n + 1) hrest

/-- a non-exhausted input has its element on the initial heap -/
theorem raw_has_ctx : ∀ (ls : List (List (K × V))) (n j : Nat) (hj : j < ls.length), ls[j] ≠ [] →
    ∃ e ∈ raw n ls, e.ctx = n + j := by
  intro ls
  induction ls with
  | nil => intro n j hj; simp at hj
  | cons l ls ih =>
    intro n j hj hne
    cases j with
    | zero =>
      simp only [List.getElem_cons_zero] at hne
      cases l with
      | nil => exact absurd rfl hne
      | cons kv rest =>
        obtain ⟨k, v⟩ := kv
        rw [raw]
        exact ⟨_, List.mem_cons_self, rfl⟩
    | succ j' =>
      simp only [List.getElem_cons_succ] at hne
      simp only [List.length_cons] at hj
      obtain ⟨e, he, hc⟩ := ih (n + 1) j' (by omega) hne
      cases l with
      | nil => rw [raw]; exact ⟨e, he, by omega⟩
      | cons kv rest =>
        obtain ⟨k, v⟩ := kv
        rw [raw]
        exact ⟨e, List.mem_cons_of_mem _ he, by omega⟩

theorem pendingCount_init (hl : LawfulCmp cmp) (ls : List (List (K × V))) :
    PQF.pendingCount (PQ.init cmp ls) = PQ.total ls := by
  obtain ⟨_, hp⟩ := init_spec hl ls
  rw [pendingCount_eq, (pending_perm hp).length_eq, pending_raw, taggedFrom_length]

/-! ### summary for the callers -/

theorem endErrOf_clean {ins : List (FInput K V)} (hc : ∀ i ∈ ins, i.endErr = none) (c : Nat) :
    PQF.endErrOf ins c = none := by
  unfold PQF.endErrOf
  cases h : ins[c]? with
  | none => rfl
  | some i => exact hc i (List.mem_of_getElem? h)

/-- `init` failed: some input's very first `Next` failed -/
theorem init_err (ins : List (FInput K V)) (e : Err) (hi : PQF.init cmp ins = .error e) :
    ∃ i ∈ ins, i.endErr = some e := initAux_err ins [] 0 e hi

/-- `init` succeeded: the heap is the infallible heap over the available items, and the sequence of
`Next` results exists; if it ends in Done, no input has a reachable fault and the items are the complete
merge; if it ends in an error, that is some input's fault. -/
theorem init_ok (hl : LawfulCmp cmp) (ins : List (FInput K V)) (h : Heap K V)
    (hi : PQF.init cmp ins = .ok h) :
    HeapOrd cmp h ∧ PQF.pendingCount h = PQ.total (ins.map FInput.avail) ∧
    ∃ xs t, Yields cmp (PQF.endErrOf ins) h xs t ∧ xs.length ≤ PQF.pendingCount h ∧
      (t = .done → (∀ i ∈ ins, i.endErr = none) ∧ xs = PQ.drain cmp (ins.map FInput.items)) ∧
      (∀ e, t = .err e → ∃ i ∈ ins, i.endErr = some e) := by
  obtain ⟨hh, hempty⟩ := initAux_ok ins [] 0 h hi
  have hh' : h = PQ.init cmp (ins.map FInput.avail) := hh
  obtain ⟨ho, hp⟩ := init_spec hl (ins.map FInput.avail)
  rw [← hh'] at ho hp
  have hcount : PQF.pendingCount h = PQ.total (ins.map FInput.avail) := by
    rw [hh']; exact pendingCount_init hl _
  refine ⟨ho, hcount, _, _, run_yields hl (PQF.pendingCount h + 1) h ho (by omega), ?_, ?_, ?_⟩
  · exact yields_length hl ho (run_yields hl (PQF.pendingCount h + 1) h ho (by omega))
  · intro ht
    have hy := run_yields (ee := PQF.endErrOf ins) hl (PQF.pendingCount h + 1) h ho (by omega)
    obtain ⟨hclean, hdrain⟩ := yields_done hl ho hy ht
    have hall : ∀ i ∈ ins, i.endErr = none := by
      intro i hmem
      by_cases hav : i.avail = []
      · exact hempty i hmem hav
      · obtain ⟨j, hj, hij⟩ := List.getElem_of_mem hmem
        have hj' : j < (ins.map FInput.avail).length := by simpa using hj
        have hne : (ins.map FInput.avail)[j] ≠ [] := by simpa [hij] using hav
        obtain ⟨e, he, hc⟩ := raw_has_ctx (ins.map FInput.avail) 0 j hj' hne
        have hmemh : e ∈ h := hp.mem_iff.mpr he
        have := hclean e hmemh
        rw [hc] at this
        simp only [Nat.zero_add, PQF.endErrOf, List.getElem?_eq_getElem hj, hij, Option.bind_some] at this
        exact this
    refine ⟨hall, ?_⟩
    have hmap : ins.map FInput.avail = ins.map FInput.items :=
      List.map_congr_left fun i hi => avail_of_clean (hall i hi)
    have hlen := yields_length hl ho hy
    have := hdrain (PQ.total (ins.map FInput.avail) + 1) (by omega)
    rw [← this, hh', hmap]
    rfl
  · intro e ht
    have hy := run_yields (ee := PQF.endErrOf ins) hl (PQF.pendingCount h + 1) h ho (by omega)
    obtain ⟨el, _, he⟩ := yields_err hl ho hy ht
    unfold PQF.endErrOf at he
    cases hg : ins[el.ctx]? with
    | none => rw [hg] at he; cases he
    | some i =>
      rw [hg] at he
      exact ⟨i, List.mem_of_getElem? hg, he⟩

/-- no reachable fault anywhere: `init` succeeds with the infallible heap and the `Next` results are exactly
`PQ.drain`, ending in Done — the fallible heap coincides with the one the C16 theorems are about -/
theorem init_clean (hl : LawfulCmp cmp) (ins : List (FInput K V)) (hc : ∀ i ∈ ins, i.endErr = none) :
    PQF.init cmp ins = .ok (PQ.init cmp (ins.map FInput.items)) ∧
    PQF.pendingCount (PQ.init cmp (ins.map FInput.items)) = PQ.total (ins.map FInput.items) ∧
    HeapOrd cmp (PQ.init cmp (ins.map FInput.items)) ∧
    Yields cmp (PQF.endErrOf ins) (PQ.init cmp (ins.map FInput.items))
      (PQ.drain cmp (ins.map FInput.items)) .done := by
  obtain ⟨ho, _⟩ := init_spec hl (ins.map FInput.items)
  have hcount := pendingCount_init hl (ins.map FInput.items)
  refine ⟨initAux_clean ins [] 0 hc, hcount, ho, ?_⟩
  exact yields_clean hl _ _ ho (endErrOf_clean hc) (by omega)

/-- `run` (the executable form) coincides with `PQ.drain` when nothing fails -/
theorem run_eq_drain (hl : LawfulCmp cmp) (ins : List (FInput K V)) (hc : ∀ i ∈ ins, i.endErr = none) :
    PQF.run cmp (PQF.endErrOf ins) (PQ.total (ins.map FInput.items) + 1) (PQ.init cmp (ins.map FInput.items))
      = (PQ.drain cmp (ins.map FInput.items), .done) := by
  obtain ⟨_, hcount, ho, hy⟩ := init_clean hl ins hc
  have hr := run_yields (ee := PQF.endErrOf ins) hl (PQ.total (ins.map FInput.items) + 1) _ ho (by omega)
  obtain ⟨h1, h2⟩ := yields_det hr hy
  exact Prod.ext h1 h2

end SST.Proofs.FH
