/-
Proofs for SST/Model/TableDirBytes.lean, part 1: the directory image after every prefix of a table writer's calls.
-/
import SST.Model.TableDirBytes
import SST.Proofs.SSTableReader
namespace SST.Proofs.TblDir
open SST SST.TblDir Generated SST.Proofs SST.Proofs.Sst

/-! ## image algebra -/

@[simp] theorem set_dir (img : DirImage) (f : File) (o : Option Bytes) : (img.set f o).dir = img.dir := by
  cases f <;> rfl

@[simp] theorem get_set_same (img : DirImage) (f : File) (o : Option Bytes) : (img.set f o).get f = o := by
  cases f <;> rfl

theorem get_set_other (img : DirImage) (f g : File) (o : Option Bytes) (h : g ≠ f) : (img.set f o).get g = img.get g := by
  cases f <;> cases g <;> first | rfl | exact absurd rfl h

@[simp] theorem set_set (img : DirImage) (f : File) (a b : Option Bytes) : (img.set f a).set f b = img.set f b := by
  cases f <;> rfl

theorem set_get_self (img : DirImage) (f : File) : img.set f (img.get f) = img := by
  cases f <;> rfl

theorem applyCalls_append (img : DirImage) (a b : List FsCall) :
    applyCalls img (a ++ b) = applyCalls (applyCalls img a) b := by
  unfold applyCalls; rw [List.foldl_append]

@[simp] theorem applyCalls_nil (img : DirImage) : applyCalls img [] = img := rfl

@[simp] theorem applyCalls_cons (img : DirImage) (c : FsCall) (cs : List FsCall) :
    applyCalls img (c :: cs) = applyCalls (applyCall img c) cs := rfl

theorem apply_write (img : DirImage) (f : File) (old bs : Bytes) (hd : img.dir = true) (hg : img.get f = some old) :
    applyCall img (.write f bs) = img.set f (some (old ++ bs)) := by
  simp [applyCall, hd, hg]

/-! ## the buffered writers' calls -/

theorem emit_apply (f : File) (stream : Bytes) (avail : Nat) :
    ∀ (ns : List Nat) (w : Nat) (img : DirImage), img.dir = true → img.get f = some (stream.take w) →
      applyCalls img (emit f stream avail ns w).1 = img.set f (some (stream.take (emit f stream avail ns w).2)) := by
  intro ns
  induction ns with
  | nil => intro w img _ hg; simp [emit, ← hg, set_get_self]
  | cons n ns ih =>
    intro w img hd hg
    simp only [emit]
    by_cases hm : min n (avail - w) = 0
    · rw [if_pos hm, hm, Nat.add_zero]
      exact ih w img hd hg
    · rw [if_neg hm, applyCalls_cons, apply_write img f _ _ hd hg, ← List.take_add]
      rw [ih (w + min n (avail - w)) _ (by simp [hd]) (by simp), set_set]

theorem emit_mem (f : File) (stream : Bytes) (avail : Nat) :
    ∀ (ns : List Nat) (w : Nat), ∀ c ∈ (emit f stream avail ns w).1, ∃ bs, c = .write f bs := by
  intro ns
  induction ns with
  | nil => intro w c hc; simp [emit] at hc
  | cons n ns ih =>
    intro w c hc
    simp only [emit] at hc
    split at hc
    · exact ih _ c hc
    · rcases List.mem_cons.mp hc with rfl | hc
      · exact ⟨_, rfl⟩
      · exact ih _ c hc

theorem body_apply (cfg : SstCfg) (T : Table) :
    ∀ (kvs : List (Bytes × GoBytes)) (w : SstW) (chs : List (List Nat × List Nat)) (dw iw : Nat) (img : DirImage),
      img.dir = true → img.data = some (T.data.take dw) → img.index = some (T.index.take iw) →
      applyCalls img (bodyCalls cfg T w kvs chs dw iw).1 =
        { img with data := some (T.data.take (bodyCalls cfg T w kvs chs dw iw).2.1),
                   index := some (T.index.take (bodyCalls cfg T w kvs chs dw iw).2.2) } := by
  intro kvs
  induction kvs with
  | nil =>
    intro w chs dw iw img _ h1 h2
    simp only [bodyCalls, applyCalls_nil]
    rw [← h1, ← h2]
  | cons p rest ih =>
    intro w chs dw iw img hd h1 h2
    obtain ⟨k, v⟩ := p
    simp only [bodyCalls]
    rw [applyCalls_append, applyCalls_append]
    rw [emit_apply .data T.data _ _ dw img hd h1]
    rw [emit_apply .index T.index _ _ iw _ (by simp [hd]) (by simpa [DirImage.set, DirImage.get] using h2)]
    rw [ih _ _ _ _ _ (by simp [hd]) (by simp [DirImage.set]) (by simp [DirImage.set])]
    simp [DirImage.set]

theorem body_mem (cfg : SstCfg) (T : Table) :
    ∀ (kvs : List (Bytes × GoBytes)) (w : SstW) (chs : List (List Nat × List Nat)) (dw iw : Nat),
      ∀ c ∈ (bodyCalls cfg T w kvs chs dw iw).1, (∃ bs, c = .write .data bs) ∨ (∃ bs, c = .write .index bs) := by
  intro kvs
  induction kvs with
  | nil => intro w chs dw iw c hc; simp [bodyCalls] at hc
  | cons p rest ih =>
    intro w chs dw iw c hc
    obtain ⟨k, v⟩ := p
    simp only [bodyCalls, List.mem_append] at hc
    rcases hc with (hc | hc) | hc
    · exact .inl (emit_mem _ _ _ _ _ c hc)
    · exact .inr (emit_mem _ _ _ _ _ c hc)
    · exact ih _ _ _ _ c hc

theorem flush_apply (f : File) (s : Bytes) (w : Nat) (img : DirImage) (hd : img.dir = true)
    (hg : img.get f = some (s.take w)) : applyCalls img (flushCall f s w) = img.set f (some s) := by
  unfold flushCall
  split
  · rename_i he
    have : s.drop w = [] := by simpa using he
    have hs : s.take w = s := by
      have := List.take_append_drop w s
      rw [‹s.drop w = []›, List.append_nil] at this; exact this
    rw [applyCalls_nil, ← hs, ← hg, set_get_self]
  · rw [applyCalls_cons, applyCalls_nil, apply_write img f _ _ hd hg, List.take_append_drop]

theorem flush_mem (f : File) (s : Bytes) (w : Nat) : ∀ c ∈ flushCall f s w, ∃ bs, c = .write f bs := by
  intro c hc
  unfold flushCall at hc
  split at hc
  · cases hc
  · simp at hc; exact ⟨_, hc⟩

theorem bloom_writes (chunks : List Bytes) :
    ∀ (img : DirImage) (old : Bytes), img.dir = true → img.bloom = some old →
      applyCalls img (chunks.map (.write .bloom)) = { img with bloom := some (old ++ chunks.flatten) } := by
  induction chunks with
  | nil => intro img old _ hb; simp [← hb]
  | cons c cs ih =>
    intro img old hd hb
    rw [List.map_cons, applyCalls_cons, apply_write img .bloom old c hd hb]
    rw [ih _ (old ++ c) (by simp [hd]) (by simp [DirImage.set])]
    simp [DirImage.set, List.append_assoc]

/-! ## calls that leave the (empty) metadata file alone -/

/-- a call of a writer run between the creation of meta.pb.bin and the metadata write -/
def Safe : FsCall → Prop
  | .write f _ => f ≠ .metaf
  | .create f _ => f ≠ .metaf
  | .close _ => True
  | _ => False

theorem safe_step (img : DirImage) (c : FsCall) (hs : Safe c) (hd : img.dir = true) :
    (applyCall img c).dir = true ∧ (applyCall img c).metaf = img.metaf := by
  cases c with
  | mkdir => exact absurd hs (by simp [Safe])
  | rmdir => exact absurd hs (by simp [Safe])
  | unlink f => exact absurd hs (by simp [Safe])
  | close f => exact ⟨hd, rfl⟩
  | create f t =>
    have hf : f ≠ .metaf := hs
    simp only [applyCall, hd]
    cases hg : img.get f <;> cases t <;> cases f <;> simp_all [DirImage.set]
  | write f bs =>
    have hf : f ≠ .metaf := hs
    simp only [applyCall, hd]
    cases hg : img.get f <;> cases f <;> simp_all [DirImage.set]

theorem safe_preserves : ∀ (cs : List FsCall) (img : DirImage), (∀ c ∈ cs, Safe c) → img.dir = true →
    (applyCalls img cs).dir = true ∧ (applyCalls img cs).metaf = img.metaf := by
  intro cs
  induction cs with
  | nil => intro img _ hd; exact ⟨hd, rfl⟩
  | cons c cs ih =>
    intro img hs hd
    obtain ⟨h1, h2⟩ := safe_step img c (hs c (by simp)) hd
    obtain ⟨h3, h4⟩ := ih (applyCall img c) (fun x hx => hs x (by simp [hx])) h1
    exact ⟨h3, h4.trans h2⟩

/-! ## the images of a whole run -/

/-- the pairs the writer accepts of a `WriteNext` program -/
def accOf (cfg : SstCfg) (kvs : List KV) : List KV :=
  accepted cfg.cmp (kvs.map fun p => { key := p.1, value := p.2, fault := .none })

theorem writeTable_tableOf (cfg : SstCfg) (kvs : List KV) : writeTable cfg kvs = tableOf cfg (accOf cfg kvs) :=
  (metadata_truthful cfg _).2.2.1

theorem take_header (ct : Nat) (rest : Bytes) :
    (fileHeader currentVersion ct ++ rest).take fileHeaderSize = fileHeader currentVersion ct :=
  List.take_left' (fileHeader_length _ _)

theorem data_take_header (cfg : SstCfg) (kvs : List KV) :
    (writeTable cfg kvs).data.take fileHeaderSize = fileHeader currentVersion cfg.dct := by
  rw [writeTable_tableOf]; exact take_header _ _

theorem index_take_header (cfg : SstCfg) (kvs : List KV) :
    (writeTable cfg kvs).index.take fileHeaderSize = fileHeader currentVersion cfg.ict := by
  rw [writeTable_tableOf]; exact take_header _ _

/-- the directory when `Open` of the stream writer has returned -/
def openImg (cfg : SstCfg) : DirImage :=
  { dir := true, index := some (fileHeader currentVersion cfg.ict), data := some (fileHeader currentVersion cfg.dct),
    metaf := some [] }

theorem apply_open (cfg : SstCfg) : applyCalls {} (.mkdir :: openCalls cfg) = openImg cfg := by
  simp [openCalls, applyCall, DirImage.get, DirImage.set, openImg]

/-- the calls between `Open` and the metadata write -/
def midCalls (cfg : SstCfg) (ch : Chunking) (kvs : List KV) : List FsCall :=
  let T := writeTable cfg kvs
  let b := bodyCalls cfg T (SstW.open cfg) kvs ch.recs fileHeaderSize fileHeaderSize
  b.1 ++ closeCalls T ch.bloom b.2.1 b.2.2

theorem flushCalls_eq (cfg : SstCfg) (ch : Chunking) (kvs : List KV) :
    flushCalls cfg ch kvs = (.mkdir :: openCalls cfg) ++ midCalls cfg ch kvs ++ metaCalls (writeTable cfg kvs) := by
  simp [flushCalls, writerCalls, writerInit, midCalls, List.append_assoc]

theorem mid_safe (cfg : SstCfg) (ch : Chunking) (kvs : List KV) : ∀ c ∈ midCalls cfg ch kvs, Safe c := by
  intro c hc
  simp only [midCalls, closeCalls, List.mem_append, List.mem_cons, List.mem_map, List.not_mem_nil, or_false] at hc
  rcases hc with hc | ((((((hc | hc) | hc) | hc) | hc) | hc) | hc)
  · rcases body_mem _ _ _ _ _ _ _ c hc with ⟨bs, rfl⟩ | ⟨bs, rfl⟩ <;> simp [Safe]
  · obtain ⟨bs, rfl⟩ := flush_mem _ _ _ c hc; simp [Safe]
  · subst hc; simp [Safe]
  · obtain ⟨bs, rfl⟩ := flush_mem _ _ _ c hc; simp [Safe]
  · subst hc; simp [Safe]
  · subst hc; simp [Safe]
  · obtain ⟨bs, _, rfl⟩ := hc; simp [Safe]
  · subst hc; simp [Safe]

/-- everything written, metadata still empty -/
def preMetaImg (cfg : SstCfg) (ch : Chunking) (kvs : List KV) : DirImage :=
  { dir := true, index := some (writeTable cfg kvs).index, data := some (writeTable cfg kvs).data,
    metaf := some [], bloom := some ch.bloom.flatten }

/-- the directory a complete writer run leaves -/
def finalImg (cfg : SstCfg) (ch : Chunking) (kvs : List KV) : DirImage :=
  { preMetaImg cfg ch kvs with metaf := some (writeTable cfg kvs).metaf }

theorem apply_mid (cfg : SstCfg) (ch : Chunking) (kvs : List KV) :
    applyCalls (openImg cfg) (midCalls cfg ch kvs) = preMetaImg cfg ch kvs := by
  simp only [midCalls, closeCalls]
  rw [applyCalls_append]
  rw [body_apply cfg _ kvs _ _ _ _ (openImg cfg) rfl (by simp [openImg, data_take_header])
    (by simp [openImg, index_take_header])]
  simp only [applyCalls_append]
  rw [flush_apply .index _ _ _ rfl (by simp [DirImage.get])]
  simp only [applyCalls_cons, applyCalls_nil, applyCall]
  rw [flush_apply .data _ _ _ (by simp [openImg]) (by simp [DirImage.get, DirImage.set])]
  rw [bloom_writes ch.bloom _ [] (by simp [DirImage.set, DirImage.get, openImg])
    (by simp [DirImage.set, DirImage.get, openImg])]
  simp [DirImage.set, DirImage.get, openImg, preMetaImg]

theorem apply_meta (cfg : SstCfg) (ch : Chunking) (kvs : List KV) (k : Nat) (hk : 1 ≤ k) :
    applyCalls (preMetaImg cfg ch kvs) ((metaCalls (writeTable cfg kvs)).take k) = finalImg cfg ch kvs := by
  match k, hk with
  | 1, _ => simp [metaCalls, applyCall, preMetaImg, finalImg, DirImage.get, DirImage.set]
  | k + 2, _ => simp [metaCalls, applyCall, preMetaImg, finalImg, DirImage.get, DirImage.set]

theorem flushCalls_length (cfg : SstCfg) (ch : Chunking) (kvs : List KV) :
    (flushCalls cfg ch kvs).length = 6 + (midCalls cfg ch kvs).length + 2 := by
  rw [flushCalls_eq]; simp [openCalls, metaCalls]; omega

/-- the image after `n` calls of a flush, by phase -/
theorem prefix_image (cfg : SstCfg) (ch : Chunking) (kvs : List KV) (n : Nat) :
    let img := applyCalls {} ((flushCalls cfg ch kvs).take n)
    (n ≤ 6 → img = applyCalls {} ((FsCall.mkdir :: openCalls cfg).take n)) ∧
    (6 ≤ n → n + 1 < (flushCalls cfg ch kvs).length → img.dir = true ∧ img.metaf = some []) ∧
    (n + 2 = (flushCalls cfg ch kvs).length → img = preMetaImg cfg ch kvs) ∧
    ((flushCalls cfg ch kvs).length ≤ n + 1 → img = finalImg cfg ch kvs) := by
  have hlen := flushCalls_length cfg ch kvs
  have hopen : (FsCall.mkdir :: openCalls cfg).length = 6 := rfl
  intro img
  have himg : img = applyCalls {} ((flushCalls cfg ch kvs).take n) := rfl
  rw [flushCalls_eq, List.append_assoc] at himg
  refine ⟨?_, ?_, ?_, ?_⟩
  · intro h
    rw [himg, List.take_append_of_le_length (by rw [hopen]; exact h)]
  · intro h6 hn
    rw [List.take_append, applyCalls_append, List.take_of_length_le (by rw [hopen]; exact h6), apply_open,
      hopen, List.take_append_of_le_length (by omega)] at himg
    rw [himg]
    exact safe_preserves _ _ (fun c hc => mid_safe cfg ch kvs c (List.mem_of_mem_take hc)) rfl
  · intro hn
    rw [List.take_append, applyCalls_append, List.take_of_length_le (by rw [hopen]; omega), apply_open,
      hopen, List.take_append, applyCalls_append, List.take_of_length_le (by omega), apply_mid] at himg
    rw [himg, show n - 6 - (midCalls cfg ch kvs).length = 0 by omega]
    rfl
  · intro hn
    rw [List.take_append, applyCalls_append, List.take_of_length_le (by rw [hopen]; omega), apply_open,
      hopen, List.take_append, applyCalls_append, List.take_of_length_le (by omega), apply_mid] at himg
    rw [himg]
    exact apply_meta cfg ch kvs _ (by omega)

end SST.Proofs.TblDir
