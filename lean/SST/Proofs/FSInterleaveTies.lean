/-
L6-fs, interleaved: the per-thread call sequences of Model/FSInterleave.lean are the ones of the sequential model
(`flushEvs`, `rotateEvs`, `logEvs`, `compactEvs` of Model/FS.lean), the compactor works on the run `compactStep`
selects, and the history is the list of mutations of the client calls begun so far.
-/
import SST.Proofs.FSInterleaveGhost
namespace SST.Proofs.FSI
open SST SST.DBM SST.FS SST.FSI SST.Proofs.DB SST.Proofs.FS

/-- the flusher's calls are `flushEvs` -/
theorem flushCalls_eq (v : Vol) (on : Nat) (ro : List Mutation) (hp : v.s.flushPending = true) (hr : v.s.r ≠ [])
    (ho : v.walOld = some on) :
    (flushEvs v).1 = flushCalls { r := v.s.r, ro := ro, on := on, g := v.s.gen + 1, stage := 0 } := by
  unfold flushEvs flushCalls
  cases hr' : v.s.r with
  | nil => exact absurd hr' hr
  | cons p l => simp [hp, ho]

/-- the rotation's own calls (`close`, `create`, `header` moves) are the tail of `rotateEvs`; the buffer flush in
between (`torn` / `append` moves) is `drainEvs` -/
theorem rotateCalls_eq (v : Vol) :
    (rotateEvs v).1 = (flushEvs v).1 ++ drainEvs (flushEvs v).2.walCur (flushEvs v).2.queue ++
      [.walClose (flushEvs v).2.walCur, .walCreate ((flushEvs v).2.walCur + 1), .walHeader ((flushEvs v).2.walCur + 1)] := rfl

/-- a synchronous append is the `torn` move followed by the `append` move -/
theorem logCalls_eq (v : Vol) (m : Mutation) (dr : Nat) (tn : Bool) :
    (logEvs false v m dr tn).1 = [.walTorn v.walCur, .walAppend v.walCur m] := rfl

/-- the compactor's calls (merge phase, then reflect) are `compactEvs` -/
theorem compactCalls_eq (d : Disk) (hd : d.comps = []) (v : Vol) (sizes : List Nat) (jk : List (Nat × Layer))
    (hg : (v.s.tables.map (·.gen)).Pairwise (· < ·)) (pre post sel' : List Tbl) (t0 : Tbl)
    (htab : v.s.tables = pre ++ (t0 :: sel') ++ post)
    (he : compactStep v.s sizes = ({ v.s with tables :=
        pre ++ [{ gen := t0.gen, cells := mergeRun (t0 :: sel') (pre.length == 0) }] ++ post },
        (t0 :: sel').map (·.gen))) :
    (compactEvs d v sizes jk).1 =
      mergeCalls { inputs := (t0 :: sel').map (·.gen), replacement := t0.gen } (mergeRun (t0 :: sel') (pre.length == 0)) ++
        ((t0 :: sel').map (·.gen)).flatMap (fun g => rmAll g (lookupJ jk g)) ++ [.compRename kId t0.gen] := by
  have hfresh : freshId d = 1 := by simp [freshId, hd]
  rw [htab, List.map_append, List.map_append, List.pairwise_append] at hg
  obtain ⟨hg1, _, _⟩ := hg
  rw [List.pairwise_append] at hg1
  obtain ⟨_, _, hg6⟩ := hg1
  have hfind : (pre ++ [({ gen := t0.gen, cells := mergeRun (t0 :: sel') (pre.length == 0) } : Tbl)] ++ post).find?
      (fun x => x.gen == t0.gen) = some { gen := t0.gen, cells := mergeRun (t0 :: sel') (pre.length == 0) } := by
    rw [List.append_assoc, List.find?_append]
    have : pre.find? (fun x => x.gen == t0.gen) = none := by
      rw [List.find?_eq_none]
      intro t ht
      have := hg6 t.gen (List.mem_map.2 ⟨t, ht, rfl⟩) t0.gen (by simp)
      simp; omega
    rw [this]
    simp
  unfold compactEvs mergeCalls
  rw [he]
  simp only [List.map_cons, hfresh, kId]
  rw [show (({ v.s with tables := pre ++ [{ gen := t0.gen, cells := mergeRun (t0 :: sel') (pre.length == 0) }] ++ post } : State).tables.find?
    (fun x => x.gen == t0.gen)) = some { gen := t0.gen, cells := mergeRun (t0 :: sel') (pre.length == 0) } from hfind]

/-- the compactor's run is the one `compactStep` selects: the guard in `Mv.kstart` always holds -/
theorem kstart_run (tables : List Tbl) (hg : (tables.map (·.gen)).Pairwise (· < ·)) (pre post sel' : List Tbl) (t0 : Tbl)
    (htab : tables = pre ++ (t0 :: sel') ++ post) :
    (tables.takeWhile (·.gen != t0.gen)).length = pre.length ∧
      pre.length + ((t0 :: sel').map (·.gen)).length ≤ tables.length ∧
      kIns tables pre.length ((t0 :: sel').map (·.gen)).length = t0 :: sel' := by
  rw [htab, List.map_append, List.map_append, List.pairwise_append] at hg
  obtain ⟨hg1, _, _⟩ := hg
  rw [List.pairwise_append] at hg1
  obtain ⟨_, _, hg6⟩ := hg1
  have hpre : ∀ t ∈ pre, (t.gen != t0.gen) = true := by
    intro t ht
    have := hg6 t.gen (List.mem_map.2 ⟨t, ht, rfl⟩) t0.gen (by simp)
    simp; omega
  have htw : (pre ++ (t0 :: sel') ++ post).takeWhile (·.gen != t0.gen) = pre := by
    rw [List.append_assoc, List.takeWhile_append_of_pos hpre]
    simp
  refine ⟨by rw [htab, htw], by rw [htab]; simp, ?_⟩
  rw [htab]
  unfold kIns
  rw [List.append_assoc, List.drop_left, List.length_map, List.take_left]

/-! ## the history is the program -/

/-- the mutation an accepted call logs -/
def Op.accepted : Op → Option Mutation
  | .put k v _ => if k.isEmpty || v.isEmpty then none else some (.put k v)
  | .del k => some (.del k)
  | _ => none

/-- a move either leaves program and history alone, or begins the next call -/
theorem move_prog (async : Bool) (c c' : Cfg) (e : Option Ev) (mv : Mv) (hm : move async c mv = some (e, c')) :
    (c'.prog = c.prog ∧ c'.hist = c.hist) ∨
    ∃ op, c.prog = op :: c'.prog ∧ c'.hist = c.hist ++ (Op.accepted op).toList := by
  cases mv with
  | begin =>
    simp only [move] at hm
    split at hm
    · cases hm
    · rename_i _ _ _ op rest hpc hprog hnr
      right
      refine ⟨op, ?_⟩
      cases op with
      | nop =>
        simp only [Option.some.injEq, Prod.mk.injEq] at hm
        obtain ⟨_, rfl⟩ := hm
        exact ⟨hprog, by simp [Op.accepted]⟩
      | rotate =>
        simp only [Option.some.injEq, Prod.mk.injEq] at hm
        obtain ⟨_, rfl⟩ := hm
        exact ⟨hprog, by simp [Op.accepted]⟩
      | del k =>
        simp only [Option.some.injEq, Prod.mk.injEq] at hm
        obtain ⟨_, rfl⟩ := hm
        exact ⟨hprog, by simp [Op.accepted]⟩
      | put k v rot =>
        simp only at hm
        by_cases hv : (k.isEmpty || v.isEmpty) = true
        · rw [if_pos hv] at hm
          simp only [Option.some.injEq, Prod.mk.injEq] at hm
          obtain ⟨_, rfl⟩ := hm
          refine ⟨hprog, ?_⟩
          simp only [Op.accepted, hv, if_true, Option.toList, List.append_nil]
        · rw [if_neg hv] at hm
          simp only [Option.some.injEq, Prod.mk.injEq] at hm
          obtain ⟨_, rfl⟩ := hm
          refine ⟨hprog, ?_⟩
          simp only [Op.accepted, hv, Bool.false_eq_true, if_false, Option.toList]
    · cases hm
  | torn =>
    left; simp only [move] at hm
    split at hm <;> simp only [Option.some.injEq, Prod.mk.injEq, reduceCtorEq] at hm
    obtain ⟨_, rfl⟩ := hm; exact ⟨rfl, rfl⟩
  | append =>
    left; simp only [move] at hm
    split at hm
    · split at hm <;> simp only [Option.some.injEq, Prod.mk.injEq, reduceCtorEq] at hm
      obtain ⟨_, rfl⟩ := hm; exact ⟨rfl, rfl⟩
    · cases hm
  | done =>
    left; simp only [move] at hm
    split at hm
    · split at hm
      · cases hm
      · split at hm <;> simp only [Option.some.injEq, Prod.mk.injEq] at hm <;> obtain ⟨_, rfl⟩ := hm <;> exact ⟨rfl, rfl⟩
    · cases hm
  | close =>
    left; simp only [move] at hm
    split at hm <;> simp only [Option.some.injEq, Prod.mk.injEq, reduceCtorEq] at hm
    obtain ⟨_, rfl⟩ := hm; exact ⟨rfl, rfl⟩
  | create =>
    left; simp only [move] at hm
    split at hm <;> simp only [Option.some.injEq, Prod.mk.injEq, reduceCtorEq] at hm
    obtain ⟨_, rfl⟩ := hm; exact ⟨rfl, rfl⟩
  | header =>
    left; simp only [move] at hm
    split at hm <;> simp only [Option.some.injEq, Prod.mk.injEq, reduceCtorEq] at hm
    obtain ⟨_, rfl⟩ := hm; exact ⟨rfl, rfl⟩
  | handoff =>
    left; simp only [move] at hm
    split at hm
    · split at hm <;> simp only [Option.some.injEq, Prod.mk.injEq] at hm <;> obtain ⟨_, rfl⟩ := hm <;> exact ⟨rfl, rfl⟩
    · cases hm
  | fstep =>
    left; simp only [move] at hm
    split at hm
    · split at hm
      · simp only [Option.some.injEq, Prod.mk.injEq] at hm; obtain ⟨_, rfl⟩ := hm; exact ⟨rfl, rfl⟩
      · cases hm
    · cases hm
  | fadd =>
    left; simp only [move] at hm
    split at hm
    · cases hm
    · split at hm <;> simp only [Option.some.injEq, Prod.mk.injEq, reduceCtorEq] at hm
      obtain ⟨_, rfl⟩ := hm; exact ⟨rfl, rfl⟩
    · cases hm
  | kstart sizes th o =>
    left; simp only [move] at hm
    split at hm
    · split at hm
      · cases hm
      · split at hm <;> simp only [Option.some.injEq, Prod.mk.injEq, reduceCtorEq] at hm
        obtain ⟨_, rfl⟩ := hm; exact ⟨rfl, rfl⟩
    · cases hm
  | kreflect =>
    left; simp only [move] at hm
    split at hm
    · simp only [Option.some.injEq, Prod.mk.injEq] at hm; obtain ⟨_, rfl⟩ := hm; exact ⟨rfl, rfl⟩
    · cases hm
  | kstep jk =>
    left; simp only [move] at hm
    split at hm
    · split at hm
      · simp only [Option.some.injEq, Prod.mk.injEq] at hm; obtain ⟨_, rfl⟩ := hm; exact ⟨rfl, rfl⟩
      · cases hm
    · split at hm
      · split at hm <;> simp only [Option.some.injEq, Prod.mk.injEq] at hm <;> obtain ⟨_, rfl⟩ := hm <;> exact ⟨rfl, rfl⟩
      · simp only [Option.some.injEq, Prod.mk.injEq] at hm; obtain ⟨_, rfl⟩ := hm; exact ⟨rfl, rfl⟩
    · cases hm

/-- along any schedule: the calls begun so far are a prefix of the program, and the history lists their mutations -/
theorem hist_is_program (async : Bool) (sched : List Mv) : ∀ (c : Cfg) (prog0 pre : List Op),
    prog0 = pre ++ c.prog → c.hist = pre.filterMap Op.accepted →
    ∃ pre', prog0 = pre' ++ (FSI.run async c sched).prog ∧ (FSI.run async c sched).hist = pre'.filterMap Op.accepted := by
  induction sched with
  | nil => intro c prog0 pre h1 h2; exact ⟨pre, h1, h2⟩
  | cons mv rest ih =>
    intro c prog0 pre h1 h2
    simp only [FSI.run]
    cases hm : move async c mv with
    | none => exact ih c prog0 pre h1 h2
    | some r =>
      obtain ⟨e, c'⟩ := r
      rcases move_prog async c c' e mv hm with (⟨hp, hh⟩ | ⟨op, hp, hh⟩)
      · exact ih c' prog0 pre (by rw [hp]; exact h1) (by rw [hh]; exact h2)
      · refine ih c' prog0 (pre ++ [op]) (by rw [h1, hp]; simp) ?_
        rw [hh, h2, List.filterMap_append]
        cases ha : Op.accepted op <;> simp [ha]

end SST.Proofs.FSI
