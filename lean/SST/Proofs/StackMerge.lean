/-
L7, the compaction's merge: simpledb's `scanReduceLatestWinsKeepTombstones` through the machinery of C08
(`compactOf_sorted`, `groupTbl`, `mergedFrom_drain`), and what both reducers write in terms of `DBM.mergeRun`.
-/
import SST.Proofs.StackRead
import SST.Proofs.Merge
namespace SST.Proofs.Stack
open SST SST.Stack SST.Merge SST.Proofs.MergeGroup SST.Proofs.MergeSpec SST.Proofs.Merge SST.Proofs.MergeLoops

/-- nil and empty become the empty non-nil value -/
def normV : GoBytes → GoBytes
  | some (b :: bs) => some (b :: bs)
  | _ => some []

/-- `scanReduceLatestWinsKeepTombstones` as a value function -/
def keepVal : ValFn := fun vs cs => normV (lwVal vs cs)

/-- the overlay with every nil / empty value replaced by the empty non-nil value -/
def keepEmpty (m : Merge.Table) : Merge.Table := m.map fun p => (p.1, normV p.2)

theorem keep_valReducer : ValReducer Stack.scanReduceLatestWinsKeepTombstones keepVal := by
  intro k vs cs
  unfold Stack.scanReduceLatestWinsKeepTombstones scanReduceLatestWins keepVal lwVal
  generalize vs.getD (maxCtxIndex cs 0 0 0) none = x
  cases x with
  | none => simp [emitOf, bothNonNil, normV]
  | some b => cases b <;> simp [emitOf, bothNonNil, normV]

theorem keepEmpty_asc {m : Merge.Table} (ha : Asc m) : Asc (keepEmpty m) := by
  unfold keepEmpty
  show List.Pairwise _ _
  rw [List.pairwise_map]
  exact ha

theorem mem_keepEmpty {m : Merge.Table} {k : Bytes} {gv : GoBytes} :
    (k, gv) ∈ keepEmpty m ↔ ∃ v, (k, v) ∈ m ∧ gv = normV v := by
  unfold keepEmpty
  rw [List.mem_map]
  constructor
  · rintro ⟨⟨k', v⟩, hm, heq⟩
    simp only [Prod.mk.injEq] at heq
    obtain ⟨rfl, rfl⟩ := heq
    exact ⟨v, hm, rfl⟩
  · rintro ⟨v, hm, rfl⟩
    exact ⟨(k, v), hm, rfl⟩

theorem normV_some (v : GoBytes) : ∃ b, normV v = some b := by
  cases v with
  | none => exact ⟨[], rfl⟩
  | some b => cases b with
    | nil => exact ⟨[], rfl⟩
    | cons x xs => exact ⟨x :: xs, rfl⟩

/-- latest wins, nil / empty carried over as empty, over a complete sorted merge -/
theorem groupTbl_keep {Ss : List Merge.Table} {L : List TItem} (hts : ∀ t ∈ Ss, Asc t) (hm : MergedFrom Ss L) :
    groupTbl keepVal L = keepEmpty (overlay Ss) := by
  apply asc_ext_mem (groupTbl_asc keepVal L hm.sorted) (keepEmpty_asc (overlay_asc Ss))
  intro k gv
  rw [groupTbl_mem, mem_keepEmpty]
  constructor
  · rintro ⟨b, rfl, hex, hf⟩
    have := lw_newest hts hm k (sameKey_ne_nil_iff.mpr hex)
    refine ⟨_, ?_, hf.symm⟩
    rw [← tget_some_iff (overlay_asc Ss), tget_overlay hts]
    exact this
  · rintro ⟨v, hv, rfl⟩
    rw [← tget_some_iff (overlay_asc Ss), tget_overlay hts] at hv
    obtain ⟨c, t, hc, hg, _⟩ := newestValue_some_iff.mp hv
    have hin : (k, v, c) ∈ L := (hm.mem k v c).mpr ⟨t, hc, tget_mem hg⟩
    have hex : ∃ x ∈ L, x.1 = k := ⟨_, hin, rfl⟩
    have := lw_newest hts hm k (sameKey_ne_nil_iff.mpr hex)
    rw [hv] at this
    obtain ⟨b, hb⟩ := normV_some v
    refine ⟨b, hb, hex, ?_⟩
    unfold keepVal
    rw [← Option.some.inj this, hb]

/-- `MergeCompact` with simpledb's keep-tombstones reducer over all tables into a fresh writer succeeds and
writes the overlay, every tombstone / empty value as the empty non-nil value (the C08 theorem for the third
reducer) -/
theorem mergeCompact_keep (ts : List Merge.Table) (hts : ∀ t ∈ ts, Asc t) :
    (mergeCompact ((ts.map toItems).map inputOf) {} Stack.scanReduceLatestWinsKeepTombstones).1 = none ∧
    (mergeCompact ((ts.map toItems).map inputOf) {} Stack.scanReduceLatestWinsKeepTombstones).2.out
      = keepEmpty (overlay ts) := by
  rw [mergeCompact_clean_eq, compactOf_sorted keep_valReducer _
    (pq_sorted_merge goCmp Proofs.MergeOrd.goCmp_lawful (ts.map toItems) (scans_nonDesc hts)).1,
    groupTbl_keep hts (mergedFrom_drain ts hts)]
  obtain ⟨h1, h2⟩ := feed_fresh (m := keepEmpty (overlay ts)) (keepEmpty_asc (overlay_asc ts))
  exact ⟨by rw [h1], h2⟩

/-! ## the written table against `DBM.mergeRun` -/

/-- what the compaction writes for a run of tables -/
def mergedOut (drop : Bool) (kvss : List Merge.Table) : Merge.Table :=
  if drop then liveNonEmpty (overlay kvss) else keepEmpty (overlay kvss)

theorem mergedOut_asc (drop : Bool) (kvss : List Merge.Table) : Asc (mergedOut drop kvss) := by
  unfold mergedOut
  cases drop
  · exact keepEmpty_asc (overlay_asc kvss)
  · exact filter_asc _ (overlay_asc kvss)

theorem option_ext {α : Type} {a b : Option α} (h : ∀ v, a = some v ↔ b = some v) : a = b := by
  cases a with
  | none =>
    cases b with
    | none => rfl
    | some v => exact ((h v).mpr rfl).symm ▸ rfl
  | some v => exact ((h v).mp rfl).symm

theorem tget_mergedOut (drop : Bool) (kvss : List Merge.Table) (hts : ∀ t ∈ kvss, Asc t) (k : Bytes) :
    tget (mergedOut drop kvss) k = Proofs.DB.mergeVal drop (newestValue kvss k) := by
  apply option_ext
  intro gv
  rw [tget_some_iff (mergedOut_asc drop kvss)]
  unfold mergedOut
  cases drop with
  | false =>
    simp only [Bool.false_eq_true, if_false]
    rw [mem_keepEmpty]
    constructor
    · rintro ⟨v, hv, rfl⟩
      rw [← tget_some_iff (overlay_asc kvss), tget_overlay hts] at hv
      rw [hv]
      cases v with
      | none => rfl
      | some b => cases b <;> rfl
    · intro h
      cases hn : newestValue kvss k with
      | none => rw [hn] at h; cases h
      | some v =>
        refine ⟨v, by rw [← tget_some_iff (overlay_asc kvss), tget_overlay hts]; exact hn, ?_⟩
        rw [hn] at h
        cases v with
        | none => exact (Option.some.inj h).symm
        | some b => cases b <;> exact (Option.some.inj h).symm
  | true =>
    simp only [if_true]
    unfold liveNonEmpty
    rw [List.mem_filter, ← tget_some_iff (overlay_asc kvss), tget_overlay hts]
    constructor
    · rintro ⟨hv, hl⟩
      rw [hv]
      cases gv with
      | none => simp at hl
      | some b => cases b with
        | nil => simp at hl
        | cons x xs => rfl
    · intro h
      cases hn : newestValue kvss k with
      | none => rw [hn] at h; cases h
      | some v =>
        rw [hn] at h
        cases v with
        | none => cases h
        | some b => cases b with
          | nil => cases h
          | cons x xs =>
            have : gv = some (x :: xs) := (Option.some.inj h).symm
            subst this
            exact ⟨rfl, by simp⟩

theorem mergeRun_eq (run : List DBM.Tbl) (drop : Bool) :
    DBM.mergeRun run drop = (DBM.keysOf run).filterMap
      fun k' => (Proofs.DB.mergeVal drop (DBM.tablesGet run k')).map fun v => (k', v) := by
  unfold DBM.mergeRun
  congr 1
  funext k'
  cases DBM.tablesGet run k' with
  | none => rfl
  | some x =>
    cases x with
    | none => cases drop <;> rfl
    | some v => cases drop <;> by_cases hv : v.isEmpty <;> simp [Proofs.DB.mergeVal, hv]

theorem filterMap_keys_sublist {β : Type} (f : DBM.Key → Option β) : ∀ keys : List DBM.Key,
    ((keys.filterMap fun k => (f k).map fun v => (k, v)).map (·.1)).Sublist keys
  | [] => List.Sublist.slnil
  | k :: ks => by
    rw [List.filterMap_cons]
    cases f k with
    | none => exact (filterMap_keys_sublist f ks).cons _
    | some v => exact (filterMap_keys_sublist f ks).cons_cons _

theorem mergeRun_nodup (run : List DBM.Tbl) (drop : Bool) : ((DBM.mergeRun run drop).map (·.1)).Nodup := by
  rw [mergeRun_eq]
  apply List.Pairwise.sublist (filterMap_keys_sublist _ _)
  unfold DBM.keysOf
  exact nodup_eraseDups _ _ (Nat.le_refl _)

/-- the merge of a run of layer tables holds the cells the compaction writes for the decoded tables -/
theorem mergeRun_cells {kvss : List Merge.Table} {run : List DBM.Tbl}
    (h : Rel2 (fun kvs (a : DBM.Tbl) => CellsRel a.cells kvs) kvss run) (hts : ∀ t ∈ kvss, Asc t)
    (drop : Bool) : CellsRel (DBM.mergeRun run drop) (mergedOut drop kvss) :=
  ⟨mergeRun_nodup run drop, fun k => by
    rw [Proofs.DB.mergeRun_get, tget_mergedOut drop kvss hts, tablesGet_eq h]⟩

end SST.Proofs.Stack
