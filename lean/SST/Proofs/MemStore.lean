/-
Proofs for L4b (memstore): `bytes.Compare` is a consistent comparator, the reference map's algebra, and the
simulation between the pointer-based model (skip list of pointers + heap of slices) and the reference map.
The skip list is used only through `Inv`, `insert_spec` and `get_spec` of SST/Proofs/SkipList.lean.
-/
import SST.Spec.MemStore
import SST.Proofs.SkipList
namespace SST.Proofs.MemP
open SST SST.Mem

/-! ### `bytes.Compare` -/

theorem u8_lt_irrefl (a : UInt8) : ¬ a < a := by
  rw [UInt8.lt_iff_toNat_lt]; omega

theorem bytesCmp_refl : ∀ a : Bytes, bytesCmp a a = .eq
  | [] => rfl
  | x :: xs => by simp [bytesCmp, bytesCmp_refl xs]

theorem bytesCmp_eq_iff : ∀ a b : Bytes, bytesCmp a b = .eq ↔ a = b
  | [], [] => by simp [bytesCmp]
  | [], _ :: _ => by simp [bytesCmp]
  | _ :: _, [] => by simp [bytesCmp]
  | x :: xs, y :: ys => by
    unfold bytesCmp
    by_cases h1 : x < y
    · have : x ≠ y := by intro h; subst h; exact u8_lt_irrefl _ h1
      simp [h1, this]
    · by_cases h2 : y < x
      · have : x ≠ y := by intro h; subst h; exact u8_lt_irrefl _ h2
        simp [h1, h2, this]
      · have : x = y := by
          rw [UInt8.lt_iff_toNat_lt] at h1 h2
          apply UInt8.toNat_inj.1; omega
        simp [this, bytesCmp_eq_iff xs ys]

theorem bytesCmp_swap : ∀ a b : Bytes, bytesCmp a b = (bytesCmp b a).swap
  | [], [] => rfl
  | [], _ :: _ => rfl
  | _ :: _, [] => rfl
  | x :: xs, y :: ys => by
    unfold bytesCmp
    by_cases h1 : x < y
    · have h2 : ¬ y < x := by rw [UInt8.lt_iff_toNat_lt] at *; omega
      simp [h1, h2]
    · by_cases h2 : y < x
      · simp [h1, h2]
      · simp [h1, h2, bytesCmp_swap xs ys]

theorem bytesCmp_trans_lt : ∀ a b c : Bytes, bytesCmp a b = .lt → bytesCmp b c = .lt → bytesCmp a c = .lt
  | [], [], _ => by simp [bytesCmp]
  | [], _ :: _, [] => by simp [bytesCmp]
  | [], _ :: _, _ :: _ => by simp [bytesCmp]
  | _ :: _, [], _ => by simp [bytesCmp]
  | _ :: _, _ :: _, [] => by simp [bytesCmp]
  | x :: xs, y :: ys, z :: zs => by
    unfold bytesCmp
    intro h1 h2
    by_cases xy : x < y
    · by_cases yz : y < z
      · have : x < z := by rw [UInt8.lt_iff_toNat_lt] at *; omega
        simp [this]
      · by_cases zy : z < y
        · simp [yz, zy] at h2
        · have : y = z := by rw [UInt8.lt_iff_toNat_lt] at yz zy; apply UInt8.toNat_inj.1; omega
          subst this; simp [xy]
    · by_cases yx : y < x
      · simp [xy, yx] at h1
      · have : x = y := by rw [UInt8.lt_iff_toNat_lt] at xy yx; apply UInt8.toNat_inj.1; omega
        subst this
        simp only [xy, if_false] at h1
        by_cases xz : x < z
        · simp [xz]
        · by_cases zx : z < x
          · simp [xz, zx] at h2
          · simp only [xz, zx, if_false] at h2 ⊢
            exact bytesCmp_trans_lt xs ys zs h1 h2

theorem bytesCmp_lawful : LawfulCmp bytesCmp where
  refl := bytesCmp_refl
  swap := bytesCmp_swap
  trans_lt := bytesCmp_trans_lt
  eq_left := by intro a b c h; rw [(bytesCmp_eq_iff a b).1 h]

theorem goCmp_lawful : LawfulCmp goCmp where
  refl := fun a => bytesCmp_refl _
  swap := fun a b => bytesCmp_swap _ _
  trans_lt := fun a b c => bytesCmp_trans_lt _ _ _
  eq_left := by intro a b c h; unfold goCmp at *; rw [(bytesCmp_eq_iff _ _).1 h]

theorem goCmp_eq_iff (a b : GoBytes) : goCmp a b = .eq ↔ a.getD [] = b.getD [] := bytesCmp_eq_iff _ _


/-! ### the reference map -/

/-- strictly ascending reference map -/
def RSorted (r : RefMap) : Prop := r.Pairwise fun a b => bytesCmp a.1 b.1 = .lt

theorem ne_of_lt {a b : Bytes} (h : bytesCmp a b = .lt) : a ≠ b := by
  intro e; subst e; rw [bytesCmp_refl] at h; cases h

theorem get_none_of_lt (k : Bytes) : ∀ r : RefMap, (∀ e ∈ r, bytesCmp k e.1 = .lt) → RefMap.get k r = none
  | [], _ => rfl
  | (k', c) :: rest, h => by
    have h1 := h (k', c) List.mem_cons_self
    simp only [RefMap.get, if_neg (ne_of_lt h1)]
    exact get_none_of_lt k rest fun e he => h e (List.mem_cons_of_mem _ he)

theorem bytes_put (k : Bytes) (c : Cell) : ∀ r : RefMap, RSorted r →
    RefMap.bytes (RefMap.put k c r) + (match RefMap.get k r with | none => 0 | some old => old.len) =
      RefMap.bytes r + c.len + (match RefMap.get k r with | none => k.length | some _ => 0)
  | [], _ => by simp [RefMap.put, RefMap.get, RefMap.bytes]; omega
  | (k', c') :: rest, hs => by
    have hs' := List.pairwise_cons.1 hs
    simp only [RefMap.put]
    cases hc : bytesCmp k k' with
    | lt =>
      have hne : k ≠ k' := ne_of_lt hc
      have hn : RefMap.get k rest = none :=
        get_none_of_lt k rest fun e he => bytesCmp_trans_lt _ _ _ hc (hs'.1 e he)
      simp only [RefMap.get, if_neg hne, hn, RefMap.bytes]
      omega
    | eq =>
      have he : k = k' := (bytesCmp_eq_iff _ _).1 hc
      subst he
      simp only [RefMap.get, if_true, RefMap.bytes]
      omega
    | gt =>
      have hne : k ≠ k' := by intro e; subst e; rw [bytesCmp_refl] at hc; cases hc
      have ih := bytes_put k c rest hs'.2
      simp only [RefMap.get, if_neg hne, RefMap.bytes]
      omega

/-! ### abstraction: (key, pointer) lists under a pointer valuation -/

def cellOf : GoBytes → Cell
  | none => .tomb
  | some v => .val v

/-- abstraction of a (key, pointer) list under a pointer valuation -/
def viewL (f : Nat → Cell) (l : List (GoBytes × Nat)) : RefMap := l.map fun e => (e.1.getD [], f e.2)

theorem get_viewL (f : Nat → Cell) (k : GoBytes) : ∀ l : List (GoBytes × Nat),
    RefMap.get (k.getD []) (viewL f l) = (l.find? fun e => goCmp k e.1 == .eq).map fun e => f e.2
  | [] => rfl
  | (k', p) :: rest => by
    simp only [viewL, List.map_cons, RefMap.get, List.find?_cons]
    by_cases h : k.getD [] = k'.getD []
    · have : goCmp k k' = .eq := (bytesCmp_eq_iff _ _).2 h
      simp [h, this]
    · have : goCmp k k' ≠ .eq := fun e => h ((bytesCmp_eq_iff _ _).1 e)
      simp only [if_neg h]
      have hb : (goCmp k k' == Ordering.eq) = false := by simpa using this
      simp only [hb]
      exact get_viewL f k rest

theorem viewL_sortedInsert (f : Nat → Cell) (k : GoBytes) (p : Nat) : ∀ l : List (GoBytes × Nat),
    (∀ e ∈ l, goCmp k e.1 ≠ .eq) →
    viewL f (sortedInsert goCmp k p l) = RefMap.put (k.getD []) (f p) (viewL f l)
  | [], _ => rfl
  | (k', p') :: rest, h => by
    have h1 := h (k', p') List.mem_cons_self
    have ih := viewL_sortedInsert f k p rest fun e he => h e (List.mem_cons_of_mem _ he)
    simp only [sortedInsert, viewL, List.map_cons, RefMap.put]
    have hg : goCmp k k' = bytesCmp (k.getD []) (k'.getD []) := rfl
    cases hc : goCmp k k' with
    | lt => rw [← hg, hc]; simp
    | eq => exact absurd hc h1
    | gt => rw [← hg, hc]; simp only [beq_self_eq_true, if_true, List.map_cons]; simp only [viewL] at ih; rw [ih]

theorem viewL_congr (f g : Nat → Cell) (l : List (GoBytes × Nat)) (h : ∀ e ∈ l, f e.2 = g e.2) :
    viewL f l = viewL g l := by
  unfold viewL
  apply List.map_congr_left
  intro e he
  rw [h e he]

theorem viewL_update (f : Nat → Cell) (p : Nat) (c : Cell) (kk : GoBytes) : ∀ l : List (GoBytes × Nat),
    l.Pairwise (fun a b => goCmp a.1 b.1 = .lt) → (l.map (·.2)).Nodup → (kk, p) ∈ l →
    viewL (fun q => if q = p then c else f q) l = RefMap.put (kk.getD []) c (viewL f l)
  | [], _, _, hm => nomatch hm
  | (k', p') :: rest, hs, hn, hm => by
    have hs' := List.pairwise_cons.1 hs
    have hn' := List.nodup_cons.1 (by simpa using hn : (p' :: rest.map (·.2)).Nodup)
    by_cases hp : p' = p
    · subst hp
      -- the entry with pointer p is the head
      have hk : k' = kk := by
        rcases List.mem_cons.1 hm with h | h
        · exact (congrArg Prod.fst h).symm
        · exact absurd (List.mem_map_of_mem (f := (·.2)) h) hn'.1
      subst hk
      have hrest : viewL (fun q => if q = p' then c else f q) rest = viewL f rest := by
        apply viewL_congr
        intro e he
        have : e.2 ≠ p' := fun h => hn'.1 (h ▸ List.mem_map_of_mem (f := (·.2)) he)
        simp [this]
      simp only [viewL, List.map_cons, RefMap.put, bytesCmp_refl, if_true]
      simp only [viewL] at hrest
      rw [hrest]
    · have hm' : (kk, p) ∈ rest := by
        rcases List.mem_cons.1 hm with h | h
        · exact absurd (congrArg Prod.snd h).symm hp
        · exact h
      have hlt : goCmp k' kk = .lt := hs'.1 _ hm'
      have hgt : bytesCmp (kk.getD []) (k'.getD []) = .gt := by
        have : goCmp kk k' = (goCmp k' kk).swap := bytesCmp_swap _ _
        rw [hlt] at this; exact this
      have ih := viewL_update f p c kk rest hs'.2 hn'.2 hm'
      simp only [viewL, List.map_cons, RefMap.put, hgt, if_neg hp]
      simp only [viewL] at ih
      rw [ih]

end SST.Proofs.MemP
