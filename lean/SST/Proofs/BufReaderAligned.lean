/-
The point of `NewAlignedReaderBuf` (/repo commit 9c40b59): an aligned reader hands only (a suffix of) its own
buffer to the underlying reader.  In the model the underlying reader keeps a ghost log of the request lengths.
-/
import SST.Proofs.BufReaderRun
namespace SST.Buf
open SST Generated

theorem readCore_reqs (u : Under) (w : Nat) : (u.readCore w).st.reqs = u.reqs := by
  unfold Under.readCore
  cases hs : u.sched with
  | nil =>
    simp only [Under.deliver]
    cases u.rem <;> rfl
  | cons l t =>
    simp only []
    split
    · rfl
    · simp only [Under.deliver]
      cases hr : u.rem <;> simp

theorem read_reqs (u : Under) (w : Nat) : (u.read w).st.reqs = w :: u.reqs := by
  simp [Under.read, readCore_reqs]

theorem fillLoop_ownBuf : ∀ (i : Nat) (b : Rd), b.OwnBuf →
    (b.fillLoop i).OwnBuf ∧ (b.fillLoop i).cap = b.cap ∧ (b.fillLoop i).aligned = b.aligned := by
  intro i
  induction i with
  | zero => intro b h; exact ⟨h, rfl, rfl⟩
  | succ i ih =>
    intro b h
    have hown : ({ b with pend := b.pend ++ (b.under.read (b.cap - b.pend.length)).data, under := (b.under.read (b.cap - b.pend.length)).st } : Rd).OwnBuf := by
      intro r hr
      simp only [read_reqs, List.mem_cons] at hr
      rcases hr with rfl | hr
      · exact Nat.sub_le _ _
      · exact h r hr
    simp only [Rd.fillLoop]
    split
    · exact ⟨hown, rfl, rfl⟩
    · split
      · exact ⟨hown, rfl, rfl⟩
      · exact ih _ hown

theorem readByteLoop_ownBuf : ∀ (k : Nat) (b : Rd), b.OwnBuf →
    (b.readByteLoop k).2.OwnBuf ∧ (b.readByteLoop k).2.cap = b.cap ∧ (b.readByteLoop k).2.aligned = b.aligned := by
  intro k
  induction k with
  | zero => intro b h; exact ⟨h, rfl, rfl⟩
  | succ k ih =>
    intro b h
    simp only [Rd.readByteLoop]
    split
    · exact ⟨h, rfl, rfl⟩
    · split
      · exact ⟨h, rfl, rfl⟩
      · split
        · exact ⟨h, rfl, rfl⟩
        · rename_i b' hf
          simp only [Rd.fill] at hf
          split at hf
          · cases hf
          · simp only [Option.some.injEq] at hf
            subst hf
            obtain ⟨g1, g2, g3⟩ := fillLoop_ownBuf maxConsecutiveEmptyReads b h
            obtain ⟨e1, e2, e3⟩ := ih _ g1
            exact ⟨e1, e2.trans g2, e3.trans g3⟩

/-- `ReadByte` only ever asks for (a suffix of) the reader's own buffer -/
theorem readByte_ownBuf (b : Rd) (h : b.OwnBuf) :
    (b.readByte).2.OwnBuf ∧ (b.readByte).2.cap = b.cap ∧ (b.readByte).2.aligned = b.aligned :=
  readByteLoop_ownBuf 3 b h

/-- `Read(p)` of an ALIGNED reader asks for its own buffer, whatever `len p` is -/
theorem read_ownBuf (b : Rd) (n : Nat) (ha : b.aligned = true) (h : b.OwnBuf) :
    (b.read n).st.OwnBuf ∧ (b.read n).st.cap = b.cap ∧ (b.read n).st.aligned = b.aligned := by
  have hown : ({ b with under := (b.under.read b.cap).st } : Rd).OwnBuf := by
    intro r hr
    simp only [read_reqs, List.mem_cons] at hr
    rcases hr with rfl | hr
    · exact Nat.le_refl _
    · exact h r hr
  unfold Rd.read
  split
  · split
    · exact ⟨h, rfl, rfl⟩
    · exact ⟨h, rfl, rfl⟩
  · split
    · exact ⟨h, rfl, rfl⟩
    · split
      · exact ⟨h, rfl, rfl⟩
      · have hno : ¬ (n ≥ b.cap ∧ b.aligned = false) := by rw [ha]; simp
        rw [if_neg hno]
        dsimp only
        split
        · exact ⟨hown, rfl, rfl⟩
        · exact ⟨hown, rfl, rfl⟩

theorem run_ownBuf : ∀ (ops : List RdOp) (b : Rd), b.aligned = true → b.OwnBuf →
    (b.run ops).OwnBuf ∧ (b.run ops).cap = b.cap := by
  intro ops
  induction ops with
  | nil => intro b _ h; exact ⟨h, rfl⟩
  | cons op ops ih =>
    intro b ha h
    cases op with
    | readByte =>
      obtain ⟨g1, g2, g3⟩ := readByte_ownBuf b h
      obtain ⟨e1, e2⟩ := ih _ (g3.trans ha) g1
      exact ⟨e1, e2.trans g2⟩
    | read n =>
      obtain ⟨g1, g2, g3⟩ := read_ownBuf b n ha h
      obtain ⟨e1, e2⟩ := ih _ (g3.trans ha) g1
      exact ⟨e1, e2.trans g2⟩

end SST.Buf
