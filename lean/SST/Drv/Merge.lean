/-
Driver commands of the `merge` stream (C08, C11).

  merge.super nt=<n> tables=<T> probes=get:<k>,has:<k>,scan,from:<k>,range:<lo>:<hi>,...
  merge.run   nt=<n> tables=<T> op=merge|lw|skip fails=<input>:<call>,... wfails=<call>,...

<T> = tables (oldest → newest) separated by `|`, records `key:value` separated by `;`, GoBytes syntax
(`-` nil, `.` empty, hex).  Answers: one token per probe (`ok:…` / `err:<kind>` / `true` / `false`), resp.
`err=<kind|-> calls=<n> out=<k=v;…|[]>`.
-/
import SST.Model.Merge
import SST.Drv.Proto
namespace SST.Drv
open SST SST.Merge

def parseTables (a : Args) : Option (List Table) :=
  match a.nat? "nt" with
  | none => none
  | some 0 => some []
  | some n =>
    let parts := (a.getD "tables" "").splitOn "|"
    if parts.length ≠ n then none else
    parts.mapM fun t =>
      (if t.isEmpty then [] else t.splitOn ";").mapM fun r =>
        match r.splitOn ":" with
        | [k, v] => do
          let kb ← goBytesOfStr k
          let vb ← goBytesOfStr v
          pure (kb.getD [], vb)
        | _ => none

def itemsToStr (l : List Item) : String :=
  if l.isEmpty then "[]" else String.intercalate ";" (l.map fun p => goBytesToStr p.1 ++ "=" ++ goBytesToStr p.2)

def mergeKey (s : String) : Option Bytes := (goBytesOfStr s).map (·.getD [])

def mergeSuper (a : Args) : String :=
  match parseTables a with
  | none => "bad-op"
  | some ts =>
    let outs := (splitList (a.getD "probes" "")).map fun p =>
      match p.splitOn ":" with
      | ["get", k] => (match mergeKey k with
        | some kb => resToStr goBytesToStr (superGet ts kb)
        | none => "bad-op")
      | ["has", k] => (match mergeKey k with
        | some kb => resToStr toString (superContains ts kb)
        | none => "bad-op")
      | ["scan"] => resToStr itemsToStr (superScan ts)
      | ["from", k] => (match mergeKey k with
        | some kb => resToStr itemsToStr (superScanFrom ts kb)
        | none => "bad-op")
      | ["range", lo, hi] => (match mergeKey lo, mergeKey hi with
        | some l, some h => resToStr itemsToStr (superScanRange ts l h)
        | _, _ => "bad-op")
      | _ => "bad-op"
    String.intercalate " " outs

def parseFails (s : String) : Option (List (Nat × Nat)) :=
  (splitList s).mapM fun t =>
    match t.splitOn ":" with
    | [i, p] => do let a ← i.toNat?; let b ← p.toNat?; pure (a, b)
    | _ => none

def mergeRun (a : Args) : String :=
  match parseTables a, parseFails (a.getD "fails" ""), natList? (a.getD "wfails" "") with
  | some ts, some fails, some wfails =>
    let ins : List Input := (List.range ts.length).zip ts |>.map fun (i, t) =>
      { items := toItems t, failAt := (fails.find? (·.1 == i)).map (·.2), err := .io }
    let w0 : Merge.WState := { failAt := wfails }
    let r? : Option (Option Err × Merge.WState) :=
      match a.getD "op" "" with
      | "merge" => some (merge ins w0)
      | "lw" => some (mergeCompact ins w0 scanReduceLatestWins)
      | "skip" => some (mergeCompact ins w0 scanReduceLatestWinsSkipTombstones)
      | _ => none
    match r? with
    | none => "bad-op"
    | some (e, w) =>
      "err=" ++ (match e with | some e => e.toString | none => "-") ++
      " calls=" ++ toString w.calls ++
      " out=" ++ itemsToStr (w.out.map fun p => (some p.1, p.2))
  | _, _, _ => "bad-op"

end SST.Drv
