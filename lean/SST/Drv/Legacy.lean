/-
Driver commands of the legacy layer (stream `legacy`): recordio files of version 1–3 (and 4 through the same
dispatchers) and version-0 tables.

`legacy.enc v=N comp=N oracle=.. recs=<gb>,..`                    → `file=<hex> offs=o0,o1,..`   (reference encoder)
`legacy.read file=<hex> oracle=.. emptynil=0|1 prog=r,k,..`       → `open-err:<kind>` | `open:<v>:<comp> tok..`
      one token per op, `ok:<gb>` | `ok` | `err:<kind>`; the program stops at the first error
`legacy.readat file= oracle= emptynil= offs=..`                   → `open..` then `ok:<gb>` | `err:<kind>` per offset
`legacy.seeknext file= oracle= emptynil= offs=..`                 → `open..` then `ok:<off>:<gb>` | `err:<kind>` per offset
`legacy.cuts file= oracle= emptynil= cuts=n,n,.. offs=o,o,..`     → per cut length `n=<n>:<records and final error>/<readat tokens>`
`v0.enc iv= icomp= ioracle= dv= dcomp= doracle= kvs=k:v,..`       → `index=<hex> data=<hex>`      (reference layout)
`v0.read index=<hex> data=<hex> meta=<hex>|- icomp= ioracle= dcomp= doracle= cfgs=loader:onload:onread,.. probes=.. cand=max:num:den,..`
      per configuration `open-err:<kind>` | `unmodelled` | `meta=.. cand=.. <probe results>`, joined by ` || `
-/
import SST.Model.SSTableV0
import SST.Spec.SSTableV0
import SST.Drv.Sst
import SST.Drv.Rio
namespace SST.Drv.Legacy
open SST Generated SST.Legacy SST.Buf SST.Drv

def enOf (a : Args) : Bool := a.getD "emptynil" "0" == "1"

def parseRecs (s : String) : Option (List GoBytes) := (splitList s).mapM goBytesOfStr

/-- `legacy.enc` -/
def legacyEnc (a : Args) : String :=
  match a.nat? "v", a.nat? "comp", compOf a, parseRecs (a.getD "recs" "") with
  | some v, some ct, some c, some rs =>
    let offs := (List.range rs.length).map fun k => toString (offsetOfL v c rs k)
    s!"file={toHex (encFileL v c ct rs)} offs={String.intercalate "," offs}"
  | _, _, _, _ => "bad-op"

/-- open a file: version, compression code and compressor from its header -/
def withFileL (a : Args) (k : Nat → Nat → Compression → Bytes → String) : String :=
  match (a.get? "file").bind fromHex with
  | none => "bad-op"
  | some file =>
    match parseFileHeader file with
    | .error e => "open-err:" ++ e.toString
    | .ok (v, ct) =>
      match compOf (("comp", toString ct) :: a) with
      | none => "bad-op"
      | some c => k v ct c file

def routStr : ROut → String
  | .record r => "ok:" ++ goBytesToStr r
  | .skipped => "ok"
  | .fail e => "err:" ++ e.toString

def parseProg (s : String) : Option (List ROp) :=
  (splitList s).mapM fun t => if t == "r" then some ROp.read else if t == "k" then some ROp.skip else none

def joinToks (hd : String) (toks : List String) : String := String.intercalate " " (hd :: toks)

/-- `legacy.read` -/
def legacyRead (a : Args) : String :=
  withFileL a fun v ct c file =>
    match parseProg (a.getD "prog" "") with
    | none => "bad-op"
    | some prog => joinToks s!"open:{v}:{ct}" ((runL (enOf a) v c file fileHeaderSize prog).map routStr)

/-- `legacy.readat` -/
def legacyReadAt (a : Args) : String :=
  withFileL a fun v ct c file =>
    match natList? (a.getD "offs" "") with
    | none => "bad-op"
    | some offs =>
      joinToks s!"open:{v}:{ct}" (offs.map fun o => resToStr goBytesToStr (readAtL (enOf a) v c file o))

/-- `legacy.seeknext` -/
def legacySeekNext (a : Args) : String :=
  withFileL a fun v ct c file =>
    match natList? (a.getD "offs" "") with
    | none => "bad-op"
    | some offs =>
      joinToks s!"open:{v}:{ct}" (offs.map fun o =>
        resToStr (fun (p : Nat × GoBytes) => s!"{p.1}:{goBytesToStr p.2}") (seekNextL (enOf a) v c file o))

def readAllStr (r : List GoBytes × Err) : String :=
  "[" ++ String.intercalate ";" (r.1.map goBytesToStr) ++ "]" ++ r.2.toString

/-- `legacy.cuts`: the file cut at each of the given lengths, read sequentially to the first error and at each of
the given offsets.  The compressor table is the one of the intact file. -/
def legacyCuts (a : Args) : String :=
  match (a.get? "file").bind fromHex, natList? (a.getD "cuts" ""), natList? (a.getD "offs" ""),
      parseOracle (a.getD "oracle" "") with
  | some file, some cuts, some offs, some tab =>
    let comps : Nat → Compression := fun ct => if ct = 0 then none else some (oracleComp tab)
    String.intercalate " " (cuts.map fun n =>
      let f := file.take n
      let seq := readAllStr (openReadAllL (enOf a) comps f)
      let at_ :=
        match parseFileHeader f with
        | .error e => "open-err:" ++ e.toString
        | .ok (v, ct) =>
          String.intercalate "," (offs.map fun o => resToStr goBytesToStr (readAtL (enOf a) v (comps ct) f o))
      s!"n={n}:{seq}/{at_}")
  | _, _, _, _ => "bad-op"

/-! ## version-0 tables -/

def parseKVs (s : String) : Option (List KV) :=
  (splitList s).mapM fun t =>
    match t.splitOn ":" with
    | [k, v] => do
      let kb ← goBytesOfStr k
      let vb ← goBytesOfStr v
      pure (kb.getD [], vb)
    | _ => none

def compsOfArgs (a : Args) : Option (Nat → Compression) := do
  let dct ← a.nat? "dcomp"
  let ict ← a.nat? "icomp"
  let dtab ← parseOracle (a.getD "doracle" "")
  let itab ← parseOracle (a.getD "ioracle" "")
  pure (compsOf dct dtab ict itab)

/-- `v0.enc` -/
def v0Enc (a : Args) : String :=
  match compsOfArgs a, a.nat? "iv", a.nat? "dv", a.nat? "icomp", a.nat? "dcomp", parseKVs (a.getD "kvs" "") with
  | some comps, some iv, some dv, some ict, some dct, some kvs =>
    let cfg : V0.Cfg := { iv := iv, ic := comps ict, ict := ict, dv := dv, dc := comps dct, dct := dct }
    let t := V0.filesOf cfg kvs none
    s!"index={goBytesToStr (some t.index)} data={goBytesToStr (some t.data)}"
  | _, _, _, _, _, _ => "bad-op"

/-- probes run in order on one version-0 reader (the index is threaded as in `sst.read`) -/
def runProbesV0 (dcs : Nat → Compression) (r : V0.Reader) : Index → List String → List String
  | _, [] => []
  | idx, p :: ps =>
    match p.splitOn ":" with
    | ["get", k] =>
      match keyArg k with
      | some kb => let (idx', o) := r.get idx kb; optRes goBytesToStr o :: runProbesV0 dcs r idx' ps
      | none => ["bad-op"]
    | ["has", k, b] =>
      match keyArg k with
      | some kb =>
        let r' : V0.Reader := { r with bloom := if b == "x" then none else some (fun _ => b == "1") }
        let (idx', o) := r'.contains idx kb
        optRes toString o :: runProbesV0 dcs r idx' ps
      | none => ["bad-op"]
    | ["scan"] => exScanStr (r.scan dcs idx) :: runProbesV0 dcs r idx ps
    | ["from", k] =>
      match keyArg k with
      | some kb => let (idx', o) := r.scanFrom idx kb; exScanStr o :: runProbesV0 dcs r idx' ps
      | none => ["bad-op"]
    | ["range", lo, hi] =>
      match keyArg lo, keyArg hi with
      | some l, some h => let (idx', o) := r.scanRange idx l h; exScanStr o :: runProbesV0 dcs r idx' ps
      | _, _ => ["bad-op"]
    | _ => ["bad-op"]

/-- `max:num:den` → the options the candidate test looks at -/
def parseCand (s : String) : Option (List DBM.Opts) :=
  (splitList s).mapM fun t =>
    match t.splitOn ":" with
    | [m, n, d] => do
      let m ← m.toNat?
      let n ← n.toNat?
      let d ← d.toNat?
      pure { maxSize := m, ratioNum := n, ratioDen := d }
    | _ => none

def filesOfArgs (a : Args) : Option V0.Files := do
  let ib ← (a.get? "index").bind goBytesOfStr
  let db ← (a.get? "data").bind goBytesOfStr
  let m ← a.get? "meta"
  let mf ← (if m == "-" then some none else (goBytesOfStr m).map fun x => some (x.getD []))
  pure { index := ib.getD [], data := db.getD [], metaf := mf }

/-- `v0.read` -/
def v0Read (a : Args) : String :=
  match compsOfArgs a, filesOfArgs a, parseCand (a.getD "cand" "") with
  | some comps, some t, some cands =>
    let probes := splitList (a.getD "probes" "")
    let outs := (splitList (a.getD "cfgs" "")).map fun c =>
      match c.splitOn ":" with
      | [l, onload, onread] =>
        match loaderOf l with
        | none => "bad-op"
        | some lk =>
          let o : ReadOpts := { skipHashOnLoad := onload == "0", skipHashOnRead := onread == "0" }
          match V0.openTableV0 comps lk o t none with
          | none => "unmodelled"
          | some (.error e) => "open-err:" ++ e.toString
          | some (.ok (r, idx)) =>
            let cs := cands.map fun o => if V0.candidateV0 o r then "1" else "0"
            "meta=" ++ metaStr r.md ++ " cand=" ++ String.intercalate "," cs ++ " " ++
              String.intercalate " " (runProbesV0 comps r idx probes)
      | _ => "bad-op"
    String.intercalate " || " outs
  | _, _, _ => "bad-op"

end SST.Drv.Legacy
