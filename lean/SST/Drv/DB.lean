import SST.Model.DB
import SST.Drv.Proto
namespace SST.Drv
open SST SST.DBM

def resStr : Res → String
  | .ok => "ok"
  | .value v => "val:" ++ goBytesToStr (some v)
  | .notFound => "notfound"
  | .rejected => "rejected"
  | .notOpen => "notopen"

def natsOf (s : String) : Option (List Nat) :=
  (if s.isEmpty then [] else s.splitOn ";").mapM String.toNat?

def parseStep (t : String) : Option (Option Step) :=   -- `some none` = the pseudo step `tables`
  match t.splitOn ":" with
  | ["open", th, mx, rn, rd] => do
    let th ← th.toInt?
    let mx ← mx.toNat?
    let rn ← rn.toNat?
    let rd ← rd.toNat?
    pure (some (.reopen { threshold := th, maxSize := mx, ratioNum := rn, ratioDen := rd }))
  | ["pb", k, v, r] => do
    let k ← goBytesOfStr k
    let v ← goBytesOfStr v
    pure (some (.putB k v (r == "1")))
  | ["ps", k, v, r] => do
    let k ← goBytesOfStr k
    let v ← goBytesOfStr v
    pure (some (.putS (k.getD []) (v.getD []) (r == "1")))
  | ["db", k] => do let k ← goBytesOfStr k; pure (some (.delB k))
  | ["ds", k] => do let k ← goBytesOfStr k; pure (some (.delS (k.getD [])))
  | ["g", k] => do let k ← goBytesOfStr k; pure (some (.get (k.getD [])))
  | ["rot"] => some (some .rotate)
  | ["flush"] => some (some .flush)
  | ["compact", sz] => do let sz ← natsOf sz; pure (some (.compact sz))
  | ["close"] => some (some .close)
  | ["tables"] => some none
  | _ => none

def gensStr (l : List Nat) : String := String.intercalate ";" (l.map toString)

def dbLoop : State → List String → List String
  | _, [] => []
  | s, t :: rest =>
    match parseStep t with
    | none => ["bad-op"]
    | some none => ("t:" ++ gensStr (s.tables.map (·.gen))) :: dbLoop s rest
    | some (some st) =>
      let (s', r, sel) := step s st
      let out := match st, r with
        | .compact _, _ => "sel:" ++ gensStr sel
        | _, some r => resStr r
        | _, none => "-"
      out :: dbLoop s' rest

/-- `db.run steps=open:..,ps:..,g:..,...` -/
def dbRun (a : Args) : String :=
  String.intercalate " " (dbLoop {} (splitList (a.getD "steps" "")))

end SST.Drv
