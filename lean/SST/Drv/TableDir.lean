/-
Driver command of the table-directory layer (SST/Model/TableDirBytes.lean).  One line in, one line out.

  tbldir.run mode=<M> [dcomp=2] [icomp=0] [doracle=<raw:stored,…>] [ioracle=…] [bloomok=<0|1>]
             kvs=<k:v,…> chunks=<rec;rec;…> bloom=<hex+hex+…> n=<N> [order=<f,f,…>] [j=<J>]
             [index=<ob> data=<ob> metaf=<ob> bloomf=<ob>]

  <M>     prefix : the directory after the first N calls of `flushCalls`
          rmunf  : … and then the first J calls of `removeUnfinishedTable` (index.rio first, then `order`)
          rmpre  : … and then the first J calls of a plain `RemoveAll` in `order` (recovery before commit d2bdde6)
          rmall  : the directory after ALL calls of `flushCalls` and then the first J calls of `RemoveAll` in `order`
          image  : the directory given by index= data= metaf= bloomf= (<ob> = "-" absent | "." empty | hex)
  <k:v>   key and value in GoBytes syntax ("-" nil, "." empty, hex); the pairs are `WriteNext` calls in order
  <rec>   <n+n+…>/<n+n+…> : sizes of the write calls on data.rio / on index.rio during this `WriteNext` (may be empty)
  <f>     i | d | m | b
  bloomok what `bloomfilter.ReadFile` says about a bloom.bf.gz that is present (external code)

  → "len=<calls of flushCalls> dir=<0|1> index=<ob> data=<ob> metaf=<ob> bloom=<ob> class=<gone|part0|part1|complete>
     cells=<k=v;…> ev=<evIdx> rm=<rmIdx>"     (<v> = GoBytes syntax, or "!" when `Get` fails)
-/
import SST.Model.TableDirBytes
import SST.Drv.Sst
namespace SST.Drv
open SST SST.TblDir Generated

namespace TblDirDrv

def parseKvs (s : String) : Option (List (Bytes × GoBytes)) :=
  (splitList s).mapM fun t =>
    match t.splitOn ":" with
    | [k, v] => do
      let kb ← goBytesOfStr k
      let vb ← goBytesOfStr v
      pure (kb.getD [], vb)
    | _ => none

def parseSizes (s : String) : Option (List Nat) :=
  if s.isEmpty then some [] else (s.splitOn "+").mapM String.toNat?

def parseChunks (s : String) : Option (List (List Nat × List Nat)) :=
  (if s.isEmpty then [] else s.splitOn ";").mapM fun r =>
    match r.splitOn "/" with
    | [d, i] => do
      let ds ← parseSizes d
      let is ← parseSizes i
      pure (ds, is)
    | _ => none

def parseBloom (s : String) : Option (List Bytes) :=
  if s.isEmpty then some [] else (s.splitOn "+").mapM fromHex

def parseFile (s : String) : Option File :=
  if s == "i" then some .index else if s == "d" then some .data
  else if s == "m" then some .metaf else if s == "b" then some .bloom else none

def parseOrder (s : String) : Option (List File) := (splitList s).mapM parseFile

def obStr (o : Option Bytes) : String := goBytesToStr o

def cellStr : Cell → String
  | .val v => goBytesToStr v
  | .err _ => "!"

def servedStr (s : Served) : String :=
  String.intercalate ";" (s.map fun p => goBytesToStr (some p.1) ++ "=" ++ cellStr p.2)

def classStr (P : Params) (img : DirImage) : String :=
  if !img.dir then "class=gone cells="
  else match classifyX P img with
    | .part false => "class=part0 cells="
    | .part true => "class=part1 cells="
    | .complete s => "class=complete cells=" ++ servedStr s

def report (P : Params) (len : Nat) (n : Nat) (img : DirImage) : String :=
  s!"len={len} dir={if img.dir then 1 else 0} index={obStr img.index} data={obStr img.data} metaf={obStr img.metaf} bloom={obStr img.bloom} {classStr P img} ev={evIdx len n} rm={rmIdx img}"

end TblDirDrv

open TblDirDrv in
def tblDirRun (a : Args) : String :=
  let a' : Args := a ++ [("dcomp", "2"), ("icomp", "0")]
  match cfgOf a' with
  | none => "bad-op"
  | some (cfg, comps) =>
    let P : Params := { comps := comps, readBloom := fun _ => if a.getD "bloomok" "1" == "1" then some (fun _ => true) else none }
    let mode := a.getD "mode" ""
    if mode == "image" then
      match goBytesOfStr (a.getD "index" "-"), goBytesOfStr (a.getD "data" "-"), goBytesOfStr (a.getD "metaf" "-"),
            goBytesOfStr (a.getD "bloomf" "-") with
      | some i, some d, some m, some b =>
        report P 0 0 { dir := true, index := i, data := d, metaf := m, bloom := b }
      | _, _, _, _ => "bad-op"
    else
    match parseKvs (a.getD "kvs" ""), parseChunks (a.getD "chunks" ""), parseBloom (a.getD "bloom" ""),
          parseOrder (a.getD "order" "") with
    | some kvs, some recs, some bl, some order =>
      let calls := flushCalls cfg { recs := recs, bloom := bl } kvs
      let n := (a.nat? "n").getD 0
      let j := (a.nat? "j").getD 0
      if mode == "prefix" then report P calls.length n (applyCalls {} (calls.take n))
      else if mode == "rmunf" then
        report P calls.length n (applyCalls (applyCalls {} (calls.take n)) ((removeUnfinishedCalls order).take j))
      else if mode == "rmpre" then
        report P calls.length n (applyCalls (applyCalls {} (calls.take n)) ((removeUnfinishedCallsPreFix order).take j))
      else if mode == "rmall" then
        report P calls.length calls.length (applyCalls (applyCalls {} calls) ((removeAllCalls order).take j))
      else "bad-op"
    | _, _, _, _ => "bad-op"

end SST.Drv
