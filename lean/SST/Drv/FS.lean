/-
Driver commands of L6-fs (abstract disk / crash model).  One line in, one line out; values never contain spaces.

GRAMMAR (all numbers decimal, all byte strings lower-case hex, the empty byte string is the EMPTY token):

  fs.recover tables=<T> wal=<W> comps=<C> waldir=<0|1> keys=<K>
  fs.recimages tables=<T> wal=<W> comps=<C> waldir=<0|1> [junk=<J>]
  fs.session async=<0|1> steps=<steps as for db.run> [sched=<S>] [junk=<J>]

  <T>  ::= ε | <tbl>("," <tbl>)*                 table directories sstable_%015d, any order (sorted by number here)
  <tbl>::= <gen> ":" <dir>
  <dir>::= "partial"                             meta.pb.bin EXISTS AND IS EMPTY (whatever the other files look like), or
                                                 meta.pb.bin is missing and NewSSTableReader FAILS on the directory
         | "partialmeta"                         NewSSTableReader FAILS on it although meta.pb.bin is non-empty
         | <cells>                               meta.pb.bin is non-empty or missing, and NewSSTableReader LOADS it;
                                                 <cells> = what Get returns for the keys of its index, any order.
                                                 NOTE: the reader does not need a metadata FILE: a directory without
                                                 meta.pb.bin whose index.rio and data.rio have headers loads as a
                                                 "version 0" table (empty, or with mis-parsed values): that is <cells>
  <cells> ::= ε | <kv>(";" <kv>)*                (ε = a complete table without records)
  <kv> ::= <hexkey> "=" <val>                    <val> ::= "-" (tombstone / nil) | "." (empty value) | <hex>
  <W>  ::= ε | <file>("," <file>)*               files wal/%06d.wal
  <file> ::= <num> ":" ("H"|"N") ":" ("T"|"C") ":" <muts>
                                                 H = file header complete, N = header missing/incomplete;
                                                 T = a cut record follows the complete ones, C = ends cleanly
  <muts> ::= ε | <mut>(";" <mut>)*               the COMPLETE records, in file order
  <mut> ::= "p." <hexkey> "." <hexval> | "d." <hexkey>
  <C>  ::= ε | <comp>("," <comp>)*               directories sstable_compaction*, in name order
  <comp> ::= <id> ":" <dir> ":" <flag>           <id>: any distinct numbers increasing in name order
  <flag> ::= "-"                                 no READABLE compaction_successful file
         | <gen>("+" <gen>)* ">" <gen>           SstablePaths (in file order) ">" ReplacementPath
  <K>  ::= ε | <hexkey>("," <hexkey>)*           probe keys ("." may be used for the empty key in <K>)
  <S>  ::= per step "<drain>" | "<drain>t"       asynchronous WAL only: records leaving the buffer during the step,
                                                 "t" = plus a piece of the next one; missing entries = "0"
  <J>  ::= <gen> ":" <cells> ("|" <gen> ":" <cells>)*
                                                 what the directory of the COMPLETE table <gen> shows when the RemoveAll
                                                 of a compaction (session or recovery) has unlinked its meta.pb.bin
                                                 first and index.rio / data.rio still load; entries without "<gen>:"
                                                 are accepted and ignored; default: no such states

ANSWERS
  fs.recover   → "ok ok=<0|1> tables=<gen;gen;…> vals=<v,v,…> wal=<num;num;…> events=<n>"
                   ok=1 iff the input satisfies DiskOk (SST/Spec/FS.lean); tables = numbers of the live tables after
                   Open, oldest first; vals = what each probe key reads as after Open ("-" = not found, else hex);
                   wal = file numbers after Open; events = number of file-system calls of this Open in the model
               | "err:tableload" | "err:walreplay" (Open fails; compare success/failure only) | "bad-op" (unparsable)
  fs.recimages → "ok <img> <img> …": the disk after 0,1,2,… calls of the recovery; <img> = tables=<T>|wal=<W>|comps=<C>|waldir=<b>
                   in exactly the input syntax, canonical order
  fs.session   → "ok <n1>:<img>… " one group per step: "#<events of the step>" followed by the image after each
                   event of that step (the image before the first step is the empty disk); a table that loads
                   WITHOUT a metadata file is printed as <gen>:~<cells>
-/
import SST.Spec.FS
import SST.Drv.DB
namespace SST.Drv.Fs
open SST SST.DBM SST.FS SST.Drv

def sepBy (sep : String) (s : String) : List String := if s.isEmpty then [] else s.splitOn sep

def keyOfStr (s : String) : Option Bytes := if s = "." then some [] else fromHex s

def parseCells (s : String) : Option Layer :=
  (sepBy ";" s).mapM fun kv =>
    match kv.splitOn "=" with
    | [k, v] => do
      let k ← fromHex k
      let v ← goBytesOfStr v
      pure (k, v)
    | _ => none

def parseDir (s : String) : Option TableDir :=
  if s = "partial" then some (.part false)
  else if s = "partialmeta" then some (.part true)
  else (parseCells s).map .complete

def parseTables (s : String) : Option (List (Nat × TableDir)) :=
  (sepBy "," s).mapM fun t =>
    match t.splitOn ":" with
    | [g, dir] => do
      let g ← g.toNat?
      let dir ← parseDir dir
      pure (g, dir)
    | _ => none

def parseMut (s : String) : Option Mutation :=
  match s.splitOn "." with
  | ["p", k, v] => do
    let k ← fromHex k
    let v ← fromHex v
    pure (.put k v)
  | ["d", k] => do
    let k ← fromHex k
    pure (.del k)
  | _ => none

def parseWal (s : String) : Option (List WalFile) :=
  (sepBy "," s).mapM fun f =>
    match f.splitOn ":" with
    | [n, h, t, ms] => do
      let n ← n.toNat?
      let h ← (if h = "H" then some true else if h = "N" then some false else none)
      let t ← (if t = "T" then some true else if t = "C" then some false else none)
      let ms ← (sepBy ";" ms).mapM parseMut
      pure { num := n, header := h, recs := ms, torn := t }
    | _ => none

def parseFlag (s : String) : Option (Option CompMeta) :=
  if s = "-" then some none else
  match s.splitOn ">" with
  | [ins, r] => do
    let ins ← (sepBy "+" ins).mapM String.toNat?
    let r ← r.toNat?
    pure (some { inputs := ins, replacement := r })
  | _ => none

def parseComps (s : String) : Option (List CompDir) :=
  (sepBy "," s).mapM fun c =>
    match c.splitOn ":" with
    | [id, dir, fl] => do
      let id ← id.toNat?
      let dir ← parseDir dir
      let fl ← parseFlag fl
      pure { id := id, out := dir, flag := fl }
    | _ => none

/-- the listing in name order, whatever order the harness sent -/
def sortTables (ts : List (Nat × TableDir)) : List (Nat × TableDir) := ts.foldl (fun acc p => insertT p.1 p.2 acc) []
def sortWal (fs : List WalFile) : List WalFile := fs.foldl (fun acc f => insertW f acc) []

def parseDisk (a : Args) : Option Disk := do
  let ts ← parseTables (a.getD "tables" "")
  let w ← parseWal (a.getD "wal" "")
  let cs ← parseComps (a.getD "comps" "")
  let wd ← (match a.getD "waldir" "" with | "1" => some true | "0" => some false | _ => none)
  -- duplicate names cannot exist in a directory: refuse them instead of dropping one silently
  if (sortTables ts).length != ts.length || (sortWal w).length != w.length then none
  else pure { tables := sortTables ts, walDir := wd, wal := sortWal w, comps := cs }

def cellsStr (l : Layer) : String :=
  String.intercalate ";" (l.map fun p => toHex p.1 ++ "=" ++ goBytesToStr p.2)

def dirStr : TableDir → String
  | .part false => "partial"
  | .part true => "partialmeta"
  | .complete c => cellsStr c

def mutStr : Mutation → String
  | .put k v => "p." ++ toHex k ++ "." ++ toHex v
  | .del k => "d." ++ toHex k

def flagStr : Option CompMeta → String
  | none => "-"
  | some m => String.intercalate "+" (m.inputs.map toString) ++ ">" ++ toString m.replacement

def diskStr (d : Disk) (unf : List Nat := []) : String :=
  "tables=" ++ String.intercalate "," (d.tables.map fun p =>
      toString p.1 ++ ":" ++ (if unf.contains p.1 then "~" else "") ++ dirStr p.2) ++
  "|wal=" ++ String.intercalate "," (d.wal.map fun f => toString f.num ++ ":" ++ (if f.header then "H" else "N") ++ ":" ++
      (if f.torn then "T" else "C") ++ ":" ++ String.intercalate ";" (f.recs.map mutStr)) ++
  "|comps=" ++ String.intercalate "," (d.comps.map fun c => toString c.id ++ ":" ++ dirStr c.out ++ ":" ++ flagStr c.flag) ++
  "|waldir=" ++ (if d.walDir then "1" else "0")

/-- the images after each event, with the numbers of the tables that load without metadata -/
def imagesU (d : Disk) (unf : List Nat) : List Ev → List String
  | [] => []
  | e :: es =>
    let unf' := match e with
      | .tblLoadable g _ => g :: unf
      | .tblComplete g _ => unf.filter (· != g)
      | .tblMetaCreate g => unf.filter (· != g)
      | .tblUnlinkPart g _ => unf.filter (· != g)
      | .tblRmdir g => unf.filter (· != g)
      | _ => unf
    diskStr (applyEv d e) unf' :: imagesU (applyEv d e) unf' es

def optBytesStr : Option Bytes → String
  | none => "-"
  | some v => toHex v

/-- `junk=<gen>:<cells>|…`; entries without a table number (an older form of this argument) are ignored -/
def parseJunkEntry (e : String) : Option (Option (Nat × Layer)) :=
  match e.splitOn ":" with
  | [g, c] => do
    let g ← g.toNat?
    let c ← parseCells c
    pure (some (g, c))
  | [c] => (parseCells c).map fun _ => none
  | _ => none

def parseJunk (a : Args) : Option (List (Nat × Layer)) :=
  match a.get? "junk" with
  | none => some []
  | some j => ((j.splitOn "|").mapM parseJunkEntry).map fun (l : List (Option (Nat × Layer))) => l.filterMap id

/-- `fs.recover` -/
def fsRecover (a : Args) : String :=
  match parseDisk a, (sepBy "," (a.getD "keys" "")).mapM keyOfStr with
  | some d, some keys =>
    match recover d with
    | .error e => "err:" ++ e.toString
    | .ok (d', s) =>
      "ok ok=" ++ (if decide (DiskOk d) then "1" else "0") ++
      " tables=" ++ gensStr (s.tables.map (·.gen)) ++
      " vals=" ++ String.intercalate "," (keys.map fun k => optBytesStr (abs s k)) ++
      " wal=" ++ gensStr (d'.wal.map (·.num)) ++
      " events=" ++ toString (recoverEvents d).length
  | _, _ => "bad-op"

def imagesOf (d : Disk) : List Ev → List Disk
  | [] => []
  | e :: es => applyEv d e :: imagesOf (applyEv d e) es

/-- `fs.recimages` -/
def fsRecImages (a : Args) : String :=
  match parseDisk a with
  | some d =>
    match parseJunk a with
    | some junk => "ok " ++ String.intercalate " " (diskStr d :: imagesU d [] (recoverEvents d junk))
    | none => "bad-op"
  | none => "bad-op"

def parseSched (s : String) : Option (Nat × Bool) :=
  if s.endsWith "t" then (s.dropEnd 1).toString.toNat?.map (·, true) else s.toNat?.map (·, false)

def sessionLoop (async : Bool) (junk : List (Nat × Layer)) : Disk → Vol → List (Step × Nat × Bool) → List String
  | _, _, [] => []
  | d, v, (st, dr, tn) :: rest =>
    let (es, v') := fsStep async d v { st := st, drain := dr, torn := tn, junk := junk }
    (("#" ++ toString es.length) :: imagesU d [] es) ++ sessionLoop async junk (applyEvs d es) v' rest

/-- `fs.session` -/
def fsSession (a : Args) : String :=
  let async := a.getD "async" "0" == "1"
  let junk? := parseJunk a
  match (splitList (a.getD "steps" "")).mapM parseStep, (splitList (a.getD "sched" "")).mapM parseSched, junk? with
  | some steps, some sched, some junk =>
    if steps.any Option.isNone then "bad-op" else
    let sts := steps.filterMap id
    let withSched := (List.range sts.length).zip sts |>.map fun (i, st) =>
      let sc := sched.getD i (0, false)
      (st, sc.1, sc.2)
    "ok " ++ String.intercalate " " (sessionLoop async junk {} {} withSched)
  | _, _, _ => "bad-op"

end SST.Drv.Fs
