/-
Driver commands of the buffered reader stack (stream `bufr`).

`bufr.calls  cap=N aligned=0|1 data=<gb> sched=<l|lxk,...> eofdata=0|1 grow=<c:c',...> calls=b,f:N,r:N,a`
    one token per call: `<call>:<result>:<Count()>:<Buffered()>`, then `q:<l|lxk,...>`: the `len p` of every
    Read the underlying reader received, in call order
`bufr.file   cap=N aligned=0|1 file=<hex> sched=.. eofdata=.. oracle=.. grow=.. maxoff=N prog=r,k,..`
    `open:<version>:<comp>:<count>` | `open-err:<kind>`, then per op `ok:<gb>:<count>` | `ok:<count>` | `err:<kind>:<count>`
    (the program goes on after an error: the state after a failed call is modelled too)
`bufr.stream file=<hex> oracle=.. prog=r,k,..`
    the same program on the pure-stream model (no buffer, no schedule), stopping at the first error
-/
import SST.Model.BufReader
import SST.Spec.BufReader
import SST.Drv.Proto
namespace SST.Drv.Bufr
open SST SST.Buf SST.Drv

/-- schedule: `l` or `lxk` (limit `l`, `k` times) -/
def parseSched (s : String) : Option (List Nat) :=
  (splitList s).foldrM (fun t acc =>
    match t.splitOn "x" with
    | [l] => l.toNat?.map (· :: acc)
    | [l, k] => do
      let l ← l.toNat?
      let k ← k.toNat?
      pure (List.replicate k l ++ acc)
    | _ => none) []

/-- `append`'s growth as observed by the harness: pairs `cap:newcap`; a capacity missing from the table
yields 0, which the model's `ReadAll` turns into the `fuel` marker (never a silent default) -/
def parseGrow (s : String) : Option (Nat → Nat) := do
  let tab ← (splitList s).mapM fun t =>
    match t.splitOn ":" with
    | [a, b] => do
      let a ← a.toNat?
      let b ← b.toNat?
      pure (a, b)
    | _ => none
  pure fun c => ((tab.find? (·.1 == c)).map (·.2)).getD 0

def errStr : Option XErr → String
  | none => "-"
  | some e => e.toString

def dataStr (d : Bytes) : String := goBytesToStr (some d)

def underOf (a : Args) (data : Bytes) : Option Under := do
  let sched ← parseSched (a.getD "sched" "")
  let ed ← a.nat? "eofdata"
  pure { rem := data, sched := sched, eofData := ed != 0 }

/-- run-length wire form of a list of naturals: `l` or `lxk` -/
def rleStr (l : List Nat) : String :=
  let rec go : List Nat → Option (Nat × Nat) → List String → List String
    | [], none, acc => acc.reverse
    | [], some (v, k), acc => ((if k = 1 then toString v else s!"{v}x{k}") :: acc).reverse
    | x :: xs, none, acc => go xs (some (x, 1)) acc
    | x :: xs, some (v, k), acc =>
      if x = v then go xs (some (v, k + 1)) acc
      else go xs (some (x, 1)) ((if k = 1 then toString v else s!"{v}x{k}") :: acc)
  String.intercalate "," (go l none [])

def runBufCalls (grow : Nat → Nat) : CRd → List String → List String
  | c, [] => ["q:" ++ rleStr c.rd.under.reqs.reverse]
  | c, call :: rest =>
    let tail (c' : CRd) := s!":{c'.count}:{c'.rd.pend.length}"
    match call.splitOn ":" with
    | ["b"] =>
      match c.readByte with
      | (.ok x, c') => ("b:ok:" ++ toHex [x] ++ tail c') :: runBufCalls grow c' rest
      | (.error e, c') => ("b:err:" ++ e.toString ++ tail c') :: runBufCalls grow c' rest
    | ["f", n] =>
      match n.toNat? with
      | none => ["bad-op"]
      | some n =>
        let r := c.readFull n
        ("f:" ++ dataStr r.data ++ ":" ++ errStr r.err ++ tail r.st) :: runBufCalls grow r.st rest
    | ["r", n] =>
      match n.toNat? with
      | none => ["bad-op"]
      | some n =>
        let r := c.read n
        ("r:" ++ dataStr r.data ++ ":" ++ errStr r.err ++ tail r.st) :: runBufCalls grow r.st rest
    | ["a"] =>
      let r := c.readAll grow
      ("a:" ++ dataStr r.data ++ ":" ++ errStr r.err ++ tail r.st) :: runBufCalls grow r.st rest
    | _ => ["bad-op"]

def bufrCalls (a : Args) : String :=
  match a.nat? "cap", (a.get? "data").bind goBytesOfStr, parseGrow (a.getD "grow" "") with
  | some cap, some data, some grow =>
    match underOf a (data.getD []) with
    | none => "bad-op"
    | some u =>
      String.intercalate " "
        (runBufCalls grow { rd := Rd.make (a.getD "aligned" "0" != "0") cap u, count := 0 }
          (splitList (a.getD "calls" "")))
  | _, _, _ => "bad-op"

def runBufProg (cmp : Compression) (grow : Nat → Nat) (maxOff : Nat) : FileRd → List String → List String
  | _, [] => []
  | fr, op :: ops =>
    if op == "r" then
      match fr.readNext cmp grow with
      | (.ok r, fr') => s!"ok:{goBytesToStr r}:{fr'.rd.count}" :: runBufProg cmp grow maxOff fr' ops
      | (.error e, fr') => s!"err:{e}:{fr'.rd.count}" :: runBufProg cmp grow maxOff fr' ops
    else if op == "k" then
      match fr.skipNext cmp maxOff with
      | (.ok (), fr') => s!"ok:{fr'.rd.count}" :: runBufProg cmp grow maxOff fr' ops
      | (.error e, fr') => s!"err:{e}:{fr'.rd.count}" :: runBufProg cmp grow maxOff fr' ops
    else ["bad-op"]

def compFor (a : Args) (ct : Nat) : Option Compression :=
  if ct = 0 then some none
  else (parseOracle (a.getD "oracle" "")).map fun tab => some (oracleComp tab)

def bufrFile (a : Args) : String :=
  match a.nat? "cap", (a.get? "file").bind goBytesOfStr, parseGrow (a.getD "grow" ""), a.nat? "maxoff" with
  | some cap, some file, some grow, some maxOff =>
    let file := file.getD []
    match underOf a file with
    | none => "bad-op"
    | some u =>
      match (FileRd.new file cap u (a.getD "aligned" "0" != "0")).open with
      | (.error e, _) => "open-err:" ++ e.toString
      | (.ok (v, ct), fr) =>
        if v = 1 then "unsupported-version" else
        match compFor a ct with
        | none => "bad-op"
        | some cmp =>
          String.intercalate " "
            (s!"open:{v}:{ct}:{fr.rd.count}" :: runBufProg cmp grow maxOff fr (splitList (a.getD "prog" "")))
  | _, _, _, _ => "bad-op"

def rOpOf (s : String) : Option ROp :=
  if s == "r" then some .read else if s == "k" then some .skip else none

def rOutStr : ROut → String
  | .record r => "ok:" ++ goBytesToStr r
  | .skipped => "ok"
  | .fail e => "err:" ++ e.toString

def bufrStream (a : Args) : String :=
  match (a.get? "file").bind goBytesOfStr, (splitList (a.getD "prog" "")).mapM rOpOf with
  | some file, some prog =>
    let file := file.getD []
    match parseFileHeader file with
    | .error e => "open-err:" ++ e.toString
    | .ok (v, ct) =>
      if v = 1 then "unsupported-version" else
      match compFor a ct with
      | none => "bad-op"
      | some cmp =>
        String.intercalate " "
          (s!"open:{v}:{ct}" :: (streamRun v cmp file Generated.fileHeaderSize prog).map rOutStr)
  | _, _ => "bad-op"

end SST.Drv.Bufr
