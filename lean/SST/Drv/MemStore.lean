import SST.Model.MemStore
import SST.Drv.Proto
namespace SST.Drv
open SST SST.Mem

/-- `mem.run prog=op,op,...` with op = `a:k:v:h` Add, `u:k:v:h` Upsert, `d:k` Delete, `x:k` DeleteIfExists,
`t:k:h` Tombstone, `g:k` Get, `c:k` Contains, `i:k` IsTombstoned, `s` Size (k, v in GoBytes syntax, h = node
height).  Answer: `res=<per call> iter=<k=v;...> size=<n> est=<raw estimate> flush=<calls> flusht=<calls>`. -/
def memOp? (t : String) : Option (Op × Nat) :=
  match t.splitOn ":" with
  | ["a", k, v, h] => do pure (.add (← goBytesOfStr k) (← goBytesOfStr v), ← h.toNat?)
  | ["u", k, v, h] => do pure (.upsert (← goBytesOfStr k) (← goBytesOfStr v), ← h.toNat?)
  | ["d", k] => do pure (.delete (← goBytesOfStr k), 1)
  | ["x", k] => do pure (.deleteIfExists (← goBytesOfStr k), 1)
  | ["t", k, h] => do pure (.tombstone (← goBytesOfStr k), ← h.toNat?)
  | ["g", k] => do pure (.get (← goBytesOfStr k), 1)
  | ["c", k] => do pure (.contains (← goBytesOfStr k), 1)
  | ["i", k] => do pure (.isTombstoned (← goBytesOfStr k), 1)
  | ["s"] => some (.size, 1)
  | _ => none

def memErrStr : Option MErr → String
  | none => "ok"
  | some e => e.toString

def memResStr : Res → String
  | .err e => memErrStr e
  | .got v e => "got:" ++ goBytesToStr v ++ ":" ++ memErrStr e
  | .bool b => toString b
  | .size n => toString n
  | .panic => "panic"

def memEntries (l : List (GoBytes × GoBytes)) : String :=
  if l.isEmpty then "[]" else
  String.intercalate ";" (l.map fun e => goBytesToStr e.1 ++ "=" ++ goBytesToStr e.2)

def memRunOne (progStr : String) : String :=
  match (splitList progStr).mapM memOp? with
  | none => "bad-op"
  | some prog =>
    let (rs, m) := run MemStore.empty prog
    let it := match iter m with | some l => memEntries l | none => "wild"
    let fl := fun incl => match flush m incl with
      | some (.ok l) => memEntries l
      | some (.error .sameKey) => "rejected:samekey"
      | some (.error .nonAscending) => "rejected:nonascending"
      | none => "wild"
    "res=" ++ String.intercalate "," (rs.map memResStr) ++ " iter=" ++ it ++ " size=" ++ toString m.sl.size ++
      " est=" ++ toString m.est ++ " flush=" ++ fl false ++ " flusht=" ++ fl true

/-- several programs may be sent in one line, separated by `|`; the answers come back separated by ` | ` -/
def memRun (a : Args) : String :=
  String.intercalate " | " (((a.getD "prog" "").splitOn "|").map memRunOne)

end SST.Drv
