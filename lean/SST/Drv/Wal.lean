import SST.Model.Wal
import SST.Drv.Proto
import SST.Drv.Rio
namespace SST.Drv
open SST Generated

def nameToStr (b : Bytes) : String := String.ofList (b.map (fun x => Char.ofNat x.toNat))
def nameOfStr (s : String) : Bytes := s.toUTF8.toList

def parseWalOps (s : String) : Option (List WalOp) :=
  (splitList s).mapM fun t =>
    match t.splitOn ":" with
    | ["a", v] => (goBytesOfStr v).map WalOp.append
    | ["s", v] => (goBytesOfStr v).map WalOp.appendSync
    | ["r"] => some WalOp.rotate
    | _ => none

def dirToStr (d : Dir) : String :=
  String.intercalate ";" (d.map fun e => nameToStr e.1 ++ ":" ++ toHex e.2)

def dirSizes (d : Dir) : String :=
  String.intercalate "+" (d.map fun e => nameToStr e.1 ++ ":" ++ toString e.2.length)

def parseDir (s : String) : Option Dir :=
  (if s.isEmpty then [] else s.splitOn ";").mapM fun t =>
    match t.splitOn ":" with
    | [n, h] => (fromHex h).map fun b => (nameOfStr n, b)
    | _ => none

def errStr : Option Err → String
  | none => "ok"
  | some e => "err:" ++ e.toString

/-- fingerprint of a record list: count, CRC-32C of the `-`/`.`/hex rendering joined by commas -/
def recsPrint (rs : List GoBytes) : String :=
  let s := String.intercalate "," (rs.map goBytesToStr)
  s!"{rs.length}:{(crc32c s.toUTF8.toList).toNat}"

def replayStr (r : List GoBytes × Option Err) : String := recsPrint r.1 ++ ":" ++ errStr r.2

/-- the compressor the reader picks for a header code: the oracle table for every non-zero code -/
def cOfArgs (a : Args) : Option (Nat → Compression) := do
  let tab ← parseOracle (a.getD "oracle" "")
  pure fun ct => if ct = 0 then none else some (oracleComp tab)

/-- does some file carry a parseable header of a legacy version?  (outside the model) -/
def legacyIn (d : Dir) : Bool :=
  d.any fun e => match parseFileHeader e.2 with
    | .ok (v, _) => v ≠ currentVersion
    | .error _ => false

/-- `wal.run max=N buf=N comp=N oracle=.. ops=a:<rec>,s:<rec>,r`: results per operation, directory sizes after
`NewAppender` and after every operation, the directory before and after `Close`, the appended records, and
what the replayer returns on both directories. -/
def walRun (a : Args) : String :=
  match compOf a, cOfArgs a, a.nat? "comp", a.nat? "max", a.nat? "buf", parseWalOps (a.getD "ops" "") with
  | some c, some cOf, some ct, some mx, some bs, some prog =>
    let o : WalOpts := { maxSize := mx, bufSize := bs, ct := ct }
    let (w, ev0, ts) := Wal.run o c prog
    let res := String.intercalate "," (ts.map fun t => errStr t.err)
    -- directory sizes after init and after every op
    let (_, sizesRev) := ts.foldl (fun (acc : DirN × List String) t =>
        let d := t.evs.foldl applyEvent acc.1
        (d, dirSizes d.named :: acc.2)) (ev0.foldl applyEvent [], [dirSizes (dirAfterN ev0).named])
    let pre := dirAfter (ev0 ++ traceEvents ts)
    let cl := w.close
    let post := dirAfter (ev0 ++ traceEvents ts ++ cl.1)
    let recs := traceRecords ts
    s!"res={res} sizes={String.intercalate "/" sizesRev.reverse} pre={dirToStr pre} close={errStr cl.2} post={dirToStr post} recs={recsPrint recs} rpre={replayStr (replay cOf pre)} rpost={replayStr (replay cOf post)}"
  | _, _, _, _, _, _ => "bad-op"

def evStr : FsEvent → String
  | .create f => "c:" ++ nameToStr (walName f)
  | .write f bs => "w:" ++ nameToStr (walName f) ++ ":" ++ toString bs.length
  | .fsync f => "f:" ++ nameToStr (walName f)
  | .close f => "x:" ++ nameToStr (walName f)

/-- `wal.events max=N buf=N comp=N oracle=.. ops=..`: the file-system events of `NewAppender`, of every operation
and of the final `Close`, groups separated by `/` (`c:` create, `w:name:len` one write call, `f:` fsync,
`x:` close); for comparison with system-call traces -/
def walEventsCmd (a : Args) : String :=
  match compOf a, a.nat? "comp", a.nat? "max", a.nat? "buf", parseWalOps (a.getD "ops" "") with
  | some c, some ct, some mx, some bs, some prog =>
    let o : WalOpts := { maxSize := mx, bufSize := bs, ct := ct }
    let (w, ev0, ts) := Wal.run o c prog
    let grp (es : List FsEvent) : String := String.intercalate "," (es.map evStr)
    String.intercalate "/" (grp ev0 :: ts.map (fun t => grp t.evs) ++ [grp w.close.1])
  | _, _, _, _, _ => "bad-op"

/-- `wal.cuts oracle=.. dir=<name>:<hex>;.. file=<k> cuts=<len>,..,absent`: the replayer on the directory with
file `k` (in the given order) cut to each length / removed -/
def walCuts (a : Args) : String :=
  match cOfArgs a, parseDir (a.getD "dir" ""), a.nat? "file" with
  | some cOf, some d, some k =>
    if legacyIn d then "unsupported-version" else
    if k ≥ d.length then "bad-op" else
    let one (t : String) : String :=
      if t == "absent" then replayStr (replay cOf (d.eraseIdx k))
      else match t.toNat? with
        | none => "bad-op"
        | some n => replayStr (replay cOf (d.modify k (fun e => (e.1, e.2.take n))))
    String.intercalate " " ((splitList (a.getD "cuts" "")).map one)
  | _, _, _ => "bad-op"

end SST.Drv
