import SST.Model.Conc
import SST.Drv.DB
namespace SST.Drv
open SST SST.DBM SST.Conc

/-- micro-step tokens: `i:<t>:p:<k>:<v>` `i:<t>:d:<k>` `i:<t>:g:<k>` (invocations), `w:<t>:<0|1>` (critical section of a
put/delete; 1 = the put rotates), `rt:<t>` `rm:<t>` (the two halves of a get), `r:<t>` (response), `ar` (addReader),
`sel:<sizes;…>`, `refl`, `hrot` -/
def parseEv (t : String) : Option Ev :=
  match t.splitOn ":" with
  | ["i", th, "p", k, v] => do
    let th ← th.toNat?
    let k ← goBytesOfStr k
    let v ← goBytesOfStr v
    pure (.inv th (.put k v))
  | ["i", th, "d", k] => do
    let th ← th.toNat?
    let k ← goBytesOfStr k
    pure (.inv th (.del k))
  | ["i", th, "g", k] => do
    let th ← th.toNat?
    let k ← goBytesOfStr k
    pure (.inv th (.get (k.getD [])))
  | ["w", th, r] => do let th ← th.toNat?; pure (.write th (r == "1"))
  | ["rt", th] => do let th ← th.toNat?; pure (.readTables th)
  | ["rm", th] => do let th ← th.toNat?; pure (.readMem th)
  | ["r", th] => do let th ← th.toNat?; pure (.resp th)
  | ["ar"] => some .addReader
  | ["sel", sz] => do let sz ← natsOf sz; pure (.select sz)
  | ["refl"] => some .reflect
  | ["hrot"] => some .hookRotate
  | _ => none

/-- runs the schedule; answers `invalid@<index>` at the first micro-step the locks do not admit -/
def concLoop : Conf → List Ev → Except Nat Conf
  | c, [] => .ok c
  | c, e :: es =>
    match step? c e with
    | some c' => concLoop c' es
    | none => .error c.now

/-- `conc.exec opts=<threshold>:<maxSize>:<ratioNum>:<ratioDen> sched=<ev>,<ev>,…` → `ok <thread>:<inv>:<resp>:<result> …`
(the completed calls in response order) followed by `| tables=<n> calls=<n>` -/
def concExec (a : Args) : String :=
  let opts : Option Opts :=
    match (a.getD "opts" "10:0:1:5").splitOn ":" with
    | [th, mx, rn, rd] => do
      let th ← th.toInt?
      let mx ← mx.toNat?
      let rn ← rn.toNat?
      let rd ← rd.toNat?
      pure { threshold := th, maxSize := mx, ratioNum := rn, ratioDen := rd }
    | _ => none
  match opts, (splitList (a.getD "sched" "")).mapM parseEv with
  | some o, some evs =>
    match concLoop (init (reopen {} o)) evs with
    | .error i => s!"invalid@{i}"
    | .ok c =>
      let hs := c.hist.reverse.map fun h => s!"{h.thread}:{h.inv}:{h.resp}:{resStr h.res}"
      "ok " ++ String.intercalate " " hs ++ s!" | tables={c.db.tables.length} calls={c.calls.length}"
  | _, _ => "bad-op"

end SST.Drv
