import SST.Model.SkipList
import SST.Model.PQ
import SST.Drv.Proto
namespace SST.Drv
open SST

/-- `skip.run ins=k:v:h,... probes=size,all,get:k,has:k,from:k,between:lo:hi,ins:k:v:h` (keys hex / `.`; values plain tokens) -/
def kvList (l : List (Bytes × String)) : String :=
  if l.isEmpty then "[]" else String.intercalate ";" (l.map fun p => goBytesToStr (some p.1) ++ "=" ++ p.2)

def keyOf (s : String) : Option Bytes := (goBytesOfStr s).map (·.getD [])

def skipRun (a : Args) : String :=
  let insStr := splitList (a.getD "ins" "")
  let ins? : Option (List (Bytes × String × Nat)) := insStr.mapM fun t =>
    match t.splitOn ":" with
    | [k, v, h] => do let kb ← keyOf k; let hn ← h.toNat?; pure (kb, v, hn)
    | _ => none
  match ins? with
  | none => "bad-op"
  | some ins =>
    -- duplicates make the Go code panic at that insert; everything before it stays
    let rec build (s : SkipList Bytes String) (l : List (Bytes × String × Nat)) (acc : List String) :
        SkipList Bytes String × List String :=
      match l with
      | [] => (s, acc.reverse)
      | (k, v, h) :: rest =>
        match SkipList.insert bytesCmp s k v h with
        | some s' => build s' rest ("ok" :: acc)
        | none => build s rest ("panic" :: acc)
    let (s, insOut) := build SkipList.empty ins []
    let probes := splitList (a.getD "probes" "")
    let outs := probes.map fun p =>
      match p.splitOn ":" with
      | ["size"] => toString s.size
      | ["all"] => kvList s.iterAll
      | ["get", k] => match keyOf k with
        | some kb => (match SkipList.get bytesCmp s kb with | some v => "ok:" ++ v | none => "notfound")
        | none => "bad-op"
      | ["has", k] => match keyOf k with
        | some kb => toString (SkipList.contains bytesCmp s kb)
        | none => "bad-op"
      | ["from", k] => match keyOf k with
        | some kb => kvList (SkipList.iterFrom bytesCmp s kb)
        | none => "bad-op"
      | ["between", lo, hi] => match keyOf lo, keyOf hi with
        | some l, some h => (match SkipList.iterBetween bytesCmp s l h with | some r => kvList r | none => "rejected")
        | _, _ => "bad-op"
      | _ => "bad-op"
    "ins=" ++ String.intercalate "," insOut ++ " " ++ String.intercalate " " outs

/-- `pq.run inputs=k:v;k:v|k:v|...` → `k:v:ctx;...` -/
def pqRun (a : Args) : String :=
  let inputs? : Option (List (List (Bytes × String))) :=
    ((a.getD "inputs" "").splitOn "|").mapM fun inp =>
      (if inp.isEmpty then [] else inp.splitOn ";").mapM fun it =>
        match it.splitOn ":" with
        | [k, v] => (keyOf k).map fun kb => (kb, v)
        | _ => none
  match inputs? with
  | none => "bad-op"
  | some inputs =>
    let inputs := if a.getD "inputs" "" == "" && a.getD "k" "" == "0" then [] else inputs
    let out := PQ.drain bytesCmp inputs
    if out.isEmpty then "[]" else
    String.intercalate ";" (out.map fun (k, v, c) => goBytesToStr (some k) ++ ":" ++ v ++ ":" ++ toString c)

end SST.Drv
