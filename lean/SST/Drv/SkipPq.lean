import SST.Model.SkipList
import SST.Model.PQ
import SST.Drv.Proto
namespace SST.Drv
open SST

/-- `skip.run [cmp=<name>] ins=k:v:h,... probes=size,all,get:k,has:k,from:k,between:lo:hi,ins:k:v:h` (keys hex / `.`; values plain tokens) -/
def kvList (l : List (Bytes × String)) : String :=
  if l.isEmpty then "[]" else String.intercalate ";" (l.map fun p => goBytesToStr (some p.1) ++ "=" ++ p.2)

def keyOf (s : String) : Option Bytes := (goBytesOfStr s).map (·.getD [])

/-- ASCII lower-casing of one byte (`A`..`Z` → `a`..`z`) -/
def lowerByte (b : UInt8) : UInt8 := if 0x41 ≤ b ∧ b ≤ 0x5a then b + 0x20 else b

/-- then-by combination of two orderings -/
def thenCmp (o : Ordering) (p : Ordering) : Ordering := match o with | .eq => p | _ => o

/-- the comparators of the `cmp=<name>` option of `skip.run` / `pq.run` (the models take the comparator as a
parameter); without the option: `bytes` = `bytes.Compare`.  All are total and consistent; `fold` has a coarser
equality than byte equality. -/
def cmpByName : String → Option (Bytes → Bytes → Ordering)
  | "bytes" => some bytesCmp
  | "rev" => some fun a b => bytesCmp b a                                   -- descending
  | "shortlex" => some fun a b => thenCmp (compare a.length b.length) (bytesCmp a b)
  | "revshortlex" => some fun a b => thenCmp (compare b.length a.length) (bytesCmp a b)  -- longer first
  | "last" => some fun a b => bytesCmp a.reverse b.reverse                  -- last byte first
  | "signed" => some fun a b => bytesCmp (a.map (· ^^^ 0x80)) (b.map (· ^^^ 0x80))  -- bytes as int8
  | "foldtie" => some fun a b => thenCmp (bytesCmp (a.map lowerByte) (b.map lowerByte)) (bytesCmp a b)
  | "fold" => some fun a b => bytesCmp (a.map lowerByte) (b.map lowerByte)  -- case-insensitive
  | _ => none

def skipRun (a : Args) : String :=
  let insStr := splitList (a.getD "ins" "")
  let ins? : Option (List (Bytes × String × Nat)) := insStr.mapM fun t =>
    match t.splitOn ":" with
    | [k, v, h] => do let kb ← keyOf k; let hn ← h.toNat?; pure (kb, v, hn)
    | _ => none
  match ins?, cmpByName (a.getD "cmp" "bytes") with
  | none, _ => "bad-op"
  | _, none => "bad-op"
  | some ins, some cmp =>
    -- duplicates make the Go code panic at that insert; everything before it stays
    let rec build (s : SkipList Bytes String) (l : List (Bytes × String × Nat)) (acc : List String) :
        SkipList Bytes String × List String :=
      match l with
      | [] => (s, acc.reverse)
      | (k, v, h) :: rest =>
        match SkipList.insert cmp s k v h with
        | some s' => build s' rest ("ok" :: acc)
        | none => build s rest ("panic" :: acc)
    let (s, insOut) := build SkipList.empty ins []
    let probes := splitList (a.getD "probes" "")
    let outs := probes.map fun p =>
      match p.splitOn ":" with
      | ["size"] => toString s.size
      | ["all"] => kvList s.iterAll
      | ["get", k] => match keyOf k with
        | some kb => (match SkipList.get cmp s kb with | some v => "ok:" ++ v | none => "notfound")
        | none => "bad-op"
      | ["has", k] => match keyOf k with
        | some kb => toString (SkipList.contains cmp s kb)
        | none => "bad-op"
      | ["from", k] => match keyOf k with
        | some kb => kvList (SkipList.iterFrom cmp s kb)
        | none => "bad-op"
      | ["between", lo, hi] => match keyOf lo, keyOf hi with
        | some l, some h => (match SkipList.iterBetween cmp s l h with | some r => kvList r | none => "rejected")
        | _, _ => "bad-op"
      | _ => "bad-op"
    "ins=" ++ String.intercalate "," insOut ++ " " ++ String.intercalate " " outs

/-- `pq.run [cmp=<name>] inputs=k:v;k:v|k:v|...` → `k:v:ctx;...` -/
def pqRun (a : Args) : String :=
  let inputs? : Option (List (List (Bytes × String))) :=
    ((a.getD "inputs" "").splitOn "|").mapM fun inp =>
      (if inp.isEmpty then [] else inp.splitOn ";").mapM fun it =>
        match it.splitOn ":" with
        | [k, v] => (keyOf k).map fun kb => (kb, v)
        | _ => none
  match inputs?, cmpByName (a.getD "cmp" "bytes") with
  | none, _ => "bad-op"
  | _, none => "bad-op"
  | some inputs, some cmp =>
    let inputs := if a.getD "inputs" "" == "" && a.getD "k" "" == "0" then [] else inputs
    let out := PQ.drain cmp inputs
    if out.isEmpty then "[]" else
    String.intercalate ";" (out.map fun (k, v, c) => goBytesToStr (some k) ++ ":" ++ v ++ ":" ++ toString c)

end SST.Drv
