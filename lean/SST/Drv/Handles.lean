import SST.Model.Handles
import SST.Drv.DB
namespace SST.Drv
open SST SST.DBM SST.HM

def zpad (w n : Nat) : String :=
  let s := toString n
  String.ofList (List.replicate (w - s.length) '0') ++ s

def wfileName : WFile → String
  | .index => "index.rio"
  | .data => "data.rio"
  | .metadata => "meta.pb.bin"
  | .bloom => "bloom.bf.gz"
  | .flag => "compaction_successful"

def tableDir (g : Nat) : String := "sstable_" ++ zpad 15 g

/-- what the harness sees of a handle: kind (`fd` descriptor, `map` mapping, `go` goroutine) and the path
relative to the database directory -/
def handleStr : Handle → String
  | .walFile n => "fd:wal/" ++ zpad 6 n ++ ".wal"
  | .walReader n => "fd:wal/" ++ zpad 6 n ++ ".wal"
  | .tableMmap g => "map:" ++ tableDir g ++ "/data.rio"
  | .scanner g _ => "fd:" ++ tableDir g ++ "/data.rio"
  | .goroutine .flusher => "go:flusher"
  | .goroutine .ticker => "go:ticker"
  | .writerFd (some g) f => "fd:" ++ tableDir g ++ "/" ++ wfileName f
  | .writerFd none f => "fd:sstable_compaction*/" ++ wfileName f
  | .loadFd g f => "fd:" ++ tableDir g ++ "/" ++ wfileName f

def insertStr (x : String) : List String → List String
  | [] => [x]
  | y :: ys => if x ≤ y then x :: y :: ys else y :: insertStr x ys

/-- canonical text of a handle multiset: rendered, sorted, `;`-joined (`none` when empty) -/
def handlesStr (l : List Handle) : String :=
  match (l.map handleStr).foldr insertStr [] with
  | [] => "none"
  | xs => String.intercalate ";" xs

def parseHStep (t : String) : Option (Option HStep) :=
  match t.splitOn ":" with
  | ["opent", th, mx, rn, rd] => do
    let th ← th.toInt?
    let mx ← mx.toNat?
    let rn ← rn.toNat?
    let rd ← rd.toNat?
    pure (some (.openTicker { threshold := th, maxSize := mx, ratioNum := rn, ratioDen := rd }))
  | _ => (parseStep t).map (·.map HStep.op)

def hLoop : HState → List String → List String
  | _, [] => []
  | s, t :: rest =>
    if t == "wals" then
      -- pseudo step: the WAL files the model expects on disk while nobody has the directory open
      ("w:" ++ gensStr s.leftover ++ "|" ++ handlesStr s.handles) :: hLoop s rest
    else
    match parseHStep t with
    | none => ["bad-op"]
    | some none =>
      ("t:" ++ gensStr (tabGens s.db) ++ "|" ++ handlesStr s.handles) :: hLoop s rest
    | some (some st) =>
      let s' := hstep s st
      let out := match st with
        | .openTicker _ => "-"
        | .op d =>
          let (_, r, sel) := step s.db d
          match d, r with
          | .compact _, _ => "sel:" ++ gensStr sel
          | _, some r => resStr r
          | _, none => "-"
      (out ++ "|" ++ handlesStr s'.handles) :: hLoop s' rest

/-- `handles.run steps=…`: the step grammar of `db.run` plus `opent:th:mx:rn:rd` (Open with the compaction
goroutine enabled) and the pseudo steps `tables` (live table numbers) and `wals` (WAL files left on disk,
meaningful between `close` and the next open); after every step `<result as db.run>|<open handles>` -/
def handlesRun (a : Args) : String :=
  String.intercalate " " (hLoop {} (splitList (a.getD "steps" "")))

def parseRStep : String → Option RStep
  | "new" => some .newReader
  | "scan" => some .scan
  | "scanat" => some .scanAt
  | "finish" => some .finishScan
  | "abandon" => some .abandonScan
  | "close" => some .closeReader
  | _ => none

def rLoop : RState → List String → List String
  | _, [] => []
  | s, t :: rest =>
    match parseRStep t with
    | none => ["bad-op"]
    | some st => let s' := rstep s st; handlesStr s'.handles :: rLoop s' rest

/-- `handles.reader gen=G steps=new,scan,scanat,finish,abandon,close,…` -/
def handlesReader (a : Args) : String :=
  match a.nat? "gen" with
  | none => "bad-op"
  | some g => String.intercalate " " (rLoop { gen := g } (splitList (a.getD "steps" "")))

end SST.Drv
