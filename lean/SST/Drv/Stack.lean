/-
Driver command of L7: `stack.run steps=… oracle=…` runs the byte-level SimpleDB model (SST/Model/Stack.lean,
the same definitions `SST.StackRefine.stack_refines_map` is about).  Step grammar = `db.run` (sizes given to
`compact:` are ignored: the model reads them from the metadata it wrote; node heights are 1 — results are
independent of them), plus the pseudo steps
  `files`  length and CRC-64/ISO of `index.rio`, `data.rio`, `meta.pb.bin` of every live table,
  `hex`    the three files of every live table in full (debugging).
`oracle` = the snappy compressor as raw:stored pairs supplied by the harness (data files are written with
`CompressionTypeSnappy`, index files uncompressed).  The bloom filter file is not predicted.
-/
import SST.Model.Stack
import SST.Drv.DB
namespace SST.Drv
open SST SST.Stack

def stackParams (tab : List (Bytes × Bytes)) : Params :=
  { comps := fun ct => if ct = 0 then none else if ct = snappyCode then some (oracleComp tab) else some (oracleComp [])
    mkBloom := fun _ => none }

def sresStr : SRes → String
  | .db r => resStr r
  | .ioErr e => "ioerr:" ++ e.toString
  | .memErr e => "memerr:" ++ e.toString
  | .panic => "panic"

def wresTok : WRes → String
  | .ok => "ok" | .dup => "dup" | .desc => "desc" | .io => "io"

def failStr : Fail → String
  | .memPanic => "mem-panic"
  | .writerNew => "writer-new"
  | .flushWrite r => "flush-write:" ++ wresTok r
  | .flushOpen e => "flush-open:" ++ e.toString
  | .compactOpen e => "compact-open:" ++ e.toString
  | .compactMerge e => "compact-merge:" ++ e.toString
  | .compactWrite r => "compact-write:" ++ wresTok r
  | .compactLoad e => "compact-load:" ++ e.toString
  | .reopen e => "reopen:" ++ e.toString

def toStackStep : DBM.Step → Stack.Step
  | .putB k v rot => .putB k v rot 1
  | .putS k v rot => .putS k v rot 1
  | .delB k => .delB k 1
  | .delS k => .delS k 1
  | .get k => .get k
  | .rotate => .rotate
  | .flush => .flush
  | .compact _ => .compact
  | .close => .close
  | .reopen o => .reopen o

def digest (b : Bytes) : String := toString b.length ++ ":" ++ toString (crc64iso b).toNat

def filesStr (c : Stack.State) : String :=
  "f:" ++ String.intercalate ";" (c.tables.map fun t =>
    s!"{t.gen}:{digest t.files.index}:{digest t.files.data}:{digest t.files.metaf}")

def hexStr (c : Stack.State) : String :=
  "x:" ++ String.intercalate ";" (c.tables.map fun t =>
    s!"{t.gen}:{goBytesToStr (some t.files.index)}:{goBytesToStr (some t.files.data)}:{goBytesToStr (some t.files.metaf)}")

def stackLoop (P : Params) : Stack.State → List String → List String
  | _, [] => []
  | c, t :: rest =>
    if t == "files" then filesStr c :: stackLoop P c rest
    else if t == "hex" then hexStr c :: stackLoop P c rest
    else
      match parseStep t with
      | none => ["bad-op"]
      | some none => ("t:" ++ gensStr (c.tables.map (·.gen))) :: stackLoop P c rest
      | some (some st) =>
        match Stack.step P c (toStackStep st) with
        | .error f => ["fail:" ++ failStr f]
        | .ok (c', r, sel) =>
          let out := match st, r with
            | .compact _, _ => "sel:" ++ gensStr sel
            | _, some r => sresStr r
            | _, none => "-"
          out :: stackLoop P c' rest

/-- `stack.run steps=open:..,ps:..,rot,flush,files,compact:..,files,... oracle=raw:stored,...` -/
def stackRun (a : Args) : String :=
  match parseOracle (a.getD "oracle" "") with
  | none => "bad-op"
  | some tab => String.intercalate " " (stackLoop (stackParams tab) {} (splitList (a.getD "steps" "")))

end SST.Drv
