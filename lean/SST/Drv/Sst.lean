import SST.Model.SSTable
import SST.Drv.Proto
namespace SST.Drv
open SST Generated

/-- compressor for each compression code: 0 = none; the data file's code and the index file's code get
the oracle tables the harness supplied for them (merged when both files use the same code); any other
code has an empty table (every payload then yields `need-oracle` / a decompression error) -/
def compsOf (dct : Nat) (dtab : List (Bytes × Bytes)) (ict : Nat) (itab : List (Bytes × Bytes)) : Nat → Compression :=
  fun ct =>
    if ct = 0 then none
    else if ct = dct ∧ ct = ict then some (oracleComp (dtab ++ itab))
    else if ct = dct then some (oracleComp dtab)
    else if ct = ict then some (oracleComp itab)
    else some (oracleComp [])

def parseCalls (s : String) : Option (List Call) :=
  (splitList s).mapM fun t =>
    match t.splitOn ":" with
    | [k, v, f] => do
      let kb ← goBytesOfStr k
      let vb ← goBytesOfStr v
      let ff ← (if f == "n" then some Fault.none else if f == "d" then some Fault.data
                else if f == "i" then some Fault.index else none)
      pure { key := kb.getD [], value := vb, fault := ff }
    | _ => none

def wresStr : WRes → String
  | .ok => "ok" | .dup => "dup" | .desc => "desc" | .io => "io"

def metaStr (m : Meta) : String :=
  s!"n:{m.numRecords},min:{goBytesToStr m.minKey},max:{goBytesToStr m.maxKey},db:{m.dataBytes},ib:{m.indexBytes},tb:{m.totalBytes},ver:{m.version},skip:{m.skippedRecords},nulls:{m.nullValues}"

def cfgOf (a : Args) : Option (SstCfg × (Nat → Compression)) := do
  let dct ← a.nat? "dcomp"
  let ict ← a.nat? "icomp"
  let dtab ← parseOracle (a.getD "doracle" "")
  let itab ← parseOracle (a.getD "ioracle" "")
  let comps := compsOf dct dtab ict itab
  pure ({ cmp := bytesCmp, dc := comps dct, dct := dct, ic := comps ict, ict := ict }, comps)

/-- `sst.write dcomp=N icomp=N doracle=.. ioracle=.. calls=k:v:f,...`
→ `res=ok,dup,.. index=<hex> data=<hex> metaf=<hex>` -/
def sstWrite (a : Args) : String :=
  match cfgOf a, parseCalls (a.getD "calls" "") with
  | some (cfg, _), some calls =>
    let (w, rs) := (SstW.open cfg).run cfg calls
    let t := w.close
    s!"res={String.intercalate "," (rs.map wresStr)} index={goBytesToStr (some t.index)} data={goBytesToStr (some t.data)} metaf={goBytesToStr (some t.metaf)}"
  | _, _ => "bad-op"

def endStr : IterEnd → String
  | .done => "done"
  | .err e => "err:" ++ e.toString

def scanStr (r : ScanRes) : String :=
  "[" ++ String.intercalate ";" (r.1.map fun p => goBytesToStr p.1 ++ "=" ++ goBytesToStr p.2) ++ "]" ++ endStr r.2

def exScanStr : Except Err ScanRes → String
  | .ok r => scanStr r
  | .error e => "err:" ++ e.toString

def optRes (f : α → String) : Option (Except Err α) → String
  | none => "panic"
  | some r => resToStr f r

def keyArg (s : String) : Option Bytes := (goBytesOfStr s).map (·.getD [])

/-- probes run in order on one reader (the disk loader's cache is threaded) -/
def runProbes (dcs : Nat → Compression) (r : Reader) : Index → List String → List String
  | _, [] => []
  | idx, p :: ps =>
    match p.splitOn ":" with
    | ["get", k] =>
      match keyArg k with
      | some kb => let (idx', o) := r.get idx kb; optRes goBytesToStr o :: runProbes dcs r idx' ps
      | none => ["bad-op"]
    | ["has", k, b] =>
      match keyArg k with
      | some kb =>
        -- the bloom filter's answer for this key is supplied by the harness (the filter file is opaque)
        let r' : Reader := { r with bloom := if b == "x" then none else some (fun _ => b == "1") }
        let (idx', o) := r'.contains idx kb
        optRes toString o :: runProbes dcs r idx' ps
      | none => ["bad-op"]
    | ["scan"] => exScanStr (r.scan dcs idx) :: runProbes dcs r idx ps
    | ["from", k] =>
      match keyArg k with
      | some kb => let (idx', o) := r.scanFrom idx kb; exScanStr o :: runProbes dcs r idx' ps
      | none => ["bad-op"]
    | ["range", lo, hi] =>
      match keyArg lo, keyArg hi with
      | some l, some h => let (idx', o) := r.scanRange idx l h; exScanStr o :: runProbes dcs r idx' ps
      | _, _ => ["bad-op"]
    | _ => ["bad-op"]

/-- node heights for the skip-list loader: the answers do not depend on them (`skip_refines` holds for all
heights ≥ 1; Go draws them at random), a geometric pattern keeps the model's descent short -/
def tz : Nat → Nat → Nat
  | 0, _ => 0
  | fuel + 1, n => if n % 2 = 0 ∧ n ≠ 0 then 1 + tz fuel (n / 2) else 0

def skipHeights : List Nat := (List.range 8192).map fun i => min 12 (1 + tz 12 (i + 1))

def loaderOf (s : String) : Option LoaderKind :=
  if s == "slice" then some .slice
  else if s == "skip" then some (.skip skipHeights)
  else if s == "map4" then some (.map 4)
  else if s == "map20" then some (.map 20)
  else if s == "disk" then some .disk
  else none

/-- files whose header names a pre-V4 version are outside the model -/
def unsupportedVersion (file : Bytes) : Bool :=
  match parseFileHeader file with
  | .ok (v, _) => v ≠ currentVersion
  | .error _ => false

/-- the table to read: given as files (`index= data= metaf=`), or as the writer program (`calls=`) -/
def tableOf (a : Args) (cfg : SstCfg) : Option Table :=
  match a.get? "index", a.get? "data", a.get? "metaf" with
  | some i, some d, some m => do
    let ib ← goBytesOfStr i
    let db ← goBytesOfStr d
    let mb ← goBytesOfStr m
    pure { index := ib.getD [], data := db.getD [], metaf := mb.getD [] }
  | _, _, _ => do
    let calls ← parseCalls (a.getD "calls" "")
    pure ((SstW.open cfg).run cfg calls).1.close

/-- `sst.read dcomp= icomp= doracle= ioracle= (calls=.. | index= data= metaf=) cfgs=loader:onload:onread,.. probes=..`
→ per configuration `open-err:<kind>` or `meta=.. <probe results>`, joined by ` || `.
`dcomp`/`icomp` name the codes the oracle tables belong to (the codes in the file headers decide). -/
def sstRead (a : Args) : String :=
  match cfgOf a with
  | none => "bad-op"
  | some (cfg, comps) =>
    match tableOf a cfg with
    | none => "bad-op"
    | some t =>
      if unsupportedVersion t.index || unsupportedVersion t.data then "unsupported-version" else
      let probes := splitList (a.getD "probes" "")
      let outs := (splitList (a.getD "cfgs" "")).map fun c =>
        match c.splitOn ":" with
        | [l, onload, onread] =>
          match loaderOf l with
          | none => "bad-op"
          | some lk =>
            let o : ReadOpts := { skipHashOnLoad := onload == "0", skipHashOnRead := onread == "0" }
            match openTable comps lk o t none with
            | .error e => "open-err:" ++ e.toString
            | .ok (r, idx) => "meta=" ++ metaStr r.md ++ " " ++ String.intercalate " " (runProbes comps r idx probes)
        | _ => "bad-op"
      String.intercalate " || " outs

end SST.Drv
