/-
Driver commands of the compaction-directory layer (SST/Model/CompDirBytes.lean).  One line in, one line out.

  compdir.flag mode=<M> wp=<gb> rp=<gb> paths=<gb,gb,…> [sizes=<n+n+…> n=<N>] [k=<K> pad=<Z>] [flag=<ob>]

  <M>     prefix : the flag file after the first N calls of `saveCompactionMetadata` writing the metadata
                   (wp, rp, paths) with the buffered writer flushing `sizes` during `Write`
          cut    : the first K bytes of the complete flag file followed by Z zero bytes
          image  : the flag file given by flag= (<ob> = "-" absent | "." empty | hex)
  <gb>    a string as bytes: "." empty, hex otherwise; `paths` may be empty (no paths)

  → "len=<calls of flagCalls> flen=<length of the complete flag file> flag=<ob> read=<R> abs=<A> done=<0|1>"
     <R> = "none" (the reading code of repairCompactions fails) | "<wp>;<rp>;<p1>,<p2>,…" (what it reads)
     <A> = "none" | "unresolved" (a path is not a table name) | "<in>+<in>+…><replacement>" (table numbers)
     done = `flagDone` (mode prefix only)

  compdir.run mode=<prefix|image> <arguments of tbldir.run> wp= rp= paths= sizes= n=<N> [flag=<ob>]

          prefix : the compaction directory after the first N calls of `compCalls` (MkdirTemp, the table writer, the flag)
          image  : the directory given by index= data= metaf= bloomf= flag=

  → "<answer of tbldir.run for the table part> flag=<ob> read=<R> abs=<A> cev=<cevIdx> lent=<calls of the table part> comp=<gone|unflagged|flagged>"
-/
import SST.Model.CompDirBytes
import SST.Drv.TableDir
namespace SST.Drv
open SST SST.TblDir SST.CompDir Generated

namespace CompDirDrv

def strArg (s : String) : Option Bytes := (goBytesOfStr s).map (·.getD [])

def parsePaths (s : String) : Option (List Bytes) := (splitList s).mapM strArg

def metaOfArgs (a : Args) : Option RawMeta := do
  let wp ← strArg (a.getD "wp" ".")
  let rp ← strArg (a.getD "rp" ".")
  let ps ← parsePaths (a.getD "paths" "")
  pure { writePath := wp, replacementPath := rp, sstablePaths := ps }

def bstr (b : Bytes) : String := goBytesToStr (some b)

def readStr : Option RawMeta → String
  | none => "none"
  | some r => bstr r.writePath ++ ";" ++ bstr r.replacementPath ++ ";" ++ String.intercalate "," (r.sstablePaths.map bstr)

def absStr : Option RawMeta → String
  | none => "none"
  | some r =>
    match absMeta r with
    | none => "unresolved"
    | some cm => String.intercalate "+" (cm.inputs.map toString) ++ ">" ++ toString cm.replacement

def flagReport (comps : Nat → Compression) (f : FlagImage) : String :=
  let r := readFlag comps f
  s!"flag={goBytesToStr f} read={readStr r} abs={absStr r}"

/-- compressors of a flag file: code 0 = none (what the writer uses); the other codes have no oracle table -/
def flagComps : Nat → Compression := fun ct => if ct = 0 then none else some (oracleComp [])

end CompDirDrv

open CompDirDrv in
def compDirFlag (a : Args) : String :=
  match metaOfArgs a with
  | none => "bad-op"
  | some m =>
    let mode := a.getD "mode" ""
    let F := flagBytes m
    if mode == "prefix" then
      match TblDirDrv.parseSizes (a.getD "sizes" "") with
      | none => "bad-op"
      | some sizes =>
        let calls := flagCalls sizes m
        let n := (a.nat? "n").getD 0
        let f := applyFlagCalls none (calls.take n)
        s!"len={calls.length} flen={F.length} {flagReport flagComps f} done={if flagDone calls n then 1 else 0}"
    else if mode == "cut" then
      let k := (a.nat? "k").getD 0
      let z := (a.nat? "pad").getD 0
      s!"len=0 flen={F.length} {flagReport flagComps (some (F.take k ++ List.replicate z 0))} done=0"
    else if mode == "image" then
      match goBytesOfStr (a.getD "flag" "-") with
      | none => "bad-op"
      | some f => s!"len=0 flen={F.length} {flagReport flagComps f} done=0"
    else "bad-op"

open CompDirDrv TblDirDrv in
def compDirRun (a : Args) : String :=
  let a' : Args := a ++ [("dcomp", "2"), ("icomp", "0")]
  match cfgOf a', metaOfArgs a with
  | some (cfg, comps), some m =>
    let P : Params := { comps := comps, readBloom := fun _ => if a.getD "bloomok" "1" == "1" then some (fun _ => true) else none }
    let mode := a.getD "mode" "prefix"
    let tail (lenT cev : Nat) (img : CompImage) : String :=
      let r := readFlag P.comps img.flag
      let c := if !img.tbl.dir then "gone" else if r.isSome then "flagged" else "unflagged"
      s!"{flagReport P.comps img.flag} cev={cev} lent={lenT} comp={c}"
    if mode == "image" then
      match goBytesOfStr (a.getD "index" "-"), goBytesOfStr (a.getD "data" "-"), goBytesOfStr (a.getD "metaf" "-"),
            goBytesOfStr (a.getD "bloomf" "-"), goBytesOfStr (a.getD "flag" "-") with
      | some i, some d, some mf, some b, some f =>
        let img : CompImage := { tbl := { dir := true, index := i, data := d, metaf := mf, bloom := b }, flag := f }
        report P 0 0 img.tbl ++ " " ++ tail 0 0 img
      | _, _, _, _, _ => "bad-op"
    else if mode == "prefix" then
      match parseKvs (a.getD "kvs" ""), parseChunks (a.getD "chunks" ""), parseBloom (a.getD "bloom" ""),
            parseSizes (a.getD "sizes" "") with
      | some kvs, some recs, some bl, some sizes =>
        let ch : Chunking := { recs := recs, bloom := bl }
        let lenT := (flushCalls cfg ch kvs).length
        let calls := compCalls cfg ch kvs sizes m
        let n := (a.nat? "n").getD 0
        let img := applyCCalls {} (calls.take n)
        report P lenT (min n lenT) img.tbl ++ " " ++ tail lenT (cevIdx lenT (flagCalls sizes m) n) img
      | _, _, _, _ => "bad-op"
    else "bad-op"
  | _, _ => "bad-op"

end SST.Drv
