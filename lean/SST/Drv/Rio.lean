import SST.Model.RecordIO
import SST.Drv.Proto
namespace SST.Drv
open SST

def compOf (a : Args) : Option Compression := do
  let ct ← a.nat? "comp"
  if ct = 0 then pure none
  else
    let tab ← parseOracle (a.getD "oracle" "")
    pure (some (oracleComp tab))

def parseWOps (s : String) : Option (List WOp) :=
  (splitList s).mapM fun t =>
    match t.splitOn ":" with
    | ["w", v] => (goBytesOfStr v).map WOp.write
    | ["s", o] => o.toNat?.map WOp.seek
    | _ => none

/-- `rio.write comp=N oracle=.. ops=w:..,s:..` → `outs=.. file=<hex>` -/
def rioWrite (a : Args) : String :=
  match compOf a, a.nat? "comp", parseWOps (a.getD "ops" "") with
  | some c, some ct, some ops =>
    let (w, outs) := runWriter c (WState.init ct) ops
    s!"outs={String.intercalate "," (outs.map toString)} size={w.cur} file={toHex w.close}"
  | _, _, _ => "bad-op"

/-- reader program: `r` ReadNext, `k` SkipNext; stops after the first error -/
def runReader (c : Compression) (file : Bytes) : Nat → List String → List String
  | _, [] => []
  | pos, op :: ops =>
    let s := file.drop pos
    if op == "r" then
      match readNextS c s with
      | .ok (r, n) => ("ok:" ++ goBytesToStr r) :: runReader c file (pos + n) ops
      | .error e => ["err:" ++ e.toString]
    else if op == "k" then
      match skipNextS c s with
      | .ok n => "ok" :: runReader c file (pos + n) ops
      | .error e => ["err:" ++ e.toString]
    else ["bad-op"]

/-- `rio.read file=<hex> oracle=.. prog=r,k,..` (compression comes from the file header) -/
def rioRead (a : Args) : String :=
  match (a.get? "file").bind fromHex with
  | none => "bad-op"
  | some file =>
    match parseFileHeader file with
    | .error e => "open-err:" ++ e.toString
    | .ok (v, ct) =>
      if v ≠ 4 then "unsupported-version" else
      match compOf (("comp", toString ct) :: a) with
      | none => "bad-op"
      | some c =>
        String.intercalate " " (runReader c file 8 (splitList (a.getD "prog" "")))

def withFile (a : Args) (k : Compression → Bytes → String) : String :=
  match (a.get? "file").bind fromHex with
  | none => "bad-op"
  | some file =>
    match parseFileHeader file with
    | .error e => "open-err:" ++ e.toString
    | .ok (v, ct) =>
      if v ≠ 4 then "unsupported-version" else
      match compOf (("comp", toString ct) :: a) with
      | none => "bad-op"
      | some c => k c file

/-- `rio.readat file=.. offs=8,30,..` -/
def rioReadAt (a : Args) : String :=
  withFile a fun c file =>
    match natList? (a.getD "offs" "") with
    | none => "bad-op"
    | some offs => String.intercalate " " (offs.map fun o => resToStr goBytesToStr (readAt c file o))

/-- `rio.seeknext file=.. offs=..` -/
def rioSeekNext (a : Args) : String :=
  withFile a fun c file =>
    match natList? (a.getD "offs" "") with
    | none => "bad-op"
    | some offs => String.intercalate " " (offs.map fun o =>
        resToStr (fun (p : Nat × GoBytes) => s!"{p.1}:{goBytesToStr p.2}") (seekNext c file o))

end SST.Drv
