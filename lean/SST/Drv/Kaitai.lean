import SST.Model.Kaitai
import SST.Generated.Kaitai
import SST.Drv.Proto
namespace SST.Drv
open SST SST.Kaitai

def kRecToStr (r : KRecord) : String :=
  s!"{r.recordNil}:{r.ulen}:{r.clen}:{r.crc}:{goBytesToStr (some r.payload)}"

/-- `kaitai.parse file=<hex>` → `ok v=<version> c=<compression code> n=<records> <nil>:<ulen>:<clen>:<crc>:<payload> …`
or `err:<kind>`; the schema interpreted is the regenerated `Generated.schema` -/
def kaitaiParseCmd (a : Args) : String :=
  match (a.get? "file").bind goBytesOfStr with
  | none => "bad-op"
  | some file =>
    match kaitaiParse Generated.schema (file.getD []) with
    | .error e => "err:" ++ e.toString
    | .ok (h, rs) =>
      String.intercalate " " (s!"ok v={h.version} c={h.compression} n={rs.length}" :: rs.map kRecToStr)

/-- `kaitai.enum code=<n>` → the schema's name of a compression code, `?` when the enum does not know it -/
def kaitaiEnumCmd (a : Args) : String :=
  match a.nat? "code" with
  | none => "bad-op"
  | some code =>
    match ((Generated.schema.enums.lookup "compression").getD []).lookup code with
    | some name => name
    | none => "?"

end SST.Drv
