/-
Line protocol helpers for the driver: a line is `<cmd> k=v k=v ...`; values never contain spaces.
-/
import SST.Model.RecordIO
namespace SST.Drv
open SST

abbrev Args := List (String × String)

def parseArgs (toks : List String) : Args :=
  toks.filterMap fun t =>
    match t.splitOn "=" with
    | k :: v :: rest => some (k, String.intercalate "=" (v :: rest))
    | _ => none

def Args.get? (a : Args) (k : String) : Option String := (a.find? (·.1 == k)).map (·.2)
def Args.getD (a : Args) (k : String) (d : String) : String := (a.get? k).getD d
def Args.nat? (a : Args) (k : String) : Option Nat := (a.get? k).bind String.toNat?

/-- comma separated list; the empty string is the empty list -/
def splitList (s : String) : List String := if s.isEmpty then [] else s.splitOn ","

def natList? (s : String) : Option (List Nat) := (splitList s).mapM String.toNat?

def resToStr (f : α → String) : Except Err α → String
  | .ok a => "ok:" ++ f a
  | .error e => "err:" ++ e.toString

/-- compressor oracle supplied by the harness: pairs raw:stored (GoBytes syntax: `.` is empty) -/
def parseOracle (s : String) : Option (List (Bytes × Bytes)) :=
  (splitList s).mapM fun p =>
    match p.splitOn ":" with
    | [a, b] => do
      let x ← goBytesOfStr a
      let y ← goBytesOfStr b
      pure (x.getD [], y.getD [])
    | _ => none

/-- a table-driven compressor; a raw payload missing from the table makes the model emit the marker
payload `need-oracle` (which the harness treats as its own bug, never as agreement) -/
def needOracle : Bytes := "need-oracle".toUTF8.toList

def oracleComp (tab : List (Bytes × Bytes)) : Comp :=
  { enc := fun r => match tab.find? (·.1 == r) with | some p => p.2 | none => needOracle
    dec := fun s => (tab.find? (·.2 == s)).map (·.1) }

end SST.Drv
