//go:build verif

// fsprobe: hand-made directory images (unfinished / half-deleted tables, header-less and cut WAL files, flagged and
// unflagged compaction directories) opened by the real simpledb.Open and by the Lean model command `fs.recover`.
// Usage: go build -tags verif -o /verif/.build/fsprobe ./cmd/fsprobe && /verif/.build/fsprobe   (expects "differences: 0")

package main

import (
	"bufio"
	"fmt"
	"io"
	"os"
	"os/exec"
	"path/filepath"
	"sort"
	"strings"
	"time"

	"github.com/thomasjungblut/go-sstables/simpledb"
)

func must(err error) {
	if err != nil {
		panic(err)
	}
}

func copyDir(src, dst string) {
	must(filepath.Walk(src, func(p string, info os.FileInfo, err error) error {
		if err != nil {
			return err
		}
		rel, _ := filepath.Rel(src, p)
		t := filepath.Join(dst, rel)
		if info.IsDir() {
			return os.MkdirAll(t, 0700)
		}
		in, err := os.Open(p)
		if err != nil {
			return err
		}
		defer in.Close()
		out, err := os.Create(t)
		if err != nil {
			return err
		}
		defer out.Close()
		_, err = io.Copy(out, in)
		return err
	}))
}

func open(dir string) (*simpledb.DB, error) {
	db, err := simpledb.NewSimpleDB(dir, simpledb.CompactionRunInterval(time.Hour), simpledb.CompactionFileThreshold(1))
	if err != nil {
		return nil, err
	}
	err = db.Open()
	return db, err
}

var keys = []string{"a", "b", "c", "d", "e"}

func hex(s string) string { return fmt.Sprintf("%x", s) }

// real: result string comparable with the model's
func real(dir string) string {
	db, err := open(dir)
	if err != nil {
		return "err"
	}
	var vals []string
	for _, k := range keys {
		v, err := db.Get(k)
		if err != nil {
			vals = append(vals, "-")
		} else {
			vals = append(vals, hex(v))
		}
	}
	names, _, _, _ := db.VerifTables()
	var gens []string
	for _, n := range names {
		var g int
		fmt.Sscanf(n, "sstable_%d", &g)
		gens = append(gens, fmt.Sprint(g))
	}
	ents, _ := os.ReadDir(filepath.Join(dir, "wal"))
	var wal []string
	for _, e := range ents {
		var g int
		fmt.Sscanf(e.Name(), "%d.wal", &g)
		wal = append(wal, fmt.Sprint(g))
	}
	sort.Strings(wal)
	// what else is in the directory
	top, _ := os.ReadDir(dir)
	extra := 0
	for _, e := range top {
		if strings.HasPrefix(e.Name(), "sstable_compaction") {
			extra++
		}
	}
	db.Close()
	return fmt.Sprintf("ok tables=%s vals=%s wal=%s compdirs=%d", strings.Join(gens, ";"), strings.Join(vals, ","), strings.Join(wal, ";"), extra)
}

type drv struct {
	in  io.WriteCloser
	out *bufio.Reader
}

func (d *drv) ask(line string) string {
	fmt.Fprintln(d.in, line)
	s, _ := d.out.ReadString('\n')
	return strings.TrimSpace(s)
}

func model(d *drv, tables, wal, comps string) string {
	var ks []string
	for _, k := range keys {
		ks = append(ks, hex(k))
	}
	ans := d.ask(fmt.Sprintf("fs.recover tables=%s wal=%s comps=%s waldir=1 keys=%s", tables, wal, comps, strings.Join(ks, ",")))
	if strings.HasPrefix(ans, "err") {
		return "err (" + ans + ")"
	}
	// ok ok=1 tables=.. vals=.. wal=.. events=..
	f := strings.Fields(ans)
	if len(f) < 5 {
		return ans
	}
	return fmt.Sprintf("ok %s %s %s compdirs=0 [%s]", f[2], f[3], f[4], f[1])
}

func main() {
	cmd := exec.Command("/verif/lean/.lake/build/bin/sstdrv")
	in, _ := cmd.StdinPipe()
	out, _ := cmd.StdoutPipe()
	must(cmd.Start())
	d := &drv{in, bufio.NewReader(out)}

	root, _ := os.MkdirTemp("", "fscheck-")
	defer os.RemoveAll(root)
	base := filepath.Join(root, "base")
	must(os.MkdirAll(base, 0700))
	db, err := open(base)
	must(err)
	must(db.Put("a", "1"))
	must(db.Put("b", "2"))
	must(db.VerifRotate())
	db.VerifWaitFlushIdle()
	must(db.Put("a", "3"))
	must(db.Delete("c"))
	must(db.VerifRotate())
	db.VerifWaitFlushIdle()
	must(db.Put("d", "4"))
	must(db.VerifRotate())
	db.VerifWaitFlushIdle()
	must(db.Put("e", "5"))
	must(db.Delete("b"))
	must(db.Put("a", "6"))
	// crash image at an operation boundary (synchronous WAL: everything acknowledged is in the files)
	B := filepath.Join(root, "B")
	copyDir(base, B)
	db.Close()
	// B2: B after a clean recovery + close (tables 1..4); C: a finished compaction of a copy of B2
	B2 := filepath.Join(root, "B2")
	copyDir(B, B2)
	dbx, err := open(B2)
	must(err)
	must(dbx.Close())
	C := filepath.Join(root, "C")
	copyDir(B2, C)
	db2, err := open(C)
	must(err)
	sel, repl, err := db2.VerifCompactOnce()
	must(err)
	fmt.Println("compaction selected", sel, "->", repl)
	// the directory name the flag file refers to (WritePath)
	flagBytes, err := os.ReadFile(filepath.Join(C, fmt.Sprintf("sstable_%015d", 1), "compaction_successful"))
	must(err)
	compName := ""
	if i := strings.Index(string(flagBytes), "sstable_compaction"); i >= 0 {
		j := i + len("sstable_compaction")
		for j < len(flagBytes) && flagBytes[j] >= '0' && flagBytes[j] <= '9' {
			j++
		}
		compName = string(flagBytes[i:j])
	}
	fmt.Println("write path:", compName)
	ents2, _ := os.ReadDir(filepath.Join(B2, "wal"))
	var wal2 []string
	for _, e := range ents2 {
		var n int
		fmt.Sscanf(e.Name(), "%d.wal", &n)
		wal2 = append(wal2, fmt.Sprintf("%d:H:C:", n))
	}
	W2 := strings.Join(wal2, ",")
	fmt.Println("WAL of B2:", W2)

	ents, _ := os.ReadDir(filepath.Join(B, "wal"))
	fmt.Print("WAL files of B:")
	for _, e := range ents {
		fi, _ := e.Info()
		fmt.Print(" ", e.Name(), ":", fi.Size())
	}
	fmt.Println()

	h := hex
	t1 := "1:" + h("a") + "=" + h("1") + ";" + h("b") + "=" + h("2")
	t2 := "2:" + h("a") + "=" + h("3") + ";" + h("c") + "=-"
	t3 := "3:" + h("d") + "=" + h("4")
	walName := ents[len(ents)-1].Name()
	var walNum int
	fmt.Sscanf(walName, "%d.wal", &walNum)
	muts := "p." + h("e") + "." + h("5") + ";d." + h("b") + ";p." + h("a") + "." + h("6")
	// B may contain older header-only WAL files (skipped flushes); list them all
	var walEnc []string
	for _, e := range ents {
		var n int
		fmt.Sscanf(e.Name(), "%d.wal", &n)
		if e.Name() == walName {
			walEnc = append(walEnc, fmt.Sprintf("%d:H:C:%s", n, muts))
		} else {
			walEnc = append(walEnc, fmt.Sprintf("%d:H:C:", n))
		}
	}
	W := strings.Join(walEnc, ",")
	tbl := func(n int) string { return filepath.Join(fmt.Sprintf("sstable_%015d", n)) }

	type cas struct {
		name   string
		mutate func(dir string)
		tables string
		wal    string
		comps  string
		base   string
	}
	t4 := "4:" + h("e") + "=" + h("5") + ";" + h("b") + "=-;" + h("a") + "=" + h("6")
	merged := "1:" + h("a") + "=" + h("6") + ";" + h("d") + "=" + h("4") + ";" + h("e") + "=" + h("5")
	flag := strings.Join(func() []string {
		var r []string
		for _, s := range sel {
			var g int
			fmt.Sscanf(s, "sstable_%d", &g)
			r = append(r, fmt.Sprint(g))
		}
		return r
	}(), "+") + ">1"
	cases := []cas{
		{"B", func(string) {}, t1 + "," + t2 + "," + t3, W, "", ""},
		{"empty newest table dir", func(dir string) { must(os.MkdirAll(filepath.Join(dir, tbl(4)), 0700)) }, t1 + "," + t2 + "," + t3 + ",4:partial", W, "", ""},
		{"index+data complete, EMPTY meta => discarded", func(dir string) { must(os.Truncate(filepath.Join(dir, tbl(3), "meta.pb.bin"), 0)) }, t1 + "," + t2 + ",3:partial", W, "", ""},
		{"middle table, EMPTY meta => discarded", func(dir string) { must(os.Truncate(filepath.Join(dir, tbl(2), "meta.pb.bin"), 0)) }, t1 + ",2:partial," + t3, W, "", ""},
		{"index+data complete, NO meta file (hand-made; recovery cannot produce it any more) => kept as legacy table", func(dir string) { must(os.Remove(filepath.Join(dir, tbl(2), "meta.pb.bin"))) }, t1 + ",2:" + h("a") + "=-;" + h("c") + "=-," + t3, W, "", ""},
		{"index+data headers only, NO meta file => loads as empty table", func(dir string) {
			must(os.Truncate(filepath.Join(dir, tbl(3), "index.rio"), 8))
			must(os.Truncate(filepath.Join(dir, tbl(3), "data.rio"), 8))
			must(os.Remove(filepath.Join(dir, tbl(3), "meta.pb.bin")))
			os.Remove(filepath.Join(dir, tbl(3), "bloom.bf.gz"))
		}, t1 + "," + t2 + ",3:", W, "", ""},
		{"index.rio header-less, NO meta file => discarded", func(dir string) {
			must(os.Truncate(filepath.Join(dir, tbl(3), "index.rio"), 0))
			must(os.Remove(filepath.Join(dir, tbl(3), "meta.pb.bin")))
		}, t1 + "," + t2 + ",3:partial", W, "", ""},
		{"table with metadata but no index", func(dir string) { must(os.Remove(filepath.Join(dir, tbl(2), "index.rio"))) }, t1 + ",2:partialmeta," + t3, W, "", ""},
		{"header-less newest WAL file", func(dir string) {
			must(os.WriteFile(filepath.Join(dir, "wal", fmt.Sprintf("%06d.wal", walNum+1)), nil, 0600))
		}, t1 + "," + t2 + "," + t3, W + fmt.Sprintf(",%d:N:C:", walNum+1), "", ""},
		{"header-less OLDER WAL file", func(dir string) {
			must(os.WriteFile(filepath.Join(dir, "wal", "000000.wal"), nil, 0600))
		}, t1 + "," + t2 + "," + t3, "0:N:C:," + W, "", ""},
		{"cut final WAL record", func(dir string) {
			p := filepath.Join(dir, "wal", walName)
			fi, _ := os.Stat(p)
			must(os.Truncate(p, fi.Size()-3))
		}, t1 + "," + t2 + "," + t3, strings.Join(walEnc[:len(walEnc)-1], ",") + func() string {
			if len(walEnc) > 1 {
				return ","
			}
			return ""
		}() + fmt.Sprintf("%d:H:T:%s", walNum, "p."+h("e")+"."+h("5")+";d."+h("b")), "", ""},
		{"unflagged compaction dir", func(dir string) {
			must(os.MkdirAll(filepath.Join(dir, "sstable_compaction999"), 0700))
			must(os.WriteFile(filepath.Join(dir, "sstable_compaction999", "data.rio"), []byte("junk"), 0600))
		}, t1 + "," + t2 + "," + t3, W, "9:partial:-", ""},
		{"flagged compaction, inputs untouched", func(dir string) {
			copyDir(filepath.Join(C, tbl(1)), filepath.Join(dir, compName))
		}, t1 + "," + t2 + "," + t3 + "," + t4, W2, "1:" + merged[2:] + ":" + flag, "B2"},
		{"flagged compaction, input 2 half deleted (meta left), input 1 gone, input 3 without meta+index", func(dir string) {
			copyDir(filepath.Join(C, tbl(1)), filepath.Join(dir, compName))
			must(os.RemoveAll(filepath.Join(dir, tbl(1))))
			must(os.Remove(filepath.Join(dir, tbl(2), "index.rio")))
			must(os.Remove(filepath.Join(dir, tbl(2), "data.rio")))
			must(os.Remove(filepath.Join(dir, tbl(3), "meta.pb.bin")))
			must(os.Remove(filepath.Join(dir, tbl(3), "index.rio")))
		}, "2:partialmeta,3:partial," + t4, W2, "1:" + merged[2:] + ":" + flag, "B2"},
		{"compaction dir with unreadable (header-only) flag file", func(dir string) {
			copyDir(filepath.Join(C, tbl(1)), filepath.Join(dir, compName))
			must(os.Truncate(filepath.Join(dir, compName, "compaction_successful"), 8))
		}, t1 + "," + t2 + "," + t3 + "," + t4, W2, "1:" + merged[2:] + ":-", "B2"},
		{"after the rename: flag inside the table dir is ignored", func(dir string) {
			for _, s := range sel {
				must(os.RemoveAll(filepath.Join(dir, s)))
			}
			copyDir(filepath.Join(C, tbl(1)), filepath.Join(dir, tbl(1)))
		}, merged, W2, "", "B2"},
		{"rename done, other input half deleted (pre-fix D15 order)", func(dir string) {
			must(os.RemoveAll(filepath.Join(dir, tbl(1))))
			copyDir(filepath.Join(C, tbl(1)), filepath.Join(dir, tbl(1)))
			must(os.Remove(filepath.Join(dir, tbl(2), "index.rio")))
		}, merged + ",2:partialmeta," + t3 + "," + t4, W2, "", "B2"},
	}
	bad := 0
	for _, c := range cases {
		dir := filepath.Join(root, "img")
		os.RemoveAll(dir)
		if c.base == "B2" {
			copyDir(B2, dir)
		} else {
			copyDir(B, dir)
		}
		c.mutate(dir)
		r := real(dir)
		m := model(d, c.tables, c.wal, c.comps)
		mm := m
		if i := strings.Index(mm, " ["); i >= 0 {
			mm = mm[:i]
		}
		if strings.HasPrefix(mm, "err") {
			mm = "err"
		}
		st := "AGREE"
		if mm != r {
			st = "DIFF "
			bad++
		}
		fmt.Printf("%s %-62s real=%s | model=%s\n", st, c.name, r, m)
	}
	fmt.Println("differences:", bad)
	in.Close()
}
