// racestress: the stress PROGRAM of stream `race` (C18).  Built with `go build -race -tags verif`, run as a child
// process by harness/cmd/sstcheck/conc.go for a few seconds per seed / GOMAXPROCS setting.
//
// It hammers, from N goroutines each,
//
//	(i)   one SimpleDB handle: Get/Put/Delete plus a hook goroutine forcing rotations / flush waits / compaction cycles,
//	(ii)  one SSTableReader (default index loader; a second one with EnableHashCheckOnReads): Get / Contains / ScanRange / ScanStartingAt,
//	(iii) one recordio MMapReader: ReadNextAt / SeekNext,
//
// and compares EVERY result with the single-threaded answer computed beforehand:
//   - (ii), (iii): the answers of a fixed query list are computed once, sequentially, before the goroutines start;
//   - (i): every goroutine owns a key range nobody else writes, so what it reads there is determined by its own
//     (pre-generated) program: the expected results are computed beforehand by running the program on a map.  Reads
//     of other goroutines' keys must return a value their owner's program writes for that key at some point (or
//     not-found).
//
// After the three handles (mode c18, see package cmd/racestress/c18 - the same code runs without -race in stream `conc`):
//
//	(iv)  results stay what they were: deterministic Get/Put/Delete programs on a memstore and a SimpleDB handle whose
//	      Get results (and Put arguments) are compared again after every later step;
//	(v)   the same with reader goroutines that hold results while writer goroutines overwrite the keys;
//	(vi)  table readers opened again and again with every read option combination, N goroutines behind a start barrier
//	      issuing their FIRST value reads on the fresh reader at once.
//
// Output: one line `STAT {...}` (JSON) per mode, `MISMATCH <mode> <detail>` per wrong answer (at most 20),
// `PANIC <detail>` for a recovered panic in a worker, `VIOLATION {"sig":…,"detail":…,"input":…}` (JSON) per failed
// oracle of mode c18.  The race detector writes its reports to stderr.
// Exit code: 0 ok, 3 wrong answers / panics, 66 race detector (its default), anything else = crash.
package main

import (
	"bytes"
	"encoding/hex"
	"encoding/json"
	"errors"
	"flag"
	"fmt"
	"io"
	"log"
	"os"
	"path/filepath"
	"runtime"
	"sort"
	"strings"
	"sync"
	"sync/atomic"
	"time"

	"github.com/thomasjungblut/go-sstables/recordio"
	"github.com/thomasjungblut/go-sstables/simpledb"
	"github.com/thomasjungblut/go-sstables/skiplist"
	"github.com/thomasjungblut/go-sstables/sstables"

	"verif/harness/cmd/racestress/c18"
)

type rng struct{ s uint64 }

func newRng(seed, idx uint64) *rng {
	r := &rng{s: seed*0x9E3779B97F4A7C15 + idx*0xD1B54A32D192ED03 + 0x2545F4914F6CDD1D}
	r.next()
	return r
}
func (r *rng) next() uint64 {
	r.s += 0x9E3779B97F4A7C15
	z := r.s
	z = (z ^ (z >> 30)) * 0xBF58476D1CE4E5B9
	z = (z ^ (z >> 27)) * 0x94D049BB133111EB
	return z ^ (z >> 31)
}
func (r *rng) intn(n int) int {
	if n <= 0 {
		return 0
	}
	return int(r.next() % uint64(n))
}
func (r *rng) bytes(n int) []byte {
	b := make([]byte, n)
	for i := range b {
		b[i] = byte(r.next())
	}
	return b
}

var (
	mismatches int64
	panics     int64
	outMu      sync.Mutex
)

func report(kind, mode, detail string) {
	var n int64
	if kind == "PANIC" {
		n = atomic.AddInt64(&panics, 1)
	} else {
		n = atomic.AddInt64(&mismatches, 1)
	}
	if n <= 20 {
		outMu.Lock()
		fmt.Printf("%s %s %s\n", kind, mode, detail)
		outMu.Unlock()
	}
}

func guard(mode string) {
	if r := recover(); r != nil {
		buf := make([]byte, 4096)
		buf = buf[:runtime.Stack(buf, false)]
		report("PANIC", mode, fmt.Sprintf("%v | %s", r, strings.ReplaceAll(string(buf), "\n", " / ")))
	}
}

func stat(mode string, m map[string]any) {
	m["mode"] = mode
	b, _ := json.Marshal(m)
	outMu.Lock()
	fmt.Printf("STAT %s\n", b)
	outMu.Unlock()
}

func hx(b []byte) string {
	if b == nil {
		return "-"
	}
	if len(b) > 12 {
		return hex.EncodeToString(b[:12]) + fmt.Sprintf("…(%d)", len(b))
	}
	return hex.EncodeToString(b)
}

// ---------------------------------------------------------------------------------------------------------
// (iii) mmap reader

type rioQuery struct {
	seek bool
	off  uint64
	want string
}

func rioAnswer(rd recordio.ReadAtI, q rioQuery) string {
	if q.seek {
		o, rec, err := rd.SeekNext(q.off)
		if err != nil {
			if errors.Is(err, io.EOF) {
				return "eof"
			}
			return "err"
		}
		return fmt.Sprintf("%d:%x", o, rec)
	}
	rec, err := rd.ReadNextAt(q.off)
	if err != nil {
		if errors.Is(err, io.EOF) {
			return "eof"
		}
		return "err"
	}
	if rec == nil {
		return "nil"
	}
	return fmt.Sprintf("%x", rec)
}

func stressMmap(dir string, seed uint64, workers int, dur time.Duration) error {
	r := newRng(seed, 3)
	comp := []int{recordio.CompressionTypeNone, recordio.CompressionTypeSnappy, recordio.CompressionTypeGZIP}[r.intn(3)]
	path := filepath.Join(dir, "stress.rio")
	w, err := recordio.NewFileWriter(recordio.Path(path), recordio.CompressionType(comp), recordio.BufferSizeBytes(4096))
	if err != nil {
		return err
	}
	if err := w.Open(); err != nil {
		return err
	}
	nrec := 200 + r.intn(300)
	var offs []uint64
	for i := 0; i < nrec; i++ {
		var rec []byte
		switch r.intn(8) {
		case 0:
			rec = []byte{}
		case 1:
			rec = bytes.Repeat([]byte{byte(i)}, 2000+r.intn(6000)) // larger than the pool's small buffers
		case 2:
			rec = append([]byte{0x91, 0x8d, 0x4c}, r.bytes(8)...) // embeds the record marker
		default:
			rec = r.bytes(1 + r.intn(120))
		}
		o, err := w.Write(rec)
		if err != nil {
			return err
		}
		offs = append(offs, o)
	}
	if err := w.Close(); err != nil {
		return err
	}
	rd, err := recordio.NewMemoryMappedReaderWithPath(path)
	if err != nil {
		return err
	}
	if err := rd.Open(); err != nil {
		return err
	}
	defer rd.Close()
	size := rd.Size()
	var qs []rioQuery
	for _, o := range offs {
		qs = append(qs, rioQuery{off: o}, rioQuery{seek: true, off: o}, rioQuery{seek: true, off: o + 1})
	}
	for i := 0; i < 300; i++ {
		o := uint64(r.intn(int(size) + 20))
		qs = append(qs, rioQuery{off: o}, rioQuery{seek: true, off: o})
	}
	for i := range qs { // the single-threaded answers
		qs[i].want = rioAnswer(rd, qs[i])
	}
	var ops int64
	deadline := time.Now().Add(dur)
	var wg sync.WaitGroup
	for g := 0; g < workers; g++ {
		wg.Add(1)
		go func(g int) {
			defer wg.Done()
			defer guard("mmap")
			rr := newRng(seed, 100+uint64(g))
			n := 0
			for time.Now().Before(deadline) {
				for k := 0; k < 64; k++ {
					q := qs[rr.intn(len(qs))]
					if got := rioAnswer(rd, q); got != q.want {
						report("MISMATCH", "mmap", fmt.Sprintf("seek=%v off=%d want %.60s got %.60s", q.seek, q.off, q.want, got))
					}
					n++
				}
			}
			atomic.AddInt64(&ops, int64(n))
		}(g)
	}
	wg.Wait()
	stat("mmap", map[string]any{"ops": ops, "queries": len(qs), "records": nrec, "compression": comp, "workers": workers})
	return nil
}

// ---------------------------------------------------------------------------------------------------------
// (ii) table reader

type sstQuery struct {
	kind   int // 0 get, 1 contains, 2 range, 3 from
	lo, hi []byte
	want   string
}

func drain(it sstables.SSTableIteratorI, err error) string {
	if err != nil {
		return "err:" + err.Error()
	}
	var sb strings.Builder
	n := 0
	for {
		k, v, err := it.Next()
		if err != nil {
			if errors.Is(err, sstables.Done) {
				break
			}
			return "itererr:" + err.Error()
		}
		n++
		fmt.Fprintf(&sb, "%x=%x;", k, v)
	}
	return fmt.Sprintf("%d|%s", n, sb.String())
}

func sstAnswer(rd sstables.SSTableReaderI, q sstQuery) string {
	switch q.kind {
	case 0:
		v, err := rd.Get(q.lo)
		if err != nil {
			if errors.Is(err, sstables.NotFound) {
				return "notfound"
			}
			return "err:" + err.Error()
		}
		return fmt.Sprintf("%x", v)
	case 1:
		ok, err := rd.Contains(q.lo)
		if err != nil {
			return "err:" + err.Error()
		}
		return fmt.Sprint(ok)
	case 2:
		return drain(rd.ScanRange(q.lo, q.hi))
	default:
		return drain(rd.ScanStartingAt(q.lo))
	}
}

func stressSst(dir string, seed uint64, workers int, dur time.Duration) error {
	r := newRng(seed, 2)
	path := filepath.Join(dir, "table")
	if err := os.MkdirAll(path, 0o700); err != nil {
		return err
	}
	w, err := sstables.NewSSTableStreamWriter(sstables.WriteBasePath(path), sstables.WithKeyComparator(skiplist.BytesComparator{}),
		sstables.WriteBufferSizeBytes(4096))
	if err != nil {
		return err
	}
	if err := w.Open(); err != nil {
		return err
	}
	nkeys := 300 + r.intn(500)
	var keys [][]byte
	for i := 0; i < nkeys; i++ {
		k := []byte(fmt.Sprintf("key-%06d", i*2))
		keys = append(keys, k)
		v := r.bytes(1 + r.intn(60))
		if r.intn(10) == 0 {
			v = bytes.Repeat([]byte{byte(i)}, 3000)
		}
		if err := w.WriteNext(k, v); err != nil {
			return err
		}
	}
	if err := w.Close(); err != nil {
		return err
	}
	rd, err := sstables.NewSSTableReader(sstables.ReadBasePath(path), sstables.ReadWithKeyComparator(skiplist.BytesComparator{}))
	if err != nil {
		return err
	}
	defer rd.Close()
	// a second handle on the same table with the documented non-default read option: values are hashed on every read
	rdh, err := sstables.NewSSTableReader(sstables.ReadBasePath(path), sstables.ReadWithKeyComparator(skiplist.BytesComparator{}),
		sstables.EnableHashCheckOnReads())
	if err != nil {
		return err
	}
	defer rdh.Close()
	handles := []sstables.SSTableReaderI{rd, rdh}
	pick := func() []byte {
		if r.intn(3) == 0 { // absent key (odd number) or outside the range
			return []byte(fmt.Sprintf("key-%06d", r.intn(2*nkeys+20)*2+1))
		}
		return keys[r.intn(len(keys))]
	}
	var qs []sstQuery
	for i := 0; i < 600; i++ {
		qs = append(qs, sstQuery{kind: 0, lo: pick()}, sstQuery{kind: 1, lo: pick()})
	}
	for i := 0; i < 60; i++ {
		a := r.intn(nkeys)
		b := a + r.intn(40)
		lo, hi := []byte(fmt.Sprintf("key-%06d", a*2-r.intn(2))), []byte(fmt.Sprintf("key-%06d", b*2+r.intn(2)))
		qs = append(qs, sstQuery{kind: 2, lo: lo, hi: hi})
		qs = append(qs, sstQuery{kind: 3, lo: []byte(fmt.Sprintf("key-%06d", (nkeys-r.intn(40))*2-r.intn(2)))})
	}
	qs = append(qs, sstQuery{kind: 2, lo: []byte("z"), hi: []byte("a")}) // rejected range
	for i := range qs {
		qs[i].want = sstAnswer(rd, qs[i])
		if got := sstAnswer(rdh, qs[i]); got != qs[i].want { // single-threaded: both handles agree
			report("MISMATCH", "sst", fmt.Sprintf("hash-check-on-reads handle differs single-threaded: want %.60s got %.60s", qs[i].want, got))
		}
	}
	var ops int64
	deadline := time.Now().Add(dur)
	var wg sync.WaitGroup
	for g := 0; g < workers; g++ {
		wg.Add(1)
		go func(g int) {
			defer wg.Done()
			defer guard("sst")
			rr := newRng(seed, 200+uint64(g))
			n := 0
			for time.Now().Before(deadline) {
				for k := 0; k < 32; k++ {
					q := qs[rr.intn(len(qs))]
					hi := rr.intn(len(handles))
					if got := sstAnswer(handles[hi], q); got != q.want {
						report("MISMATCH", "sst", fmt.Sprintf("handle=%d kind=%d lo=%s hi=%s want %.60s got %.60s", hi, q.kind, q.lo, q.hi, q.want, got))
					}
					n++
				}
			}
			atomic.AddInt64(&ops, int64(n))
		}(g)
	}
	wg.Wait()
	stat("sst", map[string]any{"ops": ops, "queries": len(qs), "keys": nkeys, "workers": workers})
	return nil
}

// ---------------------------------------------------------------------------------------------------------
// (i) database

type dbOp struct {
	kind int // 0 get own, 1 put, 2 delete, 3 get foreign
	key  string
	val  string
	want string // own reads: "nf" or the value
}

func stressDb(dir string, seed uint64, workers int, dur time.Duration) error {
	r := newRng(seed, 1)
	dbdir := filepath.Join(dir, "db")
	if err := os.MkdirAll(dbdir, 0o700); err != nil {
		return err
	}
	mem := uint64([]int{300, 1500, 8000}[r.intn(3)])
	opts := []simpledb.ExtraOption{
		simpledb.DisableCompactions(), // compaction cycles are fired by the hook goroutine
		simpledb.MemstoreSizeBytes(mem),
		simpledb.CompactionFileThreshold(r.intn(3)),
		simpledb.CompactionMaxSizeBytes(uint64([]int{400, 2000, 1 << 20}[r.intn(3)])),
		simpledb.CompactionRatio([]float32{0, 0.25, 1}[r.intn(3)])}
	async := r.intn(3) != 0 // the synchronous WAL costs an fsync per write: most runs use the buffered one
	if async {
		opts = append(opts, simpledb.EnableAsyncWAL())
	}
	db, err := simpledb.NewSimpleDB(dbdir, opts...)
	if err != nil {
		return err
	}
	if err := db.Open(); err != nil {
		return err
	}
	const keysPer = 6
	const progLen = 4000
	// programs and their single-threaded answers, computed beforehand
	progs := make([][]dbOp, workers)
	everWritten := map[string]map[string]bool{}
	for g := 0; g < workers; g++ {
		rr := newRng(seed, 300+uint64(g))
		ref := map[string]string{}
		serial := 0
		for i := 0; i < progLen; i++ {
			k := fmt.Sprintf("g%02d-k%d", g, rr.intn(keysPer))
			switch c := rr.intn(100); {
			case c < 35:
				want := "nf"
				if v, ok := ref[k]; ok {
					want = v
				}
				progs[g] = append(progs[g], dbOp{kind: 0, key: k, want: want})
			case c < 65:
				serial++
				v := fmt.Sprintf("v-%d-%d-%s", g, serial, strings.Repeat("x", rr.intn(60)))
				ref[k] = v
				if everWritten[k] == nil {
					everWritten[k] = map[string]bool{}
				}
				everWritten[k][v] = true
				progs[g] = append(progs[g], dbOp{kind: 1, key: k, val: v})
			case c < 80:
				delete(ref, k)
				progs[g] = append(progs[g], dbOp{kind: 2, key: k})
			default:
				fk := fmt.Sprintf("g%02d-k%d", rr.intn(workers), rr.intn(keysPer))
				progs[g] = append(progs[g], dbOp{kind: 3, key: fk})
			}
		}
	}
	var ops, rounds, rotations, compactions int64
	deadline := time.Now().Add(dur)
	stop := make(chan struct{})
	var hookWg, wg sync.WaitGroup
	hookWg.Add(1)
	go func() { // the hook goroutine
		defer hookWg.Done()
		defer guard("db-hook")
		hr := newRng(seed, 999)
		for {
			select {
			case <-stop:
				return
			default:
			}
			switch hr.intn(4) {
			case 0:
				if err := db.VerifRotate(); err != nil {
					report("MISMATCH", "db", "VerifRotate: "+err.Error())
				}
				atomic.AddInt64(&rotations, 1)
			case 1:
				db.VerifWaitFlushIdle()
			case 2:
				sel, _, err := db.VerifCompactOnce()
				if err != nil {
					report("MISMATCH", "db", "VerifCompactOnce: "+err.Error())
				}
				if len(sel) > 0 {
					atomic.AddInt64(&compactions, 1)
				}
			default:
				db.VerifTables()
			}
			time.Sleep(time.Duration(hr.intn(3000)) * time.Microsecond)
		}
	}()
	for g := 0; g < workers; g++ {
		wg.Add(1)
		go func(g int) {
			defer wg.Done()
			defer guard("db")
			n := 0
			// the program is replayed round after round; every round starts by deleting the goroutine's keys so that the
			// precomputed answers apply again
			for time.Now().Before(deadline) {
				for k := 0; k < keysPer; k++ {
					if err := db.Delete(fmt.Sprintf("g%02d-k%d", g, k)); err != nil {
						report("MISMATCH", "db", "Delete: "+err.Error())
					}
				}
				for _, op := range progs[g] {
					switch op.kind {
					case 0, 3:
						v, err := db.Get(op.key)
						got := v
						if errors.Is(err, simpledb.ErrNotFound) {
							got = "nf"
						} else if err != nil {
							got = "err:" + err.Error()
						}
						if op.kind == 0 {
							if got != op.want {
								report("MISMATCH", "db", fmt.Sprintf("own key %s: want %.40s got %.40s", op.key, op.want, got))
							}
						} else if got != "nf" && !everWritten[op.key][got] {
							report("MISMATCH", "db", fmt.Sprintf("foreign key %s: got %.40s which its owner never writes", op.key, got))
						}
					case 1:
						if err := db.Put(op.key, op.val); err != nil {
							report("MISMATCH", "db", "Put: "+err.Error())
						}
					case 2:
						if err := db.Delete(op.key); err != nil {
							report("MISMATCH", "db", "Delete: "+err.Error())
						}
					}
					n++
					if n%16 == 0 && !time.Now().Before(deadline) {
						break
					}
				}
				atomic.AddInt64(&rounds, 1)
			}
			atomic.AddInt64(&ops, int64(n))
		}(g)
	}
	wg.Wait()
	close(stop) // the hooks are not called concurrently with Close (harness obligation, see SST/Spec/Access.lean)
	hookWg.Wait()
	names, _, _, _ := db.VerifTables()
	if err := db.Close(); err != nil {
		report("MISMATCH", "db", "Close: "+err.Error())
	}
	stat("db", map[string]any{"ops": ops, "rounds": rounds, "rotations_forced": rotations, "compactions_merged": compactions,
		"tables_at_end": len(names), "memstore": mem, "workers": workers, "async_wal": async})
	return nil
}

// ---------------------------------------------------------------------------------------------------------
// (iv)-(vi) held results and fresh readers (package c18)

func stressC18(dir string, seed uint64, dur time.Duration) error {
	sink := c18.NewSink()
	sub := filepath.Join(dir, "c18")
	if err := os.MkdirAll(sub, 0o700); err != nil {
		return err
	}
	t0 := time.Now()
	lap := func(name string) {
		sink.Stat("ms:"+name, int(time.Since(t0).Milliseconds()))
		t0 = time.Now()
	}
	err := c18.Alias(seed, 0, sub, 4, sink)
	lap("alias")
	if err == nil {
		err = c18.Held(seed, 0, sub, dur/16, sink)
		lap("held")
	}
	if err == nil {
		err = c18.Fresh(seed, 0, sub, dur/6, 400, sink)
		lap("fresh")
	}
	for _, v := range sink.Violations {
		b, _ := json.Marshal(v)
		atomic.AddInt64(&mismatches, 1)
		outMu.Lock()
		fmt.Printf("VIOLATION %s\n", b)
		outMu.Unlock()
	}
	stat("c18", map[string]any{"ops": sink.Ops, "classes": sink.Stats})
	return err
}

func main() {
	log.SetOutput(io.Discard)
	mode := flag.String("mode", "all", "db|sst|mmap|c18|all (c18 runs after the others)")
	seed := flag.Uint64("seed", 1, "seed")
	dur := flag.Duration("dur", 3*time.Second, "duration per mode")
	workers := flag.Int("workers", 6, "goroutines per handle")
	procs := flag.Int("procs", 0, "GOMAXPROCS (0 = leave)")
	flag.Parse()
	if *procs > 0 {
		runtime.GOMAXPROCS(*procs)
	}
	// mostly on tmpfs (when there is one): fsync-bound runs exercise far fewer interleavings per second
	base := ""
	if st, e := os.Stat("/dev/shm"); e == nil && st.IsDir() && *seed%4 != 0 {
		base = "/dev/shm"
	}
	dir, err := os.MkdirTemp(base, "verif-racestress-")
	if err != nil {
		fmt.Println("HARNESS", err)
		os.Exit(4)
	}
	defer os.RemoveAll(dir)
	var modes []string
	if *mode == "all" {
		modes = []string{"mmap", "sst", "db", "c18"}
	} else {
		modes = strings.Split(*mode, ",")
	}
	sort.Strings(modes)
	withC18 := false
	for i, m := range modes { // c18 runs alone, after the concurrent part
		if m == "c18" {
			withC18 = true
			modes = append(modes[:i:i], modes[i+1:]...)
			break
		}
	}
	var wg sync.WaitGroup
	errs := make(chan error, len(modes))
	for _, m := range modes { // the three handles are hammered at the same time
		wg.Add(1)
		go func(m string) {
			defer wg.Done()
			var err error
			switch m {
			case "db":
				err = stressDb(dir, *seed, *workers, *dur)
			case "sst":
				err = stressSst(dir, *seed, *workers, *dur)
			case "mmap":
				err = stressMmap(dir, *seed, *workers, *dur)
			default:
				err = fmt.Errorf("unknown mode %q", m)
			}
			if err != nil {
				errs <- fmt.Errorf("%s: %w", m, err)
			}
		}(m)
	}
	wg.Wait()
	close(errs)
	code := 0
	if withC18 {
		if err := stressC18(dir, *seed, *dur); err != nil {
			fmt.Println("HARNESS", fmt.Errorf("c18: %w", err))
			code = 4
		}
	}
	for e := range errs {
		fmt.Println("HARNESS", e)
		code = 4
	}
	if atomic.LoadInt64(&mismatches) > 0 || atomic.LoadInt64(&panics) > 0 {
		fmt.Printf("TOTAL mismatches=%d panics=%d\n", mismatches, panics)
		if code == 0 {
			code = 3
		}
	}
	os.RemoveAll(dir)
	os.Exit(code)
}
