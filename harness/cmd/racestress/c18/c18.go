// Package c18 holds the parts of the C18 oracles that BOTH streams run: `race` (linked into cmd/racestress, built with
// -race) and `conc` (linked into cmd/sstcheck, child mode `c18child`, ordinary build).
//
//	Alias  deterministic, single-threaded: random Get/Put/Delete programs on a memstore and on a SimpleDB handle; every
//	       []byte a Get/GetBytes returned is kept together with a copy taken when the call returned and compared with
//	       that copy after every later step (Put of the same key with a same-length / shorter / longer value, Delete,
//	       forced rotation, other Gets).  The slices passed to Put are kept the same way (caller-owned inputs).
//	Held   the same demand with goroutines: readers keep the results of GetBytes / memstore.Get (the memstore behind a
//	       sync.RWMutex, its documented lock discipline) and compare them again and again with the copy while writer
//	       goroutines Put the same keys with same-length and shorter values.  The re-check runs in another goroutine
//	       than the Put, so that the race detector sees a library that writes into memory it has handed out.
//	Fresh  table readers: a small table is opened again and again with every documented read option combination
//	       (SkipHashCheckOnLoad x EnableHashCheckOnReads x ReadBufferSizeBytes; default slice index loader) and N
//	       goroutines behind a start barrier issue their FIRST operation on the fresh reader - a value read: Get,
//	       ScanRange(..).Next, ScanStartingAt(..).Next - at the same time, followed by a few more queries.  Every call
//	       must return what it returns alone (answers computed beforehand, single-threaded); Get results are held and
//	       compared again at the end.
//
// Rules the package follows itself: a slice handed to Put is never written again (the memstore stores it), a slice
// returned by the library is only read.  All random choices come from an own PRNG stream (seed ^ salt), so adding these
// parts leaves the cases of the other parts of the streams unchanged.
package c18

import (
	"bytes"
	"errors"
	"fmt"
	"os"
	"path/filepath"
	"runtime"
	"strings"
	"sync"
	"sync/atomic"
	"time"

	"github.com/thomasjungblut/go-sstables/memstore"
	"github.com/thomasjungblut/go-sstables/simpledb"
	"github.com/thomasjungblut/go-sstables/skiplist"
	"github.com/thomasjungblut/go-sstables/sstables"
)

const salt = 0xC18A11A5ED5EED01

type rng struct{ s uint64 }

func newRng(seed, idx uint64) *rng {
	r := &rng{s: (seed^salt)*0x9E3779B97F4A7C15 + idx*0xD1B54A32D192ED03 + 0x2545F4914F6CDD1D}
	r.next()
	return r
}
func (r *rng) next() uint64 {
	r.s += 0x9E3779B97F4A7C15
	z := r.s
	z = (z ^ (z >> 30)) * 0xBF58476D1CE4E5B9
	z = (z ^ (z >> 27)) * 0x94D049BB133111EB
	return z ^ (z >> 31)
}
func (r *rng) intn(n int) int {
	if n <= 0 {
		return 0
	}
	return int(r.next() % uint64(n))
}
func (r *rng) bytes(n int) []byte {
	b := make([]byte, n)
	for i := range b {
		b[i] = byte(r.next())
	}
	return b
}

// Sink receives violations and input statistics; safe for concurrent use.
type Sink struct {
	mu         sync.Mutex
	Violations []Violation
	Stats      map[string]int
	Ops        int64
	perSig     map[string]int
}

type Violation struct {
	Sig    string `json:"sig"`
	Detail string `json:"detail"`
	Input  string `json:"input"`
}

func NewSink() *Sink { return &Sink{Stats: map[string]int{}, perSig: map[string]int{}} }

func (s *Sink) Violate(sig, detail, input string) {
	s.mu.Lock()
	defer s.mu.Unlock()
	s.perSig[sig]++
	s.Stats["violations:"+sig]++
	if s.perSig[sig] <= 3 {
		s.Violations = append(s.Violations, Violation{Sig: sig, Detail: clip(detail, 1500), Input: clip(input, 2500)})
	}
}

func (s *Sink) Stat(k string, n int) {
	s.mu.Lock()
	s.Stats[k] += n
	s.mu.Unlock()
}

func (s *Sink) violated(sig string) bool {
	s.mu.Lock()
	defer s.mu.Unlock()
	return s.perSig[sig] > 0
}

func clip(s string, n int) string {
	if len(s) > n {
		return s[:n] + "…"
	}
	return s
}

func hx(b []byte) string {
	if b == nil {
		return "nil"
	}
	if len(b) > 10 {
		return fmt.Sprintf("%x…(%d bytes)", b[:10], len(b))
	}
	return fmt.Sprintf("%x", b)
}

// where two byte strings differ first (for the reports)
func diffAt(a, b []byte) string {
	if len(a) != len(b) {
		return fmt.Sprintf("length %d -> %d", len(a), len(b))
	}
	for i := range a {
		if a[i] != b[i] {
			return fmt.Sprintf("byte %d of %d: %02x -> %02x", i, len(a), a[i], b[i])
		}
	}
	return "equal"
}

func guard(s *Sink, where string) {
	if r := recover(); r != nil {
		buf := make([]byte, 4096)
		buf = buf[:runtime.Stack(buf, false)]
		s.Violate("panic:"+where, fmt.Sprintf("%v | %s", r, strings.ReplaceAll(string(buf), "\n", " / ")), where)
	}
}

// ---------------------------------------------------------------------------------------------------------
// the two handles with Get/Put/Delete

type kv interface {
	name() string
	get(k []byte) ([]byte, string) // value, "" | "nf" | "err:…"
	put(k, v []byte) error
	del(k []byte) error
}

type dbKV struct{ db *simpledb.DB }

func (d dbKV) name() string { return "simpledb" }
func (d dbKV) get(k []byte) ([]byte, string) {
	v, err := d.db.GetBytes(k)
	if err != nil {
		if errors.Is(err, simpledb.ErrNotFound) {
			return nil, "nf"
		}
		return nil, "err:" + err.Error()
	}
	return v, ""
}
func (d dbKV) put(k, v []byte) error { return d.db.PutBytes(k, v) }
func (d dbKV) del(k []byte) error    { return d.db.DeleteBytes(k) }

// a memstore under its documented lock discipline: readers share, writers exclude
type memKV struct {
	mu sync.RWMutex
	m  memstore.MemStoreI
}

func (d *memKV) name() string { return "memstore" }
func (d *memKV) get(k []byte) ([]byte, string) {
	d.mu.RLock()
	v, err := d.m.Get(k)
	d.mu.RUnlock()
	if err != nil {
		if errors.Is(err, memstore.KeyNotFound) || errors.Is(err, memstore.KeyTombstoned) {
			return nil, "nf"
		}
		return nil, "err:" + err.Error()
	}
	return v, ""
}
func (d *memKV) put(k, v []byte) error {
	d.mu.Lock()
	defer d.mu.Unlock()
	return d.m.Upsert(k, v)
}
func (d *memKV) del(k []byte) error {
	d.mu.Lock()
	defer d.mu.Unlock()
	return d.m.Tombstone(k)
}

func openDB(dir string, sub string, extra ...simpledb.ExtraOption) (*simpledb.DB, error) {
	p := filepath.Join(dir, sub)
	if err := os.MkdirAll(p, 0o700); err != nil {
		return nil, err
	}
	opts := append([]simpledb.ExtraOption{simpledb.DisableCompactions(), simpledb.EnableAsyncWAL()}, extra...)
	db, err := simpledb.NewSimpleDB(p, opts...)
	if err != nil {
		return nil, err
	}
	if err := db.Open(); err != nil {
		return nil, err
	}
	return db, nil
}

// ---------------------------------------------------------------------------------------------------------
// Alias: deterministic single-threaded programs

type kept struct {
	what string // "result of step 3: get(k1)" | "argument of step 2: put(k1,#2 x 64)"
	got  []byte // the library's / the caller's slice: only read
	want []byte // copy taken when the call returned
}

func fill(serial int, n int) []byte { return bytes.Repeat([]byte{byte(1 + serial%250)}, n) }

// Alias runs `programs` random programs per handle kind.  dir: scratch directory for the database.
func Alias(seed, idx uint64, dir string, programs int, s *Sink) error {
	for p := 0; p < programs; p++ {
		for kind := 0; kind < 2; kind++ {
			r := newRng(seed, idx*1000+uint64(p)*2+uint64(kind)+10)
			var h kv
			var db *simpledb.DB
			if kind == 0 {
				h = &memKV{m: memstore.NewMemStore()}
			} else {
				var err error
				db, err = openDB(dir, fmt.Sprintf("alias-%d", p))
				if err != nil {
					return err
				}
				h = dbKV{db}
			}
			aliasProgram(r, h, db, s)
			if db != nil {
				if err := db.Close(); err != nil {
					s.Violate("wrong-answer:alias", "Close: "+err.Error(), h.name())
				}
				_ = os.RemoveAll(filepath.Join(dir, fmt.Sprintf("alias-%d", p)))
			}
		}
	}
	return nil
}

func aliasProgram(r *rng, h kv, db *simpledb.DB, s *Sink) {
	defer guard(s, "alias")
	nkeys := 1 + r.intn(3)
	keys := make([][]byte, nkeys)
	for i := range keys {
		keys[i] = []byte(fmt.Sprintf("k%d", i))
	}
	base := []int{1, 8, 64, 300, 5000, 70000}[r.intn(6)]
	ref := map[int][]byte{} // reference map (own copies)
	cur := map[int]int{}    // length of the value last put
	var keptList []kept
	var prog []string
	serial := 0
	steps := 12 + r.intn(30)
	check := func(after string) bool {
		for _, k := range keptList {
			s.Ops++
			if !bytes.Equal(k.got, k.want) {
				sig := "held-result-changed-after-" + after
				if strings.HasPrefix(k.what, "argument") {
					sig = "put-argument-changed-after-" + after
				}
				s.Violate(sig, fmt.Sprintf("%s, single goroutine: the %s was %s when the call returned and is %s after the last step (%s)",
					h.name(), k.what, hx(k.want), hx(k.got), diffAt(k.want, k.got)),
					h.name()+": "+strings.Join(prog, "; "))
				return false
			}
		}
		return true
	}
	for st := 0; st < steps; st++ {
		ki := r.intn(nkeys)
		c := r.intn(100)
		after := ""
		switch {
		case c < 38:
			v, out := h.get(keys[ki])
			want, ok := ref[ki]
			desc := "nf"
			if out == "" {
				desc = hx(v)
			} else if out != "nf" {
				desc = out
			}
			prog = append(prog, fmt.Sprintf("%d: get(k%d)=%s", st, ki, desc))
			if (out == "nf") != !ok || (out != "" && out != "nf") || (ok && !bytes.Equal(v, want)) {
				s.Violate("wrong-answer:alias", fmt.Sprintf("%s: get(k%d) returned %s, the reference map holds %s", h.name(), ki, desc, hx(want)),
					h.name()+": "+strings.Join(prog, "; "))
				return
			}
			if out == "" {
				keptList = append(keptList, kept{what: fmt.Sprintf("result of step %d: get(k%d)", st, ki), got: v, want: append([]byte{}, v...)})
				s.Stat("alias:get-held", 1)
			}
			after = "get"
		case c < 80:
			n := base
			cl, had := cur[ki]
			class := "first"
			if had {
				switch d := r.intn(100); {
				case d < 45:
					n, class = cl, "same-length"
				case d < 75:
					n, class = 1+r.intn(cl), "shorter-or-equal"
					if n < cl {
						class = "shorter"
					}
				case d < 90:
					n, class = cl+1+r.intn(cl+8), "longer"
				default:
					n, class = 1+r.intn(2*base), "random-length"
				}
			}
			serial++
			v := fill(serial, n) // fresh slice, never written again
			prog = append(prog, fmt.Sprintf("%d: put(k%d,%02x x %d)", st, ki, v[0], n))
			if err := h.put(keys[ki], v); err != nil {
				s.Violate("wrong-answer:alias", h.name()+": put failed: "+err.Error(), h.name()+": "+strings.Join(prog, "; "))
				return
			}
			ref[ki] = append([]byte{}, v...)
			cur[ki] = n
			keptList = append(keptList, kept{what: fmt.Sprintf("argument of step %d: put(k%d, %02x x %d)", st, ki, v[0], n), got: v, want: ref[ki]})
			s.Stat("alias:put-"+class, 1)
			after = "put"
		case c < 90:
			prog = append(prog, fmt.Sprintf("%d: delete(k%d)", st, ki))
			if err := h.del(keys[ki]); err != nil {
				s.Violate("wrong-answer:alias", h.name()+": delete failed: "+err.Error(), h.name()+": "+strings.Join(prog, "; "))
				return
			}
			delete(ref, ki)
			delete(cur, ki) // the next put of this key is not an overwrite of a live value
			s.Stat("alias:delete", 1)
			after = "delete"
		default:
			if db == nil {
				continue
			}
			prog = append(prog, fmt.Sprintf("%d: rotate+flush", st))
			if err := db.VerifRotate(); err != nil {
				s.Violate("wrong-answer:alias", "forced rotation failed: "+err.Error(), h.name()+": "+strings.Join(prog, "; "))
				return
			}
			db.VerifWaitFlushIdle()
			for k := range cur { // values now live in a table: the next put does not overwrite a memstore entry
				delete(cur, k)
			}
			s.Stat("alias:rotate", 1)
			after = "rotate"
		}
		if !check(after) {
			return
		}
	}
	s.Stat("alias:programs:"+h.name(), 1)
}

// ---------------------------------------------------------------------------------------------------------
// Held: results kept by reader goroutines while writer goroutines overwrite the same keys

type heldEntry struct {
	key       int
	got, want []byte
	at        int64
}

// Held runs readers/writers on a SimpleDB handle and on a memstore for about dur each.
func Held(seed, idx uint64, dir string, dur time.Duration, s *Sink) error {
	r := newRng(seed, idx*1000+500)
	for kind := 0; kind < 2; kind++ {
		var h kv
		var db *simpledb.DB
		if kind == 0 {
			h = &memKV{m: memstore.NewMemStore()}
		} else {
			var err error
			db, err = openDB(dir, "held")
			if err != nil {
				return err
			}
			h = dbKV{db}
		}
		heldRun(r, seed, idx, h, db, dur, s)
		if db != nil {
			if err := db.Close(); err != nil {
				s.Violate("wrong-answer:held", "Close: "+err.Error(), h.name())
			}
			_ = os.RemoveAll(filepath.Join(dir, "held"))
		}
	}
	return nil
}

func uniform(b []byte) bool {
	for _, x := range b {
		if x != b[0] {
			return false
		}
	}
	return true
}

func heldRun(r *rng, seed, idx uint64, h kv, db *simpledb.DB, dur time.Duration, s *Sink) {
	nkeys := 1 + r.intn(3)
	writers := 1 + r.intn(3)
	readers := 2 + r.intn(4)
	lens := make([]int, nkeys) // every key has its own value length: overwrites are same-length, sometimes shorter
	keys := make([][]byte, nkeys)
	for i := range keys {
		keys[i] = []byte(fmt.Sprintf("hot-%d", i))
		lens[i] = []int{16, 200, 4096, 65536}[r.intn(4)]
	}
	rotate := db != nil && r.intn(3) == 0
	input := fmt.Sprintf("%s: %d writer goroutines Put keys hot-0..hot-%d (value = one byte repeated, lengths %v, every 4th put shorter), "+
		"%d reader goroutines Get them, keep the last 8 results and compare them with the copy taken at return time; forced rotation in between: %v",
		h.name(), writers, nkeys-1, lens, readers, rotate)
	for i := range keys {
		if err := h.put(keys[i], fill(i, lens[i])); err != nil {
			s.Violate("wrong-answer:held", "put failed: "+err.Error(), input)
			return
		}
	}
	var clock int64
	var puts, gets, rechecks int64
	stop := make(chan struct{})
	var wg sync.WaitGroup
	for w := 0; w < writers; w++ {
		wg.Add(1)
		go func(w int) {
			defer wg.Done()
			defer guard(s, "held")
			rr := newRng(seed, idx*1000+600+uint64(w))
			n := 0
			for {
				select {
				case <-stop:
					atomic.AddInt64(&puts, int64(n))
					return
				default:
				}
				ki := rr.intn(nkeys)
				ln := lens[ki]
				if n%4 == 3 {
					ln = 1 + rr.intn(ln)
				}
				v := fill(w*83+n, ln) // fresh, never written again
				if err := h.put(keys[ki], v); err != nil {
					s.Violate("wrong-answer:held", "put failed: "+err.Error(), input)
					return
				}
				atomic.AddInt64(&clock, 1)
				n++
				if rotate && w == 0 && n == 50 {
					if err := db.VerifRotate(); err != nil {
						s.Violate("wrong-answer:held", "forced rotation failed: "+err.Error(), input)
					}
				}
				if n%8 == 0 {
					runtime.Gosched()
				}
			}
		}(w)
	}
	for g := 0; g < readers; g++ {
		wg.Add(1)
		go func(g int) {
			defer wg.Done()
			defer guard(s, "held")
			rr := newRng(seed, idx*1000+700+uint64(g))
			var ring [8]heldEntry
			n, rc := 0, 0
			recheck := func() bool {
				for i := range ring {
					e := &ring[i]
					if e.got == nil {
						continue
					}
					rc++
					if !bytes.Equal(e.got, e.want) {
						s.Violate("held-result-changed-after-put", fmt.Sprintf("%s: the result of get(hot-%d) was %s when the call returned (put counter %d) and is %s now (put counter %d; %s); "+
							"in between other goroutines only Put the key with fresh slices", h.name(), e.key, hx(e.want), e.at, hx(e.got), atomic.LoadInt64(&clock), diffAt(e.want, e.got)), input)
						return false
					}
				}
				return true
			}
			for {
				select {
				case <-stop:
					recheck()
					atomic.AddInt64(&gets, int64(n))
					atomic.AddInt64(&rechecks, int64(rc))
					return
				default:
				}
				ki := rr.intn(nkeys)
				v, out := h.get(keys[ki])
				n++
				if out != "" {
					s.Violate("wrong-answer:held", fmt.Sprintf("%s: get(hot-%d) = %s although the key is never deleted", h.name(), ki, out), input)
					return
				}
				e := heldEntry{key: ki, got: v, want: append([]byte{}, v...), at: atomic.LoadInt64(&clock)}
				if len(e.want) == 0 || len(e.want) > lens[ki] || !uniform(e.want) {
					if !s.violated("get-result-torn-under-concurrent-put") {
						s.Violate("get-result-torn-under-concurrent-put", fmt.Sprintf("%s: get(hot-%d) returned %d bytes that nobody ever put (every value is one byte repeated, at most %d): %s",
							h.name(), ki, len(e.want), lens[ki], describeMix(e.want)), input)
					}
					return
				}
				ring[n%len(ring)] = e
				if !recheck() {
					return
				}
				if n%16 == 0 {
					runtime.Gosched()
				}
			}
		}(g)
	}
	time.Sleep(dur)
	close(stop)
	wg.Wait()
	atomic.AddInt64(&s.Ops, gets+puts+rechecks)
	s.Stat("held:"+h.name()+":gets", int(gets))
	s.Stat("held:"+h.name()+":puts", int(puts))
	s.Stat("held:"+h.name()+":rechecks-of-held-results", int(rechecks))
	s.Stat(fmt.Sprintf("held:writers:%d", writers), 1)
	s.Stat(fmt.Sprintf("held:readers:%d", readers), 1)
	if rotate {
		s.Stat("held:with-forced-rotation", 1)
	}
}

func describeMix(b []byte) string {
	if len(b) == 0 {
		return "empty"
	}
	for i, x := range b {
		if x != b[0] {
			return fmt.Sprintf("%d x %02x followed by %02x", i, b[0], x)
		}
	}
	return fmt.Sprintf("%d x %02x", len(b), b[0])
}

// ---------------------------------------------------------------------------------------------------------
// Fresh: first value reads on freshly opened table readers, all at once

type query struct {
	kind   int // 0 get, 1 contains, 2 range, 3 from
	lo, hi []byte
	first  bool // its first library call reads a value (present Get, non-empty scans)
	want   string
}

func (q query) String() string {
	switch q.kind {
	case 0:
		return fmt.Sprintf("Get(%s)", q.lo)
	case 1:
		return fmt.Sprintf("Contains(%s)", q.lo)
	case 2:
		return fmt.Sprintf("ScanRange(%s,%s) drained", q.lo, q.hi)
	}
	return fmt.Sprintf("ScanStartingAt(%s) drained", q.lo)
}

func drain(it sstables.SSTableIteratorI, err error) string {
	if err != nil {
		return "err:" + err.Error()
	}
	var sb strings.Builder
	n := 0
	for {
		k, v, err := it.Next()
		if err != nil {
			if errors.Is(err, sstables.Done) {
				break
			}
			return fmt.Sprintf("itererr after %d records:%s", n, err.Error())
		}
		n++
		fmt.Fprintf(&sb, "%x=%x;", k, v)
	}
	return fmt.Sprintf("%d|%s", n, sb.String())
}

// answer returns the canonical answer and, for a successful Get, the slice the reader returned
func answer(rd sstables.SSTableReaderI, q query) (string, []byte) {
	switch q.kind {
	case 0:
		v, err := rd.Get(q.lo)
		if err != nil {
			if errors.Is(err, sstables.NotFound) {
				return "notfound", nil
			}
			return "err:" + err.Error(), nil
		}
		return fmt.Sprintf("%x", v), v
	case 1:
		ok, err := rd.Contains(q.lo)
		if err != nil {
			return "err:" + err.Error(), nil
		}
		return fmt.Sprint(ok), nil
	case 2:
		return drain(rd.ScanRange(q.lo, q.hi)), nil
	default:
		return drain(rd.ScanStartingAt(q.lo)), nil
	}
}

type combo struct {
	skipLoad, hashReads, smallBuf bool
}

func (c combo) String() string {
	var p []string
	if c.skipLoad {
		p = append(p, "SkipHashCheckOnLoad()")
	}
	if c.hashReads {
		p = append(p, "EnableHashCheckOnReads()")
	}
	if c.smallBuf {
		p = append(p, "ReadBufferSizeBytes(4096)")
	}
	if len(p) == 0 {
		return "default options"
	}
	return strings.Join(p, "+")
}

func (c combo) open(path string) (sstables.SSTableReaderI, error) {
	opts := []sstables.ReadOption{sstables.ReadBasePath(path), sstables.ReadWithKeyComparator(skiplist.BytesComparator{})}
	if c.skipLoad {
		opts = append(opts, sstables.SkipHashCheckOnLoad())
	}
	if c.hashReads {
		opts = append(opts, sstables.EnableHashCheckOnReads())
	}
	if c.smallBuf {
		opts = append(opts, sstables.ReadBufferSizeBytes(4096))
	}
	return sstables.NewSSTableReader(opts...)
}

func short(s string) string { return clip(s, 90) }

// Fresh re-opens one small table up to maxRounds times within about dur.
func Fresh(seed, idx uint64, dir string, dur time.Duration, maxRounds int, s *Sink) error {
	r := newRng(seed, idx*1000+800)
	path := filepath.Join(dir, "fresh-table")
	if err := os.MkdirAll(path, 0o700); err != nil {
		return err
	}
	defer os.RemoveAll(path)
	wopts := []sstables.WriterOption{sstables.WriteBasePath(path), sstables.WithKeyComparator(skiplist.BytesComparator{})}
	if r.intn(2) == 0 {
		wopts = append(wopts, sstables.WriteBufferSizeBytes(4096))
	}
	w, err := sstables.NewSSTableStreamWriter(wopts...)
	if err != nil {
		return err
	}
	if err := w.Open(); err != nil {
		return err
	}
	nkeys := 24 + r.intn(72)
	key := func(i int) []byte { return []byte(fmt.Sprintf("key-%04d", i)) }
	for i := 0; i < nkeys; i++ {
		v := r.bytes(1 + r.intn(150))
		if r.intn(12) == 0 {
			v = bytes.Repeat([]byte{byte(i)}, 3000+r.intn(3000))
		}
		if err := w.WriteNext(key(2*i), v); err != nil {
			return err
		}
	}
	if err := w.Close(); err != nil {
		return err
	}
	var qs []query
	for i := 0; i < nkeys; i++ {
		qs = append(qs, query{kind: 0, lo: key(2 * i), first: true})
	}
	for i := 0; i < nkeys/2; i++ {
		qs = append(qs, query{kind: 0, lo: key(2*r.intn(nkeys+3) + 1)}, query{kind: 1, lo: key(r.intn(2*nkeys + 4))})
		a := r.intn(nkeys)
		b := a + r.intn(4)
		if b >= nkeys {
			b = nkeys - 1
		}
		qs = append(qs, query{kind: 2, lo: key(2*a - r.intn(2)), hi: key(2*b + r.intn(2)), first: true})
		qs = append(qs, query{kind: 3, lo: key(2*(nkeys-1-r.intn(4)) - r.intn(2)), first: true})
	}
	// what every call returns alone: a reader with default options, one goroutine
	base, err := combo{}.open(path)
	if err != nil {
		return err
	}
	var firsts []int
	for i := range qs {
		qs[i].want, _ = answer(base, qs[i])
		if strings.HasPrefix(qs[i].want, "err:") || strings.HasPrefix(qs[i].want, "itererr") {
			_ = base.Close()
			return fmt.Errorf("fresh: single-threaded %s on an intact table fails: %s", qs[i], qs[i].want)
		}
		if qs[i].first {
			firsts = append(firsts, i)
		}
	}
	if err := base.Close(); err != nil {
		return err
	}
	var combos []combo
	for m := 0; m < 8; m++ {
		combos = append(combos, combo{skipLoad: m&1 != 0, hashReads: m&2 != 0, smallBuf: m&4 != 0})
	}
	// … and alone on a reader with each option combination
	for _, c := range combos {
		rd, err := c.open(path)
		if err != nil {
			s.Violate("wrong-answer:fresh-single-threaded", fmt.Sprintf("opening the intact table with %s fails: %v", c, err), c.String())
			return nil
		}
		for _, q := range qs {
			s.Ops++
			if got, _ := answer(rd, q); got != q.want {
				s.Violate("wrong-answer:fresh-single-threaded", fmt.Sprintf("%s on a reader with %s, one goroutine: want %s got %s", q, c, short(q.want), short(got)), c.String())
				_ = rd.Close()
				return nil
			}
		}
		if err := rd.Close(); err != nil {
			s.Violate("wrong-answer:fresh-single-threaded", fmt.Sprintf("Close of a reader with %s: %v", c, err), c.String())
			return nil
		}
	}
	deadline := time.Now().Add(dur)
	round := 0
	var ops int64
	for ; round < maxRounds && time.Now().Before(deadline); round++ {
		// readers that skip the load-time scan are opened three times as often: for them the goroutines' reads are the
		// first reads of the data file at all
		c := combos[[]int{1, 3, 5, 7, 1, 3, 0, 2, 5, 7, 4, 6}[round%12]]
		goroutines := 8 + r.intn(5)
		extra := 2 + r.intn(4)
		chanBarrier := r.intn(2) == 0
		rd, err := c.open(path)
		if err != nil {
			s.Violate("fresh-reader-open-failed", fmt.Sprintf("round %d: opening the intact table with %s fails: %v", round, c, err), c.String())
			break
		}
		input := fmt.Sprintf("table of %d records re-opened (round %d) with %s; %d goroutines behind a start barrier, each starts with a value read "+
			"(Get of a present key / ScanRange / ScanStartingAt, by goroutine number mod 3) and issues %d more queries", nkeys, round, c, goroutines, extra)
		start := make(chan struct{})
		var ready, goFlag int32
		var wg sync.WaitGroup
		var bad int32
		for g := 0; g < goroutines; g++ {
			// the programs are drawn before the goroutines start
			prog := make([]int, 0, 1+extra)
			want := g % 3 // kind of the first query: 0 get, 1 range, 2 from
			for {
				i := firsts[r.intn(len(firsts))]
				if (qs[i].kind == 0 && want == 0) || (qs[i].kind == 2 && want == 1) || (qs[i].kind == 3 && want == 2) {
					prog = append(prog, i)
					break
				}
			}
			for k := 0; k < extra; k++ {
				prog = append(prog, r.intn(len(qs)))
			}
			wg.Add(1)
			go func(g int, prog []int) {
				defer wg.Done()
				defer guard(s, "fresh")
				var held []heldEntry
				if chanBarrier {
					<-start
				} else {
					atomic.AddInt32(&ready, 1)
					for atomic.LoadInt32(&goFlag) == 0 {
						runtime.Gosched()
					}
				}
				for n, qi := range prog {
					q := qs[qi]
					got, v := answer(rd, q)
					if got != q.want {
						if atomic.AddInt32(&bad, 1) == 1 {
							s.Violate("first-read-on-fresh-reader-concurrent", fmt.Sprintf("goroutine %d, its call number %d: %s: alone it returns %s, here it returned %s", g, n, q, short(q.want), clip(got, 400)), input)
						}
						continue
					}
					if v != nil {
						held = append(held, heldEntry{key: qi, got: v, want: append([]byte{}, v...)})
					}
				}
				for _, e := range held {
					if !bytes.Equal(e.got, e.want) {
						s.Violate("held-result-changed-after-get", fmt.Sprintf("goroutine %d: the result of %s was %s when the call returned and is %s after the goroutines' later reads (%s)",
							g, qs[e.key], hx(e.want), hx(e.got), diffAt(e.want, e.got)), input)
					}
				}
				atomic.AddInt64(&ops, int64(len(prog)+len(held)))
			}(g, prog)
		}
		if chanBarrier {
			close(start)
		} else {
			for atomic.LoadInt32(&ready) < int32(goroutines) {
				runtime.Gosched()
			}
			atomic.StoreInt32(&goFlag, 1)
		}
		wg.Wait()
		if err := rd.Close(); err != nil {
			s.Violate("wrong-answer:fresh", fmt.Sprintf("Close after the goroutines finished: %v", err), input)
		}
		s.Stat("fresh:rounds:"+c.String(), 1)
		if chanBarrier {
			s.Stat("fresh:barrier:channel-close", 1)
		} else {
			s.Stat("fresh:barrier:spin", 1)
		}
		if atomic.LoadInt32(&bad) > 0 {
			break // one report per run is enough: the reader is in an undefined state from here on
		}
	}
	atomic.AddInt64(&s.Ops, ops)
	s.Stat("fresh:rounds", round)
	s.Stat("fresh:queries", len(qs))
	return nil
}
