package main

import (
	"bytes"
	"encoding/binary"
	"errors"
	"fmt"
	"hash/crc64"
	"hash/fnv"
	"os"
	"path/filepath"
	"sort"
	"strings"

	"github.com/steakknife/bloomfilter"
	"github.com/thomasjungblut/go-sstables/recordio"
	rProto "github.com/thomasjungblut/go-sstables/recordio/proto"
	"github.com/thomasjungblut/go-sstables/skiplist"
	"github.com/thomasjungblut/go-sstables/sstables"
	sProto "github.com/thomasjungblut/go-sstables/sstables/proto"
	gproto "google.golang.org/protobuf/proto"
)

// ---------------------------------------------------------------------------------------------
// stream "sst": stream-writer programs with fault masks (C15) and every reader/loader on the
// resulting table (C03).  One case = one writer program + reader configurations + probes.

type sstCall struct {
	key   []byte
	val   []byte
	fault byte // 'n' none, 'd' data append fails, 'i' index append fails
}

type sstKV struct {
	key []byte
	val []byte
}

type sstCase struct {
	dcomp, icomp int
	wbuf, rbuf   int
	bloomN       uint64
	bloomP       float64
	simple       bool // written through SSTableSimpleWriter.WriteSkipListMap
	style        string
	flavour      string // "table" (ascending, fault free) or "program"
	calls        []sstCall
	extra        []sstProbe // hand-written probes of a corpus case, run after the generated ones
	big          string     // "" or the size classes of a big-record case (values / keys above 32 KiB, 64 KiB, 1 MiB): reduced probe list
	cmp          string     // key comparator handed to writer and readers ("" = skiplist.BytesComparator): same ORDER, other magnitudes
	feed         string     // how the caller owns the slices it hands to the writer ("" = a fresh slice per key and value), see sstFeeds
}

// how the writer is fed. A caller that produces its keys and values into ONE re-used buffer each (a scanner, a decoder,
// an iterator recycling its buffers) overwrites them in place between the calls and does what it likes with them once
// the last call returned; the table and its metadata must not depend on it (the writer has to keep private copies).
//   reused:          one key buffer and one value buffer, overwritten in place by the next call's key and value
//   reused+scribble: as before, and both buffers are filled with garbage after EVERY call (also the failed ones)
// Both fill the buffers with garbage after the last call, before Close. For the simple writer (which takes a skip-list
// map and closes the table itself) the map's key and value slices are overwritten after WriteSkipListMap returned.
var sstFeeds = []string{"reused", "reused+scribble"}

func sstScribble(b []byte, salt byte) {
	for i := range b {
		b[i] = salt ^ byte(i*37+11)
	}
}

// contract-conforming comparators over the bytes order whose results are not restricted to -1/0/+1
// (the documented contract of skiplist.Comparator is <0, 0, >0)
type sstMagCmp struct {
	diff  bool // difference of the first differing byte (length difference for a proper prefix) instead of the sign
	scale int
}

func (c sstMagCmp) Compare(a, b []byte) int {
	if !c.diff {
		return c.scale * bytes.Compare(a, b)
	}
	for i := 0; i < len(a) && i < len(b); i++ {
		if a[i] != b[i] {
			return c.scale * (int(a[i]) - int(b[i]))
		}
	}
	return c.scale * (len(a) - len(b))
}

var sstCmpNames = []string{"x2", "x7", "x1000", "x2^40", "diff", "diff", "diff*3", "diff*1000"}

func sstCmpFor(name string) skiplist.Comparator[[]byte] {
	switch name {
	case "x2":
		return sstMagCmp{false, 2}
	case "x7":
		return sstMagCmp{false, 7}
	case "x1000":
		return sstMagCmp{false, 1000}
	case "x2^40":
		return sstMagCmp{false, 1 << 40}
	case "diff":
		return sstMagCmp{true, 1}
	case "diff*3":
		return sstMagCmp{true, 3}
	case "diff*1000":
		return sstMagCmp{true, 1000}
	}
	return skiplist.BytesComparator{}
}

// long keys / values in REPORTED case strings: length, head, tail and CRC-64 (the case is regenerated from its index)
func gbShort(b []byte) string {
	if len(b) <= 8192 {
		return gb(b)
	}
	return fmt.Sprintf("<%dB:%x..%x:crc64=%x>", len(b), b[:24], b[len(b)-8:], crc64Ref(b))
}

func (c *sstCase) callsStringShort(calls []sstCall) string {
	parts := make([]string, len(calls))
	for i, x := range calls {
		parts[i] = gbShort(x.key) + ":" + gbShort(x.val) + ":" + string(x.fault)
	}
	return strings.Join(parts, ",")
}

func (c *sstCase) callsString(calls []sstCall) string {
	parts := make([]string, len(calls))
	for i, x := range calls {
		parts[i] = gb(x.key) + ":" + gb(x.val) + ":" + string(x.fault)
	}
	return strings.Join(parts, ",")
}

func (c *sstCase) String() string {
	cmp := ""
	if c.cmp != "" {
		cmp = " cmp=" + c.cmp
	}
	if c.big != "" {
		cmp += " big=" + c.big
	}
	if c.feed != "" {
		cmp += " feed=" + c.feed
	}
	return fmt.Sprintf("dcomp=%d icomp=%d wbuf=%d rbuf=%d bloomN=%d simple=%v style=%s flavour=%s%s calls=%s",
		c.dcomp, c.icomp, c.wbuf, c.rbuf, c.bloomN, c.simple, c.style, c.flavour, cmp, c.callsStringShort(c.calls))
}

// ---- generators

var sstStyles = []string{"short4", "short4", "mid20", "mid20", "int", "text", "long", "long"}

func sstGenKey(r *Rng, style string, tier string) []byte {
	switch style {
	case "short4": // dense universe incl. zero-suffix collisions ("a", "a\0", "a\0\0")
		alpha := []byte{0x00, 'a', 'b', 0xff, 'c', 'a', 'b'}
		n := r.Intn(5)
		b := make([]byte, n)
		for i := range b {
			b[i] = alpha[r.Intn(len(alpha))]
		}
		return b
	case "mid20":
		n := r.Intn(21)
		b := r.Bytes(n)
		if n > 0 && r.Chance(12) { // trailing zeros
			z := 1 + r.Intn(n)
			for i := n - z; i < n; i++ {
				b[i] = 0
			}
		}
		if r.Chance(20) {
			for i := range b {
				b[i] = byte('a' + int(b[i])%3)
			}
		}
		return b
	case "int":
		var b [8]byte
		binary.BigEndian.PutUint64(b[:], uint64(r.Intn(5000)))
		return b[:]
	case "text":
		words := []string{"", "a", "ab", "abc", "b", "key", "key-", "key-0", "zebra", "~"}
		return []byte(words[r.Intn(len(words))] + fmt.Sprintf("%d", r.Intn(300)))
	default: // long: lengths up to hundreds, marker bytes, embedded valid records (phantoms for SeekNext)
		max := 300
		if tier == "thorough" {
			max = 700
		}
		switch k := r.Intn(100); {
		case k < 35:
			return r.Bytes(r.Intn(40))
		case k < 55:
			return r.Bytes(r.Intn(max))
		case k < 75: // marker soup
			n := 1 + r.Intn(30)
			alphabet := []byte{0x91, 0x8d, 0x4c, 0x00, 0x01, 0x80, 0xff}
			b := make([]byte, 0, n+4)
			for len(b) < n {
				if r.Chance(30) {
					b = append(b, magic...)
				} else {
					b = append(b, alphabet[r.Intn(len(alphabet))])
				}
			}
			return b
		case k < 90: // embeds a complete valid uncompressed record whose payload parses as an index entry
			inner, _ := gproto.Marshal(&sProto.IndexEntry{Key: r.Bytes(r.Intn(5)), ValueOffset: uint64(8 + r.Intn(200)), Checksum: uint64(r.Intn(3)) * r.Next()})
			if r.Chance(30) {
				inner = r.Bytes(r.Intn(8))
			}
			return append(r.Bytes(r.Intn(4)), encodeRecordRef(inner, false)...)
		default:
			return append(r.Bytes(r.Intn(6)), 0x91)
		}
	}
}

func sstGenValue(r *Rng, c *sstCase) []byte {
	around := []int{36, 127, 128, minInt(c.wbuf, 4096), minInt(c.rbuf, 4096)}
	p := genPayload(r, around)
	if len(p) > 5000 {
		p = p[:5000]
	}
	return p
}

func minInt(a, b int) int {
	if a < b {
		return a
	}
	return b
}

func sstGenCase(r *Rng, tier string) *sstCase {
	c := &sstCase{dcomp: r.Intn(4), icomp: r.Intn(4), wbuf: r.Pick(bufSizes), rbuf: r.Pick(bufSizes)}
	c.bloomN = []uint64{1, 3, 10, 1000, 100000}[r.Intn(5)]
	c.bloomP = []float64{0.5, 0.1, 0.01, 0.0001}[r.Intn(4)]
	if c.bloomN <= 10 && r.Chance(75) {
		// few expected elements: a low false-positive rate keeps the filter sparse, so a key that was
		// never inserted is (almost surely) reported absent
		c.bloomP = []float64{0.001, 0.0001, 0.000001}[r.Intn(3)]
	}
	c.style = sstStyles[r.Intn(len(sstStyles))]
	// number of distinct keys
	var n int
	switch k := r.Intn(100); {
	case k < 5:
		n = 0
	case k < 50:
		n = 1 + r.Intn(8)
	case k < 85:
		n = 9 + r.Intn(52)
	default:
		n = 100 + r.Intn(150)
	}
	if tier == "thorough" && r.Chance(4) {
		n = 1000 + r.Intn(2000)
	}
	seen := map[string]bool{}
	var keys [][]byte
	for tries := 0; len(keys) < n && tries < 20*n+20; tries++ {
		k := sstGenKey(r, c.style, tier)
		if !seen[string(k)] {
			seen[string(k)] = true
			keys = append(keys, k)
		}
	}
	if r.Chance(25) && !seen[""] { // the empty key
		keys = append(keys, []byte{})
		seen[""] = true
	}
	sort.Slice(keys, func(i, j int) bool { return bytes.Compare(keys[i], keys[j]) < 0 })
	if (c.style == "long" || c.style == "int" || c.style == "text") && r.Chance(25) {
		// a last key that dominates the index size
		big := bytes.Repeat([]byte{0xff}, 1500+r.Intn(1500))
		if r.Chance(50) {
			copy(big[1:], r.Bytes(len(big)-1))
		}
		keys = append(keys, big)
		// the randomised variant (ff + random bytes) may sort below an existing key that starts with ff ff:
		// keep the list ascending (a "table" case written through the simple writer is sorted by the skip
		// list anyway, and its reference must see the same order)
		sort.Slice(keys, func(i, j int) bool { return bytes.Compare(keys[i], keys[j]) < 0 })
	}
	bigValues := len(keys) <= 60
	mk := func(k []byte) sstCall {
		var v []byte
		if bigValues {
			v = sstGenValue(r, c)
		} else {
			switch r.Intn(6) {
			case 0:
				v = nil
			case 1:
				v = []byte{}
			default:
				v = r.Bytes(1 + r.Intn(12))
			}
		}
		return sstCall{key: k, val: v, fault: 'n'}
	}
	if r.Chance(55) {
		c.flavour = "table"
		for _, k := range keys {
			c.calls = append(c.calls, mk(k))
		}
		c.simple = r.Chance(25)
		if !c.simple && r.Chance(20) && len(c.calls) > 0 { // a few faults that are retried at once
			for i := 0; i < 1+r.Intn(3); i++ {
				p := r.Intn(len(c.calls))
				f := sstCall{key: c.calls[p].key, val: c.calls[p].val, fault: "di"[r.Intn(2)]}
				c.calls = append(c.calls[:p], append([]sstCall{f}, c.calls[p:]...)...)
			}
		}
		return c
	}
	c.flavour = "program"
	// unsorted / repeated / varying-length / empty keys x fault masks
	for _, k := range keys {
		c.calls = append(c.calls, mk(k))
	}
	m := len(c.calls)
	for i := 0; i < m/3+1 && m > 0; i++ {
		switch r.Intn(4) {
		case 0: // swap two neighbours (one of them becomes non-ascending)
			p := r.Intn(m)
			q := (p + 1) % m
			c.calls[p], c.calls[q] = c.calls[q], c.calls[p]
		case 1: // repeat a key (duplicate or stale key) right away or later
			p := r.Intn(m)
			d := mk(c.calls[p].key)
			q := p + r.Intn(m-p)
			c.calls = append(c.calls[:q+1], append([]sstCall{d}, c.calls[q+1:]...)...)
			m++
		case 2: // same key with a different length (prefix / extension)
			p := r.Intn(m)
			k := append([]byte{}, c.calls[p].key...)
			if len(k) > 0 && r.Chance(50) {
				k = k[:len(k)-1]
			} else {
				k = append(k, byte(r.Intn(2))*0xff)
			}
			c.calls = append(c.calls[:p+1], append([]sstCall{mk(k)}, c.calls[p+1:]...)...)
			m++
		default: // the empty key in the middle (as nil or as empty slice)
			p := r.Intn(m)
			var k []byte
			if r.Chance(50) {
				k = []byte{}
			}
			c.calls = append(c.calls[:p], append([]sstCall{mk(k)}, c.calls[p:]...)...)
			m++
		}
	}
	// fault mask: any subset, with runs of consecutive failures and failures on the first / last call
	pf := []int{0, 10, 30, 60}[r.Intn(4)]
	for i := range c.calls {
		if r.Chance(pf) {
			c.calls[i].fault = "di"[r.Intn(2)]
			if r.Chance(50) { // retry the same key afterwards
				retry := c.calls[i]
				retry.fault = "ndi"[r.Intn(3)]
				c.calls = append(c.calls[:i+1], append([]sstCall{retry}, c.calls[i+1:]...)...)
			}
		}
	}
	if len(c.calls) > 0 && r.Chance(30) {
		c.calls[0].fault = "di"[r.Intn(2)]
	}
	if len(c.calls) > 0 && r.Chance(30) {
		c.calls[len(c.calls)-1].fault = "di"[r.Intn(2)]
	}
	return c
}

// ---- big-record cases: values (and now and then keys) above 32 KiB, 64 KiB and 1 MiB, compressible and not, under
// every data/index compression pair (case j takes pair j mod 16), every reader configuration, both writers.
// Few keys; the probe list is reduced so that a big value is returned a handful of times per configuration.

func sstBigBytes(r *Rng, n int, class string) []byte {
	switch class {
	case "random": // incompressible
		return r.Bytes(n)
	case "pattern": // highly compressible: a short random pattern repeated
		pat := r.Bytes(1 + r.Intn(40))
		b := make([]byte, n)
		for i := range b {
			b[i] = pat[i%len(pat)]
		}
		return b
	case "zeros":
		return make([]byte, n)
	case "text": // small alphabet, mildly compressible
		b := make([]byte, n)
		for i := range b {
			b[i] = "abcdefgh \n"[r.Intn(10)]
		}
		return b
	}
	// mixed: compressible first half, random second half
	b := sstBigBytes(r, n, "pattern")
	copy(b[n/2:], r.Bytes(n-n/2))
	return b
}

var sstBigContent = []string{"random", "pattern", "zeros", "text", "mixed"}

func sstBigSize(r *Rng, class string) int {
	switch class {
	case ">32K":
		return 32*1024 + 1 + r.Intn(3000)
	case ">64K":
		return 64*1024 + 1 + r.Intn(5000)
	case ">128K":
		return 128*1024 + 1 + r.Intn(40000)
	}
	return 1024*1024 + 1 + r.Intn(100000) // >1M
}

func sstGenBigCase(r *Rng, j int, tier string) *sstCase {
	c := &sstCase{dcomp: j % 4, icomp: (j / 4) % 4, wbuf: r.Pick(bufSizes), rbuf: r.Pick(bufSizes), flavour: "table"}
	c.bloomN = []uint64{1, 10, 1000}[r.Intn(3)]
	c.bloomP = []float64{0.01, 0.0001, 0.000001}[r.Intn(3)]
	c.style = []string{"short4", "mid20", "text", "int"}[r.Intn(4)]
	n := 1 + r.Intn(5)
	seen := map[string]bool{}
	var keys [][]byte
	for tries := 0; len(keys) < n && tries < 100; tries++ {
		k := sstGenKey(r, c.style, tier)
		if !seen[string(k)] {
			seen[string(k)] = true
			keys = append(keys, k)
		}
	}
	var classes []string
	// one key of the table is big in a third of the cases (index entries above the sizes; the map loaders do not apply then)
	if r.Chance(33) || j%16 == 6 {
		class := []string{">32K", ">32K", ">64K", ">128K"}[r.Intn(4)]
		if j%16 == 6 && tier == "thorough" { // gzip index compression, once per 16 big cases
			class = ">1M"
		}
		content := sstBigContent[r.Intn(len(sstBigContent))]
		k := sstBigBytes(r, sstBigSize(r, class), content)
		if !seen[string(k)] {
			keys = append(keys, k)
			classes = append(classes, "key"+class+":"+content)
		}
	}
	sort.Slice(keys, func(a, b int) bool { return bytes.Compare(keys[a], keys[b]) < 0 })
	// big values: one just above 32 KiB, one above 64 KiB (or above 128 KiB); one above 1 MiB in every fifth case (16 big cases: data compression 1, 2, 3; 0 comes with the 17th), in the quick tier always in case 1 and in a third of the others
	var sizes []string
	sizes = append(sizes, ">32K")
	if len(keys) > 1 {
		sizes = append(sizes, []string{">64K", ">64K", ">128K"}[r.Intn(3)])
	} else if r.Chance(50) {
		sizes[0] = ">64K"
	}
	if (j%5 == 1 && (tier == "thorough" || j == 1 || r.Chance(35))) || (tier == "thorough" && r.Chance(10)) {
		sizes[r.Intn(len(sizes))] = ">1M"
	}
	slots := make([]int, len(keys))
	for i := range slots {
		slots[i] = i
	}
	for i := len(slots) - 1; i > 0; i-- {
		k := r.Intn(i + 1)
		slots[i], slots[k] = slots[k], slots[i]
	}
	bigAt := map[int]string{}
	for i, sz := range sizes {
		bigAt[slots[i]] = sz
	}
	for i, k := range keys {
		var v []byte
		if sz, ok := bigAt[i]; ok {
			content := sstBigContent[r.Intn(len(sstBigContent))]
			v = sstBigBytes(r, sstBigSize(r, sz), content)
			classes = append(classes, "val"+sz+":"+content)
		} else {
			v = sstGenValue(r, c)
		}
		c.calls = append(c.calls, sstCall{key: k, val: v, fault: 'n'})
	}
	sort.Strings(classes)
	c.big = strings.Join(classes, "+")
	c.simple = r.Chance(25)
	if !c.simple && r.Chance(20) { // a failing append of a big record, retried at once
		p := r.Intn(len(c.calls))
		f := sstCall{key: c.calls[p].key, val: c.calls[p].val, fault: "di"[r.Intn(2)]}
		c.calls = append(c.calls[:p], append([]sstCall{f}, c.calls[p:]...)...)
	}
	if r.Chance(50) {
		c.cmp = sstCmpNames[r.Intn(len(sstCmpNames))]
	}
	return c
}

func sstProbesBig(r *Rng, acc []sstKV, bf *bloomfilter.Filter, huge bool) []sstProbe {
	bloomOf := func(k []byte) bool {
		if bf == nil {
			return true
		}
		h := fnv.New64()
		_, _ = h.Write(k)
		return bf.Contains(h)
	}
	ps := []sstProbe{{kind: "scan"}}
	for _, p := range acc {
		ps = append(ps, sstProbe{kind: "get", a: p.key}, sstProbe{kind: "has", a: p.key, bloom: bloomOf(p.key)})
	}
	var absent [][]byte
	absent = append(absent, nil, []byte{})
	if len(acc) > 0 {
		k := acc[r.Intn(len(acc))].key
		absent = append(absent, append(append([]byte{}, k...), 0))
		if len(k) > 0 {
			absent = append(absent, append([]byte{}, k[:len(k)-1]...))
		}
	}
	for _, k := range absent {
		ps = append(ps, sstProbe{kind: "get", a: k}, sstProbe{kind: "has", a: k, bloom: bloomOf(k)})
	}
	if len(acc) > 0 && !huge { // tables with a record above 1 MiB: one scan and the lookups only
		a, b := acc[r.Intn(len(acc))].key, acc[r.Intn(len(acc))].key
		ps = append(ps, sstProbe{kind: "from", a: a})
		if bytes.Compare(a, b) > 0 {
			a, b = b, a
		}
		ps = append(ps, sstProbe{kind: "range", a: a, b: b}, sstProbe{kind: "range", a: acc[len(acc)-1].key, b: acc[0].key})
	}
	return ps
}

// ---- independent reference: accepted pairs, per-call answers, the three files

type sstRef struct {
	acc         []sstKV
	results     []string // ok | dup | desc | io
	data        []byte
	index       []byte
	meta        []byte
	idxOffs     []uint64 // start offset of every index record
	idxPayloads [][]byte
	nulls       uint64
}

func crc64Ref(b []byte) uint64 {
	return crc64.Checksum(b, crc64.MakeTable(crc64.ISO))
}

// reference encoder of one recordio V4 record under a compression type
func sstRefRecord(ct int, p []byte, isNil bool) []byte {
	h := append([]byte{}, magic...)
	if isNil {
		h = append(h, 1)
	} else {
		h = append(h, 0)
	}
	stored := p
	clen := uint64(0)
	if ct != 0 {
		st, _ := compressorFor(ct).Compress(nonNil(p))
		stored = st
		clen = uint64(len(st))
	}
	h = appendUvarint(h, uint64(len(p)))
	h = appendUvarint(h, clen)
	h = appendUvarint(h, uint64(crc32cRef(h)))
	if isNil {
		return h
	}
	return append(h, stored...)
}

func sstFileHeader(ct int) []byte {
	b := make([]byte, 8)
	binary.LittleEndian.PutUint32(b[0:4], 4)
	binary.LittleEndian.PutUint32(b[4:8], uint32(ct))
	return b
}

func sstReference(c *sstCase) *sstRef {
	ref := &sstRef{}
	var last []byte
	have := false
	for _, call := range c.calls {
		if have {
			switch cmp := bytes.Compare(last, call.key); {
			case cmp == 0:
				ref.results = append(ref.results, "dup")
				continue
			case cmp > 0:
				ref.results = append(ref.results, "desc")
				continue
			}
		}
		if call.fault != 'n' {
			ref.results = append(ref.results, "io")
			continue
		}
		ref.results = append(ref.results, "ok")
		ref.acc = append(ref.acc, sstKV{call.key, call.val})
		last, have = call.key, true
	}
	ref.data = sstFileHeader(c.dcomp)
	ref.index = sstFileHeader(c.icomp)
	for _, p := range ref.acc {
		off := uint64(len(ref.data))
		ref.data = append(ref.data, sstRefRecord(c.dcomp, p.val, p.val == nil)...)
		payload, _ := gproto.Marshal(&sProto.IndexEntry{Key: p.key, ValueOffset: off, Checksum: crc64Ref(p.val)})
		ref.idxOffs = append(ref.idxOffs, uint64(len(ref.index)))
		ref.idxPayloads = append(ref.idxPayloads, payload)
		ref.index = append(ref.index, sstRefRecord(c.icomp, payload, false)...)
		if p.val == nil {
			ref.nulls++
		}
	}
	md := &sProto.MetaData{NumRecords: uint64(len(ref.acc)), DataBytes: uint64(len(ref.data)), IndexBytes: uint64(len(ref.index)),
		TotalBytes: uint64(len(ref.data) + len(ref.index)), Version: 1, NullValues: ref.nulls}
	if len(ref.acc) > 0 {
		md.MinKey = ref.acc[0].key
		md.MaxKey = ref.acc[len(ref.acc)-1].key
	}
	ref.meta, _ = gproto.Marshal(md)
	return ref
}

// ---- fault injection wrappers (delegate everything, fail chosen Write calls)

type sstFaultyData struct {
	recordio.WriterI
	fail *bool
}

func (f *sstFaultyData) Write(rec []byte) (uint64, error) {
	if *f.fail {
		return 0, errors.New("injected write fault")
	}
	return f.WriterI.Write(rec)
}

type sstFaultyIndex struct {
	rProto.WriterI
	fail *bool
}

func (f *sstFaultyIndex) Write(rec gproto.Message) (uint64, error) {
	if *f.fail {
		return 0, errors.New("injected write fault")
	}
	return f.WriterI.Write(rec)
}

func sstWriteResult(err error) string {
	if err == nil {
		return "ok"
	}
	msg := err.Error()
	switch {
	case strings.HasPrefix(msg, "PANIC"):
		return "panic"
	case strings.Contains(msg, "the same key cannot be written more than once"):
		return "dup"
	case strings.Contains(msg, "non-ascending key"):
		return "desc"
	case strings.Contains(msg, "injected"):
		return "io"
	}
	return "err:" + errKind(err)
}

// ---- real reader drivers

func sstErr(err error) string {
	if err == nil {
		return ""
	}
	if strings.HasPrefix(err.Error(), "PANIC") {
		return "panic"
	}
	var ce sstables.ChecksumError
	switch {
	case errors.Is(err, sstables.NotFound), errors.Is(err, skiplist.NotFound):
		return "err:notfound"
	case errors.As(err, &ce):
		return "err:checksum"
	case strings.Contains(err.Error(), "keyHigher is lower than keyLower"):
		return "err:rejected"
	}
	return "err:" + errKind(err)
}

// runs an iterator to its end; keys/values exactly as returned (nil vs empty visible)
func sstDrain(it sstables.SSTableIteratorI, max int) string {
	var parts []string
	for i := 0; i <= max; i++ {
		var k, v []byte
		err := safely(func() error { var e error; k, v, e = it.Next(); return e })
		if err != nil {
			if errors.Is(err, sstables.Done) {
				return "[" + strings.Join(parts, ";") + "]done"
			}
			if s := sstErr(err); s == "panic" {
				return "[" + strings.Join(parts, ";") + "]panic"
			} else {
				return "[" + strings.Join(parts, ";") + "]" + s
			}
		}
		parts = append(parts, gb(k)+"="+gb(v))
	}
	return "[" + strings.Join(parts, ";") + "]runaway"
}

type sstProbe struct {
	kind  string // get has scan from range
	a, b  []byte
	bloom bool
	every int // 1+index of the written key for the "Contains on every written key" probes, else 0
}

func (p sstProbe) String() string {
	switch p.kind {
	case "get":
		return "get:" + gb(p.a)
	case "has":
		bit := "0"
		if p.bloom {
			bit = "1"
		}
		return "has:" + gb(p.a) + ":" + bit
	case "scan":
		return "scan"
	case "from":
		return "from:" + gb(p.a)
	}
	return "range:" + gb(p.a) + ":" + gb(p.b)
}

func sstRunProbe(rd sstables.SSTableReaderI, p sstProbe, max int) string {
	switch p.kind {
	case "get":
		var v []byte
		err := safely(func() error { var e error; v, e = rd.Get(p.a); return e })
		if err != nil {
			return sstErr(err)
		}
		return "ok:" + gb(v)
	case "has":
		var ok bool
		err := safely(func() error { var e error; ok, e = rd.Contains(p.a); return e })
		if err != nil {
			return sstErr(err)
		}
		return fmt.Sprintf("ok:%v", ok)
	}
	var it sstables.SSTableIteratorI
	err := safely(func() error {
		var e error
		switch p.kind {
		case "scan":
			it, e = rd.Scan()
		case "from":
			it, e = rd.ScanStartingAt(p.a)
		default:
			it, e = rd.ScanRange(p.a, p.b)
		}
		return e
	})
	if err != nil {
		return sstErr(err)
	}
	return sstDrain(it, max)
}

type sstReaderCfg struct {
	loader string // slice, slice-default, skip, map4, map20, disk
	onLoad bool   // verify on load
	onRead bool   // verify on every read
}

func (c sstReaderCfg) modelString() string {
	l := c.loader
	if l == "slice-default" {
		l = "slice"
	}
	return fmt.Sprintf("%s:%d:%d", l, b2i(c.onLoad), b2i(c.onRead))
}

func b2i(b bool) int {
	if b {
		return 1
	}
	return 0
}

func sstOpenReader(dir string, cfg sstReaderCfg, rbuf int, cmpName string) (sstables.SSTableReaderI, error) {
	rd, _, err := sstOpenReaderOrdered(dir, cfg, rbuf, cmpName, nil)
	return rd, err
}

// sstOpenReaderOrdered passes the read options in the order drawn from perm (nil: the fixed order base path, buffer
// size, comparator, index loader, skip-on-load, check-on-reads); the options are independent settings, so the
// configuration asked for is the same in every order. Returns the order used (names joined by ">").
func sstOpenReaderOrdered(dir string, cfg sstReaderCfg, rbuf int, cmpName string, perm *Rng) (sstables.SSTableReaderI, string, error) {
	opts := []sstables.ReadOption{sstables.ReadBasePath(dir), sstables.ReadBufferSizeBytes(rbuf)}
	names := []string{"base-path", "buffer-size"}
	if cmpName != "" {
		opts = append(opts, sstables.ReadWithKeyComparator(sstCmpFor(cmpName)))
		names = append(names, "comparator")
	}
	nBefore := len(opts)
	switch cfg.loader {
	case "slice":
		opts = append(opts, sstables.ReadIndexLoader(&sstables.SliceKeyIndexLoader{ReadBufferSize: rbuf}))
	case "skip":
		opts = append(opts, sstables.ReadIndexLoader(&sstables.SkipListIndexLoader{KeyComparator: sstCmpFor(cmpName), ReadBufferSize: rbuf}))
	case "map4":
		opts = append(opts, sstables.ReadIndexLoader(&sstables.MapKeyIndexLoader[[4]byte]{ReadBufferSize: rbuf, Mapper: &sstables.Byte4KeyMapper{}}))
	case "map20":
		opts = append(opts, sstables.ReadIndexLoader(&sstables.MapKeyIndexLoader[[20]byte]{ReadBufferSize: rbuf, Mapper: &sstables.Byte20KeyMapper{}}))
	case "disk":
		opts = append(opts, sstables.ReadIndexLoader(&sstables.DiskIndexLoader{}))
	}
	if len(opts) > nBefore {
		names = append(names, "index-loader")
	}
	if !cfg.onLoad {
		opts = append(opts, sstables.SkipHashCheckOnLoad())
		names = append(names, "skip-check-on-load")
	}
	if cfg.onRead {
		opts = append(opts, sstables.EnableHashCheckOnReads())
		names = append(names, "check-on-reads")
	}
	if perm != nil { // Fisher-Yates: every permutation of the options used
		for i := len(opts) - 1; i > 0; i-- {
			k := perm.Intn(i + 1)
			opts[i], opts[k] = opts[k], opts[i]
			names[i], names[k] = names[k], names[i]
		}
	}
	var rd sstables.SSTableReaderI
	err := safely(func() error { var e error; rd, e = sstables.NewSSTableReader(opts...); return e })
	return rd, strings.Join(names, ">"), err
}

func sstMetaString(md *sProto.MetaData) string {
	return fmt.Sprintf("n:%d,min:%s,max:%s,db:%d,ib:%d,tb:%d,ver:%d,skip:%d,nulls:%d", md.NumRecords, gb(md.MinKey), gb(md.MaxKey),
		md.DataBytes, md.IndexBytes, md.TotalBytes, md.Version, md.SkippedRecords, md.NullValues)
}

// ---- reference sorted map answers

func gbKey(k []byte) string { return gb(nonNil(k)) }

func sstFind(acc []sstKV, k []byte) (int, bool) {
	i := sort.Search(len(acc), func(i int) bool { return bytes.Compare(acc[i].key, k) >= 0 })
	return i, i < len(acc) && bytes.Equal(acc[i].key, k)
}

// expected answer with keys canonicalised by content (nil and empty key are the same key)
func sstExpect(acc []sstKV, p sstProbe) string {
	list := func(xs []sstKV) string {
		parts := make([]string, len(xs))
		for i, x := range xs {
			parts[i] = gbKey(x.key) + "=" + gb(x.val)
		}
		return "[" + strings.Join(parts, ";") + "]done"
	}
	switch p.kind {
	case "get":
		if i, ok := sstFind(acc, p.a); ok {
			return "ok:" + gb(acc[i].val)
		}
		return "err:notfound"
	case "has":
		_, ok := sstFind(acc, p.a)
		return fmt.Sprintf("ok:%v", ok)
	case "scan":
		return list(acc)
	case "from":
		i, _ := sstFind(acc, p.a)
		return list(acc[i:])
	}
	if bytes.Compare(p.a, p.b) > 0 {
		return "err:*"
	}
	i, _ := sstFind(acc, p.a)
	j, ok := sstFind(acc, p.b)
	if ok {
		j++
	}
	if j < i {
		j = i
	}
	return list(acc[i:j])
}

// canonicalise the keys of an implementation scan answer by content
func sstCanonScan(s string) string {
	if !strings.HasPrefix(s, "[") {
		return s
	}
	end := strings.LastIndex(s, "]")
	body := s[1:end]
	if body == "" {
		return s
	}
	items := strings.Split(body, ";")
	for i, it := range items {
		if strings.HasPrefix(it, "-=") {
			items[i] = "." + it[1:]
		}
	}
	return "[" + strings.Join(items, ";") + s[end:]
}

func sstProbes(r *Rng, c *sstCase, acc []sstKV, bf *bloomfilter.Filter, tier string) []sstProbe {
	var pool [][]byte
	add := func(k []byte) { pool = append(pool, k) }
	nPresent := 10
	if len(acc) > 100 {
		nPresent = 6
	}
	for i := 0; i < nPresent && len(acc) > 0; i++ {
		k := acc[r.Intn(len(acc))].key
		add(k)
		// neighbours of a present key: zero-suffix variants, prefix, successor
		switch r.Intn(6) {
		case 0:
			add(append(append([]byte{}, k...), 0))
		case 1:
			add(append(append([]byte{}, k...), 0, 0))
		case 2:
			if len(k) > 0 {
				add(append([]byte{}, k[:len(k)-1]...))
			}
		case 3:
			if len(k) > 0 {
				x := append([]byte{}, k...)
				x[len(x)-1]++
				add(x)
			}
		case 4:
			add(bytes.TrimRight(k, "\x00"))
		}
	}
	if len(acc) > 0 {
		add(acc[0].key)
		add(acc[len(acc)-1].key)
		min, max := acc[0].key, acc[len(acc)-1].key
		if len(min) > 0 { // below the minimum
			add(append([]byte{}, min[:len(min)-1]...))
			x := append([]byte{}, min...)
			if x[len(x)-1] > 0 {
				x[len(x)-1]--
				add(x)
			}
			add([]byte{})
		}
		add(append(append([]byte{}, max...), 0)) // above the maximum
		add(append(append([]byte{}, max...), 0xff, 0xff))
	}
	add(nil)
	add([]byte{})
	for i := 0; i < 3; i++ {
		add(sstGenKey(r, c.style, tier))
	}
	if len(pool) > 40 {
		pool = pool[:40]
	}
	bloomOf := func(k []byte) bool {
		if bf == nil {
			return true
		}
		h := fnv.New64()
		_, _ = h.Write(k)
		return bf.Contains(h)
	}
	var ps []sstProbe
	ps = append(ps, sstProbe{kind: "scan"})
	for _, k := range pool {
		ps = append(ps, sstProbe{kind: "get", a: k}, sstProbe{kind: "has", a: k, bloom: bloomOf(k)})
	}
	// Contains on EVERY written key (no written key is ever reported absent)
	inPool := map[string]bool{}
	for _, k := range pool {
		inPool[string(k)] = true
	}
	for i, p := range acc {
		if !inPool[string(p.key)] {
			ps = append(ps, sstProbe{kind: "has", a: p.key, bloom: bloomOf(p.key), every: i + 1})
		}
	}
	nScan := 6
	if len(acc) > 100 {
		nScan = 3
	}
	for i := 0; i < nScan; i++ {
		ps = append(ps, sstProbe{kind: "from", a: pool[r.Intn(len(pool))]})
	}
	for i := 0; i < 2*nScan; i++ {
		a, b := pool[r.Intn(len(pool))], pool[r.Intn(len(pool))]
		if r.Chance(70) && bytes.Compare(a, b) > 0 {
			a, b = b, a
		}
		if len(acc) > 100 && bytes.Compare(a, b) <= 0 { // keep ranges on big tables short
			i, _ := sstFind(acc, a)
			j := i + r.Intn(6)
			if j < len(acc) {
				b = acc[j].key
			}
		}
		ps = append(ps, sstProbe{kind: "range", a: a, b: b})
	}
	if len(pool) > 0 {
		k := pool[r.Intn(len(pool))]
		ps = append(ps, sstProbe{kind: "range", a: k, b: k}) // equal bounds
	}
	if len(acc) > 0 {
		min, max := acc[0].key, acc[len(acc)-1].key
		ps = append(ps, sstProbe{kind: "range", a: min, b: max}, sstProbe{kind: "range", a: max, b: min})
		if len(min) > 0 { // both bounds below the minimum
			ps = append(ps, sstProbe{kind: "range", a: []byte{}, b: append([]byte{}, min[:len(min)-1]...)})
		}
		ps = append(ps, sstProbe{kind: "range", a: append(append([]byte{}, max...), 0), b: append(append([]byte{}, max...), 1)})
	}
	for _, p := range c.extra {
		if p.kind == "has" {
			p.bloom = bloomOf(p.a)
		}
		ps = append(ps, p)
	}
	ps = append(ps, sstProbe{kind: "scan"})
	return ps
}

// ---- signatures of failing inputs

func sstPad(k []byte, n int) string {
	b := make([]byte, n)
	copy(b, k)
	return string(b)
}

// two written keys equal after zero padding, or a probe key padded equal to a different written key
func sstPadCollision(acc []sstKV, p sstProbe, n int) bool {
	seen := map[string][]byte{}
	for _, x := range acc {
		pk := sstPad(x.key, n)
		if _, dup := seen[pk]; dup {
			return true
		}
		seen[pk] = x.key
	}
	for _, k := range [][]byte{p.a, p.b} {
		if k == nil && p.kind == "scan" {
			continue
		}
		if o, ok := seen[sstPad(k, n)]; ok && !bytes.Equal(o, k) {
			return true
		}
	}
	return false
}

// does the index file contain, strictly inside a record, the bytes of a complete valid record?
func sstIndexHasPhantom(path string, ref *sstRef) bool {
	mm, err := recordio.NewMemoryMappedReaderWithPath(path)
	if err != nil {
		return false
	}
	defer mm.Close()
	if err := mm.Open(); err != nil {
		return false
	}
	starts := map[uint64]bool{}
	for _, o := range ref.idxOffs {
		starts[o] = true
	}
	file := ref.index
	for p := 8; p+3 <= len(file); p++ {
		if starts[uint64(p)] || !bytes.Equal(file[p:p+3], magic) {
			continue
		}
		if _, err := mm.ReadNextAt(uint64(p)); err == nil {
			return true
		}
	}
	return false
}

func sstSig(c *sstCase, ref *sstRef, cfg sstReaderCfg, p sstProbe, indexPath string, phantom *int) string {
	// the bloom filter file itself answers "absent" for a written key (whatever the index loader)
	if p.kind == "has" && !p.bloom {
		if i, ok := sstFind(ref.acc, p.a); ok {
			if uint64(i) >= c.bloomN {
				return "bloom:false-negative-beyond-expected-elements"
			}
			return "bloom:false-negative"
		}
	}
	switch cfg.loader {
	case "map4", "map20":
		n := 4
		if cfg.loader == "map20" {
			n = 20
		}
		if sstPadCollision(ref.acc, p, n) {
			return "map-index:zero-pad-collision"
		}
		return "map-index:" + p.kind
	case "disk":
		// the only known limitation left: a key that embeds a complete valid record (format limitation shared
		// with SeekNext, C04).  The three defects repaired by 37d0b89, 93d8a40, 90fd3ef have no signature of
		// their own any more: a recurrence is an ordinary violation (and a disagreement with the model).
		if *phantom < 0 {
			*phantom = b2i(sstIndexHasPhantom(indexPath, ref))
		}
		if *phantom == 1 {
			return "disk-index:phantom-in-index-payload"
		}
		return "disk-index:other:" + p.kind
	}
	return cfg.loader + ":" + p.kind
}

// ---- the stream

func runSst(res *Result, drv *Driver, seed uint64, n int, tier string, only int) error {
	root, err := os.MkdirTemp("", "verif-sst-")
	if err != nil {
		return err
	}
	defer os.RemoveAll(root)
	res.Rule = "WriteNext programs (ascending tables and unsorted/repeated/varying-length/empty keys) x fault masks (data append, index append) x key comparators of the bytes order returning -1/0/+1 or other magnitudes (scaled sign, byte/length difference; writer, reader option and skip-list loader) x 4x4 compression x write/read buffer sizes x bloom sizing, " +
		"read back through {slice(default), slice, skip, map4, map20, disk} loaders x verify-on-load/verify-on-read with Contains/Get/Scan/ScanStartingAt/ScanRange probes; " +
		"plus one BIG-RECORD table per 16 cases (values above 32 KiB, 64 KiB, 128 KiB and 1 MiB, now and then a key above 32 KiB, 64 KiB, 128 KiB (thorough: 1 MiB); random, repeated-pattern, zero, text and mixed content; " +
		"compression pair j mod 16; every reader configuration; reduced probe list: scan, Get/Contains of every key and of absent neighbours, one from, two ranges); " +
		"non-trivial = at least one accepted pair; distinct = distinct (program, options) strings"
	// corpus first: the hand-written inputs of the counterexample theorems in SST/Props/C03.lean
	// (case indices 1000000+i so that --only still addresses the generated cases)
	for ci, c := range sstCorpus(seed) {
		i := 1000000 + ci
		if only >= 0 && i != only {
			continue
		}
		r := NewRng(seed, uint64(i))
		sstChooseFeed(c, seed, i)
		dir := filepath.Join(root, fmt.Sprintf("c%d", ci))
		if err := os.Mkdir(dir, 0o755); err != nil {
			return err
		}
		res.Stat("corpus")
		if err := sstOne(res, drv, r, c, i, dir, tier); err != nil {
			return err
		}
		_ = os.RemoveAll(dir)
	}
	for i := 0; i < n; i++ {
		if only >= 0 && i != only {
			continue
		}
		r := NewRng(seed, uint64(i))
		c := sstGenCase(r, tier)
		// the comparator comes from a second generator state: programs, options and expected answers are those of the
		// plain cases (the verdicts depend on the sign only)
		if r2 := NewRng(seed^0xc0a7a2a70e, uint64(i)); r2.Chance(50) {
			c.cmp = sstCmpNames[r2.Intn(len(sstCmpNames))]
		}
		sstChooseFeed(c, seed, i)
		dir := filepath.Join(root, fmt.Sprintf("t%d", i))
		if err := os.Mkdir(dir, 0o755); err != nil {
			return err
		}
		if err := sstOne(res, drv, r, c, i, dir, tier); err != nil {
			return err
		}
		_ = os.RemoveAll(dir)
	}
	// big-record cases (indices 2000000+j; their own generator state, the cases above are unchanged): one per 16 cases
	nBig := (n + 15) / 16
	if n >= 128 && nBig < 16 {
		nBig = 16 // every compression pair once
	}
	for j := 0; j < nBig; j++ {
		i := 2000000 + j
		if only >= 0 && i != only {
			continue
		}
		r := NewRng(seed^0xb16b16b16, uint64(i))
		c := sstGenBigCase(r, j, tier)
		sstChooseFeed(c, seed, i)
		dir := filepath.Join(root, fmt.Sprintf("b%d", j))
		if err := os.Mkdir(dir, 0o755); err != nil {
			return err
		}
		if err := sstOne(res, drv, r, c, i, dir, tier); err != nil {
			return err
		}
		_ = os.RemoveAll(dir)
	}
	return nil
}

// the feeding style comes from a generator state of its own: programs, options and every expected answer are those of
// the case fed with fresh slices
func sstChooseFeed(c *sstCase, seed uint64, i int) {
	if r := NewRng(seed^0xfeedb0ffe2, uint64(i)); r.Chance(50) {
		c.feed = sstFeeds[r.Intn(len(sstFeeds))]
	}
}

func sstCorpus(seed uint64) []*sstCase {
	mk := func(style string, kvs ...sstKV) *sstCase {
		c := &sstCase{dcomp: 0, icomp: 0, wbuf: 4096, rbuf: 4096, bloomN: 1000, bloomP: 0.01, style: style, flavour: "table"}
		for _, p := range kvs {
			c.calls = append(c.calls, sstCall{p.key, p.val, 'n'})
		}
		return c
	}
	// SST.C03.phantomKey: a key embedding a complete valid record whose payload is an index entry for "zz"
	inner, _ := gproto.Marshal(&sProto.IndexEntry{Key: []byte("zz"), ValueOffset: 8})
	phantom := append([]byte{9}, encodeRecordRef(inner, false)...)
	twelve := bytes.Repeat([]byte{2}, 12)
	with := func(c *sstCase, ps ...sstProbe) *sstCase { c.extra = ps; return c }
	// tables holding MORE records than the bloom filter was dimensioned for, through both writers:
	// a tiny expectation with a sparse filter, and the default expectation of 1000 with 1100 small records
	many := func(n int, bloomN uint64, p float64, simple bool) *sstCase {
		c := &sstCase{dcomp: 0, icomp: 0, wbuf: 4096, rbuf: 4096, bloomN: bloomN, bloomP: p, style: "int", flavour: "table", simple: simple}
		for i := 0; i < n; i++ {
			var k [8]byte
			binary.BigEndian.PutUint64(k[:], uint64(3*i+1))
			v := []byte{byte(i)}
			if i%3 == 0 {
				v = []byte{}
			}
			c.calls = append(c.calls, sstCall{append([]byte{}, k[:]...), v, 'n'})
		}
		return c
	}
	return []*sstCase{
		many(40, 3, 0.000001, false),
		many(40, 3, 0.000001, true),
		many(1040, 1000, 0.01, seed%2 == 0), // default expectation; the writer alternates with the seed
		mk("short4", sstKV{[]byte("a"), []byte("1")}, sstKV{[]byte("a\x00"), []byte("2")}),                  // map_index_pad_collision
		// regression inputs of the repaired disk-index defects (theorems *_fixed in SST/Props/C03.lean)
		with(mk("mid20", sstKV{[]byte{1}, []byte{7}}, sstKV{twelve, []byte{8}}), // disk_index_eof_in_binary_search_fixed
			sstProbe{kind: "get", a: twelve}, sstProbe{kind: "get", a: []byte{1}}, sstProbe{kind: "has", a: twelve}),
		with(mk("short4", sstKV{[]byte{5}, []byte{1}}, sstKV{[]byte{6}, []byte{2}}, sstKV{[]byte{7}, []byte{3}}), // disk_index_range_upper_below_min_fixed
			sstProbe{kind: "range", a: []byte{1}, b: []byte{2}}, sstProbe{kind: "range", a: []byte{}, b: []byte{4}}),
		with(mk("short4"), // disk_index_cached_failed_read_fixed: the empty table, the same lookup over and over
			sstProbe{kind: "get", a: []byte{}}, sstProbe{kind: "get", a: []byte{}}, sstProbe{kind: "get", a: []byte{}},
			sstProbe{kind: "get", a: []byte{}}, sstProbe{kind: "get", a: []byte{}}, sstProbe{kind: "get", a: []byte{}},
			sstProbe{kind: "from", a: []byte{}}, sstProbe{kind: "range", a: []byte{}, b: []byte{}}, sstProbe{kind: "get", a: []byte{}}),
		mk("long", sstKV{[]byte{1}, []byte{1}}, sstKV{phantom, []byte{2}}, sstKV{[]byte{200}, []byte{3}}),   // disk_index_phantom_in_index_payload
	}
}

func sstOne(res *Result, drv *Driver, r *Rng, c *sstCase, idx int, dir string, tier string) error {
	res.Cases++
	cs := c.String()
	res.Stat(fmt.Sprintf("dcomp=%d", c.dcomp))
	res.Stat(fmt.Sprintf("icomp=%d", c.icomp))
	res.Stat("style:" + c.style)
	res.Stat("flavour:" + c.flavour)
	if c.simple {
		res.Stat("writer:simple")
	} else {
		res.Stat("writer:stream")
	}
	ref := sstReference(c)
	switch l := len(ref.acc); {
	case l == 0:
		res.Stat("accepted:0")
	case l <= 8:
		res.Stat("accepted:1-8")
	case l <= 60:
		res.Stat("accepted:9-60")
	case l <= 400:
		res.Stat("accepted:61-400")
	default:
		res.Stat("accepted:>400")
	}
	if len(ref.acc) > 0 {
		res.NoteNontrivial(cs)
		if len(ref.acc[len(ref.acc)-1].key) >= 1500 {
			res.Stat("last-key-dominates-index")
		}
		if len(ref.acc[0].key) == 0 {
			res.Stat("empty-key")
		}
	}
	res.Sample(cs)

	// ---- real writer
	if c.cmp != "" {
		res.Stat("cmp:magnitudes-other-than-1:" + c.cmp)
	} else {
		res.Stat("cmp:bytes")
	}
	wopts := []sstables.WriterOption{sstables.WriteBasePath(dir), sstables.WithKeyComparator(sstCmpFor(c.cmp)),
		sstables.DataCompressionType(c.dcomp), sstables.IndexCompressionType(c.icomp), sstables.WriteBufferSizeBytes(c.wbuf),
		sstables.BloomExpectedNumberOfElements(c.bloomN), sstables.BloomFalsePositiveProbability(c.bloomP)}
	var results []string
	if c.feed == "" {
		res.Stat("feed:fresh-slice-per-call")
	} else {
		res.Stat("feed:" + c.feed)
	}
	if c.simple {
		m := skiplist.NewSkipListMap[[]byte, []byte](sstCmpFor(c.cmp))
		var owned [][]byte // the caller's slices inside the map
		for _, call := range c.calls {
			k, v := call.key, call.val
			if c.feed != "" {
				// private copies (nil stays nil): they are overwritten once the writer returned
				if k != nil {
					k = append([]byte{}, k...)
				}
				if v != nil {
					v = append([]byte{}, v...)
				}
				owned = append(owned, k, v)
			}
			m.Insert(k, v)
		}
		sw, err := sstables.NewSSTableSimpleWriter(wopts...)
		if err != nil {
			return err
		}
		if err := safely(func() error { return sw.WriteSkipListMap(m) }); err != nil {
			res.Violate(idx, "C15", "simple-writer-failed", err.Error(), cs)
			return nil
		}
		for i, b := range owned {
			sstScribble(b, byte(0xd0+i))
		}
		for range c.calls {
			results = append(results, "ok")
		}
	} else {
		w, err := sstables.NewSSTableStreamWriter(wopts...)
		if err != nil {
			return err
		}
		if err := w.Open(); err != nil {
			return fmt.Errorf("writer open: %w", err)
		}
		var failData, failIndex bool
		w.VerifWrapWriters(
			func(d recordio.WriterI) recordio.WriterI { return &sstFaultyData{d, &failData} },
			func(x rProto.WriterI) rProto.WriterI { return &sstFaultyIndex{x, &failIndex} })
		// the caller's two buffers (feed != ""): as long as the longest key / value
		var kbuf, vbuf []byte
		if c.feed != "" {
			kl, vl := 0, 0
			for _, call := range c.calls {
				kl, vl = max(kl, len(call.key)), max(vl, len(call.val))
			}
			kbuf, vbuf = make([]byte, kl), make([]byte, vl)
		}
		for ci, call := range c.calls {
			failData, failIndex = call.fault == 'd', call.fault == 'i'
			k, v := call.key, call.val
			if c.feed != "" {
				// nil stays nil (a nil value is a tombstone), everything else lives in the re-used buffers
				if k != nil {
					k = kbuf[:len(k)]
					copy(k, call.key)
				}
				if v != nil {
					v = vbuf[:len(v)]
					copy(v, call.val)
				}
				if ci > 0 {
					res.Stat("feed:call-from-overwritten-buffers")
				}
			}
			err := safely(func() error { return w.WriteNext(k, v) })
			if c.feed == "reused+scribble" || (c.feed != "" && ci == len(c.calls)-1) {
				sstScribble(kbuf, byte(0xa5+ci))
				sstScribble(vbuf, byte(0x5a+ci))
			}
			failData, failIndex = false, false
			results = append(results, sstWriteResult(err))
			res.Stat("call:" + results[len(results)-1])
			if call.fault != 'n' {
				res.Stat("fault:" + string(call.fault))
			}
		}
		if err := safely(func() error { return w.Close() }); err != nil {
			res.Violate(idx, "C15", "close-failed", err.Error(), cs)
			return nil
		}
	}
	indexPath := filepath.Join(dir, sstables.IndexFileName)
	fIndex, err := os.ReadFile(indexPath)
	if err != nil {
		return err
	}
	fData, err := os.ReadFile(filepath.Join(dir, sstables.DataFileName))
	if err != nil {
		return err
	}
	fMeta, err := os.ReadFile(filepath.Join(dir, sstables.MetaFileName))
	if err != nil {
		return err
	}

	// ---- C15 oracle (independent reference): per-call answers
	res.Evaluations++
	fold := func(xs []string) string { // the property does not distinguish the two rejection messages
		out := make([]string, len(xs))
		for i, x := range xs {
			if x == "dup" || x == "desc" {
				x = "rejected"
			}
			out[i] = x
		}
		return strings.Join(out, ",")
	}
	if fold(results) != fold(ref.results) {
		sig := "call-results"
		if c.cmp != "" {
			sig += ":comparator-magnitudes-other-than-1"
		}
		res.Violate(idx, "C15", sig, "want "+fold(ref.results)+" got "+fold(results), cs)
	}
	// the reference encoder must reproduce the files (format drift or a writer defect otherwise)
	res.Evaluations++
	if !bytes.Equal(fData, ref.data) || !bytes.Equal(fIndex, ref.index) || !bytes.Equal(fMeta, ref.meta) {
		res.Violate(idx, "C15", "files-differ-from-reference", fmt.Sprintf("data %d/%d index %d/%d meta %s/%s", len(fData), len(ref.data), len(fIndex), len(ref.index), hexs(fMeta), hexs(ref.meta)), cs)
	}

	// ---- model: same program, byte-exact files
	var vals, ipay [][]byte
	for _, call := range c.calls {
		vals = append(vals, call.val)
	}
	ipay = append(ipay, ref.idxPayloads...)
	dor, ior := oracleFor(c.dcomp, vals), oracleFor(c.icomp, ipay)
	modelCalls := c.callsString(c.calls)
	m, err := drv.Ask(fmt.Sprintf("sst.write dcomp=%d icomp=%d doracle=%s ioracle=%s calls=%s", c.dcomp, c.icomp, dor, ior, modelCalls))
	if err != nil {
		return err
	}
	impl := fmt.Sprintf("res=%s index=%s data=%s metaf=%s", strings.Join(results, ","), gb(fIndex), gb(fData), gb(fMeta))
	res.Cmp(idx, "sst.write", m, impl, cs)

	// ---- readers
	bf, _, err := bloomfilter.ReadFile(filepath.Join(dir, sstables.BloomFileName))
	if err != nil {
		return fmt.Errorf("bloom filter: %w", err)
	}
	probes := sstProbes(r, c, ref.acc, bf, tier)
	if c.big != "" {
		probes = sstProbesBig(r, ref.acc, bf, strings.Contains(c.big, ">1M"))
		for _, cl := range strings.Split(c.big, "+") {
			res.Stat("big:" + fmt.Sprintf("dcomp=%d:", c.dcomp) + strings.SplitN(cl, ":", 2)[0])
			res.Stat("big:" + fmt.Sprintf("icomp=%d:", c.icomp) + strings.SplitN(cl, ":", 2)[0])
			res.Stat("big:content:" + strings.SplitN(cl, ":", 2)[1])
		}
		res.Stat("big:cases")
	}
	maxLen := 0
	for _, p := range ref.acc {
		if len(p.key) > maxLen {
			maxLen = len(p.key)
		}
	}
	cfgs := []sstReaderCfg{{"slice-default", true, false}, {"slice", false, true}, {"skip", r.Chance(50), r.Chance(50)}}
	if maxLen <= 4 {
		cfgs = append(cfgs, sstReaderCfg{"map4", r.Chance(50), r.Chance(50)})
	}
	if maxLen <= 20 {
		cfgs = append(cfgs, sstReaderCfg{"map20", r.Chance(50), r.Chance(50)})
	}
	cfgs = append(cfgs, sstReaderCfg{"disk", r.Chance(50), r.Chance(50)})
	accCalls := make([]sstCall, len(ref.acc))
	for i, p := range ref.acc {
		accCalls[i] = sstCall{p.key, p.val, 'n'}
	}
	// the disk loader's lookups are slow in the model (byte-offset binary search over lists): on big tables
	// it gets the every-written-key Contains probes for the last 40 keys and every 64th key, and a handful of the other probes
	allProbes := probes
	var diskProbes []sstProbe
	kept := map[string]int{}
	for _, p := range allProbes {
		if len(ref.acc) > 100 && p.every > 0 && p.every <= len(ref.acc)-40 && p.every%8 != 0 {
			continue
		}
		if len(ref.acc) > 400 {
			if p.every > 0 && p.every <= len(ref.acc)-40 && p.every%64 != 0 {
				continue
			}
			if p.every == 0 { // a handful of each other kind
				kept[p.kind]++
				if kept[p.kind] > map[string]int{"scan": 1, "get": 6, "has": 6, "from": 1, "range": 3}[p.kind] {
					continue
				}
			}
		}
		diskProbes = append(diskProbes, p)
	}
	strsOf := func(ps []sstProbe) []string {
		out := make([]string, len(ps))
		for i, p := range ps {
			out[i] = p.String()
		}
		return out
	}
	// big KEYS: the model of the disk loader walks the index file byte by byte (seconds per lookup above 32 KiB of index):
	// it is asked for the scan only (not at all above 200 KB); every probe still meets the reference-map oracle
	diskModelN := len(diskProbes)
	if c.big != "" && maxLen > 32*1024 {
		diskModelN = 1
		if maxLen > 200000 {
			diskModelN = -1
			res.Stat("big:disk-loader-oracle-only(index>200KB)")
		} else {
			res.Stat("big:disk-loader-model-scan-only")
		}
	}
	var cfgStrs []string
	var implOuts []string
	phantom := -1
	for _, cfg := range cfgs {
		probes := allProbes
		if cfg.loader == "disk" {
			probes = diskProbes
		}
		cfgStrs = append(cfgStrs, cfg.modelString())
		res.Stat("loader:" + cfg.loader)
		width := 0
		if cfg.loader == "map4" {
			width = 4
		} else if cfg.loader == "map20" {
			width = 20
		}
		rd, err := sstOpenReader(dir, cfg, c.rbuf, c.cmp)
		if err != nil {
			// a freshly written table must open
			res.Evaluations++
			sig := cfg.loader + ":open"
			if cfg.loader == "disk" {
				if phantom < 0 {
					phantom = b2i(sstIndexHasPhantom(indexPath, ref))
				}
				if phantom == 1 {
					sig = "disk-index:phantom-in-index-payload"
				}
			}
			res.Violate(idx, "C03", sig, "NewSSTableReader failed: "+sstErr(err)+" "+err.Error(), cs)
			implOuts = append(implOuts, "open-err:"+strings.TrimPrefix(sstErr(err), "err:"))
			continue
		}
		md := rd.MetaData()
		outs := []string{"meta=" + sstMetaString(md)}
		if cfg.loader == "slice-default" {
			// ---- C15 oracle: metadata truthful (count, nil count, min, max, byte sizes of the files)
			res.Evaluations++
			var minK, maxK []byte
			if len(ref.acc) > 0 {
				minK, maxK = ref.acc[0].key, ref.acc[len(ref.acc)-1].key
			}
			if md.NumRecords != uint64(len(ref.acc)) || md.NullValues != ref.nulls || !bytes.Equal(md.MinKey, minK) || !bytes.Equal(md.MaxKey, maxK) ||
				md.DataBytes != uint64(len(fData)) || md.IndexBytes != uint64(len(fIndex)) || md.TotalBytes != uint64(len(fData)+len(fIndex)) {
				res.Violate(idx, "C15", "metadata", fmt.Sprintf("want n=%d nulls=%d min=%s max=%s data=%d index=%d got %s", len(ref.acc), ref.nulls, gb(minK), gb(maxK), len(fData), len(fIndex), sstMetaString(md)), cs)
			}
		}
		for pi, p := range probes {
			got := sstRunProbe(rd, p, len(ref.acc)+2)
			if cfg.loader != "disk" || pi < diskModelN {
				outs = append(outs, got)
			}
			res.Stat("probe:" + p.kind)
			// ---- C03 oracle
			long := width > 0 && (len(p.a) > width && (p.kind == "get" || p.kind == "has"))
			if long {
				res.Stat("map:probe-longer-than-width")
				continue
			}
			want := sstExpect(ref.acc, p)
			res.Evaluations++
			ok := want == sstCanonScan(got) || (want == "err:*" && strings.HasPrefix(got, "err:"))
			if !ok {
				prop := "C03"
				sig := sstSig(c, ref, cfg, p, indexPath, &phantom)
				if cfg.loader == "slice-default" && p.kind == "scan" {
					// the table does not hold exactly the accepted pairs
					prop = "C15"
					sig = "table-content"
				}
				res.Violate(idx, prop, sig, fmt.Sprintf("%s %s: want %s got %s", cfg.modelString(), p.String(), clipS(want, 400), clipS(got, 400)), cs)
			} else if cfg.loader == "disk" {
				res.Stat("disk:probe-ok")
			}
		}
		_ = rd.Close()
		implOuts = append(implOuts, strings.Join(outs, " "))
	}
	// model: open (write accepted) under the same configurations and probes (the disk configuration is
	// always the last one and has its own probe list)
	ask := func(cfgIdx []int, ps []sstProbe) error {
		var cs2 []string
		for _, i := range cfgIdx {
			cs2 = append(cs2, cfgStrs[i])
		}
		probeStrs := strsOf(ps)
		m, err := drv.Ask(fmt.Sprintf("sst.read dcomp=%d icomp=%d doracle=%s ioracle=%s calls=%s cfgs=%s probes=%s", c.dcomp, c.icomp, dor, ior,
			c.callsString(accCalls), strings.Join(cs2, ","), strings.Join(probeStrs, ",")))
		if err != nil {
			return err
		}
		mParts := strings.Split(m, " || ")
		if len(mParts) != len(cfgIdx) {
			res.Cmp(idx, "sst.read", m, "<"+strings.Join(cs2, ",")+">", cs)
			return nil
		}
		for k, i := range cfgIdx {
			what := cs + " probes=" + strings.Join(probeStrs, ",")
			res.Cmp(idx, "sst.read("+cfgs[i].modelString()+")", mParts[k], implOuts[i], what)
		}
		return nil
	}
	var mem []int
	for i := range cfgs {
		mem = append(mem, i)
	}
	if len(diskProbes) == len(allProbes) && diskModelN == len(diskProbes) {
		return ask(mem, allProbes)
	}
	if err := ask(mem[:len(mem)-1], allProbes); err != nil {
		return err
	}
	if diskModelN < 0 {
		return nil
	}
	return ask(mem[len(mem)-1:], diskProbes[:diskModelN])
}

func clipS(s string, n int) string {
	if len(s) > n {
		return s[:n] + "…"
	}
	return s
}
