package main

import (
	"bytes"
	"errors"
	"fmt"
	"os"
	"reflect"
	"sort"
	"strconv"
	"strings"

	"github.com/thomasjungblut/go-sstables/memstore"
	"github.com/thomasjungblut/go-sstables/recordio"
	rProto "github.com/thomasjungblut/go-sstables/recordio/proto"
	"github.com/thomasjungblut/go-sstables/skiplist"
	"github.com/thomasjungblut/go-sstables/sstables"
	sProto "github.com/thomasjungblut/go-sstables/sstables/proto"
	"google.golang.org/protobuf/proto"
)

// ---------------------------------------------------------------------------------------------
// stream "mem": memstore call programs against a reference map (oracle, C14) and the Lean model (`mem.run`),
// iterator / Size / size estimate, and both flush variants read back through the real table reader.

type memOp struct {
	kind byte // a Add, u Upsert, d Delete, x DeleteIfExists, t Tombstone, g Get, c Contains, i IsTombstoned, s Size
	k, v []byte
	h    int // node height handed to the model for a call that may insert (the Go code draws its own)
}

var memOpName = map[byte]string{'a': "Add", 'u': "Upsert", 'd': "Delete", 'x': "DeleteIfExists", 't': "Tombstone",
	'g': "Get", 'c': "Contains", 'i': "IsTombstoned", 's': "Size"}

func (o memOp) tok() string {
	switch o.kind {
	case 'a', 'u':
		return string(rune(o.kind)) + ":" + gb(o.k) + ":" + gb(o.v) + ":" + strconv.Itoa(o.h)
	case 't':
		return "t:" + gb(o.k) + ":" + strconv.Itoa(o.h)
	case 's':
		return "s"
	}
	return string(rune(o.kind)) + ":" + gb(o.k)
}

func memErr(err error) string {
	switch {
	case err == nil:
		return "ok"
	case errors.Is(err, memstore.KeyAlreadyExists):
		return "KeyAlreadyExists"
	case errors.Is(err, memstore.KeyNotFound):
		return "KeyNotFound"
	case errors.Is(err, memstore.KeyTombstoned):
		return "KeyTombstoned"
	case errors.Is(err, memstore.KeyNil):
		return "KeyNil"
	case errors.Is(err, memstore.ValueNil):
		return "ValueNil"
	}
	return "other-error"
}

// one call on the real memstore, result in the wire form of the model (`memResStr`)
func memApply(m memstore.MemStoreI, o memOp) (out string) {
	err := safely(func() error {
		switch o.kind {
		case 'a':
			out = memErr(m.Add(o.k, o.v))
		case 'u':
			out = memErr(m.Upsert(o.k, o.v))
		case 'd':
			out = memErr(m.Delete(o.k))
		case 'x':
			out = memErr(m.DeleteIfExists(o.k))
		case 't':
			out = memErr(m.Tombstone(o.k))
		case 'g':
			v, e := m.Get(o.k)
			out = "got:" + gb(v) + ":" + memErr(e)
		case 'c':
			out = strconv.FormatBool(m.Contains(o.k))
		case 'i':
			out = strconv.FormatBool(m.IsTombstoned(o.k))
		case 's':
			out = strconv.Itoa(m.Size())
		}
		return nil
	})
	if err != nil {
		return "panic"
	}
	return out
}

// ---- the reference map (oracle): key -> tombstone | value; a nil key that is not rejected is the empty key

type memCell struct {
	tomb bool
	val  []byte
}

type memRef map[string]memCell

func (r memRef) state(k []byte) string {
	c, ok := r[string(k)]
	switch {
	case !ok:
		return "absent"
	case c.tomb:
		return "tombstoned"
	}
	return "live"
}

// expected result of a call, and the update of the map
func (r memRef) apply(o memOp) string {
	key := string(o.k)
	c, present := r[key]
	switch o.kind {
	case 'a', 'u':
		if o.k == nil {
			return "KeyNil"
		}
		if o.v == nil {
			return "ValueNil"
		}
		if o.kind == 'a' && present && !c.tomb {
			return "KeyAlreadyExists"
		}
		r[key] = memCell{val: append([]byte{}, o.v...)}
		return "ok"
	case 'd':
		if !present {
			return "KeyNotFound"
		}
		r[key] = memCell{tomb: true}
		return "ok"
	case 'x':
		if present {
			r[key] = memCell{tomb: true}
		}
		return "ok"
	case 't':
		r[key] = memCell{tomb: true}
		return "ok"
	case 'g':
		if !present {
			return "got:-:KeyNotFound"
		}
		if c.tomb {
			return "got:-:KeyTombstoned"
		}
		return "got:" + gb(c.val) + ":ok"
	case 'c':
		return strconv.FormatBool(present && !c.tomb)
	case 'i':
		return strconv.FormatBool(present && c.tomb)
	case 's':
		return strconv.Itoa(len(r))
	}
	return "?"
}

func (r memRef) keys() []string {
	ks := make([]string, 0, len(r))
	for k := range r {
		ks = append(ks, k)
	}
	sort.Slice(ks, func(i, j int) bool { return bytes.Compare([]byte(ks[i]), []byte(ks[j])) < 0 })
	return ks
}

// entries in ascending key order, keys normalised (never nil), nil value for a tombstone
func (r memRef) entries(withTombstones bool) string {
	var parts []string
	for _, k := range r.keys() {
		c := r[k]
		if c.tomb {
			if withTombstones {
				parts = append(parts, gb([]byte(k))+"=-")
			}
			continue
		}
		parts = append(parts, gb([]byte(k))+"="+gb(c.val))
	}
	return memJoin(parts)
}

func (r memRef) sum() uint64 {
	var s uint64
	for k, c := range r {
		s += uint64(len(k)) + uint64(len(c.val))
	}
	return s
}

func memJoin(parts []string) string {
	if len(parts) == 0 {
		return "[]"
	}
	return strings.Join(parts, ";")
}

// "k=v;k=v" with every nil key written as the empty key (for comparison with the reference, whose keys are byte strings)
func memNormKeys(s string) string {
	if s == "[]" {
		return s
	}
	parts := strings.Split(s, ";")
	for i, p := range parts {
		if strings.HasPrefix(p, "-=") {
			parts[i] = "." + p[1:]
		}
	}
	return strings.Join(parts, ";")
}

func memStrictlyAscending(s string) bool {
	if s == "[]" {
		return true
	}
	var prev []byte
	for i, p := range strings.Split(s, ";") {
		kv := strings.SplitN(p, "=", 2)
		var k []byte
		if kv[0] != "-" && kv[0] != "." {
			k = mustHex(kv[0])
		}
		if i > 0 && bytes.Compare(prev, k) >= 0 {
			return false
		}
		prev = k
	}
	return true
}

func mustHex(s string) []byte {
	b := make([]byte, len(s)/2)
	for i := range b {
		x, _ := strconv.ParseUint(s[2*i:2*i+2], 16, 8)
		b[i] = byte(x)
	}
	return b
}

// ---- observing the WriteNext calls of a flush through the verif hook (writers wrapped after Open)

type memRecData struct {
	recordio.WriterI
	vals *[][]byte
	nils *[]bool
}

func (w memRecData) Write(rec []byte) (uint64, error) {
	*w.vals = append(*w.vals, append([]byte{}, rec...))
	*w.nils = append(*w.nils, rec == nil)
	return w.WriterI.Write(rec)
}

type memRecIndex struct {
	rProto.WriterI
	keys *[]string
}

func (w memRecIndex) Write(msg proto.Message) (uint64, error) {
	if e, ok := msg.(*sProto.IndexEntry); ok {
		*w.keys = append(*w.keys, gb(e.Key))
	} else {
		*w.keys = append(*w.keys, "?")
	}
	return w.WriterI.Write(msg)
}

// runs one flush variant into a fresh directory; returns the WriteNext calls seen, the table read back
// ("k=v;..." from Scan, keys normalised) and the Get/Contains answers for the probe keys
func memFlush(m memstore.MemStoreI, withTombstones bool, defaultOpts bool, probe [][]byte) (calls, scan, gets string, err error) {
	dir, err := os.MkdirTemp("", "verif-mem-")
	if err != nil {
		return "", "", "", err
	}
	defer os.RemoveAll(dir)
	var keys []string
	var vals [][]byte
	var nils []bool
	prev := sstables.VerifWriterWrap
	sstables.VerifWriterWrap = func(w *sstables.SSTableStreamWriter) {
		w.VerifWrapWriters(
			func(d recordio.WriterI) recordio.WriterI { return memRecData{d, &vals, &nils} },
			func(i rProto.WriterI) rProto.WriterI { return memRecIndex{i, &keys} })
	}
	opts := []sstables.WriterOption{sstables.WriteBasePath(dir)}
	if !defaultOpts {
		opts = append(opts, sstables.WriteBufferSizeBytes(1<<16))
	}
	var ferr error
	perr := safely(func() error {
		if withTombstones {
			ferr = m.FlushWithTombstones(opts...)
		} else {
			ferr = m.Flush(opts...)
		}
		return nil
	})
	sstables.VerifWriterWrap = prev
	if perr != nil {
		return "flush-panic:" + perr.Error(), "", "", nil
	}
	if ferr != nil {
		return "flush-error:" + ferr.Error(), "", "", nil
	}
	if len(keys) != len(vals) {
		return fmt.Sprintf("hook-mismatch:%d-keys-%d-values", len(keys), len(vals)), "", "", nil
	}
	var parts []string
	for i := range keys {
		v := gb(vals[i])
		if nils[i] {
			v = "-"
		}
		parts = append(parts, keys[i]+"="+v)
	}
	calls = memJoin(parts)

	// read the table back
	var rd sstables.SSTableReaderI
	rerr := safely(func() error {
		var e error
		rd, e = sstables.NewSSTableReader(sstables.ReadBasePath(dir), sstables.ReadWithKeyComparator(skiplist.BytesComparator{}),
			sstables.ReadBufferSizeBytes(1<<16))
		return e
	})
	if rerr != nil {
		return calls, "open-error:" + rerr.Error(), "", nil
	}
	defer rd.Close()
	parts = nil
	rerr = safely(func() error {
		it, e := rd.Scan()
		if e != nil {
			return e
		}
		for i := 0; i < 10000000; i++ {
			k, v, e := it.Next()
			if errors.Is(e, sstables.Done) {
				return nil
			}
			if e != nil {
				return e
			}
			parts = append(parts, gb(nonNil(k))+"="+gb(v))
		}
		return errors.New("scan does not end")
	})
	if rerr != nil {
		scan = "scan-error:" + rerr.Error()
	} else {
		scan = memJoin(parts)
	}
	parts = nil
	for _, k := range probe {
		var g string
		rerr = safely(func() error {
			c, ce := rd.Contains(k)
			v, ge := rd.Get(k)
			switch {
			case ce != nil:
				g = "contains-error"
			case errors.Is(ge, sstables.NotFound):
				g = fmt.Sprintf("notfound/%v", c)
			case ge != nil:
				g = "get-error"
			default:
				g = fmt.Sprintf("%s/%v", gb(v), c)
			}
			return nil
		})
		if rerr != nil {
			g = "panic"
		}
		parts = append(parts, gb(nonNil(k))+"="+g)
	}
	gets = memJoin(parts)
	return calls, scan, gets, nil
}

// what Get/Contains of a flushed table must answer for the probe keys
func (r memRef) tableGets(withTombstones bool, probe [][]byte) string {
	var parts []string
	for _, k := range probe {
		c, ok := r[string(k)]
		g := "notfound/false"
		if ok && !c.tomb {
			g = gb(c.val) + "/true"
		} else if ok && c.tomb && withTombstones {
			g = "-/true"
		}
		parts = append(parts, gb(nonNil(k))+"="+g)
	}
	return memJoin(parts)
}

// the raw uint64 estimate (unexported field), read through reflection when the field is there
func memRawEstimate(m memstore.MemStoreI) (uint64, bool) {
	v := reflect.ValueOf(m)
	if v.Kind() != reflect.Ptr || v.Elem().Kind() != reflect.Struct {
		return 0, false
	}
	f := v.Elem().FieldByName("estimatedSize")
	if !f.IsValid() || f.Kind() != reflect.Uint64 {
		return 0, false
	}
	return f.Uint(), true
}

// ---- case generation

type memCase struct {
	family string
	prog   []memOp
	probe  [][]byte // keys asked from the flushed tables
	flush  string   // "always" | "dedupe" (only when the final state was not flushed before) | "default-opts"
}

// exhaustive families: every sequence of mutating calls up to a length over a small key/value alphabet; the
// observers (Get, Contains, IsTombstoned for every key, Size) are appended after the last mutator — every
// proper prefix is itself a case, so every intermediate state is observed as well.
type memAlphabet struct {
	name string
	keys [][]byte
	vals [][]byte
	muts []memOp
}

func newMemAlphabet(name string, keys, vals [][]byte) *memAlphabet {
	a := &memAlphabet{name: name, keys: keys, vals: vals}
	for _, kind := range []byte{'a', 'u'} {
		for _, k := range keys {
			for _, v := range vals {
				a.muts = append(a.muts, memOp{kind: kind, k: k, v: v})
			}
		}
	}
	for _, kind := range []byte{'d', 'x', 't'} {
		for _, k := range keys {
			a.muts = append(a.muts, memOp{kind: kind, k: k})
		}
	}
	return a
}

// number of programs of length <= maxLen
func (a *memAlphabet) count(maxLen int) int {
	total, p := 0, 1
	for l := 0; l <= maxLen; l++ {
		total += p
		p *= len(a.muts)
	}
	return total
}

// the i-th program (shorter programs first)
func (a *memAlphabet) program(i int, seed uint64) memCase {
	l, p := 0, 1
	for i >= p {
		i -= p
		p *= len(a.muts)
		l++
	}
	r := NewRng(seed^0x6d656d, uint64(i)*31+uint64(l))
	prog := make([]memOp, 0, l+3*len(a.keys)+1)
	digits := make([]int, l)
	for j := l - 1; j >= 0; j-- {
		digits[j] = i % len(a.muts)
		i /= len(a.muts)
	}
	for _, d := range digits {
		o := a.muts[d]
		o.h = 1 + r.Intn(12)
		prog = append(prog, o)
	}
	for _, k := range a.keys {
		prog = append(prog, memOp{kind: 'g', k: k}, memOp{kind: 'c', k: k}, memOp{kind: 'i', k: k})
	}
	prog = append(prog, memOp{kind: 's'})
	fl := "dedupe"
	if l <= 1 {
		fl = "default-opts" // exactly Flush(WriteBasePath(dir)): 4 MiB write buffers
	}
	return memCase{family: a.name, prog: prog, probe: a.keys, flush: fl}
}

func memRandomCase(r *Rng, tier string) memCase {
	large := r.Chance(40)
	c := memCase{family: "random-small", flush: "always"}
	var keys [][]byte
	var maxVal, length int
	if large {
		c.family = "random-large"
		nk := 40 + r.Intn(300)
		for i := 0; i < nk; i++ {
			var k []byte
			if len(keys) > 0 && r.Chance(30) { // shares a prefix with an earlier key
				p := keys[r.Intn(len(keys))]
				k = append(append([]byte{}, p[:r.Intn(len(p)+1)]...), r.Bytes(r.Intn(6))...)
			} else {
				k = r.Bytes(1 + r.Intn(40))
			}
			keys = append(keys, k)
		}
		maxVal = 300
		length = 100 + r.Intn(500)
	} else {
		nk := 1 + r.Intn(6)
		alpha := []byte{0, 'a', 'b', 0xff}
		for i := 0; i < nk; i++ {
			k := make([]byte, r.Intn(3))
			for j := range k {
				k[j] = alpha[r.Intn(len(alpha))]
			}
			keys = append(keys, k)
		}
		maxVal = 3
		length = 5 + r.Intn(150)
	}
	if tier == "thorough" && r.Chance(30) {
		length *= 4
	}
	kinds := []byte("aaaauuuuuudddxxxtttggggcciis")
	for i := 0; i < length; i++ {
		o := memOp{kind: kinds[r.Intn(len(kinds))], h: 1 + r.Intn(12)}
		if r.Chance(15) {
			o.h = []int{1, 12}[r.Intn(2)]
		}
		switch {
		case r.Chance(3):
			o.k = nil
		case r.Chance(4):
			o.k = []byte{}
		case r.Chance(6): // a key outside the universe
			o.k = r.Bytes(1 + r.Intn(5))
		default:
			o.k = keys[r.Intn(len(keys))]
		}
		if o.kind == 'a' || o.kind == 'u' {
			switch {
			case r.Chance(3):
				o.v = nil
			case r.Chance(12):
				o.v = []byte{}
			case large && r.Chance(2):
				o.v = r.Bytes(3000 + r.Intn(4000))
			default:
				o.v = r.Bytes(r.Intn(maxVal + 1))
			}
		}
		if o.kind == 's' {
			o.k = nil
		}
		c.prog = append(c.prog, o)
	}
	c.probe = append(append([][]byte{}, keys...), nil, []byte{}, []byte{0x7a, 0x7a})
	if r.Chance(25) {
		c.flush = "default-opts"
	}
	return c
}

// ---- one case on the real code + oracle; returns what the model must answer

type memPending struct {
	idx    int
	cs     string
	line   string            // program in wire form
	want   map[string]string // field -> implementation answer
	rawEst bool
}

func memSig(o memOp, state string) string {
	if o.kind == 's' {
		return "Size"
	}
	k := "key"
	if o.k == nil {
		k = "nil-key"
	} else if len(o.k) == 0 {
		k = "empty-key"
	}
	s := fmt.Sprintf("%s:%s-%s", memOpName[o.kind], state, k)
	if o.kind == 'a' || o.kind == 'u' {
		if o.v == nil {
			s += ":nil-value"
		} else if len(o.v) == 0 {
			s += ":empty-value"
		}
	}
	return s
}

func memRunCase(res *Result, idx int, c memCase, flushed map[string]bool) (*memPending, error) {
	res.Cases++
	res.Stat("family:" + c.family)
	toks := make([]string, len(c.prog))
	for i, o := range c.prog {
		toks[i] = o.tok()
	}
	line := strings.Join(toks, ",")
	cs := c.family + " prog=" + line
	m := memstore.NewMemStore()
	ref := memRef{}
	outs := make([]string, len(c.prog))
	mutations := 0
	for i, o := range c.prog {
		state := ref.state(o.k)
		res.Stat("op:" + memOpName[o.kind])
		if o.kind != 's' {
			res.Stat("key-state:" + state)
			switch {
			case o.k == nil:
				res.Stat("key:nil")
			case len(o.k) == 0:
				res.Stat("key:empty")
			}
		}
		if o.kind == 'a' || o.kind == 'u' {
			switch {
			case o.v == nil:
				res.Stat("value:nil")
			case len(o.v) == 0:
				res.Stat("value:empty")
			}
			if o.kind == 'a' && state == "tombstoned" && o.k != nil && o.v != nil {
				res.Stat("re-add-of-tombstoned-key")
			}
		}
		if (o.kind == 'd' || o.kind == 'x') && state == "absent" {
			res.Stat("delete-of-absent-key")
		}
		if o.k == nil && strings.ContainsRune("dxtgci", rune(o.kind)) {
			res.Stat("nil-key-not-rejected-by-" + memOpName[o.kind] + "(treated-as-empty-key,as-coded)")
		}
		got := memApply(m, o)
		want := ref.apply(o)
		outs[i] = got
		res.Evaluations++
		if got != want {
			res.Violate(idx, "C14", "call:"+memSig(o, state),
				fmt.Sprintf("call #%d %s: reference map says %s, memstore returned %s", i, o.tok(), want, got), cs)
		}
		if strings.ContainsRune("audxt", rune(o.kind)) {
			if got == "ok" {
				mutations++
			} else {
				res.Stat("error:" + got)
			}
		} else if o.kind == 'g' && !strings.HasSuffix(got, ":ok") {
			res.Stat("error:" + got[strings.LastIndex(got, ":")+1:])
		}
	}
	if mutations >= 2 {
		if strings.HasPrefix(c.family, "exhaustive") {
			res.Nontrivial++ // distinct by construction
		} else {
			res.NoteNontrivial(cs)
		}
	}
	p := &memPending{idx: idx, cs: cs, line: line, want: map[string]string{}}
	p.want["res"] = strings.Join(outs, ",")

	// iterator
	var itParts []string
	iterr := safely(func() error {
		it := m.SStableIterator()
		for i := 0; i < 10000000; i++ {
			k, v, e := it.Next()
			if errors.Is(e, sstables.Done) {
				return nil
			}
			if e != nil {
				return e
			}
			itParts = append(itParts, gb(k)+"="+gb(v))
		}
		return errors.New("iterator does not end")
	})
	iter := memJoin(itParts)
	if iterr != nil {
		iter = "iterator-error:" + iterr.Error()
	}
	p.want["iter"] = iter
	hasTomb, hasEmptyVal := false, false
	for _, c := range ref {
		hasTomb = hasTomb || c.tomb
		hasEmptyVal = hasEmptyVal || (!c.tomb && len(c.val) == 0)
	}
	shape := "no-tombstone"
	if hasTomb {
		shape = "with-tombstone"
	}
	if len(ref) == 0 {
		shape = "empty"
	}
	res.Stat("final-state:" + shape)
	if hasEmptyVal {
		res.Stat("final-state:has-live-empty-value")
	}
	res.Evaluations++
	if memNormKeys(iter) != ref.entries(true) {
		res.Violate(idx, "C14", "iterator:"+shape, "SStableIterator: reference "+ref.entries(true)+", got "+iter, cs)
	} else if !memStrictlyAscending(iter) {
		res.Violate(idx, "C14", "iterator-order:"+shape, "SStableIterator not strictly ascending: "+iter, cs)
	}
	// size and estimate
	size := m.Size()
	p.want["size"] = strconv.Itoa(size)
	res.Evaluations++
	if size != len(ref) {
		res.Violate(idx, "C14", "size:"+shape, fmt.Sprintf("Size() = %d, reference has %d keys (tombstones included)", size, len(ref)), cs)
	}
	sum := ref.sum()
	est := m.EstimatedSizeInBytes()
	res.Evaluations++
	if est != uint64(1.15*float32(sum)) {
		res.Violate(idx, "C14", "estimate:"+shape,
			fmt.Sprintf("EstimatedSizeInBytes() = %d, reference sum %d gives %d", est, sum, uint64(1.15*float32(sum))), cs)
	}
	p.want["est-scaled"] = strconv.FormatUint(est, 10)
	if raw, ok := memRawEstimate(m); ok {
		p.rawEst = true
		p.want["est"] = strconv.FormatUint(raw, 10)
		res.Evaluations++
		if raw != sum {
			res.Violate(idx, "C14", "estimate-raw:"+shape, fmt.Sprintf("estimatedSize = %d (as uint64), reference sum %d", raw, sum), cs)
		}
	} else {
		res.Stat("raw-estimate-field-not-readable")
	}

	// flushes
	doFlush := c.flush != "dedupe"
	if c.flush == "dedupe" && !flushed[iter] {
		flushed[iter] = true
		doFlush = true
	}
	if doFlush {
		for _, wt := range []bool{false, true} {
			name, field := "Flush", "flush"
			if wt {
				name, field = "FlushWithTombstones", "flusht"
			}
			res.Stat("flushed:" + name + ":" + shape)
			calls, scan, gets, err := memFlush(m, wt, c.flush != "always", c.probe)
			if err != nil {
				return nil, err
			}
			p.want[field] = calls
			want := ref.entries(wt)
			res.Evaluations++
			if memNormKeys(calls) != want {
				res.Violate(idx, "C14", name+"-calls:"+shape, name+" WriteNext calls: reference "+want+", got "+calls, cs)
			}
			res.Evaluations++
			if scan != want {
				res.Violate(idx, "C14", name+"-table:"+shape, name+" table read back by Scan: reference "+want+", got "+scan, cs)
			}
			res.Evaluations++
			if wg := ref.tableGets(wt, c.probe); gets != wg {
				res.Violate(idx, "C14", name+"-table-get:"+shape, name+" table Get/Contains: reference "+wg+", got "+gets, cs)
			}
		}
	}
	return p, nil
}

// the model side of a batch: one driver line for up to 64 programs
func memAsk(drv *Driver, batch []*memPending) (string, error) {
	lines := make([]string, len(batch))
	for i, p := range batch {
		lines[i] = p.line
	}
	return drv.Ask("mem.run prog=" + strings.Join(lines, "|"))
}

func memCompare(res *Result, batch []*memPending, ans string) error {
	parts := strings.Split(ans, " | ")
	if len(parts) != len(batch) {
		return fmt.Errorf("mem.run: %d programs sent, %d answers", len(batch), len(parts))
	}
	for i, p := range batch {
		got := map[string]string{}
		for _, f := range strings.Split(parts[i], " ") {
			if kv := strings.SplitN(f, "=", 2); len(kv) == 2 {
				got[kv[0]] = kv[1]
			}
		}
		if len(got) == 0 {
			got["res"] = parts[i] // bad-op and the like
		}
		for _, field := range []string{"res", "iter", "size", "est", "flush", "flusht"} {
			want, ok := p.want[field]
			if !ok {
				continue
			}
			model, ok := got[field]
			if !ok {
				model = "bad-op(field missing: " + parts[i] + ")"
			}
			if field == "res" {
				// token-wise report
				res.Cmp(p.idx, "mem "+field, strings.ReplaceAll(model, ",", " "), strings.ReplaceAll(want, ",", " "), p.cs)
			} else {
				res.Cmp(p.idx, "mem "+field, model, want, p.cs)
			}
		}
		// the float scaling is outside the model: apply the Go expression to the model's integer
		scaled := "negative-estimate:" + got["est"]
		if e, err := strconv.ParseInt(got["est"], 10, 64); err == nil && e >= 0 {
			scaled = strconv.FormatUint(uint64(1.15*float32(uint64(e))), 10)
		}
		res.Cmp(p.idx, "mem EstimatedSizeInBytes (Go scaling of the model's estimate)", scaled, p.want["est-scaled"], p.cs)
	}
	return nil
}

func runMem(res *Result, drv *Driver, seed uint64, n int, tier string, only int) error {
	maxLen := 4
	if tier == "thorough" {
		maxLen = 5
	}
	res.Rule = fmt.Sprintf("call programs on a new memstore: ALL sequences of up to %d mutating calls (Add/Upsert x 3 keys x 3 values, Delete/DeleteIfExists/Tombstone x 3 keys) "+
		"over keys {nil, empty, 61} and values {nil, empty, 07}, each followed by Get/Contains/IsTombstoned of every key and Size; ALL sequences of up to %d over keys {61, 6162, 62} / values {empty, 07, 0708}; "+
		"then random programs (small universes of 1-6 short keys, large universes of 40-340 keys up to 40 bytes, values up to 7 kB, nil/empty keys and values, keys outside the universe); "+
		"after every call result vs reference map; at the end iterator, Size, estimate, both flush variants (WriteNext calls observed through the writer hook, table read back with Scan/Get/Contains) vs reference and vs the Lean model; "+
		"non-trivial = at least 2 successful mutating calls; distinct = distinct program", maxLen, maxLen-1)
	a1 := newMemAlphabet("exhaustive-nil-empty-a", [][]byte{nil, {}, {0x61}}, [][]byte{nil, {}, {0x07}})
	a2 := newMemAlphabet("exhaustive-3-keys", [][]byte{{0x61}, {0x61, 0x62}, {0x62}}, [][]byte{{}, {0x07}, {0x07, 0x08}})
	n1, n2 := a1.count(maxLen), a2.count(maxLen-1)
	res.StatN("exhaustive-programs", n1+n2)
	total := n1 + n2 + n
	flushed := map[string]bool{}
	// the driver answers batches in a second goroutine while the next programs run on the real code;
	// all bookkeeping on res stays in this goroutine
	type asked struct {
		batch []*memPending
		ans   string
		err   error
	}
	toAsk := make(chan []*memPending, 8)
	answered := make(chan asked, 1<<16)
	go func() {
		for b := range toAsk {
			ans, err := memAsk(drv, b)
			answered <- asked{b, ans, err}
		}
		close(answered)
	}()
	var firstErr error
	handle := func(a asked) {
		if firstErr != nil {
			return
		}
		if a.err != nil {
			firstErr = a.err
			return
		}
		firstErr = memCompare(res, a.batch, a.ans)
	}
	var batch []*memPending
	send := func() {
		if len(batch) == 0 {
			return
		}
		toAsk <- batch
		batch = nil
		for {
			select {
			case a := <-answered:
				handle(a)
				continue
			default:
			}
			break
		}
	}
	var runErr error
	for idx := 0; idx < total && firstErr == nil; idx++ {
		if only >= 0 && idx != only {
			continue
		}
		var c memCase
		switch {
		case idx < n1:
			c = a1.program(idx, seed)
		case idx < n1+n2:
			c = a2.program(idx-n1, seed)
		default:
			c = memRandomCase(NewRng(seed, uint64(idx-n1-n2)), tier)
		}
		if only >= 0 {
			c.flush = "default-opts"
		}
		p, err := memRunCase(res, idx, c, flushed)
		if err != nil {
			runErr = err
			break
		}
		if idx == 0 || idx == n1-1 || idx == n1+n2-1 || idx == n1+n2 || idx == n1+n2+1 {
			res.Sample(p.cs)
		}
		batch = append(batch, p)
		if len(batch) >= 64 || idx >= n1+n2 {
			send()
		}
	}
	if runErr == nil {
		send()
	}
	close(toAsk)
	for a := range answered {
		handle(a)
	}
	if runErr != nil {
		return runErr
	}
	return firstErr
}
