package main

import (
	"errors"
	"fmt"
	"hash/crc64"
	"os"
	"path/filepath"
	"strconv"
	"strings"

	"github.com/thomasjungblut/go-sstables/simpledb"
)

// ---------------------------------------------------------------------------------------------
// stream "stack": the byte-level SimpleDB model (lean/SST/Model/Stack.lean, theorem
// SST.StackRefine.stack_refines_map) against the real SimpleDB: small sessions (both API flavours, rejected
// calls, forced rotations, flush waits, compaction cycles through the hook, close + reopen) where, after every
// flush, compaction and reopen, index.rio / data.rio / meta.pb.bin of EVERY live table are compared byte for
// byte (length + CRC-64/ISO of each file) with the files the model predicts, in addition to all reads,
// results, table lists and compaction selections.  bloom.bf.gz is excluded (opaque in the model).

func init() {
	streams["stack"] = runStack
}

var crc64ISO = crc64.MakeTable(crc64.ISO)

func fileDigest(path string) (string, []byte, error) {
	b, err := os.ReadFile(path)
	if err != nil {
		return "", nil, err
	}
	return fmt.Sprintf("%d:%d", len(b), crc64.Checksum(b, crc64ISO)), b, nil
}

// "f:<gen>:<ilen>:<icrc>:<dlen>:<dcrc>:<mlen>:<mcrc>;..." of the live tables, oldest first
func stackFilesTok(dir string, db *simpledb.DB) (string, string, error) {
	names, _, _, _ := db.VerifTables()
	var parts, hexParts []string
	for _, n := range names {
		g, err := gensOf([]string{n})
		if err != nil {
			return "", "", err
		}
		p := filepath.Join(dir, n)
		i, ib, err := fileDigest(filepath.Join(p, "index.rio"))
		if err != nil {
			return "", "", err
		}
		d, dbs, err := fileDigest(filepath.Join(p, "data.rio"))
		if err != nil {
			return "", "", err
		}
		m, mb, err := fileDigest(filepath.Join(p, "meta.pb.bin"))
		if err != nil {
			return "", "", err
		}
		parts = append(parts, g+":"+i+":"+d+":"+m)
		hexParts = append(hexParts, g+":"+gb(ib)+":"+gb(dbs)+":"+gb(mb))
	}
	return "f:" + strings.Join(parts, ";"), "x:" + strings.Join(hexParts, ";"), nil
}

func runStack(res *Result, drv *Driver, seed uint64, n int, tier string, only int) error {
	res.Rule = "SimpleDB sessions on the real code vs the byte-level stack model: Put/Delete/Get (string + byte flavours, rejected calls), forced rotations, " +
		"flush waits, compaction cycles (hook; runs including and excluding the oldest table), close + reopen with other options; after every flush / " +
		"compaction / reopen the three files of every live table are compared with the model's prediction (length + crc64 each), every key is read " +
		"after every step; non-trivial = at least one table file comparison and one accepted write; distinct = distinct step strings"
	for idx := 0; idx < n; idx++ {
		if only >= 0 && idx != only {
			continue
		}
		if err := stackOne(res, drv, NewRng(seed, uint64(idx)), idx, tier); err != nil {
			return err
		}
	}
	return nil
}

func stackOne(res *Result, drv *Driver, r *Rng, idx int, tier string) error {
	dir, err := os.MkdirTemp("", "verif-stack-")
	if err != nil {
		return err
	}
	defer os.RemoveAll(dir)
	res.Cases++

	nk := 2 + r.Intn(5)
	var keys [][]byte
	for i := 0; i < nk; i++ {
		switch r.Intn(6) {
		case 0:
			keys = append(keys, []byte{0xff, 0xfe, byte(i)})
		case 1:
			keys = append(keys, append([]byte("long-key-"), bytesRepeat(byte('a'+i), 10+r.Intn(40))...))
		case 2:
			keys = append(keys, []byte{0x91, 0x8d, 0x4c, byte(i)})
		default:
			keys = append(keys, []byte{byte('a' + i)})
		}
	}
	var values [][]byte // everything that may be handed to the data compressor
	genVal := func() []byte {
		var v []byte
		switch r.Intn(10) {
		case 0:
			v = bytesRepeat(byte(r.Next()), 50+r.Intn(250)) // compressible
		case 1:
			v = []byte{0}
		case 2:
			v = append([]byte{0x91, 0x8d, 0x4c}, r.Bytes(5)...)
		default:
			v = r.Bytes(1 + r.Intn(24))
		}
		values = append(values, v)
		return v
	}

	ref := map[string][]byte{}
	var steps, impl, trace []string
	fileCmps, writes := 0, 0
	var db *simpledb.DB
	opts := genDbOpts(r)
	lineage := r.Chance(30)
	if lineage {
		// a big oldest table the size limit excludes, small newer tables with tombstones: keep-tombstones reducer
		opts.memstore = 1 << 40
		opts.maxSize = uint64(150 + r.Intn(250))
		opts.threshold = r.Intn(2)
		opts.ratioNum, opts.ratioDen = 1, 1
		if r.Chance(30) {
			opts.ratioNum, opts.ratioDen = 1, 2
		}
		res.Stat("case:lineage-excluding-oldest")
	}
	opened := false
	emit := func(step, result string) {
		steps = append(steps, step)
		impl = append(impl, result)
	}
	var lastHex string
	emitFiles := func(ctx string) error {
		tok, hx, err := stackFilesTok(dir, db)
		if err != nil {
			return err
		}
		emit("files", tok)
		lastHex = hx
		if tok != "f:" {
			fileCmps++
			res.StatN("files:tables-compared:after-"+ctx, strings.Count(tok, ";")+1)
		}
		return nil
	}
	openDb := func() error {
		d, err := simpledb.NewSimpleDB(dir, opts.extra()...)
		if err != nil {
			return err
		}
		if err := d.Open(); err != nil {
			res.Violate(idx, "C01", "open-failed", err.Error(), strings.Join(trace, " "))
			return nil
		}
		db = d
		opened = true
		emit(opts.modelTok(), "-")
		trace = append(trace, fmt.Sprintf("open(mem=%d,thr=%d,max=%d,ratio=%d/%d)", opts.memstore, opts.threshold, opts.maxSize, opts.ratioNum, opts.ratioDen))
		return nil
	}
	if err := openDb(); err != nil {
		return err
	}
	if !opened {
		return nil
	}
	readAll := func(ctx string) {
		for i, k := range keys {
			var got []byte
			var err error
			if (i+len(steps))%2 == 0 {
				var s string
				s, err = db.Get(string(k))
				got = []byte(s)
			} else {
				got, err = db.GetBytes(k)
			}
			out := dbRes(err)
			if err == nil {
				out = "val:" + gb(nonNil(got))
			}
			want := "notfound"
			if v, ok := ref[string(k)]; ok {
				want = "val:" + gb(v)
			}
			res.Evaluations++
			if out != want {
				res.Violate(idx, "C01", "get-mismatch:after-"+ctx, fmt.Sprintf("Get(%x): want %s got %s", k, want, out), strings.Join(trace, " "))
			}
			emit("g:"+gb(k), out)
		}
	}
	waitFlush := func() {
		db.VerifWaitFlushIdle()
		emit("flush", "-")
	}
	tablesTok := func() (string, []uint64, error) {
		names, sizes, _, _ := db.VerifTables()
		g, err := gensOf(names)
		return "t:" + g, sizes, err
	}

	if lineage {
		for i := 0; i < 2 && i < len(keys); i++ {
			v := r.Bytes(200 + r.Intn(150)) // incompressible: the table stays above the size limit
			values = append(values, v)
			err := db.PutBytes(keys[i], v)
			emit("pb:"+gb(keys[i])+":"+gb(v)+":0", dbRes(err))
			if err == nil {
				ref[string(keys[i])] = v
				writes++
			}
			trace = append(trace, fmt.Sprintf("put(%x,%dB)=%s", keys[i], len(v), dbRes(err)))
		}
		_ = db.VerifRotate()
		emit("rot", "-")
		waitFlush()
		if err := emitFiles("flush"); err != nil {
			return err
		}
		trace = append(trace, "rotate+flush")
		readAll("flush")
	}
	nops := 8 + r.Intn(25)
	if tier == "thorough" && r.Chance(20) {
		nops = 40 + r.Intn(60)
	}
	for op := 0; op < nops && opened; op++ {
		k := keys[r.Intn(len(keys))]
		ctx := "write"
		switch c := r.Intn(100); {
		case c < 34: // put
			v := genVal()
			var err error
			useStr := r.Chance(50)
			if useStr {
				err = db.Put(string(k), string(v))
			} else {
				err = db.PutBytes(k, v)
			}
			out := dbRes(err)
			rot := "0"
			if err == nil {
				ref[string(k)] = v
				writes++
				if db.VerifMemstoreEstimate() == 0 {
					rot = "1"
					res.Stat("rotation:size-triggered")
				}
			}
			if useStr {
				emit("ps:"+gb(k)+":"+gb(v)+":"+rot, out)
			} else {
				emit("pb:"+gb(k)+":"+gb(v)+":"+rot, out)
			}
			trace = append(trace, fmt.Sprintf("put(%x,%dB)=%s", k, len(v), out))
			res.Stat("op:put")
		case c < 39: // rejected puts
			var kk, vv []byte = k, genVal()
			which := r.Intn(4)
			switch which {
			case 0:
				kk = []byte{}
			case 1:
				vv = []byte{}
			case 2:
				kk = nil
			case 3:
				vv = nil
			}
			var err error
			if which < 2 && r.Chance(50) {
				err = db.Put(string(kk), string(vv))
				emit("ps:"+gb(nonNil(kk))+":"+gb(nonNil(vv))+":0", dbRes(err))
			} else {
				err = db.PutBytes(kk, vv)
				emit("pb:"+gb(kk)+":"+gb(vv)+":0", dbRes(err))
			}
			trace = append(trace, fmt.Sprintf("badput(%s,%s)=%s", gb(kk), gb(vv), dbRes(err)))
			res.Stat("op:rejected-put")
			if !errors.Is(err, simpledb.ErrEmptyKeyValue) {
				res.Violate(idx, "C17", "empty-put-not-rejected", fmt.Sprintf("Put(%s,%s) = %s", gb(kk), gb(vv), dbRes(err)), strings.Join(trace, " "))
			}
			ctx = "rejected-call"
		case c < 56: // delete (sometimes of the empty / nil key, sometimes of a key that was never written)
			kk := k
			if r.Chance(10) {
				kk = []byte{}
			}
			var err error
			if r.Chance(50) {
				err = db.Delete(string(kk))
				emit("ds:"+gb(kk), dbRes(err))
			} else {
				if len(kk) == 0 && r.Chance(50) {
					kk = nil
				}
				err = db.DeleteBytes(kk)
				emit("db:"+gb(kk), dbRes(err))
			}
			if err == nil {
				delete(ref, string(kk))
				writes++
			}
			trace = append(trace, fmt.Sprintf("del(%s)=%s", gb(kk), dbRes(err)))
			res.Stat("op:delete")
		case c < 72: // forced rotation, flush, compare the files of every live table
			if err := db.VerifRotate(); err != nil {
				res.Violate(idx, "C01", "rotate-failed", err.Error(), strings.Join(trace, " "))
			}
			emit("rot", "-")
			if r.Chance(75) {
				waitFlush()
				if err := emitFiles("flush"); err != nil {
					return err
				}
				trace = append(trace, "rotate+flush")
			} else {
				trace = append(trace, "rotate")
			}
			res.Stat("op:rotate")
			ctx = "flush"
		case c < 90: // one compaction cycle
			waitFlush()
			before, sizes, err := tablesTok()
			if err != nil {
				return err
			}
			emit("tables", before)
			var szs []string
			for _, s := range sizes {
				szs = append(szs, strconv.FormatUint(s, 10))
			}
			var sel []string
			err = safely(func() error {
				var e error
				sel, _, e = db.VerifCompactOnce()
				return e
			})
			if err != nil {
				res.Violate(idx, "C01", "compaction-failed", err.Error(), strings.Join(trace, " "))
				opened = false
				break
			}
			g, err := gensOf(sel)
			if err != nil {
				return err
			}
			emit("compact:"+strings.Join(szs, ";"), "sel:"+g)
			after, _, err := tablesTok()
			if err != nil {
				return err
			}
			emit("tables", after)
			if err := emitFiles("compact"); err != nil {
				return err
			}
			trace = append(trace, fmt.Sprintf("compact[%s→sel %s→%s]", before, g, after))
			if len(sel) > 0 {
				res.Stat("op:compact:merged")
				if !strings.HasPrefix(before[2:]+";", g+";") {
					res.Stat("op:compact:excludes-oldest")
				}
			} else {
				res.Stat("op:compact:nothing-selected")
			}
			ctx = "compact"
		default: // close + reopen with other options
			err := db.Close()
			emit("close", dbRes(err))
			if err != nil {
				res.Violate(idx, "C01", "close-failed", err.Error(), strings.Join(trace, " "))
				opened = false
				break
			}
			if r.Chance(30) {
				_, gerr := db.Get(string(k))
				emit("g:"+gb(k), dbRes(gerr))
			}
			opts = genDbOpts(r)
			opened = false
			trace = append(trace, "close")
			if err := openDb(); err != nil {
				return err
			}
			if opened {
				if err := emitFiles("reopen"); err != nil {
					return err
				}
			}
			res.Stat("op:reopen")
			ctx = "reopen"
		}
		if !opened {
			break
		}
		readAll(ctx)
	}
	if opened {
		if err := db.Close(); err != nil {
			res.Violate(idx, "C01", "close-failed", err.Error(), strings.Join(trace, " "))
		}
	}
	cs := strings.Join(steps, ",")
	if fileCmps > 0 && writes > 0 {
		res.NoteNontrivial(cs)
	}
	res.Sample(strings.Join(trace, " "))
	m, err := drv.Ask("stack.run steps=" + cs + " oracle=" + oracleFor(2, values))
	if err != nil {
		return err
	}
	if !res.Cmp(idx, "stack.run", m, strings.Join(impl, " "), strings.Join(trace, " ")) {
		// the real files of the last comparison, in full, next to the model's: helps to locate a byte difference
		if mh, err := drv.Ask("stack.run steps=" + cs + ",hex oracle=" + oracleFor(2, values)); err == nil {
			t := strings.Split(mh, " ")
			res.Sample("model files at end: " + clip(t[len(t)-1]) + " | real files at last comparison: " + clip(lastHex))
		}
	}
	return nil
}
