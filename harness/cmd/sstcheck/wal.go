package main

import (
	"errors"
	"fmt"
	"hash/crc32"
	"os"
	"path/filepath"
	"sort"
	"strconv"
	"strings"
	"syscall"

	"github.com/thomasjungblut/go-sstables/recordio"
	"github.com/thomasjungblut/go-sstables/wal"
)

// ---------------------------------------------------------------------------------------------
// stream "wal": programs of Append / AppendSync / Rotate against the real write-ahead log (C07)
//
//  * byte-exact comparison of every *.wal file (before and after Close) and of the on-disk file sizes
//    after every operation with the model (ties the size rule, the buffered writer's flush boundaries and
//    the record format);
//  * property oracle on the real replayer: after Close replay = appended records; before Close replay
//    succeeds with a prefix holding every synced record; every AppendSync has its record on disk when it
//    returns;
//  * kills simulated at the byte level: the directory with files 0..k and file k cut at every length
//    (sampled for long files), file k absent, file k empty: the real replayer must succeed and return a
//    prefix of the appended records that holds every completely contained record; compared with the
//    model's replay of the same directory.

type walOp struct {
	kind string // "a" append, "s" appendSync, "r" rotate
	rec  []byte
}

type walCase struct {
	comp       int
	buf        int // 0 = default writer factory (4 MiB buffer, no compression)
	max        uint64
	defaultMax bool // MaximumWalFileSizeBytes not given
	boundary   bool // max chosen next to Size()+len(record) of one of the appends
	ops        []walOp
	// base directory of the log and of the cut images, relative to the case's scratch directory ("" = "log" / "cut"):
	// nested, with glob / regexp meta characters and other unusual but legal characters in the names
	dirName, cutName string
}

// fragments of directory names: everything but '/' and NUL is legal in a name
var walNameFragments = []struct{ class, s string }{
	{"glob-class", "wal[0]"}, {"glob-class", "shard[a-c]"}, {"glob-class", "["}, {"glob-class", "]"}, {"glob-class", "[!x]"}, {"glob-class", "[^0-9]"}, {"glob-class", "[]"},
	{"glob-wildcard", "a?b"}, {"glob-wildcard", "*"}, {"glob-wildcard", "x*.wal"}, {"glob-wildcard", "?"},
	{"backslash", "back\\slash"}, {"backslash", "\\[0\\]"}, {"backslash", "end\\"},
	{"space", "with space"}, {"space", " lead"}, {"space", "trail "}, {"space", "tab\there"}, {"space", "new\nline"},
	{"percent", "100%"}, {"percent", "%d%s%v"}, {"percent", "%2F"},
	{"unicode", "ünïcödé"}, {"unicode", "日本語"}, {"unicode", "🙂"}, {"unicode", "e\u0301"}, {"unicode", "\xff\xfe"},
	{"regexp", "(a|b)+"}, {"regexp", "^x$"}, {"regexp", "a.b"}, {"regexp", "{a,b}"},
	{"shell", "~"}, {"shell", "$HOME"}, {"shell", "#tag"}, {"shell", "-dash"}, {"shell", "semi;colon"}, {"shell", "quote'\""}, {"shell", "&|<>"}, {"shell", "!"},
	{"dots", "..dots"}, {"dots", "dot."}, {"dots", "..."}, {"dots", ".hidden"},
	{"wal-suffix", "dir.wal"}, {"wal-suffix", "000001.wal"},
	{"plain", "log"}, {"plain", "data"}, {"plain", "0"},
}

// walGenDirName: 1-4 nested components of 1-3 fragments each; the first component starts with lead so that the log
// and the cut directories of a case never nest. Returns the relative path and the classes used.
func walGenDirName(r *Rng, lead string) (string, []string) {
	depth := 1 + r.Intn(4)
	var comps []string
	classes := map[string]bool{}
	for d := 0; d < depth; d++ {
		comp := ""
		if d == 0 {
			comp = lead
		}
		for k := 1 + r.Intn(3); k > 0; k-- {
			f := walNameFragments[r.Intn(len(walNameFragments))]
			if len(comp)+len(f.s) > 200 {
				break
			}
			comp += f.s
			classes[f.class] = true
		}
		if comp == "." || comp == ".." {
			comp += "x"
		}
		comps = append(comps, comp)
	}
	var cl []string
	for k := range classes {
		cl = append(cl, k)
	}
	sort.Strings(cl)
	return filepath.Join(comps...), cl
}

var walMaxSizes = []uint64{0, 1, 7, 8, 9, 10, 16, 20, 21, 33, 50, 64, 100, 256, 1000, 4096, 1 << 20}
var walBufSizes = []int{1, 2, 3, 5, 7, 8, 9, 13, 16, 31, 64, 100, 512, 4096, 65536}

func genWalCase(r *Rng, tier string) *walCase {
	c := &walCase{}
	switch k := r.Intn(100); {
	case k < 45:
		c.comp = recordio.CompressionTypeNone
	case k < 80:
		c.comp = recordio.CompressionTypeSnappy // what SimpleDB uses
	case k < 90:
		c.comp = recordio.CompressionTypeGZIP
	default:
		c.comp = recordio.CompressionTypeLzw
	}
	c.buf = r.Pick(walBufSizes)
	if r.Chance(8) {
		c.buf = 0
		c.comp = recordio.CompressionTypeNone
	}
	c.max = walMaxSizes[r.Intn(len(walMaxSizes))]
	if r.Chance(8) {
		c.defaultMax = true
		c.max = wal.DefaultMaxWalSize
	}
	n := r.Intn(11)
	if r.Chance(6) {
		n = 0
	}
	if tier == "thorough" && r.Chance(10) {
		n = 10 + r.Intn(50)
	}
	bufAround := c.buf
	if bufAround == 0 {
		bufAround = 64
	}
	around := []int{bufAround, bufAround * 2, int(c.max % 5000), 36, 127, 128}
	for i := 0; i < n; i++ {
		switch k := r.Intn(100); {
		case k < 45:
			c.ops = append(c.ops, walOp{"a", walPayload(r, around)})
		case k < 82:
			c.ops = append(c.ops, walOp{"s", walPayload(r, around)})
		default:
			c.ops = append(c.ops, walOp{kind: "r"})
		}
	}
	// aim at the boundary of the size rule: limit = Size() + len(record) of some append, -1 / exactly / +1
	if r.Chance(22) && !c.defaultMax {
		var cands []uint64
		size := uint64(8)
		for _, o := range c.ops {
			if o.kind == "r" {
				size = 8
				continue
			}
			cands = append(cands, size+uint64(len(o.rec)))
			size += uint64(refRecordLen(c.comp, o.rec))
		}
		if len(cands) > 0 {
			m := cands[r.Intn(len(cands))] + uint64(r.Intn(3))
			if m > 0 {
				m--
			}
			c.max = m
			c.boundary = true
		}
	}
	return c
}

func walPayload(r *Rng, around []int) []byte {
	p := genPayload(r, around)
	if len(p) > 9000 {
		p = p[:9000]
	}
	return p
}

func (c *walCase) String() string {
	var sb strings.Builder
	fmt.Fprintf(&sb, "max=%d defaultMax=%v buf=%d comp=%d ops=", c.max, c.defaultMax, c.buf, c.comp)
	sb.WriteString(c.opsString())
	if c.dirName != "" {
		fmt.Fprintf(&sb, " dir=%q cutdir=%q", c.dirName, c.cutName)
	}
	return sb.String()
}

func (c *walCase) opsString() string {
	parts := make([]string, len(c.ops))
	for i, o := range c.ops {
		if o.kind == "r" {
			parts[i] = "r"
		} else {
			parts[i] = o.kind + ":" + gb(o.rec)
		}
	}
	return strings.Join(parts, ",")
}

func (c *walCase) options(dir string) (*wal.Options, error) {
	opts := []wal.Option{wal.BasePath(dir)}
	if !c.defaultMax {
		opts = append(opts, wal.MaximumWalFileSizeBytes(c.max))
	}
	if c.buf != 0 {
		comp, buf := c.comp, c.buf
		opts = append(opts, wal.WriterFactory(func(path string) (recordio.WriterI, error) {
			return recordio.NewFileWriter(recordio.Path(path), recordio.CompressionType(comp), recordio.BufferSizeBytes(buf))
		}))
	}
	return wal.NewWriteAheadLogOptions(opts...)
}

// sorted listing of the *.wal files of a directory
func walList(dir string) ([]string, error) {
	ents, err := os.ReadDir(dir)
	if err != nil {
		return nil, err
	}
	var names []string
	for _, e := range ents {
		names = append(names, e.Name())
	}
	sort.Strings(names)
	return names, nil
}

func walSizes(dir string) (string, []string, error) {
	names, err := walList(dir)
	if err != nil {
		return "", nil, err
	}
	parts := make([]string, len(names))
	for i, n := range names {
		st, err := os.Stat(filepath.Join(dir, n))
		if err != nil {
			return "", nil, err
		}
		parts[i] = n + ":" + strconv.FormatInt(st.Size(), 10)
	}
	return strings.Join(parts, "+"), names, nil
}

type walFile struct {
	name  string
	bytes []byte
}

func walRead(dir string) ([]walFile, error) {
	names, err := walList(dir)
	if err != nil {
		return nil, err
	}
	var fs []walFile
	for _, n := range names {
		b, err := os.ReadFile(filepath.Join(dir, n))
		if err != nil {
			return nil, err
		}
		fs = append(fs, walFile{n, b})
	}
	return fs, nil
}

func walDirStr(fs []walFile) string {
	parts := make([]string, len(fs))
	for i, f := range fs {
		parts[i] = f.name + ":" + hexs(f.bytes)
	}
	return strings.Join(parts, ";")
}

// the real replayer on a directory: delivered records and the error, if any
// (rbuf = 0: the default reader factory with its 4 MiB buffer per file)
func walReplayReal(dir string, rbuf int) (recs [][]byte, err error) {
	err = safely(func() error {
		wopts := []wal.Option{wal.BasePath(dir)}
		if rbuf != 0 {
			wopts = append(wopts, wal.ReaderFactory(func(path string) (recordio.ReaderI, error) {
				return recordio.NewFileReader(recordio.ReaderPath(path), recordio.ReaderBufferSizeBytes(rbuf))
			}))
		}
		opts, e := wal.NewWriteAheadLogOptions(wopts...)
		if e != nil {
			return e
		}
		rp, e := wal.NewReplayer(opts)
		if e != nil {
			return e
		}
		return rp.Replay(func(record []byte) error {
			if record == nil {
				recs = append(recs, nil)
			} else {
				recs = append(recs, append([]byte{}, record...))
			}
			return nil
		})
	})
	return recs, err
}

var castagnoli = crc32.MakeTable(crc32.Castagnoli)

func recsPrint(recs [][]byte) string {
	parts := make([]string, len(recs))
	for i, p := range recs {
		parts[i] = gb(p)
	}
	return fmt.Sprintf("%d:%d", len(recs), crc32.Checksum([]byte(strings.Join(parts, ",")), castagnoli))
}

func replayStr(recs [][]byte, err error) string {
	if err != nil {
		return recsPrint(recs) + ":err:" + errKind(err)
	}
	return recsPrint(recs) + ":ok"
}

// reference length of one encoded record (independent of the repo's writer)
func refRecordLen(comp int, p []byte) int {
	h := append([]byte{}, magic...)
	stored := 0
	clen := 0
	if c := compressorFor(comp); c != nil {
		st, _ := c.Compress(nonNil(p))
		clen = len(st)
		stored = clen
	} else {
		stored = len(p)
	}
	if p == nil {
		h = append(h, 1)
		stored = 0
	} else {
		h = append(h, 0)
	}
	h = appendUvarint(h, uint64(len(p)))
	h = appendUvarint(h, uint64(clen))
	h = appendUvarint(h, uint64(crc32cRef(h)))
	return len(h) + stored
}

func isPrefixRecs(a, b [][]byte) bool {
	if len(a) > len(b) {
		return false
	}
	for i := range a {
		if gb(a[i]) != gb(b[i]) {
			return false
		}
	}
	return true
}

func sigWal(c *walCase, what string) string {
	return fmt.Sprintf("%s:comp=%d", what, c.comp)
}

type walAppended struct {
	rec    []byte
	file   int // index of the file it went into
	end    int // offset in that file just after the record
	synced bool
}

func runWal(res *Result, drv *Driver, seed uint64, n int, tier string, only int) error {
	base, err := os.MkdirTemp("", "verif-wal-")
	if err != nil {
		return err
	}
	defer os.RemoveAll(base)
	res.Rule = "programs of Append/AppendSync/Rotate x maximum file size (0 ... default) x writer buffer size x compression x base directory names (1-4 levels deep; glob classes [0] [a-c] [!x], ? and *, backslashes, spaces/tab/newline, %, unicode and invalid UTF-8, regexp/shell characters, dots, names ending in .wal; plain in one case of five), then every byte-level cut of every file (sampled for long files); " +
		"n/10 more cases (oracle only) with a writer factory that builds direct-I/O writers (block buffers of 4096 ... 65536 bytes, every compression, every file size limit): Append/AppendSync/Rotate programs, the log replayed after every call as a kill at that instant would leave it and after Close; " +
		"one evaluation = one model comparison or one oracle evaluation; non-trivial = at least one record appended; distinct = distinct (program, options) strings"
	// cases n .. n+n/10-1: logs whose writer factory builds a direct-I/O writer (walDirectOne; generated from a second
	// random stream, the cases 0..n-1 are what they were)
	res.Rule += "; " + walDirectMultiRule
	// cases n+n/10 .. n+n/10+n/20-1: direct-I/O logs whose files receive more than one write buffer (walDirectMultiOne; a
	// third random stream)
	for i := 0; i < n+n/10+n/20; i++ {
		if only >= 0 && i != only {
			continue
		}
		r := NewRng(seed, uint64(i))
		dir := filepath.Join(base, fmt.Sprintf("c%d", i))
		if err := os.Mkdir(dir, 0o755); err != nil {
			return err
		}
		if i >= n+n/10 {
			if err := walDirectMultiOne(res, NewRng(seed^0x6d756c7469626c6b, uint64(i)), i, i-n-n/10, dir, tier); err != nil {
				return err
			}
			_ = os.RemoveAll(dir)
			continue
		}
		if i >= n {
			if err := walDirectOne(res, NewRng(seed^0x646972656374696f, uint64(i)), i, dir, tier); err != nil {
				return err
			}
			_ = os.RemoveAll(dir)
			continue
		}
		if i%150 == 149 {
			// "any number of rotations": more log files than the process may hold open
			if err := walManyFiles(res, drv, r, i, dir); err != nil {
				return err
			}
			_ = os.RemoveAll(dir)
			continue
		}
		c := genWalCase(r, tier)
		// the directory names come from a second generator state (programs and options are those of the plain cases);
		// one case in five keeps the plain names
		if r2 := NewRng(seed^0xd1a9a3e5, uint64(i)); !r2.Chance(20) {
			var cl, cl2 []string
			c.dirName, cl = walGenDirName(r2, "L")
			c.cutName, cl2 = walGenDirName(r2, "C")
			for _, k := range cl {
				res.Stat("dir-name:" + k)
			}
			for _, k := range cl2 {
				res.Stat("cut-dir-name:" + k)
			}
			res.Stat(fmt.Sprintf("dir-name:depth=%d", 1+strings.Count(c.dirName, string(filepath.Separator))))
		} else {
			res.Stat("dir-name:log (fixed plain name)")
		}
		if err := walOne(res, drv, r, c, i, dir, tier); err != nil {
			return err
		}
		_ = os.RemoveAll(dir)
	}
	return nil
}

func walOne(res *Result, drv *Driver, r *Rng, c *walCase, idx int, base string, tier string) error {
	res.Cases++
	cs := c.String()
	res.Stat(fmt.Sprintf("comp=%d", c.comp))
	switch {
	case c.boundary:
		res.Stat("max:at-size-rule-boundary")
	case c.defaultMax:
		res.Stat("max:default")
	case c.max <= 8:
		res.Stat("max:<=header")
	case c.max <= 100:
		res.Stat("max:small")
	default:
		res.Stat("max:large")
	}
	if c.buf == 0 {
		res.Stat("buf:default-4MiB")
	} else if c.buf < 36 {
		res.Stat("buf:<36")
	} else {
		res.Stat("buf:>=36")
	}
	dir := filepath.Join(base, "log")
	if c.dirName != "" {
		dir = filepath.Join(base, c.dirName)
	}
	if err := os.MkdirAll(dir, 0o755); err != nil {
		return err
	}
	opts, err := c.options(dir)
	if err != nil {
		return err
	}
	var w wal.WriteAheadLogI
	if err := safely(func() error { var e error; w, e = wal.NewWriteAheadLog(opts); return e }); err != nil {
		res.Violate(idx, "C07", sigWal(c, "new-failed"), err.Error(), cs)
		return nil
	}
	var sizes []string
	s0, _, err := walSizes(dir)
	if err != nil {
		return err
	}
	sizes = append(sizes, s0)
	var results []string
	var appended []walAppended
	fileEnd := map[int]int{} // logical end offset per file index (reference lengths)
	failed := false
	for oi, o := range c.ops {
		var opErr error
		switch o.kind {
		case "a":
			opErr = safely(func() error { return w.Append(o.rec) })
		case "s":
			opErr = safely(func() error { return w.AppendSync(o.rec) })
		case "r":
			opErr = safely(func() error { _, e := w.Rotate(); return e })
			res.Stat("op:rotate")
		}
		sz, names, err := walSizes(dir)
		if err != nil {
			return err
		}
		sizes = append(sizes, sz)
		if opErr != nil {
			// nothing in these programs comes near the one-million-files guard: a failing call on a healthy
			// file system is outside the model
			res.Violate(idx, "C07", sigWal(c, "op-failed"), fmt.Sprintf("op %d (%s): %v", oi, o.kind, opErr), cs)
			results = append(results, "err:"+errKind(opErr))
			failed = true
			break
		}
		results = append(results, "ok")
		if o.kind == "r" {
			continue
		}
		fi := len(names) - 1
		if _, ok := fileEnd[fi]; !ok {
			fileEnd[fi] = 8
		}
		fileEnd[fi] += refRecordLen(c.comp, o.rec)
		appended = append(appended, walAppended{rec: o.rec, file: fi, end: fileEnd[fi], synced: o.kind == "s"})
		switch {
		case o.rec == nil:
			res.Stat("rec:nil")
		case len(o.rec) == 0:
			res.Stat("rec:empty")
		case !c.defaultMax && uint64(len(o.rec)) > c.max:
			res.Stat("rec:larger-than-max")
		case c.buf != 0 && len(o.rec) > c.buf:
			res.Stat("rec:larger-than-buffer")
		default:
			res.Stat("rec:data")
		}
		if o.kind == "s" {
			res.Stat("op:appendSync")
			// sync_is_durable, observable half: the record is in the file when the call returns
			st, err := os.Stat(filepath.Join(dir, names[fi]))
			if err != nil {
				return err
			}
			res.Evaluations++
			if int(st.Size()) < fileEnd[fi] {
				res.Violate(idx, "C07", sigWal(c, "sync-not-written"), fmt.Sprintf("after AppendSync (op %d) file %s has %d bytes, the record ends at %d", oi, names[fi], st.Size(), fileEnd[fi]), cs)
			}
		} else {
			res.Stat("op:append")
		}
	}
	if failed {
		_ = safely(func() error { return w.Close() })
		return nil
	}
	var want [][]byte
	lastSynced := 0
	for i, a := range appended {
		want = append(want, a.rec)
		if a.synced {
			lastSynced = i + 1
		}
	}
	if len(appended) > 0 {
		res.NoteNontrivial(cs)
	}
	res.Sample(cs)

	// the replayer's readers: the default factory (4 MiB read buffer per file) in a quarter of the cases,
	// small buffers otherwise
	rbuf := r.Pick(bufSizes[:len(bufSizes)-1])
	rbufMain := rbuf
	if r.Chance(25) {
		rbufMain = 0
		res.Stat("replay-reader:default-factory")
	}
	res.Stat(fmt.Sprintf("replay-reader-buffer<36:%v", rbuf < 36))
	// ---- before Close: what is on disk now is what a kill (without power loss) would leave
	pre, err := walRead(dir)
	if err != nil {
		return err
	}
	preRecs, preErr := walReplayReal(dir, rbufMain)
	res.Evaluations++
	if preErr != nil || !isPrefixRecs(preRecs, want) || len(preRecs) < lastSynced {
		res.Violate(idx, "C07", sigWal(c, "replay-before-close"), fmt.Sprintf("replay of the open log: want ok, a prefix of the %d appended records with at least the %d synced ones; got %s", len(want), lastSynced, replayStr(preRecs, preErr)), cs)
	}
	closeErr := safely(func() error { return w.Close() })
	if closeErr != nil {
		res.Violate(idx, "C07", sigWal(c, "close-failed"), closeErr.Error(), cs)
		return nil
	}
	post, err := walRead(dir)
	if err != nil {
		return err
	}
	if len(post) > 1 {
		res.Stat("files:>1")
	} else {
		res.Stat("files:1")
	}
	res.StatN("files", len(post))
	postRecs, postErr := walReplayReal(dir, rbufMain)
	res.Evaluations++
	if postErr != nil || len(postRecs) != len(want) || !isPrefixRecs(postRecs, want) {
		res.Violate(idx, "C07", sigWal(c, "replay-after-close"), fmt.Sprintf("replay of the closed log: want ok and the %d appended records (%s); got %s", len(want), recsPrint(want), replayStr(postRecs, postErr)), cs)
	}
	// the reference lengths must add up to the real file sizes (otherwise the cut oracle below is meaningless)
	for fi, f := range post {
		end, ok := fileEnd[fi]
		if !ok {
			end = 8
		}
		if end != len(f.bytes) {
			return fmt.Errorf("case %d: reference record lengths give %d bytes for %s, the file has %d (%s)", idx, end, f.name, len(f.bytes), cs)
		}
	}

	// ---- model: the same program
	var payloads [][]byte
	for _, o := range c.ops {
		if o.kind != "r" {
			payloads = append(payloads, o.rec)
		}
	}
	oracle := oracleFor(c.comp, payloads)
	buf := c.buf
	if buf == 0 {
		buf = recordio.DefaultBufferSize
	}
	m, err := drv.Ask(fmt.Sprintf("wal.run max=%d buf=%d comp=%d oracle=%s ops=%s", c.max, buf, c.comp, oracle, c.opsString()))
	if err != nil {
		return err
	}
	impl := fmt.Sprintf("res=%s sizes=%s pre=%s close=ok post=%s recs=%s rpre=%s rpost=%s",
		strings.Join(results, ","), strings.Join(sizes, "/"), walDirStr(pre), walDirStr(post), recsPrint(want),
		replayStr(preRecs, preErr), replayStr(postRecs, postErr))
	res.Cmp(idx, "wal.run", m, impl, cs)

	// ---- kills at the byte level: files 0..k with file k cut / absent
	cutDir := filepath.Join(base, "cut")
	if c.cutName != "" {
		cutDir = filepath.Join(base, c.cutName)
	}
	if err := os.MkdirAll(cutDir, 0o755); err != nil {
		return err
	}
	for k, f := range post {
		last := k == len(post)-1
		var cuts []int
		full := len(f.bytes) <= 160 && (last || r.Chance(30)) || tier == "thorough" && len(f.bytes) <= 600
		if full {
			for l := 0; l <= len(f.bytes); l++ {
				cuts = append(cuts, l)
			}
		} else {
			cuts = append(cuts, 0, 7, 8, len(f.bytes))
			for j := 0; j < 8; j++ {
				cuts = append(cuts, r.Intn(len(f.bytes)+1))
			}
			for _, a := range appended {
				if a.file == k && r.Chance(60) {
					cuts = append(cuts, a.end, a.end-1, a.end+1)
				}
			}
		}
		var toks []string
		var implAns []string
		for ci := -1; ci < len(cuts); ci++ {
			cut := -1 // file k absent
			if ci >= 0 {
				cut = cuts[ci]
				if cut < 0 || cut > len(f.bytes) {
					continue
				}
			}
			path := filepath.Join(cutDir, f.name)
			if cut < 0 {
				toks = append(toks, "absent")
				res.Stat("cut:absent")
			} else {
				if err := os.WriteFile(path, f.bytes[:cut], 0o644); err != nil {
					return err
				}
				toks = append(toks, strconv.Itoa(cut))
				switch {
				case cut == 0:
					res.Stat("cut:empty")
				case cut < 8:
					res.Stat("cut:in-file-header")
				case cut == len(f.bytes):
					res.Stat("cut:none")
				default:
					res.Stat("cut:in-records")
				}
			}
			recs, rerr := walReplayReal(cutDir, rbuf)
			// oracle: every record of the files before k, and of file k those that end at or before the cut
			must := 0
			for _, a := range appended {
				if a.file < k || a.file == k && a.end <= cut {
					must++
				}
			}
			res.Evaluations++
			if rerr != nil || !isPrefixRecs(recs, want) || len(recs) < must {
				what := fmt.Sprintf("files 0..%d present, %s cut at %d of %d", k, f.name, cut, len(f.bytes))
				kind := "cut-in-records"
				switch {
				case cut < 0:
					what = fmt.Sprintf("files 0..%d present, %s not created yet", k-1, f.name)
					kind = "cut-absent"
				case cut < 8:
					kind = "cut-in-file-header"
				}
				res.Violate(idx, "C07", sigWal(c, kind), what+fmt.Sprintf(": want ok and a prefix of the appended records with at least the %d completely contained ones; got %s", must, replayStr(recs, rerr)), cs)
			}
			implAns = append(implAns, replayStr(recs, rerr))
		}
		m, err := drv.Ask(fmt.Sprintf("wal.cuts oracle=%s dir=%s file=%d cuts=%s", oracle, walDirStr(post[:k+1]), k, strings.Join(toks, ",")))
		if err != nil {
			return err
		}
		res.Cmp(idx, fmt.Sprintf("wal.cuts(file %d of %d)", k, len(post)), m, strings.Join(implAns, " "), cs+" cuts="+strings.Join(toks, ","))
		// leave file k complete for the next round
		if err := os.WriteFile(filepath.Join(cutDir, f.name), f.bytes, 0o644); err != nil {
			return err
		}
	}

	// ---- outside the property, correspondence only: an EARLIER file cut while later files exist
	if len(post) > 1 {
		k := r.Intn(len(post) - 1)
		f := post[k]
		var toks, implAns []string
		for j := 0; j < 6; j++ {
			cut := r.Intn(len(f.bytes) + 1)
			if err := os.WriteFile(filepath.Join(cutDir, f.name), f.bytes[:cut], 0o644); err != nil {
				return err
			}
			recs, rerr := walReplayReal(cutDir, rbuf)
			toks = append(toks, strconv.Itoa(cut))
			implAns = append(implAns, replayStr(recs, rerr))
			if rerr != nil {
				res.Stat("earlier-file-cut:error:" + errKind(rerr))
			} else {
				res.Stat("earlier-file-cut:ok")
			}
		}
		m, err := drv.Ask(fmt.Sprintf("wal.cuts oracle=%s dir=%s file=%d cuts=%s", oracle, walDirStr(post), k, strings.Join(toks, ",")))
		if err != nil {
			return err
		}
		res.Cmp(idx, "wal.cuts(earlier file, correspondence only)", m, strings.Join(implAns, " "), cs+" file="+strconv.Itoa(k)+" cuts="+strings.Join(toks, ","))
	}
	return nil
}

// walManyFiles: a log of more files than the descriptor limit of the process (the soft RLIMIT_NOFILE is
// lowered for the duration of the case: the property does not depend on how large the limit is).  The files
// are compared byte for byte with the model; the replay under the lowered limit is judged by the property
// oracle only (the model has no descriptor limit).  Regression check for the finding fixed in /repo 17d987b
// (the replayer used to keep every file open until the end: "too many open files").
func walManyFiles(res *Result, drv *Driver, r *Rng, idx int, dir string) error {
	res.Cases++
	res.Stat("many-files-case")
	nrec := 150 + r.Intn(60)
	c := &walCase{comp: 0, buf: 64, max: uint64(r.Intn(9))}
	for i := 0; i < nrec; i++ {
		kind := "a"
		if r.Chance(30) {
			kind = "s"
		}
		c.ops = append(c.ops, walOp{kind, []byte{byte(i), byte(i >> 8)}})
	}
	cs := c.String()
	opts, err := c.options(dir)
	if err != nil {
		return err
	}
	w, err := wal.NewWriteAheadLog(opts)
	if err != nil {
		return err
	}
	var want [][]byte
	for oi, o := range c.ops {
		var e error
		if o.kind == "a" {
			e = safely(func() error { return w.Append(o.rec) })
		} else {
			e = safely(func() error { return w.AppendSync(o.rec) })
		}
		if e != nil {
			res.Violate(idx, "C07", sigWal(c, "op-failed"), fmt.Sprintf("op %d: %v", oi, e), cs)
			_ = w.Close()
			return nil
		}
		want = append(want, o.rec)
	}
	if e := w.Close(); e != nil {
		res.Violate(idx, "C07", sigWal(c, "close-failed"), e.Error(), cs)
		return nil
	}
	post, err := walRead(dir)
	if err != nil {
		return err
	}
	res.StatN("files", len(post))
	// replay with a descriptor limit below the number of files
	var lim syscall.Rlimit
	if err := syscall.Getrlimit(syscall.RLIMIT_NOFILE, &lim); err != nil {
		return err
	}
	low := lim
	low.Cur = 96
	if err := syscall.Setrlimit(syscall.RLIMIT_NOFILE, &low); err != nil {
		return err
	}
	recs, rerr := walReplayReal(dir, 512)
	if err := syscall.Setrlimit(syscall.RLIMIT_NOFILE, &lim); err != nil {
		return err
	}
	res.Evaluations++
	if rerr != nil || len(recs) != len(want) || !isPrefixRecs(recs, want) {
		sig := "many-files:replay-failed"
		if errors.Is(rerr, syscall.EMFILE) {
			sig = "many-files:replay-holds-one-descriptor-per-file"
		}
		res.Violate(idx, "C07", sig, fmt.Sprintf("log of %d files, descriptor limit %d: replay of the closed log must deliver the %d appended records; got %d records, err = %v", len(post), low.Cur, len(want), len(recs), rerr), cs)
	}
	// with the normal limit the same directory replays completely (so the failure above is the limit, nothing else)
	recs2, rerr2 := walReplayReal(dir, 512)
	res.Evaluations++
	if rerr2 != nil || len(recs2) != len(want) || !isPrefixRecs(recs2, want) {
		res.Violate(idx, "C07", sigWal(c, "replay-after-close"), fmt.Sprintf("log of %d files: want the %d appended records; got %s", len(post), len(want), replayStr(recs2, rerr2)), cs)
	}
	m, err := drv.Ask(fmt.Sprintf("wal.run max=%d buf=%d comp=%d oracle= ops=%s", c.max, c.buf, c.comp, c.opsString()))
	if err != nil {
		return err
	}
	// compare the files and the (unlimited) replay with the model
	wantTok := "post=" + walDirStr(post)
	got := ""
	for _, t := range strings.Split(m, " ") {
		if strings.HasPrefix(t, "post=") || strings.HasPrefix(t, "rpost=") {
			got += t + " "
		}
	}
	res.Cmp(idx, "wal.run(many files)", strings.TrimSpace(got), wantTok+" rpost="+replayStr(recs2, rerr2), cs)
	return nil
}

// ---------------------------------------------------------------------------------------------
// direct-I/O logs (C07, oracle only: the model's writer has no block-aligned mode)
//
// The writer factory builds recordio writers with the DirectIO option: records collect in a block-aligned buffer in
// the process, whole buffers are written, the rest (zero padded) on Close / Rotate.  Such a writer refuses
// synchronous writes, so AppendSync may well return an error - then nothing is claimed for that record.  What C07
// says: at every instant (after every call: what is on disk now is what a kill would leave) replay succeeds and
// delivers a prefix of the appended records that holds every record whose AppendSync returned nil; after Close it
// delivers every record whose append returned nil (a record whose append returned an error may be there or not).

type walAttempt struct {
	rec    []byte
	ok     bool // the call returned nil
	synced bool // AppendSync
}

// walMatchAttempts: got is a prefix of the attempted records in order, where records of failed calls may be left out,
// and everything behind the prefix is not in `must` (must[i]: attempt i has to be delivered)
func walMatchAttempts(att []walAttempt, must []bool, got [][]byte) bool {
	memo := map[[2]int]bool{}
	var rec func(i, j int) bool
	rec = func(i, j int) bool {
		if j == len(got) {
			for ; i < len(att); i++ {
				if must[i] {
					return false
				}
			}
			return true
		}
		if i == len(att) {
			return false
		}
		k := [2]int{i, j}
		if v, ok := memo[k]; ok {
			return v
		}
		v := gb(att[i].rec) == gb(got[j]) && rec(i+1, j+1)
		if !v && !att[i].ok {
			v = rec(i+1, j)
		}
		memo[k] = v
		return v
	}
	return rec(0, 0)
}

func walDirectOne(res *Result, r *Rng, idx int, base string, tier string) error {
	res.Cases++
	res.Stat("direct-io-case")
	if ok, err := recordio.IsDirectIOAvailable(); err != nil || !ok {
		res.Stat("direct-io-case:skipped-direct-io-not-available-on-this-file-system")
		return nil
	}
	comp := []int{recordio.CompressionTypeNone, recordio.CompressionTypeSnappy, recordio.CompressionTypeSnappy, recordio.CompressionTypeGZIP, recordio.CompressionTypeLzw}[r.Intn(5)]
	buf := []int{4096, 4096, 4096, 8192, 65536}[r.Intn(5)]
	max := walMaxSizes[r.Intn(len(walMaxSizes))]
	defaultMax := r.Chance(25)
	if r.Chance(35) {
		max = uint64([]int{3000, 5000, 9000, 20000}[r.Intn(4)]) // a few blocks per file
	}
	n := r.Intn(12)
	long := r.Chance(45)
	if long {
		n = 15 + r.Intn(50) // the block buffer is written several times
	}
	if tier == "thorough" && r.Chance(20) {
		n = 60 + r.Intn(200)
	}
	var ops []walOp
	for i := 0; i < n; i++ {
		var p []byte
		switch {
		case long && r.Chance(75):
			p = r.Bytes(40 + r.Intn(900))
		default:
			p = walPayload(r, []int{buf, buf / 2, 36, 127, 128})
		}
		if len(p) >= buf/2 {
			p = p[:buf/2-1] // a record larger than the block buffer would be written from an unaligned address
		}
		switch k := r.Intn(100); {
		case k < 45:
			ops = append(ops, walOp{"a", p})
		case k < 85:
			ops = append(ops, walOp{"s", p})
		default:
			ops = append(ops, walOp{kind: "r"})
		}
	}
	c := &walCase{comp: comp, buf: buf, max: max, defaultMax: defaultMax, ops: ops}
	cs := "direct-io " + c.String()
	res.Stat(fmt.Sprintf("direct-io:comp=%d", comp))
	res.Stat(fmt.Sprintf("direct-io:block-buffer=%d", buf))
	dir := filepath.Join(base, "log")
	if err := os.MkdirAll(dir, 0o755); err != nil {
		return err
	}
	wopts := []wal.Option{wal.BasePath(dir), wal.WriterFactory(func(path string) (recordio.WriterI, error) {
		return recordio.NewFileWriter(recordio.Path(path), recordio.CompressionType(comp), recordio.BufferSizeBytes(buf), recordio.DirectIO())
	})}
	if !defaultMax {
		wopts = append(wopts, wal.MaximumWalFileSizeBytes(max))
	}
	opts, err := wal.NewWriteAheadLogOptions(wopts...)
	if err != nil {
		return err
	}
	var w wal.WriteAheadLogI
	if err := safely(func() error { var e error; w, e = wal.NewWriteAheadLog(opts); return e }); err != nil {
		res.Violate(idx, "C07", sigWal(c, "direct-io:new-failed"), err.Error(), cs)
		return nil
	}
	rbuf := []int{0, 64, 512, 4096}[r.Intn(4)]
	rbufKill := rbuf
	if rbuf == 0 && len(ops) > 12 {
		rbufKill = 4096 // the default reader factory allocates 4 MiB per file and replay: long programs use it after Close only
	}
	var att []walAttempt
	// the log as a kill right now would leave it
	killNow := func(after string) bool {
		got, rerr := walReplayReal(dir, rbufKill)
		res.Evaluations++
		none := make([]bool, len(att))
		synced := make([]bool, len(att))
		ns := 0
		for i, a := range att {
			synced[i] = a.ok && a.synced
			if synced[i] {
				ns++
			}
		}
		switch {
		case rerr != nil:
			res.Violate(idx, "C07", sigWal(c, "direct-io:replay-fails-before-close"), fmt.Sprintf("kill after %s: replay of what is on disk failed: %v", after, rerr), cs)
		case !walMatchAttempts(att, none, got):
			res.Violate(idx, "C07", sigWal(c, "direct-io:replay-not-a-prefix-before-close"), fmt.Sprintf("kill after %s: replay delivered %s, no prefix of the %d appended records", after, recsPrint(got), len(att)), cs)
		case !walMatchAttempts(att, synced, got):
			res.Violate(idx, "C07", sigWal(c, "direct-io:lost-synced-record"), fmt.Sprintf("kill after %s: %d synchronous appends returned nil, replay of what is on disk delivered %d records (%s) which do not hold all of them", after, ns, len(got), recsPrint(got)), cs)
		default:
			if len(got) > 0 {
				res.Stat("direct-io:kill:replay-delivers-records")
			} else {
				res.Stat("direct-io:kill:replay-delivers-nothing")
			}
			return true
		}
		return false
	}
	good := killNow("NewWriteAheadLog")
	for oi, o := range c.ops {
		if !good {
			break
		}
		var opErr error
		switch o.kind {
		case "a":
			opErr = safely(func() error { return w.Append(o.rec) })
		case "s":
			opErr = safely(func() error { return w.AppendSync(o.rec) })
		case "r":
			opErr = safely(func() error { _, e := w.Rotate(); return e })
		}
		what := map[string]string{"a": "append", "s": "appendSync", "r": "rotate"}[o.kind]
		switch {
		case opErr == nil:
			res.Stat("direct-io:" + what + ":ok")
		case errors.Is(opErr, recordio.DirectIOSyncWriteErr):
			res.Stat("direct-io:" + what + ":refused-by-the-direct-io-writer")
		default:
			res.Stat("direct-io:" + what + ":err:" + errKind(opErr))
		}
		if o.kind == "r" {
			if opErr != nil {
				res.Violate(idx, "C07", sigWal(c, "direct-io:rotate-failed"), fmt.Sprintf("op %d: %v", oi, opErr), cs)
				good = false
			}
		} else {
			if opErr != nil && o.kind == "a" {
				// an asynchronous append has no reason to fail here
				res.Violate(idx, "C07", sigWal(c, "direct-io:append-failed"), fmt.Sprintf("op %d: %v", oi, opErr), cs)
				good = false
			}
			att = append(att, walAttempt{rec: o.rec, ok: opErr == nil, synced: o.kind == "s"})
		}
		if good {
			good = killNow(fmt.Sprintf("op %d (%s)", oi, what))
		}
	}
	closeErr := safely(func() error { return w.Close() })
	if !good {
		return nil
	}
	if closeErr != nil {
		res.Violate(idx, "C07", sigWal(c, "direct-io:close-failed"), closeErr.Error(), cs)
		return nil
	}
	nOK := 0
	all := make([]bool, len(att))
	for i, a := range att {
		all[i] = a.ok
		if a.ok {
			nOK++
		}
	}
	if nOK > 0 {
		res.NoteNontrivial(cs)
	}
	if names, err := walList(dir); err == nil {
		res.StatN("direct-io:files", len(names))
	}
	got, rerr := walReplayReal(dir, rbuf)
	res.Evaluations++
	if rerr != nil || !walMatchAttempts(att, all, got) {
		res.Violate(idx, "C07", sigWal(c, "direct-io:replay-after-close"), fmt.Sprintf("replay of the closed log: want ok and the %d records whose append returned nil; got %s", nOK, replayStr(got, rerr)), cs)
	}
	return nil
}

// ---------------------------------------------------------------------------------------------
// direct-I/O logs whose files receive MORE than one write buffer (C07, oracle only)
//
// The block-aligned writer writes its whole buffer every time it is full and once more, zero padded, when the file is
// closed (Close, forced Rotate, size-triggered rotation).  What the last write leaves behind the last record is what the
// replayer has to recognise as the end of the file, and it depends on what the buffer held before: these cases fill the
// buffer k >= 1 times with non-zero bytes and end the file a few bytes (or a few blocks) after a refill.

const walDirectMultiRule = "n/20 more cases (oracle only) with direct-I/O writers whose buffer holds 2 ... 16 blocks: every log file receives more than one buffer of non-zero record bytes and is ended " +
	"(Close / forced Rotate / size-triggered rotation) a few bytes, a few hundred bytes or several blocks after a refill; replayed after every rotation, at sampled instants and after Close"

func walDirectMultiOne(res *Result, r *Rng, idx, j int, base string, tier string) error {
	res.Cases++
	res.Stat("direct-io-multi-case")
	if ok, err := recordio.IsDirectIOAvailable(); err != nil || !ok {
		res.Stat("direct-io-multi-case:skipped-direct-io-not-available-on-this-file-system")
		return nil
	}
	comp := []int{recordio.CompressionTypeNone, recordio.CompressionTypeSnappy, recordio.CompressionTypeGZIP, recordio.CompressionTypeLzw}[j%4]
	buf := []int{8192, 8192, 12288, 16384, 32768, 65536}[r.Intn(6)]
	sizeTriggered := (j/4)%2 == 1
	nFiles := 1 + r.Intn(3)
	kMax := 3
	if buf*kMax > 100000 {
		kMax = 1 + 100000/buf/2
	}
	var ops []walOp
	c := &walCase{comp: comp, buf: buf}
	pickRem := func() (int, string) {
		switch x := r.Intn(100); {
		case x < 40:
			return 1 + r.Intn(24), "a-few-bytes"
		case x < 85 || buf == 8192 && x < 92:
			return 25 + r.Intn(4000), "within-the-first-block"
		case x < 92:
			return 4097 + r.Intn(buf-8192+1), "in-a-middle-block"
		default:
			return buf - 4096 + 1 + r.Intn(4000), "in-the-last-block (control)"
		}
	}
	var endKinds []string
	if sizeTriggered {
		// the limit sits a little behind a multiple of the buffer size: every file is rotated away within the first block
		// after the k-th refill (rule: rotate when Size() + len(record) > limit; records of at most 600 bytes)
		k := 1 + r.Intn(kMax)
		c.max = uint64(k*buf + 700 + r.Intn(1200))
		size := 8
		files := 0
		for files < nFiles {
			p := rioNonZero(r, 40+r.Intn(560))
			if uint64(size+len(p)) > c.max {
				files++
				size = 8
				endKinds = append(endKinds, "size-triggered-rotation")
			}
			size += refRecordLen(comp, p)
			kind := "a"
			if r.Chance(4) {
				kind = "s" // refused by the direct-I/O writer: nothing is written
				size -= refRecordLen(comp, p)
			}
			ops = append(ops, walOp{kind, p})
		}
		res.Stat(fmt.Sprintf("direct-io-multi:size-triggered:limit=%d-buffers+<2KiB", k))
	} else {
		c.max = uint64(1 << 20)
		if r.Chance(30) {
			c.defaultMax = true
			c.max = wal.DefaultMaxWalSize
		}
		for f := 0; f < nFiles; f++ {
			k := 1 + r.Intn(kMax)
			rem, remKind := pickRem()
			recs, end := alignedAim(r, comp, 8, buf, k, rem, buf/2-1)
			for _, p := range recs {
				ops = append(ops, walOp{"a", p})
				if r.Chance(3) {
					ops = append(ops, walOp{"s", rioNonZero(r, 1+r.Intn(100))})
				}
			}
			res.Stat("direct-io-multi:file-ends:" + remKind)
			res.Stat(fmt.Sprintf("direct-io-multi:file-ends-after-buffers=%d", end/buf))
			if f < nFiles-1 {
				ops = append(ops, walOp{kind: "r"})
				endKinds = append(endKinds, "forced-rotation")
			}
		}
	}
	endKinds = append(endKinds, "close")
	for _, k := range endKinds {
		res.Stat("direct-io-multi:file-ended-by:" + k)
	}
	c.ops = ops
	// the case, written out without the megabyte of hex: sizes, and the contents for short programs
	var sb strings.Builder
	fmt.Fprintf(&sb, "direct-io multi-buffer max=%d defaultMax=%v buf=%d (%d blocks) comp=%d ops(kind:payload bytes, non-zero random bytes from the case's random stream)=", c.max, c.defaultMax, buf, buf/4096, comp)
	for i, o := range ops {
		if i > 0 {
			sb.WriteByte(',')
		}
		if o.kind == "r" {
			sb.WriteString("r")
		} else {
			fmt.Fprintf(&sb, "%s:%d", o.kind, len(o.rec))
		}
	}
	cs := sb.String()
	res.Stat(fmt.Sprintf("direct-io-multi:comp=%d", comp))
	res.Stat(fmt.Sprintf("direct-io-multi:block-buffer=%d", buf))
	res.Sample(cs)
	dir := filepath.Join(base, "log")
	if err := os.MkdirAll(dir, 0o755); err != nil {
		return err
	}
	wopts := []wal.Option{wal.BasePath(dir), wal.WriterFactory(func(path string) (recordio.WriterI, error) {
		return recordio.NewFileWriter(recordio.Path(path), recordio.CompressionType(comp), recordio.BufferSizeBytes(buf), recordio.DirectIO())
	})}
	if !c.defaultMax {
		wopts = append(wopts, wal.MaximumWalFileSizeBytes(c.max))
	}
	opts, err := wal.NewWriteAheadLogOptions(wopts...)
	if err != nil {
		return err
	}
	var w wal.WriteAheadLogI
	if err := safely(func() error { var e error; w, e = wal.NewWriteAheadLog(opts); return e }); err != nil {
		res.Violate(idx, "C07", sigWal(c, "direct-io-multi:new-failed"), err.Error(), cs)
		return nil
	}
	rbuf := []int{0, 64, 512, 4096, 65536}[r.Intn(5)]
	rbufKill := rbuf
	if rbuf == 0 {
		rbufKill = 4096
	}
	var att []walAttempt
	filesNow := func() int {
		names, err := walList(dir)
		if err != nil {
			return -1
		}
		return len(names)
	}
	sizesNow := func() string {
		s, _, _ := walSizes(dir)
		return s
	}
	killNow := func(after string) bool {
		got, rerr := walReplayReal(dir, rbufKill)
		res.Evaluations++
		none := make([]bool, len(att))
		switch {
		case rerr != nil:
			res.Violate(idx, "C07", sigWal(c, "direct-io-multi:replay-fails-before-close"), fmt.Sprintf("kill after %s (files on disk: %s): replay of what is on disk failed after %d records: %v", after, sizesNow(), len(got), rerr), cs)
		case !walMatchAttempts(att, none, got):
			res.Violate(idx, "C07", sigWal(c, "direct-io-multi:replay-not-a-prefix-before-close"), fmt.Sprintf("kill after %s (files on disk: %s): replay delivered %s, no prefix of the %d appended records", after, sizesNow(), recsPrint(got), len(att)), cs)
		default:
			return true
		}
		return false
	}
	good := true
	nf := filesNow()
	for oi, o := range ops {
		var opErr error
		switch o.kind {
		case "a":
			opErr = safely(func() error { return w.Append(o.rec) })
		case "s":
			opErr = safely(func() error { return w.AppendSync(o.rec) })
		case "r":
			opErr = safely(func() error { _, e := w.Rotate(); return e })
		}
		what := map[string]string{"a": "append", "s": "appendSync", "r": "rotate"}[o.kind]
		switch {
		case opErr == nil:
			res.Stat("direct-io-multi:" + what + ":ok")
		case o.kind == "s" && errors.Is(opErr, recordio.DirectIOSyncWriteErr):
			res.Stat("direct-io-multi:" + what + ":refused-by-the-direct-io-writer")
		default:
			res.Violate(idx, "C07", sigWal(c, "direct-io-multi:"+what+"-failed"), fmt.Sprintf("op %d (%s of %d bytes): %v", oi, what, len(o.rec), opErr), cs)
			good = false
		}
		if !good {
			break
		}
		if o.kind != "r" {
			att = append(att, walAttempt{rec: o.rec, ok: opErr == nil, synced: o.kind == "s"})
		}
		// what a kill would leave: after every rotation (forced or by the size rule), and at sampled instants
		if n2 := filesNow(); n2 != nf {
			nf = n2
			res.Stat("direct-io-multi:replay-after-rotation")
			good = killNow(fmt.Sprintf("op %d (%s), which rotated the log", oi, what))
		} else if r.Chance(4) {
			good = killNow(fmt.Sprintf("op %d (%s)", oi, what))
		}
		if !good {
			break
		}
	}
	closeErr := safely(func() error { return w.Close() })
	if !good {
		return nil
	}
	if closeErr != nil {
		res.Violate(idx, "C07", sigWal(c, "direct-io-multi:close-failed"), closeErr.Error(), cs)
		return nil
	}
	nOK := 0
	all := make([]bool, len(att))
	for i, a := range att {
		all[i] = a.ok
		if a.ok {
			nOK++
		}
	}
	if nOK > 0 {
		res.NoteNontrivial(cs)
	}
	res.StatN("direct-io-multi:files", filesNow())
	got, rerr := walReplayReal(dir, rbuf)
	res.Evaluations++
	if rerr != nil || !walMatchAttempts(att, all, got) {
		res.Violate(idx, "C07", sigWal(c, "direct-io-multi:replay-after-close"), fmt.Sprintf("replay of the closed log (files: %s): want ok and the %d records whose append returned nil; got %s (%v)", sizesNow(), nOK, replayStr(got, rerr), rerr), cs)
	}
	return nil
}
