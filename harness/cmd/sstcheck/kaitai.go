package main

import (
	"bytes"
	"errors"
	"fmt"
	"io"
	"os"
	"path/filepath"
	"strings"

	"github.com/kaitai-io/kaitai_struct_go_runtime/kaitai"
	"github.com/thomasjungblut/go-sstables/kaitai/gokaitai"
	"github.com/thomasjungblut/go-sstables/recordio"
)

// ---------------------------------------------------------------------------------------------
// stream "kaitai" (C20): record lists x the four compression types, written with the real FileWriter,
// parsed with (a) the repository's Kaitai-generated reader, (b) the native sequential reader (oracle) and
// (c) the Lean interpreter of the regenerated schema (model correspondence).  Cut / magic-damaged /
// direct-I/O padded images are compared between (a) and (c) only (they are outside the property).

// A direct-I/O writer pads the file with zeros; the native reader reads a zero tail as EOF, the generated Kaitai
// reader fails on it (theorem C20.kaitai_rejects_zero_padding).  The property's quantifier names record lists x
// compression types only, so by default this is recorded in the stats ("direct-io:…") and compared with the
// model, not counted as a violation.  Set to true to hold direct-I/O files to the property as well
// (violations get the signature "direct-io-zero-padded-file").
const kaitaiDirectIOInScope = true

// kaitaiErrKind maps errors of the Kaitai runtime onto the model's Err enum
func kaitaiErrKind(err error) string {
	if err == nil {
		return ""
	}
	var ne kaitai.ValidationNotEqualError
	var nep *kaitai.ValidationNotEqualError
	switch {
	case strings.HasPrefix(err.Error(), "PANIC"):
		return "panic"
	case errors.As(err, &ne), errors.As(err, &nep):
		return "magic"
	case errors.Is(err, io.EOF):
		return "eof"
	case errors.Is(err, io.ErrUnexpectedEOF):
		return "ueof"
	}
	return "other"
}

// name of a compression code according to the generated Go reader's constants ("?" = no constant)
func kaitaiEnumName(c gokaitai.RecordioV4_Compression) string {
	switch c {
	case gokaitai.RecordioV4_Compression__None:
		return "none"
	case gokaitai.RecordioV4_Compression__Gzip:
		return "gzip"
	case gokaitai.RecordioV4_Compression__Snappy:
		return "snappy"
	case gokaitai.RecordioV4_Compression__Lzw:
		return "lzw"
	}
	return "?"
}

// name of a compression code according to the writer's own constants
func recordioCompName(ct int) string {
	switch ct {
	case recordio.CompressionTypeNone:
		return "none"
	case recordio.CompressionTypeGZIP:
		return "gzip"
	case recordio.CompressionTypeSnappy:
		return "snappy"
	case recordio.CompressionTypeLzw:
		return "lzw"
	}
	return "?"
}

// runs the repository's generated reader over an image; canonical text in the model's format
func kaitaiReal(image []byte) (string, *gokaitai.RecordioV4, error) {
	return kaitaiRealFrom(bytes.NewReader(image))
}

// the same over an open file, exactly as kaitai/gokaitai/recordio_v4_test.go does it
func kaitaiRealFile(path string) (string, *gokaitai.RecordioV4, error) {
	f, err := os.Open(path)
	if err != nil {
		return "err:open", gokaitai.NewRecordioV4(), err
	}
	defer f.Close()
	return kaitaiRealFrom(f)
}

func kaitaiRealFrom(src io.ReadSeeker) (string, *gokaitai.RecordioV4, error) {
	rio := gokaitai.NewRecordioV4()
	err := safely(func() error { return rio.Read(kaitai.NewStream(src), nil, rio) })
	if err != nil {
		return "err:" + kaitaiErrKind(err), rio, err
	}
	var sb strings.Builder
	fmt.Fprintf(&sb, "ok v=%d c=%d n=%d", rio.FileHeader.Version, int(rio.FileHeader.CompressionType), len(rio.Record))
	for _, rec := range rio.Record {
		var u, c, k int
		err := safely(func() error {
			var e error
			if u, e = rec.UncompressedPayloadLen.Value(); e != nil {
				return e
			}
			if c, e = rec.CompressedPayloadLen.Value(); e != nil {
				return e
			}
			k, e = rec.Crc32Checksum.Value()
			return e
		})
		if err != nil {
			return "err:" + kaitaiErrKind(err), rio, err
		}
		fmt.Fprintf(&sb, " %d:%d:%d:%d:%s", rec.RecordNil, u, c, k, gb(nonNil(rec.Payload)))
	}
	return sb.String(), rio, nil
}

func kaitaiAskModel(res *Result, drv *Driver, idx int, what string, image []byte, impl string, cs string) error {
	m, err := drv.Ask("kaitai.parse file=" + gb(nonNil(image)))
	if err != nil {
		return err
	}
	res.Cmp(idx, what, m, impl, cs)
	return nil
}

type kaitaiCase struct {
	recs [][]byte
	wbuf int
}

func (c *kaitaiCase) str(ct int, extra string) string {
	parts := make([]string, len(c.recs))
	for i, p := range c.recs {
		parts[i] = gb(p)
	}
	return fmt.Sprintf("comp=%d wbuf=%d%s recs=%s", ct, c.wbuf, extra, strings.Join(parts, ","))
}

func genKaitaiCase(r *Rng, tier string) *kaitaiCase {
	c := &kaitaiCase{wbuf: r.Pick(bufSizes)}
	n := r.Intn(9)
	if r.Chance(8) {
		n = 0
	}
	if tier == "thorough" && r.Chance(10) {
		n = 10 + r.Intn(40)
	}
	// sizes around the 1→2 and 2→3 byte varint boundaries and the buffer size
	around := []int{126, 127, 128, 129, 16383, 16384, 16385, c.wbuf, 36}
	for i := 0; i < n; i++ {
		c.recs = append(c.recs, genPayload(r, around))
	}
	if n > 0 && r.Chance(15) { // all nil / all empty lists
		fill := []byte(nil)
		if r.Chance(50) {
			fill = []byte{}
		}
		for i := range c.recs {
			c.recs[i] = fill
		}
	}
	return c
}

// writes recs with the real writer; returns the image and the offset of every record
func kaitaiWrite(path string, ct int, wbuf int, recs [][]byte, direct bool) ([]byte, []uint64, error) {
	opts := []recordio.FileWriterOption{recordio.Path(path), recordio.CompressionType(ct), recordio.BufferSizeBytes(wbuf)}
	if direct {
		opts = append(opts, recordio.DirectIO())
	}
	w, err := recordio.NewFileWriter(opts...)
	if err != nil {
		return nil, nil, fmt.Errorf("NewFileWriter: %w", err)
	}
	if err := w.Open(); err != nil {
		return nil, nil, fmt.Errorf("writer open: %w", err)
	}
	var offs []uint64
	for _, p := range recs {
		off, err := w.Write(p)
		if err != nil {
			_ = w.Close()
			return nil, nil, fmt.Errorf("write: %w", err)
		}
		offs = append(offs, off)
	}
	if err := w.Close(); err != nil {
		return nil, nil, fmt.Errorf("writer close: %w", err)
	}
	image, err := os.ReadFile(path)
	return image, offs, err
}

// the native sequential reader: every record until EOF
func kaitaiNative(path string) ([][]byte, error) {
	rd, err := recordio.NewFileReader(recordio.ReaderPath(path))
	if err != nil {
		return nil, err
	}
	defer rd.Close()
	if err := rd.Open(); err != nil {
		return nil, err
	}
	var out [][]byte
	for {
		var rec []byte
		err := safely(func() error { var e error; rec, e = rd.ReadNext(); return e })
		if errors.Is(err, io.EOF) {
			return out, nil
		}
		if err != nil {
			return out, err
		}
		// ReadNext may hand out a slice of its own buffer
		if rec != nil {
			rec = append([]byte{}, rec...)
		}
		out = append(out, rec)
	}
}

func kaitaiSig(what string, ct int, recs [][]byte) string {
	s := what
	if ct == 0 {
		s += ":uncompressed"
	} else {
		s += ":compressed"
	}
	for _, p := range recs {
		if p == nil {
			return s + ":with-nil-record"
		}
	}
	return s
}

// kaitaiOracle is the property oracle of C20 for one written file: the generated Kaitai reader parses it and
// yields the header the writer wrote and, record by record, what the native reader returns.  tag prefixes the
// violation signature with the class of writer program ("" = append-only).
func kaitaiOracle(res *Result, i int, ct int, tag string, recs [][]byte, cs string, native [][]byte, impl string, rio *gokaitai.RecordioV4, perr error) error {
	res.Evaluations++
	if perr != nil {
		res.Violate(i, "C20", kaitaiSig(tag+"parse-error", ct, recs), "kaitai reader failed: "+impl+" ("+perr.Error()+")", cs)
	} else {
		var bad []string
		if rio.FileHeader.Version != uint32(recordio.CurrentVersion) {
			bad = append(bad, fmt.Sprintf("version %d", rio.FileHeader.Version))
		}
		if int(rio.FileHeader.CompressionType) != ct || kaitaiEnumName(rio.FileHeader.CompressionType) == "?" {
			bad = append(bad, fmt.Sprintf("compression %d (%s), written %d", int(rio.FileHeader.CompressionType), kaitaiEnumName(rio.FileHeader.CompressionType), ct))
		}
		if len(rio.Record) != len(native) {
			bad = append(bad, fmt.Sprintf("%d records, native reader sees %d", len(rio.Record), len(native)))
		} else {
			comp := compressorFor(ct)
			for k, rec := range rio.Record {
				if (rec.RecordNil == 1) != (native[k] == nil) || rec.RecordNil > 1 {
					bad = append(bad, fmt.Sprintf("record %d: nil flag %d, native nil=%v", k, rec.RecordNil, native[k] == nil))
					continue
				}
				if !bytes.Equal(rec.Magic, recordio.MagicNumberSeparatorLongBytes) {
					bad = append(bad, fmt.Sprintf("record %d: magic %x", k, rec.Magic))
				}
				// stored bytes: nothing for nil, raw bytes when uncompressed, compressor output otherwise
				var want []byte
				switch {
				case native[k] == nil:
					want = nil
				case comp == nil:
					want = native[k]
				default:
					st, err := comp.Compress(native[k])
					if err != nil {
						return fmt.Errorf("compress: %w", err)
					}
					want = st
					// independent of the compressor being deterministic: the stored bytes decompress to the record
					back, derr := comp.Decompress(rec.Payload)
					if derr != nil || !bytes.Equal(back, native[k]) {
						bad = append(bad, fmt.Sprintf("record %d: payload does not decompress to the record (%v)", k, derr))
					}
				}
				if !bytes.Equal(rec.Payload, want) {
					bad = append(bad, fmt.Sprintf("record %d: payload %s, stored bytes %s", k, gb(nonNil(rec.Payload)), gb(nonNil(want))))
				}
			}
		}
		if len(bad) > 0 {
			res.Violate(i, "C20", kaitaiSig(tag+"wrong-records", ct, recs), strings.Join(bad, "; "), cs)
		}
	}
	return nil
}

// ---------------------------------------------------------------------------------------------
// writer programs with Seek (the writer's third public call): "every written file" includes files whose writer
// was rewound one, two or three times to the offset of a record that still survives (or to the current end) and
// then wrote less, the same or more than it rolled back.  Offsets of records that were rolled back since are no
// record boundaries any more and are not used (cf. rio.go and DESIGN.md 9.6).  Payloads often end in zero bytes:
// a left-over tail of zeros is read as end of file by the native reader, the schema has no such rule.

type kaitaiSeekOp struct {
	seek   bool
	rec    []byte // write
	choice uint64 // seek: which surviving boundary (resolved while the program runs)
	target uint64 // seek: the resolved offset
}

type kaitaiSeekCase struct {
	wbuf  int
	ops   []kaitaiSeekOp
	seeks int
}

func (c *kaitaiSeekCase) str(ct int) string {
	var sb strings.Builder
	fmt.Fprintf(&sb, "comp=%d wbuf=%d program=", ct, c.wbuf)
	for i, o := range c.ops {
		if i > 0 {
			sb.WriteByte(',')
		}
		if o.seek {
			fmt.Fprintf(&sb, "seek:%d", o.target)
		} else {
			fmt.Fprintf(&sb, "w:%s", gb(o.rec))
		}
	}
	return sb.String()
}

// payload of a seek program: the generic generator, a zero tail appended to half of them
func genKaitaiSeekPayload(r *Rng, around []int, maxLen int) []byte {
	var p []byte
	switch k := r.Intn(100); {
	case k < 35:
		p = genPayload(r, around)
	case k < 70:
		p = r.Bytes(r.Intn(maxLen + 1))
	default:
		p = make([]byte, r.Intn(maxLen+1)) // all zeros
	}
	if len(p) > maxLen {
		p = p[:maxLen]
	}
	if p != nil && r.Chance(50) {
		z := 1 + r.Intn(40)
		if r.Chance(30) {
			z = 1 + r.Intn(600)
		}
		p = append(append([]byte{}, p...), make([]byte, z)...)
	}
	return p
}

func genKaitaiSeekCase(r *Rng, tier string) *kaitaiSeekCase {
	c := &kaitaiSeekCase{wbuf: r.Pick(bufSizes)}
	around := []int{126, 127, 128, 129, c.wbuf, 36}
	maxLen := []int{8, 40, 300, 3000}[r.Intn(4)]
	if tier == "thorough" && r.Chance(10) {
		maxLen = 20000
	}
	for i, n := 0, r.Intn(4); i < n; i++ { // records that stay
		c.ops = append(c.ops, kaitaiSeekOp{rec: genKaitaiSeekPayload(r, around, maxLen)})
	}
	// the record(s) that will be rolled back: mostly one long record
	for i, n := 0, 1+r.Intn(2); i < n; i++ {
		p := genKaitaiSeekPayload(r, around, maxLen)
		if r.Chance(60) {
			p = genKaitaiSeekPayload(r, around, maxLen*2)
		}
		c.ops = append(c.ops, kaitaiSeekOp{rec: p})
	}
	c.seeks = 1 + r.Intn(3)
	for k := 0; k < c.seeks; k++ {
		c.ops = append(c.ops, kaitaiSeekOp{seek: true, choice: r.Next()})
		for i, n := 0, r.Intn(3); i < n; i++ { // nothing, or records of any length relative to what was rolled back
			c.ops = append(c.ops, kaitaiSeekOp{rec: genKaitaiSeekPayload(r, around, maxLen)})
		}
	}
	return c
}

// runs the program with the real writer; returns the image and the records that survive
func kaitaiWriteSeekProgram(res *Result, path string, ct int, c *kaitaiSeekCase) ([]byte, [][]byte, error) {
	w, err := recordio.NewFileWriter(recordio.Path(path), recordio.CompressionType(ct), recordio.BufferSizeBytes(c.wbuf))
	if err != nil {
		return nil, nil, fmt.Errorf("NewFileWriter: %w", err)
	}
	if err := w.Open(); err != nil {
		return nil, nil, fmt.Errorf("writer open: %w", err)
	}
	type sv struct {
		off uint64
		rec []byte
	}
	var surv []sv
	for k := range c.ops {
		o := &c.ops[k]
		if !o.seek {
			off, err := w.Write(o.rec)
			if err != nil {
				_ = w.Close()
				return nil, nil, fmt.Errorf("write: %w", err)
			}
			surv = append(surv, sv{off, o.rec})
			continue
		}
		// target: the offset of a surviving record (the newest ones preferred) or the current end
		switch ch := o.choice % 10; {
		case len(surv) == 0 || ch == 9:
			o.target = w.Size()
			res.Stat("seek-program:seek-to-end")
		case ch < 6:
			o.target = surv[len(surv)-1-int(o.choice/16)%minInt(len(surv), 2)].off
			res.Stat("seek-program:seek-to-one-of-last-two-records")
		default:
			o.target = surv[int(o.choice/16)%len(surv)].off
			res.Stat("seek-program:seek-to-any-surviving-record")
		}
		if err := w.Seek(o.target); err != nil {
			_ = w.Close()
			return nil, nil, fmt.Errorf("seek to the surviving record boundary %d: %w", o.target, err)
		}
		n := 0
		for _, s := range surv {
			if s.off < o.target {
				surv[n] = s
				n++
			}
		}
		surv = surv[:n]
	}
	if err := w.Close(); err != nil {
		return nil, nil, fmt.Errorf("writer close: %w", err)
	}
	image, err := os.ReadFile(path)
	recs := make([][]byte, len(surv))
	for k, s := range surv {
		recs[k] = s.rec
	}
	return image, recs, err
}

func kaitaiSeekPrograms(res *Result, drv *Driver, dir string, seed uint64, i int, tier string) error {
	r := NewRng(seed+0x5eec, uint64(i)+(1<<32))
	c := genKaitaiSeekCase(r, tier)
	// uncompressed (payload bytes are file bytes: zero tails stay zero) and one compressed type
	for _, ct := range []int{0, 1 + r.Intn(3)} {
		path := filepath.Join(dir, fmt.Sprintf("k%d_seek%d.rio", i, ct))
		image, surv, err := kaitaiWriteSeekProgram(res, path, ct, c)
		if err != nil {
			return fmt.Errorf("case %d seek program comp %d: %w", i, ct, err)
		}
		res.Cases++
		cs := c.str(ct)
		res.Stat(fmt.Sprintf("seek-program:seeks=%d", c.seeks))
		res.Stat(fmt.Sprintf("seek-program:comp=%d", ct))
		res.Stat(fmt.Sprintf("seek-program:surviving-records=%d", min(len(surv), 6)))
		if n := len(surv); n > 0 && len(surv[n-1]) > 0 && surv[n-1][len(surv[n-1])-1] == 0 {
			res.Stat("seek-program:last-record-ends-in-zero")
		}
		for _, o := range c.ops {
			if !o.seek && len(o.rec) > 0 && o.rec[len(o.rec)-1] == 0 {
				res.Stat("seek-program:payload-ends-in-zero")
			}
		}
		res.NoteNontrivial("seek:" + cs)
		if ct == 0 {
			res.Sample(cs)
		}
		native, nerr := kaitaiNative(path)
		impl, rio, perr := kaitaiRealFile(path)
		_ = os.Remove(path)
		want := native
		if nerr != nil {
			// C04 territory (rio stream); here the records the program leaves are the reference instead
			res.Stat("seek-program:native-reader-failed")
			want = surv
		} else if len(native) != len(surv) {
			res.Stat("seek-program:native-reader-sees-other-record-count")
		}
		if err := kaitaiOracle(res, i, ct, "seek-rewritten-file:", surv, cs, want, impl, rio, perr); err != nil {
			return err
		}
		if err := kaitaiAskModel(res, drv, i, "kaitai.parse(seek program)", image, impl, cs); err != nil {
			return err
		}
	}
	return nil
}

func runKaitai(res *Result, drv *Driver, seed uint64, n int, tier string, only int) error {
	dir, err := os.MkdirTemp("", "verif-kaitai-")
	if err != nil {
		return err
	}
	defer os.RemoveAll(dir)
	res.Rule = "record lists (nil / empty / marker soup / varint-boundary sizes) x compression 0..3 written by recordio.FileWriter and " +
		"parsed by kaitai/gokaitai, the native reader and the Lean schema interpreter; non-trivial = at least one record; " +
		"distinct = distinct (compression, record list) strings; every second case additionally a writer program with 1..3 Seeks back to surviving record " +
		"offsets (payloads ending in zero bytes, less / as much / more data rewritten), uncompressed and one compressed type, same oracle; " +
		"plus cut, magic-damaged and direct-I/O images (model correspondence only)"

	// ---- every compression code the writer accepts parses and maps to a named constant of the generated reader
	if only < 0 {
		for code := 0; code < 8; code++ {
			path := filepath.Join(dir, fmt.Sprintf("enum%d.rio", code))
			image, _, err := kaitaiWrite(path, code, 4096, nil, false)
			_ = os.Remove(path)
			if err != nil {
				res.Stat(fmt.Sprintf("writer-rejects-code=%d", code))
				continue
			}
			res.Stat(fmt.Sprintf("writer-accepts-code=%d", code))
			res.Cases++
			cs := fmt.Sprintf("comp=%d recs=", code)
			impl, rio, perr := kaitaiReal(image)
			res.Evaluations++
			name := "?"
			if perr != nil {
				res.Violate(-1, "C20", "header-only-file-parse-error", "kaitai reader: "+impl+" ("+perr.Error()+")", cs)
			} else {
				name = kaitaiEnumName(rio.FileHeader.CompressionType)
				if int(rio.FileHeader.CompressionType) != code || name == "?" {
					res.Violate(-1, "C20", "compression-code-unknown-to-schema",
						fmt.Sprintf("writer accepts code %d; generated reader: value %d, named constant %q", code, int(rio.FileHeader.CompressionType), name), cs)
				} else if name != recordioCompName(code) {
					// beyond the statement ("known to the schema"): recorded, not a violation
					res.Stat(fmt.Sprintf("enum-name-differs-from-recordio-constant:%d:%s/%s", code, name, recordioCompName(code)))
				}
			}
			m, err := drv.Ask(fmt.Sprintf("kaitai.enum code=%d", code))
			if err != nil {
				return err
			}
			res.Cmp(-1, "kaitai.enum", m, name, cs)
			if err := kaitaiAskModel(res, drv, -1, "kaitai.parse(header only)", image, impl, cs); err != nil {
				return err
			}
		}
	}

	for i := 0; i < n; i++ {
		if only >= 0 && i != only {
			continue
		}
		r := NewRng(seed, uint64(i))
		c := genKaitaiCase(r, tier)
		for _, p := range c.recs {
			switch {
			case p == nil:
				res.Stat("rec:nil")
			case len(p) == 0:
				res.Stat("rec:empty")
			case len(p) >= 16384:
				res.Stat("rec:len>=16384")
			case len(p) >= 128:
				res.Stat("rec:len>=128")
			default:
				res.Stat("rec:len<128")
			}
		}
		res.Stat(fmt.Sprintf("nrecs=%d", min(len(c.recs), 10)))
		dmgCt := r.Intn(4)
		for ct := 0; ct < 4; ct++ {
			res.Cases++
			res.Stat(fmt.Sprintf("comp=%d", ct))
			cs := c.str(ct, "")
			path := filepath.Join(dir, fmt.Sprintf("k%d_%d.rio", i, ct))
			image, offs, err := kaitaiWrite(path, ct, c.wbuf, c.recs, false)
			if err != nil {
				return fmt.Errorf("case %d comp %d: %w", i, ct, err)
			}
			if len(c.recs) > 0 {
				res.NoteNontrivial(cs)
			}
			if ct == 1 {
				res.Sample(cs)
			}
			native, nerr := kaitaiNative(path)
			impl, rio, perr := kaitaiRealFile(path)
			_ = os.Remove(path)
			if nerr != nil {
				return fmt.Errorf("case %d comp %d: native reader failed on an undamaged file (C04 territory): %w", i, ct, nerr)
			}

			// ---- property oracle (C20) on the implementation
			if err := kaitaiOracle(res, i, ct, "", c.recs, cs, native, impl, rio, perr); err != nil {
				return err
			}
			// ---- model correspondence on the same image
			if err := kaitaiAskModel(res, drv, i, "kaitai.parse", image, impl, cs); err != nil {
				return err
			}

			// ---- outside the property: damaged images, generated reader vs model only
			if ct == dmgCt && len(image) > 0 {
				for k := 0; k < 3; k++ {
					cut := r.Intn(len(image))
					if k == 0 && len(image) > 8 {
						cut = 8 + r.Intn(len(image)-8)
					}
					img := image[:cut]
					implD, _, _ := kaitaiReal(img)
					res.Stat("cut:" + strings.SplitN(implD, " ", 2)[0])
					if err := kaitaiAskModel(res, drv, i, "kaitai.parse(cut)", img, implD, c.str(ct, fmt.Sprintf(" cut=%d", cut))); err != nil {
						return err
					}
				}
				if len(offs) > 0 {
					k := r.Intn(len(offs))
					pos := int(offs[k]) + r.Intn(3)
					img := append([]byte{}, image...)
					img[pos] ^= byte(1 + r.Intn(255))
					implD, _, _ := kaitaiReal(img)
					res.Stat("magic-damage:" + strings.SplitN(implD, " ", 2)[0])
					if err := kaitaiAskModel(res, drv, i, "kaitai.parse(magic damaged)", img, implD, c.str(ct, fmt.Sprintf(" flip@%d", pos))); err != nil {
						return err
					}
				}
			}
		}
		// ---- writer programs with one, two or three Seeks back (own generator state: the cases above stay as they were)
		if i%2 == 0 {
			if err := kaitaiSeekPrograms(res, drv, dir, seed, i, tier); err != nil {
				return err
			}
		}
		// ---- outside the property's quantifier (record lists x compression): a direct-I/O writer pads the file
		// with zeros up to the block size; the native reader treats a zero tail as EOF, the schema has no such rule
		if i%16 == 3 {
			ct := r.Intn(4)
			recs := make([][]byte, len(c.recs))
			for k, p := range c.recs {
				if len(p) >= 2048 {
					p = p[:2047]
				}
				recs[k] = p
			}
			dc := &kaitaiCase{recs: recs, wbuf: 4096}
			path := filepath.Join(dir, fmt.Sprintf("k%d_direct.rio", i))
			image, _, err := kaitaiWrite(path, ct, 4096, recs, true)
			if err != nil {
				res.Stat("direct-io:write-unavailable")
				continue
			}
			native, nerr := kaitaiNative(path)
			_ = os.Remove(path)
			implD, _, _ := kaitaiReal(image)
			res.Stat(fmt.Sprintf("direct-io:kaitai=%s,native-ok=%v,records=%d", strings.SplitN(implD, " ", 2)[0], nerr == nil, len(native)))
			if kaitaiDirectIOInScope {
				res.Evaluations++
				if !strings.HasPrefix(implD, "ok ") || nerr != nil {
					res.Violate(i, "C20", "direct-io-zero-padded-file",
						fmt.Sprintf("image of %d bytes (zero padded to the block size): kaitai reader %s, native reader sees %d records (err %v)", len(image), strings.SplitN(implD, " ", 2)[0], len(native), nerr),
						dc.str(ct, " direct=true"))
				}
			}
			if err := kaitaiAskModel(res, drv, i, "kaitai.parse(direct I/O image)", image, implD, dc.str(ct, " direct=true")); err != nil {
				return err
			}
		}
	}
	return nil
}
