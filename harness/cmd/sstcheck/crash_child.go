package main

// Child modes of the crash-image pipeline (stream "crash", see crash_stream.go).
//
// Everything that runs library code against a directory that may be a crash image runs in a CHILD process of the
// same binary: the library's background flusher/compactor call log.Panicf on errors, which kills the process.
//
//   sstcheck crashchild --dir D --spec FILE [--markfd 3]   run a session program (see crashRunSession)
//   sstcheck crashprobe --dir D --keys hex,hex,... [--markfd 3]
//   sstcheck walprobe   --dir D
//
// Marker protocol (one write call per line, to the marker fd): "B <n>\n" before op n, "E <n> <ok|err:kind> [detail]\n"
// after it.

import (
	"encoding/hex"
	"errors"
	"flag"
	"fmt"
	"hash/fnv"
	"os"
	"strconv"
	"strings"
	"time"

	"github.com/thomasjungblut/go-sstables/recordio"
	"github.com/thomasjungblut/go-sstables/simpledb"
	"github.com/thomasjungblut/go-sstables/wal"
)

var crashChildModes = map[string]func(args []string) int{
	"crashchild": crashChildMain,
	"crashprobe": crashProbeMain,
	"walprobe":   walProbeMain,
}

// ---------------------------------------------------------------------------------------------
// value tokens shared by parent and child: "-" nil, "." empty, hex, or "g<seed>:<len>" (pseudo-random, incompressible)

func crashTok(tok string) ([]byte, error) {
	switch {
	case tok == "-":
		return nil, nil
	case tok == ".":
		return []byte{}, nil
	case strings.HasPrefix(tok, "g"):
		parts := strings.SplitN(tok[1:], ":", 2)
		if len(parts) != 2 {
			return nil, fmt.Errorf("bad generated token %q", tok)
		}
		seed, err := strconv.ParseUint(parts[0], 10, 64)
		if err != nil {
			return nil, err
		}
		n, err := strconv.Atoi(parts[1])
		if err != nil {
			return nil, err
		}
		return crashGenBytes(seed, n), nil
	}
	return hex.DecodeString(tok)
}

func crashGenBytes(seed uint64, n int) []byte {
	r := NewRng(seed, 0x6372617368)
	b := make([]byte, n)
	i := 0
	for ; i+8 <= n; i += 8 {
		v := r.Next()
		b[i], b[i+1], b[i+2], b[i+3], b[i+4], b[i+5], b[i+6], b[i+7] = byte(v), byte(v>>8), byte(v>>16), byte(v>>24), byte(v>>32), byte(v>>40), byte(v>>48), byte(v>>56)
	}
	for ; i < n; i++ {
		b[i] = byte(r.Next())
	}
	return b
}

// crashDigest is the short form values/records are reported in: nil "-", empty ".", short ones in hex, long ones as
// "L<len>:<first 8 bytes>:<fnv64a>"
func crashDigest(b []byte) string {
	if b == nil {
		return "-"
	}
	if len(b) == 0 {
		return "."
	}
	if len(b) <= 48 {
		return hex.EncodeToString(b)
	}
	h := fnv.New64a()
	_, _ = h.Write(b)
	return fmt.Sprintf("L%d:%s:%016x", len(b), hex.EncodeToString(b[:8]), h.Sum64())
}

func crashErrKind(err error) string {
	switch {
	case err == nil:
		return "ok"
	case errors.Is(err, simpledb.ErrNotFound):
		return "err:notfound"
	case errors.Is(err, simpledb.ErrEmptyKeyValue):
		return "err:emptykv"
	case errors.Is(err, simpledb.ErrAlreadyClosed):
		return "err:closed"
	case errors.Is(err, simpledb.ErrNotOpenedYet):
		return "err:notopen"
	case errors.Is(err, simpledb.ErrAlreadyOpen):
		return "err:alreadyopen"
	}
	msg := err.Error()
	switch {
	case strings.Contains(msg, "key was nil"):
		return "err:keynil"
	case strings.Contains(msg, "value was nil"):
		return "err:valuenil"
	case strings.HasPrefix(msg, "PANIC"):
		return "err:panic:" + crashSanitize(msg)
	}
	return "err:other:" + crashSanitize(msg)
}

func crashSanitize(s string) string {
	var sb strings.Builder
	for _, c := range s {
		switch {
		case c == ' ' || c == '\n' || c == '\t':
			sb.WriteByte('_')
		case c < 0x21 || c > 0x7e:
			sb.WriteByte('?')
		default:
			sb.WriteRune(c)
		}
		if sb.Len() > 160 {
			break
		}
	}
	return sb.String()
}

type crashMarker struct{ f *os.File }

func newCrashMarker(fd int) *crashMarker {
	if fd <= 0 {
		return &crashMarker{}
	}
	return &crashMarker{f: os.NewFile(uintptr(fd), "marker")}
}

func (m *crashMarker) line(s string) {
	if m.f != nil {
		_, _ = m.f.Write([]byte(s + "\n")) // one write system call
	}
}

func crashWatchdog(d time.Duration, what string) {
	go func() {
		time.Sleep(d)
		fmt.Fprintf(os.Stderr, "%s: watchdog expired after %v\n", what, d)
		os.Exit(4)
	}()
}

// ---------------------------------------------------------------------------------------------
// crashchild: session programs

type crashSessionState struct {
	dir     string
	db      *simpledb.DB
	wal     wal.WriteAheadLogI
	walOpts *wal.Options
}

func crashParseOpen(args []string) ([]simpledb.ExtraOption, error) {
	opts := []simpledb.ExtraOption{simpledb.DisableCompactions()}
	for _, a := range args {
		kv := strings.SplitN(a, "=", 2)
		if len(kv) != 2 {
			return nil, fmt.Errorf("bad open option %q", a)
		}
		switch kv[0] {
		case "mem", "thr", "max", "rbuf", "wbuf", "async":
			n, err := strconv.ParseUint(kv[1], 10, 64)
			if err != nil {
				return nil, err
			}
			switch kv[0] {
			case "mem":
				opts = append(opts, simpledb.MemstoreSizeBytes(n))
			case "thr":
				opts = append(opts, simpledb.CompactionFileThreshold(int(n)))
			case "max":
				opts = append(opts, simpledb.CompactionMaxSizeBytes(n))
			case "rbuf":
				opts = append(opts, simpledb.ReadBufferSizeBytes(n))
			case "wbuf":
				opts = append(opts, simpledb.WriteBufferSizeBytes(n))
			case "async":
				if n != 0 {
					opts = append(opts, simpledb.EnableAsyncWAL())
				}
			}
		case "ratio":
			f, err := strconv.ParseFloat(kv[1], 32)
			if err != nil {
				return nil, err
			}
			opts = append(opts, simpledb.CompactionRatio(float32(f)))
		default:
			return nil, fmt.Errorf("unknown open option %q", a)
		}
	}
	return opts, nil
}

// crashRunOp executes one op line; the returned string is what follows "E <n> " in the marker.
func (s *crashSessionState) crashRunOp(f []string) (string, error) {
	need := func(n int) error {
		if len(f) != n+1 {
			return fmt.Errorf("op %q needs %d arguments", f[0], n)
		}
		return nil
	}
	needDB := func() error {
		if s.db == nil {
			return fmt.Errorf("op %q without an open database", f[0])
		}
		return nil
	}
	needWal := func() error {
		if s.wal == nil {
			return fmt.Errorf("op %q without an open log", f[0])
		}
		return nil
	}
	switch f[0] {
	case "open":
		opts, err := crashParseOpen(f[1:])
		if err != nil {
			return "", err
		}
		var db *simpledb.DB
		e := safely(func() error {
			var err error
			db, err = simpledb.NewSimpleDB(s.dir, opts...)
			if err != nil {
				return err
			}
			return db.Open()
		})
		if e == nil {
			s.db = db
		}
		return crashErrKind(e), nil
	case "put", "putb":
		if err := need(2); err != nil {
			return "", err
		}
		if err := needDB(); err != nil {
			return "", err
		}
		k, err := crashTok(f[1])
		if err != nil {
			return "", err
		}
		v, err := crashTok(f[2])
		if err != nil {
			return "", err
		}
		e := safely(func() error {
			if f[0] == "put" {
				return s.db.Put(string(k), string(v))
			}
			return s.db.PutBytes(k, v)
		})
		return crashErrKind(e), nil
	case "del", "delb":
		if err := need(1); err != nil {
			return "", err
		}
		if err := needDB(); err != nil {
			return "", err
		}
		k, err := crashTok(f[1])
		if err != nil {
			return "", err
		}
		e := safely(func() error {
			if f[0] == "del" {
				return s.db.Delete(string(k))
			}
			return s.db.DeleteBytes(k)
		})
		return crashErrKind(e), nil
	case "get":
		if err := need(1); err != nil {
			return "", err
		}
		if err := needDB(); err != nil {
			return "", err
		}
		k, err := crashTok(f[1])
		if err != nil {
			return "", err
		}
		var v []byte
		e := safely(func() error {
			var err error
			v, err = s.db.GetBytes(k)
			return err
		})
		if e != nil {
			return crashErrKind(e), nil
		}
		return "ok " + crashDigest(v), nil
	case "rotate":
		if err := needDB(); err != nil {
			return "", err
		}
		return crashErrKind(safely(func() error { return s.db.VerifRotate() })), nil
	case "waitflush":
		if err := needDB(); err != nil {
			return "", err
		}
		return crashErrKind(safely(func() error { s.db.VerifWaitFlushIdle(); return nil })), nil
	case "compact":
		if err := needDB(); err != nil {
			return "", err
		}
		var sel []string
		var repl string
		e := safely(func() error {
			var err error
			sel, repl, err = s.db.VerifCompactOnce()
			return err
		})
		if e != nil {
			return crashErrKind(e), nil
		}
		if len(sel) == 0 {
			return "ok none", nil
		}
		return "ok sel=" + strings.Join(sel, ",") + " repl=" + repl, nil
	case "close":
		if err := needDB(); err != nil {
			return "", err
		}
		e := safely(func() error { return s.db.Close() })
		s.db = nil
		return crashErrKind(e), nil

	// bare write-ahead log (C07); the log lives directly in the session directory
	case "walopen":
		if len(f) < 2 || len(f) > 3 {
			return "", fmt.Errorf("walopen <maxsize> [<bufsize>]")
		}
		maxSize, err := strconv.ParseUint(f[1], 10, 64)
		if err != nil {
			return "", err
		}
		opts := []wal.Option{wal.BasePath(s.dir), wal.MaximumWalFileSizeBytes(maxSize)}
		if len(f) == 3 {
			buf, err := strconv.Atoi(f[2])
			if err != nil {
				return "", err
			}
			if buf > 0 {
				opts = append(opts, wal.WriterFactory(func(path string) (recordio.WriterI, error) {
					return recordio.NewFileWriter(recordio.Path(path), recordio.BufferSizeBytes(buf))
				}))
			}
		}
		e := safely(func() error {
			o, err := wal.NewWriteAheadLogOptions(opts...)
			if err != nil {
				return err
			}
			w, err := wal.NewWriteAheadLog(o)
			if err != nil {
				return err
			}
			s.wal, s.walOpts = w, o
			return nil
		})
		return crashErrKind(e), nil
	case "append", "appendsync":
		if err := need(1); err != nil {
			return "", err
		}
		if err := needWal(); err != nil {
			return "", err
		}
		rec, err := crashTok(f[1])
		if err != nil {
			return "", err
		}
		e := safely(func() error {
			if f[0] == "append" {
				return s.wal.Append(rec)
			}
			return s.wal.AppendSync(rec)
		})
		return crashErrKind(e), nil
	case "walrotate":
		if err := needWal(); err != nil {
			return "", err
		}
		return crashErrKind(safely(func() error { _, err := s.wal.Rotate(); return err })), nil
	case "walclose":
		if err := needWal(); err != nil {
			return "", err
		}
		e := safely(func() error { return s.wal.Close() })
		s.wal = nil
		return crashErrKind(e), nil
	}
	return "", fmt.Errorf("unknown op %q", f[0])
}

func crashChildMain(args []string) int {
	fs := flag.NewFlagSet("crashchild", flag.ExitOnError)
	dir := fs.String("dir", "", "database directory (exists)")
	spec := fs.String("spec", "", "session program")
	markfd := fs.Int("markfd", 3, "marker file descriptor")
	_ = fs.Parse(args)
	crashWatchdog(300*time.Second, "crashchild")
	raw, err := os.ReadFile(*spec)
	if err != nil {
		fmt.Fprintln(os.Stderr, "crashchild:", err)
		return 3
	}
	m := newCrashMarker(*markfd)
	st := &crashSessionState{dir: *dir}
	n := 0
	for _, line := range strings.Split(string(raw), "\n") {
		f := strings.Fields(line)
		if len(f) == 0 || strings.HasPrefix(f[0], "#") {
			continue
		}
		m.line(fmt.Sprintf("B %d", n))
		out, err := st.crashRunOp(f)
		if err != nil {
			fmt.Fprintf(os.Stderr, "crashchild: op %d (%s): %v\n", n, f[0], err)
			return 3
		}
		m.line(fmt.Sprintf("E %d %s", n, out))
		if f[0] == "open" && out != "ok" {
			// the session cannot go on; the parent reports the failed (re)open, this is not a harness problem
			fmt.Fprintf(os.Stderr, "crashchild: op %d: open failed (%s), session ends here\n", n, out)
			return 0
		}
		n++
	}
	return 0
}

// ---------------------------------------------------------------------------------------------
// crashprobe: open the directory with default options, read every key, close. One canonical line on stdout:
//   open=ok|err:<msg> <hexkey>=<digest> ... close=ok|err:<msg>
// Exit status 0 whenever the line was printed.

func crashProbeMain(args []string) int {
	fs := flag.NewFlagSet("crashprobe", flag.ExitOnError)
	dir := fs.String("dir", "", "database directory")
	keys := fs.String("keys", "", "comma separated hex keys")
	markfd := fs.Int("markfd", 0, "marker file descriptor (0 = none)")
	_ = fs.Parse(args)
	go func() {
		time.Sleep(60 * time.Second)
		fmt.Println("open=err:timeout")
		os.Exit(0)
	}()
	m := newCrashMarker(*markfd)
	var db *simpledb.DB
	m.line("B 0")
	e := safely(func() error {
		var err error
		db, err = simpledb.NewSimpleDB(*dir, simpledb.DisableCompactions())
		if err != nil {
			return err
		}
		return db.Open()
	})
	m.line("E 0 " + crashErrKind(e))
	if e != nil {
		fmt.Println("open=" + crashErrKind(e))
		return 0
	}
	var sb strings.Builder
	sb.WriteString("open=ok")
	m.line("B 1")
	if *keys != "" {
		for _, hk := range strings.Split(*keys, ",") {
			k, err := hex.DecodeString(hk)
			if err != nil {
				fmt.Fprintln(os.Stderr, "crashprobe: bad key", hk)
				return 3
			}
			var v []byte
			ge := safely(func() error {
				var err error
				v, err = db.GetBytes(k)
				return err
			})
			switch {
			case ge == nil:
				sb.WriteString(" " + hk + "=" + crashDigest(v))
			case errors.Is(ge, simpledb.ErrNotFound):
				sb.WriteString(" " + hk + "=-")
			default:
				// no message: it carries the path of the (temporary) directory
				kind := crashErrKind(ge)
				if strings.HasPrefix(kind, "err:other") || strings.HasPrefix(kind, "err:panic") {
					fmt.Fprintln(os.Stderr, "crashprobe: get", hk, kind)
					kind = kind[:9]
				}
				sb.WriteString(" " + hk + "=!" + kind)
			}
		}
	}
	m.line("E 1 ok")
	m.line("B 2")
	ce := safely(func() error { return db.Close() })
	m.line("E 2 " + crashErrKind(ce))
	sb.WriteString(" close=" + crashErrKind(ce))
	fmt.Println(sb.String())
	return 0
}

// ---------------------------------------------------------------------------------------------
// walprobe: replay the log in the directory. One line: replay=ok|err:<msg> n=<count> <digest> <digest> ...

func walProbeMain(args []string) int {
	fs := flag.NewFlagSet("walprobe", flag.ExitOnError)
	dir := fs.String("dir", "", "log directory")
	_ = fs.Parse(args)
	go func() {
		time.Sleep(60 * time.Second)
		fmt.Println("replay=err:timeout n=0")
		os.Exit(0)
	}()
	var recs []string
	e := safely(func() error {
		o, err := wal.NewWriteAheadLogOptions(wal.BasePath(*dir))
		if err != nil {
			return err
		}
		r, err := wal.NewReplayer(o)
		if err != nil {
			return err
		}
		return r.Replay(func(record []byte) error {
			recs = append(recs, crashDigest(record))
			return nil
		})
	})
	line := fmt.Sprintf("replay=%s n=%d", crashErrKind(e), len(recs))
	if len(recs) > 0 {
		line += " " + strings.Join(recs, " ")
	}
	fmt.Println(line)
	return 0
}
