package main

// Child modes of the crash-image pipeline (stream "crash", see crash_stream.go).
//
// Everything that runs library code against a directory that may be a crash image runs in a CHILD process of the
// same binary: the library's background flusher/compactor call log.Panicf on errors, which kills the process.
//
//   sstcheck crashchild --dir D --spec FILE [--markfd 3]   run a session program (see crashRunSession)
//   sstcheck crashprobe --dir D --keys hex,hex,... [--markfd 3]
//   sstcheck walprobe   --dir D
//
// Marker protocol (one write call per line, to the marker fd): "B <n>\n" before op n, "E <n> <ok|err:kind> [detail]\n"
// after it.

import (
	"encoding/hex"
	"errors"
	"flag"
	"fmt"
	"hash/fnv"
	"io"
	"os"
	"path/filepath"
	"runtime"
	"strconv"
	"strings"
	"syscall"
	"time"

	"github.com/thomasjungblut/go-sstables/recordio"
	rProto "github.com/thomasjungblut/go-sstables/recordio/proto"
	"github.com/thomasjungblut/go-sstables/simpledb"
	dbproto "github.com/thomasjungblut/go-sstables/simpledb/proto"
	"github.com/thomasjungblut/go-sstables/skiplist"
	"github.com/thomasjungblut/go-sstables/sstables"
	"github.com/thomasjungblut/go-sstables/wal"
	"google.golang.org/protobuf/proto"
)

var crashChildModes = map[string]func(args []string) int{
	"crashchild": crashChildMain,
	"crashprobe": crashProbeMain,
	"walprobe":   walProbeMain,
}

// ---------------------------------------------------------------------------------------------
// value tokens shared by parent and child: "-" nil, "." empty, hex, or "g<seed>:<len>" (pseudo-random, incompressible)

func crashTok(tok string) ([]byte, error) {
	switch {
	case tok == "-":
		return nil, nil
	case tok == ".":
		return []byte{}, nil
	case strings.HasPrefix(tok, "g"):
		parts := strings.SplitN(tok[1:], ":", 2)
		if len(parts) != 2 {
			return nil, fmt.Errorf("bad generated token %q", tok)
		}
		seed, err := strconv.ParseUint(parts[0], 10, 64)
		if err != nil {
			return nil, err
		}
		n, err := strconv.Atoi(parts[1])
		if err != nil {
			return nil, err
		}
		return crashGenBytes(seed, n), nil
	}
	return hex.DecodeString(tok)
}

func crashGenBytes(seed uint64, n int) []byte {
	r := NewRng(seed, 0x6372617368)
	b := make([]byte, n)
	i := 0
	for ; i+8 <= n; i += 8 {
		v := r.Next()
		b[i], b[i+1], b[i+2], b[i+3], b[i+4], b[i+5], b[i+6], b[i+7] = byte(v), byte(v>>8), byte(v>>16), byte(v>>24), byte(v>>32), byte(v>>40), byte(v>>48), byte(v>>56)
	}
	for ; i < n; i++ {
		b[i] = byte(r.Next())
	}
	return b
}

// crashDigest is the short form values/records are reported in: nil "-", empty ".", short ones in hex, long ones as
// "L<len>:<first 8 bytes>:<fnv64a>"
func crashDigest(b []byte) string {
	if b == nil {
		return "-"
	}
	if len(b) == 0 {
		return "."
	}
	if len(b) <= 48 {
		return hex.EncodeToString(b)
	}
	h := fnv.New64a()
	_, _ = h.Write(b)
	return fmt.Sprintf("L%d:%s:%016x", len(b), hex.EncodeToString(b[:8]), h.Sum64())
}

func crashErrKind(err error) string {
	switch {
	case err == nil:
		return "ok"
	case errors.Is(err, simpledb.ErrNotFound):
		return "err:notfound"
	case errors.Is(err, simpledb.ErrEmptyKeyValue):
		return "err:emptykv"
	case errors.Is(err, simpledb.ErrAlreadyClosed):
		return "err:closed"
	case errors.Is(err, simpledb.ErrNotOpenedYet):
		return "err:notopen"
	case errors.Is(err, simpledb.ErrAlreadyOpen):
		return "err:alreadyopen"
	}
	msg := err.Error()
	switch {
	case strings.Contains(msg, "key was nil"):
		return "err:keynil"
	case strings.Contains(msg, "value was nil"):
		return "err:valuenil"
	case strings.HasPrefix(msg, "PANIC"):
		return "err:panic:" + crashSanitize(msg)
	}
	return "err:other:" + crashSanitize(msg)
}

func crashSanitize(s string) string {
	var sb strings.Builder
	for _, c := range s {
		switch {
		case c == ' ' || c == '\n' || c == '\t':
			sb.WriteByte('_')
		case c < 0x21 || c > 0x7e:
			sb.WriteByte('?')
		default:
			sb.WriteRune(c)
		}
		if sb.Len() > 160 {
			break
		}
	}
	return sb.String()
}

type crashMarker struct{ f *os.File }

func newCrashMarker(fd int) *crashMarker {
	if fd <= 0 {
		return &crashMarker{}
	}
	return &crashMarker{f: os.NewFile(uintptr(fd), "marker")}
}

func (m *crashMarker) line(s string) {
	if m.f != nil {
		_, _ = m.f.Write([]byte(s + "\n")) // one write system call
	}
}

func crashWatchdog(d time.Duration, what string) {
	go func() {
		time.Sleep(d)
		fmt.Fprintf(os.Stderr, "%s: watchdog expired after %v\n", what, d)
		os.Exit(4)
	}()
}

// ---------------------------------------------------------------------------------------------
// crashchild: session programs

type crashSessionState struct {
	dir     string
	db      *simpledb.DB
	wal     wal.WriteAheadLogI
	walOpts *wal.Options
}

func crashParseOpen(args []string) ([]simpledb.ExtraOption, error) {
	opts := []simpledb.ExtraOption{simpledb.DisableCompactions()}
	for _, a := range args {
		kv := strings.SplitN(a, "=", 2)
		if len(kv) != 2 {
			return nil, fmt.Errorf("bad open option %q", a)
		}
		switch kv[0] {
		case "mem", "thr", "max", "rbuf", "wbuf", "async":
			n, err := strconv.ParseUint(kv[1], 10, 64)
			if err != nil {
				return nil, err
			}
			switch kv[0] {
			case "mem":
				opts = append(opts, simpledb.MemstoreSizeBytes(n))
			case "thr":
				opts = append(opts, simpledb.CompactionFileThreshold(int(n)))
			case "max":
				opts = append(opts, simpledb.CompactionMaxSizeBytes(n))
			case "rbuf":
				opts = append(opts, simpledb.ReadBufferSizeBytes(n))
			case "wbuf":
				opts = append(opts, simpledb.WriteBufferSizeBytes(n))
			case "async":
				if n != 0 {
					opts = append(opts, simpledb.EnableAsyncWAL())
				}
			}
		case "ratio":
			f, err := strconv.ParseFloat(kv[1], 32)
			if err != nil {
				return nil, err
			}
			opts = append(opts, simpledb.CompactionRatio(float32(f)))
		case "direct":
			// direct=1: the log is written through direct-I/O writers (EnableDirectIOWAL; sessions of
			// crashGenDirectAsyncSession, which the parent generates only where O_DIRECT is available)
			if kv[1] != "0" {
				opts = append(opts, simpledb.EnableDirectIOWAL())
			}
		default:
			return nil, fmt.Errorf("unknown open option %q", a)
		}
	}
	return opts, nil
}

// crashRunOp executes one op line; the returned string is what follows "E <n> " in the marker.
func (s *crashSessionState) crashRunOp(f []string) (string, error) {
	need := func(n int) error {
		if len(f) != n+1 {
			return fmt.Errorf("op %q needs %d arguments", f[0], n)
		}
		return nil
	}
	needDB := func() error {
		if s.db == nil {
			return fmt.Errorf("op %q without an open database", f[0])
		}
		return nil
	}
	needWal := func() error {
		if s.wal == nil {
			return fmt.Errorf("op %q without an open log", f[0])
		}
		return nil
	}
	switch f[0] {
	case "open":
		opts, err := crashParseOpen(f[1:])
		if err != nil {
			return "", err
		}
		var db *simpledb.DB
		e := safely(func() error {
			var err error
			db, err = simpledb.NewSimpleDB(s.dir, opts...)
			if err != nil {
				return err
			}
			return db.Open()
		})
		if e == nil {
			s.db = db
		}
		return crashErrKind(e), nil
	case "put", "putb":
		if err := need(2); err != nil {
			return "", err
		}
		if err := needDB(); err != nil {
			return "", err
		}
		k, err := crashTok(f[1])
		if err != nil {
			return "", err
		}
		v, err := crashTok(f[2])
		if err != nil {
			return "", err
		}
		e := safely(func() error {
			if f[0] == "put" {
				return s.db.Put(string(k), string(v))
			}
			return s.db.PutBytes(k, v)
		})
		return crashErrKind(e), nil
	case "putmany":
		// putmany <seed> <count> <delpct> <vmax> <hexkey,hexkey,...>: the calls of crashBulkSeq back to back
		if err := need(5); err != nil {
			return "", err
		}
		if err := needDB(); err != nil {
			return "", err
		}
		seed, err := strconv.ParseUint(f[1], 10, 64)
		if err != nil {
			return "", err
		}
		var nums [3]int
		for i := range nums {
			if nums[i], err = strconv.Atoi(f[2+i]); err != nil {
				return "", err
			}
		}
		var keys [][]byte
		for _, hk := range strings.Split(f[5], ",") {
			k, err := hex.DecodeString(hk)
			if err != nil {
				return "", err
			}
			keys = append(keys, k)
		}
		if nums[0] < 0 || nums[2] < 1 || len(keys) == 0 || len(keys) > 255 {
			return "", fmt.Errorf("putmany: bad arguments")
		}
		at := -1
		e := safely(func() error {
			for i, in := range crashBulkSeq(seed, nums[0], nums[1], nums[2], len(keys)) {
				k := keys[in.Key]
				var err error
				switch {
				case in.Del && in.Str:
					err = s.db.Delete(string(k))
				case in.Del:
					err = s.db.DeleteBytes(k)
				default:
					v, _ := hex.DecodeString(in.Val)
					if in.Str {
						err = s.db.Put(string(k), string(v))
					} else {
						err = s.db.PutBytes(k, v)
					}
				}
				if err != nil {
					at = i
					return err
				}
			}
			return nil
		})
		if e != nil {
			return fmt.Sprintf("%s at-call=%d", crashErrKind(e), at), nil
		}
		return "ok", nil
	case "del", "delb":
		if err := need(1); err != nil {
			return "", err
		}
		if err := needDB(); err != nil {
			return "", err
		}
		k, err := crashTok(f[1])
		if err != nil {
			return "", err
		}
		e := safely(func() error {
			if f[0] == "del" {
				return s.db.Delete(string(k))
			}
			return s.db.DeleteBytes(k)
		})
		return crashErrKind(e), nil
	case "get":
		if err := need(1); err != nil {
			return "", err
		}
		if err := needDB(); err != nil {
			return "", err
		}
		k, err := crashTok(f[1])
		if err != nil {
			return "", err
		}
		var v []byte
		e := safely(func() error {
			var err error
			v, err = s.db.GetBytes(k)
			return err
		})
		if e != nil {
			return crashErrKind(e), nil
		}
		return "ok " + crashDigest(v), nil
	case "pause":
		// big-log session (crashRunBigLogSession): the process stops itself with all its threads, flusher included; the
		// parent reads the directory - the image a kill at this instant leaves behind - and sends SIGCONT.
		// The signal is directed at the calling thread: it is taken on the way out of this very system call, the
		// thread does not reach user code again before SIGCONT (a process-directed SIGSTOP may be taken by another
		// thread a little later, the program would run on meanwhile).
		runtime.LockOSThread()
		err := syscall.Tgkill(syscall.Getpid(), syscall.Gettid(), syscall.SIGSTOP)
		runtime.UnlockOSThread()
		if err != nil {
			return "", err
		}
		return "ok", nil
	case "rotate":
		if err := needDB(); err != nil {
			return "", err
		}
		return crashErrKind(safely(func() error { return s.db.VerifRotate() })), nil
	case "waitflush":
		if err := needDB(); err != nil {
			return "", err
		}
		return crashErrKind(safely(func() error { s.db.VerifWaitFlushIdle(); return nil })), nil
	case "compact":
		if err := needDB(); err != nil {
			return "", err
		}
		var sel []string
		var repl string
		e := safely(func() error {
			var err error
			sel, repl, err = s.db.VerifCompactOnce()
			return err
		})
		if e != nil {
			return crashErrKind(e), nil
		}
		if len(sel) == 0 {
			return "ok none", nil
		}
		return "ok sel=" + strings.Join(sel, ",") + " repl=" + repl, nil
	case "close":
		if err := needDB(); err != nil {
			return "", err
		}
		e := safely(func() error { return s.db.Close() })
		s.db = nil
		return crashErrKind(e), nil

	// bare write-ahead log (C07); the log lives directly in the session directory
	case "walopen":
		if len(f) < 2 || len(f) > 4 || len(f) == 4 && f[3] != "direct" {
			return "", fmt.Errorf("walopen <maxsize> [<bufsize> [direct]]")
		}
		maxSize, err := strconv.ParseUint(f[1], 10, 64)
		if err != nil {
			return "", err
		}
		opts := []wal.Option{wal.BasePath(s.dir), wal.MaximumWalFileSizeBytes(maxSize)}
		if len(f) == 4 {
			// the writer factory builds direct-I/O writers (block buffer of <bufsize> bytes)
			buf, err := strconv.Atoi(f[2])
			if err != nil || buf <= 0 {
				return "", fmt.Errorf("walopen: bad block buffer size %q", f[2])
			}
			opts = append(opts, wal.WriterFactory(func(path string) (recordio.WriterI, error) {
				return recordio.NewFileWriter(recordio.Path(path), recordio.BufferSizeBytes(buf), recordio.DirectIO())
			}))
		}
		if len(f) == 3 {
			buf, err := strconv.Atoi(f[2])
			if err != nil {
				return "", err
			}
			if buf > 0 {
				opts = append(opts, wal.WriterFactory(func(path string) (recordio.WriterI, error) {
					return recordio.NewFileWriter(recordio.Path(path), recordio.BufferSizeBytes(buf))
				}))
			}
		}
		e := safely(func() error {
			o, err := wal.NewWriteAheadLogOptions(opts...)
			if err != nil {
				return err
			}
			w, err := wal.NewWriteAheadLog(o)
			if err != nil {
				return err
			}
			s.wal, s.walOpts = w, o
			return nil
		})
		return crashErrKind(e), nil
	case "append", "appendsync":
		if err := need(1); err != nil {
			return "", err
		}
		if err := needWal(); err != nil {
			return "", err
		}
		rec, err := crashTok(f[1])
		if err != nil {
			return "", err
		}
		e := safely(func() error {
			if f[0] == "append" {
				return s.wal.Append(rec)
			}
			return s.wal.AppendSync(rec)
		})
		return crashErrKind(e), nil
	case "walrotate":
		if err := needWal(); err != nil {
			return "", err
		}
		return crashErrKind(safely(func() error { _, err := s.wal.Rotate(); return err })), nil
	case "walclose":
		if err := needWal(); err != nil {
			return "", err
		}
		e := safely(func() error { return s.wal.Close() })
		s.wal = nil
		return crashErrKind(e), nil
	}
	return "", fmt.Errorf("unknown op %q", f[0])
}

func crashChildMain(args []string) int {
	fs := flag.NewFlagSet("crashchild", flag.ExitOnError)
	dir := fs.String("dir", "", "database directory (exists)")
	spec := fs.String("spec", "", "session program")
	markfd := fs.Int("markfd", 3, "marker file descriptor")
	_ = fs.Parse(args)
	crashWatchdog(300*time.Second, "crashchild")
	raw, err := os.ReadFile(*spec)
	if err != nil {
		fmt.Fprintln(os.Stderr, "crashchild:", err)
		return 3
	}
	m := newCrashMarker(*markfd)
	st := &crashSessionState{dir: *dir}
	n := 0
	for _, line := range strings.Split(string(raw), "\n") {
		f := strings.Fields(line)
		if len(f) == 0 || strings.HasPrefix(f[0], "#") {
			continue
		}
		m.line(fmt.Sprintf("B %d", n))
		out, err := st.crashRunOp(f)
		if err != nil {
			fmt.Fprintf(os.Stderr, "crashchild: op %d (%s): %v\n", n, f[0], err)
			return 3
		}
		m.line(fmt.Sprintf("E %d %s", n, out))
		if f[0] == "open" && out != "ok" {
			// the session cannot go on; the parent reports the failed (re)open, this is not a harness problem
			fmt.Fprintf(os.Stderr, "crashchild: op %d: open failed (%s), session ends here\n", n, out)
			return 0
		}
		n++
	}
	return 0
}

// ---------------------------------------------------------------------------------------------
// crashprobe: open the directory with default options, read every key, close. One canonical line on stdout:
//   open=ok|err:<msg> <hexkey>=<digest> ... close=ok|err:<msg>
// Exit status 0 whenever the line was printed.

func crashProbeMain(args []string) int {
	fs := flag.NewFlagSet("crashprobe", flag.ExitOnError)
	dir := fs.String("dir", "", "database directory")
	keys := fs.String("keys", "", "comma separated hex keys")
	markfd := fs.Int("markfd", 0, "marker file descriptor (0 = none)")
	abs := fs.Bool("abs", false, "print the abstract disk (fs.recover syntax) before Open and the comparison line after it")
	nocompact := fs.Bool("nocompact", false, "skip the forced compaction cycle after the reads")
	_ = fs.Parse(args)
	go func() {
		time.Sleep(60 * time.Second)
		fmt.Println("open=err:timeout")
		os.Exit(0)
	}()
	if *abs {
		fmt.Println("abs " + crashAbstractDisk(*dir))
	}
	m := newCrashMarker(*markfd)
	var db *simpledb.DB
	m.line("B 0")
	e := safely(func() error {
		var err error
		// the compaction options matter for the forced cycle below only: every table is a candidate
		db, err = simpledb.NewSimpleDB(*dir, simpledb.DisableCompactions(), simpledb.CompactionFileThreshold(0),
			simpledb.CompactionMaxSizeBytes(1<<62))
		if err != nil {
			return err
		}
		return db.Open()
	})
	m.line("E 0 " + crashErrKind(e))
	if e != nil {
		if *abs {
			fmt.Println("cmp open=err")
		}
		fmt.Println("open=" + crashErrKind(e))
		return 0
	}
	var keyList [][]byte
	var hexKeys []string
	if *keys != "" {
		for _, hk := range strings.Split(*keys, ",") {
			k, err := hex.DecodeString(hk)
			if err != nil {
				fmt.Fprintln(os.Stderr, "crashprobe: bad key", hk)
				return 3
			}
			keyList = append(keyList, k)
			hexKeys = append(hexKeys, hk)
		}
	}
	readAll := func(prefix string) (string, []string) {
		var sb strings.Builder
		var full []string
		for i, k := range keyList {
			var v []byte
			ge := safely(func() error {
				var err error
				v, err = db.GetBytes(k)
				return err
			})
			switch {
			case ge == nil:
				sb.WriteString(" " + prefix + hexKeys[i] + "=" + crashDigest(v))
				full = append(full, hex.EncodeToString(v))
			case errors.Is(ge, simpledb.ErrNotFound):
				sb.WriteString(" " + prefix + hexKeys[i] + "=-")
				full = append(full, "-")
			default:
				// no message: it carries the path of the (temporary) directory
				kind := crashErrKind(ge)
				if strings.HasPrefix(kind, "err:other") || strings.HasPrefix(kind, "err:panic") {
					fmt.Fprintln(os.Stderr, "crashprobe: get", hexKeys[i], kind)
					kind = kind[:9]
				}
				sb.WriteString(" " + prefix + hexKeys[i] + "=!" + kind)
				full = append(full, "!"+kind)
			}
		}
		return sb.String(), full
	}
	var sb strings.Builder
	sb.WriteString("open=ok")
	m.line("B 1")
	line, full := readAll("")
	sb.WriteString(line)
	m.line("E 1 ok")
	if *abs {
		names, _, _, _ := db.VerifTables()
		var gens []string
		for _, n := range names {
			gens = append(gens, crashGenOf(n))
		}
		var wals []string
		if entries, err := os.ReadDir(filepath.Join(*dir, simpledb.WriteAheadFolder)); err == nil {
			for _, en := range entries {
				if n, err := strconv.Atoi(strings.TrimSuffix(en.Name(), ".wal")); err == nil {
					wals = append(wals, strconv.Itoa(n))
				}
			}
		}
		fmt.Printf("cmp open=ok tables=%s vals=%s wal=%s\n", strings.Join(gens, ";"), strings.Join(full, ","), strings.Join(wals, ";"))
	}
	if !*nocompact {
		// what a recovery leaves behind must survive a compaction cycle over all tables: it succeeds and reads stay
		m.line("B 2")
		var sel []string
		ce := safely(func() error {
			var err error
			sel, _, err = db.VerifCompactOnce()
			return err
		})
		switch {
		case ce != nil:
			fmt.Fprintln(os.Stderr, "crashprobe: compaction:", ce)
			sb.WriteString(" compact=" + crashErrKind(ce))
		case len(sel) == 0:
			sb.WriteString(" compact=none")
		default:
			sb.WriteString(fmt.Sprintf(" compact=ok:%d", len(sel)))
		}
		line, _ = readAll("after:")
		sb.WriteString(line)
		m.line("E 2 ok")
	}
	m.line("B 3")
	ce := safely(func() error { return db.Close() })
	m.line("E 3 " + crashErrKind(ce))
	sb.WriteString(" close=" + crashErrKind(ce))
	fmt.Println(sb.String())
	return 0
}

// gen number of a table directory name ("sstable_000000000000012" -> "12"), "?" when it is none
func crashGenOf(name string) string {
	name = filepath.Base(name)
	if !strings.HasPrefix(name, simpledb.SSTablePrefix+"_") {
		return "?"
	}
	n, err := strconv.ParseUint(name[len(simpledb.SSTablePrefix)+1:], 10, 64)
	if err != nil {
		return "?"
	}
	return strconv.FormatUint(n, 10)
}

// crashTableDirAbs: the <dir> of the fs.recover grammar for one table directory, computed with the real reader
func crashTableDirAbs(path string) string {
	// since /repo 2cc0c75 recovery discards a table directory whose metadata file exists and is empty without trying
	// to load it: whether it would load (as a "version 0" table showing junk) cannot be observed any more
	if info, err := os.Stat(filepath.Join(path, sstables.MetaFileName)); err == nil && info.Size() == 0 {
		return "partial"
	}
	var cells []string
	scanErr := false
	e := safely(func() error {
		reader, err := sstables.NewSSTableReader(sstables.ReadBasePath(path), sstables.ReadWithKeyComparator(skiplist.BytesComparator{}))
		if err != nil {
			return err
		}
		defer func() { _ = reader.Close() }()
		it, err := reader.Scan()
		if err != nil {
			scanErr = true
			return nil
		}
		for n := 0; n < 1000000; n++ {
			k, v, err := it.Next()
			if errors.Is(err, sstables.Done) {
				break
			}
			if err != nil {
				scanErr = true
				return nil
			}
			cells = append(cells, hex.EncodeToString(k)+"="+gb(v))
		}
		return nil
	})
	if e != nil {
		info, err := os.Stat(filepath.Join(path, sstables.MetaFileName))
		if err != nil || info.Size() == 0 {
			return "partial"
		}
		return "partialmeta"
	}
	if scanErr {
		return "UNSCANNABLE" // loads, but its records cannot be listed: outside of what the grammar can say
	}
	return strings.Join(cells, ";")
}

// crashAbstractDisk: "tables=.. wal=.. comps=.. waldir=.." in the syntax of the Lean driver command fs.recover
func crashAbstractDisk(dir string) string {
	var tables, comps, wals, other []string
	entries, err := os.ReadDir(dir)
	if err != nil {
		return "UNREADABLE"
	}
	waldir := 0
	compID := 0
	for _, en := range entries { // sorted by name
		name := en.Name()
		switch {
		case en.IsDir() && name == simpledb.WriteAheadFolder:
			waldir = 1
		case en.IsDir() && strings.HasPrefix(name, simpledb.SSTableCompactionPathPrefix):
			compID++
			flag := "-"
			_ = safely(func() error {
				metaPath := filepath.Join(dir, name, simpledb.CompactionFinishedSuccessfulFileName)
				if _, err := os.Stat(metaPath); err != nil {
					return err
				}
				reader, err := rProto.NewReader(rProto.ReaderPath(metaPath))
				if err != nil {
					return err
				}
				defer func() { _ = reader.Close() }()
				if err := reader.Open(); err != nil {
					return err
				}
				meta := &dbproto.CompactionMetadata{}
				if _, err := reader.ReadNext(meta); err != nil {
					return err
				}
				var ins []string
				for _, p := range meta.SstablePaths {
					ins = append(ins, crashGenOf(p))
				}
				flag = strings.Join(ins, "+") + ">" + crashGenOf(meta.ReplacementPath)
				return nil
			})
			comps = append(comps, fmt.Sprintf("%d:%s:%s", compID, crashTableDirAbs(filepath.Join(dir, name)), flag))
		case en.IsDir() && strings.HasPrefix(name, simpledb.SSTablePrefix+"_") && crashGenOf(name) != "?":
			tables = append(tables, crashGenOf(name)+":"+crashTableDirAbs(filepath.Join(dir, name)))
		default:
			other = append(other, name)
		}
	}
	if waldir == 1 {
		wentries, _ := os.ReadDir(filepath.Join(dir, simpledb.WriteAheadFolder))
		for _, en := range wentries {
			num, err := strconv.Atoi(strings.TrimSuffix(en.Name(), ".wal"))
			if err != nil || en.IsDir() || !strings.HasSuffix(en.Name(), ".wal") {
				other = append(other, "wal/"+en.Name())
				continue
			}
			header, torn := "H", "C"
			var muts []string
			_ = safely(func() error {
				reader, err := recordio.NewFileReaderWithPath(filepath.Join(dir, simpledb.WriteAheadFolder, en.Name()))
				if err != nil {
					header = "N"
					return nil
				}
				defer func() { _ = reader.Close() }()
				if err := reader.Open(); err != nil {
					header = "N"
					return nil
				}
				for {
					rec, err := reader.ReadNext()
					if errors.Is(err, io.EOF) && !errors.Is(err, io.ErrUnexpectedEOF) {
						return nil
					}
					if err != nil {
						torn = "T"
						return nil
					}
					mut := &dbproto.WalMutation{}
					if err := proto.Unmarshal(rec, mut); err != nil {
						muts = append(muts, "UNPARSABLE")
						continue
					}
					switch u := mut.Mutation.(type) {
					case *dbproto.WalMutation_Addition:
						k, v := u.Addition.KeyBytes, u.Addition.ValueBytes
						if len(k) == 0 {
							k, v = []byte(u.Addition.Key), []byte(u.Addition.Value)
						}
						muts = append(muts, "p."+hex.EncodeToString(k)+"."+hex.EncodeToString(v))
					case *dbproto.WalMutation_DeleteTombStone:
						k := u.DeleteTombStone.KeyBytes
						if len(k) == 0 {
							k = []byte(u.DeleteTombStone.Key)
						}
						muts = append(muts, "d."+hex.EncodeToString(k))
					default:
						muts = append(muts, "UNPARSABLE")
					}
				}
			})
			if header == "N" {
				torn = "C"
				if info, err := en.Info(); err == nil && info.Size() > 0 {
					torn = "T"
				}
			}
			wals = append(wals, fmt.Sprintf("%d:%s:%s:%s", num, header, torn, strings.Join(muts, ";")))
		}
	}
	line := fmt.Sprintf("tables=%s wal=%s comps=%s waldir=%d", strings.Join(tables, ","), strings.Join(wals, ","), strings.Join(comps, ","), waldir)
	if len(other) > 0 {
		line += " OTHER=" + strings.Join(other, ",")
	}
	return line
}

// ---------------------------------------------------------------------------------------------
// walprobe: replay the log in the directory. One line: replay=ok|err:<msg> n=<count> <digest> <digest> ...

func walProbeMain(args []string) int {
	fs := flag.NewFlagSet("walprobe", flag.ExitOnError)
	dir := fs.String("dir", "", "log directory")
	_ = fs.Parse(args)
	go func() {
		time.Sleep(60 * time.Second)
		fmt.Println("replay=err:timeout n=0")
		os.Exit(0)
	}()
	var recs []string
	e := safely(func() error {
		o, err := wal.NewWriteAheadLogOptions(wal.BasePath(*dir))
		if err != nil {
			return err
		}
		r, err := wal.NewReplayer(o)
		if err != nil {
			return err
		}
		return r.Replay(func(record []byte) error {
			recs = append(recs, crashDigest(record))
			return nil
		})
	})
	line := fmt.Sprintf("replay=%s n=%d", crashErrKind(e), len(recs))
	if len(recs) > 0 {
		line += " " + strings.Join(recs, " ")
	}
	fmt.Println(line)
	return 0
}

// crashWalPutRecordLen: the bytes one PutBytes(key, value) adds to the log file of the database (record header + snappy
// compressed WalMutation), computed with the reference record length of the wal stream.  Used by the generator of the
// direct-I/O sessions to aim the end of a log file at a position relative to the 4 MiB write buffer; a miss only moves
// the aim (the statistics report where the files really ended).
func crashWalPutRecordLen(key, value []byte) int {
	b, err := proto.Marshal(&dbproto.WalMutation{Mutation: &dbproto.WalMutation_Addition{Addition: &dbproto.UpsertMutation{KeyBytes: key, ValueBytes: value}}})
	if err != nil {
		return len(key) + len(value) + 32
	}
	return refRecordLen(recordio.CompressionTypeSnappy, b)
}
