package main

import (
	"bytes"
	"encoding/binary"
	"errors"
	"fmt"
	"io"
	"os"
	"path/filepath"
	"strconv"
	"strings"
	"syscall"
	"unsafe"

	"github.com/thomasjungblut/go-sstables/recordio"
)

// ---------------------------------------------------------------------------------------------
// stream "bufr": the buffered reader stack under the RecordIO file reader (lean/SST/Model/BufReader.lean)
//
// Part A: call sequences (ReadByte / io.ReadFull / Read / io.ReadAll) on
//         NewCountingByteReader(NewReaderBuf(schedReader, make([]byte, cap))) where the underlying reader hands
//         out its bytes according to a schedule (short reads, empty reads, EOF together with the last bytes).
// Part B: whole files (V4 written by the real writer, hand-made V3/V2 files, damaged variants) through
//         recordio.NewFileReader, either over the real *os.File or over a scheduled reader supplied through
//         ReaderIoFactory; programs of ReadNext/SkipNext that go on after errors.
// Both parts compare with the Lean model token by token; independent property oracles (C04) check that the
// bytes delivered are exactly the bytes of the underlying reader, in order, nothing lost or duplicated, and
// that undamaged files give back exactly the records written.

func init() {
	streams["bufr"] = runBufr
}

// the scheduled underlying reader: mirrors `Under.read` of the model
type schedReader struct {
	data    []byte
	pos     int
	sched   []int
	si      int
	eofData bool
	reqs    []int // len(p) of every Read call received (the model keeps the same log)
}

func (s *schedReader) Read(p []byte) (int, error) {
	n := len(p)
	s.reqs = append(s.reqs, n)
	if s.si < len(s.sched) {
		l := s.sched[s.si]
		s.si++
		if l == 0 {
			return 0, nil
		}
		if l < n {
			n = l
		}
	}
	if s.pos == len(s.data) {
		return 0, io.EOF
	}
	k := len(s.data) - s.pos
	if n < k {
		k = n
	}
	copy(p, s.data[s.pos:s.pos+k])
	s.pos += k
	if s.eofData && s.pos == len(s.data) {
		return k, io.EOF
	}
	return k, nil
}

// error kinds of this stream ("-" = no error)
func bufrErrKind(err error) string {
	if err == nil {
		return "-"
	}
	switch {
	case strings.HasPrefix(err.Error(), "PANIC:"):
		return "panic"
	case errors.Is(err, io.EOF):
		return "eof"
	case errors.Is(err, io.ErrUnexpectedEOF):
		return "ueof"
	case errors.Is(err, io.ErrNoProgress):
		return "noprogress"
	}
	return errKind(err)
}

// no run of >= 100 consecutive empty reads: ReadByte can then never report io.ErrNoProgress
func noStall(sched []int) bool {
	run := 0
	for _, l := range sched {
		if l == 0 {
			run++
			if run >= 100 {
				return false
			}
		} else {
			run = 0
		}
	}
	return true
}

// wire format of a schedule: `l` or `lxk`
func schedWire(sched []int) string {
	var parts []string
	for i := 0; i < len(sched); {
		j := i
		for j < len(sched) && sched[j] == sched[i] {
			j++
		}
		if j-i == 1 {
			parts = append(parts, strconv.Itoa(sched[i]))
		} else {
			parts = append(parts, fmt.Sprintf("%dx%d", sched[i], j-i))
		}
		i = j
	}
	return strings.Join(parts, ",")
}

// the growth of append inside io.ReadAll, observed by doing exactly what io.ReadAll does
func bufrGrowTable() string {
	var parts []string
	b := make([]byte, 0, 512)
	for {
		b = b[:cap(b)]
		c0 := cap(b)
		b = append(b, 0)[:len(b)]
		parts = append(parts, fmt.Sprintf("%d:%d", c0, cap(b)))
		if cap(b) > 400000 {
			break
		}
	}
	return strings.Join(parts, ",")
}

// the largest offset lseek accepts for a file in dir (file-system dependent: 2^63-1 on tmpfs, about 2^44 on ext4);
// the model takes it as data
func bufrMaxSeek(dir string) (uint64, error) {
	f, err := os.CreateTemp(dir, "seekprobe")
	if err != nil {
		return 0, err
	}
	defer os.Remove(f.Name())
	defer f.Close()
	ok := func(off uint64) bool {
		_, err := f.Seek(int64(off), 0)
		return err == nil
	}
	hi := uint64(1<<63 - 1)
	if ok(hi) {
		return hi, nil
	}
	lo := uint64(0) // invariant: ok(lo), !ok(hi)
	for hi-lo > 1 {
		mid := lo + (hi-lo)/2
		if ok(mid) {
			lo = mid
		} else {
			hi = mid
		}
	}
	return lo, nil
}

var bufrMaxOff uint64
var bufrDirectOK bool
var bufrDirectAlignment int


// the REAL direct-I/O factory; it only remembers the *os.File it opened, so that the harness can look at the file offset
type bufrDirectFactory struct {
	file *os.File
}

func (f *bufrDirectFactory) CreateNewReader(path string, bufSize int) (*os.File, recordio.ByteReaderResetCount, error) {
	file, rd, err := recordio.DirectIOFactory{}.CreateNewReader(path, bufSize)
	f.file = file
	return file, rd, err
}

func (f *bufrDirectFactory) CreateNewWriter(path string, bufSize int) (*os.File, recordio.WriteSeekerCloserFlusher, error) {
	return recordio.DirectIOFactory{}.CreateNewWriter(path, bufSize)
}

// the file offset alignment O_DIRECT reads need on the file system of dir (the logical block size), found by trying:
// the smallest power of two >= 512 at which a read into an aligned block succeeds. 0 = could not be determined.
func bufrDirectAlign(dir string) int {
	path := filepath.Join(dir, "alignprobe")
	if err := os.WriteFile(path, make([]byte, 1<<16), 0o644); err != nil {
		return 0
	}
	defer os.Remove(path)
	f, err := os.OpenFile(path, os.O_RDONLY|syscall.O_DIRECT, 0)
	if err != nil {
		return 0
	}
	defer f.Close()
	raw := make([]byte, 3*4096)
	shift := int((4096 - uintptr(unsafe.Pointer(&raw[0]))%4096) % 4096)
	block := raw[shift : shift+4096]
	for a := 512; a <= 4096; a *= 2 {
		if _, err := f.Seek(int64(a), 0); err != nil {
			return 0
		}
		if _, err := f.Read(block); err == nil {
			return a
		}
	}
	return 0
}

func bufrIsEINVAL(err error) bool {
	return err != nil && (errors.Is(err, syscall.EINVAL) || strings.Contains(err.Error(), "invalid argument"))
}

// io.ReadAll, statement by statement (same buffer growth, hence the same sequence of Read calls), with a guard: a reader
// that claims to have delivered far more than the underlying data holds (a defect, not a property of the unchanged code)
// must not make the harness allocate without bound
func bufrReadAll(r io.Reader, limit int) ([]byte, error) {
	b := make([]byte, 0, 512)
	for {
		n, err := r.Read(b[len(b):cap(b)])
		b = b[:len(b)+n]
		if err != nil {
			if err == io.EOF {
				err = nil
			}
			return b, err
		}
		if len(b) > limit {
			return b, errors.New("bufr: ReadAll overrun: the reader delivered more bytes than the underlying reader holds")
		}
		if len(b) == cap(b) {
			b = append(b, 0)[:len(b)]
		}
	}
}

// at most maxZeros empty reads in the whole schedule (the rest is dropped)
func bufrLimitZeros(sched []int, maxZeros int) []int {
	out := make([]int, 0, len(sched))
	z := 0
	for _, l := range sched {
		if l == 0 {
			z++
			if z > maxZeros {
				continue
			}
		}
		out = append(out, l)
	}
	return out
}

func bufrCapClass(c int) string {
	switch {
	case c == 0:
		return "0"
	case c <= 3:
		return "1-3"
	case c <= 65:
		return "4-65"
	case c <= 513:
		return "66-513"
	case c <= 4097:
		return "514-4097"
	}
	return "big"
}

// schedule generator; the second result says whether a stalling run (>= 100 empty reads) was put in on purpose
func bufrGenSched(r *Rng, capv int) ([]int, bool) {
	if r.Chance(12) {
		return nil, false
	}
	stallCase := r.Chance(6)
	var s []int
	nonzero := func() int { return 1 + r.Intn(capv+2) }
	nseg := r.Intn(13)
	for i := 0; i < nseg; i++ {
		switch k := r.Intn(100); {
		case k < 35: // short limits
			l := nonzero()
			for j := 1 + r.Intn(4); j > 0; j-- {
				s = append(s, l)
			}
		case k < 50: // exactly the capacity and its neighbours
			l := capv + r.Intn(3) - 1
			if l < 1 {
				l = 1
			}
			for j := 1 + r.Intn(2); j > 0; j-- {
				s = append(s, l)
			}
		case k < 60: // large limits
			s = append(s, 2*capv+1+r.Intn(1000))
		case k < 66:
			s = append(s, 1)
		default: // runs of empty reads
			var run int
			if stallCase && r.Chance(50) {
				run = r.Pick([]int{100, 101, 150})
			} else {
				run = r.Pick([]int{1, 1, 2, 3, 50, 98, 99})
			}
			if !stallCase && len(s) > 0 && s[len(s)-1] == 0 {
				s = append(s, nonzero()) // keep separately generated runs apart
			}
			for j := 0; j < run; j++ {
				s = append(s, 0)
			}
		}
	}
	return s, stallCase
}

func bufrSchedStats(res *Result, part string, sched []int, eofData bool) {
	if len(sched) == 0 {
		res.Stat(part + ":sched:empty")
	} else {
		hasZero := false
		for _, l := range sched {
			if l == 0 {
				hasZero = true
			}
		}
		if hasZero {
			res.Stat(part + ":sched:has-zero-run")
		} else {
			res.Stat(part + ":sched:short-reads-only")
		}
		if !noStall(sched) {
			res.Stat(part + ":sched:stall>=100")
		}
	}
	if eofData {
		res.Stat(part + ":sched:eofdata")
	}
}

func runBufr(res *Result, drv *Driver, seed uint64, n int, tier string, only int) error {
	dir, err := os.MkdirTemp("", "verif-bufr-")
	if err != nil {
		return err
	}
	defer os.RemoveAll(dir)
	res.Rule = "part A: call sequences (ReadByte/ReadFull/Read/ReadAll) x buffer capacity x read schedule of the underlying reader " +
		"(short reads, empty reads, stalls, EOF with data); part B: V4/V3/V2 files (intact, cut, zero/garbage tail, damaged headers) x " +
		"reader (os file | scheduled reader through ReaderIoFactory, NewReaderBuf or NewAlignedReaderBuf | additionally always the real DirectIOFactory reader with 4096/8192/65536 byte buffers, records larger than the buffer included) x capacity x ReadNext/SkipNext programs that go on after errors; " +
		"non-trivial = at least one call returned data (A) / at least one record was returned (B); distinct = distinct driver lines. " +
		"Every fourth index also reads a hand-made V1 file (intact, cut, zero/garbage tail; oracles only, the model has no V1 reader). " +
		"C12 oracle on every cut / tail-damaged file of every version: the records returned before the first error are the genuine records wholly inside the remaining bytes, in order, byte for byte"
	grow := bufrGrowTable()
	maxSeek, err := bufrMaxSeek(dir)
	if err != nil {
		return err
	}
	bufrMaxOff = maxSeek
	bufrDirectOK, err = recordio.IsDirectIOAvailable()
	if err != nil {
		bufrDirectOK = false
	}
	if bufrDirectOK {
		bufrDirectAlignment = bufrDirectAlign(dir)
		if bufrDirectAlignment == 0 {
			bufrDirectOK = false
		}
	}
	grow = fmt.Sprintf("%s maxoff=%d", grow, maxSeek) // both are environment facts passed on every line
	for i := 0; i < n; i++ {
		if only >= 0 && i != only {
			continue
		}
		r := NewRng(seed, uint64(i))
		res.Cases++
		if r.Chance(55) {
			res.Stat("part:A")
			if err := bufrCallsOne(res, drv, r, i, tier, grow); err != nil {
				return err
			}
		} else {
			res.Stat("part:B")
			if err := bufrFileOne(res, drv, r, i, tier, grow, dir, false); err != nil {
				return err
			}
		}
		// every fourth index also reads a hand-made VERSION 1 file (fixed 20 byte record headers; the readers still support
		// the format, the model does not: property oracles only). Generator state of its own.
		if i%4 == 3 {
			res.Cases++
			res.Stat("part:B:v1-file")
			if err := bufrFileOne(res, drv, NewRng(seed^0x7631636f6d706174, uint64(i)), i, tier, grow, dir, true); err != nil {
				return err
			}
		}
	}
	return nil
}

// ---------------------------------------------------------------------------------------------
// part A

var bufrCapsA = []int{1, 2, 3, 7, 8, 15, 16, 17, 31, 32, 33, 63, 64, 65, 127, 128, 129, 511, 512, 513, 4095, 4096, 4097, 65536}

func bufrCallsOne(res *Result, drv *Driver, r *Rng, idx int, tier string, grow string) error {
	thorough := tier == "thorough"
	capv := r.Pick(bufrCapsA)
	if r.Chance(2) {
		capv = 0
	}
	ecap := capv // the capacity the reader really has
	if ecap == 0 {
		ecap = 16
	}
	var dl int
	switch {
	case r.Chance(8):
		dl = 0
	case capv == 65536:
		if r.Chance(30) || (thorough && r.Chance(30)) {
			dl = r.Intn(70001)
		} else {
			dl = r.Intn(300)
		}
	case capv >= 4095:
		if r.Chance(50) {
			dl = r.Intn(10001)
		} else {
			dl = r.Intn(300)
		}
	default:
		dl = r.Intn(3*ecap + 6)
	}
	data := r.Bytes(dl)
	sched, _ := bufrGenSched(r, capv)
	eofData := r.Chance(15)
	ns := noStall(sched)

	// calls
	ncalls := 1 + r.Intn(30)
	if thorough && r.Chance(20) {
		ncalls = 1 + r.Intn(60)
	}
	if capv >= 4095 {
		ncalls = 1 + r.Intn(8)
	}
	rem := dl
	bigCalls := 0
	pickN := func() int {
		c := []int{0, 1, 2, 3, ecap - 1, ecap, ecap + 1, 2*ecap + 1, r.Intn(20), r.Intn(20), rem - 1, rem, rem + 1}
		v := c[r.Intn(len(c))]
		if v < 0 {
			v = 0
		}
		if v >= 4000 {
			bigCalls++
			if bigCalls > 3 {
				v = r.Intn(20)
			}
		}
		return v
	}
	var calls []string
	for j := 0; j < ncalls; j++ {
		switch k := r.Intn(100); {
		case k < 40:
			calls = append(calls, "b")
			if rem > 0 {
				rem--
			}
		case k < 67:
			v := pickN()
			calls = append(calls, fmt.Sprintf("f:%d", v))
			if v > rem {
				v = rem
			}
			rem -= v
		case k < 95:
			v := pickN()
			calls = append(calls, fmt.Sprintf("r:%d", v))
			if v > rem {
				v = rem
			}
			rem -= v
		default:
			calls = append(calls, "a")
			rem = 0
		}
	}
	ed := 0
	if eofData {
		ed = 1
	}
	aligned := r.Chance(35) // NewAlignedReaderBuf: never reads into the caller's slice
	al := 0
	if aligned {
		al = 1
		res.Stat("A:aligned")
	}
	line := fmt.Sprintf("bufr.calls cap=%d aligned=%d data=%s sched=%s eofdata=%d grow=%s calls=%s",
		capv, al, gb(nonNil(data)), schedWire(sched), ed, grow, strings.Join(calls, ","))

	capClass := bufrCapClass(capv)
	res.Stat("A:cap:" + capClass)
	bufrSchedStats(res, "A", sched, eofData)
	if capv == 0 {
		res.Stat("cap0")
	}

	// real code
	sr := &schedReader{data: data, sched: sched, eofData: eofData}
	var rd *recordio.Reader
	if aligned {
		rd = recordio.NewAlignedReaderBuf(sr, make([]byte, capv))
	} else {
		rd = recordio.NewReaderBuf(sr, make([]byte, capv))
	}
	cr := recordio.NewCountingByteReader(rd)
	check := true // capacity 0 is an ordinary case: NewReaderBuf substitutes a 16-byte buffer
	pos := 0
	gotData := false
	viol := func(kind, detail string) {
		res.Violate(idx, "C04", fmt.Sprintf("bufr-%s-cap%s", kind, capClass), detail, line)
	}
	tail := func() string { return fmt.Sprintf(":%d:%d", cr.Count(), rd.Buffered()) }
	var toks []string
	for ci, call := range calls {
		kind := call[:1]
		res.Stat("A:call:" + kind)
		nArg := 0
		if len(call) > 2 {
			nArg, _ = strconv.Atoi(call[2:])
		}
		avail := len(data) - pos
		switch kind {
		case "b":
			var c byte
			err := safely(func() error { var e error; c, e = cr.ReadByte(); return e })
			k := bufrErrKind(err)
			if err == nil {
				toks = append(toks, fmt.Sprintf("b:ok:%02x", c)+tail())
				gotData = true
			} else {
				toks = append(toks, "b:err:"+k+tail())
				res.Stat("A:b:" + k)
			}
			if check {
				res.Evaluations++
				switch {
				case err == nil:
					if avail == 0 {
						viol("b", fmt.Sprintf("call %d: ReadByte returned %02x after the end of the data", ci, c))
					} else {
						if data[pos] != c {
							viol("b", fmt.Sprintf("call %d: ReadByte returned %02x, byte %d of the data is %02x", ci, c, pos, data[pos]))
						}
						pos++
					}
				case k == "eof":
					if avail != 0 {
						viol("b", fmt.Sprintf("call %d: ReadByte returned EOF with %d bytes left", ci, avail))
					}
				case k == "noprogress" && !ns:
					res.Stat("A:noprogress-legit")
				default:
					viol("b", fmt.Sprintf("call %d: ReadByte returned error %v (%s)", ci, err, k))
				}
			}
		case "f":
			buf := make([]byte, nArg)
			var n int
			err := safely(func() error { var e error; n, e = io.ReadFull(cr, buf); return e })
			k := bufrErrKind(err)
			toks = append(toks, "f:"+gb(nonNil(buf[:n]))+":"+k+tail())
			if n > 0 {
				gotData = true
			}
			if err != nil {
				res.Stat("A:f:" + k)
			}
			if check {
				res.Evaluations++
				wantN, wantK := nArg, "-"
				switch {
				case nArg == 0:
				case avail >= nArg:
				case avail == 0:
					wantN, wantK = 0, "eof"
				default:
					wantN, wantK = avail, "ueof"
				}
				if n != wantN || k != wantK || !bytes.Equal(buf[:n], data[pos:pos+wantN]) {
					viol("f", fmt.Sprintf("call %d: ReadFull(%d) at data offset %d with %d left: want %d bytes %s, got %d bytes %s (%s)",
						ci, nArg, pos, avail, wantN, wantK, n, k, clipHex(buf[:n])))
				}
				pos += n
				if pos > len(data) {
					pos = len(data)
				}
			}
		case "r":
			buf := make([]byte, nArg)
			var n int
			err := safely(func() error { var e error; n, e = cr.Read(buf); return e })
			k := bufrErrKind(err)
			toks = append(toks, "r:"+gb(nonNil(buf[:n]))+":"+k+tail())
			if n > 0 {
				gotData = true
			}
			if err != nil {
				res.Stat("A:r:" + k)
			}
			if check {
				res.Evaluations++
				ok := n <= avail && bytes.Equal(buf[:n], data[pos:pos+n])
				switch {
				case !ok:
				case k == "-":
				case k == "eof" && n == 0:
					ok = avail == 0
				case k == "eof":
					ok = eofData && n == avail
				default:
					ok = false
				}
				if !ok {
					viol("r", fmt.Sprintf("call %d: Read(len %d) at data offset %d with %d left: got %d bytes %s (%s)", ci, nArg, pos, avail, n, k, clipHex(buf[:n])))
				}
				pos += n
				if pos > len(data) {
					pos = len(data)
				}
			}
		case "a":
			var all []byte
			err := safely(func() error { var e error; all, e = bufrReadAll(cr, len(data)+1<<16); return e })
			k := bufrErrKind(err)
			toks = append(toks, "a:"+gb(nonNil(all))+":"+k+tail())
			if len(all) > 0 {
				gotData = true
			}
			if err != nil {
				res.Stat("A:a:" + k)
			}
			if check {
				res.Evaluations++
				if k != "-" || !bytes.Equal(all, data[pos:]) {
					viol("a", fmt.Sprintf("call %d: ReadAll at data offset %d with %d left: got %d bytes %s", ci, pos, avail, len(all), k))
				}
				pos += len(all)
				if pos > len(data) {
					pos = len(data)
				}
			}
		}
		if check {
			if eofData {
				// the counting wrapper does not count bytes that arrive together with an error (modelled quirk)
				res.Stat("eofdata:count-unchecked")
			} else {
				res.Evaluations++
				if cr.Count() != uint64(pos) {
					res.Violate(idx, "C04", "count-drift-cap"+capClass,
						fmt.Sprintf("after call %d (%s): Count()=%d, bytes delivered=%d", ci, call, cr.Count(), pos), line)
				}
			}
		}
	}
	if gotData {
		res.NoteNontrivial(line)
	}
	res.Sample(line)
	m, err := drv.Ask(line)
	if err != nil {
		return err
	}
	// the request lengths the underlying reader received, in call order (the model logs them too)
	toks = append(toks, "q:"+schedWire(sr.reqs))
	if aligned {
		// the point of the aligned reader: it only ever hands (a suffix of) its own buffer to the underlying reader
		res.Evaluations++
		for _, q := range sr.reqs {
			if q > ecap {
				res.Violate(idx, "C04", "bufr-aligned-reader-passes-callers-slice-cap"+capClass,
					fmt.Sprintf("an aligned reader with a %d byte buffer asked the underlying reader for %d bytes", ecap, q), line)
				break
			}
		}
	}
	res.Cmp(idx, "bufr.calls", m, strings.Join(toks, " "), line)
	return nil
}

func clipHex(b []byte) string {
	if len(b) > 64 {
		return hexs(b[:64]) + "…"
	}
	return gb(nonNil(b))
}

// ---------------------------------------------------------------------------------------------
// part B

type bufrRec struct {
	payload   []byte
	off       int // offset of the record in the file
	hdrLen    int
	storedLen int
}

type bufrFactory struct {
	data    []byte
	sched   []int
	eofData bool
	aligned bool
	cr      recordio.ByteReaderResetCount
}

func (f *bufrFactory) CreateNewReader(path string, bufSize int) (*os.File, recordio.ByteReaderResetCount, error) {
	file, err := os.OpenFile(path, os.O_RDONLY, 0)
	if err != nil {
		return nil, nil, err
	}
	sr := &schedReader{data: f.data, sched: f.sched, eofData: f.eofData}
	var rd *recordio.Reader
	if f.aligned {
		rd = recordio.NewAlignedReaderBuf(sr, make([]byte, bufSize))
	} else {
		rd = recordio.NewReaderBuf(sr, make([]byte, bufSize))
	}
	f.cr = recordio.NewCountingByteReader(rd)
	return file, f.cr, nil
}

func (f *bufrFactory) CreateNewWriter(path string, bufSize int) (*os.File, recordio.WriteSeekerCloserFlusher, error) {
	return nil, nil, errors.New("bufrFactory: no writer")
}

func uvarintLen(b []byte) int {
	for i, x := range b {
		if x < 0x80 {
			return i + 1
		}
	}
	return len(b)
}

var bufrCapsB = []int{1, 2, 3, 7, 8, 9, 35, 36, 37, 4095, 4096, 4097, 65536}

// number of 0x91 0x8d pairs in the records area: every record starts with one
func magicPairs(file []byte) int {
	n := 0
	for i := 8; i+1 < len(file); i++ {
		if file[i] == 0x91 && file[i+1] == 0x8d {
			n++
		}
	}
	return n
}

// record separator of the version 1 format: MagicNumberSeparator as a little-endian uint32
var magicV1 = []byte{0x91, 0x06, 0x13, 0x00}

// v1: a hand-made version 1 file (no model: the property oracles only)
func bufrFileOne(res *Result, drv *Driver, r *Rng, idx int, tier string, grow string, dir string, v1 bool) error {
	thorough := tier == "thorough"
	ct := r.Intn(4)
	version := 4
	var recs []bufrRec
	var payloads [][]byte
	var file []byte
	bigRecs := false

	if r.Chance(60) && !v1 {
		// (a) a real V4 file
		around := []int{8, 36, 37, 64, 127, 128, 512}
		if r.Chance(8) || (thorough && r.Chance(10)) {
			around = append(around, 4096, 4096)
		}
		nrec := r.Intn(9)
		if r.Chance(3) || (thorough && r.Chance(3)) {
			around = []int{65536, 65536, 36}
			nrec = r.Intn(3)
		}
		bigRecs = r.Chance(15) // records larger than the direct-I/O reader's buffers (4096 / 8192)
		if bigRecs {
			nrec = 1 + r.Intn(4)
			res.Stat("B:gen:records-larger-than-4096")
		}
		total := 0
		for i := 0; i < nrec; i++ {
			p := genPayload(r, around)
			if bigRecs && r.Chance(65) {
				base := r.Pick([]int{4096, 8192, 4097, 5000, 9000, 12288, 20000})
				p = r.Bytes(base + r.Intn(7) - 3)
			}
			if total+len(p) > 90000 {
				break
			}
			total += len(p)
			payloads = append(payloads, p)
		}
		p := filepath.Join(dir, fmt.Sprintf("w%d.rio", idx))
		w, err := recordio.NewFileWriter(recordio.Path(p), recordio.CompressionType(ct), recordio.BufferSizeBytes(r.Pick([]int{1, 7, 64, 4096})))
		if err != nil {
			return fmt.Errorf("NewFileWriter: %w", err)
		}
		if err := w.Open(); err != nil {
			return fmt.Errorf("writer open: %w", err)
		}
		var offs []uint64
		for _, pl := range payloads {
			off, err := w.Write(pl)
			if err != nil {
				return fmt.Errorf("writer write: %w", err)
			}
			offs = append(offs, off)
		}
		if err := w.Close(); err != nil {
			return fmt.Errorf("writer close: %w", err)
		}
		file, err = os.ReadFile(p)
		if err != nil {
			return err
		}
		_ = os.Remove(p)
		for i, pl := range payloads {
			off := int(offs[i])
			end := len(file)
			if i+1 < len(offs) {
				end = int(offs[i+1])
			}
			// magic(3) nil(1) ulen clen crc
			h := off + 4
			for k := 0; k < 3 && h < end; k++ {
				h += uvarintLen(file[h:end])
			}
			recs = append(recs, bufrRec{payload: pl, off: off, hdrLen: h - off, storedLen: end - h})
		}
	} else {
		// (b) hand-made legacy files
		version = 3
		if r.Chance(40) {
			version = 2
		}
		if v1 {
			version = 1
		}
		nrec := r.Intn(7)
		file = binary.LittleEndian.AppendUint32(file, uint32(version))
		file = binary.LittleEndian.AppendUint32(file, uint32(ct))
		for i := 0; i < nrec; i++ {
			p := genPayload(r, []int{8, 36})
			if len(p) > 200 {
				p = p[:200]
			}
			if version <= 2 && p == nil {
				p = []byte{}
			}
			payloads = append(payloads, p)
			off := len(file)
			if version == 1 {
				file = append(file, magicV1...)
			} else {
				file = append(file, magic...)
			}
			if version == 3 {
				if p == nil {
					file = append(file, 1)
				} else {
					file = append(file, 0)
				}
			}
			var stored []byte
			if p != nil {
				stored = p
				if ct != 0 {
					st, err := compressorFor(ct).Compress(p)
					if err != nil {
						return fmt.Errorf("compress: %w", err)
					}
					stored = st
				}
			}
			switch {
			case version == 1 && ct != 0: // two fixed 8 byte lengths
				file = binary.LittleEndian.AppendUint64(binary.LittleEndian.AppendUint64(file, uint64(len(p))), uint64(len(stored)))
			case version == 1:
				file = binary.LittleEndian.AppendUint64(binary.LittleEndian.AppendUint64(file, uint64(len(p))), 0)
			case ct != 0:
				file = appendUvarint(file, uint64(len(p)))
				file = appendUvarint(file, uint64(len(stored)))
			default:
				file = appendUvarint(file, uint64(len(p)))
				file = appendUvarint(file, 0)
			}
			hl := len(file) - off
			file = append(file, stored...)
			recs = append(recs, bufrRec{payload: p, off: off, hdrLen: hl, storedLen: len(stored)})
		}
	}
	intactLen := len(file)
	oracle := oracleFor(ct, payloads)

	// ---- damage
	damage := "none"
	dmgPct := 45
	if v1 {
		dmgPct = 70
	}
	if r.Chance(dmgPct) {
		k := r.Intn(100)
		switch {
		case k < 40:
			damage = "cut"
		case k < 55:
			damage = "zeros"
		case k < 70:
			damage = "garbage"
		case k < 85:
			damage = "hdrbyte"
		default:
			damage = "filehdr"
		}
		if damage == "hdrbyte" && (version != 4 || len(recs) == 0) {
			damage = "cut"
		}
		if bigRecs && r.Chance(60) {
			damage = "cut" // cut files with records larger than the direct-I/O buffer
		}
		if v1 && damage == "filehdr" {
			damage = "cut"
		}
		if version == 4 && ct == 0 && r.Chance(25) {
			damage = "hugeskip"
		}
		switch damage {
		case "cut":
			var at int
			ri := -1
			if len(recs) > 0 {
				ri = r.Intn(len(recs))
			}
			c := r.Intn(100)
			if bigRecs && ri >= 0 && r.Chance(70) {
				// inside the payload of a record that is larger than the reader's buffer, if there is one
				for k := range recs {
					if recs[k].storedLen >= 4096 && (r.Chance(50) || recs[ri].storedLen < 4096) {
						ri = k
					}
				}
				c = 99
			}
			switch {
			case c < 15 || ri < 0:
				at = r.Intn(8)
				res.Stat("B:cut:file-header")
			case c < 30:
				at = recs[ri].off
				res.Stat("B:cut:record-boundary")
			case c < 60:
				at = recs[ri].off + 1 + r.Intn(recs[ri].hdrLen)
				if at > recs[ri].off+recs[ri].hdrLen {
					at = recs[ri].off + recs[ri].hdrLen
				}
				res.Stat("B:cut:record-header")
			default:
				at = recs[ri].off + recs[ri].hdrLen + r.Intn(recs[ri].storedLen+1)
				res.Stat("B:cut:payload")
			}
			if at > len(file) {
				at = len(file)
			}
			file = append([]byte{}, file[:at]...)
		case "hugeskip":
			// a record header that passes the checksum but claims a length near 2^63 / 2^64: SkipNext adds it to the
			// offset in uint64 arithmetic and converts the sum with int64(...) before seeking. Only SkipNext is run on
			// such a file (ReadNext would try to allocate the claimed length).
			var ulen uint64
			switch r.Intn(8) {
			case 6, 7: // around the largest offset lseek accepts on this file system
				ulen = bufrMaxOff - uint64(len(file)) - 20 + uint64(r.Intn(40))
			case 0:
				ulen = 1<<63 - 1 - uint64(r.Intn(4096))
			case 1:
				ulen = 1 << 63
			case 2:
				ulen = 1<<63 + uint64(r.Intn(4096))
			case 3:
				ulen = ^uint64(0)
			case 4:
				ulen = ^uint64(0) - uint64(r.Intn(64))
			default:
				ulen = 1 << 62
			}
			h := append([]byte{}, magic...)
			h = append(h, 0)
			h = appendUvarint(h, ulen)
			h = appendUvarint(h, 0)
			h = appendUvarint(h, uint64(crc32cRef(h)))
			file = append(append([]byte{}, file...), h...)
			if r.Chance(50) {
				g := r.Bytes(1 + r.Intn(20))
				for i := range g {
					if g[i] == 0x91 {
						g[i] = 0x90
					}
				}
				file = append(file, g...)
			}
		case "zeros":
			file = append(append([]byte{}, file...), make([]byte, 1+r.Intn(50))...)
		case "garbage":
			g := r.Bytes(1 + r.Intn(40))
			if g[0] == 0x91 {
				g[0] = 0x90
			}
			if version != 4 {
				// legacy headers carry no checksum: a marker in the tail could start a header with absurd lengths
				for i := range g {
					if g[i] == 0x91 {
						g[i] = 0x90
					}
				}
			}
			file = append(append([]byte{}, file...), g...)
		case "hdrbyte":
			rc := recs[r.Intn(len(recs))]
			at := rc.off + r.Intn(rc.hdrLen)
			file = append([]byte{}, file...)
			old := file[at]
			nb := byte(r.Next())
			if r.Chance(30) {
				nb = old ^ (1 << uint(r.Intn(8)))
			}
			if nb == old {
				nb = old + 1
			}
			file[at] = nb
			if at < rc.off+3 {
				res.Stat("B:hdrbyte:magic")
			} else {
				res.Stat("B:hdrbyte:fields")
			}
		case "filehdr":
			file = append([]byte{}, file...)
			tame := magicPairs(file) == len(recs)
			c := r.Intn(100)
			switch {
			case c < 60 && tame && ct == 0:
				// another valid version (never 1): all lengths then come from real header fields or single bytes
				nv := []int{2, 3, 4}[r.Intn(3)]
				if nv == version {
					nv = 2 + (version-2+1)%3
				}
				binary.LittleEndian.PutUint32(file[0:4], uint32(nv))
				res.Stat(fmt.Sprintf("B:filehdr:version-%d-as-%d", version, nv))
			case c < 50 && tame && ct != 0:
				binary.LittleEndian.PutUint32(file[4:8], 0)
				res.Stat("B:filehdr:comp-as-0")
			case c < 80:
				nv := uint32(r.Pick([]int{0, 5, 6, 255, 256 + 4, 0x04000000}))
				if r.Chance(20) {
					nv = uint32(r.Next()) | 8
				}
				binary.LittleEndian.PutUint32(file[0:4], nv)
				res.Stat("B:filehdr:version-invalid")
			default:
				nv := uint32(r.Pick([]int{4, 5, 255, 256, 0x01000000}))
				if r.Chance(20) {
					nv = uint32(r.Next()) | 4
				}
				binary.LittleEndian.PutUint32(file[4:8], nv)
				res.Stat("B:filehdr:comp-invalid")
			}
		}
	}
	res.Stat("B:damage:" + damage)
	res.Stat(fmt.Sprintf("B:version:%d", version))
	res.Stat(fmt.Sprintf("B:comp:%d", ct))
	for _, p := range payloads {
		switch {
		case p == nil:
			res.Stat("B:rec:nil")
		case len(p) == 0:
			res.Stat("B:rec:empty")
		default:
			res.Stat("B:rec:data")
		}
	}

	// ---- reader: mode, capacity, schedule
	mode := "sched"
	if r.Chance(35) {
		mode = "osfile"
	}
	var capv int
	if r.Chance(50) {
		capv = r.Pick(bufrCapsB)
	} else {
		var cand []int
		for _, rc := range recs {
			cand = append(cand, rc.off-1, rc.off, rc.off+1, rc.hdrLen-1, rc.hdrLen, rc.hdrLen+1, rc.storedLen-1, rc.storedLen, rc.storedLen+1,
				rc.hdrLen+rc.storedLen)
		}
		cand = append(cand, len(file)-1, len(file), len(file)+1, intactLen)
		capv = cand[r.Intn(len(cand))]
		if capv < 1 {
			capv = 1
		}
	}
	if r.Chance(3) {
		capv = 0 // NewReaderBuf / BufferedIOFactory.CreateNewReader(p, 0) / ReaderBufferSizeBytes(0): 16 bytes are used
	}
	var sched []int
	eofData := false
	aligned := false
	if mode == "sched" {
		sched, _ = bufrGenSched(r, capv)
		eofData = r.Chance(15)
		aligned = r.Chance(30)
		if aligned {
			// the library's own io.ReadAll (zero-tail rule) runs over this reader: keep the number of empty reads small, so
			// that a reader which miscounts them cannot make ReadAll grow its buffer without bound
			sched = bufrLimitZeros(sched, 30)
		}
	}
	nprog := len(recs) + 1 + r.Intn(3)
	prog := make([]string, nprog)
	readPct := 65
	if bigRecs && damage == "cut" {
		readPct = 92 // mostly sequential programs: the direct-I/O reader has to get to the cut record
	}
	for i := range prog {
		if r.Chance(readPct) && damage != "hugeskip" {
			prog[i] = "r"
		} else {
			prog[i] = "k"
		}
	}
	fileArg := gb(nonNil(file))
	progArg := strings.Join(prog, ",")
	path := filepath.Join(dir, fmt.Sprintf("f%d.rio", idx))
	if err := os.WriteFile(path, file, 0o644); err != nil {
		return err
	}
	defer os.Remove(path)
	if err := bufrFilePass(res, drv, r, idx, v1, version, ct, damage, recs, file, intactLen, oracle, grow, fileArg, progArg, prog, path,
		mode, capv, sched, eofData, aligned); err != nil {
		return err
	}
	// every whole-file case is also read through the REAL direct-I/O reader (DirectIOFactory: O_DIRECT file, block aligned
	// buffer, NewAlignedReaderBuf); records may be larger than the buffer, the file may be cut anywhere
	if !bufrDirectOK {
		res.Stat("B:directio:not-available-on-this-file-system:skipped")
		return nil
	}
	bs := r.Pick([]int{4096, 4096, 8192, 65536})
	if bigRecs {
		bs = r.Pick([]int{4096, 4096, 8192})
	}
	return bufrFilePass(res, drv, r, idx, v1, version, ct, damage, recs, file, intactLen, oracle, grow, fileArg, progArg, prog, path,
		"directio", bs, nil, false, true)
}

// one reader configuration over the file of a part B case
func bufrFilePass(res *Result, drv *Driver, r *Rng, idx int, v1 bool, version int, ct int, damage string, recs []bufrRec, file []byte,
	intactLen int, oracle string, grow string, fileArg string, progArg string, prog []string, path string,
	mode string, capv int, sched []int, eofData bool, aligned bool) error {
	ns := noStall(sched)
	ed := 0
	if eofData {
		ed = 1
	}
	al := 0
	if aligned {
		al = 1
		res.Stat("B:aligned")
	}
	line := fmt.Sprintf("bufr.file cap=%d aligned=%d file=%s sched=%s eofdata=%d oracle=%s grow=%s prog=%s",
		capv, al, fileArg, schedWire(sched), ed, oracle, grow, progArg)
	res.Stat("B:mode:" + mode)
	res.Stat("B:cap:" + bufrCapClass(capv))
	bufrSchedStats(res, "B", sched, eofData)
	if capv == 0 {
		res.Stat("cap0")
	}

	// ---- real code
	var rd recordio.ReaderI
	var fac *bufrFactory
	var err error
	var dfac *bufrDirectFactory
	if mode == "directio" {
		dfac = &bufrDirectFactory{} // delegates to recordio.DirectIOFactory{}
		rd, err = recordio.NewFileReader(recordio.ReaderPath(path), recordio.ReaderIoFactory(dfac), recordio.ReaderBufferSizeBytes(capv))
	} else if mode == "osfile" {
		if r.Chance(30) {
			res.Stat("B:mode:osfile:explicit-BufferedIOFactory")
			rd, err = recordio.NewFileReader(recordio.ReaderPath(path), recordio.ReaderBufferSizeBytes(capv), recordio.ReaderIoFactory(recordio.BufferedIOFactory{}))
		} else {
			rd, err = recordio.NewFileReader(recordio.ReaderPath(path), recordio.ReaderBufferSizeBytes(capv))
		}
	} else {
		fac = &bufrFactory{data: file, sched: sched, eofData: eofData, aligned: aligned}
		rd, err = recordio.NewFileReader(recordio.ReaderPath(path), recordio.ReaderBufferSizeBytes(capv), recordio.ReaderIoFactory(fac))
	}
	if err != nil {
		return fmt.Errorf("NewFileReader: %w", err)
	}
	count := func() string {
		if fac == nil {
			return ""
		}
		return fmt.Sprintf(":%d", fac.cr.Count())
	}
	var toks []string
	var opErrs []error  // per op: the error as returned
	var opOffs []int64  // per op (direct I/O only): offset of the O_DIRECT file after the call
	var opRes []string  // per op, without counts
	var opRecs [][]byte // per op: the record a successful ReadNext returned
	gotRecord := false
	sawPanic := ""
	openErr := safely(func() error { return rd.Open() })
	if openErr != nil {
		k := bufrErrKind(openErr)
		switch {
		case k == "eof" || k == "ueof" || k == "panic":
		case strings.Contains(openErr.Error(), "version mismatch"), strings.Contains(openErr.Error(), "unknown compression type"):
			k = "rejected"
		}
		toks = append(toks, "open-err:"+k)
		res.Stat("B:open-err:" + k)
	} else {
		fv := binary.LittleEndian.Uint32(file[0:4])
		fc := binary.LittleEndian.Uint32(file[4:8])
		toks = append(toks, fmt.Sprintf("open:%d:%d", fv, fc)+count())
		var lastRec []byte
		for _, op := range prog {
			var t string
			var opErr error
			if op == "r" {
				var rec []byte
				err := safely(func() error { var e error; rec, e = rd.ReadNext(); return e })
				opErr = err
				lastRec = append([]byte{}, rec...)
				if err != nil {
					t = "err:" + bufrErrKind(err)
					if bufrErrKind(err) == "panic" {
						sawPanic = err.Error()
					}
				} else {
					t = "ok:" + gb(rec)
					gotRecord = true
				}
				res.Stat("B:r:" + strings.SplitN(t, ":", 3)[0] + bufrKindSuffix(t))
			} else {
				err := safely(func() error { return rd.SkipNext() })
				opErr = err
				if err != nil {
					t = "err:" + bufrErrKind(err)
					if bufrErrKind(err) == "panic" {
						sawPanic = err.Error()
					}
				} else {
					t = "ok"
				}
				res.Stat("B:k:" + strings.SplitN(t, ":", 3)[0] + bufrKindSuffix(t))
			}
			opRes = append(opRes, t)
			opErrs = append(opErrs, opErr)
			off := int64(-1)
			if dfac != nil && dfac.file != nil {
				if o, e := dfac.file.Seek(0, io.SeekCurrent); e == nil {
					off = o
				}
			}
			opOffs = append(opOffs, off)
			toks = append(toks, t+count())
			opRecs = append(opRecs, nil)
			if op == "r" && strings.HasPrefix(t, "ok:") {
				opRecs[len(opRecs)-1] = nonNil(lastRec)
			}
		}
	}
	_ = safely(func() error { return rd.Close() })
	impl := strings.Join(toks, " ")
	if gotRecord {
		res.NoteNontrivial(line)
	}
	res.Sample(line)

	// direct I/O, known finding directio-read-after-skipnext-einval: SkipNext seeks the O_DIRECT file to the end of the
	// record and re-attaches the reader to it; when that offset is not a multiple of the block size the next read of the
	// file fails with EINVAL. Exactly that — and nothing else — is reported under the signature: the call right after a
	// SUCCESSFUL SkipNext that left the O_DIRECT file at an offset which is not block aligned, failing with EINVAL.
	// The model (which has no O_DIRECT alignment rule: OS behaviour) is compared up to that call; everything before it,
	// and every case without such a call, is compared in full.
	einvalAt := -1
	if mode == "directio" {
		for oi := 1; oi < len(opRes); oi++ {
			if prog[oi-1] == "k" && opRes[oi-1] == "ok" && opOffs[oi-1] >= 0 && opOffs[oi-1]%int64(bufrDirectAlignment) != 0 &&
				opRes[oi] == "err:other" && bufrIsEINVAL(opErrs[oi]) {
				einvalAt = oi
				break
			}
		}
	}
	directSkipEinval := func(prop string, oi int) bool {
		if einvalAt >= 0 && oi == einvalAt {
			res.Violate(idx, prop, "directio-read-after-skipnext-einval",
				fmt.Sprintf("direct-I/O reader (buffer %d, block size %d): op %d (%s) follows the successful SkipNext of op %d, which left the O_DIRECT file at offset %d; it failed with: %v; program %s",
					capv, bufrDirectAlignment, oi, prog[oi], oi-1, opOffs[oi-1], opErrs[oi], progArg), line)
			return true
		}
		return false
	}
	afterSkip := einvalAt - 1 // tokens compared with the model: open + ops 0..afterSkip

	// ---- model (it has no reader for version 1)
	m := ""
	if !v1 {
		m, err = drv.Ask(line)
		if err != nil {
			return err
		}
		mCmp := m
		if mode != "sched" {
			mCmp = bufrStripCounts(m, false)
		}
		implCmp := impl
		if afterSkip >= 0 {
			res.Stat("B:directio:not-compared-after-first-skip")
			cut := func(a string) string {
				t := strings.Split(a, " ")
				if len(t) > afterSkip+2 {
					t = t[:afterSkip+2]
				}
				return strings.Join(t, " ")
			}
			mCmp, implCmp = cut(mCmp), cut(implCmp)
		}
		res.Cmp(idx, "bufr.file", mCmp, implCmp, line)
	} else {
		res.Stat("B:v1:oracles-only")
	}

	// ---- buffered model vs pure-stream model
	if ns && damage != "hugeskip" && !v1 { // the pure-stream model has no int64 conversion of seek targets
		sLine := fmt.Sprintf("bufr.stream file=%s oracle=%s prog=%s", fileArg, oracle, progArg)
		sm, err := drv.Ask(sLine)
		if err != nil {
			return err
		}
		res.Cmp(idx, "bufr.file-vs-stream", sm, bufrStripCounts(m, true), line)
	}

	// ---- a panic of the reader is a violation whatever the input (capacity 0 included: /repo commit 964130e)
	if openErr != nil && bufrErrKind(openErr) == "panic" && sawPanic == "" {
		sawPanic = openErr.Error()
	}
	if sawPanic != "" {
		res.Evaluations++
		res.Violate(idx, "C04", fmt.Sprintf("bufr-file-panic-cap%s", bufrCapClass(capv)), "the file reader panicked: "+sawPanic, line)
	}

	// ---- property oracle: an undamaged file gives back exactly the records written
	if damage == "none" && ns && openErr == nil {
		sig := fmt.Sprintf("bufr-file-v%d-%s", version, mode)
		ri := 0
		for oi, op := range prog {
			res.Evaluations++
			got := opRes[oi]
			if directSkipEinval("C04", oi) {
				break
			}
			if ri < len(recs) {
				if op == "r" {
					want := "ok:" + gb(recs[ri].payload)
					g := got
					if version <= 2 && got == "ok:-" {
						// versions 1 and 2 have no nil records: the statement is about the bytes only (weaker on purpose)
						g = "ok:."
					}
					if g != want {
						res.Violate(idx, "C04", sig+bufrNilSig(ct, recs[ri].payload), fmt.Sprintf("op %d ReadNext at record %d: want %s got %s", oi, ri, clipTok(want), clipTok(got)), line)
						break
					}
				} else if got != "ok" {
					res.Violate(idx, "C04", sig+bufrNilSig(ct, recs[ri].payload), fmt.Sprintf("op %d SkipNext at record %d: want ok got %s", oi, ri, got), line)
					break
				}
				ri++
				continue
			}
			// the first op past the last record
			if op == "r" {
				if got != "err:eof" {
					res.Violate(idx, "C04", sig+":end", fmt.Sprintf("op %d ReadNext past the last record: want err:eof got %s", oi, clipTok(got)), line)
				}
			} else if !strings.HasPrefix(got, "err:") {
				res.Violate(idx, "C04", sig+":end", fmt.Sprintf("op %d SkipNext past the last record: want an error got %s", oi, got), line)
			}
			break
		}
	} else if damage == "none" && openErr != nil && ns {
		res.Evaluations++
		res.Violate(idx, "C04", fmt.Sprintf("bufr-file-v%d-%s:open", version, mode), "Open of an undamaged file failed: "+openErr.Error(), line)
	}

	// ---- C12 oracle: a cut file / a file with a damaged tail. The records returned before the first error are exactly the
	// genuine records that are completely contained in the remaining bytes, in order and byte for byte (never a shortened
	// payload, never a record nobody wrote), then EOF or an error. Nothing is demanded of a SkipNext at or behind the cut
	// (the legacy formats seek without looking at the payload); a record returned after it is still a violation.
	if (damage == "cut" || damage == "zeros" || damage == "garbage") && ns && openErr == nil {
		complete := 0
		for _, rc := range recs {
			if rc.off+rc.hdrLen+rc.storedLen > len(file) {
				break
			}
			complete++
		}
		res.Stat(fmt.Sprintf("B:c12-oracle:v%d:%s", version, damage))
		if complete < len(recs) {
			if len(file) >= recs[complete].off+recs[complete].hdrLen {
				res.Stat(fmt.Sprintf("B:c12-oracle:v%d:cut-behind-a-record-header", version))
			} else if len(file) > recs[complete].off {
				res.Stat(fmt.Sprintf("B:c12-oracle:v%d:cut-inside-a-record-header", version))
			}
		}
		sig := fmt.Sprintf("bufr-file-v%d-%s:%s", version, mode, damage)
		ri := 0
		for oi, op := range prog {
			got := opRes[oi]
			res.Evaluations++
			if directSkipEinval("C12", oi) {
				break
			}
			if strings.HasPrefix(got, "err:") {
				if ri < complete {
					res.Violate(idx, "C12", sig+":genuine-record-not-returned"+bufrNilSig(ct, recs[ri].payload),
						fmt.Sprintf("op %d (%s) at record %d, which lies wholly inside the %d remaining bytes: got %s", oi, op, ri, len(file), got), line)
				}
				break
			}
			if op == "r" {
				if ri >= complete {
					kind := "unwritten-record"
					if ri < len(recs) && len(opRecs[oi]) < len(recs[ri].payload) && bytes.HasPrefix(recs[ri].payload, opRecs[oi]) {
						kind = "shortened-record"
					}
					res.Violate(idx, "C12", sig+":"+kind, fmt.Sprintf("op %d ReadNext returned %s with a nil error; %d of %d records lie wholly inside the %d remaining bytes (file written: %d bytes)",
						oi, clipTok(got), complete, len(recs), len(file), intactLen), line)
					break
				}
				want := "ok:" + gb(recs[ri].payload)
				g := got
				if version <= 2 && got == "ok:-" {
					g = "ok:." // versions 1 and 2 have no nil records: the statement is about the bytes only
				}
				if g != want {
					res.Violate(idx, "C12", sig+":record-differs"+bufrNilSig(ct, recs[ri].payload), fmt.Sprintf("op %d ReadNext at record %d: want %s got %s", oi, ri, clipTok(want), clipTok(got)), line)
					break
				}
			}
			ri++
		}
	}
	return nil
}

func bufrNilSig(ct int, p []byte) string {
	if ct != 0 && p == nil {
		return ":nil-record-in-compressed-file"
	}
	return ""
}

func bufrKindSuffix(t string) string {
	if strings.HasPrefix(t, "err:") {
		return t[3:]
	}
	return ""
}

func clipTok(s string) string {
	if len(s) > 200 {
		return s[:200] + "…"
	}
	return s
}

// removes the trailing `:<count>` of every token (not of `open-err:<kind>`); with untilErr the answer is
// cut after the first `err:` token
func bufrStripCounts(ans string, untilErr bool) string {
	toks := strings.Split(ans, " ")
	out := make([]string, 0, len(toks))
	for _, t := range toks {
		if !strings.HasPrefix(t, "open-err:") && (strings.HasPrefix(t, "open:") || strings.HasPrefix(t, "ok:") || strings.HasPrefix(t, "err:")) {
			if i := strings.LastIndexByte(t, ':'); i >= 0 {
				t = t[:i]
			}
		}
		out = append(out, t)
		if untilErr && strings.HasPrefix(t, "err:") {
			break
		}
	}
	return strings.Join(out, " ")
}
