package main

// stream "tbldir" (extension of C02 / C10 / C13): byte-level table directories against the abstract disk.
//
// Real side: a table directory is written by the REAL stream writer configured exactly as simpledb/flush.go
// `executeFlush` configures it (MkdirAll, then memstore.FlushWithTombstones / NewSSTableStreamWriter with
// WriteBasePath, WithKeyComparator, WriteBufferSizeBytes, BloomExpectedNumberOfElements), with the two recordio
// writers wrapped (sstables.VerifWriterWrap) so that after every dataWriter.Write / indexWriter.Write the logical
// sizes (`Size()`) and the sizes of the files ON DISK are recorded and the directory is copied: these copies are real
// kill images at call boundaries, with the real flush points of the chosen buffer size.
// Further images are RECONSTRUCTED BY TRUNCATION (the writers only append): a reference call list (mkdir, create,
// write n bytes, close, unlink, rmdir — written here, independently of the Lean model) is cut after k calls and the
// final real files are truncated to the lengths reached; the chunking of the byte streams into write calls is either
// the observed one or generated (any split that does not write a byte before the code has handed it to the buffered
// writer).  The snapshots are compared with the truncation images of the same point.
// Every image is placed as sstable_000000000000001 into an otherwise empty database directory and the REAL
// simpledb.NewSimpleDB(..).Open() runs on it: error / directory kept or removed / table list / every key's Get; when
// the model says the directory loads, the real sstables.NewSSTableReader is also asked for every key (nil vs empty).
// Model side: `tbldir.run` computes the same image from the pairs + chunking + prefix length (bytes compared) and
// classifies it.  Independent oracles: the final image serves exactly the written pairs; every image inside a writer
// run opens and serves nothing or everything; clean-up of an unfinished table never leaves anything that is kept;
// a half-removed complete table is one of: kept with everything / kept (legacy load) / Open fails / discarded.

import (
	"bytes"
	"errors"
	"fmt"
	"os"
	"path/filepath"
	"sort"
	"strings"

	"github.com/steakknife/bloomfilter"
	"github.com/thomasjungblut/go-sstables/memstore"
	"github.com/thomasjungblut/go-sstables/recordio"
	rProto "github.com/thomasjungblut/go-sstables/recordio/proto"
	"github.com/thomasjungblut/go-sstables/simpledb"
	"github.com/thomasjungblut/go-sstables/skiplist"
	"github.com/thomasjungblut/go-sstables/sstables"
	"google.golang.org/protobuf/proto"
)

func init() {
	streams["tbldir"] = runTblDir
}

const tdTableName = "sstable_000000000000001"

var tdFiles = [4]string{"index.rio", "data.rio", "meta.pb.bin", "bloom.bf.gz"}
var tdLetters = [4]string{"i", "d", "m", "b"}

const (
	tdIndex = 0
	tdData  = 1
	tdMeta  = 2
	tdBloom = 3
)

// a directory image: dir exists?, per file absent (nil) or its bytes
type tdImg struct {
	dir bool
	f   [4][]byte
	has [4]bool
}

func (m tdImg) ob(i int) string {
	if !m.has[i] {
		return "-"
	}
	return gb(nonNil(m.f[i]))
}

func (m tdImg) String() string {
	d := "0"
	if m.dir {
		d = "1"
	}
	return fmt.Sprintf("dir=%s index=%s data=%s metaf=%s bloom=%s", d, m.ob(0), m.ob(1), m.ob(2), m.ob(3))
}

// reference file-system calls (lengths only: every write appends the next n bytes of the file's final content)
type tdCall struct {
	op string // mkdir create write close unlink rmdir
	f  int
	n  int
}

type tdState struct {
	dir bool
	n   [4]int
	has [4]bool
}

func (s *tdState) apply(c tdCall) {
	switch c.op {
	case "mkdir":
		if !s.dir {
			*s = tdState{dir: true}
		}
	case "create":
		if s.dir && !s.has[c.f] {
			s.has[c.f] = true
			s.n[c.f] = 0
		}
	case "write":
		if s.dir && s.has[c.f] {
			s.n[c.f] += c.n
		}
	case "unlink":
		if s.dir {
			s.has[c.f] = false
			s.n[c.f] = 0
		}
	case "rmdir":
		if s.dir && !s.has[0] && !s.has[1] && !s.has[2] && !s.has[3] {
			*s = tdState{}
		}
	}
}

func tdAfter(start tdState, calls []tdCall, k int) tdState {
	s := start
	for i := 0; i < k && i < len(calls); i++ {
		s.apply(calls[i])
	}
	return s
}

func (s tdState) img(final [4][]byte) tdImg {
	m := tdImg{dir: s.dir}
	for i := 0; i < 4; i++ {
		if s.has[i] {
			m.has[i] = true
			n := s.n[i]
			if n > len(final[i]) {
				n = len(final[i])
			}
			m.f[i] = final[i][:n]
		}
	}
	return m
}

// ---------------------------------------------------------------------------------------------
// the real writer run

type tdPoint struct {
	what         string // open, d<i>, i<i>, close
	logD, logI   int    // FileWriter.Size() of the two writers
	diskD, diskI int    // file sizes on disk
	metaLen      int    // -1 = absent
	bloomLen     int    // -1 = absent
	snap         tdImg
}

type tdRec struct {
	dir    string
	data   recordio.WriterI
	index  rProto.WriterI
	points []tdPoint
	err    error
}

func tdStatLen(p string) int {
	st, err := os.Stat(p)
	if err != nil {
		return -1
	}
	return int(st.Size())
}

func tdReadDir(dir string) tdImg {
	m := tdImg{}
	if st, err := os.Stat(dir); err != nil || !st.IsDir() {
		return m
	}
	m.dir = true
	for i, name := range tdFiles {
		b, err := os.ReadFile(filepath.Join(dir, name))
		if err == nil {
			m.has[i] = true
			m.f[i] = b
		}
	}
	return m
}

func (r *tdRec) point(what string) {
	p := tdPoint{what: what, logD: int(r.data.Size()), logI: int(r.index.Size())}
	p.diskD = tdStatLen(filepath.Join(r.dir, tdFiles[tdData]))
	p.diskI = tdStatLen(filepath.Join(r.dir, tdFiles[tdIndex]))
	p.metaLen = tdStatLen(filepath.Join(r.dir, tdFiles[tdMeta]))
	p.bloomLen = tdStatLen(filepath.Join(r.dir, tdFiles[tdBloom]))
	p.snap = tdReadDir(r.dir)
	r.points = append(r.points, p)
}

type tdDataW struct {
	recordio.WriterI
	r *tdRec
	i *int
}

func (w tdDataW) Write(rec []byte) (uint64, error) {
	off, err := w.WriterI.Write(rec)
	w.r.point(fmt.Sprintf("d%d", *w.i))
	return off, err
}

type tdIndexW struct {
	rProto.WriterI
	r *tdRec
	i *int
}

func (w tdIndexW) Write(msg proto.Message) (uint64, error) {
	off, err := w.WriterI.Write(msg)
	w.r.point(fmt.Sprintf("i%d", *w.i))
	*w.i = *w.i + 1
	return off, err
}

type tdCase struct {
	keys   [][]byte
	vals   [][]byte // nil = tombstone
	buf    int
	viaMem bool
}

func (c tdCase) kvs() string {
	var parts []string
	for i := range c.keys {
		parts = append(parts, gb(nonNil(c.keys[i]))+":"+gb(c.vals[i]))
	}
	return strings.Join(parts, ",")
}

// writes the table into dir like executeFlush does; returns the recorded points and the final files
func tdWrite(dir string, c tdCase) (*tdRec, [4][]byte, error) {
	var final [4][]byte
	rec := &tdRec{dir: dir}
	if err := os.MkdirAll(dir, 0700); err != nil {
		return nil, final, err
	}
	cnt := 0
	prev := sstables.VerifWriterWrap
	sstables.VerifWriterWrap = func(w *sstables.SSTableStreamWriter) {
		w.VerifWrapWriters(
			func(d recordio.WriterI) recordio.WriterI { rec.data = d; return tdDataW{d, rec, &cnt} },
			func(i rProto.WriterI) rProto.WriterI { rec.index = i; return tdIndexW{i, rec, &cnt} })
		rec.point("open")
	}
	defer func() { sstables.VerifWriterWrap = prev }()
	opts := []sstables.WriterOption{
		sstables.WriteBasePath(dir),
		sstables.WithKeyComparator(skiplist.BytesComparator{}),
		sstables.WriteBufferSizeBytes(c.buf),
		sstables.BloomExpectedNumberOfElements(uint64(len(c.keys))),
	}
	err := safely(func() error {
		if c.viaMem {
			m := memstore.NewMemStore()
			for i := range c.keys {
				var e error
				if c.vals[i] == nil {
					e = m.Tombstone(c.keys[i])
				} else {
					e = m.Upsert(c.keys[i], c.vals[i])
				}
				if e != nil {
					return e
				}
			}
			return m.FlushWithTombstones(opts...)
		}
		w, e := sstables.NewSSTableStreamWriter(opts...)
		if e != nil {
			return e
		}
		if e = w.Open(); e != nil {
			return e
		}
		for i := range c.keys {
			if e = w.WriteNext(c.keys[i], c.vals[i]); e != nil {
				_ = w.Close()
				return e
			}
		}
		return w.Close()
	})
	if err != nil {
		return nil, final, err
	}
	fin := tdReadDir(dir)
	for i := 0; i < 4; i++ {
		if !fin.has[i] {
			return nil, final, fmt.Errorf("writer left no %s", tdFiles[i])
		}
		final[i] = fin.f[i]
	}
	rec.points = append(rec.points, tdPoint{what: "close", diskD: len(final[tdData]), diskI: len(final[tdIndex]),
		metaLen: len(final[tdMeta]), bloomLen: len(final[tdBloom]), snap: fin})
	return rec, final, nil
}

// ---------------------------------------------------------------------------------------------
// reference call list of one writer run

type tdChunk struct{ d, i []int }

func tdChunkStr(ch []tdChunk) string {
	var recs []string
	j := func(xs []int) string {
		var p []string
		for _, x := range xs {
			p = append(p, fmt.Sprint(x))
		}
		return strings.Join(p, "+")
	}
	for _, c := range ch {
		recs = append(recs, j(c.d)+"/"+j(c.i))
	}
	return strings.Join(recs, ";")
}

// logD[i], logI[i]: logical sizes after record i has been handed to the data / index writer.
// marks[name] = number of calls completed at that point of the run.
func tdFlushCalls(final [4][]byte, logD, logI []int, ch []tdChunk, bloomCh []int) ([]tdCall, map[string]int) {
	marks := map[string]int{}
	var cs []tdCall
	add := func(op string, f, n int) { cs = append(cs, tdCall{op, f, n}) }
	add("mkdir", 0, 0)
	add("create", tdIndex, 0)
	add("write", tdIndex, 8)
	add("create", tdData, 0)
	add("write", tdData, 8)
	add("create", tdMeta, 0)
	marks["open"] = len(cs)
	dw, iw := 8, 8
	emit := func(f int, avail int, sizes []int, w *int) {
		for _, n := range sizes {
			m := n
			if m > avail-*w {
				m = avail - *w
			}
			if m > 0 {
				add("write", f, m)
				*w += m
			}
		}
	}
	for r := range logD {
		var c tdChunk
		if r < len(ch) {
			c = ch[r]
		}
		emit(tdData, logD[r], c.d, &dw)
		marks[fmt.Sprintf("d%d", r)] = len(cs)
		emit(tdIndex, logI[r], c.i, &iw)
		marks[fmt.Sprintf("i%d", r)] = len(cs)
	}
	if iw < len(final[tdIndex]) {
		add("write", tdIndex, len(final[tdIndex])-iw)
	}
	add("close", tdIndex, 0)
	if dw < len(final[tdData]) {
		add("write", tdData, len(final[tdData])-dw)
	}
	add("close", tdData, 0)
	add("create", tdBloom, 0)
	for _, n := range bloomCh {
		add("write", tdBloom, n)
	}
	add("close", tdBloom, 0)
	add("write", tdMeta, len(final[tdMeta]))
	add("close", tdMeta, 0)
	marks["close"] = len(cs)
	return cs, marks
}

func tdRemoveCalls(order []int, indexFirst bool) []tdCall {
	var cs []tdCall
	if indexFirst {
		cs = append(cs, tdCall{"unlink", tdIndex, 0})
	}
	for _, f := range order {
		cs = append(cs, tdCall{"unlink", f, 0})
	}
	return append(cs, tdCall{"rmdir", 0, 0})
}

func tdOrderStr(order []int) string {
	var p []string
	for _, f := range order {
		p = append(p, tdLetters[f])
	}
	return strings.Join(p, ",")
}

// ---------------------------------------------------------------------------------------------
// the real Open on an image

func tdMaterialize(tdir string, m tdImg) error {
	if !m.dir {
		return nil
	}
	if err := os.MkdirAll(tdir, 0700); err != nil {
		return err
	}
	for i, name := range tdFiles {
		if m.has[i] {
			if err := os.WriteFile(filepath.Join(tdir, name), m.f[i], 0666); err != nil {
				return err
			}
		}
	}
	return nil
}

type tdObs struct {
	open   string // ok | err | panic
	kept   bool
	tables int
	gets   []string // per key: hex | nf | err
}

func (o tdObs) String() string {
	k := "gone"
	if o.kept {
		k = "kept"
	}
	return fmt.Sprintf("open=%s dir=%s tables=%d gets=%s", o.open, k, o.tables, strings.Join(o.gets, ";"))
}

func tdOpen(m tdImg, keys [][]byte) (tdObs, error) {
	var o tdObs
	base, err := os.MkdirTemp("", "verif-tbldir-")
	if err != nil {
		return o, err
	}
	defer os.RemoveAll(base)
	tdir := filepath.Join(base, tdTableName)
	if err := tdMaterialize(tdir, m); err != nil {
		return o, err
	}
	var db *simpledb.DB
	e := safely(func() error {
		var err error
		db, err = simpledb.NewSimpleDB(base, simpledb.DisableCompactions())
		if err != nil {
			return err
		}
		return db.Open()
	})
	if e != nil {
		o.open = "err"
		if strings.HasPrefix(e.Error(), "PANIC") {
			o.open = "panic"
		}
	} else {
		o.open = "ok"
		names, _, _, _ := db.VerifTables()
		o.tables = len(names)
		for _, k := range keys {
			var v []byte
			ge := safely(func() error {
				var err error
				v, err = db.GetBytes(k)
				return err
			})
			switch {
			case ge == nil:
				o.gets = append(o.gets, gb(nonNil(k))+"="+gb(nonNil(v)))
			case errors.Is(ge, simpledb.ErrNotFound):
				o.gets = append(o.gets, gb(nonNil(k))+"=nf")
			default:
				o.gets = append(o.gets, gb(nonNil(k))+"=err")
			}
		}
		_ = safely(func() error { return db.Close() })
	}
	if st, err := os.Stat(tdir); err == nil && st.IsDir() {
		o.kept = true
	}
	return o, nil
}

// the real table reader on the image: "k=v;…" for the written keys it holds (Get: nil "-", empty ".", "!" = error)
func tdReaderCells(m tdImg, keys [][]byte) (string, error) {
	base, err := os.MkdirTemp("", "verif-tbldir-rd-")
	if err != nil {
		return "", err
	}
	defer os.RemoveAll(base)
	tdir := filepath.Join(base, tdTableName)
	if err := tdMaterialize(tdir, m); err != nil {
		return "", err
	}
	var rd sstables.SSTableReaderI
	e := safely(func() error {
		var err error
		rd, err = sstables.NewSSTableReader(sstables.ReadBasePath(tdir), sstables.ReadWithKeyComparator(skiplist.BytesComparator{}))
		return err
	})
	if e != nil {
		return "load-err", nil
	}
	defer rd.Close()
	var parts []string
	for _, k := range keys {
		var v []byte
		ge := safely(func() error {
			var err error
			v, err = rd.Get(k)
			return err
		})
		switch {
		case ge == nil:
			parts = append(parts, gb(nonNil(k))+"="+gb(v))
		case errors.Is(ge, sstables.NotFound):
		default:
			parts = append(parts, gb(nonNil(k))+"=!")
		}
	}
	return strings.Join(parts, ";"), nil
}

// what `bloomfilter.ReadFile` says about a file with these bytes (external code: a parameter of the model).
// NOTE: the library's ReadFile overwrites the error of ReadFrom with the result of Close in a deferred function, so a
// truncated or empty bloom.bf.gz is NOT an error for the table reader (it then runs without a filter).
func tdBloomOk(b []byte) bool {
	f, err := os.CreateTemp("", "verif-tbldir-bf-")
	if err != nil {
		return false
	}
	name := f.Name()
	defer os.Remove(name)
	_, _ = f.Write(b)
	_ = f.Close()
	ok := false
	_ = safely(func() error {
		_, _, err := bloomfilter.ReadFile(name)
		ok = err == nil
		return nil
	})
	return ok
}

// ---------------------------------------------------------------------------------------------
// model answers

type tdModel struct {
	raw   string
	len   int
	img   string
	class string
	cells string
	ev    int
	rm    int
}

func tdParseModel(s string) tdModel {
	m := tdModel{raw: s, len: -1, ev: -1, rm: -1}
	var img []string
	for _, t := range strings.Fields(s) {
		kv := strings.SplitN(t, "=", 2)
		if len(kv) != 2 {
			continue
		}
		switch kv[0] {
		case "len":
			fmt.Sscan(kv[1], &m.len)
		case "dir", "index", "data", "metaf", "bloom":
			img = append(img, t)
		case "class":
			m.class = kv[1]
		case "cells":
			m.cells = kv[1]
		case "ev":
			fmt.Sscan(kv[1], &m.ev)
		case "rm":
			fmt.Sscan(kv[1], &m.rm)
		}
	}
	m.img = strings.Join(img, " ")
	return m
}

// what the real Open must show if the model's classification is right
func (m tdModel) expectObs(keys [][]byte) string {
	cell := map[string]string{}
	if m.cells != "" {
		for _, p := range strings.Split(m.cells, ";") {
			kv := strings.SplitN(p, "=", 2)
			if len(kv) == 2 {
				cell[kv[0]] = kv[1]
			}
		}
	}
	o := tdObs{}
	switch m.class {
	case "gone", "part0":
		o.open = "ok"
	case "part1":
		o.open, o.kept = "err", true
	case "complete":
		o.open, o.kept, o.tables = "ok", true, 1
	default:
		return "bad-op"
	}
	if o.open == "ok" {
		for _, k := range keys {
			ks := gb(nonNil(k))
			v, ok := cell[ks]
			switch {
			case m.class != "complete" || !ok || v == "-" || v == ".":
				o.gets = append(o.gets, ks+"=nf")
			case v == "!":
				o.gets = append(o.gets, ks+"=err")
			default:
				o.gets = append(o.gets, ks+"="+v)
			}
		}
	}
	return o.String()
}

// ---------------------------------------------------------------------------------------------

func tdGenCase(r *Rng, tier string) tdCase {
	maxN := 5
	if tier == "thorough" {
		maxN = 9
	}
	n := 1 + r.Intn(maxN)
	c := tdCase{viaMem: r.Chance(60)}
	seen := map[string]bool{}
	for len(c.keys) < n {
		k := r.Bytes(1 + r.Intn(3))
		if r.Chance(30) {
			k = []byte{byte('a' + r.Intn(6))}
		}
		if !c.viaMem && r.Chance(4) {
			k = []byte{}
		}
		if !seen[string(k)] {
			seen[string(k)] = true
			c.keys = append(c.keys, k)
		}
	}
	sort.Slice(c.keys, func(i, j int) bool { return bytes.Compare(c.keys[i], c.keys[j]) < 0 })
	for range c.keys {
		var v []byte
		switch x := r.Intn(100); {
		case x < 18:
			v = nil // tombstone
		case x < 24 && !c.viaMem:
			v = []byte{} // the stream writer accepts empty values (a compaction writes them)
		case x < 45:
			// a value that parses as a DataEntry protobuf: a legacy load shows its inner bytes
			in := r.Bytes(r.Intn(6))
			v = append([]byte{0x0a, byte(len(in))}, in...)
		case x < 55:
			v = bytes.Repeat([]byte{byte(r.Intn(256))}, 20+r.Intn(60)) // compressible
		default:
			v = r.Bytes(1 + r.Intn(24))
		}
		c.vals = append(c.vals, v)
	}
	c.buf = []int{1, 5, 8, 13, 16, 24, 40, 64, 200, 4096, 4 << 20}[r.Intn(11)]
	return c
}

// random admissible chunking: 0..3 writes per phase; sizes may exceed what is buffered (they are clipped)
func tdGenChunks(r *Rng, logD, logI []int) []tdChunk {
	var ch []tdChunk
	dw, iw := 8, 8
	gen := func(avail int, w *int) []int {
		var s []int
		for k := r.Intn(4); k > 0; k-- {
			room := avail - *w
			n := r.Intn(room + 3)
			if r.Chance(30) {
				n = room
			}
			s = append(s, n)
			if n > room {
				n = room
			}
			*w += n
		}
		return s
	}
	for i := range logD {
		ch = append(ch, tdChunk{d: gen(logD[i], &dw), i: gen(logI[i], &iw)})
	}
	return ch
}

func tdSplit(r *Rng, n int) []int {
	var out []int
	for n > 0 {
		k := 1 + r.Intn(n)
		if r.Chance(40) {
			k = n
		}
		out = append(out, k)
		n -= k
	}
	return out
}

func runTblDir(res *Result, drv *Driver, seed uint64, n int, tier string, only int) error {
	res.Rule = "distinct (image kind, model classification, observed Open outcome) triples"
	scratch, err := os.MkdirTemp("", "verif-tbldir-w-")
	if err != nil {
		return err
	}
	defer os.RemoveAll(scratch)
	for idx := 0; idx < n; idx++ {
		if only >= 0 && idx != only {
			continue
		}
		r := NewRng(seed, uint64(idx))
		c := tdGenCase(r, tier)
		res.Cases++
		res.Stat(fmt.Sprintf("records:%d", len(c.keys)))
		res.Stat(fmt.Sprintf("bufsize:%d", c.buf))
		if c.viaMem {
			res.Stat("writer:memstore.FlushWithTombstones")
		} else {
			res.Stat("writer:NewSSTableStreamWriter")
		}
		wdir := filepath.Join(scratch, fmt.Sprintf("w%d", idx), tdTableName)
		rec, final, err := tdWrite(wdir, c)
		if err != nil {
			return fmt.Errorf("case %d: real writer failed: %v", idx, err)
		}
		_ = os.RemoveAll(filepath.Dir(wdir))
		cs := fmt.Sprintf("kvs=%s buf=%d viaMem=%v", c.kvs(), c.buf, c.viaMem)

		// logical sizes and the observed flush points
		var logD, logI []int
		var obsCh []tdChunk
		prevD, prevI := 8, 8
		emissionOK := true
		for _, p := range rec.points {
			switch p.what[0] {
			case 'o':
				if p.diskD != 8 || p.diskI != 8 || p.metaLen != 0 || p.bloomLen != -1 {
					emissionOK = false
				}
			case 'd':
				logD = append(logD, p.logD)
				obsCh = append(obsCh, tdChunk{d: []int{p.diskD - prevD}})
				// during dataWriter.Write nothing may reach index.rio, and no byte beyond what was handed over
				if p.diskI != prevI || p.diskD > p.logD || p.metaLen != 0 || p.bloomLen != -1 {
					emissionOK = false
				}
				prevD = p.diskD
			case 'i':
				logI = append(logI, p.logI)
				obsCh[len(obsCh)-1].i = []int{p.diskI - prevI}
				if p.diskD != prevD || p.diskI > p.logI || p.metaLen != 0 || p.bloomLen != -1 {
					emissionOK = false
				}
				prevI = p.diskI
			}
		}
		res.Evaluations++
		if !emissionOK || len(logD) != len(c.keys) || len(logI) != len(c.keys) {
			res.Disagree(idx, "emission order of the real writer (header flushed at Open, bytes only after they were handed to the buffered writer, metadata empty until Close)",
				"as modelled", fmt.Sprintf("%+v", rec.points), cs)
			continue
		}

		var vals [][]byte
		for _, v := range c.vals {
			vals = append(vals, v)
		}
		oracle := oracleFor(2, vals)
		bloomOK := "0"
		if tdBloomOk(final[tdBloom]) {
			bloomOK = "1"
		}

		ask := func(kind, what, args string, m tdImg, inRun bool, complete bool, rmKind string) error {
			line := fmt.Sprintf("tbldir.run doracle=%s bloomok=%s kvs=%s %s", oracle, bloomOK, c.kvs(), args)
			ans, err := drv.Ask(line)
			if err != nil {
				return err
			}
			mo := tdParseModel(ans)
			full := cs + " " + kind + " " + args
			res.Cmp(idx, what+": image bytes", mo.img, m.String(), full)
			obs, err := tdOpen(m, c.keys)
			if err != nil {
				return err
			}
			res.Cmp(idx, what+": classification vs real Open", mo.expectObs(c.keys), obs.String(), full)
			if mo.class == "complete" {
				cells, err := tdReaderCells(m, c.keys)
				if err != nil {
					return err
				}
				res.Cmp(idx, what+": cells vs real NewSSTableReader", mo.cells, cells, full)
			}
			cls := mo.class
			if cls == "complete" && !m.has[tdMeta] {
				cls = "complete-legacy(no-metadata-file)"
				if strings.Contains(mo.cells, "=!") {
					res.Stat("legacy-table-with-failing-Get")
				}
				if len(c.keys) > 0 && mo.cells == "" {
					res.Stat("legacy-table-empty")
				}
			}
			res.Stat("class:" + kind + ":" + cls)
			if kind == "prefix" || kind == "snap" {
				res.Stat(fmt.Sprintf("abstract-events-done:%d", mo.ev))
			}
			res.NoteNontrivial(kind + "|" + mo.class + "|" + obs.open + fmt.Sprint(obs.kept, obs.tables))

			// independent oracles (no model involved)
			res.Evaluations++
			want := make([]string, len(c.keys))
			none := make([]string, len(c.keys))
			for i, k := range c.keys {
				none[i] = gb(nonNil(k)) + "=nf"
				if len(c.vals[i]) == 0 {
					want[i] = none[i]
				} else {
					want[i] = gb(nonNil(k)) + "=" + gb(c.vals[i])
				}
			}
			all, nothing := strings.Join(want, ";"), strings.Join(none, ";")
			got := strings.Join(obs.gets, ";")
			switch {
			case complete:
				if obs.open != "ok" || !obs.kept || obs.tables != 1 || got != all {
					res.Violate(idx, "C10", "complete table directory is not served as written", "want open=ok kept gets="+all+" got "+obs.String(), full)
				}
			case inRun:
				if obs.open != "ok" || (got != nothing && got != all) || (got == all && all != nothing && !obs.kept) {
					res.Violate(idx, "C10", "kill inside a table writer run: Open fails or serves part of the table", "got "+obs.String(), full)
				}
			case rmKind == "unfinished":
				if obs.open != "ok" || obs.kept || obs.tables != 0 || got != nothing {
					res.Violate(idx, "C10", "interrupted clean-up of an unfinished table leaves something behind that Open keeps or fails on", "got "+obs.String(), full)
				}
			case rmKind == "complete":
				// kept with everything | kept as a legacy table (any content) | Open fails | discarded
				ok := (obs.open == "err" && obs.kept) || (obs.open == "ok" && obs.kept && obs.tables == 1) ||
					(obs.open == "ok" && !obs.kept && obs.tables == 0 && got == nothing)
				if !ok {
					res.Violate(idx, "C10", "half-removed complete table: outcome outside kept/legacy/fails/discarded", "got "+obs.String(), full)
				}
			}
			return nil
		}

		// ---- 1. real snapshots, with the observed chunking
		bloomCh := []int{len(final[tdBloom])}
		obsCalls, marks := tdFlushCalls(final, logD, logI, obsCh, bloomCh)
		common := func(ch []tdChunk, bch []int) string {
			var bp []string
			off := 0
			for _, n := range bch {
				bp = append(bp, gb(final[tdBloom][off:off+n]))
				off += n
			}
			return fmt.Sprintf("chunks=%s bloom=%s", tdChunkStr(ch), strings.Join(bp, "+"))
		}
		for _, p := range rec.points {
			k, ok := marks[p.what]
			if !ok {
				return fmt.Errorf("case %d: no mark for point %s", idx, p.what)
			}
			ti := tdAfter(tdState{}, obsCalls, k).img(final)
			res.Evaluations++
			if ti.String() != p.snap.String() {
				res.Disagree(idx, "real snapshot at "+p.what+" differs from the truncation image of the reference calls", ti.String(), p.snap.String(), cs)
				continue
			}
			// every snapshot of small cases, a sample of larger ones
			if len(rec.points) > 8 && p.what != "open" && p.what != "close" && !r.Chance(50) {
				continue
			}
			if err := ask("snap", "snapshot "+p.what, fmt.Sprintf("mode=prefix %s n=%d", common(obsCh, bloomCh), k), p.snap,
				p.what != "close", p.what == "close", ""); err != nil {
				return err
			}
		}

		// ---- 2. generated chunking: every call boundary of small runs, a sample of larger ones
		genCh := tdGenChunks(r, logD, logI)
		genBloom := tdSplit(r, len(final[tdBloom]))
		genCalls, _ := tdFlushCalls(final, logD, logI, genCh, genBloom)
		comm := common(genCh, genBloom)
		L := len(genCalls)
		var goneAt []int
		for k := 0; k <= L; k++ {
			if L > 22 && k > 7 && k < L-3 && !r.Chance(45) {
				continue
			}
			st := tdAfter(tdState{}, genCalls, k)
			m := st.img(final)
			if err := ask("prefix", fmt.Sprintf("prefix %d/%d", k, L), fmt.Sprintf("mode=prefix %s n=%d", comm, k), m, k < L-1, k >= L-1, ""); err != nil {
				return err
			}
			if k >= 1 && k < L-1 && k != 5 {
				goneAt = append(goneAt, k)
			}
		}

		// ---- 3. removeUnfinishedTable (index.rio first, the rest in any order) on unfinished images
		perm := func() []int {
			o := []int{tdData, tdMeta, tdBloom}
			if r.Chance(30) {
				o = append(o, tdIndex)
			}
			for i := len(o) - 1; i > 0; i-- {
				j := r.Intn(i + 1)
				o[i], o[j] = o[j], o[i]
			}
			return o
		}
		for t := 0; t < 4 && len(goneAt) > 0; t++ {
			k := goneAt[r.Intn(len(goneAt))]
			if t == 0 {
				k = L - 2 // index and data complete, metadata still empty: the image commit d2bdde6 is about
			}
			order := perm()
			rc := tdRemoveCalls(order, true)
			st0 := tdAfter(tdState{}, genCalls, k)
			for j := 0; j <= len(rc); j++ {
				if t > 0 && !r.Chance(60) {
					continue
				}
				m := tdAfter(st0, rc, j).img(final)
				if err := ask("rmunf", fmt.Sprintf("removeUnfinishedTable %d/%d after prefix %d", j, len(rc), k),
					fmt.Sprintf("mode=rmunf %s n=%d order=%s j=%d", comm, k, tdOrderStr(order), j), m, false, false, "unfinished"); err != nil {
					return err
				}
			}
		}
		// the pre-fix order on the same image: metadata unlinked first (model comparison only: what d2bdde6 prevents)
		{
			k := L - 2
			order := []int{tdMeta, tdBloom, tdIndex, tdData}
			m := tdAfter(tdAfter(tdState{}, genCalls, k), tdRemoveCalls(order, false), 1).img(final)
			if err := ask("rmpre", "plain RemoveAll (pre-fix), metadata first",
				fmt.Sprintf("mode=rmpre %s n=%d order=%s j=1", comm, k, tdOrderStr(order)), m, false, false, "prefix-demo"); err != nil {
				return err
			}
		}

		// ---- 4. RemoveAll of the complete table in any order
		for t := 0; t < 2; t++ {
			order := []int{tdIndex, tdData, tdMeta, tdBloom}
			for i := len(order) - 1; i > 0; i-- {
				j := r.Intn(i + 1)
				order[i], order[j] = order[j], order[i]
			}
			rc := tdRemoveCalls(order, false)
			st0 := tdAfter(tdState{}, genCalls, L)
			for j := 0; j <= len(rc); j++ {
				m := tdAfter(st0, rc, j).img(final)
				if err := ask("rmall", fmt.Sprintf("RemoveAll %d/%d of the complete table", j, len(rc)),
					fmt.Sprintf("mode=rmall %s order=%s j=%d", comm, tdOrderStr(order), j), m, false, j == 0, "complete"); err != nil {
					return err
				}
			}
		}

		// ---- 5. arbitrary images (model comparison of `classify` only): every file absent / empty / cut / whole
		for t := 0; t < 4; t++ {
			m := tdImg{dir: true}
			for i := 0; i < 4; i++ {
				switch x := r.Intn(10); {
				case x < 2:
				case x < 3:
					m.has[i], m.f[i] = true, []byte{}
				case x < 5:
					m.has[i], m.f[i] = true, final[i][:r.Intn(len(final[i])+1)]
				default:
					m.has[i], m.f[i] = true, final[i]
				}
			}
			bok := "1"
			if m.has[tdBloom] && !tdBloomOk(m.f[tdBloom]) {
				bok = "0"
			}
			line := fmt.Sprintf("tbldir.run doracle=%s bloomok=%s mode=image index=%s data=%s metaf=%s bloomf=%s",
				oracle, bok, m.ob(0), m.ob(1), m.ob(2), m.ob(3))
			ans, err := drv.Ask(line)
			if err != nil {
				return err
			}
			mo := tdParseModel(ans)
			obs, err := tdOpen(m, c.keys)
			if err != nil {
				return err
			}
			full := cs + " arbitrary " + m.String()
			res.Cmp(idx, "arbitrary image: classification vs real Open", mo.expectObs(c.keys), obs.String(), full)
			if mo.class == "complete" {
				cells, err := tdReaderCells(m, c.keys)
				if err != nil {
					return err
				}
				res.Cmp(idx, "arbitrary image: cells vs real NewSSTableReader", mo.cells, cells, full)
			}
			res.Stat("class:arbitrary:" + mo.class)
			res.NoteNontrivial("arbitrary|" + mo.class + "|" + obs.open + fmt.Sprint(obs.kept, obs.tables))
		}
		if idx < 3 {
			res.Sample(cs + " calls=" + fmt.Sprint(L))
		}
	}
	return nil
}
