package main

import (
	"fmt"
	"os"
	"path/filepath"
	"strconv"
	"strings"

	"github.com/thomasjungblut/go-sstables/recordio"
)

// ---------------------------------------------------------------------------------------------
// stream "riodmg": cut files, altered record-header bytes, out-of-range file headers (C12)

type dmgFile struct {
	comp    int
	recs    [][]byte
	offs    []uint64
	hdrLens []int // header length of each record
	bytes   []byte
	oracle  string
	desc    string
}

func makeDmgFile(r *Rng, dir string, idx int, tier string) (*dmgFile, error) {
	f := &dmgFile{comp: r.Intn(4)}
	if r.Chance(40) {
		f.comp = 0
	}
	n := 1 + r.Intn(4)
	around := []int{36, 127, 128, 200}
	for i := 0; i < n; i++ {
		p := genPayload(r, around)
		if len(p) > 300 {
			p = p[:300]
		}
		f.recs = append(f.recs, p)
	}
	path := filepath.Join(dir, fmt.Sprintf("d%d.rio", idx))
	defer os.Remove(path)
	w, err := recordio.NewFileWriter(recordio.Path(path), recordio.CompressionType(f.comp), recordio.BufferSizeBytes(r.Pick(bufSizes)))
	if err != nil {
		return nil, err
	}
	if err := w.Open(); err != nil {
		return nil, err
	}
	for _, p := range f.recs {
		off, err := w.Write(p)
		if err != nil {
			return nil, err
		}
		f.offs = append(f.offs, off)
	}
	if err := w.Close(); err != nil {
		return nil, err
	}
	f.bytes, err = os.ReadFile(path)
	if err != nil {
		return nil, err
	}
	f.oracle = oracleFor(f.comp, f.recs)
	// header length = record extent minus stored payload length
	c := compressorFor(f.comp)
	for i, p := range f.recs {
		end := uint64(len(f.bytes))
		if i+1 < len(f.offs) {
			end = f.offs[i+1]
		}
		stored := 0
		if p != nil {
			stored = len(p)
			if c != nil {
				st, _ := c.Compress(p)
				stored = len(st)
			}
		}
		f.hdrLens = append(f.hdrLens, int(end-f.offs[i])-stored)
	}
	var parts []string
	for _, p := range f.recs {
		parts = append(parts, gb(p))
	}
	f.desc = fmt.Sprintf("comp=%d recs=%s", f.comp, strings.Join(parts, ","))
	return f, nil
}

// canonical error form: kinds are compared only for uncompressed files (decompressors report
// damage with errors of their own, some of which look like EOF)
func canonErrs(toks []string, comp int) []string {
	out := make([]string, len(toks))
	for i, t := range toks {
		switch {
		case strings.HasPrefix(t, "open-err"):
			out[i] = "open-err"
		case strings.HasPrefix(t, "err:") && comp != 0:
			out[i] = "err"
		default:
			out[i] = t
		}
	}
	return out
}

func readAllReal(path string, rbuf int, maxRecs int) []string {
	prog := make([]string, maxRecs+2)
	for i := range prog {
		prog[i] = "r"
	}
	return runRealReader(path, &rioCase{rbuf: rbuf}, prog)
}

func readAtReal(path string, offs []uint64) []string {
	mm, err := recordio.NewMemoryMappedReaderWithPath(path)
	if err != nil {
		return []string{"open-err:" + errKind(err)}
	}
	defer mm.Close()
	if err := mm.Open(); err != nil {
		return []string{"open-err:" + errKind(err)}
	}
	var out []string
	for _, o := range offs {
		var rec []byte
		err := safely(func() error { var e error; rec, e = mm.ReadNextAt(o); return e })
		if err != nil && strings.HasPrefix(err.Error(), "PANIC") {
			out = append(out, "err:panic")
			continue
		}
		out = append(out, fmtRes(rec, err))
	}
	return out
}

func runRioDmg(res *Result, drv *Driver, seed uint64, n int, tier string, only int) error {
	dir, err := os.MkdirTemp("", "verif-riodmg-")
	if err != nil {
		return err
	}
	defer os.RemoveAll(dir)
	res.Rule = "generated files x {every truncation length (sampled for long files), alterations of every record-header byte (bit flips, 0x00, 0xff, marker bytes, +-1; all 255 values in the thorough tier for short headers), out-of-range file-header fields}; " +
		"one evaluation = one damaged file read by one reader; non-trivial = damaged file differs from the original; distinct = distinct damaged byte strings"
	for idx := 0; idx < n; idx++ {
		if only >= 0 && idx != only {
			continue
		}
		r := NewRng(seed, uint64(idx))
		f, err := makeDmgFile(r, dir, idx, tier)
		if err != nil {
			return err
		}
		res.Cases++
		res.Stat(fmt.Sprintf("comp=%d", f.comp))
		res.Sample(f.desc)
		path := filepath.Join(dir, fmt.Sprintf("x%d.rio", idx))
		rbuf := r.Pick(bufSizes)
		offsStr := make([]string, len(f.offs))
		for i, o := range f.offs {
			offsStr[i] = strconv.FormatUint(o, 10)
		}
		check := func(kind string, dmg []byte, wantSeq func(got []string) string, wantAt func(got []string) string, detail string) error {
			if err := os.WriteFile(path, dmg, 0o644); err != nil {
				return err
			}
			defer os.Remove(path)
			res.NoteNontrivial(string(dmg))
			seq := readAllReal(path, rbuf, len(f.recs))
			at := readAtReal(path, f.offs)
			res.Evaluations += 2
			if why := wantSeq(seq); why != "" {
				res.Violate(idx, "C12", kind+":seq", detail+": "+why+" got "+strings.Join(seq, " "), f.desc+" damaged="+hexs(dmg))
			}
			if why := wantAt(at); why != "" {
				res.Violate(idx, "C12", kind+":readat", detail+": "+why+" got "+strings.Join(at, " "), f.desc+" damaged="+hexs(dmg))
			}
			// model on the same bytes
			prog := strings.TrimSuffix(strings.Repeat("r,", len(f.recs)+2), ",")
			m, err := drv.Ask(fmt.Sprintf("rio.read oracle=%s file=%s prog=%s", f.oracle, hexs(dmg), prog))
			if err != nil {
				return err
			}
			res.Cmp(idx, "rio.read("+kind+")", strings.Join(canonErrs(strings.Split(m, " "), f.comp), " "), strings.Join(canonErrs(seq, f.comp), " "), f.desc+" "+detail)
			m, err = drv.Ask(fmt.Sprintf("rio.readat oracle=%s file=%s offs=%s", f.oracle, hexs(dmg), strings.Join(offsStr, ",")))
			if err != nil {
				return err
			}
			res.Cmp(idx, "rio.readat("+kind+")", strings.Join(canonErrs(strings.Split(m, " "), f.comp), " "), strings.Join(canonErrs(at, f.comp), " "), f.desc+" "+detail)
			return nil
		}

		// ---- (a) truncation
		var cuts []int
		if len(f.bytes) <= 260 || tier == "thorough" && len(f.bytes) <= 1200 {
			for c := 0; c <= len(f.bytes); c++ {
				cuts = append(cuts, c)
			}
		} else {
			for k := 0; k < 40; k++ {
				cuts = append(cuts, r.Intn(len(f.bytes)+1))
			}
			for i, o := range f.offs {
				cuts = append(cuts, int(o), int(o)+f.hdrLens[i], int(o)+f.hdrLens[i]-1, int(o)+1)
			}
		}
		for _, cut := range cuts {
			if cut > len(f.bytes) {
				continue
			}
			res.Stat("cut")
			whole := 0
			for i := range f.offs {
				end := len(f.bytes)
				if i+1 < len(f.offs) {
					end = int(f.offs[i+1])
				}
				if end <= cut {
					whole++
				}
			}
			wantSeq := func(got []string) string {
				if cut < 8 {
					if len(got) == 1 && strings.HasPrefix(got[0], "open-err") {
						return ""
					}
					return "open must fail"
				}
				if len(got) != whole+1 {
					return fmt.Sprintf("want exactly %d records then eof/error", whole)
				}
				for i := 0; i < whole; i++ {
					if got[i] != "ok:"+gb(f.recs[i]) {
						return fmt.Sprintf("record %d differs", i)
					}
				}
				if !strings.HasPrefix(got[whole], "err:") || got[whole] == "err:panic" {
					return "want eof/error after the contained records"
				}
				return ""
			}
			wantAt := func(got []string) string {
				if cut < 8 {
					if len(got) == 1 && strings.HasPrefix(got[0], "open-err") {
						return ""
					}
					return "open must fail"
				}
				if len(got) != len(f.offs) {
					return "missing results"
				}
				for i := range f.offs {
					if i < whole {
						if got[i] != "ok:"+gb(f.recs[i]) {
							return fmt.Sprintf("ReadNextAt of contained record %d", i)
						}
					} else if !strings.HasPrefix(got[i], "err:") || got[i] == "err:panic" {
						return fmt.Sprintf("ReadNextAt of cut record %d must fail", i)
					}
				}
				return ""
			}
			if err := check("cut", f.bytes[:cut], wantSeq, wantAt, fmt.Sprintf("cut at %d of %d", cut, len(f.bytes))); err != nil {
				return err
			}
		}

		// ---- (b) header alterations
		for j := range f.recs {
			for hi := 0; hi < f.hdrLens[j]; hi++ {
				pos := int(f.offs[j]) + hi
				orig := f.bytes[pos]
				var vals []byte
				if tier == "thorough" && len(f.bytes) < 200 {
					for x := 0; x < 256; x++ {
						vals = append(vals, byte(x))
					}
				} else {
					vals = []byte{orig ^ 1, orig ^ 0x80, orig ^ 0x40, orig ^ 2, 0x00, 0xff, 0x91, 0x8d, 0x4c, 0xcc, orig + 1, orig - 1, 0x80, 0x01}
					if !r.Chance(35) {
						vals = vals[:4+r.Intn(4)]
					}
				}
				seen := map[byte]bool{orig: true}
				for _, x := range vals {
					if seen[x] {
						continue
					}
					seen[x] = true
					dmg := append([]byte{}, f.bytes...)
					dmg[pos] = x
					frame := "frame-preserving"
					if hi != 3 && (x >= 0x80) != (orig >= 0x80) {
						frame = "frame-shifting"
					}
					res.Stat("alter:" + frame)
					jj := j
					wantSeq := func(got []string) string {
						if len(got) < jj+1 {
							return fmt.Sprintf("an earlier record failed (%d results)", len(got))
						}
						for i := 0; i < jj; i++ {
							if got[i] != "ok:"+gb(f.recs[i]) {
								return fmt.Sprintf("record %d before the damage differs", i)
							}
						}
						if !strings.HasPrefix(got[jj], "err:") {
							return fmt.Sprintf("reading record %d with a damaged header must fail", jj)
						}
						return ""
					}
					wantAt := func(got []string) string {
						if len(got) != len(f.offs) {
							return "missing results"
						}
						if !strings.HasPrefix(got[jj], "err:") {
							return fmt.Sprintf("ReadNextAt of record %d with a damaged header must fail", jj)
						}
						return ""
					}
					detail := fmt.Sprintf("record %d header byte %d: %02x -> %02x (%s)", j, hi, orig, x, frame)
					if err := check("header-alter:"+frame, dmg, wantSeq, wantAt, detail); err != nil {
						return err
					}
				}
			}
		}

		// ---- (c) file header fields out of range
		type fh struct{ ver, ct uint32 }
		var bad []fh
		for _, v := range []uint32{0, 5, 6, 255, 256, 1 << 31, 0xffffffff} {
			bad = append(bad, fh{v, uint32(f.comp)})
		}
		for _, ct := range []uint32{4, 5, 255, 256, 1 << 31, 0xffffffff} {
			bad = append(bad, fh{4, ct})
		}
		for _, b := range bad {
			dmg := append([]byte{}, f.bytes...)
			le := func(p []byte, v uint32) { p[0], p[1], p[2], p[3] = byte(v), byte(v>>8), byte(v>>16), byte(v>>24) }
			le(dmg[0:4], b.ver)
			le(dmg[4:8], b.ct)
			res.Stat("file-header")
			mustFailOpen := func(got []string) string {
				if len(got) == 1 && strings.HasPrefix(got[0], "open-err") {
					return ""
				}
				return "open must fail"
			}
			if err := check("file-header", dmg, mustFailOpen, mustFailOpen, fmt.Sprintf("version=%d compression=%d", b.ver, b.ct)); err != nil {
				return err
			}
		}
	}
	return nil
}
