package main

// Stream "crash": directory images at every file-system system-call boundary of real sessions (strace), the real
// Open()/Replay() on every image in a child process, and the crash-safety oracles of C02, C07, C10, C13, C17.
// No Lean model is involved here; crashAbstract (crash_image.go) provides the abstract description of every image
// a model stream can compare against.
//
//   sstcheck crash --seed S --n <sessions> --tier quick|thorough [--flavour all|sync|async|reject|wal|nested] [--only <session>]
//
// flavour -> property: sync C02, async C13, reject C17, wal C07, nested C10 (sync sessions, only C10 is reported).

import (
	"bytes"
	"context"
	"encoding/binary"
	"errors"
	"fmt"
	"os"
	"os/exec"
	"path/filepath"
	"sort"
	"strings"
	"sync"
	"syscall"
	"time"

	"github.com/thomasjungblut/go-sstables/recordio"
)

var crashFlavour = "all"
var crashDebugDir = ""

const crashWorkers = 12

// ---------------------------------------------------------------------------------------------
// images

type crashImage struct {
	EvIdx        int // the image holds after this event (-1 = before the session)
	FS           *crashFS
	Hash         string
	Acked        int // ops acknowledged (E marker seen)
	Inflight     int // op begun and not acknowledged, -1 = none
	LastWalClose int // event index of the last close of a log file opened for writing (-1 = none yet)
	Abs          *crashAbs
	Weight       int
}

type crashRun struct {
	S        *crashSession
	Events   []*crashEvent
	Images   []*crashImage
	ExitCode int
	Stderr   string
	Syscalls map[string]int
}

func (r *crashRun) eventStr(i int) string {
	if i < 0 || i >= len(r.Events) {
		return "#-1 (before the session)"
	}
	return r.Events[i].String()
}

func crashIsWalPath(p string, bare bool) bool {
	if !strings.HasSuffix(p, ".wal") {
		return false
	}
	if bare {
		return !strings.Contains(p, "/")
	}
	return strings.HasPrefix(p, "wal/")
}

// crashRunSession traces the session in a fresh directory and builds every image. This is the entry point another
// stream can use as well (images carry the in-memory tree and the abstract description).
func crashRunSession(s *crashSession, debugPrefix string) (*crashRun, error) {
	scratch, err := os.MkdirTemp("", "verif-crash-sess-")
	if err != nil {
		return nil, err
	}
	defer os.RemoveAll(scratch)
	db := filepath.Join(scratch, "db")
	if err := os.Mkdir(db, 0o755); err != nil {
		return nil, err
	}
	specPath := filepath.Join(scratch, "spec.txt")
	if err := os.WriteFile(specPath, []byte(s.Spec()), 0o644); err != nil {
		return nil, err
	}
	keep := ""
	if debugPrefix != "" {
		keep = debugPrefix + ".strace"
		_ = os.WriteFile(debugPrefix+".spec", []byte(s.Spec()), 0o644)
	}
	initial, err := crashLoadFS(db)
	if err != nil {
		return nil, err
	}
	t, err := crashTraceRun(db, s.MaxStr, 10*time.Minute, keep, "crashchild", "--dir", db, "--spec", specPath, "--markfd", "3")
	if err != nil {
		return nil, err
	}
	run := &crashRun{S: s, Events: t.Events, ExitCode: t.ExitCode, Stderr: t.Stderr, Syscalls: t.Syscalls}
	for _, e := range t.Events {
		if (e.Kind == "B" || e.Kind == "E") && (e.Op < 0 || e.Op >= len(s.Ops)) {
			return nil, fmt.Errorf("marker for unknown op %d", e.Op)
		}
		switch e.Kind {
		case "B":
			s.Ops[e.Op].BIdx = e.Idx
		case "E":
			s.Ops[e.Op].EIdx = e.Idx
			s.Ops[e.Op].Result = e.Marker
		}
	}
	imgs, err := crashBuildImages(initial, t.Events, s.Bare)
	if err != nil {
		return nil, err
	}
	run.Images = imgs
	// the replayed tree must be what the child left behind, otherwise the parser or the replayer missed something
	final, err := crashLoadFS(db)
	if err != nil {
		return nil, err
	}
	if len(imgs) > 0 && t.Pending == 0 && final.hash() != imgs[len(imgs)-1].FS.hash() {
		return nil, fmt.Errorf("replayed tree differs from the directory the session left behind: replay %v / disk %v",
			crashListing(imgs[len(imgs)-1].FS), crashListing(final))
	}
	if debugPrefix != "" {
		var sb strings.Builder
		for _, e := range t.Events {
			sb.WriteString(e.String() + "\n")
		}
		_ = os.WriteFile(debugPrefix+".events", []byte(sb.String()), 0o644)
		sb.Reset()
		for _, im := range imgs {
			fmt.Fprintf(&sb, "ev=%d acked=%d inflight=%d %s %s\n", im.EvIdx, im.Acked, im.Inflight, im.Hash, im.Abs.Line())
		}
		_ = os.WriteFile(debugPrefix+".abs", []byte(sb.String()), 0o644)
	}
	return run, nil
}

func crashListing(fs *crashFS) string {
	var out []string
	for _, p := range fs.paths() {
		n := fs.nodes[p]
		if n.dir {
			out = append(out, p+"/")
		} else {
			out = append(out, fmt.Sprintf("%s(%d)", p, len(n.data)))
		}
	}
	return strings.Join(out, " ")
}

// crashBuildImages applies the events one at a time. An entry is produced at the start, after every event that
// changed the tree, and whenever the oracle context changes while the tree stays the same (op begun, op acknowledged,
// log file closed) - consecutive identical entries are skipped.
func crashBuildImages(initial *crashFS, events []*crashEvent, bare bool) ([]*crashImage, error) {
	fs := initial.snapshot()
	var out []*crashImage
	acked, inflight, lastClose := 0, -1, -1
	hash := fs.hash()
	abs := crashAbstract(fs, bare)
	push := func(ev int, snap *crashFS) {
		if n := len(out); n > 0 {
			l := out[n-1]
			if l.Hash == hash && l.Acked == acked && l.Inflight == inflight && l.LastWalClose == lastClose {
				return
			}
		}
		out = append(out, &crashImage{EvIdx: ev, FS: snap, Hash: hash, Acked: acked, Inflight: inflight, LastWalClose: lastClose, Abs: abs})
	}
	cur := fs.snapshot()
	push(-1, cur)
	for _, e := range events {
		switch e.Kind {
		case "B":
			inflight = e.Op
			push(e.Idx, cur)
			continue
		case "E":
			acked, inflight = e.Op+1, -1
			push(e.Idx, cur)
			continue
		case "close":
			if e.WrFile && crashIsWalPath(e.Path, bare) {
				lastClose = e.Idx
				push(e.Idx, cur)
			}
			continue
		}
		if !e.mutating() {
			continue
		}
		changed, err := fs.apply(e)
		if err != nil {
			return nil, fmt.Errorf("replayer: %w", err)
		}
		if changed {
			cur = fs.snapshot()
			hash = cur.hash()
			abs = crashAbstract(cur, bare)
			push(e.Idx, cur)
		}
	}
	return out, nil
}

// ---------------------------------------------------------------------------------------------
// probes (child processes on a materialised copy of an image)

type crashProbe struct {
	Raw     string
	Open    string // "ok" or "err:..."
	Vals    map[string]string
	Compact string            // "" (not run) | ok:<n> | none | err:...
	After   map[string]string // reads after the forced compaction cycle
	Recs    []string          // walprobe
	AbsLine string            // abstract disk before Open (fs.recover syntax), "" = not asked for
	CmpLine string            // what Open made of it: open=ok tables=.. vals=.. wal=.. | open=err
	Fatal   error             // the probe could not be run at all (harness problem)
}

func crashParseProbe(line string, bare bool) *crashProbe {
	p := &crashProbe{Raw: line, Vals: map[string]string{}, After: map[string]string{}}
	for i, f := range strings.Fields(line) {
		kv := strings.SplitN(f, "=", 2)
		if bare {
			switch {
			case i == 0 && len(kv) == 2 && kv[0] == "replay":
				p.Open = kv[1]
			case i == 1:
			default:
				p.Recs = append(p.Recs, f)
			}
			continue
		}
		if len(kv) != 2 {
			continue
		}
		switch kv[0] {
		case "open":
			p.Open = kv[1]
		case "close":
		case "compact":
			p.Compact = kv[1]
		default:
			if strings.HasPrefix(kv[0], "after:") {
				p.After[kv[0][len("after:"):]] = kv[1]
			} else {
				p.Vals[kv[0]] = kv[1]
			}
		}
	}
	return p
}

// withAbs: the probe also prints the abstract disk and the comparison line for fs.recover (the values in full: not for
// sessions with values of several MiB, for which the model is not asked)
func crashProbeFS(fs *crashFS, keys []string, bare bool, withAbs bool) *crashProbe {
	self, err := os.Executable()
	if err != nil {
		return &crashProbe{Fatal: err}
	}
	dir, err := os.MkdirTemp("", "verif-crash-img-")
	if err != nil {
		return &crashProbe{Fatal: err}
	}
	defer os.RemoveAll(dir)
	if err := fs.materialise(dir); err != nil {
		return &crashProbe{Fatal: err}
	}
	ctx, cancel := context.WithTimeout(context.Background(), 90*time.Second)
	defer cancel()
	var cmd *exec.Cmd
	if bare {
		cmd = exec.CommandContext(ctx, self, "walprobe", "--dir", dir)
	} else {
		args := []string{"crashprobe", "--dir", dir, "--keys", strings.Join(keys, ",")}
		if withAbs {
			args = append(args, "--abs")
		}
		cmd = exec.CommandContext(ctx, self, args...)
	}
	var so, se bytes.Buffer
	cmd.Stdout, cmd.Stderr = &so, &se
	err = cmd.Run()
	line := ""
	absLine, cmpLine := "", ""
	for _, l := range strings.Split(strings.TrimSpace(so.String()), "\n") {
		switch {
		case strings.HasPrefix(l, "abs "):
			absLine = l[4:]
		case strings.HasPrefix(l, "cmp "):
			cmpLine = l[4:]
		default:
			line = l
		}
	}
	if err != nil || line == "" {
		// the library killed the process (log.Panicf in a background goroutine) or it hung: reopening did not succeed
		var ee *exec.ExitError
		if err != nil && !errors.As(err, &ee) {
			return &crashProbe{Fatal: err}
		}
		tail := se.String()
		if len(tail) > 200 {
			tail = tail[:200]
		}
		if ctx.Err() != nil {
			return &crashProbe{Fatal: fmt.Errorf("probe child hung for 90 s on an image (machine overloaded, or Open() deadlocks): %s", tail)}
		}
		what := "crashed"
		p := &crashProbe{Open: "err:" + what + ":" + crashSanitize(tail), Vals: map[string]string{}, AbsLine: absLine, CmpLine: "open=err"}
		p.Raw = "open=" + p.Open
		return p
	}
	if strings.Contains(line, "err:timeout") {
		return &crashProbe{Fatal: fmt.Errorf("probe child gave up after 60 s on an image (machine overloaded, or Open() deadlocks)")}
	}
	p := crashParseProbe(line, bare)
	p.AbsLine, p.CmpLine = absLine, cmpLine
	return p
}

func crashParallel(n int, f func(i int)) {
	var wg sync.WaitGroup
	ch := make(chan int)
	w := crashWorkers
	if w > n {
		w = n
	}
	for k := 0; k < w; k++ {
		wg.Add(1)
		go func() {
			defer wg.Done()
			for i := range ch {
				f(i)
			}
		}()
	}
	for i := 0; i < n; i++ {
		ch <- i
	}
	close(ch)
	wg.Wait()
}

type crashProbeCache struct {
	mu    sync.Mutex
	m     map[string]*crashProbe
	noAbs bool // the abstract disk is not needed (see crashProbeFS)
}

// probeAll probes every distinct tree of the list once
func (c *crashProbeCache) probeAll(list []*crashFS, hashes []string, keys []string, bare bool) error {
	var todoFS []*crashFS
	var todoH []string
	seen := map[string]bool{}
	c.mu.Lock()
	for i, h := range hashes {
		if _, ok := c.m[h]; !ok && !seen[h] {
			seen[h] = true
			todoFS = append(todoFS, list[i])
			todoH = append(todoH, h)
		}
	}
	c.mu.Unlock()
	results := make([]*crashProbe, len(todoFS))
	crashParallel(len(todoFS), func(i int) { results[i] = crashProbeFS(todoFS[i], keys, bare, !c.noAbs) })
	c.mu.Lock()
	defer c.mu.Unlock()
	for i, r := range results {
		if r.Fatal != nil {
			return fmt.Errorf("probe could not run: %w", r.Fatal)
		}
		c.m[todoH[i]] = r
	}
	return nil
}

// ---------------------------------------------------------------------------------------------
// oracles

func crashPropOf(flavour string) string {
	switch flavour {
	case "sync":
		return "C02"
	case "async":
		return "C13"
	case "reject":
		return "C17"
	case "wal":
		return "C07"
	}
	return "C10"
}

// the object an open failure is most likely about: the error text names the path, the class list comes from the image
func crashOpenFailClass(a *crashAbs, open string) string {
	if strings.Contains(open, "valuenil") || strings.Contains(open, "keynil") || strings.Contains(open, "emptykv") {
		return "rejected-call-reached-the-log" // the replay hands the memstore a record it refuses
	}
	if strings.Contains(open, "record_header_for_zeros") || strings.Contains(open, "record header for zeros") {
		// the reader found something behind the last record that is neither a record nor zero padding (block-aligned
		// log writers pad their last write)
		return "log-file-with-non-zero-bytes-behind-its-last-record"
	}
	cls := a.Class()
	low := strings.ToLower(open)
	walish := strings.Contains(low, "wal")
	switch {
	case walish:
		for _, w := range a.Wals {
			if !w.Header {
				return "wal-without-header"
			}
		}
		for _, w := range a.Wals {
			if w.Torn {
				return "torn-wal-tail"
			}
		}
		if cls == "clean" || cls == "several-wal-files" {
			return "wal-with-unreplayable-record"
		}
	}
	return cls
}

type crashRefs struct {
	after []crashRefState     // after[i] = reference map after the accepted mutations among ops[0:i]
	hist  map[string][]string // every value (digest) a key ever had, in order
}

func crashBuildRefs(s *crashSession) *crashRefs {
	r := &crashRefs{hist: map[string][]string{}}
	st := crashRefState{m: map[string]string{}, wild: map[string]bool{}}
	r.after = append(r.after, st.clone())
	for _, o := range s.Ops {
		if o.ok() && o.mutation() {
			st.applyOp(o)
			if o.isPut() && !o.Invalid {
				r.hist[o.Key] = append(r.hist[o.Key], o.Digest)
			}
		}
		r.after = append(r.after, st.clone())
	}
	return r
}

func crashContentSig(refs *crashRefs, key, want, got string) string {
	if strings.HasPrefix(got, "!") {
		return "read-fails-after-recovery"
	}
	older := false
	for _, h := range refs.hist[key] {
		if h == got {
			older = true
		}
	}
	switch {
	case want != "-" && got == "-":
		return "lost-acked-write"
	case want == "-" && older:
		return "deleted-key-returns"
	case older:
		return "stale-value-after-recovery"
	}
	return "unexpected-value"
}

type crashEval struct {
	res     *Result
	idx     int
	run     *crashRun
	refs    *crashRefs
	prop    string
	report  bool            // false: evaluate for statistics only (flavour nested reports C10 only)
	badHash map[string]bool // images on which a depth-1 oracle failed (not used as starting points for C10)
}

func (ev *crashEval) caseStr(im *crashImage, probe *crashProbe, extra string) string {
	infl := "none"
	if im.Inflight >= 0 {
		infl = fmt.Sprintf("%d:%s", im.Inflight, ev.run.S.Ops[im.Inflight].Line)
	}
	return fmt.Sprintf("%s | image after event %s; acked ops: %d; in flight: %s%s | image: %s | reopen: %s",
		ev.run.S.Describe(), ev.run.eventStr(im.EvIdx), im.Acked, infl, extra, im.Abs.Line(), clipN(probe.Raw, 600))
}

func clipN(s string, n int) string {
	if len(s) > n {
		return s[:n] + "…"
	}
	return s
}

func (ev *crashEval) violateAt(im *crashImage, prop, sig, detail, cs string) {
	ev.badHash[im.Hash] = true
	ev.violate(prop, sig, detail, cs)
}

func (ev *crashEval) violate(prop, sig, detail, cs string) {
	if !ev.report && prop != "C10" {
		ev.res.Stat("unreported-depth1-violation:" + prop + ":" + sig)
		return
	}
	ev.res.Violate(ev.idx, prop, sig, detail, cs)
}

// what a recovery leaves behind must survive a compaction cycle over all tables (run by the probe after its reads)
func (ev *crashEval) evalCompaction(im *crashImage, abs *crashAbs, probe *crashProbe, prop, pre, post, cs string) {
	if probe.Open != "ok" || probe.Compact == "" {
		return
	}
	ev.res.Evaluations++
	if strings.HasPrefix(probe.Compact, "err") {
		ev.res.Stat("post-recovery-compaction:fails")
		ev.badHash[im.Hash] = true
		ev.violate(prop, pre+"compaction-fails-after-recovery:"+abs.Class()+post, "the compaction cycle over all tables after re-opening failed: "+probe.Compact, cs)
		return
	}
	ev.res.Stat("post-recovery-compaction:" + strings.SplitN(probe.Compact, ":", 2)[0])
	for _, k := range ev.run.S.Keys {
		if probe.After[k] != probe.Vals[k] {
			ev.badHash[im.Hash] = true
			ev.violate(prop, pre+"reads-change-after-post-recovery-compaction:"+abs.Class()+post,
				fmt.Sprintf("key %s reads %s after re-opening and %s after the compaction cycle that followed", k, probe.Vals[k], probe.After[k]), cs)
			return
		}
	}
}

func (ev *crashEval) compactionProp() string {
	if ev.run.S.Flavour == "async" {
		return "C13"
	}
	return "C02"
}

// C02 / C17: acknowledged effects exactly, the op in flight present or absent
func (ev *crashEval) evalSync(im *crashImage, probe *crashProbe) {
	ev.res.Evaluations++
	s := ev.run.S
	if probe.Open != "ok" {
		sig := "open-fails:" + crashOpenFailClass(im.Abs, probe.Open)
		if ev.prop == "C17" && im.Abs.Class() == "clean" {
			for i := 0; i < len(s.Ops) && s.Ops[i].BIdx >= 0 && s.Ops[i].BIdx <= im.EvIdx; i++ {
				if s.Ops[i].Invalid {
					sig = "open-fails:rejected-call-reached-the-log"
				}
			}
		}
		ev.violateAt(im, ev.prop, sig, "re-opening the image failed: "+probe.Open, ev.caseStr(im, probe, ""))
		return
	}
	st := ev.refs.after[im.Acked]
	for _, k := range s.Keys {
		if st.wild[k] {
			continue
		}
		got, ok := probe.Vals[k]
		if !ok {
			got = "?"
		}
		want := st.get(k)
		allowed := []string{want}
		if im.Inflight >= 0 {
			o := s.Ops[im.Inflight]
			if o.Kind == "putmany" {
				// any prefix of its calls may have been made
				for i, in := range o.Inner {
					if o.InKeys[in.Key] == k {
						if in.Del {
							allowed = append(allowed, "-")
						} else {
							allowed = append(allowed, o.Inner[i].Val)
						}
					}
				}
			}
			if o.mutation() && o.Key == k && o.Kind != "putmany" {
				switch {
				case o.isPut() && o.Invalid:
					continue
				case o.isPut():
					allowed = append(allowed, o.Digest)
				default:
					allowed = append(allowed, "-")
				}
			}
		}
		good := false
		for _, a := range allowed {
			good = good || a == got
		}
		if !good {
			sig := crashContentSig(ev.refs, k, want, got) + ":" + im.Abs.Class()
			ev.violateAt(im, ev.prop, sig, fmt.Sprintf("key %s reads %s after re-opening, allowed: %v", k, got, allowed), ev.caseStr(im, probe, ""))
			return
		}
	}
}

// C13: some prefix of the acknowledged sequence (the op in flight may be the last element), not shorter than what
// had been acknowledged when the log file was last closed
func (ev *crashEval) evalAsync(im *crashImage, probe *crashProbe) {
	ev.res.Evaluations++
	s := ev.run.S
	if probe.Open != "ok" {
		ev.violateAt(im, "C13", "open-fails:"+crashOpenFailClass(im.Abs, probe.Open), "re-opening the image failed: "+probe.Open, ev.caseStr(im, probe, ""))
		return
	}
	// the sequence of mutations: one per ordinary op, one per call of a bulk op
	type mut struct {
		o     *crashOp
		inner int // -1: the op itself
	}
	var muts []mut
	lower := 0
	addOp := func(o *crashOp) {
		if o.Kind == "putmany" {
			for i := range o.Inner {
				muts = append(muts, mut{o, i})
			}
			return
		}
		muts = append(muts, mut{o, -1})
	}
	for i := 0; i < im.Acked; i++ {
		o := s.Ops[i]
		if o.ok() && o.mutation() {
			addOp(o)
			if o.EIdx >= 0 && o.EIdx < im.LastWalClose {
				lower = len(muts)
			}
		}
	}
	if im.Inflight >= 0 {
		o := s.Ops[im.Inflight]
		if o.mutation() && (o.Result == "" || o.ok()) {
			addOp(o)
		}
	}
	// the number of keys that read differently from the reference is kept up to date mutation by mutation
	st := crashRefState{m: map[string]string{}, wild: map[string]bool{}}
	inUniverse := map[string]bool{}
	for _, k := range s.Keys {
		inUniverse[k] = true
	}
	differs := map[string]bool{}
	check := func(k string) {
		if !inUniverse[k] {
			return
		}
		if probe.Vals[k] != st.get(k) {
			differs[k] = true
		} else {
			delete(differs, k)
		}
	}
	for _, k := range s.Keys {
		check(k)
	}
	found := -1
	short := -1
	for p := 0; p <= len(muts); p++ {
		if p > 0 {
			if m := muts[p-1]; m.inner >= 0 {
				check(st.applyInner(m.o, m.inner))
			} else {
				st.applyOp(m.o)
				check(m.o.Key)
			}
		}
		if len(differs) == 0 {
			if p >= lower {
				found = p
			} else {
				short = p
			}
		}
	}
	ev.res.Stat(fmt.Sprintf("C13:prefix-lower-bound>0:%v", lower > 0))
	if found >= 0 {
		if found < len(muts) {
			ev.res.Stat("C13:image-lost-a-suffix")
		}
		return
	}
	sig := "not-a-prefix:" + im.Abs.Class()
	detail := fmt.Sprintf("content equals the reference after no prefix of the %d mutations (lower bound %d)", len(muts), lower)
	if short >= 0 {
		sig = "lost-writes-from-before-rotation:" + im.Abs.Class()
		detail = fmt.Sprintf("content equals the reference after %d mutations, but %d had been acknowledged before the log file was closed", short, lower)
	}
	ev.violateAt(im, "C13", sig, detail, ev.caseStr(im, probe, ""))
}

// C07: replay succeeds and yields a prefix of the appended records holding every acknowledged synchronous append
func (ev *crashEval) evalWal(im *crashImage, probe *crashProbe) {
	ev.res.Evaluations++
	s := ev.run.S
	if probe.Open != "ok" {
		ev.violateAt(im, "C07", "replay-fails:"+crashOpenFailClass(im.Abs, "wal "+probe.Open), "replaying the image failed: "+probe.Open, ev.caseStr(im, probe, ""))
		return
	}
	var recs []string
	need := 0
	for _, o := range s.Ops {
		if o.Kind != "append" && o.Kind != "appendsync" {
			continue
		}
		if o.BIdx < 0 || o.BIdx > im.EvIdx {
			break
		}
		if o.EIdx >= 0 && o.EIdx <= im.EvIdx && !o.ok() {
			continue
		}
		recs = append(recs, o.Digest)
		if o.Kind == "appendsync" && o.EIdx >= 0 && o.EIdx <= im.EvIdx {
			need = len(recs)
		}
	}
	got := probe.Recs
	bad := len(got) > len(recs)
	for i := 0; !bad && i < len(got); i++ {
		g := got[i]
		if g == "-" {
			g = "."
		}
		bad = g != recs[i]
	}
	switch {
	case bad:
		ev.violateAt(im, "C07", "replay-not-a-prefix:"+im.Abs.Class(), fmt.Sprintf("replayed %d records that are no prefix of the %d appended", len(got), len(recs)), ev.caseStr(im, probe, ""))
	case len(got) < need:
		ev.violateAt(im, "C07", "lost-synced-record:"+im.Abs.Class(), fmt.Sprintf("replayed %d records, %d were appended synchronously and acknowledged", len(got), need), ev.caseStr(im, probe, ""))
	default:
		if len(got) < len(recs) {
			ev.res.Stat("C07:image-lost-a-suffix")
		}
	}
}

// ---------------------------------------------------------------------------------------------
// C10: recovery interrupted

type crashNested struct {
	im       *crashImage
	expected *crashProbe
	events   []*crashEvent
	openEnd  int // index of the E marker of Open in events
	err      error
}

func crashTraceRecovery(im *crashImage, keys []string, maxStr int, keepLog string) *crashNested {
	n := &crashNested{im: im}
	scratch, err := os.MkdirTemp("", "verif-crash-nest-")
	if err != nil {
		n.err = err
		return n
	}
	defer os.RemoveAll(scratch)
	db := filepath.Join(scratch, "db")
	if err := os.Mkdir(db, 0o755); err != nil {
		n.err = err
		return n
	}
	if err := im.FS.materialise(db); err != nil {
		n.err = err
		return n
	}
	t, err := crashTraceRun(db, maxStr, 3*time.Minute, keepLog, "crashprobe", "--dir", db, "--keys", strings.Join(keys, ","), "--markfd", "3", "--nocompact")
	if err != nil {
		n.err = err
		return n
	}
	line := strings.TrimSpace(t.Stdout)
	if k := strings.LastIndexByte(line, '\n'); k >= 0 {
		line = line[k+1:]
	}
	if line == "" {
		line = "open=err:crashed:" + crashSanitize(clipN(t.Stderr, 200))
	}
	n.expected = crashParseProbe(line, false)
	// the replayed tree must be what the recovery left behind
	chk := im.FS.snapshot()
	for _, e := range t.Events {
		if e.mutating() {
			if _, err := chk.apply(e); err != nil {
				n.err = fmt.Errorf("nested replayer: %w", err)
				return n
			}
		}
	}
	if final, err := crashLoadFS(db); err != nil {
		n.err = err
		return n
	} else if t.Pending == 0 && final.hash() != chk.hash() {
		n.err = fmt.Errorf("nested: replayed tree differs from the directory the recovery left behind: replay %v / disk %v", crashListing(chk), crashListing(final))
		return n
	}
	n.events = t.Events
	n.openEnd = len(t.Events)
	for _, e := range t.Events {
		if e.Kind == "E" && e.Op == 0 {
			n.openEnd = e.Idx
			break
		}
	}
	return n
}

// crashEventObject names the kind of object an event touches
func crashEventObject(e *crashEvent) string {
	p := e.Path
	switch {
	case p == "wal":
		return "wal-dir"
	case strings.HasPrefix(p, "wal/"):
		return "wal-file"
	case strings.HasPrefix(p, "sstable_compaction"):
		if strings.Contains(p, "/") {
			return "compaction-file"
		}
		return "compaction-dir"
	case strings.HasPrefix(p, "sstable_"):
		if strings.Contains(p, "/") {
			return "table-file"
		}
		return "table-dir"
	}
	return "other"
}

type crashNestedImage struct {
	at    string // kind of the interrupting event and of its object, e.g. unlink-wal-file
	fs    *crashFS
	hash  string
	abs   *crashAbs
	where string // description of the interruption point
	phase string // recovery | close
	perm  bool
}

func crashPermutations(m int, all bool) [][]int {
	id := make([]int, m)
	for i := range id {
		id[i] = i
	}
	if all && m <= 4 {
		var out [][]int
		var rec func(cur []int, used []bool)
		rec = func(cur []int, used []bool) {
			if len(cur) == m {
				same := true
				for i := range cur {
					same = same && cur[i] == i
				}
				if !same {
					out = append(out, append([]int{}, cur...))
				}
				return
			}
			for i := 0; i < m; i++ {
				if !used[i] {
					used[i] = true
					rec(append(cur, i), used)
					used[i] = false
				}
			}
		}
		rec(nil, make([]bool, m))
		return out
	}
	rev := make([]int, m)
	for i := range rev {
		rev[i] = m - 1 - i
	}
	out := [][]int{rev}
	if m >= 3 {
		rot := make([]int, m)
		for i := range rot {
			rot[i] = (i + 1) % m
		}
		out = append(out, rot)
		if all {
			for sft := 2; sft < m; sft++ {
				r := make([]int, m)
				for i := range r {
					r[i] = (i + sft) % m
				}
				out = append(out, r)
			}
		}
	}
	return out
}

// crashNestedImages applies the recovery events to the depth-1 image; additionally the unlink runs that empty one
// directory through a directory descriptor (os.RemoveAll) are replayed in other orders.
func crashNestedImages(n *crashNested, allOrders bool) ([]*crashNestedImage, error) {
	fs := n.im.FS.snapshot()
	var out []*crashNestedImage
	seen := map[string]bool{n.im.Hash: true}
	add := func(e *crashEvent, snap *crashFS, where, phase string, perm bool) {
		h := snap.hash()
		if seen[h] {
			return
		}
		seen[h] = true
		at := e.Kind + "-" + crashEventObject(e)
		if perm {
			at += "-other-listing-order"
		}
		out = append(out, &crashNestedImage{at: at, fs: snap, hash: h, abs: crashAbstract(snap, false), where: where, phase: phase, perm: perm})
	}
	evs := n.events
	runEnd := 0
	for i := 0; i < len(evs); i++ {
		e := evs[i]
		if !e.mutating() {
			continue
		}
		phase := "recovery"
		if e.Idx > n.openEnd {
			phase = "close"
		}
		// a run of dirfd-relative unlinks in the same directory
		if e.Kind == "unlink" && e.DirRel && i >= runEnd {
			run := []*crashEvent{e}
			j := i + 1
			for ; j < len(evs); j++ {
				f := evs[j]
				if f.Kind == "unlink" && f.DirRel && f.DirKey == e.DirKey {
					run = append(run, f)
					continue
				}
				if f.mutating() || f.Kind == "B" || f.Kind == "E" {
					break
				}
			}
			runEnd = j
			if len(run) >= 2 {
				base := fs.snapshot()
				for _, perm := range crashPermutations(len(run), allOrders) {
					alt := base.snapshot()
					for k := 0; k < len(perm)-1; k++ {
						if _, err := alt.apply(run[perm[k]]); err != nil {
							return nil, fmt.Errorf("nested replayer (permuted): %w", err)
						}
						add(run[perm[k]], alt.snapshot(), fmt.Sprintf("recovery event %s of the directory removal %v replayed in order %v, %d done", run[perm[k]].String(), crashRunNames(run), perm, k+1), phase, true)
					}
				}
			}
		}
		changed, err := fs.apply(e)
		if err != nil {
			return nil, fmt.Errorf("nested replayer: %w", err)
		}
		if changed {
			add(e, fs.snapshot(), "recovery event "+e.String(), phase, false)
		}
	}
	return out, nil
}

func crashRunNames(run []*crashEvent) []string {
	var out []string
	for _, e := range run {
		out = append(out, filepath.Base(e.Path))
	}
	return out
}

// ---------------------------------------------------------------------------------------------
// the stream

func crashFlavourOf(idx int, flavour string) string {
	switch flavour {
	case "all", "":
		return []string{"sync", "async", "reject", "wal", "sync", "async", "wal", "sync"}[idx%8]
	case "nested":
		return "sync"
	}
	return flavour
}

func crashClassWeight(c string) int {
	switch c {
	case "compaction-flagged-with-partial-table", "compaction-flagged":
		return 6
	case "half-deleted-table-dir":
		return 5
	case "several-wal-files", "compaction-unflagged":
		return 4
	case "partial-table-dir":
		return 3
	case "torn-wal-tail", "wal-without-header", "no-wal-dir":
		return 2
	}
	return 1
}

func runCrash(res *Result, drv *Driver, seed uint64, n int, tier string, only int) error {
	switch crashFlavour {
	case "all", "", "sync", "async", "reject", "wal", "nested":
	default:
		return fmt.Errorf("unknown --flavour %q", crashFlavour)
	}
	if _, err := exec.LookPath("strace"); err != nil {
		return fmt.Errorf("strace is needed for crash images: %w", err)
	}
	if crashDebugDir != "" {
		if err := os.MkdirAll(crashDebugDir, 0o755); err != nil {
			return err
		}
	}
	res.Rule = "distinct abstract image shapes (tables partial/complete, log files header/records/torn, compaction directories flagged or not)"
	thorough := tier == "thorough"
	var abnormal []string
	// sessions n, n+1: the big-record session of the flavours that log through the database (crashGenBigRecordSession;
	// generated from a second random stream, the sessions 0..n-1 are what they were). --only n replays it.
	var bigFlavours []string
	switch crashFlavour {
	case "sync", "async":
		bigFlavours = []string{crashFlavour}
	case "all", "":
		bigFlavours = []string{"async", "sync"}
	}
	// session n+len(bigFlavours): the small-records session of the asynchronous log (crashGenSmallRecordsSession; third
	// random stream): buffer writes that end inside record headers
	smallRecords := 0
	switch crashFlavour {
	case "async", "all", "":
		smallRecords = 1
	}
	// the sessions behind those: bare logs written through direct-I/O writers (crashGenDirectWalSession; fourth random
	// stream), skipped where the file system has no O_DIRECT
	directWal := 0
	switch crashFlavour {
	case "wal":
		directWal = 2
	case "all", "":
		directWal = 1
	}
	if directWal > 0 {
		if ok, err := recordio.IsDirectIOAvailable(); err != nil || !ok {
			res.Stat("direct-io-wal-sessions:skipped-direct-io-not-available-on-this-file-system")
			directWal = 0
		}
	}
	// the session behind those: the database with the asynchronous log on direct-I/O writers, log files larger than the
	// 4 MiB write buffer (crashGenDirectAsyncSession; sixth random stream), skipped where the file system has no O_DIRECT
	directAsync := 0
	switch crashFlavour {
	case "async", "all", "":
		directAsync = 1
		if ok, err := recordio.IsDirectIOAvailable(); err != nil || !ok {
			res.Stat("direct-io-async-session:skipped-direct-io-not-available-on-this-file-system")
			directAsync = 0
		}
	}
	for idx := 0; idx < n+len(bigFlavours)+smallRecords+directWal+directAsync; idx++ {
		if only >= 0 && idx != only {
			continue
		}
		flavour := crashFlavourOf(idx, crashFlavour)
		var s *crashSession
		if idx >= n+len(bigFlavours)+smallRecords+directWal {
			flavour = "async"
			s = crashGenDirectAsyncSession(seed, idx, tier)
			res.Stat("direct-io-async-session")
		} else if idx >= n+len(bigFlavours)+smallRecords {
			flavour = "wal"
			s = crashGenDirectWalSession(seed, idx, tier)
			res.Stat("direct-io-wal-session")
		} else if idx >= n+len(bigFlavours) {
			flavour = "async"
			s = crashGenSmallRecordsSession(seed, idx, tier, flavour)
			res.Stat("small-records-session")
		} else if idx >= n {
			flavour = bigFlavours[idx-n]
			s = crashGenBigRecordSession(seed, idx, tier, flavour)
			res.Stat("big-record-session")
			res.Stat("big-record-session:" + flavour)
		} else {
			rank := 0
			for j := 0; j < idx; j++ {
				if crashFlavourOf(j, crashFlavour) == flavour {
					rank++
				}
			}
			s = crashGenSession(seed, idx, tier, flavour, rank)
		}
		res.Cases++
		res.Stat("flavour:" + flavour)
		res.Stat("profile:" + flavour + ":" + s.Profile)
		res.StatN("ops", len(s.Ops))
		for _, o := range s.Ops {
			res.Stat("op:" + o.Kind)
			if o.Invalid {
				res.Stat("op:invalid-call")
			}
			switch {
			case o.Kind == "putmany":
				res.StatN("putmany:calls", len(o.Inner))
				for _, in := range o.Inner {
					if in.Del {
						res.Stat("putmany:call:delete")
					} else {
						res.Stat(fmt.Sprintf("putmany:call:put:value-bytes=%d", len(in.Val)/2))
					}
				}
			case o.Len > 4*1024*1024:
				res.Stat("value:>4MiB")
			case o.Len > 1024*1024:
				res.Stat("value:>1MiB")
			case o.Len > 4096:
				res.Stat("value:>4KiB")
			case o.Len > 0:
				res.Stat("value:small")
			}
			if o.Kind == "open" || o.Kind == "walopen" {
				for _, f := range strings.Fields(o.Line)[1:] {
					if strings.HasPrefix(f, "mem=") || strings.HasPrefix(f, "thr=") || strings.HasPrefix(f, "wbuf=") || strings.HasPrefix(f, "async=") || strings.HasPrefix(f, "direct=") {
						res.Stat("open:" + f)
					}
				}
			}
		}
		dbg := ""
		if crashDebugDir != "" {
			dbg = filepath.Join(crashDebugDir, fmt.Sprintf("s%d-%03d", seed, idx))
		}
		run, err := crashRunSession(s, dbg)
		if err != nil {
			return fmt.Errorf("session %d (%s): %w", idx, flavour, err)
		}
		if idx < 3 || idx >= n {
			res.Sample(s.Describe())
		}
		res.StatN("events", len(run.Events))
		for _, e := range run.Events {
			res.Stat("event:" + e.Kind)
		}
		for k, v := range run.Syscalls {
			res.StatN("syscall:"+k, v)
		}
		if run.ExitCode != 0 {
			abnormal = append(abnormal, fmt.Sprintf("session %d: child exit %d: %s | %s", idx, run.ExitCode, clipN(run.Stderr, 300), s.Describe()))
			res.Stat("session-child-abnormal-exit")
		}
		for _, o := range s.Ops {
			if o.Result != "" {
				r := o.Result
				if k := strings.IndexByte(r, ' '); k > 0 {
					r = r[:k]
				}
				if strings.HasPrefix(r, "err:other") || strings.HasPrefix(r, "err:panic") {
					r = r[:9]
				}
				res.Stat("result:" + o.Kind + ":" + r)
			}
		}
		res.StatN("image-entries", len(run.Images))

		ev := &crashEval{res: res, idx: idx, run: run, refs: crashBuildRefs(s), prop: crashPropOf(flavour), report: crashFlavour != "nested", badHash: map[string]bool{}}
		// invalid calls must be rejected (C17, API part as far as it matters here)
		for i, o := range s.Ops {
			if o.Invalid && o.ok() {
				ev.violate("C17", "invalid-call-accepted:"+o.Kind+":key="+crashTokKind(o.KeyTok)+":value="+crashTokKind(o.ValTok),
					"a call the documented API rejects returned no error", fmt.Sprintf("%s | op %d", s.Describe(), i))
			}
		}

		if s.Bare && drv != nil {
			if err := crashCmpWalEvents(res, drv, idx, run); err != nil {
				return fmt.Errorf("session %d: %w", idx, err)
			}
		}

		// an Open() inside the session that fails: the directory a clean or unclean predecessor left behind cannot be
		// opened any more. The child ended the session there.
		for i, o := range s.Ops {
			if o.Kind == "open" && o.Result != "" && !o.ok() {
				var at *crashImage
				for _, im := range run.Images {
					if im.EvIdx <= o.BIdx {
						at = im
					}
				}
				if at == nil {
					at = run.Images[0]
				}
				res.Stat("session-reopen-fails")
				ev.violateAt(at, ev.prop, "session-reopen-fails:"+crashOpenFailClass(at.Abs, o.Result),
					fmt.Sprintf("op %d (%s) of the live session returned %s", i, o.Line, o.Result),
					ev.caseStr(at, &crashProbe{Raw: "(live session) open=" + o.Result}, ""))
			}
		}

		// weights and sampling
		sel := crashSelectImages(run, thorough)
		res.StatN("image-entries-checked", len(sel))
		big := false
		for _, o := range s.Ops {
			big = big || strings.HasPrefix(o.ValTok, "g") && o.Len > 100000 || o.Kind == "putmany"
		}
		cache := &crashProbeCache{m: map[string]*crashProbe{}, noAbs: big || drv == nil}
		var fss []*crashFS
		var hs []string
		for _, im := range sel {
			fss = append(fss, im.FS)
			hs = append(hs, im.Hash)
		}
		if err := cache.probeAll(fss, hs, s.Keys, s.Bare); err != nil {
			return fmt.Errorf("session %d: %w", idx, err)
		}
		res.StatN("images-probed", len(cache.m))
		shapes := map[string]bool{}
		bigPartial := map[string]bool{}
		headerCut := map[string]bool{}
		for _, im := range sel {
			probe := cache.m[im.Hash]
			// a log file that ends inside a record larger than the replayer's 4 MiB read buffer
			if _, have, ok := crashImageBigRecordPartial(im.FS, s.Bare); ok {
				res.Stat("image:big-record-partial")
				if !bigPartial[im.Hash] {
					bigPartial[im.Hash] = true
					res.Stat("image:big-record-partial:distinct")
					if have == 4*1024*1024 {
						res.Stat("image:big-record-partial:log-file=header+4MiB")
					}
				}
			}
			// a log file that ends inside a record header (asynchronous log: a buffer write ended there)
			if at, ok := crashImageHeaderCut(im.FS, s.Bare); ok && !headerCut[im.Hash] {
				headerCut[im.Hash] = true
				res.Stat("image:log-file-ends-inside-record-header:distinct")
				res.Stat(fmt.Sprintf("image:log-file-ends-inside-record-header:after-header-byte=%d", at))
			}
			shape := im.Abs.Shape()
			if !shapes[shape] {
				shapes[shape] = true
				res.NoteNontrivial(flavour + ":" + shape)
			}
			res.Stat("image-class:" + im.Abs.Class())
			if probe.Open == "ok" {
				res.Stat("reopen:ok")
			} else {
				res.Stat("reopen:fails")
			}
			switch flavour {
			case "sync", "reject":
				ev.evalSync(im, probe)
			case "async":
				ev.evalAsync(im, probe)
			case "wal":
				ev.evalWal(im, probe)
			}
		}

		if idx >= n+len(bigFlavours)+smallRecords+directWal {
			crashDirectAsyncStats(res, run, sel)
		} else if idx >= n+len(bigFlavours)+smallRecords {
			// direct-I/O log: what the calls answered, and whether blocks reached the disk before the end
			blocks := 0
			for _, e := range run.Events {
				if e.Kind == "write" && crashIsWalPath(e.Path, true) && len(e.Data) >= 4096 {
					blocks++
				}
			}
			res.StatN("direct-io-wal-session:block-writes", blocks)
		} else if idx >= n+len(bigFlavours) {
			// the buffer writes this session exists for: log files of 8 + k * 4 MiB bytes among the images
			nb := 0
			seenB := map[string]bool{}
			for _, im := range sel {
				if seenB[im.Hash] {
					continue
				}
				seenB[im.Hash] = true
				for _, p := range im.FS.paths() {
					if nd := im.FS.nodes[p]; !nd.dir && crashIsWalPath(p, s.Bare) && len(nd.data) > 8 && (len(nd.data)-8)%(4*1024*1024) == 0 {
						nb++
					}
				}
			}
			res.StatN("small-records-session:images-with-log-file-of-header+k*4MiB", nb)
			if nb == 0 {
				res.Stat("small-records-session:without-buffer-write-image")
				fmt.Fprintf(os.Stderr, "crash: session %d (small records) produced no image right after a 4 MiB buffer write\n", idx)
			}
		} else if idx >= n && len(bigPartial) == 0 {
			// the input class this session exists for was not produced (other buffer sizes in the library?)
			res.Stat("big-record-session:without-partial-image")
			fmt.Fprintf(os.Stderr, "crash: session %d (big record) produced no image with a partly written record > 4 MiB\n", idx)
		}

		if !s.Bare {
			// once per distinct image: the compaction cycle after the recovery, and the Lean abstract-disk model
			done := map[string]bool{}
			for _, im := range sel {
				if done[im.Hash] {
					continue
				}
				done[im.Hash] = true
				probe := cache.m[im.Hash]
				ev.evalCompaction(im, im.Abs, probe, ev.compactionProp(), "", "", ev.caseStr(im, probe, ""))
				if drv == nil {
					continue
				}
				if big {
					res.Stat("model:fs.recover-skipped-values-too-big-for-the-line-protocol")
					continue
				}
				if err := crashCmpFsRecover(res, drv, idx, s, im, probe, ev.caseStr(im, probe, "")); err != nil {
					return fmt.Errorf("session %d: %w", idx, err)
				}
			}
		}

		// C10
		if (crashFlavour == "all" || crashFlavour == "" || crashFlavour == "nested") && !s.Bare && idx < n {
			if err := crashRunNested(res, ev, run, sel, cache, thorough); err != nil {
				return fmt.Errorf("session %d (nested): %w", idx, err)
			}
		}
	}
	// the big-log session of the flavour sync (crashGenBigLogSession; fifth random stream; images by stopping the child,
	// see crashRunBigLogSession). --only crashBigLogIdx(n) replays it.
	if (crashFlavour == "sync" || crashFlavour == "all" || crashFlavour == "") && (only < 0 || only == crashBigLogIdx(n)) {
		if err := crashRunBigLogSession(res, seed, crashBigLogIdx(n), tier); err != nil {
			return err
		}
	}
	res.StatN("distinct-abstract-shapes", res.Nontrivial)
	if len(abnormal) > 0 {
		return fmt.Errorf("%d session children ended abnormally (the library killed the process during normal operation?): %s", len(abnormal), strings.Join(abnormal, " || "))
	}
	return nil
}

// ---------------------------------------------------------------------------------------------
// the big-log session of flavour sync (crashGenBigLogSession): not traced.  The child runs the program on its own; at
// every `pause` it stops itself (SIGSTOP: all threads, the flusher included), the parent reads the directory into
// memory - exactly what a kill at that instant leaves behind - and sends SIGCONT.  Each of the few images is then
// re-opened by the probe child and judged by the oracle of the flavour sync (evalSync: acknowledged effects exactly;
// the compaction cycle after the recovery succeeds and changes no read).

func crashRunBigLogSession(res *Result, seed uint64, idx int, tier string) error {
	s := crashGenBigLogSession(seed, idx, tier)
	res.Cases++
	res.Stat("big-log-session")
	res.Stat("flavour:sync")
	res.Stat("profile:sync:" + s.Profile)
	res.StatN("ops", len(s.Ops))
	logged := 0
	var pauses []int
	for i, o := range s.Ops {
		res.Stat("op:" + o.Kind)
		if o.Kind == "pause" {
			pauses = append(pauses, i)
		}
		if o.isPut() {
			logged += o.Len
		}
	}
	res.StatN("big-log-session:MiB-logged-in-one-memstore-generation", logged>>20)
	res.Sample(clipN(s.Describe(), 580))

	scratch, err := os.MkdirTemp("", "verif-crash-biglog-")
	if err != nil {
		return err
	}
	defer os.RemoveAll(scratch)
	db := filepath.Join(scratch, "db")
	if err := os.Mkdir(db, 0o755); err != nil {
		return err
	}
	specPath := filepath.Join(scratch, "spec.txt")
	if err := os.WriteFile(specPath, []byte(s.Spec()), 0o644); err != nil {
		return err
	}
	self, err := os.Executable()
	if err != nil {
		return err
	}
	stderrFile, err := os.Create(filepath.Join(scratch, "stderr.txt"))
	if err != nil {
		return err
	}
	defer stderrFile.Close()
	markR, markW, err := os.Pipe()
	if err != nil {
		return err
	}
	cmd := exec.Command(self, "crashchild", "--dir", db, "--spec", specPath, "--markfd", "3")
	cmd.Dir = scratch
	cmd.Stderr = stderrFile
	cmd.ExtraFiles = []*os.File{markW}
	if err := cmd.Start(); err != nil {
		markR.Close()
		markW.Close()
		return err
	}
	markW.Close()
	pid := cmd.Process.Pid
	var markers bytes.Buffer
	markDone := make(chan struct{})
	go func() {
		defer close(markDone)
		buf := make([]byte, 4096)
		for {
			n, err := markR.Read(buf)
			markers.Write(buf[:n])
			if err != nil {
				return
			}
		}
	}()
	watchdog := time.AfterFunc(8*time.Minute, func() { _ = syscall.Kill(pid, syscall.SIGKILL) })
	defer watchdog.Stop()
	t0 := time.Now()
	var images []*crashFS
	exit := -1
	for {
		var ws syscall.WaitStatus
		_, err := syscall.Wait4(pid, &ws, syscall.WUNTRACED, nil)
		if err == syscall.EINTR {
			continue
		}
		if err != nil {
			return fmt.Errorf("big-log session: wait: %w", err)
		}
		if ws.Stopped() {
			fs, err := crashLoadFS(db)
			if err != nil {
				_ = syscall.Kill(pid, syscall.SIGKILL)
				return fmt.Errorf("big-log session: reading the stopped child's directory: %w", err)
			}
			images = append(images, fs)
			if err := syscall.Kill(pid, syscall.SIGCONT); err != nil {
				return fmt.Errorf("big-log session: SIGCONT: %w", err)
			}
			continue
		}
		if ws.Exited() {
			exit = ws.ExitStatus()
		} else if ws.Signaled() {
			exit = 128 + int(ws.Signal())
		}
		break
	}
	_ = cmd.Process.Release()
	<-markDone
	markR.Close()
	res.StatN("ms:big-log-session:child", int(time.Since(t0).Milliseconds()))
	stderrTxt, _ := os.ReadFile(filepath.Join(scratch, "stderr.txt"))
	if exit != 0 {
		return fmt.Errorf("big-log session %d: the session child ended abnormally (exit %d; the library killed the process during normal operation?): %s | %s",
			idx, exit, clipN(string(stderrTxt), 300), clipN(s.Describe(), 600))
	}
	// the markers: B <n> / E <n> <result>
	run := &crashRun{S: s, ExitCode: exit, Stderr: string(stderrTxt)}
	for _, line := range strings.Split(markers.String(), "\n") {
		f := strings.SplitN(strings.TrimSpace(line), " ", 3)
		if len(f) < 2 || (f[0] != "B" && f[0] != "E") {
			continue
		}
		var op int
		if _, err := fmt.Sscanf(f[1], "%d", &op); err != nil || op < 0 || op >= len(s.Ops) {
			return fmt.Errorf("big-log session: marker for unknown op %q", line)
		}
		e := &crashEvent{Idx: len(run.Events), Kind: f[0], Op: op}
		if f[0] == "B" {
			s.Ops[op].BIdx = e.Idx
		} else {
			if len(f) == 3 {
				e.Marker = f[2]
			}
			s.Ops[op].EIdx, s.Ops[op].Result = e.Idx, e.Marker
		}
		run.Events = append(run.Events, e)
	}
	for _, o := range s.Ops {
		if o.Result != "" {
			r := o.Result
			if k := strings.IndexByte(r, ' '); k > 0 {
				r = r[:k]
			}
			if strings.HasPrefix(r, "err:other") || strings.HasPrefix(r, "err:panic") {
				r = r[:9]
			}
			res.Stat("result:" + o.Kind + ":" + r)
		}
	}
	if len(images) != len(pauses) {
		return fmt.Errorf("big-log session %d: %d images for %d pause ops", idx, len(images), len(pauses))
	}
	names := []string{"after-the-big-phase", "after-the-rotation", "after-the-flush", "at-the-end"}
	for k, fs := range images {
		p := pauses[k]
		if s.Ops[p].BIdx < 0 || s.Ops[p].EIdx < 0 {
			return fmt.Errorf("big-log session %d: pause op %d without markers", idx, p)
		}
		im := &crashImage{EvIdx: s.Ops[p].BIdx, FS: fs, Hash: fs.hash(), Acked: p, Inflight: -1, LastWalClose: -1, Abs: crashAbstract(fs, false)}
		run.Images = append(run.Images, im)
		name := fmt.Sprintf("image-%d", k)
		if k < len(names) {
			name = names[k]
		}
		largest, nwal := 0, 0
		for _, path := range fs.paths() {
			if nd := fs.nodes[path]; !nd.dir && crashIsWalPath(path, false) {
				nwal++
				if len(nd.data) > largest {
					largest = len(nd.data)
				}
			}
		}
		res.Stat(fmt.Sprintf("big-log-session:image:%s:class=%s:log-files=%d", name, im.Abs.Class(), nwal))
		if largest > 128*1024*1024 {
			res.Stat("big-log-session:image-with-log-file>128MiB")
		}
	}
	res.StatN("image-entries", len(run.Images))
	res.StatN("image-entries-checked", len(run.Images))
	ev := &crashEval{res: res, idx: idx, run: run, refs: crashBuildRefs(s), prop: "C02", report: true, badHash: map[string]bool{}}
	t1 := time.Now()
	probes := make([]*crashProbe, len(run.Images))
	crashParallel(len(run.Images), func(i int) { probes[i] = crashProbeFS(run.Images[i].FS, s.Keys, false, false) })
	res.StatN("ms:big-log-session:probes", int(time.Since(t1).Milliseconds()))
	res.StatN("images-probed", len(probes))
	shapes := map[string]bool{}
	for i, im := range run.Images {
		probe := probes[i]
		if probe.Fatal != nil {
			return fmt.Errorf("big-log session %d: probe could not run: %w", idx, probe.Fatal)
		}
		if shape := im.Abs.Shape(); !shapes[shape] {
			shapes[shape] = true
			res.NoteNontrivial("sync:" + shape)
		}
		res.Stat("image-class:" + im.Abs.Class())
		if probe.Open == "ok" {
			res.Stat("reopen:ok")
		} else {
			res.Stat("reopen:fails")
		}
		ev.evalSync(im, probe)
		ev.evalCompaction(im, im.Abs, probe, "C02", "", "", ev.caseStr(im, probe, ""))
		im.FS = nil // 130+ MiB each
	}
	return nil
}

// crashImageBigRecordPartial: some log file of the image ends inside the payload of a record whose header declares more
// than 4 MiB (the read buffer of the replayer): declared payload size and the bytes of the file behind the file header.
func crashImageBigRecordPartial(fs *crashFS, bare bool) (declared uint64, have int, ok bool) {
	for _, p := range fs.paths() {
		n := fs.nodes[p]
		if n.dir || !crashIsWalPath(p, bare) {
			continue
		}
		if d, partial := crashTornRecordPayload(n.data); partial && d > 4*1024*1024 {
			return d, len(n.data) - 8, true
		}
	}
	return 0, 0, false
}

// crashImageHeaderCut: some log file of the image ends inside a record header, 1 <= at < header length bytes into it
func crashImageHeaderCut(fs *crashFS, bare bool) (at int, ok bool) {
	for _, p := range fs.paths() {
		n := fs.nodes[p]
		if n.dir || !crashIsWalPath(p, bare) || len(n.data) < 8 {
			continue
		}
		b := n.data
		info := crashScanRio(b)
		if !info.Torn {
			continue
		}
		// walk to the start of the torn record
		q := 8
		compressed := binary.LittleEndian.Uint32(b[4:8]) != 0
		for q < len(b) {
			r := q
			uv := func() (uint64, bool) {
				v, k := binary.Uvarint(b[r:])
				if k <= 0 {
					return 0, false
				}
				r += k
				return v, true
			}
			if _, o := uv(); !o || r >= len(b) {
				return len(b) - q, true
			}
			isNil := b[r] == 1
			r++
			un, o1 := uv()
			co, o2 := uv()
			_, o3 := uv()
			if !o1 || !o2 || !o3 {
				return len(b) - q, true
			}
			payload := un
			if compressed {
				payload = co
			}
			if isNil {
				payload = 0
			}
			if uint64(len(b)-r) < payload {
				break // cut inside the payload (or right behind the header)
			}
			q = r + int(payload)
		}
	}
	return 0, false
}

// crashTornRecordPayload walks a V4 recordio file image (no checksums checked) up to a record whose header is complete
// and whose payload is cut by the end of the file (at least one byte of it, or none, is there): its declared size.
func crashTornRecordPayload(b []byte) (declared uint64, partial bool) {
	if len(b) < 8 {
		return 0, false
	}
	compressed := binary.LittleEndian.Uint32(b[4:8]) != 0
	for p := 8; p < len(b); {
		q := p
		uv := func() (uint64, bool) {
			v, n := binary.Uvarint(b[q:])
			if n <= 0 {
				return 0, false
			}
			q += n
			return v, true
		}
		if _, ok := uv(); !ok || q >= len(b) { // magic number, then the nil flag
			return 0, false
		}
		isNil := b[q] == 1
		q++
		un, ok1 := uv()
		co, ok2 := uv()
		_, ok3 := uv() // checksum
		if !ok1 || !ok2 || !ok3 {
			return 0, false
		}
		payload := un
		if compressed {
			payload = co
		}
		if isNil {
			payload = 0
		}
		if uint64(len(b)-q) < payload {
			return payload, true
		}
		p = q + int(payload)
	}
	return 0, false
}

func crashTokKind(t string) string {
	switch t {
	case "-":
		return "nil"
	case ".":
		return "empty"
	}
	return "regular"
}

// crashSelectImages: thorough = every entry; quick = every entry of the interesting kinds, the others up to a cap.
func crashSelectImages(run *crashRun, thorough bool) []*crashImage {
	s := run.S
	opAt := func(evIdx int) string {
		for _, o := range s.Ops {
			if o.BIdx >= 0 && o.BIdx <= evIdx && (o.EIdx < 0 || evIdx <= o.EIdx) {
				return o.Kind
			}
		}
		return ""
	}
	for i, im := range run.Images {
		w := 1
		if im.EvIdx >= 0 {
			e := run.Events[im.EvIdx]
			switch opAt(im.EvIdx) {
			case "rotate", "waitflush", "compact", "open", "close", "walopen", "walrotate", "walclose":
				w = 3
			}
			if e.mutating() && !crashIsWalPath(e.Path, s.Bare) {
				w = 3 // flusher / compactor / recovery at work
			}
			if e.Kind == "B" || e.Kind == "E" {
				if w < 2 {
					w = 2
				}
			}
			if i+1 < len(run.Images) && run.Images[i+1].EvIdx >= 0 && run.Events[run.Images[i+1].EvIdx].Kind == "E" && w < 2 {
				w = 2 // last image of an op
			}
			if i > 0 && run.Images[i-1].EvIdx >= 0 && run.Events[run.Images[i-1].EvIdx].Kind == "B" && w < 2 {
				w = 2 // first image of an op
			}
		} else {
			w = 3
		}
		if c := im.Abs.Class(); c != "clean" && w < 3 {
			w = 3
		}
		im.Weight = w
	}
	if thorough {
		return run.Images
	}
	const capDistinct = 160
	distinct := map[string]bool{}
	var out []*crashImage
	keep := map[*crashImage]bool{}
	for w := 3; w >= 1; w-- {
		for _, im := range run.Images {
			if im.Weight != w {
				continue
			}
			if !distinct[im.Hash] {
				if len(distinct) >= capDistinct {
					continue
				}
				distinct[im.Hash] = true
			}
			keep[im] = true
		}
	}
	for _, im := range run.Images {
		if keep[im] {
			out = append(out, im)
		}
	}
	return out
}

func crashRunNested(res *Result, ev *crashEval, run *crashRun, sel []*crashImage, cache *crashProbeCache, thorough bool) error {
	s := run.S
	// candidates: distinct images that re-open fine, the telling ones first, one per abstract shape first
	var cands []*crashImage
	seenH := map[string]bool{}
	for _, im := range sel {
		if seenH[im.Hash] {
			continue
		}
		seenH[im.Hash] = true
		if p := cache.m[im.Hash]; p != nil && p.Open == "ok" && !ev.badHash[im.Hash] {
			cands = append(cands, im)
		}
	}
	if !thorough {
		// one image per distinct recovery situation (log files with their record counts, compaction directories,
		// kind of table leftovers), the most telling situations first; never dropped: several log files with records
		// (the order in which recovery removes them matters), flagged compactions, half deleted tables
		limit := 8
		if crashFlavour == "nested" {
			limit = 20
		}
		type scored struct {
			im    *crashImage
			score int
		}
		var list []scored
		seenKey := map[string]bool{}
		for _, im := range cands {
			key, score := crashNestedKey(im.Abs)
			if seenKey[key] {
				continue
			}
			seenKey[key] = true
			list = append(list, scored{im, score})
		}
		sort.SliceStable(list, func(i, j int) bool { return list[i].score > list[j].score })
		cands = cands[:0]
		for i, x := range list {
			if i >= limit && x.score < 80 {
				break
			}
			if i >= 2*limit {
				break
			}
			cands = append(cands, x.im)
		}
	}
	res.StatN("nested:depth1-images-recovered-under-trace", len(cands))
	nested := make([]*crashNested, len(cands))
	crashParallel(len(cands), func(i int) {
		keep := ""
		if crashDebugDir != "" {
			keep = filepath.Join(crashDebugDir, fmt.Sprintf("s%d-%03d.nested-ev%d.strace", res.Seed, s.Idx, cands[i].EvIdx))
		}
		nested[i] = crashTraceRecovery(cands[i], s.Keys, s.MaxStr, keep)
	})
	for _, n := range nested {
		if n.err != nil {
			return n.err
		}
		res.Stat("nested:class-of-depth1-image:" + n.im.Abs.Class())
		if n.expected.Open != "ok" {
			// the same image re-opened fine in the plain probe: recovery is not deterministic
			ev.violate("C10", "nested:second-recovery-fails:"+n.im.Abs.Class(), "the traced recovery of an image that had re-opened before failed: "+n.expected.Open,
				ev.caseStr(n.im, n.expected, ""))
			continue
		}
		imgs, err := crashNestedImages(n, thorough)
		if err != nil {
			return err
		}
		var fss []*crashFS
		var hs []string
		for _, x := range imgs {
			fss = append(fss, x.fs)
			hs = append(hs, x.hash)
		}
		if err := cache.probeAll(fss, hs, s.Keys, false); err != nil {
			return err
		}
		nrec := 0
		for _, e := range n.events {
			if e.mutating() && e.Idx <= n.openEnd {
				nrec++
			}
		}
		res.StatN("nested:recovery-events", nrec)
		for _, x := range imgs {
			res.Evaluations++
			res.Stat("nested:images")
			if x.perm {
				res.Stat("nested:images-from-permuted-unlink-order")
			}
			res.Stat("nested:image-class:" + x.abs.Class())
			res.NoteNontrivial("nested:" + x.abs.Shape())
			p := cache.m[x.hash]
			prop := "C10"
			pre := "nested:"
			if x.phase == "close" {
				// the recovery was complete, the kill hit the Close() that followed it: an ordinary C02 crash point
				prop, pre = "C02", "nested-close:"
				res.Stat("nested:images-in-close-after-recovery")
			}
			extra := fmt.Sprintf(" | then recovery of that image interrupted after %s | depth-2 image: %s | depth-2 reopen: %s", x.where, x.abs.Line(), clipN(p.Raw, 400))
			ev.evalCompaction(n.im, x.abs, p, prop, pre, ":interrupted-at-"+x.at, ev.caseStr(n.im, n.expected, extra))
			if p.Open != "ok" {
				ev.violate(prop, pre+"open-fails:"+crashOpenFailClass(x.abs, p.Open)+":interrupted-at-"+x.at, "re-opening after an interrupted recovery failed: "+p.Open, ev.caseStr(n.im, n.expected, extra))
				continue
			}
			for _, k := range s.Keys {
				if p.Vals[k] != n.expected.Vals[k] {
					ev.violate(prop, pre+"content-differs:"+x.abs.Class()+":interrupted-at-"+x.at,
						fmt.Sprintf("key %s reads %s after the interrupted and repeated recovery, %s after the uninterrupted one", k, p.Vals[k], n.expected.Vals[k]),
						ev.caseStr(n.im, n.expected, extra))
					break
				}
			}
		}
	}
	return nil
}

// crashCmpWalEvents ties the event list C07's crash theorem quantifies over (SST.C07.replay_after_crash, driver command
// wal.events) to the system calls of the real appender: per call (NewAppender, every Append/AppendSync/Rotate, Close)
// the same creates, write calls with the same lengths, fsyncs and closes, in the same order.
func crashCmpWalEvents(res *Result, drv *Driver, idx int, run *crashRun) error {
	s := run.S
	if len(s.Ops) == 0 || s.Ops[0].Kind != "walopen" {
		return nil
	}
	f := strings.Fields(s.Ops[0].Line)
	if len(f) != 3 {
		return nil
	}
	buf := f[2]
	if buf == "0" {
		buf = "4194304"
	}
	var ops []string
	closed := false
	for _, o := range s.Ops[1:] {
		switch o.Kind {
		case "append", "appendsync":
			if strings.HasPrefix(o.ValTok, "g") {
				res.Stat("model:wal.events-skipped-record-too-big-for-the-line-protocol")
				return nil
			}
			if o.Kind == "append" {
				ops = append(ops, "a:"+o.ValTok)
			} else {
				ops = append(ops, "s:"+o.ValTok)
			}
		case "walrotate":
			ops = append(ops, "r")
		case "walclose":
			closed = true
		}
	}
	model, err := drv.Ask(fmt.Sprintf("wal.events max=%s buf=%s comp=0 oracle= ops=%s", f[1], buf, strings.Join(ops, ",")))
	if err != nil {
		return err
	}
	var groups []string
	for _, o := range s.Ops {
		if o.BIdx < 0 || o.EIdx < 0 {
			return nil // the child died, nothing to compare
		}
		var evs []string
		for _, e := range run.Events[o.BIdx+1 : o.EIdx] {
			switch e.Kind {
			case "create":
				evs = append(evs, "c:"+e.Path)
			case "write":
				evs = append(evs, fmt.Sprintf("w:%s:%d", e.Path, len(e.Data)))
			case "fsync":
				evs = append(evs, "f:"+e.Path)
			case "close":
				evs = append(evs, "x:"+e.Path)
			default:
				evs = append(evs, e.Kind+":"+e.Path)
			}
		}
		groups = append(groups, strings.Join(evs, ","))
	}
	if !closed {
		// the session ends without Close: the model's last group has no counterpart
		mg := strings.Split(model, "/")
		if len(mg) > 0 && !strings.Contains(model, "bad-op") {
			model = strings.Join(mg[:len(mg)-1], "/")
		}
	}
	res.Stat("model:wal.events-compared")
	res.Cmp(idx, "wal.events (system calls per appender call)", strings.ReplaceAll(model, "/", " / "), strings.ReplaceAll(strings.Join(groups, "/"), "/", " / "), s.Describe())
	return nil
}

// crashNestedKey: what the recovery of an image has to do (its situation) and how telling that is for C10
func crashNestedKey(a *crashAbs) (string, int) {
	var w, c []string
	withRecords := 0
	for _, x := range a.Wals {
		w = append(w, fmt.Sprintf("%s:%s", x.Name, x.shape()))
		if x.Records > 0 {
			withRecords++
		}
	}
	flagged := false
	for _, x := range a.Comps {
		c = append(c, fmt.Sprintf("%v:%s", x.Flagged, x.Table.State))
		flagged = flagged || x.Flagged
	}
	partial, half := 0, false
	for _, t := range a.Tables {
		if t.State != "complete" {
			partial++
			for _, f := range t.Present {
				half = half || (f == "meta.pb.bin" && t.State == "partial")
			}
		}
	}
	score := 10
	switch {
	case withRecords >= 2:
		score = 100
	case flagged:
		score = 90
	case half:
		score = 80
	case partial > 0 && withRecords > 0:
		score = 50
	case len(a.Comps) > 0:
		score = 40
	case withRecords > 0:
		score = 30
	}
	return fmt.Sprintf("W[%s] C[%s] partial=%v half=%v tables=%d", strings.Join(w, " "), strings.Join(c, " "), partial > 0, half, len(a.Tables)), score
}

// crashCmpFsRecover ties the Lean abstract-disk model (L6-fs, driver command fs.recover) to a real image: the abstract
// disk is computed from the real files by the probe child (real table reader, real record reader, the library's
// protobuf types) before it calls Open; the model's recover must agree with the real Open on success/failure, on what
// every key reads as, on the live tables and on the log files afterwards. ok=0 means the image is outside DiskOk,
// i.e. a disk the crash theorems do not cover. Any difference is a disagreement (correspondence), not a violation.
func crashCmpFsRecover(res *Result, drv *Driver, idx int, s *crashSession, im *crashImage, probe *crashProbe, cs string) error {
	if probe.AbsLine == "" || probe.CmpLine == "" {
		res.Stat("model:fs.recover-skipped-no-abstract-disk")
		return nil
	}
	for _, bad := range []string{"UNSCANNABLE", "UNPARSABLE", "UNREADABLE", "OTHER="} {
		if strings.Contains(probe.AbsLine, bad) {
			res.Stat("model:fs.recover-skipped-" + strings.ToLower(strings.TrimSuffix(bad, "=")))
			if os.Getenv("CRASH_DEBUG_SKIPS") != "" {
				fmt.Fprintf(os.Stderr, "SKIP %s | %s | %s\n", bad, im.Abs.Line(), probe.AbsLine)
			}
			return nil
		}
	}
	m, err := drv.Ask("fs.recover " + probe.AbsLine + " keys=" + strings.Join(s.Keys, ","))
	if err != nil {
		return err
	}
	model := m
	switch {
	case strings.HasPrefix(m, "err:"):
		model = "open=err"
		res.Stat("model:fs.recover:" + m)
	case strings.HasPrefix(m, "ok "):
		var keep []string
		for _, f := range strings.Fields(m[3:]) {
			if !strings.HasPrefix(f, "events=") {
				keep = append(keep, f)
			}
		}
		model = "open=ok " + strings.Join(keep, " ")
		res.Stat("model:fs.recover:ok")
	}
	impl := probe.CmpLine
	if strings.HasPrefix(impl, "open=ok ") {
		impl = "open=ok ok=1 " + impl[len("open=ok "):]
	}
	res.Stat("model:fs.recover-compared")
	res.Cmp(idx, "fs.recover (abstract disk of a real image vs the real Open)", model, impl, cs+" | abstract disk: "+clipN(probe.AbsLine, 1500))
	return nil
}

// crashDirectAsyncStats: what the direct-I/O session of the flavour async (crashGenDirectAsyncSession) really produced:
// the writes each log file received (whole 4 MiB buffers), where the data of the last write ended, and the images that
// hold a ROTATED log file of more than one buffer (the images between a rotation and the end of that table's flush).
func crashDirectAsyncStats(res *Result, run *crashRun, sel []*crashImage) {
	const buf = 4 * 1024 * 1024
	writes := map[string]int{}
	last := map[string][]byte{}
	for _, e := range run.Events {
		if e.Kind == "write" && crashIsWalPath(e.Path, false) && len(e.Data) > 0 {
			writes[e.Path]++
			last[e.Path] = e.Data
			if len(e.Data) == buf {
				res.Stat("direct-io-async-session:log-write-of-a-whole-4MiB-buffer")
			} else {
				res.Stat("direct-io-async-session:log-write-of-another-size")
			}
		}
	}
	for p, nw := range writes {
		if nw < 2 {
			res.Stat("direct-io-async-session:log-file-written-once")
			continue
		}
		res.Stat("direct-io-async-session:log-file-written-more-than-once (buffer reused)")
		d := last[p]
		end := len(d)
		for end > 0 && d[end-1] == 0 {
			end--
		}
		switch {
		case end <= 4096:
			res.Stat("direct-io-async-session:last-write-data-ends-in-first-block-behind-the-refill")
		case end > len(d)-4096:
			res.Stat("direct-io-async-session:last-write-data-ends-in-last-block")
		default:
			res.Stat("direct-io-async-session:last-write-data-ends-in-a-middle-block")
		}
	}
	seen := map[string]bool{}
	n := 0
	for _, im := range sel {
		if seen[im.Hash] {
			continue
		}
		seen[im.Hash] = true
		var wals []string
		for _, p := range im.FS.paths() {
			if nd := im.FS.nodes[p]; !nd.dir && crashIsWalPath(p, false) {
				wals = append(wals, p)
			}
		}
		sort.Strings(wals)
		if len(wals) >= 2 && len(im.FS.nodes[wals[0]].data) > buf {
			n++
		}
	}
	res.StatN("direct-io-async-session:images-with-rotated-log-file>4MiB (rotation done, table flush not finished)", n)
	if n == 0 {
		res.Stat("direct-io-async-session:without-rotated-big-log-image")
		fmt.Fprintf(os.Stderr, "crash: session %d (direct-I/O async) produced no image with a rotated log file larger than the write buffer\n", run.S.Idx)
	}
}
