package main

import "errors"

var crashFlavour = "all"
var crashDebugDir = ""

func runCrash(res *Result, drv *Driver, seed uint64, n int, tier string, only int) error {
	return errors.New("stream crash: under construction")
}
