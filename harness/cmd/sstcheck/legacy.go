package main

import (
	"bytes"
	"encoding/binary"
	"errors"
	"fmt"
	"hash/fnv"
	"io"
	"os"
	"path/filepath"
	"reflect"
	"regexp"
	"runtime"
	"sort"
	"strings"

	"github.com/steakknife/bloomfilter"
	"github.com/thomasjungblut/go-sstables/recordio"
	"github.com/thomasjungblut/go-sstables/sstables"
	sProto "github.com/thomasjungblut/go-sstables/sstables/proto"
	gproto "google.golang.org/protobuf/proto"
)

// ---------------------------------------------------------------------------------------------
// stream "legacy" (C12, C04, C03, C06): the formats the library can no longer write but still reads everywhere —
// recordio files of version 1, 2, 3 and version-0 tables — real readers vs the Lean model (SST/Model/RecordIOLegacy.lean,
// SST/Model/SSTableV0.lean) plus the property oracles on the real results.
//
// part A (two of three indices): one recordio file of version 1–3 — a file of the library's own test_files/v{1,2,3}_compat
// or a generated one (version x compression x nil / empty / marker-bytes / random payloads) — read sequentially with
// skips, by offset and via SeekNext from every offset; then cut at every length, with zero / garbage tails and with a
// damaged length field.
// part B (every third index): one version-0 table — a copy of the library's test_files/v0_compat tables or a
// synthesised one (recordio version 1–4 x compression per file, metadata absent / version 0, optional bloom filter) —
// through every index loader and read option; then with a damaged value, a cut data file, a cut index file.

func init() {
	streams["legacy"] = runLegacy
}

const legacyRule = "part A: recordio files of version 1-3 (the library's compat files + generated: version x compression x nil/empty/marker-bytes/random payloads), " +
	"the reference encoder of the model compared byte for byte with the file, sequential ReadNext/SkipNext programs, ReadNextAt at every record offset and at stray offsets, " +
	"SeekNext from every offset (sampled on big files), every cut length (sampled on big files), zero and garbage tails, one damaged length field; " +
	"part B: version-0 tables (the library's v0_compat tables + synthesised: recordio version 1-4 x compression per file x metadata absent / version 0 x bloom filter) " +
	"through the loaders slice(default), slice, skip, map4, map20, disk x verify-on-load x verify-on-read with Get/Contains/Scan/ScanStartingAt/ScanRange probes, " +
	"the reported metadata and the compaction candidate test computed from it; then a flipped value byte, a cut data file, a cut index file. " +
	"non-trivial = at least one record / pair was returned; distinct = distinct driver lines. " +
	"C04 oracle: intact files return the written records in order, by offset and after skips (as the version can express them). " +
	"C12 oracle: a cut / tail-damaged file returns exactly the genuine records wholly inside the remaining bytes, in order, then an error. " +
	"C03 oracle: every loader answers like the sorted map of the pairs (values nil for nil/empty). C06: the candidate test on the real metadata equals the model's."

var legacyMagicV1 = []byte{0x91, 0x06, 0x13, 0x00}

// ---------------------------------------------------------------------------------------------
// reference encoder / parser of the legacy layouts (independent of the repository and of the Lean model)

type lrec struct {
	payload   []byte // nil = nil record (version 3 only keeps it apart)
	stored    []byte
	off       int
	hdrLen    int
	storedLen int
}

type lfile struct {
	name     string
	version  int
	ct       int
	recs     []lrec
	file     []byte
	intact   int  // length of the well-formed part (header + records)
	parsed   bool // the whole file is header + records (+ zero padding)
	payloads [][]byte
}

func legacyHeader(version, ct int) []byte {
	b := make([]byte, 8)
	binary.LittleEndian.PutUint32(b[0:4], uint32(version))
	binary.LittleEndian.PutUint32(b[4:8], uint32(ct))
	return b
}

// one record of the given version (4 = current format, through the reference encoder of the sst stream)
func legacyRecord(version, ct int, p []byte) (rec []byte, hdrLen int, stored []byte, err error) {
	if version == 4 {
		rec = sstRefRecord(ct, p, p == nil)
		st := p
		if ct != 0 {
			st, _ = compressorFor(ct).Compress(nonNil(p))
		}
		if p == nil {
			return rec, len(rec), nil, nil
		}
		return rec, len(rec) - len(st), st, nil
	}
	stored = nonNil(p)
	clen := uint64(0)
	if ct != 0 {
		st, e := compressorFor(ct).Compress(nonNil(p))
		if e != nil {
			return nil, 0, nil, e
		}
		stored = st
		clen = uint64(len(st))
	}
	var h []byte
	switch version {
	case 1:
		h = append(h, legacyMagicV1...)
		h = binary.LittleEndian.AppendUint64(h, uint64(len(p)))
		h = binary.LittleEndian.AppendUint64(h, clen)
	case 2:
		h = append(h, magic...)
		h = appendUvarint(h, uint64(len(p)))
		h = appendUvarint(h, clen)
	default:
		h = append(h, magic...)
		if p == nil {
			h = append(h, 1)
		} else {
			h = append(h, 0)
		}
		h = appendUvarint(h, uint64(len(p)))
		h = appendUvarint(h, clen)
		if p == nil {
			return h, len(h), nil, nil
		}
	}
	return append(append([]byte{}, h...), stored...), len(h), stored, nil
}

func legacyEncode(version, ct int, payloads [][]byte) (*lfile, error) {
	f := &lfile{version: version, ct: ct, parsed: true}
	f.file = legacyHeader(version, ct)
	for _, p := range payloads {
		rec, hl, st, err := legacyRecord(version, ct, p)
		if err != nil {
			return nil, err
		}
		f.recs = append(f.recs, lrec{payload: p, stored: st, off: len(f.file), hdrLen: hl, storedLen: len(rec) - hl})
		f.file = append(f.file, rec...)
		f.payloads = append(f.payloads, p)
	}
	f.intact = len(f.file)
	return f, nil
}

func legacyUvarint(b []byte) (uint64, int) {
	var x uint64
	var s uint
	for i, c := range b {
		if i == 10 {
			return 0, -1
		}
		if c < 0x80 {
			if i == 9 && c > 1 {
				return 0, -1
			}
			return x | uint64(c)<<s, i + 1
		}
		x |= uint64(c&0x7f) << s
		s += 7
	}
	return 0, 0
}

// legacyParse walks a file of version 1-3 record by record trusting the length fields. It stops at the first position
// that is not a complete record; `parsed` tells whether only zero bytes (direct-I/O padding) follow.
func legacyParse(name string, file []byte) *lfile {
	f := &lfile{name: name, file: file}
	if len(file) < 8 {
		return f
	}
	f.version = int(binary.LittleEndian.Uint32(file[0:4]))
	f.ct = int(binary.LittleEndian.Uint32(file[4:8]))
	if f.version < 1 || f.version > 3 || f.ct > 3 {
		return f
	}
	pos := 8
	for pos < len(file) {
		b := file[pos:]
		var ulen, clen uint64
		hl := 0
		isNil := false
		switch f.version {
		case 1:
			if len(b) < 20 || !bytes.Equal(b[:4], legacyMagicV1) {
				goto done
			}
			ulen, clen, hl = binary.LittleEndian.Uint64(b[4:12]), binary.LittleEndian.Uint64(b[12:20]), 20
		default:
			if len(b) < 3 || !bytes.Equal(b[:3], magic) {
				goto done
			}
			hl = 3
			if f.version == 3 {
				if len(b) < 4 {
					goto done
				}
				isNil = b[3] == 1
				hl = 4
			}
			u, n := legacyUvarint(b[hl:])
			if n <= 0 {
				goto done
			}
			hl += n
			c, m := legacyUvarint(b[hl:])
			if m <= 0 {
				goto done
			}
			hl += m
			ulen, clen = u, c
		}
		n := ulen
		if f.ct != 0 {
			n = clen
		}
		if isNil {
			n = 0
		}
		if n > uint64(len(b)-hl) {
			goto done
		}
		stored := b[hl : hl+int(n)]
		var payload []byte
		if !isNil {
			payload = append([]byte{}, stored...)
			if f.ct != 0 {
				d, err := compressorFor(f.ct).Decompress(stored)
				if err != nil {
					goto done
				}
				payload = nonNil(d)
			}
		}
		f.recs = append(f.recs, lrec{payload: payload, stored: stored, off: pos, hdrLen: hl, storedLen: int(n)})
		f.payloads = append(f.payloads, payload)
		pos += hl + int(n)
	}
done:
	f.intact = pos
	f.parsed = true
	for _, x := range file[pos:] {
		if x != 0 {
			f.parsed = false
		}
	}
	return f
}

// does the compressor's Decompress hand back nil for an empty result? (external code: a parameter of the model)
var legacyEmptyNil = func() [4]bool {
	var out [4]bool
	for ct := 1; ct <= 3; ct++ {
		c := compressorFor(ct)
		st, err := c.Compress([]byte{})
		if err != nil {
			continue
		}
		d, err := c.Decompress(st)
		out[ct] = err == nil && d == nil
	}
	return out
}()

// what reading the written payload p gives back, by version
func legacyBack(version, ct int, p []byte) string {
	switch version {
	case 1:
		if ct != 0 && len(p) == 0 && legacyEmptyNil[ct] {
			return "-"
		}
		return gb(nonNil(p))
	case 2:
		return gb(nonNil(p))
	}
	return gb(p)
}

// raw:stored pairs for the model's table-driven compressor
func legacyOracle(ct int, recs []lrec) string {
	if ct <= 0 || ct > 3 {
		return ""
	}
	seen := map[string]bool{}
	var parts []string
	add := func(raw, stored []byte) {
		k := string(raw) + "\x00|" + string(stored)
		if seen[k] {
			return
		}
		seen[k] = true
		parts = append(parts, gb(nonNil(raw))+":"+gb(nonNil(stored)))
	}
	if st, err := compressorFor(ct).Compress([]byte{}); err == nil {
		add([]byte{}, st)
	}
	for _, r := range recs {
		if r.stored != nil {
			add(r.payload, r.stored)
		}
	}
	return strings.Join(parts, ",")
}

// ---------------------------------------------------------------------------------------------
// the library's own legacy files

type legacyCompat struct {
	name string
	data []byte
}

func legacyPkgDir(fn interface{}) string {
	if f := runtime.FuncForPC(reflect.ValueOf(fn).Pointer()); f != nil {
		file, _ := f.FileLine(f.Entry())
		return filepath.Dir(file)
	}
	return ""
}

func legacyCompatFiles() []legacyCompat {
	var out []legacyCompat
	for _, base := range []string{legacyPkgDir(recordio.NewFileReader), "/repo/recordio"} {
		if base == "" {
			continue
		}
		for _, v := range []string{"v1_compat", "v2_compat", "v3_compat"} {
			ents, err := os.ReadDir(filepath.Join(base, "test_files", v))
			if err != nil {
				continue
			}
			for _, e := range ents {
				b, err := os.ReadFile(filepath.Join(base, "test_files", v, e.Name()))
				if err == nil {
					out = append(out, legacyCompat{name: v + "/" + e.Name(), data: b})
				}
			}
		}
		if len(out) > 0 {
			break
		}
	}
	sort.Slice(out, func(i, j int) bool { return out[i].name < out[j].name })
	return out
}

// ---------------------------------------------------------------------------------------------
// real readers

func legacyErrTok(err error) string {
	if err != nil && strings.HasPrefix(err.Error(), "PANIC") {
		return "err:panic"
	}
	return "err:" + errKind(err)
}

func legacyOpenTok(file []byte) string {
	if len(file) < 8 {
		return "open:?"
	}
	return fmt.Sprintf("open:%d:%d", binary.LittleEndian.Uint32(file[0:4]), binary.LittleEndian.Uint32(file[4:8]))
}

func legacyRealSeq(path string, file []byte, rbuf int, prog []string) []string {
	rd, err := recordio.NewFileReader(recordio.ReaderPath(path), recordio.ReaderBufferSizeBytes(rbuf))
	if err != nil {
		return []string{"new-err:" + err.Error()}
	}
	defer rd.Close()
	if err := rd.Open(); err != nil {
		return []string{"open-err:" + errKind(err)}
	}
	out := []string{legacyOpenTok(file)}
	for _, op := range prog {
		if op == "r" {
			var rec []byte
			err := safely(func() error { var e error; rec, e = rd.ReadNext(); return e })
			if err != nil {
				out = append(out, legacyErrTok(err))
				break
			}
			out = append(out, "ok:"+gb(rec))
		} else {
			err := safely(func() error { return rd.SkipNext() })
			if err != nil {
				out = append(out, legacyErrTok(err))
				break
			}
			out = append(out, "ok")
		}
	}
	return out
}

func legacyRealAt(path string, file []byte, offs []int, seek bool) []string {
	mm, err := recordio.NewMemoryMappedReaderWithPath(path)
	if err != nil {
		return []string{"open-err:" + errKind(err)}
	}
	defer mm.Close()
	if err := mm.Open(); err != nil {
		return []string{"open-err:" + errKind(err)}
	}
	out := []string{legacyOpenTok(file)}
	for _, o := range offs {
		var rec []byte
		var at uint64
		err := safely(func() error {
			var e error
			if seek {
				at, rec, e = mm.SeekNext(uint64(o))
			} else {
				rec, e = mm.ReadNextAt(uint64(o))
			}
			return e
		})
		switch {
		case err != nil:
			out = append(out, legacyErrTok(err))
		case seek:
			out = append(out, fmt.Sprintf("ok:%d:%s", at, gb(rec)))
		default:
			out = append(out, "ok:"+gb(rec))
		}
	}
	return out
}

var legacyOpenErrRe = regexp.MustCompile(`open-err:\w+`)

// errors of external code (decompressors) keep the identity the external code gave them: where the model says
// "decompression failed" any error of the implementation counts; open errors are compared as "open failed"
func legacyCanon(model, impl string) (string, string) {
	model = legacyOpenErrRe.ReplaceAllString(model, "open-err")
	impl = legacyOpenErrRe.ReplaceAllString(impl, "open-err")
	m, i := strings.Split(model, " "), strings.Split(impl, " ")
	if len(m) == len(i) {
		for k := range m {
			if m[k] == "err:decomp" && strings.HasPrefix(i[k], "err:") && i[k] != "err:panic" {
				i[k] = "err:decomp"
			}
		}
	}
	return strings.Join(m, " "), strings.Join(i, " ")
}

// every position of the file at which a trial read would find a header: the payload length it announces and where the
// payload would start
func legacyClaims(version, ct int, file []byte, visit func(start int, n uint64)) {
	claim := func(start int, u, c uint64) {
		n := u
		if ct != 0 {
			n = c
		}
		visit(start, n)
	}
	for p := 0; p+3 <= len(file); p++ {
		if version == 1 {
			if p+20 <= len(file) && bytes.Equal(file[p:p+4], legacyMagicV1) {
				claim(p+20, binary.LittleEndian.Uint64(file[p+4:p+12]), binary.LittleEndian.Uint64(file[p+12:p+20]))
			}
			continue
		}
		if !bytes.Equal(file[p:p+3], magic) {
			continue
		}
		q := p + 3
		if version == 3 {
			if q >= len(file) {
				continue
			}
			if file[q] == 1 {
				continue
			}
			q++
		}
		end := p + 31
		if end > len(file) {
			end = len(file)
		}
		if q > end {
			continue
		}
		u, n := legacyUvarint(file[q:end])
		if n <= 0 {
			continue
		}
		c, m := legacyUvarint(file[q+n : end])
		if m <= 0 {
			continue
		}
		claim(q+n+m, u, c)
	}
}

// the largest payload length any marker position of the file announces (what a trial read would allocate)
func legacyMaxClaim(version, ct int, file []byte) uint64 {
	var max uint64
	legacyClaims(version, ct, file, func(_ int, n uint64) {
		if n > max {
			max = n
		}
	})
	return max
}

// the model's compressor is a table: besides the written records it needs every byte range a trial read (SeekNext,
// ReadNextAt at a stray offset, a damaged length field) hands to the decompressor and the decompressor ACCEPTS
func legacyOracleFile(version, ct int, recs []lrec, file []byte) string {
	base := legacyOracle(ct, recs)
	if ct <= 0 || ct > 3 || version < 1 || version > 3 {
		return base
	}
	seen := map[string]bool{}
	for _, r := range recs {
		seen[string(r.stored)] = true
	}
	parts := []string{}
	if base != "" {
		parts = append(parts, base)
	}
	legacyClaims(version, ct, file, func(start int, n uint64) {
		if n > uint64(len(file)) || start+int(n) > len(file) {
			return
		}
		st := file[start : start+int(n)]
		if seen[string(st)] {
			return
		}
		seen[string(st)] = true
		var d []byte
		err := safely(func() error { var e error; d, e = compressorFor(ct).Decompress(st); return e })
		if err == nil {
			parts = append(parts, gb(nonNil(d))+":"+gb(nonNil(st)))
		}
	})
	return strings.Join(parts, ",")
}

const legacyClaimLimit = 1 << 24

// ---------------------------------------------------------------------------------------------
// part A: generation

func legacyGenPayload(r *Rng, version int) []byte {
	switch k := r.Intn(100); {
	case k < 10:
		return nil
	case k < 20:
		return []byte{}
	case k < 32:
		// marker bytes followed by small bytes: a complete phantom header of the version (and of the others)
		pre := r.Bytes(r.Intn(4))
		for i := range pre {
			if pre[i] == 0x91 {
				pre[i] = 0x90
			}
		}
		p := append(pre, magic...)
		tail := []byte{byte(r.Intn(2)), byte(r.Intn(3)), byte(r.Intn(3)), byte(r.Intn(256)), byte(r.Intn(256))}
		return append(p, tail[:r.Intn(len(tail)+1)]...)
	case k < 40:
		p := append([]byte{}, legacyMagicV1...)
		p = append(p, byte(r.Intn(3)), 0, 0, 0, 0, 0, 0, 0, byte(r.Intn(3)), 0, 0, 0, 0, 0, 0, 0)
		return append(p, r.Bytes(r.Intn(3))...)
	case k < 46:
		return make([]byte, 1+r.Intn(12))
	case k < 90:
		return legacySafe(r.Bytes(1 + r.Intn(24)))
	default:
		return legacySafe(r.Bytes(100 + r.Intn(200)))
	}
}

// no accidental marker start in random bytes (markers are placed deliberately, with small length fields behind them)
func legacySafe(b []byte) []byte {
	for i := range b {
		if b[i] == 0x91 {
			b[i] = 0x92
		}
	}
	return b
}

func legacyHasMarker(payloads [][]byte) bool {
	for _, p := range payloads {
		if bytes.Contains(p, magic[:1]) {
			return true
		}
	}
	return false
}

func legacyWrite(dir string, idx int, tag string, data []byte) (string, error) {
	p := filepath.Join(dir, fmt.Sprintf("c%d-%s.rio", idx, tag))
	return p, os.WriteFile(p, data, 0o644)
}

func legacyJoinInts(xs []int) string {
	parts := make([]string, len(xs))
	for i, x := range xs {
		parts[i] = fmt.Sprint(x)
	}
	return strings.Join(parts, ",")
}

func legacyFileOne(res *Result, drv *Driver, r *Rng, idx int, tier string, dir string, compat []legacyCompat) error {
	thorough := tier == "thorough"
	var f *lfile
	genuine := false
	if len(compat) > 0 && r.Chance(30) {
		c := compat[r.Intn(len(compat))]
		f = legacyParse(c.name, c.data)
		genuine = true
		res.Stat("A:file:repo:" + c.name)
	} else {
		version := 1 + r.Intn(3)
		ct := r.Intn(4)
		n := r.Intn(7)
		var payloads [][]byte
		for i := 0; i < n; i++ {
			payloads = append(payloads, legacyGenPayload(r, version))
		}
		var err error
		f, err = legacyEncode(version, ct, payloads)
		if err != nil {
			return err
		}
		f.name = fmt.Sprintf("generated-v%d-ct%d", version, ct)
		res.Stat(fmt.Sprintf("A:file:generated:v%d:ct%d", version, ct))
		for _, p := range payloads {
			switch {
			case p == nil:
				res.Stat("A:payload:nil")
			case len(p) == 0:
				res.Stat("A:payload:empty")
			case bytes.Contains(p, magic):
				res.Stat("A:payload:marker-bytes")
			case bytes.Contains(p, legacyMagicV1):
				res.Stat("A:payload:v1-magic")
			default:
				res.Stat("A:payload:other")
			}
		}
	}
	valid := f.version >= 1 && f.version <= 3 && f.ct <= 3 && len(f.file) >= 8
	en := 0
	if valid && f.ct != 0 && legacyEmptyNil[f.ct] {
		en = 1
	}
	oracle := legacyOracle(f.ct, f.recs)
	common := fmt.Sprintf("oracle=%s emptynil=%d", legacyOracleFile(f.version, f.ct, f.recs, f.file), en)
	cs := fmt.Sprintf("%s len=%d recs=%d file=%s", f.name, len(f.file), len(f.recs), clipS(hexs(f.file), 600))
	sigBase := fmt.Sprintf("legacy-v%d", f.version)
	if f.ct != 0 {
		sigBase += "-compressed"
	}
	if len(f.recs) > 0 {
		res.NoteNontrivial(hexs(f.file[:minInt(len(f.file), 64)]) + fmt.Sprint(len(f.file)))
	}

	// ---- the reference encoder of the model reproduces the file byte for byte
	if valid && f.parsed {
		recs := make([]string, len(f.payloads))
		for i, p := range f.payloads {
			recs[i] = gb(p)
			if f.version <= 2 {
				recs[i] = gb(nonNil(p))
			}
		}
		m, err := drv.Ask(fmt.Sprintf("legacy.enc v=%d comp=%d oracle=%s recs=%s", f.version, f.ct, oracle, strings.Join(recs, ",")))
		if err != nil {
			return err
		}
		offs := make([]int, len(f.recs))
		for i, rc := range f.recs {
			offs[i] = rc.off
		}
		want := fmt.Sprintf("file=%s offs=%s", hexs(f.file[:f.intact]), legacyJoinInts(offs))
		if len(f.file) < 3000 || thorough {
			res.Cmp(idx, "legacy.enc (reference layout vs file)", m, want, cs)
			if genuine {
				res.Stat("A:layout-confirmed-on-repo-file")
			}
		}
	}

	path, err := legacyWrite(dir, idx, "intact", f.file)
	if err != nil {
		return err
	}
	defer os.Remove(path)
	big := len(f.file) > 400
	claimOK := !valid || legacyMaxClaim(f.version, f.ct, f.file) <= legacyClaimLimit

	// ---- sequential programs
	nprog := len(f.recs) + 2
	if nprog > 40 {
		nprog = 40
	}
	for round := 0; round < 2; round++ {
		prog := make([]string, nprog)
		for i := range prog {
			prog[i] = "r"
			if round == 1 && r.Chance(35) {
				prog[i] = "k"
			}
		}
		if round == 1 && big && !thorough {
			break
		}
		rbuf := r.Pick([]int{1, 7, 16, 64, 4096, 1 << 20})
		impl := legacyRealSeq(path, f.file, rbuf, prog)
		m, err := drv.Ask(fmt.Sprintf("legacy.read file=%s %s prog=%s", hexs(f.file), common, strings.Join(prog, ",")))
		if err != nil {
			return err
		}
		cm, ci := legacyCanon(m, strings.Join(impl, " "))
		res.Cmp(idx, "legacy.read", cm, ci, cs+" prog="+strings.Join(prog, ","))
		res.Stat(fmt.Sprintf("A:seq:v%d", f.version))
		// C04 oracle: every record a read returns is the next written one (skipped ones are passed over), the program
		// ends with end-of-file when it runs past the last record of an intact file
		if valid && f.parsed && len(impl) > 0 && strings.HasPrefix(impl[0], "open:") {
			k := 0
			for j, tok := range impl[1:] {
				if k < len(f.recs) {
					want := "ok"
					if prog[j] == "r" {
						want = "ok:" + legacyBack(f.version, f.ct, f.recs[k].payload)
					}
					if tok != want {
						res.Violate(idx, "C04", sigBase+":sequential", fmt.Sprintf("op %d (%s) on record %d: want %s got %s", j, prog[j], k, want, tok), cs)
						break
					}
					k++
					continue
				}
				// past the last record: a read reports end-of-file; a skip of version 2/3 fails, of version 1 too
				if prog[j] == "r" && tok != "err:eof" {
					res.Violate(idx, "C04", sigBase+":sequential-end", fmt.Sprintf("op %d past the last record: want err:eof got %s", j, tok), cs)
				}
				break
			}
			res.Evaluations++
		}
	}
	if !valid {
		res.Stat("A:file-header-rejected")
		// the mmap reader must refuse it as well
		impl := legacyRealAt(path, f.file, []int{8}, false)
		m, err := drv.Ask(fmt.Sprintf("legacy.readat file=%s %s offs=8", hexs(f.file), common))
		if err != nil {
			return err
		}
		cm, ci := legacyCanon(m, strings.Join(impl, " "))
		res.Cmp(idx, "legacy.readat (rejected header)", cm, ci, cs)
		return nil
	}

	// ---- random access
	var offs []int
	for _, rc := range f.recs {
		offs = append(offs, rc.off)
	}
	if len(offs) > 60 {
		offs = offs[:60]
	}
	nrec := len(offs)
	offs = append(offs, len(f.file), len(f.file)+1, len(f.file)+5, 0, 7, 8)
	for i := 0; i < 4; i++ {
		offs = append(offs, r.Intn(len(f.file)+1))
	}
	if claimOK {
		impl := legacyRealAt(path, f.file, offs, false)
		m, err := drv.Ask(fmt.Sprintf("legacy.readat file=%s %s offs=%s", hexs(f.file), common, legacyJoinInts(offs)))
		if err != nil {
			return err
		}
		cm, ci := legacyCanon(m, strings.Join(impl, " "))
		res.Cmp(idx, "legacy.readat", cm, ci, cs+" offs="+legacyJoinInts(offs))
		res.Stat(fmt.Sprintf("A:readat:v%d", f.version))
		if len(impl) == len(offs)+1 {
			for k := 0; k < nrec; k++ {
				want := "ok:" + legacyBack(f.version, f.ct, f.recs[k].payload)
				if impl[k+1] != want {
					res.Violate(idx, "C04", sigBase+":readat", fmt.Sprintf("record %d at offset %d: want %s got %s", k, offs[k], want, impl[k+1]), cs)
					break
				}
			}
			res.Evaluations++
		}
	} else {
		res.Stat("A:readat:skipped:absurd-length-claim")
	}

	// ---- SeekNext from every offset
	if claimOK {
		var soffs []int
		if !big {
			for o := 0; o <= len(f.file)+1; o++ {
				soffs = append(soffs, o)
			}
		} else {
			soffs = append(soffs, offs...)
			for i := 0; i < 24; i++ {
				soffs = append(soffs, r.Intn(len(f.file)+1))
			}
		}
		impl := legacyRealAt(path, f.file, soffs, true)
		m, err := drv.Ask(fmt.Sprintf("legacy.seeknext file=%s %s offs=%s", hexs(f.file), common, legacyJoinInts(soffs)))
		if err != nil {
			return err
		}
		cm, ci := legacyCanon(m, strings.Join(impl, " "))
		res.Cmp(idx, "legacy.seeknext", cm, ci, cs)
		res.Stat(fmt.Sprintf("A:seeknext:v%d", f.version))
		res.StatN("A:seeknext:offsets", len(soffs))
		// C04 oracle (files whose payloads hold no marker byte, uncompressed): the first record at or after the offset
		if f.version >= 2 && f.ct == 0 && f.parsed && !legacyHasMarker(f.payloads) && len(impl) == len(soffs)+1 {
			for j, o := range soffs {
				want := "err:eof"
				for _, rc := range f.recs {
					if rc.off >= o {
						want = fmt.Sprintf("ok:%d:%s", rc.off, legacyBack(f.version, f.ct, rc.payload))
						break
					}
				}
				if o > len(f.file) {
					want = impl[j+1] // an offset behind the file: whatever error the mapping reports
				}
				if impl[j+1] != want {
					res.Violate(idx, "C04", sigBase+":seeknext", fmt.Sprintf("SeekNext(%d): want %s got %s", o, want, impl[j+1]), cs)
					break
				}
			}
			res.Evaluations++
		}
		if f.version == 1 {
			res.Stat("A:seeknext:v1-unsupported")
		}
	} else {
		res.Stat("A:seeknext:skipped:absurd-length-claim")
	}

	// ---- every cut length
	if f.parsed {
		var cuts []int
		if len(f.file) <= 220 {
			for n := 0; n <= len(f.file); n++ {
				cuts = append(cuts, n)
			}
		} else {
			ncut := 24
			if thorough {
				ncut = 80
			}
			for i := 0; i < ncut; i++ {
				cuts = append(cuts, r.Intn(len(f.file)+1))
			}
			for _, rc := range f.recs[:minInt(len(f.recs), 6)] {
				cuts = append(cuts, rc.off, rc.off+rc.hdrLen, rc.off+rc.hdrLen+rc.storedLen-1+b2i(rc.storedLen == 0))
			}
		}
		roffs := offs[:minInt(nrec, 8)]
		m, err := drv.Ask(fmt.Sprintf("legacy.cuts file=%s %s cuts=%s offs=%s", hexs(f.file), common, legacyJoinInts(cuts), legacyJoinInts(roffs)))
		if err != nil {
			return err
		}
		var implParts []string
		maxRecs := len(f.recs) + 2
		for _, n := range cuts {
			cp, err := legacyWrite(dir, idx, "cut", f.file[:n])
			if err != nil {
				return err
			}
			prog := make([]string, maxRecs)
			for i := range prog {
				prog[i] = "r"
			}
			seq := legacyRealSeq(cp, f.file[:n], r.Pick([]int{1, 16, 4096}), prog)
			var recs []string
			fin := "other"
			if strings.HasPrefix(seq[0], "open-err:") {
				fin = strings.TrimPrefix(seq[0], "open-err:")
			} else {
				fin = "runaway"
				for _, tok := range seq[1:] {
					if strings.HasPrefix(tok, "ok:") {
						recs = append(recs, tok[3:])
					} else {
						fin = strings.TrimPrefix(tok, "err:")
					}
				}
			}
			at := legacyRealAt(cp, f.file[:n], roffs, false)
			atS := "open-err"
			if strings.HasPrefix(at[0], "open:") {
				atS = strings.Join(at[1:], ",")
			}
			implParts = append(implParts, fmt.Sprintf("n=%d:[%s]%s/%s", n, strings.Join(recs, ";"), fin, atS))
			_ = os.Remove(cp)
			// C12 oracle: exactly the records wholly inside the first n bytes, in order, then an error; by offset: the
			// record iff it is wholly inside
			whole := 0
			for _, rc := range f.recs {
				if rc.off+rc.hdrLen+rc.storedLen <= n {
					whole++
				} else {
					break
				}
			}
			if n >= f.intact {
				whole = len(f.recs)
			}
			var wantRecs []string
			for _, rc := range f.recs[:whole] {
				wantRecs = append(wantRecs, legacyBack(f.version, f.ct, rc.payload))
			}
			if strings.Join(recs, ";") != strings.Join(wantRecs, ";") || fin == "runaway" {
				res.Violate(idx, "C12", sigBase+":cut", fmt.Sprintf("cut at %d of %d: want the %d whole records [%s] then an error, got [%s] then %s",
					n, len(f.file), whole, strings.Join(wantRecs, ";"), strings.Join(recs, ";"), fin), cs)
			}
			if strings.HasPrefix(at[0], "open:") {
				for k := range roffs {
					rc := f.recs[k]
					inside := rc.off+rc.hdrLen+rc.storedLen <= n
					got := at[k+1]
					want := "ok:" + legacyBack(f.version, f.ct, rc.payload)
					if inside && got != want || !inside && !strings.HasPrefix(got, "err:") {
						res.Violate(idx, "C12", sigBase+":cut-readat", fmt.Sprintf("cut at %d: record %d (offset %d, inside=%v): got %s", n, k, rc.off, inside, got), cs)
						break
					}
				}
			}
			res.Evaluations++
		}
		cm := legacyOpenErrRe.ReplaceAllString(m, "open-err")
		res.Cmp(idx, "legacy.cuts", cm, strings.Join(implParts, " "), cs)
		res.StatN(fmt.Sprintf("A:cuts:v%d", f.version), len(cuts))
	} else {
		res.Stat("A:cuts:skipped:file-not-well-formed")
	}

	// ---- tails and a damaged length field (generated files and small repo files)
	if f.parsed && len(f.file) < 3000 {
		type variant struct {
			tag  string
			data []byte
		}
		var vs []variant
		zeros := make([]byte, r.Pick([]int{1, 3, 19, 20, 21, 64, 500}))
		vs = append(vs, variant{"zero-tail", append(append([]byte{}, f.file[:f.intact]...), zeros...)})
		g := legacySafe(r.Bytes(1 + r.Intn(40)))
		if r.Chance(50) {
			// a complete phantom header with small lengths somewhere in the garbage
			var ph []byte
			if f.version == 1 {
				ph = append(append([]byte{}, legacyMagicV1...), byte(r.Intn(4)), 0, 0, 0, 0, 0, 0, 0, byte(r.Intn(4)), 0, 0, 0, 0, 0, 0, 0)
			} else {
				ph = append(append([]byte{}, magic...), byte(r.Intn(2)), byte(r.Intn(4)), byte(r.Intn(4)))
			}
			at := r.Intn(len(g) + 1)
			g = append(append(append([]byte{}, g[:at]...), ph...), g[at:]...)
		}
		vs = append(vs, variant{"garbage-tail", append(append([]byte{}, f.file[:f.intact]...), g...)})
		if len(f.recs) > 0 {
			// one length byte of one record altered to another small value: NOT detectable in these formats
			k := r.Intn(len(f.recs))
			rc := f.recs[k]
			pos := rc.off + 3
			if f.version == 1 {
				pos = rc.off + 4
				if f.ct != 0 {
					pos = rc.off + 12
				}
			} else {
				if f.version == 3 {
					pos++
				}
				if f.ct != 0 {
					_, n := legacyUvarint(f.file[pos:])
					pos += n
				}
			}
			if pos < rc.off+rc.hdrLen && f.file[pos] < 0x80 {
				d := append([]byte{}, f.file[:f.intact]...)
				nv := byte(r.Intn(12))
				if nv == d[pos] {
					nv++
				}
				d[pos] = nv
				vs = append(vs, variant{"damaged-length", d})
			}
		}
		for _, v := range vs {
			if legacyMaxClaim(f.version, f.ct, v.data) > legacyClaimLimit {
				res.Stat("A:" + v.tag + ":skipped:absurd-length-claim")
				continue
			}
			vp, err := legacyWrite(dir, idx, v.tag, v.data)
			if err != nil {
				return err
			}
			prog := make([]string, len(f.recs)+3)
			for i := range prog {
				prog[i] = "r"
			}
			vcs := fmt.Sprintf("%s variant=%s file=%s", f.name, v.tag, clipS(hexs(v.data), 700))
			common := fmt.Sprintf("oracle=%s emptynil=%d", legacyOracleFile(f.version, f.ct, f.recs, v.data), en)
			impl := legacyRealSeq(vp, v.data, r.Pick([]int{1, 16, 4096}), prog)
			m, err := drv.Ask(fmt.Sprintf("legacy.read file=%s %s prog=%s", hexs(v.data), common, strings.Join(prog, ",")))
			if err != nil {
				return err
			}
			cm, ci := legacyCanon(m, strings.Join(impl, " "))
			res.Cmp(idx, "legacy.read ("+v.tag+")", cm, ci, vcs)
			var voffs []int
			for o := 8; o <= len(v.data)+1 && len(voffs) < 400; o++ {
				voffs = append(voffs, o)
			}
			implAt := legacyRealAt(vp, v.data, voffs, false)
			m, err = drv.Ask(fmt.Sprintf("legacy.readat file=%s %s offs=%s", hexs(v.data), common, legacyJoinInts(voffs)))
			if err != nil {
				return err
			}
			cm, ci = legacyCanon(m, strings.Join(implAt, " "))
			res.Cmp(idx, "legacy.readat ("+v.tag+")", cm, ci, vcs)
			implSk := legacyRealAt(vp, v.data, voffs, true)
			m, err = drv.Ask(fmt.Sprintf("legacy.seeknext file=%s %s offs=%s", hexs(v.data), common, legacyJoinInts(voffs)))
			if err != nil {
				return err
			}
			cm, ci = legacyCanon(m, strings.Join(implSk, " "))
			res.Cmp(idx, "legacy.seeknext ("+v.tag+")", cm, ci, vcs)
			_ = os.Remove(vp)
			res.Stat(fmt.Sprintf("A:%s:v%d", v.tag, f.version))
			var got []string
			fin := ""
			for _, tok := range impl[1:] {
				if strings.HasPrefix(tok, "ok:") {
					got = append(got, tok[3:])
				} else {
					fin = tok
				}
			}
			var all []string
			for _, rc := range f.recs {
				all = append(all, legacyBack(f.version, f.ct, rc.payload))
			}
			switch v.tag {
			case "zero-tail", "garbage-tail":
				// C12 oracle: the genuine records, all of them, in order, then end-of-file (zero tail of version 2/3) or an
				// error — unless the garbage holds a well-formed phantom record right behind the last record (not
				// distinguishable in a format without checksums)
				okRecs := strings.Join(got, ";") == strings.Join(all, ";")
				if !okRecs && !(v.tag == "garbage-tail" && len(got) > len(all) && strings.Join(got[:len(all)], ";") == strings.Join(all, ";")) {
					res.Violate(idx, "C12", sigBase+":"+v.tag, fmt.Sprintf("want the %d genuine records [%s] then an error, got [%s] then %s",
						len(all), strings.Join(all, ";"), strings.Join(got, ";"), fin), vcs)
				}
				if v.tag == "zero-tail" && f.version >= 2 && fin != "err:eof" {
					res.Violate(idx, "C04", sigBase+":zero-tail", "a tail of zero bytes must read as end-of-file, got "+fin, vcs)
				}
				if v.tag == "zero-tail" && f.version == 1 {
					res.Stat("A:zero-tail:v1:" + fin)
				}
				res.Evaluations++
			case "damaged-length":
				if strings.Join(got, ";") != strings.Join(all, ";") {
					prefix := 0
					for prefix < len(got) && prefix < len(all) && got[prefix] == all[prefix] {
						prefix++
					}
					if prefix < len(got) {
						res.Stat("A:limitation:damaged-length-field:record-nobody-wrote-returned")
					} else {
						res.Stat("A:limitation:damaged-length-field:records-lost")
					}
				} else {
					res.Stat("A:limitation:damaged-length-field:no-visible-effect")
				}
			}
		}
	}
	return nil
}

// ---------------------------------------------------------------------------------------------
// part B: version-0 tables

type v0Table struct {
	what     string
	kvs      []sstKV // sorted by key, values as written
	iv, dv   int
	ict, dct int
	index    []byte
	data     []byte
	meta     []byte // nil = no metadata file
	bloom    *bloomfilter.Filter
	irecs    []lrec
	drecs    []lrec
	synth    bool
}

func legacyV0Dir() string {
	for _, c := range []string{filepath.Join(legacyPkgDir(sstables.NewSSTableReader), "test_files", "v0_compat"), "/repo/sstables/test_files/v0_compat"} {
		if st, err := os.Stat(filepath.Join(c, dbLegacyGenuine[0], sstables.IndexFileName)); err == nil && !st.IsDir() {
			return c
		}
	}
	return ""
}

// records of a recordio file of any version 1-4 (current format: header fields + checksum varint)
func legacyRecordsAny(file []byte) (version, ct int, recs []lrec) {
	if len(file) < 8 {
		return 0, 0, nil
	}
	version = int(binary.LittleEndian.Uint32(file[0:4]))
	ct = int(binary.LittleEndian.Uint32(file[4:8]))
	if version >= 1 && version <= 3 {
		f := legacyParse("", file)
		return version, ct, f.recs
	}
	pos := 8
	for pos+4 <= len(file) && bytes.Equal(file[pos:pos+3], magic) {
		isNil := file[pos+3] == 1
		q := pos + 4
		u, n := legacyUvarint(file[q:])
		if n <= 0 {
			break
		}
		c, m := legacyUvarint(file[q+n:])
		if m <= 0 {
			break
		}
		_, k := legacyUvarint(file[q+n+m:])
		if k <= 0 {
			break
		}
		hl := 4 + n + m + k
		ln := u
		if ct != 0 {
			ln = c
		}
		if isNil {
			ln = 0
		}
		if int(ln) > len(file)-pos-hl {
			break
		}
		stored := file[pos+hl : pos+hl+int(ln)]
		payload := append([]byte{}, stored...)
		if ct != 0 && !isNil {
			d, err := compressorFor(ct).Decompress(stored)
			if err != nil {
				break
			}
			payload = nonNil(d)
		}
		if isNil {
			payload = nil
		}
		recs = append(recs, lrec{payload: payload, stored: stored, off: pos, hdrLen: hl, storedLen: int(ln)})
		pos += hl + int(ln)
	}
	return version, ct, recs
}

func legacyNormVal(v []byte) []byte {
	if len(v) == 0 {
		return nil
	}
	return v
}

func legacyGenKV(r *Rng) []sstKV {
	n := r.Intn(9)
	seen := map[string]bool{}
	var kvs []sstKV
	fixed4 := r.Chance(35)
	for i := 0; i < n; i++ {
		var k []byte
		switch {
		case fixed4:
			k = []byte{1, byte(1 + r.Intn(3)), byte(1 + r.Intn(4)), byte(1 + r.Intn(200))}
		case r.Chance(6):
			k = []byte{}
		case r.Chance(12):
			k = append([]byte{byte(1 + r.Intn(5))}, magic...)
		default:
			k = r.Bytes(1 + r.Intn(6))
		}
		if seen[string(k)] {
			continue
		}
		seen[string(k)] = true
		var v []byte
		switch x := r.Intn(100); {
		case x < 12:
			v = nil
		case x < 22:
			v = []byte{}
		case x < 34:
			v = append(append([]byte{byte(r.Intn(200))}, magic...), 0, 1, 0, byte(r.Intn(256)))
		default:
			v = legacySafe(r.Bytes(1 + r.Intn(30)))
		}
		kvs = append(kvs, sstKV{key: k, val: v})
	}
	sort.Slice(kvs, func(i, j int) bool { return bytes.Compare(kvs[i].key, kvs[j].key) < 0 })
	return kvs
}

func legacyFileAny(version, ct int, payloads [][]byte) (*lfile, error) {
	if version != 4 {
		return legacyEncode(version, ct, payloads)
	}
	f := &lfile{version: 4, ct: ct, parsed: true}
	f.file = sstFileHeader(ct)
	for _, p := range payloads {
		rec, hl, st, err := legacyRecord(4, ct, p)
		if err != nil {
			return nil, err
		}
		f.recs = append(f.recs, lrec{payload: p, stored: st, off: len(f.file), hdrLen: hl, storedLen: len(rec) - hl})
		f.file = append(f.file, rec...)
	}
	f.intact = len(f.file)
	return f, nil
}

func legacySynthV0(r *Rng) (*v0Table, error) {
	t := &v0Table{what: "synthesised", synth: true}
	t.kvs = legacyGenKV(r)
	t.iv, t.dv = 1+r.Intn(4), 1+r.Intn(4)
	t.dct = r.Intn(4)
	if r.Chance(25) {
		t.ict = r.Intn(4)
	}
	var dps [][]byte
	for _, kv := range t.kvs {
		b, err := gproto.Marshal(&sProto.DataEntry{Value: kv.val})
		if err != nil {
			return nil, err
		}
		dps = append(dps, nonNil(b))
	}
	df, err := legacyFileAny(t.dv, t.dct, dps)
	if err != nil {
		return nil, err
	}
	var ips [][]byte
	for i, kv := range t.kvs {
		b, err := gproto.Marshal(&sProto.IndexEntry{Key: kv.key, ValueOffset: uint64(df.recs[i].off)})
		if err != nil {
			return nil, err
		}
		ips = append(ips, nonNil(b))
	}
	xf, err := legacyFileAny(t.iv, t.ict, ips)
	if err != nil {
		return nil, err
	}
	t.index, t.data, t.irecs, t.drecs = xf.file, df.file, xf.recs, df.recs
	switch x := r.Intn(100); {
	case x < 55:
		t.what += ":no-metadata"
	case x < 80:
		md := &sProto.MetaData{NumRecords: uint64(len(t.kvs)), Version: 0}
		if len(t.kvs) > 0 {
			md.MinKey, md.MaxKey = t.kvs[0].key, t.kvs[len(t.kvs)-1].key
		}
		t.meta, _ = gproto.Marshal(md)
		t.meta = nonNil(t.meta)
		t.what += ":version-0-metadata"
	default:
		nulls := 0
		for _, kv := range t.kvs {
			if len(kv.val) == 0 {
				nulls++
			}
		}
		md := &sProto.MetaData{NumRecords: uint64(len(t.kvs)), NullValues: uint64(nulls), TotalBytes: uint64(r.Intn(3) * 50), Version: 0}
		t.meta, _ = gproto.Marshal(md)
		t.meta = nonNil(t.meta)
		t.what += ":version-0-metadata-with-counts"
	}
	if r.Chance(30) {
		bf, err := bloomfilter.NewOptimal(uint64(len(t.kvs)+1), 0.01)
		if err != nil {
			return nil, err
		}
		for _, kv := range t.kvs {
			h := fnv.New64()
			_, _ = h.Write(kv.key)
			bf.Add(h)
		}
		t.bloom = bf
		t.what += ":bloom"
	}
	return t, nil
}

func legacyLoadV0(dir, name string) (*v0Table, error) {
	t := &v0Table{what: "repo:" + name}
	var err error
	if t.index, err = os.ReadFile(filepath.Join(dir, name, sstables.IndexFileName)); err != nil {
		return nil, err
	}
	if t.data, err = os.ReadFile(filepath.Join(dir, name, sstables.DataFileName)); err != nil {
		return nil, err
	}
	if b, err := os.ReadFile(filepath.Join(dir, name, sstables.MetaFileName)); err == nil {
		t.meta = nonNil(b)
	}
	if _, err := os.Stat(filepath.Join(dir, name, sstables.BloomFileName)); err == nil {
		bf, _, err := bloomfilter.ReadFile(filepath.Join(dir, name, sstables.BloomFileName))
		if err != nil {
			return nil, err
		}
		t.bloom = bf
	}
	t.iv, t.ict, t.irecs = legacyRecordsAny(t.index)
	t.dv, t.dct, t.drecs = legacyRecordsAny(t.data)
	if len(t.irecs) != len(t.drecs) {
		return nil, fmt.Errorf("repo table %s: %d index records, %d data records", name, len(t.irecs), len(t.drecs))
	}
	for i := range t.irecs {
		ie, de := &sProto.IndexEntry{}, &sProto.DataEntry{}
		if err := gproto.Unmarshal(t.irecs[i].payload, ie); err != nil {
			return nil, err
		}
		if err := gproto.Unmarshal(t.drecs[i].payload, de); err != nil {
			return nil, err
		}
		t.kvs = append(t.kvs, sstKV{key: ie.Key, val: de.Value})
	}
	return t, nil
}

func (t *v0Table) writeDir(dir string, bloomSrc string) error {
	if err := os.MkdirAll(dir, 0o700); err != nil {
		return err
	}
	if err := os.WriteFile(filepath.Join(dir, sstables.IndexFileName), t.index, 0o600); err != nil {
		return err
	}
	if err := os.WriteFile(filepath.Join(dir, sstables.DataFileName), t.data, 0o600); err != nil {
		return err
	}
	if t.meta != nil {
		if err := os.WriteFile(filepath.Join(dir, sstables.MetaFileName), t.meta, 0o600); err != nil {
			return err
		}
	}
	if t.bloom != nil {
		if bloomSrc != "" {
			b, err := os.ReadFile(bloomSrc)
			if err != nil {
				return err
			}
			return os.WriteFile(filepath.Join(dir, sstables.BloomFileName), b, 0o600)
		}
		if _, err := t.bloom.WriteFile(filepath.Join(dir, sstables.BloomFileName)); err != nil {
			return err
		}
	}
	return nil
}

func (t *v0Table) modelArgs() string {
	m := "-"
	if t.meta != nil {
		m = gb(t.meta)
	}
	return fmt.Sprintf("index=%s data=%s meta=%s icomp=%d ioracle=%s dcomp=%d doracle=%s", gb(nonNil(t.index)), gb(nonNil(t.data)), m,
		t.ict, legacyOracle(t.ict, t.irecs), t.dct, legacyOracle(t.dct, t.drecs))
}

// the per-table test of candidateTablesForCompaction, as an expression over the metadata a reader reports
func legacyCandidate(md *sProto.MetaData, maxSize uint64, num, den int) bool {
	selected := md.TotalBytes < maxSize
	if md.NumRecords > 0 {
		ratio := float32(md.NullValues) / float32(md.NumRecords)
		selected = selected || ratio >= float32(num)/float32(den)
	}
	return selected
}

var legacyCands = [][3]int{{0, 1, 4}, {1, 1, 4}, {100, 1, 2}, {0, 0, 1}, {0, 1, 1}, {1000000, 3, 4}}

func legacyV0Probes(r *Rng, t *v0Table) []sstProbe {
	bloomOf := func(k []byte) bool {
		if t.bloom == nil {
			return true
		}
		h := fnv.New64()
		_, _ = h.Write(k)
		return t.bloom.Contains(h)
	}
	var pool [][]byte
	for _, kv := range t.kvs {
		pool = append(pool, kv.key)
	}
	for i := 0; i < 4; i++ {
		if len(t.kvs) > 0 && r.Chance(60) {
			k := append([]byte{}, t.kvs[r.Intn(len(t.kvs))].key...)
			switch r.Intn(3) {
			case 0:
				k = append(k, byte(1+r.Intn(255)))
			case 1:
				if len(k) > 0 {
					k[len(k)-1] ^= byte(1 + r.Intn(255))
				}
			default:
				if len(k) > 0 {
					k = k[:len(k)-1]
				}
			}
			pool = append(pool, k)
		} else {
			pool = append(pool, r.Bytes(1+r.Intn(4)))
		}
	}
	ps := []sstProbe{{kind: "scan"}}
	for _, k := range pool {
		ps = append(ps, sstProbe{kind: "get", a: k}, sstProbe{kind: "has", a: k, bloom: bloomOf(k)})
	}
	for i := 0; i < 3; i++ {
		ps = append(ps, sstProbe{kind: "from", a: pool[r.Intn(len(pool))]})
		ps = append(ps, sstProbe{kind: "range", a: pool[r.Intn(len(pool))], b: pool[r.Intn(len(pool))]})
	}
	return ps
}

func legacyKeysFit(t *v0Table, ps []sstProbe, n int) bool {
	for _, kv := range t.kvs {
		if len(kv.key) > n {
			return false
		}
	}
	return true
}

// is the sorted-map statement promised for this loader, table and probe?
func legacyOracleApplies(t *v0Table, loader string, p sstProbe, acc []sstKV) bool {
	switch loader {
	case "map4", "map20":
		n := 4
		if loader == "map20" {
			n = 20
		}
		if p.kind == "get" || p.kind == "has" {
			if len(p.a) > n || sstPadCollision(acc, p, n) {
				return false
			}
		}
	case "disk":
		// EXPERIMENTAL loader: SeekNext is refused on a recordio V1 index, and a format without checksums cannot keep a
		// marker inside a key apart from a record
		if t.iv == 1 || t.ict != 0 {
			return false
		}
		for _, kv := range t.kvs {
			if bytes.Contains(kv.key, magic[:1]) {
				return false
			}
		}
	}
	return true
}

func legacyV0One(res *Result, drv *Driver, r *Rng, idx int, tier string, dir string, v0dir string) error {
	var t *v0Table
	var err error
	bloomSrc := ""
	if v0dir != "" && r.Chance(30) {
		name := dbLegacyGenuine[r.Intn(len(dbLegacyGenuine))]
		if t, err = legacyLoadV0(v0dir, name); err != nil {
			return err
		}
		if t.bloom != nil {
			bloomSrc = filepath.Join(v0dir, name, sstables.BloomFileName)
		}
	} else {
		if t, err = legacySynthV0(r); err != nil {
			return err
		}
	}
	res.Stat("B:table:" + t.what)
	res.Stat(fmt.Sprintf("B:recordio-version:index-v%d:data-v%d", t.iv, t.dv))
	res.Stat(fmt.Sprintf("B:compression:index-%d:data-%d", t.ict, t.dct))
	tdir := filepath.Join(dir, fmt.Sprintf("t%d", idx))
	if err := t.writeDir(tdir, bloomSrc); err != nil {
		return err
	}
	defer os.RemoveAll(tdir)
	var kvDesc []string
	for _, kv := range t.kvs {
		kvDesc = append(kvDesc, gbKey(kv.key)+":"+gb(kv.val))
	}
	cs := fmt.Sprintf("%s index-v%d/ct%d data-v%d/ct%d kvs=%s index=%s data=%s meta=%s", t.what, t.iv, t.ict, t.dv, t.dct,
		strings.Join(kvDesc, ","), clipS(hexs(t.index), 500), clipS(hexs(t.data), 500), hexs(t.meta))
	if len(t.kvs) > 0 {
		res.NoteNontrivial(cs)
	}
	// expected pairs: a version-0 table cannot tell nil from empty, both read as nil
	acc := make([]sstKV, len(t.kvs))
	for i, kv := range t.kvs {
		acc[i] = sstKV{key: kv.key, val: legacyNormVal(kv.val)}
	}

	// ---- the reference layout of the model reproduces the files byte for byte
	if t.meta == nil || !t.synth {
		m, err := drv.Ask(fmt.Sprintf("v0.enc iv=%d icomp=%d ioracle=%s dv=%d dcomp=%d doracle=%s kvs=%s", t.iv, t.ict, legacyOracle(t.ict, t.irecs),
			t.dv, t.dct, legacyOracle(t.dct, t.drecs), strings.Join(kvDesc, ",")))
		if err != nil {
			return err
		}
		res.Cmp(idx, "v0.enc (reference layout vs files)", m, fmt.Sprintf("index=%s data=%s", gb(nonNil(t.index)), gb(nonNil(t.data))), cs)
		if !t.synth {
			res.Stat("B:layout-confirmed-on-repo-table")
		}
	}

	// ---- reader configurations
	cfgs := []sstReaderCfg{{loader: "slice-default", onLoad: true, onRead: false}}
	loaders := []string{"slice", "skip", "map20", "disk"}
	if legacyKeysFit(t, nil, 4) {
		loaders = append(loaders, "map4")
	}
	if !legacyKeysFit(t, nil, 20) {
		loaders = []string{"slice", "skip", "disk"}
	}
	for _, l := range loaders {
		cfgs = append(cfgs, sstReaderCfg{loader: l, onLoad: r.Chance(50), onRead: r.Chance(50)})
	}
	cfgs = append(cfgs, sstReaderCfg{loader: "slice", onLoad: true, onRead: true})
	probes := legacyV0Probes(r, t)
	var pstr []string
	for _, p := range probes {
		pstr = append(pstr, p.String())
	}
	var cstr, candS []string
	for _, c := range cfgs {
		cstr = append(cstr, c.modelString())
	}
	for _, c := range legacyCands {
		candS = append(candS, fmt.Sprintf("%d:%d:%d", c[0], c[1], c[2]))
	}
	m, err := drv.Ask(fmt.Sprintf("v0.read %s cfgs=%s probes=%s cand=%s", t.modelArgs(), strings.Join(cstr, ","), strings.Join(pstr, ","), strings.Join(candS, ",")))
	if err != nil {
		return err
	}
	mparts := strings.Split(m, " || ")
	if len(mparts) != len(cfgs) {
		res.Disagree(idx, "v0.read (HARNESS BUG: answer count)", m, fmt.Sprint(len(cfgs)), cs)
		return nil
	}
	max := len(t.kvs) + 5
	for ci, cfg := range cfgs {
		rd, _, err := sstOpenReaderOrdered(tdir, cfg, r.Pick([]int{16, 4096, 1 << 20}), "", nil)
		ccs := cs + " cfg=" + cfg.modelString()
		if err != nil {
			impl := "open-" + sstErr(err)
			res.Stat("B:open-failed:" + cfg.loader)
			if mparts[ci] != "unmodelled" {
				res.Cmp(idx, "v0.read open", mparts[ci], impl, ccs)
			}
			res.Violate(idx, "C03", "v0-table:"+cfg.loader+":open", "NewSSTableReader on an intact version-0 table failed: "+err.Error(), ccs)
			continue
		}
		md := rd.MetaData()
		var cands []string
		for _, c := range legacyCands {
			cands = append(cands, fmt.Sprint(b2i(legacyCandidate(md, uint64(c[0]), c[1], c[2]))))
		}
		out := []string{"meta=" + sstMetaString(md), "cand=" + strings.Join(cands, ",")}
		for _, p := range probes {
			got := sstCanonScan(sstRunProbe(rd, p, max))
			out = append(out, got)
			if legacyOracleApplies(t, cfg.loader, p, acc) {
				want := sstExpect(acc, p)
				res.Evaluations++
				if want == "err:*" && strings.HasPrefix(got, "err:") {
					continue
				}
				if got != want {
					res.Violate(idx, "C03", fmt.Sprintf("v0-table:%s:%s", cfg.loader, p.kind), fmt.Sprintf("%s: sorted map says %s, reader says %s", p.String(), want, got), ccs)
				}
			}
		}
		_ = rd.Close()
		if mparts[ci] == "unmodelled" {
			res.Stat("B:oracle-only:disk-loader-on-legacy-index-file")
			continue
		}
		mm := strings.Split(mparts[ci], " ")
		for k := range mm {
			mm[k] = sstCanonScan(mm[k])
		}
		res.Cmp(idx, "v0.read "+cfg.modelString(), strings.Join(mm, " "), strings.Join(out, " "), ccs)
		res.Stat("B:cfg:" + cfg.loader)
		if md.NumRecords == 0 && len(t.kvs) > 0 {
			res.Stat("B:metadata-reports-0-records-for-a-non-empty-table")
		}
		if md.NumRecords == 0 && md.TotalBytes == 0 {
			// C06 (the quirk as a theorem: v0_selected_by_size_never_by_ratio): a size candidate iff the limit is > 0, never a ratio candidate
			for k, c := range legacyCands {
				if (cands[k] == "1") != (c[0] > 0) {
					res.Violate(idx, "C06", "v0-table:candidate-on-zero-metadata", fmt.Sprintf("maxSize=%d ratio=%d/%d: candidate=%s", c[0], c[1], c[2], cands[k]), ccs)
				}
			}
			res.Evaluations++
		}
	}

	// ---- damage (synthesised tables): flipped value byte, cut data file, cut index file; real reader vs model
	if t.synth && len(t.kvs) > 0 {
		type variant struct {
			tag         string
			index, data []byte
		}
		var vs []variant
		if t.dct == 0 {
			k := r.Intn(len(t.drecs))
			rc := t.drecs[k]
			// the value bytes sit behind the two-byte field header of the DataEntry message
			if rc.storedLen > 2 {
				d := append([]byte{}, t.data...)
				pos := rc.off + rc.hdrLen + 2 + r.Intn(rc.storedLen-2)
				d[pos] ^= byte(1 + r.Intn(255))
				vs = append(vs, variant{"flipped-value-byte", t.index, d})
			}
		}
		vs = append(vs, variant{"cut-data", t.index, t.data[:8+r.Intn(len(t.data)-7)]})
		vs = append(vs, variant{"cut-index", t.index[:8+r.Intn(len(t.index)-7)], t.data})
		for _, v := range vs {
			claims := legacyMaxClaim(t.dv, t.dct, v.data)
			if t.dv <= 3 && claims > legacyClaimLimit {
				continue
			}
			dt := &v0Table{index: v.index, data: v.data, meta: t.meta, bloom: nil, ict: t.ict, dct: t.dct, irecs: t.irecs, drecs: t.drecs}
			vdir := filepath.Join(dir, fmt.Sprintf("t%d-%s", idx, v.tag))
			if err := dt.writeDir(vdir, ""); err != nil {
				return err
			}
			dcfgs := []sstReaderCfg{{loader: "slice", onLoad: true, onRead: true}, {loader: "skip", onLoad: false, onRead: false}}
			var dc []string
			for _, c := range dcfgs {
				dc = append(dc, c.modelString())
			}
			var dprobes []sstProbe
			dprobes = append(dprobes, sstProbe{kind: "scan"})
			for _, kv := range t.kvs {
				dprobes = append(dprobes, sstProbe{kind: "get", a: kv.key})
			}
			dprobes = append(dprobes, sstProbe{kind: "from", a: t.kvs[0].key})
			var dp []string
			for _, p := range dprobes {
				dp = append(dp, p.String())
			}
			m, err := drv.Ask(fmt.Sprintf("v0.read %s cfgs=%s probes=%s cand=", dt.modelArgs(), strings.Join(dc, ","), strings.Join(dp, ",")))
			if err != nil {
				return err
			}
			mp := strings.Split(m, " || ")
			vcs := fmt.Sprintf("%s variant=%s index=%s data=%s", cs, v.tag, clipS(hexs(v.index), 400), clipS(hexs(v.data), 400))
			for ci, cfg := range dcfgs {
				if ci >= len(mp) {
					break
				}
				rd, _, err := sstOpenReaderOrdered(vdir, cfg, 4096, "", nil)
				impl := ""
				if err != nil {
					impl = "open-" + sstErr(err)
				} else {
					out := []string{"meta=" + sstMetaString(rd.MetaData()), "cand="}
					served := false
					for pi, p := range dprobes {
						got := sstCanonScan(sstRunProbe(rd, p, max))
						out = append(out, got)
						if v.tag == "flipped-value-byte" && p.kind == "get" && strings.HasPrefix(got, "ok:") && pi >= 1 && got != "ok:"+gb(acc[pi-1].val) {
							served = true
						}
					}
					_ = rd.Close()
					impl = strings.Join(out, " ")
					if served {
						res.Stat("B:limitation:damaged-value-served-without-error:" + cfg.modelString())
					}
				}
				mm := strings.Split(mp[ci], " ")
				for k := range mm {
					mm[k] = sstCanonScan(mm[k])
				}
				cm, cim := legacyCanon(strings.Join(mm, " "), impl)
				if t.dct != 0 || t.ict != 0 {
					// decompressors report damage with errors of their own
					cm, cim = legacyErrKindsOff(cm), legacyErrKindsOff(cim)
				}
				res.Cmp(idx, "v0.read ("+v.tag+") "+cfg.modelString(), cm, cim, vcs)
			}
			res.Stat("B:damage:" + v.tag)
			_ = os.RemoveAll(vdir)
		}
	}
	return nil
}

var legacyErrKindRe = regexp.MustCompile(`err:\w+`)

func legacyErrKindsOff(s string) string { return legacyErrKindRe.ReplaceAllString(s, "err") }

// ---------------------------------------------------------------------------------------------

func runLegacy(res *Result, drv *Driver, seed uint64, n int, tier string, only int) error {
	dir, err := os.MkdirTemp("", "verif-legacy-")
	if err != nil {
		return err
	}
	defer os.RemoveAll(dir)
	res.Rule = legacyRule
	compat := legacyCompatFiles()
	if len(compat) == 0 {
		res.Stat("A:library-compat-files-not-found:generated-only")
	}
	v0dir := legacyV0Dir()
	if v0dir == "" {
		res.Stat("B:library-test-tables-not-found:synthesised-only")
	}
	for ct := 1; ct <= 3; ct++ {
		res.Stat(fmt.Sprintf("env:decompress-empty-returns-nil:ct%d:%v", ct, legacyEmptyNil[ct]))
	}
	// every compat file and every library table once, whatever n is (indices n.. of their own generator states)
	extra := 0
	if only < 0 || only >= n {
		extra = len(compat)
		if v0dir != "" {
			extra += len(dbLegacyGenuine)
		}
	}
	for i := 0; i < n+extra; i++ {
		if only >= 0 && i != only {
			continue
		}
		r := NewRng(seed, uint64(i))
		res.Cases++
		switch {
		case i >= n+len(compat):
			res.Stat("part:B:every-library-table-once")
			if err := legacyV0One(res, drv, &Rng{s: 0xfffffffffffffff0 + uint64(i-n-len(compat))}, i, tier, dir, v0dir); err != nil {
				return err
			}
		case i >= n:
			res.Stat("part:A:every-compat-file-once")
			if err := legacyFileOne(res, drv, r, i, tier, dir, []legacyCompat{compat[i-n], compat[i-n], compat[i-n], compat[i-n]}); err != nil {
				return err
			}
		case i%3 == 2:
			res.Stat("part:B")
			if err := legacyV0One(res, drv, r, i, tier, dir, v0dir); err != nil {
				return err
			}
		default:
			res.Stat("part:A")
			if err := legacyFileOne(res, drv, r, i, tier, dir, compat); err != nil {
				return err
			}
		}
	}
	return nil
}

var _ = errors.New
var _ = io.EOF
