package main

import (
	"errors"
	"fmt"
	"os"
	"strings"
	"sync"

	"github.com/thomasjungblut/go-sstables/memstore"
	"github.com/thomasjungblut/go-sstables/recordio"
	rProto "github.com/thomasjungblut/go-sstables/recordio/proto"
	"github.com/thomasjungblut/go-sstables/simpledb"
	"github.com/thomasjungblut/go-sstables/sstables"
	"google.golang.org/protobuf/proto"
)

// ---------------------------------------------------------------------------------------------
// stream "dbfault": the system-level half of C11. A write / close of the data or index file of a table that is
// being produced by a memstore flush or by a compaction cycle fails at a chosen position (injected through the
// tag-guarded writer hook). Oracle only (no Lean model at this level): the operation must report the failure, a
// failed compaction must leave the live tables and every read unchanged, and the directory must stay recoverable.

var errInjected = errors.New("injected write fault")

type faultPlan struct {
	target string // "data" or "index"
	op     string // "write" or "close"
	n      int    // fail the n-th such call (0-based)
	hit    bool
	mu     sync.Mutex
	seen   int
}

func (p *faultPlan) should(target, op string) bool {
	p.mu.Lock()
	defer p.mu.Unlock()
	if p.target != target || p.op != op {
		return false
	}
	k := p.seen
	p.seen++
	if k == p.n {
		p.hit = true
		return true
	}
	return false
}

type faultDataWriter struct {
	recordio.WriterI
	plan *faultPlan
}

func (w *faultDataWriter) Write(b []byte) (uint64, error) {
	if w.plan.should("data", "write") {
		return 0, errInjected
	}
	return w.WriterI.Write(b)
}
func (w *faultDataWriter) Close() error {
	err := w.WriterI.Close()
	if w.plan.should("data", "close") {
		return errors.Join(err, errInjected)
	}
	return err
}

type faultIndexWriter struct {
	rProto.WriterI
	plan *faultPlan
}

func (w *faultIndexWriter) Write(m proto.Message) (uint64, error) {
	if w.plan.should("index", "write") {
		return 0, errInjected
	}
	return w.WriterI.Write(m)
}
func (w *faultIndexWriter) Close() error {
	err := w.WriterI.Close()
	if w.plan.should("index", "close") {
		return errors.Join(err, errInjected)
	}
	return err
}

func withFault(plan *faultPlan, f func() error) error {
	sstables.VerifWriterWrap = func(w *sstables.SSTableStreamWriter) {
		w.VerifWrapWriters(
			func(d recordio.WriterI) recordio.WriterI { return &faultDataWriter{d, plan} },
			func(i rProto.WriterI) rProto.WriterI { return &faultIndexWriter{i, plan} })
	}
	defer func() { sstables.VerifWriterWrap = nil }()
	return safely(f)
}

func runDbFault(res *Result, _ *Driver, seed uint64, n int, tier string, only int) error {
	res.Rule = "memstores (1..12 entries incl. tombstones) flushed with both variants and 3..5-table databases compacted once, with one injected failure at " +
		"every position of {data,index} x {write,close}; one evaluation = one faulted operation; non-trivial = the fault position was reached; " +
		"distinct = distinct (case, target, op, position)"
	for idx := 0; idx < n; idx++ {
		if only >= 0 && idx != only {
			continue
		}
		r := NewRng(seed, uint64(idx))
		res.Cases++
		if err := dbFaultFlush(res, r, idx); err != nil {
			return err
		}
		if err := dbFaultCompaction(res, r, idx); err != nil {
			return err
		}
	}
	return nil
}

func dbFaultFlush(res *Result, r *Rng, idx int) error {
	nkeys := 1 + r.Intn(12)
	type kv struct {
		k, v []byte
		del  bool
	}
	var entries []kv
	for i := 0; i < nkeys; i++ {
		entries = append(entries, kv{k: []byte(fmt.Sprintf("k%03d", i)), v: r.Bytes(1 + r.Intn(20)), del: r.Chance(25)})
	}
	build := func() memstore.MemStoreI {
		m := memstore.NewMemStore()
		for _, e := range entries {
			_ = m.Upsert(e.k, e.v)
			if e.del {
				_ = m.Delete(e.k)
			}
		}
		return m
	}
	desc := fmt.Sprintf("memstore of %d entries", nkeys)
	res.Sample("flush: " + desc)
	for _, withTomb := range []bool{false, true} {
		for _, target := range []string{"data", "index"} {
			for _, op := range []string{"write", "close"} {
				maxPos := nkeys
				if op == "close" {
					maxPos = 0
				}
				for pos := 0; pos <= maxPos; pos++ {
					dir, err := os.MkdirTemp("", "verif-dbfault-")
					if err != nil {
						return err
					}
					plan := &faultPlan{target: target, op: op, n: pos}
					m := build()
					ferr := withFault(plan, func() error {
						if withTomb {
							return m.FlushWithTombstones(sstables.WriteBasePath(dir))
						}
						return m.Flush(sstables.WriteBasePath(dir))
					})
					_ = os.RemoveAll(dir)
					res.Evaluations++
					cs := fmt.Sprintf("%s withTombstones=%v fault=%s/%s#%d", desc, withTomb, target, op, pos)
					if plan.hit {
						res.NoteNontrivial(fmt.Sprintf("%d/%s", idx, cs))
						res.Stat("flush:fault-hit:" + target + "-" + op)
						if ferr == nil {
							res.Violate(idx, "C11", "flush:"+target+"-"+op+"-fault-absorbed", "flush returned nil although the "+target+" "+op+" failed", cs)
						}
					} else {
						res.Stat("flush:fault-not-reached")
						if ferr != nil {
							res.Violate(idx, "C11", "flush:error-without-fault", ferr.Error(), cs)
						}
					}
				}
			}
		}
	}
	return nil
}

func dbFaultCompaction(res *Result, r *Rng, idx int) error {
	keys := []string{"a", "b", "c", "d", "e"}
	type built struct {
		dir  string
		db   *simpledb.DB
		want string
		desc string
	}
	open := func(dir string) (*simpledb.DB, error) {
		db, err := simpledb.NewSimpleDB(dir, simpledb.DisableCompactions(), simpledb.CompactionFileThreshold(1),
			simpledb.CompactionMaxSizeBytes(1<<30), simpledb.MemstoreSizeBytes(1<<40))
		if err != nil {
			return nil, err
		}
		return db, db.Open()
	}
	readAll := func(d *simpledb.DB) string {
		var parts []string
		for _, k := range keys {
			v, err := d.Get(k)
			if err != nil {
				parts = append(parts, k+"=-")
			} else {
				parts = append(parts, k+"="+v)
			}
		}
		return strings.Join(parts, ",")
	}
	build := func() (*built, error) {
		dir, err := os.MkdirTemp("", "verif-dbfault-db-")
		if err != nil {
			return nil, err
		}
		db, err := open(dir)
		if err != nil {
			return nil, err
		}
		ntables := 3 + r.Intn(3)
		ref := map[string]string{}
		for t := 0; t < ntables; t++ {
			cnt := 1 + r.Intn(4)
			for i := 0; i < cnt; i++ {
				k := keys[r.Intn(len(keys))]
				if r.Chance(20) {
					_ = db.Delete(k)
					delete(ref, k)
				} else {
					v := fmt.Sprintf("v%d-%d-%x", t, i, r.Bytes(3))
					_ = db.Put(k, v)
					ref[k] = v
				}
			}
			if err := db.VerifRotate(); err != nil {
				return nil, err
			}
			db.VerifWaitFlushIdle()
		}
		var parts []string
		for _, k := range keys {
			if v, ok := ref[k]; ok {
				parts = append(parts, k+"="+v)
			} else {
				parts = append(parts, k+"=-")
			}
		}
		b := &built{dir: dir, db: db, want: strings.Join(parts, ","), desc: fmt.Sprintf("db with %d tables", ntables)}
		res.Evaluations++
		if got := readAll(db); got != b.want {
			res.Violate(idx, "C11", "compaction:setup-read-mismatch", "want "+b.want+" got "+got, b.desc)
		}
		return b, nil
	}
	b, err := build()
	if err != nil {
		return err
	}
	defer func() {
		if b != nil {
			_ = b.db.Close()
			_ = os.RemoveAll(b.dir)
		}
	}()
	res.Sample("compaction: " + b.desc)
	type plan struct {
		target, op string
		pos        int
	}
	var plans []plan
	for _, target := range []string{"data", "index"} {
		for pos := 0; pos < 3; pos++ {
			plans = append(plans, plan{target, "write", pos})
		}
		plans = append(plans, plan{target, "close", 0})
	}
	for _, pl := range plans {
		namesBefore, _, _, _ := b.db.VerifTables()
		fp := &faultPlan{target: pl.target, op: pl.op, n: pl.pos}
		var sel []string
		cerr := withFault(fp, func() error {
			var e error
			sel, _, e = b.db.VerifCompactOnce()
			return e
		})
		cs := fmt.Sprintf("%s fault=%s/%s#%d", b.desc, pl.target, pl.op, pl.pos)
		res.Evaluations++
		if !fp.hit {
			res.Stat("compaction:fault-not-reached")
			if cerr != nil {
				res.Violate(idx, "C11", "compaction:error-without-fault", cerr.Error(), cs)
			}
			if got := readAll(b.db); got != b.want {
				res.Violate(idx, "C11", "compaction:reads-changed", "want "+b.want+" got "+got, cs)
			}
			if len(sel) > 0 || cerr != nil {
				// the cycle went through: the database changed shape, continue on a fresh one
				_ = b.db.Close()
				_ = os.RemoveAll(b.dir)
				if b, err = build(); err != nil {
					return err
				}
			}
			continue
		}
		res.NoteNontrivial(fmt.Sprintf("%d/%s", idx, cs))
		res.Stat("compaction:fault-hit:" + pl.target + "-" + pl.op)
		if cerr == nil {
			res.Violate(idx, "C11", "compaction:"+pl.target+"-"+pl.op+"-fault-absorbed",
				fmt.Sprintf("the compaction cycle reported success (selected %v) although the %s %s failed", sel, pl.target, pl.op), cs)
		}
		namesAfter, _, _, _ := b.db.VerifTables()
		if cerr != nil && strings.Join(namesAfter, ",") != strings.Join(namesBefore, ",") {
			res.Violate(idx, "C11", "compaction:incomplete-output-installed", fmt.Sprintf("tables %v -> %v after a failed cycle", namesBefore, namesAfter), cs)
		}
		if got := readAll(b.db); got != b.want {
			res.Violate(idx, "C11", "compaction:reads-changed-after-fault", "want "+b.want+" got "+got, cs)
		}
		if cerr == nil {
			_ = b.db.Close()
			_ = os.RemoveAll(b.dir)
			if b, err = build(); err != nil {
				return err
			}
		}
	}
	// the leftovers of the failed cycles must not harm a restart, and a healthy cycle must still work
	if err := b.db.Close(); err != nil {
		res.Violate(idx, "C11", "compaction:close-failed-after-fault", err.Error(), b.desc)
		return nil
	}
	db, err := open(b.dir)
	res.Evaluations++
	if err != nil {
		res.Violate(idx, "C11", "compaction:reopen-failed-after-fault", err.Error(), b.desc)
		_ = os.RemoveAll(b.dir)
		b = nil
		return nil
	}
	b.db = db
	if got := readAll(db); got != b.want {
		res.Violate(idx, "C11", "compaction:reads-changed-after-restart", "want "+b.want+" got "+got, b.desc)
	}
	if _, _, err := db.VerifCompactOnce(); err != nil {
		res.Violate(idx, "C11", "compaction:healthy-cycle-failed", err.Error(), b.desc)
	}
	if got := readAll(db); got != b.want {
		res.Violate(idx, "C11", "compaction:reads-changed", "want "+b.want+" got "+got, b.desc)
	}
	return nil
}
