package main

import (
	"errors"
	"fmt"
	"os"
	"path/filepath"
	"strings"
	"sync"

	"github.com/thomasjungblut/go-sstables/memstore"
	"github.com/thomasjungblut/go-sstables/recordio"
	rProto "github.com/thomasjungblut/go-sstables/recordio/proto"
	"github.com/thomasjungblut/go-sstables/simpledb"
	"github.com/thomasjungblut/go-sstables/sstables"
	"google.golang.org/protobuf/proto"
)

// ---------------------------------------------------------------------------------------------
// stream "dbfault": the system-level half of C11. A write / close of the data or index file of a table that is
// being produced by a memstore flush or by a compaction cycle fails at a chosen position (injected through the
// tag-guarded writer hook). Oracle only (no Lean model at this level): the operation must report the failure, a
// failed compaction must leave the live tables and every read unchanged, and the directory must stay recoverable.
// A failing close is the failing final flush of the writer's buffer: the file on disk stays short (header only, or a
// generated prefix). After every fault that was hit during a compaction cycle the database is closed and opened again
// with the real Open(): it must open and read as before (an incomplete output is never installed, not by the next
// recovery either).

var errInjected = errors.New("injected write fault")

type faultPlan struct {
	target string // "data" or "index"
	op     string // "write" or "close"
	n      int    // fail the n-th such call (0-based)
	// a failing close leaves a short file: keepPct < 0 keeps the 8-byte file header only (nothing of the buffer reached
	// the disk), otherwise that percentage of the bytes behind the header is kept
	keepPct int
	hit     bool
	mu      sync.Mutex
	seen    int
	short   string // what the failing close left on disk
}

const rioFileHeaderLen = 8

// the final flush failed: the file keeps only a prefix of what a successful close leaves
func (p *faultPlan) shorten(path string) {
	st, err := os.Stat(path)
	if err != nil {
		p.short = "stat failed: " + err.Error()
		return
	}
	size := st.Size()
	keep := size
	if size > rioFileHeaderLen {
		keep = rioFileHeaderLen
		if p.keepPct >= 0 {
			keep += (size - rioFileHeaderLen) * int64(p.keepPct) / 100
		}
	}
	if keep >= size && size > 0 {
		keep = size - 1
	}
	if err := os.Truncate(path, keep); err != nil {
		p.short = "truncate failed: " + err.Error()
		return
	}
	p.short = fmt.Sprintf("%s keeps %d of %d bytes", filepath.Base(path), keep, size)
}

func (p *faultPlan) shortClass() string {
	if p.keepPct < 0 {
		return "header-only"
	}
	return "generated-prefix"
}

func genKeepPct(r *Rng) int {
	if r.Chance(50) {
		return -1
	}
	return r.Intn(100)
}

func (p *faultPlan) should(target, op string) bool {
	p.mu.Lock()
	defer p.mu.Unlock()
	if p.target != target || p.op != op {
		return false
	}
	k := p.seen
	p.seen++
	if k == p.n {
		p.hit = true
		return true
	}
	return false
}

type faultDataWriter struct {
	recordio.WriterI
	plan *faultPlan
	path string
}

func (w *faultDataWriter) Write(b []byte) (uint64, error) {
	if w.plan.should("data", "write") {
		return 0, errInjected
	}
	return w.WriterI.Write(b)
}
func (w *faultDataWriter) Close() error {
	err := w.WriterI.Close()
	if w.plan.should("data", "close") {
		w.plan.shorten(w.path)
		return errors.Join(err, errInjected)
	}
	return err
}

type faultIndexWriter struct {
	rProto.WriterI
	plan *faultPlan
	path string
}

func (w *faultIndexWriter) Write(m proto.Message) (uint64, error) {
	if w.plan.should("index", "write") {
		return 0, errInjected
	}
	return w.WriterI.Write(m)
}
func (w *faultIndexWriter) Close() error {
	err := w.WriterI.Close()
	if w.plan.should("index", "close") {
		w.plan.shorten(w.path)
		return errors.Join(err, errInjected)
	}
	return err
}

func withFault(plan *faultPlan, f func() error) error {
	sstables.VerifWriterWrap = func(w *sstables.SSTableStreamWriter) {
		w.VerifWrapWriters(
			func(d recordio.WriterI) recordio.WriterI {
				return &faultDataWriter{d, plan, filepath.Join(w.VerifBasePath(), sstables.DataFileName)}
			},
			func(i rProto.WriterI) rProto.WriterI {
				return &faultIndexWriter{i, plan, filepath.Join(w.VerifBasePath(), sstables.IndexFileName)}
			})
	}
	defer func() { sstables.VerifWriterWrap = nil }()
	return safely(f)
}

func runDbFault(res *Result, _ *Driver, seed uint64, n int, tier string, only int) error {
	res.Rule = "memstores (1..12 entries incl. tombstones) flushed with both variants and 3..5-table databases compacted once, with one injected failure at " +
		"every position of {data,index} x {write,close} (a failing close leaves the file short: header only or a generated prefix); the database is " +
		"closed and re-opened with the real Open() after every compaction fault that was hit; one evaluation = one faulted operation or one restart; non-trivial = the fault position was reached; " +
		"distinct = distinct (case, target, op, position)"
	for idx := 0; idx < n; idx++ {
		if only >= 0 && idx != only {
			continue
		}
		r := NewRng(seed, uint64(idx))
		res.Cases++
		// what a failing close leaves on disk is drawn from a second generator state (the memstores and databases stay
		// what they were)
		r2 := NewRng(seed^0xc105ef1a, uint64(idx))
		if err := dbFaultFlush(res, r, r2, idx); err != nil {
			return err
		}
		if err := dbFaultCompaction(res, r, r2, idx); err != nil {
			return err
		}
	}
	return nil
}

func dbFaultFlush(res *Result, r, r2 *Rng, idx int) error {
	nkeys := 1 + r.Intn(12)
	type kv struct {
		k, v []byte
		del  bool
	}
	var entries []kv
	for i := 0; i < nkeys; i++ {
		entries = append(entries, kv{k: []byte(fmt.Sprintf("k%03d", i)), v: r.Bytes(1 + r.Intn(20)), del: r.Chance(25)})
	}
	build := func() memstore.MemStoreI {
		m := memstore.NewMemStore()
		for _, e := range entries {
			_ = m.Upsert(e.k, e.v)
			if e.del {
				_ = m.Delete(e.k)
			}
		}
		return m
	}
	desc := fmt.Sprintf("memstore of %d entries", nkeys)
	res.Sample("flush: " + desc)
	for _, withTomb := range []bool{false, true} {
		for _, target := range []string{"data", "index"} {
			for _, op := range []string{"write", "close"} {
				maxPos := nkeys
				if op == "close" {
					maxPos = 0
				}
				for pos := 0; pos <= maxPos; pos++ {
					dir, err := os.MkdirTemp("", "verif-dbfault-")
					if err != nil {
						return err
					}
					plan := &faultPlan{target: target, op: op, n: pos, keepPct: genKeepPct(r2)}
					m := build()
					ferr := withFault(plan, func() error {
						if withTomb {
							return m.FlushWithTombstones(sstables.WriteBasePath(dir))
						}
						return m.Flush(sstables.WriteBasePath(dir))
					})
					_ = os.RemoveAll(dir)
					res.Evaluations++
					cs := fmt.Sprintf("%s withTombstones=%v fault=%s/%s#%d", desc, withTomb, target, op, pos)
					if plan.hit && op == "close" {
						cs += " (" + plan.short + ")"
						res.Stat("flush:close-fault-leaves:" + plan.shortClass())
					}
					if plan.hit {
						res.NoteNontrivial(fmt.Sprintf("%d/%s", idx, cs))
						res.Stat("flush:fault-hit:" + target + "-" + op)
						if ferr == nil {
							res.Violate(idx, "C11", "flush:"+target+"-"+op+"-fault-absorbed", "flush returned nil although the "+target+" "+op+" failed", cs)
						}
					} else {
						res.Stat("flush:fault-not-reached")
						if ferr != nil {
							res.Violate(idx, "C11", "flush:error-without-fault", ferr.Error(), cs)
						}
					}
				}
			}
		}
	}
	return nil
}

func dbFaultCompaction(res *Result, r, r2 *Rng, idx int) error {
	keys := []string{"a", "b", "c", "d", "e"}
	type built struct {
		dir  string
		db   *simpledb.DB
		want string
		desc string
	}
	open := func(dir string) (*simpledb.DB, error) {
		db, err := simpledb.NewSimpleDB(dir, simpledb.DisableCompactions(), simpledb.CompactionFileThreshold(1),
			simpledb.CompactionMaxSizeBytes(1<<30), simpledb.MemstoreSizeBytes(1<<40))
		if err != nil {
			return nil, err
		}
		return db, db.Open()
	}
	readAll := func(d *simpledb.DB) string {
		var parts []string
		for _, k := range keys {
			v, err := d.Get(k)
			if err != nil {
				parts = append(parts, k+"=-")
			} else {
				parts = append(parts, k+"="+v)
			}
		}
		return strings.Join(parts, ",")
	}
	buildWith := func(r *Rng, delPct int) (*built, error) {
		dir, err := os.MkdirTemp("", "verif-dbfault-db-")
		if err != nil {
			return nil, err
		}
		db, err := open(dir)
		if err != nil {
			return nil, err
		}
		ntables := 3 + r.Intn(3)
		ref := map[string]string{}
		for t := 0; t < ntables; t++ {
			cnt := 1 + r.Intn(4)
			for i := 0; i < cnt; i++ {
				k := keys[r.Intn(len(keys))]
				if r.Chance(delPct) {
					_ = db.Delete(k)
					delete(ref, k)
				} else {
					v := fmt.Sprintf("v%d-%d-%x", t, i, r.Bytes(3))
					_ = db.Put(k, v)
					ref[k] = v
				}
			}
			if err := db.VerifRotate(); err != nil {
				return nil, err
			}
			db.VerifWaitFlushIdle()
		}
		var parts []string
		for _, k := range keys {
			if v, ok := ref[k]; ok {
				parts = append(parts, k+"="+v)
			} else {
				parts = append(parts, k+"=-")
			}
		}
		b := &built{dir: dir, db: db, want: strings.Join(parts, ","), desc: fmt.Sprintf("db with %d tables", ntables)}
		res.Evaluations++
		if got := readAll(db); got != b.want {
			res.Violate(idx, "C11", "compaction:setup-read-mismatch", "want "+b.want+" got "+got, b.desc)
		}
		return b, nil
	}
	build := func() (*built, error) { return buildWith(r, 20) }
	b, err := build()
	if err != nil {
		return err
	}
	defer func() {
		if b != nil {
			_ = b.db.Close()
			_ = os.RemoveAll(b.dir)
		}
	}()
	res.Sample("compaction: " + b.desc)
	type plan struct {
		target, op string
		pos        int
	}
	var plans []plan
	for _, target := range []string{"data", "index"} {
		for pos := 0; pos < 3; pos++ {
			plans = append(plans, plan{target, "write", pos})
		}
		plans = append(plans, plan{target, "close", 0})
	}
	// the database is closed and opened again with the real Open(); false: it did not come back as it was and was
	// replaced by a fresh one
	restart := func(after, cs string) (bool, error) {
		res.Evaluations++
		res.Stat("compaction:restart-after:" + after)
		namesBefore, _, _, _ := b.db.VerifTables()
		bad := false
		if err := b.db.Close(); err != nil {
			res.Violate(idx, "C11", "compaction:close-failed-after-"+after, err.Error(), cs)
			bad = true
		} else if db, err := open(b.dir); err != nil {
			res.Violate(idx, "C11", "compaction:reopen-failed-after-"+after, "Open() after a restart: "+err.Error(), cs)
			bad = true
		} else {
			b.db = db
			namesAfter, _, _, _ := db.VerifTables()
			if strings.Join(namesAfter, ",") != strings.Join(namesBefore, ",") {
				res.Violate(idx, "C11", "compaction:tables-changed-by-restart-after-"+after, fmt.Sprintf("tables %v -> %v over a restart", namesBefore, namesAfter), cs)
				bad = true
			}
			if got := readAll(db); got != b.want {
				res.Violate(idx, "C11", "compaction:reads-changed-by-restart-after-"+after, "want "+b.want+" got "+got, cs)
				bad = true
			}
			if bad {
				_ = db.Close()
			}
		}
		if !bad {
			return true, nil
		}
		_ = os.RemoveAll(b.dir)
		var err error
		b, err = build()
		return false, err
	}
	for _, pl := range plans {
		namesBefore, _, _, _ := b.db.VerifTables()
		fp := &faultPlan{target: pl.target, op: pl.op, n: pl.pos, keepPct: genKeepPct(r2)}
		var sel []string
		cerr := withFault(fp, func() error {
			var e error
			sel, _, e = b.db.VerifCompactOnce()
			return e
		})
		cs := fmt.Sprintf("%s fault=%s/%s#%d", b.desc, pl.target, pl.op, pl.pos)
		res.Evaluations++
		if !fp.hit {
			res.Stat("compaction:fault-not-reached")
			if cerr != nil {
				res.Violate(idx, "C11", "compaction:error-without-fault", cerr.Error(), cs)
			}
			if got := readAll(b.db); got != b.want {
				res.Violate(idx, "C11", "compaction:reads-changed", "want "+b.want+" got "+got, cs)
			}
			if len(sel) > 0 || cerr != nil {
				// the cycle went through: the database changed shape, continue on a fresh one
				_ = b.db.Close()
				_ = os.RemoveAll(b.dir)
				if b, err = build(); err != nil {
					return err
				}
			}
			continue
		}
		if pl.op == "close" {
			cs += " (" + fp.short + ")"
			res.Stat("compaction:close-fault-leaves:" + fp.shortClass())
		}
		res.NoteNontrivial(fmt.Sprintf("%d/%s", idx, cs))
		res.Stat("compaction:fault-hit:" + pl.target + "-" + pl.op)
		if cerr == nil {
			res.Violate(idx, "C11", "compaction:"+pl.target+"-"+pl.op+"-fault-absorbed",
				fmt.Sprintf("the compaction cycle reported success (selected %v) although the %s %s failed", sel, pl.target, pl.op), cs)
		}
		namesAfter, _, _, _ := b.db.VerifTables()
		if cerr != nil && strings.Join(namesAfter, ",") != strings.Join(namesBefore, ",") {
			res.Violate(idx, "C11", "compaction:incomplete-output-installed", fmt.Sprintf("tables %v -> %v after a failed cycle", namesBefore, namesAfter), cs)
		}
		if got := readAll(b.db); got != b.want {
			res.Violate(idx, "C11", "compaction:reads-changed-after-fault", "want "+b.want+" got "+got, cs)
		}
		if cerr == nil {
			_ = b.db.Close()
			_ = os.RemoveAll(b.dir)
			if b, err = build(); err != nil {
				return err
			}
			continue
		}
		// the failed cycle was reported; what it left behind must not be installed by the next recovery either
		if _, err := restart(pl.target+"-"+pl.op+"-fault", cs); err != nil {
			return err
		}
	}
	// after all the failed cycles and restarts a healthy cycle must still work, and survive a restart
	res.Evaluations++
	if _, _, err := b.db.VerifCompactOnce(); err != nil {
		res.Violate(idx, "C11", "compaction:healthy-cycle-failed", err.Error(), b.desc)
	}
	if got := readAll(b.db); got != b.want {
		res.Violate(idx, "C11", "compaction:reads-changed", "want "+b.want+" got "+got, b.desc)
	}
	if _, err := restart("healthy-cycle", b.desc); err != nil {
		return err
	}

	// ---- an input table lost the tail of its data file while the database was down: its last record, a tombstone
	// (stored checksum 0, no payload), is gone. Whether such a table is accepted by Open() is not judged here (Stat
	// only). If it is, a compaction cycle over it either reports an error and changes nothing, or it has delivered
	// every record the table's index announces - which it cannot have, so success is a violation.
	_ = b.db.Close()
	_ = os.RemoveAll(b.dir)
	if b, err = buildWith(r2, 40); err != nil {
		return err
	}
	if err := b.db.Close(); err != nil {
		return err
	}
	ents, err := os.ReadDir(b.dir)
	if err != nil {
		return err
	}
	type lostCand struct {
		name string
		off  int64
		recs int
	}
	var cands []lostCand
	for _, e := range ents {
		if !e.IsDir() || !strings.HasPrefix(e.Name(), simpledb.SSTablePrefix+"_") || strings.HasPrefix(e.Name(), simpledb.SSTableCompactionPathPrefix) {
			continue
		}
		l, err := mgDataLayout(filepath.Join(b.dir, e.Name()))
		if err != nil {
			return fmt.Errorf("layout of %s: %w", e.Name(), err)
		}
		if last := len(l.offs) - 1; last >= 0 && l.end(last) == l.offs[last]+l.hdr[last] {
			cands = append(cands, lostCand{e.Name(), l.offs[last], len(l.offs)})
		}
	}
	reopen := func() error {
		db, err := open(b.dir)
		if err != nil {
			return err
		}
		b.db = db
		return nil
	}
	if len(cands) == 0 {
		res.Stat("lost-tail:no-table-ends-with-a-tombstone")
		return reopen()
	}
	lc := cands[r2.Intn(len(cands))]
	if err := os.Truncate(filepath.Join(b.dir, lc.name, sstables.DataFileName), lc.off); err != nil {
		return err
	}
	cs := fmt.Sprintf("%s; data.rio of %s ends at byte %d, before the last of its %d records (a tombstone)", b.desc, lc.name, lc.off, lc.recs)
	if err := reopen(); err != nil {
		res.Stat("lost-tail:open-rejected")
		_ = os.RemoveAll(b.dir)
		b = nil
		return nil
	}
	res.Stat("lost-tail:open-accepted")
	base := readAll(b.db)
	if base == b.want {
		res.Stat("lost-tail:reads-as-before-the-loss")
	} else {
		res.Stat("lost-tail:reads-differ-after-the-loss(not judged)")
	}
	b.want = base
	namesBefore, _, _, _ := b.db.VerifTables()
	var sel []string
	cerr := safely(func() error {
		var e error
		sel, _, e = b.db.VerifCompactOnce()
		return e
	})
	res.Evaluations++
	selected := false
	for _, n := range sel {
		selected = selected || n == lc.name
	}
	switch {
	case cerr != nil:
		res.Stat("lost-tail:compaction-reported:" + errKind(cerr))
		namesAfter, _, _, _ := b.db.VerifTables()
		if strings.Join(namesAfter, ",") != strings.Join(namesBefore, ",") {
			res.Violate(idx, "C11", "compaction:incomplete-output-installed:input-data-tail-lost", fmt.Sprintf("tables %v -> %v after a failed cycle", namesBefore, namesAfter), cs)
		}
	case selected:
		res.Violate(idx, "C11", "compaction:input-data-tail-lost-before-open:empty-value-tail",
			fmt.Sprintf("the cycle over %v reported success although the data file of %s ends before its last record", sel, lc.name), cs)
	default:
		res.Stat("lost-tail:table-not-selected")
	}
	if got := readAll(b.db); got != base {
		res.Violate(idx, "C11", "compaction:reads-changed:input-data-tail-lost", "want "+base+" got "+got, cs)
	}
	if cerr != nil {
		if _, err := restart("input-data-tail-lost", cs); err != nil {
			return err
		}
	}
	return nil
}
