// sstcheck: correspondence harness between the Lean model (driver executable) and the real go-sstables code,
// plus the property oracles evaluated on the implementation.
package main

import (
	"flag"
	"fmt"
	"io"
	"log"
	"os"
	"runtime/debug"
)

type streamFn func(res *Result, drv *Driver, seed uint64, n int, tier string, only int) error

var streams = map[string]streamFn{
	"wal":     runWal,
	"db":      runDb,
	"dbfault": runDbFault,
	"rio":     runRio,
	"sst":     runSst, // C15 + C03: stream-writer programs x fault masks, every loader read back
	"sstdmg":  runSstDmg, // C09: damaged data files of small tables, verify on load / on read
	"skip":    runSkip,
	"riodmg":  runRioDmg,
	"pq":      runPq,
	"merge":   runMerge,
	"mem":     runMem,     // C14: memstore programs vs reference map vs Lean model, both flush variants read back
	"kaitai":  runKaitai,  // C20: generated Kaitai reader vs native reader vs Lean schema interpreter
	"handles": runHandles, // C19: descriptors, mappings, goroutines vs the Lean handle model; bound + release oracles
	"crash":   runCrash,   // crash images from strace'd real runs (C02, C07, C10, C13, C17); flavour via --flavour
}

func main() {
	log.SetOutput(io.Discard) // the library logs flush/compaction progress through the std logger
	debug.SetMemoryLimit(8 << 30)
	if len(os.Args) < 2 {
		fmt.Fprintln(os.Stderr, "usage: sstcheck <stream> [flags]")
		os.Exit(2)
	}
	if child, ok := crashChildModes[os.Args[1]]; ok { // crashchild / crashprobe / walprobe (crash_child.go)
		os.Exit(child(os.Args[2:]))
	}
	stream := os.Args[1]
	fs := flag.NewFlagSet(stream, flag.ExitOnError)
	seed := fs.Uint64("seed", 1, "PRNG seed")
	n := fs.Int("n", 100, "number of cases")
	tier := fs.String("tier", "quick", "quick|thorough")
	drvPath := fs.String("drv", "", "path of the Lean driver executable")
	out := fs.String("out", "-", "result JSON path")
	only := fs.Int("only", -1, "run only this case index (replay)")
	fs.StringVar(&crashFlavour, "flavour", "all", "stream crash: all|sync|async|wal|reject|nested")
	fs.StringVar(&crashDebugDir, "crash-debug", "", "stream crash: directory for traces/abstract descriptions (debug)")
	_ = fs.Parse(os.Args[2:])
	fn, ok := streams[stream]
	if !ok {
		fmt.Fprintf(os.Stderr, "unknown stream %q\n", stream)
		os.Exit(2)
	}
	drv, err := StartDriver(*drvPath)
	if err != nil {
		fmt.Fprintln(os.Stderr, "cannot start model driver:", err)
		os.Exit(3)
	}
	defer drv.Close()
	res := NewResult(stream, *seed, *tier)
	if err := fn(res, drv, *seed, *n, *tier, *only); err != nil {
		fmt.Fprintln(os.Stderr, "harness error:", err)
		res.ModelLines = drv.lines
		_ = res.Write(*out)
		os.Exit(3)
	}
	res.ModelLines = drv.lines
	if err := res.Write(*out); err != nil {
		fmt.Fprintln(os.Stderr, err)
		os.Exit(3)
	}
}
