package main

import (
	"bufio"
	"encoding/hex"
	"encoding/json"
	"errors"
	"fmt"
	"io"
	"os"
	"os/exec"
	"sort"
	"strings"
	"time"

	"github.com/thomasjungblut/go-sstables/recordio"
)

// ---------------------------------------------------------------------------------------------
// deterministic PRNG: one splitmix64 state per case, derived from (seed, case index)

type Rng struct{ s uint64 }

func NewRng(seed uint64, idx uint64) *Rng {
	r := &Rng{s: seed*0x9E3779B97F4A7C15 + idx*0xD1B54A32D192ED03 + 0x2545F4914F6CDD1D}
	r.Next()
	return r
}

func (r *Rng) Next() uint64 {
	r.s += 0x9E3779B97F4A7C15
	z := r.s
	z = (z ^ (z >> 30)) * 0xBF58476D1CE4E5B9
	z = (z ^ (z >> 27)) * 0x94D049BB133111EB
	return z ^ (z >> 31)
}

func (r *Rng) Intn(n int) int {
	if n <= 0 {
		return 0
	}
	return int(r.Next() % uint64(n))
}

func (r *Rng) Chance(pct int) bool { return r.Intn(100) < pct }

func (r *Rng) Pick(xs []int) int { return xs[r.Intn(len(xs))] }

func (r *Rng) Bytes(n int) []byte {
	b := make([]byte, n)
	for i := range b {
		b[i] = byte(r.Next())
	}
	return b
}

// ---------------------------------------------------------------------------------------------
// Lean model driver (line protocol)

type Driver struct {
	cmd   *exec.Cmd
	in    *bufio.Writer
	out   *bufio.Reader
	lines int
}

func StartDriver(path string) (*Driver, error) {
	cmd := exec.Command(path)
	stdin, err := cmd.StdinPipe()
	if err != nil {
		return nil, err
	}
	stdout, err := cmd.StdoutPipe()
	if err != nil {
		return nil, err
	}
	cmd.Stderr = os.Stderr
	if err := cmd.Start(); err != nil {
		return nil, err
	}
	d := &Driver{cmd: cmd, in: bufio.NewWriterSize(stdin, 1<<20), out: bufio.NewReaderSize(stdout, 1<<20)}
	if got, err := d.Ask("ping"); err != nil || got != "pong" {
		return nil, fmt.Errorf("driver handshake failed: %q %v", got, err)
	}
	return d, nil
}

// Ask sends one line and reads one line.
func (d *Driver) Ask(line string) (string, error) {
	d.lines++
	if _, err := d.in.WriteString(line + "\n"); err != nil {
		return "", err
	}
	if err := d.in.Flush(); err != nil {
		return "", err
	}
	resp, err := d.out.ReadString('\n')
	if err != nil {
		return "", fmt.Errorf("driver died: %w", err)
	}
	return strings.TrimRight(resp, "\n"), nil
}

func (d *Driver) Close() {
	_ = d.in.Flush()
	if c, ok := d.cmd.Stdin.(io.Closer); ok {
		_ = c.Close()
	}
	_ = d.cmd.Process.Kill()
	_ = d.cmd.Wait()
}

// ---------------------------------------------------------------------------------------------
// canonical forms

// goBytes: "-" nil, "." empty, hex otherwise
func gb(b []byte) string {
	if b == nil {
		return "-"
	}
	if len(b) == 0 {
		return "."
	}
	return hex.EncodeToString(b)
}

func errKind(err error) string {
	if err == nil {
		return ""
	}
	msg := err.Error()
	switch {
	case errors.Is(err, io.EOF):
		return "eof"
	case errors.Is(err, io.ErrUnexpectedEOF):
		return "ueof"
	case errors.Is(err, recordio.MagicNumberMismatchErr):
		return "magic"
	case errors.Is(err, recordio.HeaderChecksumMismatchErr):
		return "hdrcrc"
	case strings.Contains(msg, "non-canonical varint"):
		return "noncanon"
	case strings.Contains(msg, "overflows a 64-bit integer"):
		return "overflow"
	case strings.Contains(msg, "checksum byte reader out of range"):
		return "hdrlong"
	case strings.Contains(msg, "failed decompressing"), strings.Contains(msg, "snappy: "), strings.Contains(msg, "gzip: "), strings.Contains(msg, "lzw: "), strings.Contains(msg, "flate: "):
		return "decomp"
	case strings.Contains(msg, "injected"):
		return "io"
	}
	return "other"
}

// safely runs f, converting a panic into an error
func safely(f func() error) (err error) {
	defer func() {
		if r := recover(); r != nil {
			err = fmt.Errorf("PANIC: %v", r)
		}
	}()
	return f()
}

// ---------------------------------------------------------------------------------------------
// results

type Violation struct {
	Property string `json:"property"`
	Sig      string `json:"sig"`    // classification of the failing input (matched against known findings)
	Detail   string `json:"detail"` // what was expected / observed
	Case     string `json:"case"`   // the failing input, written out
	CaseIdx  int    `json:"case_idx"`
}

type Disagreement struct {
	What    string `json:"what"`
	Model   string `json:"model"`
	Impl    string `json:"impl"`
	Case    string `json:"case"`
	CaseIdx int    `json:"case_idx"`
}

type Result struct {
	Stream        string         `json:"stream"`
	Seed          uint64         `json:"seed"`
	Tier          string         `json:"tier"`
	Cases         int            `json:"cases"`
	Evaluations   int            `json:"evaluations"`    // individual comparisons / oracle evaluations
	Nontrivial    int            `json:"nontrivial"`     // distinct non-trivial cases (by the stream's rule)
	Rule          string         `json:"rule"`
	ModelLines    int            `json:"model_lines"`    // lines answered by the Lean driver
	Stats         map[string]int `json:"stats"`          // input distribution, branches, error kinds hit
	Samples       []string       `json:"samples"`
	Disagreements []Disagreement `json:"disagreements"`
	Violations    []Violation    `json:"violations"`
	WallS         float64        `json:"wall_s"`
	distinct      map[string]bool
	start         time.Time
}

func NewResult(stream string, seed uint64, tier string) *Result {
	return &Result{Stream: stream, Seed: seed, Tier: tier, Stats: map[string]int{}, distinct: map[string]bool{}, start: time.Now()}
}

func (r *Result) Stat(k string)        { r.Stats[k]++ }
func (r *Result) StatN(k string, n int) { r.Stats[k] += n }

func (r *Result) NoteNontrivial(key string) {
	if !r.distinct[key] {
		r.distinct[key] = true
		r.Nontrivial++
	}
}

func (r *Result) Sample(s string) {
	if len(r.Samples) < 5 {
		if len(s) > 600 {
			s = s[:600] + "…"
		}
		r.Samples = append(r.Samples, s)
	}
}

func (r *Result) Disagree(idx int, what, model, impl, cs string) {
	r.Stat("disagreements")
	if len(r.Disagreements) < 20 {
		r.Disagreements = append(r.Disagreements, Disagreement{What: what, Model: clip(model), Impl: clip(impl), Case: clip(cs), CaseIdx: idx})
	}
}

func (r *Result) Violate(idx int, prop, sig, detail, cs string) {
	r.Stat("violations")
	r.Stat("violation:" + prop + ":" + sig)
	// keep at most 3 examples per (property, signature)
	n := 0
	for _, v := range r.Violations {
		if v.Property == prop && v.Sig == sig {
			n++
		}
	}
	if n < 3 {
		r.Violations = append(r.Violations, Violation{Property: prop, Sig: sig, Detail: clip(detail), Case: clip(cs), CaseIdx: idx})
	}
}

func clip(s string) string {
	if len(s) > 4000 {
		return s[:4000] + "…"
	}
	return s
}

func (r *Result) Write(path string) error {
	r.WallS = time.Since(r.start).Seconds()
	keys := make([]string, 0, len(r.Stats))
	for k := range r.Stats {
		keys = append(keys, k)
	}
	sort.Strings(keys)
	b, err := json.MarshalIndent(r, "", " ")
	if err != nil {
		return err
	}
	if path == "" || path == "-" {
		_, err = os.Stdout.Write(append(b, '\n'))
		return err
	}
	return os.WriteFile(path, b, 0o644)
}

// compare model and implementation answers
func (r *Result) Cmp(idx int, what, model, impl, cs string) bool {
	r.Evaluations++
	if strings.Contains(model, "need-oracle") || strings.Contains(model, "bad-op") {
		r.Disagree(idx, what+" (HARNESS BUG: model could not interpret the case)", model, impl, cs)
		return false
	}
	if model != impl {
		// focus the report on the first differing token
		m, i := strings.Split(model, " "), strings.Split(impl, " ")
		k := 0
		for k < len(m) && k < len(i) && m[k] == i[k] {
			k++
		}
		r.Disagree(idx, fmt.Sprintf("%s (first difference at token %d of %d/%d)", what, k, len(m), len(i)), tokAt(m, k), tokAt(i, k), cs)
		return false
	}
	return true
}

func tokAt(t []string, k int) string {
	if k >= len(t) {
		return "<end>"
	}
	return t[k]
}
