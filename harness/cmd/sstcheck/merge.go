package main

import (
	"bytes"
	"encoding/binary"
	"errors"
	"fmt"
	"io"
	"os"
	"path/filepath"
	"sort"
	"strconv"
	"strings"

	rProto "github.com/thomasjungblut/go-sstables/recordio/proto"
	"github.com/thomasjungblut/go-sstables/skiplist"
	"github.com/thomasjungblut/go-sstables/sstables"
	sstProto "github.com/thomasjungblut/go-sstables/sstables/proto"
)

// ---------------------------------------------------------------------------------------------
// stream "merge": SuperSSTableReader, SSTableMerger.Merge / MergeCompact over REAL tables (C08) and the same
// operations with failing input iterators / output writer (C11)

type mgRec struct {
	k []byte
	v []byte // nil = tombstone
}

type mgTable []mgRec

// error kinds of this layer (refines errKind's "other")
func mergeErrKind(err error) string {
	if err == nil {
		return "-"
	}
	k := errKind(err)
	if k != "other" {
		return k
	}
	msg := err.Error()
	switch {
	case errors.Is(err, sstables.NotFound):
		return "notfound"
	case strings.Contains(msg, "the same key cannot be written more than once"),
		strings.Contains(msg, "non-ascending key cannot be written"),
		strings.Contains(msg, "keyHigher is lower than keyLower"):
		return "rejected"
	}
	return "other"
}

// iterator wrapper: the failAt-th call (0-based) of Next returns an error, the item it would have returned is lost
type faultIter struct {
	inner  sstables.SSTableIteratorI
	calls  int
	failAt int // -1: never
	hit    int
}

func (f *faultIter) Next() ([]byte, []byte, error) {
	n := f.calls
	f.calls++
	k, v, err := f.inner.Next()
	if n == f.failAt {
		f.hit++
		return nil, nil, errors.New("injected read fault")
	}
	return k, v, err
}

// writer wrapper: the chosen calls (0-based) of WriteNext fail before reaching the real writer
type faultWriter struct {
	inner   sstables.SSTableStreamWriterI
	calls   int
	failAt  map[int]bool
	hit     int
	written []mgRec // records the real writer accepted
}

func (f *faultWriter) Open() error { return f.inner.Open() }
func (f *faultWriter) WriteNext(k, v []byte) error {
	n := f.calls
	f.calls++
	if f.failAt[n] {
		f.hit++
		return errors.New("injected write fault")
	}
	err := f.inner.WriteNext(k, v)
	if err == nil {
		var vc []byte
		if v != nil {
			vc = append([]byte{}, v...)
		}
		f.written = append(f.written, mgRec{append([]byte{}, k...), vc})
	}
	return err
}
func (f *faultWriter) Close() error { return f.inner.Close() }

func mgRecsStr(rs []mgRec, keyNilness bool) string {
	if len(rs) == 0 {
		return "[]"
	}
	parts := make([]string, len(rs))
	for i, r := range rs {
		k := r.k
		if !keyNilness {
			k = nonNil(k)
		}
		parts[i] = gb(k) + "=" + gb(r.v)
	}
	return strings.Join(parts, ";")
}

func mgTablesTok(ts []mgTable) string {
	var tt []string
	for _, t := range ts {
		var parts []string
		for _, r := range t {
			parts = append(parts, gb(nonNil(r.k))+":"+gb(r.v))
		}
		tt = append(tt, strings.Join(parts, ";"))
	}
	return strings.Join(tt, "|")
}

func mgCopy(b []byte) []byte {
	if b == nil {
		return nil
	}
	return append([]byte{}, b...)
}

// drains an iterator the way a caller does. The records are copied at the moment Next returns them; the slices
// actually handed out are kept and compared with the copies at the end: mutated != "" says that a key or value
// returned by one Next was changed by a later Next (memory owned by the iterator handed out).
func mgDrain(it sstables.SSTableIteratorI) (out []mgRec, mutated string, err error) {
	var handed []mgRec
	check := func() string {
		for i := range out {
			if !bytes.Equal(out[i].k, handed[i].k) || !bytes.Equal(out[i].v, handed[i].v) {
				return fmt.Sprintf("record #%d was returned as %s=%s and reads %s=%s after later Next calls",
					i, gb(out[i].k), gb(out[i].v), gb(handed[i].k), gb(handed[i].v))
			}
		}
		return ""
	}
	for i := 0; i < 10000000; i++ {
		k, v, e := it.Next()
		if e != nil {
			if errors.Is(e, sstables.Done) {
				return out, check(), nil
			}
			return out, check(), e
		}
		handed = append(handed, mgRec{k, v})
		out = append(out, mgRec{mgCopy(k), mgCopy(v)})
	}
	return out, "", errors.New("iterator does not terminate")
}

// the key comparator of the current case, handed to every table writer, reader (option and skip-list index loader),
// SuperSSTableReader and merger: skiplist.BytesComparator, or a contract-conforming comparator over the same order whose
// results have other magnitudes (sstCmpFor: scaled sign, byte / length difference). The expected answers are the same:
// model and reference depend on the sign only.
var mgCmp skiplist.Comparator[[]byte] = skiplist.BytesComparator{}

func mgWriteTable(dir string, t mgTable, bufSize, comp int) error {
	if err := os.MkdirAll(dir, 0o755); err != nil {
		return err
	}
	w, err := sstables.NewSSTableStreamWriter(sstables.WriteBasePath(dir), sstables.WithKeyComparator(mgCmp),
		sstables.WriteBufferSizeBytes(bufSize), sstables.DataCompressionType(comp))
	if err != nil {
		return err
	}
	if err := w.Open(); err != nil {
		return err
	}
	for _, r := range t {
		if err := w.WriteNext(r.k, r.v); err != nil {
			_ = w.Close()
			return err
		}
	}
	return w.Close()
}

// index loaders: the answers must not depend on them
const (
	mgLdSlice = iota // default
	mgLdSkipList
	mgLdMap  // Byte4KeyMapper: Get/Contains collide for keys that are equal after zero padding (documented)
	mgLdDisk // EXPERIMENTAL: only the sequential full Scan() paths are used with it
)

var mgLdNames = []string{"slice", "skiplist", "map4", "disk"}

func mgOpen(dir string, loader int) (sstables.SSTableReaderI, error) {
	opts := []sstables.ReadOption{sstables.ReadBasePath(dir), sstables.ReadWithKeyComparator(mgCmp)}
	switch loader {
	case mgLdSkipList:
		opts = append(opts, sstables.ReadIndexLoader(&sstables.SkipListIndexLoader{KeyComparator: mgCmp, ReadBufferSize: 4096}))
	case mgLdMap:
		opts = append(opts, sstables.ReadIndexLoader(&sstables.MapKeyIndexLoader[[4]byte]{ReadBufferSize: 4096, Mapper: &sstables.Byte4KeyMapper{}}))
	case mgLdDisk:
		opts = append(opts, sstables.ReadIndexLoader(&sstables.DiskIndexLoader{}))
	}
	return sstables.NewSSTableReader(opts...)
}

// the independent reference: apply the tables in order to a map, later tables override earlier ones
type mgRef struct {
	m    map[string][]byte // nil value = tombstone
	keys [][]byte          // sorted
}

func mgOverlay(ts []mgTable) *mgRef {
	ref := &mgRef{m: map[string][]byte{}}
	for _, t := range ts {
		for _, r := range t {
			ref.m[string(r.k)] = r.v
		}
	}
	for k := range ref.m {
		ref.keys = append(ref.keys, []byte(k))
	}
	sort.Slice(ref.keys, func(a, b int) bool { return bytes.Compare(ref.keys[a], ref.keys[b]) < 0 })
	return ref
}

// entries in key order that satisfy pred on (key, newest value)
func (ref *mgRef) list(pred func(k, v []byte) bool) []mgRec {
	var out []mgRec
	for _, k := range ref.keys {
		v := ref.m[string(k)]
		if pred(k, v) {
			out = append(out, mgRec{k, v})
		}
	}
	return out
}

// the data file of an input table loses its tail: it ends at byte `off`, inside or right before record `rec`
type mgCut struct {
	rec    int    // first record that is not completely there any more
	kind   string // record-boundary | in-header | after-header | in-payload
	off    int64
	before bool // the tail was already missing when the reader was opened (and the table loaded nevertheless)
}

type mgFault struct {
	reads  map[int]int // input → failing call
	writes map[int]bool
	cuts   map[int]mgCut // input → lost tail of its data file (appears after the reader was opened and validated)
}

func (f mgFault) cutTok() string {
	var is []int
	for i := range f.cuts {
		is = append(is, i)
	}
	sort.Ints(is)
	var cs []string
	for _, i := range is {
		c := f.cuts[i]
		when := "after-open"
		if c.before {
			when = "before-open"
		}
		cs = append(cs, fmt.Sprintf("%d:%s:%s@rec%d(byte %d)", i, when, c.kind, c.rec, c.off))
	}
	return strings.Join(cs, ",")
}

// positions of the records in a table's data file, taken from its index file: start offset and header length of
// every record, and the file length
type mgLayout struct {
	offs []int64
	hdr  []int64
	size int64
}

func (l *mgLayout) end(j int) int64 {
	if j+1 < len(l.offs) {
		return l.offs[j+1]
	}
	return l.size
}

func mgDataLayout(dir string) (*mgLayout, error) {
	data, err := os.ReadFile(filepath.Join(dir, sstables.DataFileName))
	if err != nil {
		return nil, err
	}
	l := &mgLayout{size: int64(len(data))}
	rd, err := rProto.NewReader(rProto.ReaderPath(filepath.Join(dir, sstables.IndexFileName)))
	if err != nil {
		return nil, err
	}
	if err := rd.Open(); err != nil {
		return nil, err
	}
	defer rd.Close()
	for {
		e := &sstProto.IndexEntry{}
		if _, err := rd.ReadNext(e); err != nil {
			if errors.Is(err, io.EOF) {
				break
			}
			return nil, err
		}
		off := int64(e.ValueOffset)
		if off < 0 || off >= l.size {
			return nil, fmt.Errorf("index offset %d outside the data file of %d bytes", off, l.size)
		}
		// record header (V4): uvarint magic, nil flag byte, uvarint size, uvarint compressed size, uvarint checksum
		p := off
		for f := 0; f < 5; f++ {
			if f == 1 {
				p++
				continue
			}
			_, n := binary.Uvarint(data[p:])
			if n <= 0 {
				return nil, fmt.Errorf("cannot parse the record header at offset %d", off)
			}
			p += int64(n)
		}
		l.offs = append(l.offs, off)
		l.hdr = append(l.hdr, p-off)
	}
	for j := range l.offs {
		if l.offs[j]+l.hdr[j] > l.end(j) {
			return nil, fmt.Errorf("record %d: header of %d bytes does not fit between %d and %d", j, l.hdr[j], l.offs[j], l.end(j))
		}
	}
	return l, nil
}

// the cuts that take (part of) record j away
func (l *mgLayout) cutsOf(r *Rng, j int) []mgCut {
	start, hdrEnd, end := l.offs[j], l.offs[j]+l.hdr[j], l.end(j)
	cs := []mgCut{{rec: j, kind: "record-boundary", off: start}}
	if hdrEnd-start >= 2 {
		cs = append(cs, mgCut{rec: j, kind: "in-header", off: start + 1 + int64(r.Intn(int(hdrEnd-start-1)))})
	}
	if end > hdrEnd {
		cs = append(cs, mgCut{rec: j, kind: "after-header", off: hdrEnd})
	}
	if end-hdrEnd >= 2 {
		cs = append(cs, mgCut{rec: j, kind: "in-payload", off: hdrEnd + 1 + int64(r.Intn(int(end-hdrEnd-1)))})
	}
	return cs
}

// replaces the data file at the table's path by its first n bytes. The intact file is moved aside (a reader that
// holds it memory mapped keeps a valid mapping) and put back by restore.
func mgCutDataFile(dir string, n int64) (restore func() error, err error) {
	p := filepath.Join(dir, sstables.DataFileName)
	b, err := os.ReadFile(p)
	if err != nil {
		return nil, err
	}
	if n < 0 || n > int64(len(b)) {
		return nil, fmt.Errorf("cut at %d outside the data file of %d bytes", n, len(b))
	}
	if err := os.Rename(p, p+".intact"); err != nil {
		return nil, err
	}
	if err := os.WriteFile(p, b[:n], 0o644); err != nil {
		return nil, err
	}
	return func() error {
		if err := os.Remove(p); err != nil {
			return err
		}
		return os.Rename(p+".intact", p)
	}, nil
}

func mgCopyTable(from, to string) error {
	if err := os.MkdirAll(to, 0o755); err != nil {
		return err
	}
	ents, err := os.ReadDir(from)
	if err != nil {
		return err
	}
	for _, e := range ents {
		b, err := os.ReadFile(filepath.Join(from, e.Name()))
		if err != nil {
			return err
		}
		if err := os.WriteFile(filepath.Join(to, e.Name()), b, 0o644); err != nil {
			return err
		}
	}
	return nil
}

// tok: the read faults as the model sees them (a lost tail at record j = the input's j-th Next fails), the write faults
func (f mgFault) tok() (string, string) {
	var rs, ws []string
	at := map[int]int{}
	for i, p := range f.reads {
		at[i] = p
	}
	for i, c := range f.cuts {
		if p, ok := at[i]; !ok || c.rec < p {
			at[i] = c.rec
		}
	}
	var is []int
	for i := range at {
		is = append(is, i)
	}
	sort.Ints(is)
	for _, i := range is {
		rs = append(rs, fmt.Sprintf("%d:%d", i, at[i]))
	}
	var wl []int
	for w := range f.writes {
		wl = append(wl, w)
	}
	sort.Ints(wl)
	for _, w := range wl {
		ws = append(ws, strconv.Itoa(w))
	}
	return strings.Join(rs, ","), strings.Join(ws, ",")
}

type mgRun struct {
	err      error
	hitRead  int
	hitWrite int
	calls    int
	written  []mgRec
	readBack []mgRec // content of the output table after Close (only when err == nil)
	mutated  string  // a record of the read-back scan changed under later Next calls
	numRecs  uint64
	// per input with a lost data tail: what a plain full Scan() of that table delivered
	cutScan map[int]mgCutScan
}

type mgCutScan struct {
	n   int
	err error
}

// one Merge / MergeCompact over fresh iterators of the given readers into a fresh real table
func mgRunOp(op string, readers []sstables.SSTableReaderI, outDir string, f mgFault, useIndexScan bool, bufSize, comp, backLoader int) (*mgRun, error) {
	if err := os.MkdirAll(outDir, 0o755); err != nil {
		return nil, err
	}
	real, err := sstables.NewSSTableStreamWriter(sstables.WriteBasePath(outDir), sstables.WithKeyComparator(mgCmp),
		sstables.WriteBufferSizeBytes(bufSize), sstables.DataCompressionType(comp))
	if err != nil {
		return nil, err
	}
	fw := &faultWriter{inner: real, failAt: f.writes}
	if err := fw.Open(); err != nil {
		return nil, err
	}
	run := &mgRun{}
	// lost tails: the readers are open and validated, the data files shrink now, before the scans are started
	var restores []func() error
	restoreAll := func() error {
		var err error
		for _, rs := range restores {
			err = errors.Join(err, rs())
		}
		restores = nil
		return err
	}
	defer restoreAll()
	for i, c := range f.cuts {
		if c.before {
			continue
		}
		rs, err := mgCutDataFile(readers[i].BasePath(), c.off)
		if err != nil {
			return nil, err
		}
		restores = append(restores, rs)
	}
	if len(f.cuts) > 0 {
		useIndexScan = false // the lookup path reads through the mapping of the intact file
		run.cutScan = map[int]mgCutScan{}
		for i := range f.cuts {
			var cs mgCutScan
			if e := safely(func() error {
				it, err := readers[i].Scan()
				if err != nil {
					return err
				}
				recs, _, err := mgDrain(it)
				cs.n = len(recs)
				return err
			}); e != nil {
				cs.err = e
			}
			run.cutScan[i] = cs
		}
	}
	var its []sstables.SSTableMergeIteratorContext
	var fis []*faultIter
	for i, rd := range readers {
		var it sstables.SSTableIteratorI
		if useIndexScan {
			it, err = rd.ScanStartingAt([]byte{})
		} else {
			it, err = rd.Scan()
		}
		if err != nil {
			return nil, err
		}
		fi := &faultIter{inner: it, failAt: -1}
		if p, ok := f.reads[i]; ok {
			fi.failAt = p
		}
		fis = append(fis, fi)
		its = append(its, sstables.NewMergeIteratorContext(i, fi))
	}
	merger := sstables.NewSSTableMerger(mgCmp)
	run.err = safely(func() error {
		switch op {
		case "merge":
			return merger.Merge(its, fw)
		case "lw":
			return merger.MergeCompact(its, fw, sstables.ScanReduceLatestWins)
		case "skip":
			return merger.MergeCompact(its, fw, sstables.ScanReduceLatestWinsSkipTombstones)
		}
		return errors.New("unknown op")
	})
	cerr := fw.Close()
	if err := restoreAll(); err != nil {
		return nil, fmt.Errorf("putting the intact data files back: %w", err)
	}
	for _, fi := range fis {
		run.hitRead += fi.hit
	}
	run.hitWrite = fw.hit
	run.calls = fw.calls
	run.written = fw.written
	if run.err == nil {
		if cerr != nil {
			return nil, fmt.Errorf("closing the merged table: %w", cerr)
		}
		rd, err := mgOpen(outDir, backLoader)
		if err != nil {
			return nil, fmt.Errorf("opening the merged table: %w", err)
		}
		it, err := rd.Scan()
		if err != nil {
			return nil, err
		}
		run.readBack, run.mutated, err = mgDrain(it)
		if err != nil {
			return nil, fmt.Errorf("scanning the merged table: %w", err)
		}
		run.numRecs = rd.MetaData().NumRecords
		_ = rd.Close()
	}
	return run, nil
}

// error kinds a reader reports when its file ends early
var mgShortReadKinds = map[string]bool{"eof": true, "ueof": true}

var mgAlphabet = []byte{0x00, 'a', 'b', 0xff}

func mgGenKey(r *Rng) []byte {
	n := r.Intn(4)
	k := make([]byte, n)
	for i := range k {
		k[i] = mgAlphabet[r.Intn(len(mgAlphabet))]
	}
	return k
}

func runMerge(res *Result, drv *Driver, seed uint64, n int, tier string, only int) error {
	res.Rule = "1..6 real tables (0..40 keys each over keys of length 0..3 from {00,'a','b',ff}, empty key, tombstones, empty values, " +
		"arbitrary overlap; 25% generated pairwise disjoint; opened with the slice/skip-list/map/disk index loader, per case or per table) x Get/Contains on every key + absent keys x Scan/ScanStartingAt/ScanRange on all interesting " +
		"bounds x Merge/MergeCompact(both reducers); disk-index cases use only the sequential full Scan paths, map-index cases skip Get/Contains when keys collide after zero padding; every drained iterator is checked for handing out memory it later overwrites; small cases additionally with every single read/write fault and sampled double faults; " +
		"non-trivial = at least 2 non-empty tables; distinct = distinct table lists"
	base, err := os.MkdirTemp("", "verif-merge-")
	if err != nil {
		return err
	}
	defer os.RemoveAll(base)
	bufSizes := []int{16, 64, 512, 4096, 65536}
	for idx := 0; idx < n; idx++ {
		if only >= 0 && idx != only {
			continue
		}
		r := NewRng(seed, uint64(idx))
		res.Cases++
		small := r.Chance(40)
		disjoint := r.Chance(25)
		nt := 1 + r.Intn(6)
		maxKeys := 40
		usize := 1 + r.Intn(45)
		if small {
			nt = 1 + r.Intn(3)
			maxKeys = 4
			usize = 1 + r.Intn(5)
		}
		// key universe
		uni := map[string]bool{}
		if r.Chance(70) {
			uni[""] = true
		}
		for tries := 0; len(uni) < usize && tries < 400; tries++ {
			uni[string(mgGenKey(r))] = true
		}
		var ukeys [][]byte
		for k := range uni {
			ukeys = append(ukeys, []byte(k))
		}
		sort.Slice(ukeys, func(a, b int) bool { return bytes.Compare(ukeys[a], ukeys[b]) < 0 })
		// tables
		tables := make([]mgTable, nt)
		dens := make([]int, nt)
		for t := range dens {
			dens[t] = []int{0, 25, 50, 80, 100}[r.Intn(5)]
			if small {
				dens[t] = []int{0, 50, 80, 100, 100}[r.Intn(5)]
			}
		}
		owner := map[string]int{}
		for _, k := range ukeys {
			owner[string(k)] = r.Intn(nt + 1) // nt = nobody
		}
		for t := 0; t < nt; t++ {
			for _, k := range ukeys {
				if len(tables[t]) >= maxKeys {
					break
				}
				take := r.Chance(dens[t])
				if disjoint {
					take = owner[string(k)] == t
				}
				if !take {
					continue
				}
				var v []byte
				switch x := r.Intn(100); {
				case x < 25:
					v = nil
				case x < 37:
					v = []byte{}
				default:
					v = []byte(fmt.Sprintf("v%d.%x", t, k))
				}
				key := append([]byte{}, k...)
				if len(key) == 0 && r.Chance(50) {
					key = nil // the writer is handed a nil key
				}
				tables[t] = append(tables[t], mgRec{key, v})
			}
		}
		nonEmpty, total := 0, 0
		seen := map[string]int{}
		overlapping := false
		emptyKey, tombOverLive, liveOverTomb := false, false, false
		for _, t := range tables {
			if len(t) > 0 {
				nonEmpty++
			}
			total += len(t)
			for _, rec := range t {
				if len(rec.k) == 0 {
					emptyKey = true
				}
				seen[string(rec.k)]++
				if seen[string(rec.k)] > 1 {
					overlapping = true
				}
			}
		}
		{
			last := map[string][]byte{}
			has := map[string]bool{}
			for _, t := range tables {
				for _, rec := range t {
					if has[string(rec.k)] {
						if last[string(rec.k)] != nil && rec.v == nil {
							tombOverLive = true
						}
						if last[string(rec.k)] == nil && rec.v != nil {
							liveOverTomb = true
						}
					}
					has[string(rec.k)] = true
					last[string(rec.k)] = rec.v
				}
			}
		}
		tok := mgTablesTok(tables)
		cs := fmt.Sprintf("nt=%d tables=%s", nt, tok)
		// the comparator comes from a generator state of its own: tables, loaders, probes and faults are those of the plain case
		mgCmp = skiplist.BytesComparator{}
		if r3 := NewRng(seed^0xc0a7a2a708, uint64(idx)); r3.Chance(50) {
			name := sstCmpNames[r3.Intn(len(sstCmpNames))]
			mgCmp = sstCmpFor(name)
			res.Stat("cmp:magnitudes-other-than-1:" + name)
			cs = "cmp=" + name + " " + cs
		} else {
			res.Stat("cmp:bytes")
		}
		res.Stat(fmt.Sprintf("tables=%d", nt))
		if small {
			res.Stat("size:small")
		} else {
			res.Stat("size:large")
		}
		if overlapping {
			res.Stat("input:overlapping")
		} else {
			res.Stat("input:disjoint")
		}
		if emptyKey {
			res.Stat("input:empty-key")
		}
		if tombOverLive {
			res.Stat("input:tombstone-over-live")
		}
		if liveOverTomb {
			res.Stat("input:live-over-tombstone")
		}
		if nonEmpty < nt {
			res.Stat("input:has-empty-table")
		}
		if nonEmpty >= 2 {
			res.NoteNontrivial(cs)
		}
		res.Sample(cs)

		// real tables on disk
		cdir := filepath.Join(base, fmt.Sprintf("c%d", idx))
		var readers []sstables.SSTableReaderI
		closeAll := func() {
			for _, rd := range readers {
				_ = rd.Close()
			}
			_ = os.RemoveAll(cdir)
		}
		// index loader: one for all tables of the case (70%) or one per table
		loaders := make([]int, nt)
		pickLoader := func() int { return []int{mgLdSlice, mgLdSlice, mgLdSlice, mgLdSlice, mgLdSkipList, mgLdSkipList, mgLdMap, mgLdDisk, mgLdDisk}[r.Intn(9)] }
		{
			one := pickLoader()
			mixed := r.Chance(30)
			for t := range loaders {
				loaders[t] = one
				if mixed {
					loaders[t] = pickLoader()
				}
			}
		}
		anyMap, anyDisk := false, false
		for _, l := range loaders {
			res.Stat("index-loader:" + mgLdNames[l])
			anyMap = anyMap || l == mgLdMap
			anyDisk = anyDisk || l == mgLdDisk
		}
		for t := range tables {
			dir := filepath.Join(cdir, fmt.Sprintf("t%d", t))
			comp := r.Intn(4)
			res.Stat(fmt.Sprintf("table-compression=%d", comp))
			if err := mgWriteTable(dir, tables[t], bufSizes[r.Intn(len(bufSizes))], comp); err != nil {
				closeAll()
				return fmt.Errorf("case %d: writing input table %d: %w", idx, t, err)
			}
			rd, err := mgOpen(dir, loaders[t])
			if err != nil {
				closeAll()
				return fmt.Errorf("case %d: opening input table %d (%s index): %w", idx, t, mgLdNames[loaders[t]], err)
			}
			readers = append(readers, rd)
			// every single reader's full scan returns the table and hands out memory it does not touch again
			res.Evaluations++
			if e := safely(func() error {
				it, err := rd.Scan()
				if err != nil {
					return err
				}
				recs, mut, err := mgDrain(it)
				if err != nil {
					return err
				}
				if mut != "" {
					res.Violate(idx, "C08", "reader:scan:returned-slice-mutated:"+mgLdNames[loaders[t]], "table "+strconv.Itoa(t)+": "+mut, cs)
				}
				if got, want := mgRecsStr(recs, false), mgRecsStr(tables[t], false); got != want {
					res.Violate(idx, "C08", "reader:scan:"+mgLdNames[loaders[t]], fmt.Sprintf("table %d scans as %s, was written as %s", t, got, want), cs)
				}
				return nil
			}); e != nil {
				closeAll()
				return fmt.Errorf("case %d: scanning input table %d (%s index): %w", idx, t, mgLdNames[loaders[t]], e)
			}
		}
		ref := mgOverlay(tables)
		super := sstables.NewSuperSSTableReader(readers, mgCmp)

		// ---------------- C08: the stacked reader
		var probes, implOut []string
		add := func(p, got string) {
			probes = append(probes, p)
			implOut = append(implOut, got)
		}
		oracle := func(sig, what, got, want string) {
			res.Evaluations++
			if got != want {
				res.Violate(idx, "C08", sig, fmt.Sprintf("%s: want %s got %s", what, want, got), cs)
			}
		}
		sigOf := func(op string) string {
			s := "super:" + op
			if emptyKey {
				s += ":empty-key"
			}
			return s
		}
		// probe keys: the universe (present and absent keys), below the minimum, above the maximum, fresh keys
		probeKeys := append([][]byte{}, ukeys...)
		probeKeys = append(probeKeys, []byte{}, []byte{0xff, 0xff, 0xff, 0xff}, mgGenKey(r), mgGenKey(r), []byte("ab\x00"))
		{
			dedup := map[string]bool{}
			var pk [][]byte
			for _, k := range probeKeys {
				if !dedup[string(k)] {
					dedup[string(k)] = true
					pk = append(pk, k)
				}
			}
			probeKeys = pk
		}
		// which probes the case's index loaders support (the full Scan and the merges are always run)
		doPoint, doBounds := !anyDisk, !anyDisk
		if anyMap {
			// Get/Contains of the map index identify keys that are equal after zero padding
			stripped := map[string]bool{}
			for _, k := range probeKeys {
				z := strings.TrimRight(string(k), "\x00")
				if stripped[z] {
					doPoint = false
				}
				stripped[z] = true
			}
		}
		if !doPoint {
			res.Stat("probes:no-get-contains")
		}
		if !doBounds {
			res.Stat("probes:full-scan-only")
		}
		for _, k := range probeKeys {
			if !doPoint {
				break
			}
			ks := gb(nonNil(k))
			arg := k
			if len(k) == 0 && r.Chance(50) {
				arg = nil
			}
			var v []byte
			var has bool
			var gerr, cerr error
			if e := safely(func() error { v, gerr = super.Get(arg); has, cerr = super.Contains(arg); return nil }); e != nil {
				gerr, cerr = e, e
			}
			got := "err:" + mergeErrKind(gerr)
			if gerr == nil {
				got = "ok:" + gb(v)
			}
			add("get:"+ks, got)
			want := "err:notfound"
			rv, present := ref.m[string(k)]
			if present {
				want = "ok:" + gb(rv)
			}
			oracle(sigOf("get"), "Get("+ks+")", got, want)
			gotC := "err:" + mergeErrKind(cerr)
			if cerr == nil {
				gotC = "ok:" + strconv.FormatBool(has)
			}
			add("has:"+ks, gotC)
			switch {
			case !present:
				res.Stat("probe:absent-key")
				oracle(sigOf("contains"), "Contains("+ks+")", gotC, "ok:false")
			case rv != nil:
				res.Stat("probe:live-key")
				oracle(sigOf("contains"), "Contains("+ks+")", gotC, "ok:true")
			default:
				// newest value is a tombstone: the property does not say whether the key "is contained"; the model pins it
				res.Stat("probe:tombstoned-key")
				res.Stat("contains-on-tombstone=" + gotC)
			}
		}
		scan := func(p string, open func() (sstables.SSTableIteratorI, error), want string, wantErr bool) {
			var got string
			var it sstables.SSTableIteratorI
			var oerr error
			if e := safely(func() error { it, oerr = open(); return nil }); e != nil {
				oerr = e
			}
			if oerr != nil {
				got = "err:" + mergeErrKind(oerr)
			} else {
				var recs []mgRec
				var derr error
				var mut string
				if e := safely(func() error { recs, mut, derr = mgDrain(it); return nil }); e != nil {
					derr = e
				}
				if mut != "" {
					res.Violate(idx, "C08", sigOf(strings.SplitN(p, ":", 2)[0])+":returned-slice-mutated", p+": "+mut, cs)
				}
				if derr != nil {
					got = "err:" + mergeErrKind(derr)
				} else {
					got = "ok:" + mgRecsStr(recs, true)
				}
			}
			add(p, got)
			res.Evaluations++
			if wantErr {
				if !strings.HasPrefix(got, "err:") {
					res.Violate(idx, "C08", sigOf("range")+":lower>upper", p+": lower > upper accepted: "+got, cs)
				}
				return
			}
			// the oracle ignores nil-vs-empty of KEYS (the property speaks of keys, not of their slice representation)
			canon := strings.ReplaceAll(";"+strings.TrimPrefix(got, "ok:"), ";-=", ";.=")[1:]
			if !strings.HasPrefix(got, "ok:") || canon != want {
				res.Violate(idx, "C08", sigOf(strings.SplitN(p, ":", 2)[0]), fmt.Sprintf("%s: want %s got %s", p, want, got), cs)
			}
		}
		live := func(k, v []byte) bool { return v != nil }
		scan("scan", func() (sstables.SSTableIteratorI, error) { return super.Scan() }, mgRecsStr(ref.list(live), false), false)
		for _, k := range probeKeys {
			if !doBounds {
				break
			}
			kk := k
			scan("from:"+gb(nonNil(k)), func() (sstables.SSTableIteratorI, error) { return super.ScanStartingAt(kk) },
				mgRecsStr(ref.list(func(x, v []byte) bool { return v != nil && bytes.Compare(x, kk) >= 0 }), false), false)
		}
		for _, lo := range probeKeys {
			if !doBounds {
				break
			}
			for _, hi := range probeKeys {
				if len(probeKeys) > 9 && !r.Chance(3000/len(probeKeys)/len(probeKeys)+3) {
					continue
				}
				l, h := lo, hi
				c := bytes.Compare(l, h)
				switch {
				case c > 0:
					res.Stat("range:lower>upper")
				case c == 0:
					res.Stat("range:lower=upper")
				default:
					res.Stat("range:lower<upper")
				}
				scan("range:"+gb(nonNil(l))+":"+gb(nonNil(h)), func() (sstables.SSTableIteratorI, error) { return super.ScanRange(l, h) },
					mgRecsStr(ref.list(func(x, v []byte) bool { return v != nil && bytes.Compare(x, l) >= 0 && bytes.Compare(x, h) <= 0 }), false),
					c > 0)
			}
		}
		m, err := drv.Ask(fmt.Sprintf("merge.super nt=%d tables=%s probes=%s", nt, tok, strings.Join(probes, ",")))
		if err != nil {
			closeAll()
			return err
		}
		res.Cmp(idx, "merge.super", m, strings.Join(implOut, " "), cs)

		// ---------------- C08 / C11: Merge and MergeCompact, fault free and with injected faults
		runNo := 0
		curReaders := readers
		doRun := func(op string, f mgFault) error {
			runNo++
			outDir := filepath.Join(cdir, fmt.Sprintf("out%d", runNo))
			run, err := mgRunOp(op, curReaders, outDir, f, !anyDisk && r.Chance(30), bufSizes[r.Intn(len(bufSizes))], r.Intn(4), loaders[0])
			if err != nil {
				return fmt.Errorf("case %d op %s: %w", idx, op, err)
			}
			defer os.RemoveAll(outDir)
			rt, wt := f.tok()
			rcs := fmt.Sprintf("op=%s fails=%s wfails=%s %s", op, rt, wt, cs)
			if len(f.cuts) > 0 {
				rt0, _ := mgFault{reads: f.reads}.tok()
				rcs = fmt.Sprintf("op=%s data-tail-lost=%s fails=%s wfails=%s %s", op, f.cutTok(), rt0, wt, cs)
			}
			faulty := len(f.reads)+len(f.writes)+len(f.cuts) > 0
			res.Stat("run:" + op)
			res.Stat("run-result:" + op + ":" + mergeErrKind(run.err))
			// C11 oracle: a fault that was hit must surface as an error
			hit := run.hitRead + run.hitWrite
			if faulty {
				res.Evaluations++
				switch {
				case len(f.cuts) > 0:
					res.Stat("fault-hit:data-tail-lost")
				case run.hitRead > 0 && run.hitWrite > 0:
					res.Stat("fault-hit:read+write")
				case run.hitRead > 0:
					res.Stat("fault-hit:read")
				case run.hitWrite > 0:
					res.Stat("fault-hit:write")
				default:
					res.Stat("fault-not-reached")
				}
				if hit > 0 && run.err == nil {
					kind := "read"
					if run.hitWrite > 0 {
						kind = "write"
					}
					res.Violate(idx, "C11", "merge:"+op+":"+kind+"-fault-absorbed",
						fmt.Sprintf("%d injected read fault(s) and %d injected write fault(s) were returned to the merger, which reported success; table holds %s",
							run.hitRead, run.hitWrite, mgRecsStr(run.readBack, false)), rcs)
				}
			}
			// C11 oracle for lost tails: the index of the input announces records its data file does not hold any more.
			// A full scan of that table and a merge over it end with an error or deliver every announced record; a merge
			// that succeeds has drained every input, so success is never possible here.
			for i, c := range f.cuts {
				when := "after-open"
				if c.before {
					when = "before-open:empty-value-tail"
				}
				res.Stat("data-tail-lost:" + when + ":" + c.kind)
				res.Stat("data-tail-lost:merge-result:" + c.kind + ":" + mergeErrKind(run.err))
				sc := run.cutScan[i]
				res.Stat("data-tail-lost:scan-result:" + c.kind + ":" + mergeErrKind(sc.err))
				res.Evaluations += 2
				if sc.err == nil && sc.n < len(tables[i]) {
					res.Violate(idx, "C11", "scan:data-tail-lost-"+when+":"+c.kind,
						fmt.Sprintf("Scan() of input %d ended with Done after %d of the %d records its index announces (data file ends at byte %d, record %d is not complete)",
							i, sc.n, len(tables[i]), c.off, c.rec), rcs)
				}
				if run.err == nil {
					res.Violate(idx, "C11", "merge:"+op+":data-tail-lost-"+when+":"+c.kind,
						fmt.Sprintf("the data file of input %d ends at byte %d (record %d of %d is not complete), the operation reported success; table holds %s",
							i, c.off, c.rec, len(tables[i]), mgRecsStr(run.readBack, false)), rcs)
				}
			}
			// C08 (and the "never reports success for a wrong output" half of C11): success => exact output
			if run.err == nil {
				res.Evaluations++
				prop := "C08"
				if faulty {
					prop = "C11"
				}
				got := mgRecsStr(run.readBack, false)
				bad := ""
				if run.mutated != "" {
					res.Violate(idx, "C08", "merge:"+op+":read-back:returned-slice-mutated", run.mutated, rcs)
				}
				switch op {
				case "merge":
					// plain merge writes every record of every input; success is only possible without duplicates
					var all []mgRec
					for _, t := range tables {
						all = append(all, t...)
					}
					sort.SliceStable(all, func(a, b int) bool { return bytes.Compare(all[a].k, all[b].k) < 0 })
					if want := mgRecsStr(all, false); got != want {
						bad = "want the sorted union " + want + " got " + got
					}
				case "lw":
					// latest wins; a key whose newest value is a tombstone may be kept as a tombstone or dropped
					var liveGot []mgRec
					for _, rec := range run.readBack {
						if rec.v != nil {
							liveGot = append(liveGot, rec)
						} else if nv, ok := ref.m[string(rec.k)]; !ok || nv != nil {
							bad = "tombstone written for key " + gb(nonNil(rec.k)) + " whose newest value is not a tombstone; "
						}
					}
					if want := mgRecsStr(ref.list(live), false); mgRecsStr(liveGot, false) != want {
						bad += "want live content " + want + " got " + got
					}
				case "skip":
					// the reducer's contract: nil and empty newest values are reduced away
					var fullGot []mgRec
					for _, rec := range run.readBack {
						if len(rec.v) > 0 {
							fullGot = append(fullGot, rec)
						} else if nv, ok := ref.m[string(rec.k)]; !ok || len(nv) > 0 {
							bad = "empty record written for key " + gb(nonNil(rec.k)) + " whose newest value is not empty; "
						}
					}
					if want := mgRecsStr(ref.list(func(k, v []byte) bool { return len(v) > 0 }), false); mgRecsStr(fullGot, false) != want {
						bad += "want non-empty content " + want + " got " + got
					}
				}
				for i := 1; i < len(run.readBack); i++ {
					if bytes.Compare(run.readBack[i-1].k, run.readBack[i].k) >= 0 {
						bad += "; keys not strictly ascending"
					}
				}
				if int(run.numRecs) != len(run.readBack) {
					bad += fmt.Sprintf("; metadata says %d records, table holds %d", run.numRecs, len(run.readBack))
				}
				if bad != "" {
					sig := "merge:" + op + ":wrong-output"
					if emptyKey {
						sig += ":empty-key"
					}
					if faulty {
						sig += ":after-fault"
					}
					res.Violate(idx, prop, sig, bad, rcs)
				}
			} else if op == "merge" && !overlapping && !faulty {
				res.Evaluations++
				res.Violate(idx, "C08", "merge:merge:disjoint-rejected", "plain merge of pairwise disjoint tables failed: "+run.err.Error(), rcs)
			}
			// correspondence with the model: error kind, number of WriteNext calls, records accepted by the writer
			m, err := drv.Ask(fmt.Sprintf("merge.run nt=%d tables=%s op=%s fails=%s wfails=%s", nt, tok, op, rt, wt))
			if err != nil {
				return err
			}
			ek := mergeErrKind(run.err)
			if len(f.cuts) > 0 && mgShortReadKinds[ek] {
				// the model knows one kind of failing Next; a short read shows up as one of the end-of-file kinds
				ek = "io"
			}
			impl := fmt.Sprintf("err=%s calls=%d out=%s", ek, run.calls, mgRecsStr(run.written, false))
			res.Cmp(idx, "merge.run", m, impl, rcs)
			return nil
		}
		ops := []string{"merge", "lw", "skip"}
		writesOf := map[string]int{}
		for _, op := range ops {
			if err := doRun(op, mgFault{}); err != nil {
				closeAll()
				return err
			}
		}
		// number of WriteNext calls of a fault-free run (bounds the interesting write fault positions)
		writesOf["merge"] = total
		writesOf["lw"] = len(ref.list(live))
		writesOf["skip"] = len(ref.list(func(k, v []byte) bool { return len(v) > 0 }))
		if small || tier == "thorough" && r.Chance(10) && total <= 60 {
			res.Stat("fault-cases")
			for _, op := range ops {
				// every single read fault: each call of each input incl. the call that would return Done, and one beyond
				for i, t := range tables {
					for p := 0; p <= len(t)+1; p++ {
						if err := doRun(op, mgFault{reads: map[int]int{i: p}}); err != nil {
							closeAll()
							return err
						}
					}
				}
				// every single write fault incl. one beyond the last write
				for w := 0; w <= writesOf[op]; w++ {
					if err := doRun(op, mgFault{writes: map[int]bool{w: true}}); err != nil {
						closeAll()
						return err
					}
				}
				// sampled double faults
				nd := 4
				if tier == "thorough" {
					nd = 12
				}
				for d := 0; d < nd; d++ {
					f := mgFault{reads: map[int]int{}, writes: map[int]bool{}}
					for len(f.reads)+len(f.writes) < 2 {
						if r.Chance(55) {
							i := r.Intn(nt)
							f.reads[i] = r.Intn(len(tables[i]) + 1)
						} else {
							f.writes[r.Intn(writesOf[op]+1)] = true
						}
					}
					res.Stat("double-fault-runs")
					if err := doRun(op, f); err != nil {
						closeAll()
						return err
					}
				}
			}
		}
		// ---------------- C11: the data file of an input loses its tail (the index still announces the records)
		{
			r2 := NewRng(seed^0x7a11105e, uint64(idx)) // own generator state: the cases above stay what they were
			layouts := make([]*mgLayout, nt)
			var nonEmptyTables []int
			for t := range tables {
				if len(tables[t]) == 0 {
					continue
				}
				l, err := mgDataLayout(filepath.Join(cdir, fmt.Sprintf("t%d", t)))
				if err == nil && len(l.offs) != len(tables[t]) {
					err = fmt.Errorf("index lists %d records, %d were written", len(l.offs), len(tables[t]))
				}
				if err != nil {
					closeAll()
					return fmt.Errorf("case %d: layout of input table %d: %w", idx, t, err)
				}
				layouts[t] = l
				nonEmptyTables = append(nonEmptyTables, t)
			}
			// (a) after the reader was opened and validated, before the scans start
			if small {
				res.Stat("data-tail-lost-cases:exhaustive")
				for _, t := range nonEmptyTables {
					for j := range tables[t] {
						for _, c := range layouts[t].cutsOf(r2, j) {
							// quick: one of the three operations per cut (drawn), thorough: all of them
							cutOps := []string{ops[r2.Intn(len(ops))]}
							if tier == "thorough" {
								cutOps = ops
							}
							for _, op := range cutOps {
								if err := doRun(op, mgFault{cuts: map[int]mgCut{t: c}}); err != nil {
									closeAll()
									return err
								}
							}
						}
					}
				}
			} else if len(nonEmptyTables) > 0 {
				res.Stat("data-tail-lost-cases:sampled")
				ns := 3
				if tier == "thorough" {
					ns = 8
				}
				for k := 0; k < ns; k++ {
					f := mgFault{cuts: map[int]mgCut{}}
					for c := 0; c < 1+r2.Intn(2); c++ {
						t := nonEmptyTables[r2.Intn(len(nonEmptyTables))]
						cs := layouts[t].cutsOf(r2, r2.Intn(len(tables[t])))
						f.cuts[t] = cs[r2.Intn(len(cs))]
					}
					if r2.Chance(25) {
						f.writes = map[int]bool{r2.Intn(total + 1): true}
					}
					if err := doRun(ops[r2.Intn(len(ops))], f); err != nil {
						closeAll()
						return err
					}
				}
			}
			// (b) before the reader is opened: the trailing records with empty / nil values are gone. Their stored
			// checksum is 0, which the load validation does not compare, and it takes the end of the file for an empty
			// value: the table may load. Whether it loads is not judged here (Stat only); if it does, the scans and
			// merges over it are judged as above.
			var cand []int
			tailLen := make([]int, nt)
			for _, t := range nonEmptyTables {
				for j := len(tables[t]) - 1; j >= 0 && len(tables[t][j].v) == 0; j-- {
					tailLen[t]++
				}
				if tailLen[t] > 0 {
					cand = append(cand, t)
				}
			}
			if len(cand) > 0 {
				t := cand[r2.Intn(len(cand))]
				j := len(tables[t]) - 1 - r2.Intn(tailLen[t])
				if r2.Chance(50) {
					j = len(tables[t]) - 1
				}
				lost := filepath.Join(cdir, fmt.Sprintf("t%d-tail-lost", t))
				if err := mgCopyTable(filepath.Join(cdir, fmt.Sprintf("t%d", t)), lost); err != nil {
					closeAll()
					return err
				}
				off := layouts[t].offs[j]
				if err := os.Truncate(filepath.Join(lost, sstables.DataFileName), off); err != nil {
					closeAll()
					return err
				}
				var rd sstables.SSTableReaderI
				var oerr error
				if e := safely(func() error { rd, oerr = mgOpen(lost, loaders[t]); return nil }); e != nil {
					oerr = e
				}
				if oerr != nil {
					res.Stat(fmt.Sprintf("data-tail-lost:before-open:empty-value-tail:load-rejected:%s", mergeErrKind(oerr)))
				} else {
					res.Stat("data-tail-lost:before-open:empty-value-tail:loaded")
					curReaders = append([]sstables.SSTableReaderI{}, readers...)
					curReaders[t] = rd
					for _, op := range ops {
						if err := doRun(op, mgFault{cuts: map[int]mgCut{t: {rec: j, kind: "record-boundary", off: off, before: true}}}); err != nil {
							_ = rd.Close()
							closeAll()
							return err
						}
					}
					curReaders = readers
					_ = rd.Close()
				}
			}
		}
		closeAll()
	}
	return nil
}
