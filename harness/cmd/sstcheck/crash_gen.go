package main

// Session generator of the crash-image pipeline and the reference semantics the oracles use.

import (
	"encoding/hex"
	"fmt"
	"strings"
)

type crashOp struct {
	Kind   string // open put putb del delb get rotate waitflush compact close | walopen append appendsync walrotate walclose
	Line   string // the spec line
	Key    string // hex of the key ("" when none / nil / empty)
	KeyTok string
	ValTok string
	Digest string // crashDigest of the value / record
	Len    int
	// filled from the run
	Result  string // text of the E marker ("" = never acknowledged)
	BIdx    int    // event index of the B marker (-1 = never started)
	EIdx    int    // event index of the E marker (-1 = never acknowledged)
	Invalid bool   // a Put/PutBytes that the documented API must reject
	Inner   []crashInner // putmany: the calls made between the two markers of the op, in order
	InKeys  []string     // putmany: the keys (hex) the inner calls index into
}

// crashInner: one call of a bulk op (putmany): Put / PutBytes / Delete / DeleteBytes of a key of the op's key list
type crashInner struct {
	Key uint8  // index into InKeys
	Del bool
	Str bool   // string flavour
	Val string // hex of the value (puts)
}

// crashBulkSeq: the calls of `putmany <seed> <count> <delpct> <vmax> <keys>`; parent (reference) and child (execution)
// derive them from the same arguments
func crashBulkSeq(seed uint64, count, delPct, vmax, nkeys int) []crashInner {
	r := NewRng(seed, 0x62756c6b)
	out := make([]crashInner, count)
	var vals [256]string // one-byte values are shared
	for i := range out {
		x := r.Next()
		in := crashInner{Key: uint8(x % uint64(nkeys)), Del: int((x>>8)%100) < delPct, Str: (x>>16)&1 == 1}
		if !in.Del {
			n := 1 + int((x>>20)%uint64(vmax))
			y := r.Next()
			if n == 1 {
				b := byte(y)
				if vals[b] == "" {
					vals[b] = hex.EncodeToString([]byte{b})
				}
				in.Val = vals[b]
			} else {
				v := make([]byte, n)
				for j := range v {
					v[j] = byte(y >> (8 * uint(j%8)))
				}
				in.Val = hex.EncodeToString(v)
			}
		}
		out[i] = in
	}
	return out
}

func (o *crashOp) ok() bool { return o.Result == "ok" || strings.HasPrefix(o.Result, "ok ") }

func (o *crashOp) isPut() bool { return o.Kind == "put" || o.Kind == "putb" }
func (o *crashOp) isDel() bool { return o.Kind == "del" || o.Kind == "delb" }

type crashSession struct {
	Idx     int
	Flavour string // sync async reject wal
	Profile string
	Keys    []string // hex, the probed universe
	Ops     []*crashOp
	MaxStr  int // strace -s needed
	Bare    bool
}

func (s *crashSession) Spec() string {
	var sb strings.Builder
	for _, o := range s.Ops {
		sb.WriteString(o.Line)
		sb.WriteByte('\n')
	}
	return sb.String()
}

// Describe is the case string of a violation: flavour, profile and the whole program (long tokens are already short).
func (s *crashSession) Describe() string {
	lines := make([]string, len(s.Ops))
	for i, o := range s.Ops {
		lines[i] = fmt.Sprintf("%d:%s", i, o.Line)
	}
	return fmt.Sprintf("session %d flavour=%s profile=%s | %s", s.Idx, s.Flavour, s.Profile, strings.Join(lines, " ; "))
}

type crashGen struct {
	r       *Rng
	tier    string
	s       *crashSession
	seedCtr uint64
	current map[string]bool // keys that currently have a value (to steer deletes / overwrites)
	memKeys map[string]bool // keys written since the last rotation (they are in the current memstore / log file)
	lastRot map[string]bool // keys of the memstore rotated last
}

func (g *crashGen) add(kind, line string) *crashOp {
	o := &crashOp{Kind: kind, Line: line, BIdx: -1, EIdx: -1}
	g.s.Ops = append(g.s.Ops, o)
	return o
}

// value returns a token and remembers digest/length
func (g *crashGen) value(class string) (tok string, digest string, n int) {
	switch class {
	case "small":
		n = 1 + g.r.Intn(40)
		b := make([]byte, n)
		for i := range b {
			b[i] = "abcdefghijklmnopqrstuvwxyz0123456789"[g.r.Intn(36)]
		}
		// make values distinct so that "which write is this" is decidable
		tag := fmt.Sprintf("%d.", len(g.s.Ops))
		if len(tag) < n {
			copy(b, tag)
		}
		return hex.EncodeToString(b), crashDigest(b), n
	case "binary":
		n = 1 + g.r.Intn(40)
		b := g.r.Bytes(n)
		return hex.EncodeToString(b), crashDigest(b), n
	case "kib":
		n = 4097 + g.r.Intn(3000)
	case "mib":
		n = 4*1024*1024 + 1000 + g.r.Intn(300000)
	case "halfmib":
		n = 2*1024*1024 + 5000 + g.r.Intn(100000)
	case "bigrec":
		// one log record of 5-6 MiB: more than the 4 MiB write buffer of the log AND more than the 4 MiB read buffer
		// of the replayer; the buffered writer hands the first 4 MiB to the kernel and keeps a tail of 1-2 MiB
		n = 5*1024*1024 + g.r.Intn(1024*1024+1)
	}
	g.seedCtr++
	seed := g.r.Next()%1000000007 + g.seedCtr
	b := crashGenBytes(seed, n)
	if n+70000 > g.s.MaxStr {
		g.s.MaxStr = n + 70000
	}
	return fmt.Sprintf("g%d:%d", seed, n), crashDigest(b), n
}

func (g *crashGen) pickValueClass() string {
	x := g.r.Intn(100)
	switch {
	case g.tier == "thorough" && x < 2:
		return "mib"
	case x < 8:
		return "kib"
	case x < 20:
		return "binary"
	}
	return "small"
}

func (g *crashGen) openLine(async bool, profile string) string {
	mem := []int{40, 90, 200, 600, 4096, 1 << 20, 1 << 30}
	m := mem[g.r.Intn(len(mem))]
	switch profile {
	case "tinymem":
		m = []int{60, 120, 200}[g.r.Intn(3)]
	case "compaction", "bigvalue":
		m = []int{1 << 20, 1 << 30}[g.r.Intn(2)]
		if profile == "bigvalue" {
			m = 1 << 30
		}
	}
	thr := []int{0, 1, 1, 2, 10}[g.r.Intn(5)]
	maxSize := []int{1 << 30, 1 << 30, 300, 5000}[g.r.Intn(4)]
	ratio := []string{"0", "0.2", "0.5", "1"}[g.r.Intn(4)]
	if profile == "compaction" {
		thr = []int{0, 1}[g.r.Intn(2)]
		maxSize = 1 << 30
	}
	rbuf := []int{4096, 65536, 4 << 20}[g.r.Intn(3)]
	wbuf := []int{64, 512, 4096, 4 << 20}[g.r.Intn(4)]
	a := 0
	if async {
		a = 1
	}
	return fmt.Sprintf("open mem=%d thr=%d max=%d ratio=%s rbuf=%d wbuf=%d async=%d", m, thr, maxSize, ratio, rbuf, wbuf, a)
}

func (g *crashGen) key() string { return g.s.Keys[g.r.Intn(len(g.s.Keys))] }

func (g *crashGen) put(class string) {
	k := g.key()
	g.putKey(k, class)
}

func (g *crashGen) putKey(k, class string) {
	tok, dig, n := g.value(class)
	kind := "put"
	if g.r.Chance(35) {
		kind = "putb"
	}
	o := g.add(kind, kind+" "+k+" "+tok)
	o.Key, o.KeyTok, o.ValTok, o.Digest, o.Len = k, k, tok, dig, n
	g.current[k] = true
	g.memKeys[k] = true
}

func (g *crashGen) del() {
	k := g.key()
	// mostly delete something that exists
	if !g.current[k] && g.r.Chance(70) {
		for _, c := range g.s.Keys {
			if g.current[c] {
				k = c
				break
			}
		}
	}
	kind := "del"
	if g.r.Chance(35) {
		kind = "delb"
	}
	o := g.add(kind, kind+" "+k)
	o.Key, o.KeyTok = k, k
	delete(g.current, k)
	g.memKeys[k] = true
}

func (g *crashGen) get() {
	k := g.key()
	o := g.add("get", "get "+k)
	o.Key, o.KeyTok = k, k
}

// a call the documented API rejects (C17): must return an error and leave nothing behind
func (g *crashGen) newInvalidCall() *crashOp {
	k := g.key()
	tok, _, _ := g.value("small")
	var line, kind string
	switch g.r.Intn(7) {
	case 0:
		kind, line = "put", "put . "+tok
	case 1:
		kind, line = "put", "put "+k+" ."
	case 2:
		kind, line = "putb", "putb . "+tok
	case 3:
		kind, line = "putb", "putb "+k+" ."
	case 4:
		kind, line = "putb", "putb - "+tok
	case 5:
		kind, line = "putb", "putb "+k+" -"
	case 6:
		kind, line = "putb", "putb - -"
	}
	o := &crashOp{Kind: kind, Line: line, BIdx: -1, EIdx: -1}
	f := strings.Fields(line)
	o.KeyTok, o.ValTok, o.Invalid = f[1], f[2], true
	if f[1] != "." && f[1] != "-" {
		o.Key = f[1]
	}
	return o
}

// a value of exactly n bytes
func (g *crashGen) putKeyLen(k string, n int) {
	b := make([]byte, n)
	for i := range b {
		b[i] = "abcdefghijklmnopqrstuvwxyz0123456789"[g.r.Intn(36)]
	}
	tag := fmt.Sprintf("%d.", len(g.s.Ops))
	if len(tag) < n {
		copy(b, tag)
	}
	kind := "put"
	if g.r.Chance(35) {
		kind = "putb"
	}
	tok := hex.EncodeToString(b)
	o := g.add(kind, kind+" "+k+" "+tok)
	o.Key, o.KeyTok, o.ValTok, o.Digest, o.Len = k, k, tok, crashDigest(b), n
	g.current[k] = true
	g.memKeys[k] = true
}

func (g *crashGen) rotate() {
	g.add("rotate", "rotate")
	g.lastRot, g.memKeys = g.memKeys, map[string]bool{}
}

func (g *crashGen) waitflush() { g.add("waitflush", "waitflush") }

func (g *crashGen) sortedKeys(m map[string]bool) []string {
	var out []string
	for _, k := range g.s.Keys {
		if m[k] {
			out = append(out, k)
		}
	}
	return out
}

// blockFlushedThenChange: a key whose put is already in a table (its log file is gone) is deleted or overwritten;
// the change lives in the current log file only. The image after the acknowledgement must read the change.
func (g *crashGen) blockFlushedThenChange(async bool) {
	r := g.r
	k := g.key()
	if cur := g.sortedKeys(g.current); len(cur) > 0 && r.Chance(70) {
		k = cur[r.Intn(len(cur))]
	}
	if !g.current[k] || r.Chance(30) {
		g.putKey(k, "small")
	}
	g.rotate()
	g.waitflush()
	if r.Chance(65) {
		kind := "del"
		if r.Chance(35) {
			kind = "delb"
		}
		o := g.add(kind, kind+" "+k)
		o.Key, o.KeyTok = k, k
		delete(g.current, k)
		g.memKeys[k] = true
	} else {
		g.putKey(k, "small")
	}
	if r.Chance(40) {
		o := g.add("get", "get "+k)
		o.Key, o.KeyTok = k, k
	}
	if async || r.Chance(40) {
		// the asynchronous log reaches the disk with the next rotation: images while that memstore is being flushed
		other := g.key()
		if other == k {
			other = g.s.Keys[(g.r.Intn(len(g.s.Keys)-1)+1+g.keyIndex(k))%len(g.s.Keys)]
		}
		g.putKey(other, "small")
		g.rotate()
	}
}

func (g *crashGen) keyIndex(k string) int {
	for i, c := range g.s.Keys {
		if c == k {
			return i
		}
	}
	return 0
}

// blockSizeRotation: a rotation triggered by the memstore size inside a put (memstore limit M), on distinct keys that
// stay untouched until the block is over; the flush completes; further writes; an explicit rotation without waiting.
func (g *crashGen) blockSizeRotation(M int) {
	g.rotate()
	g.waitflush()
	perm := append([]string{}, g.s.Keys...)
	for i := len(perm) - 1; i > 0; i-- {
		j := g.r.Intn(i + 1)
		perm[i], perm[j] = perm[j], perm[i]
	}
	kl := func(i int) int { return len(perm[i]) / 2 }
	// the first put fills the memstore to just below the limit, the second one exceeds it
	g.putKeyLen(perm[0], M-kl(0)-3)
	g.putKeyLen(perm[1], 20+g.r.Intn(10))
	g.lastRot, g.memKeys = g.memKeys, map[string]bool{}
	g.putKeyLen(perm[2], 8+g.r.Intn(6))
	g.waitflush()
	g.putKeyLen(perm[3], 4+g.r.Intn(6))
	g.rotate()
	g.putKeyLen(perm[0], 5+g.r.Intn(5))
}

// blockDeleteOverLimit: a Delete that starts while the memstore estimate is already over its limit M (only a preceding
// Delete of an absent key can leave it there, a Put rotates at once), of a key whose value sits in a flushed table;
// then the flusher goes idle and writes continue into the next log file.
func (g *crashGen) blockDeleteOverLimit(M int) {
	k := g.key()
	g.putKeyLen(k, 6+g.r.Intn(6))
	g.rotate()
	g.waitflush()
	long := make([]byte, M+8+g.r.Intn(8))
	for i := range long {
		long[i] = "ABCDEFGHIJKLMNOPQRSTUVWXYZ"[g.r.Intn(26)]
	}
	for _, key := range []string{hex.EncodeToString(long), k} {
		kind := "del"
		if g.r.Chance(50) {
			kind = "delb"
		}
		o := g.add(kind, kind+" "+key)
		o.Key, o.KeyTok = key, key
		delete(g.current, key)
		g.memKeys[key] = true
	}
	g.waitflush()
	other := g.s.Keys[(g.keyIndex(k)+1+g.r.Intn(len(g.s.Keys)-1))%len(g.s.Keys)]
	g.putKeyLen(other, 5+g.r.Intn(6))
	g.rotate()
	g.putKeyLen(g.s.Keys[(g.keyIndex(k)+1+g.r.Intn(len(g.s.Keys)-1))%len(g.s.Keys)], 5+g.r.Intn(6))
}

// blockRotatePut: writes racing with the flush of the memstore just rotated - the directory holds two log files (the
// same key in both, older value in the older file) and a partial table
func (g *crashGen) blockRotatePut() {
	r := g.r
	for i := 0; i < 1+r.Intn(3); i++ {
		g.put("small")
	}
	g.rotate()
	keys := g.sortedKeys(g.lastRot)
	n := 1 + r.Intn(2)
	for i := 0; i < n && len(keys) > 0; i++ {
		g.putKey(keys[r.Intn(len(keys))], "small")
	}
}

func (g *crashGen) randomOps(n int, async bool, reopen bool) {
	r, s := g.r, g.s
	for end := len(s.Ops) + n; len(s.Ops) < end; {
		x := r.Intn(100)
		switch {
		case x < 46:
			g.put(g.pickValueClass())
		case x < 58:
			g.del()
		case x < 64:
			g.get()
		case x < 74:
			g.blockRotatePut()
		case x < 80:
			g.waitflush()
		case x < 88:
			g.add("compact", "compact")
		default:
			if reopen || r.Chance(40) {
				g.add("close", "close")
				g.add("open", g.openLine(async, s.Profile))
				g.memKeys, g.lastRot = map[string]bool{}, map[string]bool{}
			} else {
				g.put("small")
			}
		}
	}
}

func crashGenSession(seed uint64, idx int, tier, flavour string, rank int) *crashSession {
	r := NewRng(seed, uint64(idx))
	s := &crashSession{Idx: idx, Flavour: flavour, MaxStr: 4*1024*1024 + 70000}
	g := &crashGen{r: r, tier: tier, s: s, current: map[string]bool{}, memKeys: map[string]bool{}, lastRot: map[string]bool{}}
	if flavour == "wal" {
		g.genWal(rank)
		return s
	}
	nk := 4 + r.Intn(3)
	for i := 0; i < nk; i++ {
		k := []byte(fmt.Sprintf("k%d", i+1))
		if i == nk-1 && r.Chance(40) {
			k = []byte{0xff, 0x00, 'k', byte(i)}
		}
		s.Keys = append(s.Keys, hex.EncodeToString(k))
	}
	// profiles go round-robin per flavour (rank = number of earlier sessions of the same flavour): every run of at
	// least five (six) sessions of a flavour holds every profile, whatever the seed
	var profiles []string
	switch flavour {
	case "sync":
		profiles = []string{"compaction", "rotateput", "tinymem", "mixed", "reopen"}
		if tier == "thorough" {
			profiles = []string{"compaction", "rotateput", "bigvalue", "tinymem", "mixed", "reopen"}
		}
	case "async":
		profiles = []string{"bigvalue", "tinymem", "compaction", "rotateput", "mixed", "reopen"}
	default:
		profiles = []string{"mixed", "tinymem", "compaction", "reopen", "rotateput"}
	}
	s.Profile = profiles[rank%len(profiles)]
	async := flavour == "async"
	open := g.openLine(async, s.Profile)
	g.add("open", open)
	extra := 0
	if tier == "thorough" {
		extra = 10 + r.Intn(30)
	}
	switch s.Profile {
	case "compaction":
		// several generations of tables with overwrites and deletes, then compaction cycles with writes around them
		rounds := 2 + r.Intn(3)
		for i := 0; i < rounds; i++ {
			for j := 0; j < 1+r.Intn(4); j++ {
				if r.Chance(25) && len(g.current) > 0 {
					g.del()
				} else {
					g.put(g.pickValueClass())
				}
			}
			g.rotate()
			if r.Chance(80) {
				g.waitflush()
			}
		}
		if r.Chance(50) {
			g.put("small")
		}
		g.waitflush()
		g.add("compact", "compact")
		for j := 0; j < r.Intn(3); j++ {
			g.put("small")
		}
		if r.Chance(50) {
			g.rotate()
			g.waitflush()
			g.add("compact", "compact")
		}
		g.randomOps(extra, async, false)
		g.blockFlushedThenChange(async)
	case "bigvalue":
		// more than the 4 MiB log buffer is logged, then a rotation: the log file holds a torn record between two
		// write calls. Kept short, every image carries the big file.
		g.put("small")
		if async {
			g.putKey(s.Keys[0], "halfmib")
			g.putKey(s.Keys[1], "halfmib")
			g.put("small")
			g.putKey(s.Keys[0], "halfmib")
			g.put("small")
		} else {
			g.putKey(s.Keys[0], "mib")
			g.put("small")
		}
		g.rotate()
		g.put("small")
	case "tinymem":
		M := 60
		fmt.Sscanf(open[strings.Index(open, "mem=")+4:], "%d", &M)
		g.randomOps(1+r.Intn(3), async, false)
		g.blockSizeRotation(M)
		g.randomOps(2+r.Intn(3)+extra, async, false)
		g.blockDeleteOverLimit(M)
		g.blockFlushedThenChange(async)
	case "rotateput":
		for i := 0; i < 3+r.Intn(2); i++ {
			g.blockRotatePut()
			if r.Chance(30) {
				g.waitflush()
			}
		}
		g.randomOps(extra, async, false)
		g.blockFlushedThenChange(async)
		g.blockRotatePut()
	case "reopen":
		g.randomOps(10+r.Intn(6)+extra, async, true)
		g.blockFlushedThenChange(async)
	default:
		g.randomOps(10+r.Intn(8)+extra, async, false)
		g.blockFlushedThenChange(async)
	}
	switch r.Intn(4) {
	case 0:
		g.add("close", "close")
	case 1:
		g.add("close", "close")
		g.add("open", g.openLine(async, s.Profile))
		g.get()
		if r.Chance(50) {
			g.put("small")
		}
		g.add("close", "close")
	case 2:
		g.rotate()
		g.add("close", "close")
	default:
		// the process just ends - after the flusher went idle, so that no system call is cut by the exit
		g.waitflush()
	}
	if flavour == "reject" {
		// rejected calls everywhere the database is open - also right before a rotation, a close and a restart: the
		// log they must not reach is replayed
		var out []*crashOp
		isOpen := false
		for i, o := range s.Ops {
			last := i == len(s.Ops)-1
			if isOpen && (o.Kind == "close" || o.Kind == "rotate" || last) && r.Chance(60) {
				out = append(out, g.newInvalidCall())
			}
			out = append(out, o)
			switch o.Kind {
			case "open":
				isOpen = true
			case "close":
				isOpen = false
			}
			if isOpen && r.Chance(22) {
				out = append(out, g.newInvalidCall())
			}
			if isOpen && r.Chance(4) {
				// accepted by both flavours: deletes the empty key and nothing else
				if r.Chance(50) {
					out = append(out, &crashOp{Kind: "del", Line: "del .", KeyTok: ".", BIdx: -1, EIdx: -1})
				} else {
					out = append(out, &crashOp{Kind: "delb", Line: "delb -", KeyTok: "-", BIdx: -1, EIdx: -1})
				}
			}
		}
		s.Ops = out
	}
	return s
}

// crashBigRecordSeed derives the SECOND random stream (sessions added after the first generation of the stream draw
// from it, so that the sessions 0..n-1 of a seed stay what they were)
const crashBigRecordSeed = 0x6269677265636f72

// crashGenBigRecordSession: the session every run of the flavours sync and async ends with (index n, in the quick
// tier too). One put whose log record is larger than the 4 MiB buffer of the log writer and than the 4 MiB buffer of
// the reader that replays it (incompressible value of 5-6 MiB): the buffered writer cuts the record, the first 4 MiB
// reach the file with one write call, the tail of 1-2 MiB stays in the process (asynchronous log: until the next
// rotation or Close; synchronous log: until the flush that precedes the fsync of the same put). Every image in between
// holds a log file that ends inside a record the replayer cannot buffer as a whole. Kept short: every image carries
// the big file.
func crashGenBigRecordSession(seed uint64, idx int, tier, flavour string) *crashSession {
	r := NewRng(seed^crashBigRecordSeed, uint64(idx))
	s := &crashSession{Idx: idx, Flavour: flavour, Profile: "bigrecord", MaxStr: 4*1024*1024 + 70000}
	g := &crashGen{r: r, tier: tier, s: s, current: map[string]bool{}, memKeys: map[string]bool{}, lastRot: map[string]bool{}}
	nk := 4 + r.Intn(3)
	for i := 0; i < nk; i++ {
		k := []byte(fmt.Sprintf("k%d", i+1))
		if i == nk-1 && r.Chance(40) {
			k = []byte{0xff, 0x00, 'k', byte(i)}
		}
		s.Keys = append(s.Keys, hex.EncodeToString(k))
	}
	async := flavour == "async"
	g.add("open", g.openLine(async, "bigvalue")) // memstore limit 1 GiB: no rotation by size
	// what the log holds in front of the big record (none: the record starts right behind the file header)
	for i := r.Intn(4); i > 0; i-- {
		if r.Chance(20) && len(g.current) > 0 {
			g.del()
		} else {
			g.put("small")
		}
	}
	k := g.key()
	if !g.current[k] && r.Chance(60) {
		g.putKey(k, "small") // the big put overwrites: the torn record must not hide the older value
	}
	g.putKey(k, "bigrec")
	switch r.Intn(4) {
	case 0:
		// the process ends with the tail of the record still in its buffer (asynchronous log)
	case 1:
		// more records behind the torn one, in the buffer only (asynchronous log)
		g.put("small")
		if r.Chance(50) {
			o := g.add("get", "get "+k)
			o.Key, o.KeyTok = k, k
		}
	case 2:
		// the rotation completes the record, the flusher writes the table and removes the log file
		if r.Chance(60) {
			g.put("small")
		}
		g.rotate()
		g.waitflush()
	default:
		// Close completes the record, the next session replays nothing
		if r.Chance(60) {
			g.put("small")
		}
		g.add("close", "close")
		g.add("open", g.openLine(async, "bigvalue"))
		o := g.add("get", "get "+k)
		o.Key, o.KeyTok = k, k
		g.waitflush()
	}
	return s
}

// crashSmallRecordsSeed derives the THIRD random stream (see crashBigRecordSeed)
const crashSmallRecordsSeed = 0x736d616c6c726563

// putMany adds a bulk op: count Put / PutBytes / Delete / DeleteBytes calls with keys of the universe and values of
// 1..vmax bytes, made back to back between one pair of markers (the system calls of 200000 marker lines would take
// longer than the session).  Returns an estimate of the log bytes the calls produce (record header + payload).
func (g *crashGen) putMany(count, delPct, vmax int) int {
	g.seedCtr++
	seed := g.r.Next()%1000000007 + g.seedCtr
	o := g.add("putmany", fmt.Sprintf("putmany %d %d %d %d %s", seed, count, delPct, vmax, strings.Join(g.s.Keys, ",")))
	o.Inner, o.InKeys, o.Len = crashBulkSeq(seed, count, delPct, vmax, len(g.s.Keys)), g.s.Keys, count
	est := 0
	for _, in := range o.Inner {
		k := len(o.InKeys[in.Key]) / 2
		if in.Del {
			g.memKeys[o.InKeys[in.Key]] = true
			delete(g.current, o.InKeys[in.Key])
			est += 11 + 2 + 4 + k
		} else {
			g.memKeys[o.InKeys[in.Key]] = true
			g.current[o.InKeys[in.Key]] = true
			est += 11 + 2 + 6 + k + len(in.Val)/2
		}
	}
	return est
}

// crashGenSmallRecordsSession: the session every run of the flavour async ends with (index n+1, in the quick tier too).
// The asynchronous log hands its 4 MiB buffer to the kernel whenever it is full, wherever in a record that is: with
// records of some twenty bytes (keys and values of 1..3 bytes, about half of every record is its header) the file
// ends inside a record HEADER after such a write about as often as inside a payload, at a position that depends on
// every size drawn before.  A round = two incompressible values that fill most of what is left of the buffer, then
// some thousand small records across the next 4 MiB boundary of the log file; rounds follow each other in the same
// log file (boundaries at 8 + k * 4 MiB) or after a rotation (new file).  Tier thorough starts with 4 MiB of small
// records only (about 200000 calls).  Every image taken right after a buffer write is re-opened.
func crashGenSmallRecordsSession(seed uint64, idx int, tier, flavour string) *crashSession {
	r := NewRng(seed^crashSmallRecordsSeed, uint64(idx))
	s := &crashSession{Idx: idx, Flavour: flavour, Profile: "smallrecords", MaxStr: 4*1024*1024 + 70000}
	g := &crashGen{r: r, tier: tier, s: s, current: map[string]bool{}, memKeys: map[string]bool{}, lastRot: map[string]bool{}}
	nk := 5 + r.Intn(6)
	seen := map[string]bool{}
	for len(s.Keys) < nk {
		k := r.Bytes(1 + r.Intn(3))
		for i := range k {
			if r.Chance(60) {
				k[i] = "abcdefghijklmnopqrstuvwxyz"[int(k[i])%26]
			}
		}
		if h := hex.EncodeToString(k); !seen[h] {
			seen[h] = true
			s.Keys = append(s.Keys, h)
		}
	}
	async := flavour == "async"
	g.add("open", g.openLine(async, "bigvalue")) // memstore limit 1 GiB: no rotation by size
	const buf = 4 * 1024 * 1024
	avg := func(delPct, vmax int) int { return 11 + 2 + ((100-delPct)*(6+2+(1+vmax)/2)+delPct*(4+2))/100 }
	draw := func() (int, int) { return []int{0, 10, 25, 50}[r.Intn(4)], 1 + r.Intn(3) }
	off := 0 // estimate of the bytes logged into the current log file (behind its 8 byte header)
	small := func() {
		n0 := len(s.Ops)
		g.put("small")
		o := s.Ops[n0]
		off += 11 + 2 + 6 + len(o.Key)/2 + o.Len
	}
	if tier == "thorough" {
		// small records only up to the first boundary
		for i := r.Intn(3); i > 0; i-- {
			small()
		}
		delPct, vmax := draw()
		off += g.putMany((buf+30000+r.Intn(100000))/avg(delPct, vmax), delPct, vmax)
		for off < buf+20000 {
			off += g.putMany(20000, delPct, vmax)
		}
	}
	rounds := 6
	if tier == "thorough" {
		rounds = 6 + r.Intn(5)
	}
	for round := 0; round < rounds; round++ {
		if round > 0 && r.Chance(50) {
			// a new log file; the table of the rotated memstore is written meanwhile or before
			g.rotate()
			if r.Chance(50) {
				g.waitflush()
			}
			off = 0
		}
		// most of what is left of the buffer: two incompressible values ...
		room := buf - off%buf - (25000 + r.Intn(75000))
		for room < 300000 {
			room += buf
		}
		a := room/2 - r.Intn(100000)
		for _, n := range []int{a, room - a} {
			g.seedCtr++
			vs := r.Next()%1000000007 + g.seedCtr
			k := g.key()
			kind := "put"
			if r.Chance(35) {
				kind = "putb"
			}
			tok := fmt.Sprintf("g%d:%d", vs, n)
			o := g.add(kind, kind+" "+k+" "+tok)
			o.Key, o.KeyTok, o.ValTok, o.Digest, o.Len = k, k, tok, crashDigest(crashGenBytes(vs, n)), n
			g.current[k] = true
			g.memKeys[k] = true
			off += n + 130
			if r.Chance(30) {
				small()
			}
		}
		// ... and small records across the boundary
		delPct, vmax := draw()
		gap := buf - off%buf
		off += g.putMany((gap+12000+r.Intn(30000))/avg(delPct, vmax), delPct, vmax)
	}
	switch r.Intn(3) {
	case 0:
		// the process ends with the rest of the log in its buffer
	case 1:
		g.put("small")
		g.get()
	default:
		g.add("close", "close")
		g.add("open", g.openLine(async, "bigvalue"))
		g.get()
		g.waitflush()
	}
	return s
}

// crashBigLogSeed derives the FIFTH random stream (see crashBigRecordSeed)
const crashBigLogSeed = 0x6269676c6f673132

// crashBigLogIdx: index of the big-log session of a run with n regular sessions (far behind the other extra sessions)
func crashBigLogIdx(n int) int { return n + 100 }

// crashGenBigLogSession: the session every run of the flavour sync ends with (index crashBigLogIdx(n), in the quick
// tier too).  More than 128 MiB (the default size limit of a stand-alone write-ahead log) are logged within ONE
// memstore generation: a key is overwritten some 34 times with incompressible values of a little more than 4 MiB
// (memstore limit 1 GiB: no rotation by size), small keys are written before that and overwritten / deleted after it,
// still in the same generation.  Then a forced rotation, the flush, more acknowledged writes.  The session is NOT
// traced (the trace of 136 MiB of write calls would take longer than everything else): at each `pause` the child stops
// itself with all its threads (SIGSTOP), the parent reads the directory - the image a kill at that instant leaves -
// and lets the child go on (crashRunBigLogSession).  Images: right after the big phase, right after the rotation
// (the flusher is at work), after the flush, at the end.
func crashGenBigLogSession(seed uint64, idx int, tier string) *crashSession {
	r := NewRng(seed^crashBigLogSeed, uint64(idx))
	s := &crashSession{Idx: idx, Flavour: "sync", Profile: "biglog", MaxStr: 4*1024*1024 + 70000}
	g := &crashGen{r: r, tier: tier, s: s, current: map[string]bool{}, memKeys: map[string]bool{}, lastRot: map[string]bool{}}
	nk := 4 + r.Intn(3)
	for i := 0; i < nk; i++ {
		k := []byte(fmt.Sprintf("k%d", i+1))
		if i == nk-1 && r.Chance(40) {
			k = []byte{0xff, 0x00, 'k', byte(i)}
		}
		s.Keys = append(s.Keys, hex.EncodeToString(k))
	}
	g.add("open", g.openLine(false, "bigvalue")) // memstore limit 1 GiB: no rotation by size
	big := g.key()
	var small []string
	for _, k := range s.Keys {
		if k != big {
			small = append(small, k)
		}
	}
	// before the big phase: small keys (at least two of them)
	nBefore := 0
	for i, k := range small {
		if r.Chance(75) || len(small)-i <= 2-nBefore {
			g.putKey(k, "small")
			nBefore++
		}
	}
	// the big phase: more than 128 MiB of log records for one key, now and then a small record in between
	const limit = 128 * 1024 * 1024
	logged := 0
	target := limit + (4+r.Intn(9))*1024*1024
	for logged < target {
		n0 := len(s.Ops)
		g.putKey(big, "mib")
		logged += s.Ops[n0].Len
		if r.Chance(8) {
			g.putKey(small[r.Intn(len(small))], "small")
		}
	}
	g.add("pause", "pause")
	// after it, same generation: small keys written before are overwritten / deleted (at least one)
	nAfter := 0
	for i, k := range small {
		if !g.memKeys[k] {
			continue
		}
		if r.Chance(70) || (nAfter == 0 && i == len(small)-1) {
			if r.Chance(35) {
				kind := "del"
				if r.Chance(35) {
					kind = "delb"
				}
				o := g.add(kind, kind+" "+k)
				o.Key, o.KeyTok = k, k
				delete(g.current, k)
			} else {
				g.putKey(k, "small")
			}
			nAfter++
		}
	}
	if nAfter == 0 {
		g.putKey(small[0], "small")
	}
	if r.Chance(50) {
		g.putKey(big, "small") // the big key as well: every one of its 4 MiB versions is older than this
	}
	g.rotate()
	g.add("pause", "pause")
	g.waitflush()
	g.add("pause", "pause")
	// more acknowledged writes (next log file)
	for i := 1 + r.Intn(3); i > 0; i-- {
		if r.Chance(25) && len(g.current) > 0 {
			g.del()
		} else {
			g.put("small")
		}
	}
	if r.Chance(50) {
		g.get()
	}
	g.add("pause", "pause")
	switch r.Intn(3) {
	case 0:
		g.add("close", "close")
	case 1:
		g.rotate()
		g.waitflush()
	default:
		g.waitflush()
	}
	return s
}

// crashDirectWalSeed derives the FOURTH random stream (see crashBigRecordSeed)
const crashDirectWalSeed = 0x6469726563747761

// crashGenDirectWalSession: the sessions every run of the flavour wal ends with (indices n and n+1, in the quick tier
// too): a bare log whose writer factory builds direct-I/O writers (recordio.DirectIO(), block buffer of 4096 / 8192
// bytes): records collect in the block buffer of the process, whole blocks are written, the zero padded rest on
// Rotate / Close.  Mixes of Append and AppendSync (which such a writer may refuse: then nothing is claimed for the
// record), records of some hundred bytes so that blocks are written while the session runs, kill at any instant.
func crashGenDirectWalSession(seed uint64, idx int, tier string) *crashSession {
	r := NewRng(seed^crashDirectWalSeed, uint64(idx))
	s := &crashSession{Idx: idx, Flavour: "wal", Profile: "directio", Bare: true, MaxStr: 4*1024*1024 + 70000}
	g := &crashGen{r: r, tier: tier, s: s, current: map[string]bool{}, memKeys: map[string]bool{}, lastRot: map[string]bool{}}
	buf := []int{4096, 4096, 8192}[r.Intn(3)]
	maxSize := []int{3000, 9000, 1 << 20, 128 << 20}[r.Intn(4)]
	g.add("walopen", fmt.Sprintf("walopen %d %d direct", maxSize, buf))
	n := 10 + r.Intn(16)
	if tier == "thorough" {
		n = 20 + r.Intn(60)
	}
	for i := 0; i < n; i++ {
		if r.Chance(10) {
			g.add("walrotate", "walrotate")
			continue
		}
		kind := "append"
		if r.Chance(45) {
			kind = "appendsync"
		}
		var b []byte
		tok := ""
		switch y := r.Intn(100); {
		case y < 5:
			tok, b = ".", []byte{}
		case y < 8:
			tok, b = "-", []byte{} // a nil record replays as an empty one
		case y < 35:
			b = r.Bytes(1 + r.Intn(50))
		default:
			b = r.Bytes(100 + r.Intn(buf/2-200))
		}
		if len(b) > 0 {
			b[0] = byte(i)
			tok = hex.EncodeToString(b)
		}
		o := g.add(kind, kind+" "+tok)
		o.ValTok, o.Digest, o.Len = tok, crashDigest(b), len(b)
	}
	if r.Chance(50) {
		g.add("walclose", "walclose")
	}
	return s
}

// bare write-ahead log sessions (C07)
func (g *crashGen) genWal(rank int) {
	r, s := g.r, g.s
	s.Bare = true
	s.Profile = []string{"smallbuf", "smallmax", "plain"}[rank%3]
	maxSize := []int{40, 100, 400, 3000}[r.Intn(4)]
	buf := 0
	switch s.Profile {
	case "smallbuf":
		buf = []int{16, 48, 200}[r.Intn(3)]
		maxSize = []int{100, 400, 1 << 20, 128 << 20}[r.Intn(4)]
	case "plain":
		maxSize = []int{1 << 20, 128 << 20}[r.Intn(2)]
	}
	if g.tier == "thorough" && rank%4 == 3 {
		s.Profile = "bigrecord"
		buf, maxSize = 0, 128<<20
	}
	g.add("walopen", fmt.Sprintf("walopen %d %d", maxSize, buf))
	n := 10 + r.Intn(16)
	if g.tier == "thorough" {
		n = 20 + r.Intn(40)
	}
	if s.Profile == "bigrecord" {
		n = 5
	}
	rec := func(kind string, ln int, tag int) {
		b := r.Bytes(ln)
		if ln > 0 {
			b[0] = byte(tag)
		}
		tok := hex.EncodeToString(b)
		if ln == 0 {
			tok = "."
		}
		o := g.add(kind, kind+" "+tok)
		o.ValTok, o.Digest, o.Len = tok, crashDigest(b), ln
	}
	for i := 0; i < n; i++ {
		x := r.Intn(100)
		if x < 10 {
			g.add("walrotate", "walrotate")
			continue
		}
		kind := "append"
		if r.Chance(45) {
			kind = "appendsync"
		}
		var tok, dig string
		var ln int
		y := r.Intn(100)
		switch {
		case s.Profile == "bigrecord" && i == 2:
			// between one and two write buffers: the buffered writer flushes once and keeps the tail
			kind = "appendsync"
			tok, dig, ln = g.value("mib")
		case buf > 0 && y >= 80:
			// a synchronous append of a record between one and two write buffers long
			rec("appendsync", buf+r.Intn(buf), i)
			continue
		case y < 6:
			tok, dig, ln = ".", ".", 0
		case y < 9:
			tok, dig, ln = "-", ".", 0 // a nil record replays as an empty one
		case y < 20:
			// larger than the file size limit (when that is small)
			ln = maxSize + 1 + r.Intn(60)
			if ln > 5000 {
				ln = 300 + r.Intn(300)
			}
			rec(kind, ln, i)
			continue
		default:
			rec(kind, 1+r.Intn(50), i)
			continue
		}
		o := g.add(kind, kind+" "+tok)
		o.ValTok, o.Digest, o.Len = tok, dig, ln
	}
	switch {
	case s.Profile == "bigrecord" || (buf > 0 && r.Chance(70)):
		// the process goes idle right after a synchronous append of such a record
		if buf > 0 {
			rec("appendsync", buf+r.Intn(buf), 255)
		} else {
			tok, dig, ln := g.value("mib")
			o := g.add("appendsync", "appendsync "+tok)
			o.ValTok, o.Digest, o.Len = tok, dig, ln
		}
	case r.Chance(60):
		g.add("walclose", "walclose")
	}
}

// ---------------------------------------------------------------------------------------------
// reference semantics

// crashRefState: key (hex) -> digest of the value; absent = not found. wild marks keys whose content is undefined
// because an invalid call was accepted (reported separately).
type crashRefState struct {
	m    map[string]string
	wild map[string]bool
}

func (s crashRefState) clone() crashRefState {
	c := crashRefState{m: make(map[string]string, len(s.m)), wild: make(map[string]bool, len(s.wild))}
	for k, v := range s.m {
		c.m[k] = v
	}
	for k, v := range s.wild {
		c.wild[k] = v
	}
	return c
}

func (s crashRefState) get(k string) string {
	if v, ok := s.m[k]; ok {
		return v
	}
	return "-"
}

// applyOp applies an accepted mutation
func (s crashRefState) applyOp(o *crashOp) {
	switch {
	case o.Kind == "putmany":
		for i := range o.Inner {
			s.applyInner(o, i)
		}
	case o.isPut() && o.Invalid:
		if o.Key != "" {
			s.wild[o.Key] = true
		}
	case o.isPut():
		s.m[o.Key] = o.Digest
		delete(s.wild, o.Key)
	case o.isDel():
		if o.Key != "" {
			delete(s.m, o.Key)
			delete(s.wild, o.Key)
		}
	}
}

// applyInner applies call i of a bulk op and returns the key it touched
func (s crashRefState) applyInner(o *crashOp, i int) string {
	in := o.Inner[i]
	k := o.InKeys[in.Key]
	if in.Del {
		delete(s.m, k)
	} else {
		s.m[k] = in.Val // crashDigest of a value of at most 48 bytes is its hex form
	}
	delete(s.wild, k)
	return k
}

func (o *crashOp) mutation() bool { return o.isPut() || o.isDel() || o.Kind == "putmany" }

// ---------------------------------------------------------------------------------------------
// direct-I/O log under the asynchronous database (C13)

// crashDirectAsyncSeed derives the SIXTH random stream (see crashBigRecordSeed)
const crashDirectAsyncSeed = 0x6469726173796e63

// crashGenDirectAsyncSession: the session every run of the flavour async ends with where O_DIRECT is available (in the
// quick tier too): the database is opened with EnableAsyncWAL AND EnableDirectIOWAL.  The log writer then collects the
// records in a block-aligned 4 MiB buffer, writes the WHOLE buffer whenever it is full and once more, zero padded, when
// the file is closed - which for the database is the rotation.  Each round logs more than the 4 MiB buffer into one log
// file (incompressible values of some hundred KiB; the log is snappy compressed, compressible values would not fill
// it), so that the buffer has been filled and reused when the rotation writes the rest: in half of the rounds the rest
// ends within the first 4 KiB block behind the refill, otherwise anywhere.  Then the rotation and further writes while
// the flusher writes the table: every image between the rotation and the removal of the rotated log file holds that
// file as the only copy of the round's writes.  Oracle: that of the flavour async (prefix of the acknowledged
// mutations, not shorter than what preceded the last completed rotation).
func crashGenDirectAsyncSession(seed uint64, idx int, tier string) *crashSession {
	r := NewRng(seed^crashDirectAsyncSeed, uint64(idx))
	s := &crashSession{Idx: idx, Flavour: "async", Profile: "directio", MaxStr: 4*1024*1024 + 70000}
	g := &crashGen{r: r, tier: tier, s: s, current: map[string]bool{}, memKeys: map[string]bool{}, lastRot: map[string]bool{}}
	nk := 5 + r.Intn(3)
	for i := 0; i < nk; i++ {
		s.Keys = append(s.Keys, hex.EncodeToString([]byte(fmt.Sprintf("k%d", i+1))))
	}
	// memstore limit 1 GiB: rotations are the explicit ones; table writer buffers of at least 4 KiB (the values are
	// written with one call each anyway)
	open := fmt.Sprintf("open mem=%d thr=0 max=%d ratio=0 rbuf=%d wbuf=%d async=1 direct=1", 1<<30, 1<<30,
		[]int{4096, 65536, 4 << 20}[r.Intn(3)], []int{4096, 65536, 4 << 20}[r.Intn(3)])
	g.add("open", open)
	const buf = 4 * 1024 * 1024
	rounds := 1
	if tier == "thorough" {
		rounds = 2 + r.Intn(2)
	}
	keyBytes := func(k string) []byte { b, _ := hex.DecodeString(k); return b }
	for round := 0; round < rounds; round++ {
		off := 8 // bytes of the current log file (file header first)
		small := func() {
			n0 := len(s.Ops)
			g.put("small")
			o := s.Ops[n0]
			v, _ := hex.DecodeString(o.ValTok)
			off += crashWalPutRecordLen(keyBytes(o.Key), v)
		}
		for i := r.Intn(3); i > 0; i-- {
			small()
		}
		// where the file is to end: k buffers and a rest
		k := 1
		if tier == "thorough" && r.Chance(30) {
			k = 2
		}
		rest := 1 + r.Intn(4000) // within the first block behind the refill
		if r.Chance(50) {
			rest = 4097 + r.Intn(1500000)
		}
		target := k*buf + rest
		bigPut := func(n int, aim int) {
			g.seedCtr++
			vs := r.Next()%1000000007 + g.seedCtr
			key := g.key()
			kb := keyBytes(key)
			if aim > 0 {
				// choose the length so that the record ends at `aim` (the compressor adds a few bytes per 64 KiB)
				n = aim - off - 40
				for try := 0; try < 6 && n > 0; try++ {
					miss := off + crashWalPutRecordLen(kb, crashGenBytes(vs, n)) - aim
					if miss == 0 {
						break
					}
					n -= miss
				}
				if n < 1 {
					n = 1
				}
			}
			kind := "put"
			if r.Chance(35) {
				kind = "putb"
			}
			tok := fmt.Sprintf("g%d:%d", vs, n)
			val := crashGenBytes(vs, n)
			o := g.add(kind, kind+" "+key+" "+tok)
			o.Key, o.KeyTok, o.ValTok, o.Digest, o.Len = key, key, tok, crashDigest(val), n
			g.current[key] = true
			g.memKeys[key] = true
			off += crashWalPutRecordLen(kb, val)
		}
		for target-off > 1000000 {
			bigPut(300000+r.Intn(600000), 0)
			if r.Chance(25) {
				small()
			}
			if r.Chance(10) && len(g.current) > 0 {
				g.del()
				off += 40
			}
		}
		// two more values: the first leaves between 100 KiB and 500 KiB, the second is aimed
		if target-off > 600000 {
			bigPut(target-off-100000-r.Intn(400000), 0)
		}
		bigPut(0, target)
		if r.Chance(30) {
			small() // a few more bytes behind the aimed end
		}
		g.rotate()
		// writes racing with the flush of the rotated memstore (they go into the next log file, which has no byte on disk
		// before its first full buffer or its close)
		for i := 1 + r.Intn(2); i > 0; i-- {
			g.put("small")
		}
		if r.Chance(40) {
			g.get()
		}
		if round < rounds-1 || r.Chance(60) {
			g.waitflush()
		}
	}
	switch r.Intn(3) {
	case 0:
		// a second, short log file is rotated away (less than one buffer: written once, zero padded)
		g.rotate()
		g.waitflush()
	case 1:
		g.add("close", "close")
		g.add("open", open)
		g.get()
		g.waitflush()
	default:
		g.waitflush()
	}
	return s
}
