package main

// Tracer + parser of the crash-image pipeline: runs a child mode of this binary under strace and turns the log into
// the ordered list of file-system events below one directory (global completion order of the log; thread ids are not
// used, Go moves goroutines between OS threads).

import (
	"bufio"
	"bytes"
	"context"
	"errors"
	"fmt"
	"io"
	"os"
	"os/exec"
	"path/filepath"
	"strconv"
	"strings"
	"time"
)

const crashTraceSet = "openat,openat2,open,creat,write,pwrite64,writev,pwritev,pwritev2,lseek,rename,renameat,renameat2," +
	"unlink,unlinkat,mkdir,mkdirat,rmdir,ftruncate,truncate,fallocate,fsync,fdatasync,sync_file_range,close,dup,dup2,dup3," +
	"link,linkat,symlink,symlinkat,copy_file_range,sendfile"

type crashEvent struct {
	Idx    int    // position in the event list
	Line   int    // line of the strace log (completion)
	Kind   string // create write truncate rename unlink rmdir mkdir | fsync close | B E
	Path   string // relative to the traced directory ("" = the directory itself)
	Path2  string // rename target
	Off    int64
	Data   []byte
	Size   int64  // truncate length
	Trunc  bool   // O_TRUNC given
	Op     int    // B/E: op number
	Marker string // E: text after the op number
	DirRel bool   // unlink/rmdir relative to an opened directory descriptor (how os.RemoveAll empties a directory)
	DirKey string // identity of that descriptor (path + open sequence number)
	WrFile bool   // close: the descriptor was opened for writing
}

func (e *crashEvent) mutating() bool {
	switch e.Kind {
	case "create", "write", "truncate", "rename", "unlink", "rmdir", "mkdir":
		return true
	}
	return false
}

func (e *crashEvent) String() string {
	switch e.Kind {
	case "create":
		t := ""
		if e.Trunc {
			t = "+trunc"
		}
		return fmt.Sprintf("#%d create%s %s", e.Idx, t, e.Path)
	case "write":
		return fmt.Sprintf("#%d write %s @%d +%d", e.Idx, e.Path, e.Off, len(e.Data))
	case "truncate":
		return fmt.Sprintf("#%d truncate %s %d", e.Idx, e.Path, e.Size)
	case "rename":
		return fmt.Sprintf("#%d rename %s -> %s", e.Idx, e.Path, e.Path2)
	case "unlink", "rmdir":
		d := ""
		if e.DirRel {
			d = " (dirfd)"
		}
		return fmt.Sprintf("#%d %s %s%s", e.Idx, e.Kind, e.Path, d)
	case "B":
		return fmt.Sprintf("#%d B %d", e.Idx, e.Op)
	case "E":
		return fmt.Sprintf("#%d E %d %s", e.Idx, e.Op, e.Marker)
	}
	return fmt.Sprintf("#%d %s %s", e.Idx, e.Kind, e.Path)
}

type crashFd struct {
	path    string // absolute
	off     int64
	write   bool
	deleted bool
	seq     int
}

type crashParser struct {
	root    string // absolute, clean
	cwd     string
	markfd  int
	fds     map[int]*crashFd
	pending map[string]string
	closing map[string]*crashFd // close() entered and not yet reported as finished, per thread
	events  []*crashEvent
	seq     int
	line    int
	syscall map[string]int // statistics
}

func newCrashParser(root, cwd string, markfd int) *crashParser {
	return &crashParser{root: filepath.Clean(root), cwd: cwd, markfd: markfd, fds: map[int]*crashFd{}, pending: map[string]string{}, closing: map[string]*crashFd{}, syscall: map[string]int{}}
}

func (p *crashParser) rel(abs string) (string, bool) {
	if abs == p.root {
		return "", true
	}
	if strings.HasPrefix(abs, p.root+"/") {
		return abs[len(p.root)+1:], true
	}
	return "", false
}

func (p *crashParser) emit(e *crashEvent) {
	e.Idx = len(p.events)
	e.Line = p.line
	p.events = append(p.events, e)
}

// decode a -xx string argument: "\x41\x42"  (a trailing "..." means strace cut it)
func crashDecodeStr(arg string) ([]byte, bool, error) {
	arg = strings.TrimSpace(arg)
	cut := false
	if strings.HasSuffix(arg, "...") {
		cut = true
		arg = arg[:len(arg)-3]
	}
	if len(arg) < 2 || arg[0] != '"' || arg[len(arg)-1] != '"' {
		return nil, false, fmt.Errorf("not a string argument: %.40q", arg)
	}
	s := arg[1 : len(arg)-1]
	if len(s)%4 != 0 {
		return nil, false, fmt.Errorf("string argument is not in \\xHH form: %.40q", s)
	}
	out := make([]byte, len(s)/4)
	for i := 0; i < len(out); i++ {
		q := s[4*i : 4*i+4]
		if q[0] != '\\' || q[1] != 'x' {
			return nil, false, fmt.Errorf("string argument is not in \\xHH form: %.40q", q)
		}
		hi, lo := crashUnhex(q[2]), crashUnhex(q[3])
		if hi < 0 || lo < 0 {
			return nil, false, fmt.Errorf("bad hex in string argument: %q", q)
		}
		out[i] = byte(hi<<4 | lo)
	}
	return out, cut, nil
}

func crashUnhex(c byte) int {
	switch {
	case c >= '0' && c <= '9':
		return int(c - '0')
	case c >= 'a' && c <= 'f':
		return int(c-'a') + 10
	case c >= 'A' && c <= 'F':
		return int(c-'A') + 10
	}
	return -1
}

// splitArgs splits on ", " outside of quotes (strings are \xHH only, so no escapes to care about)
func crashSplitArgs(s string) []string {
	var out []string
	inq := false
	start := 0
	for i := 0; i < len(s); i++ {
		switch s[i] {
		case '"':
			inq = !inq
		case ',':
			if !inq && i+1 < len(s) && s[i+1] == ' ' {
				out = append(out, s[start:i])
				start = i + 2
				i++
			}
		}
	}
	if start < len(s) {
		out = append(out, s[start:])
	}
	return out
}

func (p *crashParser) resolve(dirArg, pathArg string) (abs string, dirRel bool, dirKey string, known bool, err error) {
	raw, cut, err := crashDecodeStr(pathArg)
	if err != nil {
		return "", false, "", false, err
	}
	if cut {
		return "", false, "", false, errors.New("path argument cut by strace")
	}
	path := string(raw)
	if filepath.IsAbs(path) {
		return filepath.Clean(path), false, "", true, nil
	}
	dirArg = strings.TrimSpace(dirArg)
	if dirArg == "AT_FDCWD" {
		return filepath.Clean(filepath.Join(p.cwd, path)), false, "", true, nil
	}
	fd, err := strconv.Atoi(dirArg)
	if err != nil {
		return "", false, "", false, fmt.Errorf("bad dirfd %q", dirArg)
	}
	info, ok := p.fds[fd]
	if !ok {
		return "", false, "", false, nil // relative to a directory outside of the traced one
	}
	return filepath.Clean(filepath.Join(info.path, path)), true, fmt.Sprintf("%s#%d", info.path, info.seq), true, nil
}

func (p *crashParser) feed(raw string) error {
	p.line++
	raw = strings.TrimRight(raw, "\n")
	sp := strings.IndexByte(raw, ' ')
	if sp <= 0 {
		return nil
	}
	tid, rest := raw[:sp], strings.TrimLeft(raw[sp:], " ")
	if strings.HasPrefix(rest, "---") || strings.HasPrefix(rest, "+++") {
		return nil
	}
	if strings.HasSuffix(rest, "<unfinished ...>") {
		head := strings.TrimSuffix(rest, "<unfinished ...>")
		p.pending[tid] = head
		// a descriptor is free for reuse as soon as close() is entered: another thread may get the same number from
		// an openat that completes before this close is reported as finished
		if strings.HasPrefix(head, "close(") {
			if fd, err := strconv.Atoi(strings.TrimSpace(strings.TrimRight(head[len("close("):], " )"))); err == nil {
				if info, ok := p.fds[fd]; ok {
					delete(p.fds, fd)
					p.closing[tid] = info
				}
			}
		}
		return nil
	}
	if strings.HasPrefix(rest, "<... ") {
		k := strings.Index(rest, " resumed>")
		if k < 0 {
			return fmt.Errorf("line %d: cannot parse resumed line", p.line)
		}
		head, ok := p.pending[tid]
		if !ok {
			return fmt.Errorf("line %d: resumed without unfinished", p.line)
		}
		delete(p.pending, tid)
		rest = head + rest[k+len(" resumed>"):]
		if info, ok := p.closing[tid]; ok && strings.HasPrefix(head, "close(") {
			delete(p.closing, tid)
			rel, _ := p.rel(info.path)
			p.emit(&crashEvent{Kind: "close", Path: rel, WrFile: info.write})
			return nil
		}
	}
	return p.syscallLine(rest)
}

func (p *crashParser) syscallLine(s string) error {
	par := strings.IndexByte(s, '(')
	if par <= 0 {
		return nil
	}
	name := s[:par]
	eq := strings.LastIndex(s, " = ")
	close := -1
	if eq >= 0 {
		close = len(strings.TrimRight(s[:eq], " ")) - 1
	}
	if eq < 0 || close < par || s[close] != ')' {
		if strings.Contains(s, "exit") {
			return nil
		}
		return fmt.Errorf("line %d: no result in %.80q", p.line, s)
	}
	argStr := strings.TrimRight(s[par+1:close], " ")
	retStr := strings.TrimSpace(s[eq+3:])
	if f := strings.Fields(retStr); len(f) > 0 {
		retStr = f[0]
	}
	if retStr == "?" {
		return nil
	}
	ret, err := strconv.ParseInt(retStr, 0, 64)
	if err != nil {
		return fmt.Errorf("line %d: bad result %q", p.line, retStr)
	}
	p.syscall[name]++
	if ret < 0 {
		return nil // failed calls change nothing
	}
	args := crashSplitArgs(argStr)
	bad := func(msg string) error {
		return fmt.Errorf("line %d: %s: %s: %.120q", p.line, name, msg, s)
	}
	fdArg := func(i int) (int, *crashFd) {
		if i >= len(args) {
			return -1, nil
		}
		fd, err := strconv.Atoi(strings.TrimSpace(args[i]))
		if err != nil {
			return -1, nil
		}
		return fd, p.fds[fd]
	}
	switch name {
	case "openat":
		if len(args) < 3 {
			return bad("arguments")
		}
		abs, _, _, known, err := p.resolve(args[0], args[1])
		if err != nil {
			return bad(err.Error())
		}
		delete(p.fds, int(ret)) // whatever was there is gone (a close we did not see cannot happen, be safe anyway)
		if !known {
			return nil
		}
		rel, inside := p.rel(abs)
		if !inside {
			return nil
		}
		flags := args[2]
		if strings.Contains(flags, "O_APPEND") {
			return bad("O_APPEND inside the traced directory is not handled")
		}
		if strings.Contains(flags, "O_TMPFILE") {
			return bad("O_TMPFILE inside the traced directory is not handled")
		}
		p.seq++
		p.fds[int(ret)] = &crashFd{path: abs, write: strings.Contains(flags, "O_WRONLY") || strings.Contains(flags, "O_RDWR"), seq: p.seq}
		if strings.Contains(flags, "O_CREAT") || strings.Contains(flags, "O_TRUNC") {
			p.emit(&crashEvent{Kind: "create", Path: rel, Trunc: strings.Contains(flags, "O_TRUNC")})
		}
	case "close":
		fd, info := fdArg(0)
		if info != nil {
			rel, _ := p.rel(info.path)
			p.emit(&crashEvent{Kind: "close", Path: rel, WrFile: info.write})
			delete(p.fds, fd)
		}
	case "write", "pwrite64":
		fd, info := fdArg(0)
		if fd == p.markfd && name == "write" && p.markfd > 0 {
			data, cut, err := crashDecodeStr(args[1])
			if err != nil || cut {
				return bad("marker")
			}
			f := strings.Fields(strings.TrimSpace(string(data)))
			if len(f) < 2 || (f[0] != "B" && f[0] != "E") {
				return bad("marker text")
			}
			n, err := strconv.Atoi(f[1])
			if err != nil {
				return bad("marker number")
			}
			p.emit(&crashEvent{Kind: f[0], Op: n, Marker: strings.Join(f[2:], " ")})
			return nil
		}
		if info == nil {
			return nil
		}
		if len(args) < 3 {
			return bad("arguments")
		}
		data, cut, err := crashDecodeStr(args[1])
		if err != nil {
			return bad(err.Error())
		}
		if cut || int64(len(data)) < ret {
			return bad("write data cut by strace (raise -s)")
		}
		data = data[:ret]
		off := info.off
		if name == "pwrite64" {
			if len(args) < 4 {
				return bad("arguments")
			}
			off, err = strconv.ParseInt(strings.TrimSpace(args[3]), 0, 64)
			if err != nil {
				return bad("offset")
			}
		} else {
			info.off += ret
		}
		if info.deleted {
			return nil
		}
		rel, _ := p.rel(info.path)
		p.emit(&crashEvent{Kind: "write", Path: rel, Off: off, Data: data})
	case "lseek":
		_, info := fdArg(0)
		if info != nil {
			info.off = ret
		}
	case "ftruncate":
		_, info := fdArg(0)
		if info != nil && !info.deleted {
			if len(args) < 2 {
				return bad("arguments")
			}
			n, err := strconv.ParseInt(strings.TrimSpace(args[1]), 0, 64)
			if err != nil {
				return bad("length")
			}
			rel, _ := p.rel(info.path)
			p.emit(&crashEvent{Kind: "truncate", Path: rel, Size: n})
		}
	case "fsync", "fdatasync":
		_, info := fdArg(0)
		if info != nil {
			rel, _ := p.rel(info.path)
			p.emit(&crashEvent{Kind: "fsync", Path: rel})
		}
	case "mkdir", "mkdirat":
		dirArg, pathArg := "AT_FDCWD", ""
		if name == "mkdir" {
			pathArg = args[0]
		} else {
			if len(args) < 2 {
				return bad("arguments")
			}
			dirArg, pathArg = args[0], args[1]
		}
		abs, _, _, known, err := p.resolve(dirArg, pathArg)
		if err != nil {
			return bad(err.Error())
		}
		if rel, inside := p.rel(abs); known && inside {
			p.emit(&crashEvent{Kind: "mkdir", Path: rel})
		}
	case "rmdir", "unlink", "unlinkat":
		dirArg, pathArg, kind := "AT_FDCWD", args[0], "unlink"
		if name == "rmdir" {
			kind = "rmdir"
		}
		if name == "unlinkat" {
			if len(args) < 3 {
				return bad("arguments")
			}
			dirArg, pathArg = args[0], args[1]
			if strings.Contains(args[2], "AT_REMOVEDIR") {
				kind = "rmdir"
			}
		}
		abs, dirRel, dirKey, known, err := p.resolve(dirArg, pathArg)
		if err != nil {
			return bad(err.Error())
		}
		rel, inside := p.rel(abs)
		if !known || !inside {
			return nil
		}
		for _, info := range p.fds {
			if info.path == abs {
				info.deleted = true
			}
		}
		p.emit(&crashEvent{Kind: kind, Path: rel, DirRel: dirRel, DirKey: dirKey})
	case "rename", "renameat", "renameat2":
		var a1, r1, a2, r2 string
		if name == "rename" {
			if len(args) < 2 {
				return bad("arguments")
			}
			a1, r1, a2, r2 = "AT_FDCWD", args[0], "AT_FDCWD", args[1]
		} else {
			if len(args) < 4 {
				return bad("arguments")
			}
			a1, r1, a2, r2 = args[0], args[1], args[2], args[3]
			if name == "renameat2" && len(args) >= 5 && strings.TrimSpace(args[4]) != "0" {
				return bad("renameat2 flags are not handled")
			}
		}
		from, _, _, k1, err := p.resolve(a1, r1)
		if err != nil {
			return bad(err.Error())
		}
		to, _, _, k2, err := p.resolve(a2, r2)
		if err != nil {
			return bad(err.Error())
		}
		rf, in1 := p.rel(from)
		rt, in2 := p.rel(to)
		in1, in2 = in1 && k1, in2 && k2
		if !in1 && !in2 {
			return nil
		}
		if in1 != in2 {
			return bad("rename across the boundary of the traced directory is not handled")
		}
		for _, info := range p.fds {
			if info.path == to || strings.HasPrefix(info.path, to+"/") {
				info.deleted = true
			}
		}
		for _, info := range p.fds {
			if info.path == from {
				info.path = to
			} else if strings.HasPrefix(info.path, from+"/") {
				info.path = to + info.path[len(from):]
			}
		}
		p.emit(&crashEvent{Kind: "rename", Path: rf, Path2: rt})
	case "writev", "pwritev", "pwritev2", "fallocate", "sync_file_range", "dup", "dup2", "dup3", "sendfile", "copy_file_range":
		// the library does not use these on its files; if one ever touches a tracked descriptor the replay would be wrong
		for i := 0; i < len(args) && i < 3; i++ {
			if _, info := fdArg(i); info != nil {
				return bad("system call on a descriptor inside the traced directory is not handled")
			}
		}
	case "open", "creat", "openat2", "truncate", "link", "linkat", "symlink", "symlinkat":
		for _, a := range args {
			a = strings.TrimSpace(a)
			if len(a) > 0 && a[0] == '"' {
				if b, _, err := crashDecodeStr(a); err == nil {
					q := string(b)
					if !filepath.IsAbs(q) {
						q = filepath.Join(p.cwd, q)
					}
					if _, inside := p.rel(filepath.Clean(q)); inside {
						return bad("system call on a path inside the traced directory is not handled")
					}
				}
			}
		}
	}
	return nil
}

func crashParseTrace(r io.Reader, root, cwd string, markfd int) (*crashParser, error) {
	p := newCrashParser(root, cwd, markfd)
	br := bufio.NewReaderSize(r, 1<<20)
	for {
		line, err := br.ReadString('\n')
		if len(line) > 0 {
			if e := p.feed(line); e != nil {
				return p, e
			}
		}
		if err == io.EOF {
			break
		}
		if err != nil {
			return p, err
		}
	}
	return p, nil
}

// ---------------------------------------------------------------------------------------------
// running a child under strace

type crashTraced struct {
	Events   []*crashEvent
	Stdout   string
	Stderr   string
	ExitCode int
	Syscalls map[string]int
	TraceLen int
	Pending  int    // system calls that were still unfinished when the process ended (their outcome is unknown)
	LogPath  string // kept only when keepLog
}

// crashTraceRun runs `self <args...>` under strace with fd 3 = /dev/null as marker descriptor; root is the directory
// whose events are wanted. maxStr is the -s value (must exceed the largest single write).
func crashTraceRun(root string, maxStr int, timeout time.Duration, keepLog string, args ...string) (*crashTraced, error) {
	self, err := os.Executable()
	if err != nil {
		return nil, err
	}
	scratch, err := os.MkdirTemp("", "verif-crash-trace-")
	if err != nil {
		return nil, err
	}
	defer os.RemoveAll(scratch)
	logPath := filepath.Join(scratch, "strace.log")
	null, err := os.OpenFile(os.DevNull, os.O_WRONLY, 0)
	if err != nil {
		return nil, err
	}
	defer null.Close()
	ctx, cancel := context.WithTimeout(context.Background(), timeout)
	defer cancel()
	sargs := []string{"-f", "-xx", "-s", strconv.Itoa(maxStr), "-e", "trace=" + crashTraceSet, "-o", logPath, self}
	sargs = append(sargs, args...)
	cmd := exec.CommandContext(ctx, "strace", sargs...)
	cmd.Dir = scratch
	cmd.ExtraFiles = []*os.File{null}
	var so, se bytes.Buffer
	cmd.Stdout, cmd.Stderr = &so, &se
	runErr := cmd.Run()
	t := &crashTraced{Stdout: so.String(), Stderr: se.String()}
	if runErr != nil {
		var ee *exec.ExitError
		if errors.As(runErr, &ee) {
			t.ExitCode = ee.ExitCode()
		} else {
			return nil, fmt.Errorf("strace: %w", runErr)
		}
		if ctx.Err() != nil {
			return nil, fmt.Errorf("traced child timed out after %v (%v)", timeout, args)
		}
	}
	f, err := os.Open(logPath)
	if err != nil {
		return nil, fmt.Errorf("strace wrote no log: %w (stderr: %.300s)", err, t.Stderr)
	}
	defer f.Close()
	if st, err := f.Stat(); err == nil {
		t.TraceLen = int(st.Size())
	}
	p, perr := crashParseTrace(f, root, scratch, 3)
	if keepLog != "" {
		if b, err := os.ReadFile(logPath); err == nil {
			_ = os.WriteFile(keepLog, b, 0o644)
			t.LogPath = keepLog
		}
	}
	if perr != nil {
		return nil, fmt.Errorf("trace parser: %w", perr)
	}
	// system calls still unfinished when the process exits (another thread called exit_group) are dropped
	t.Events, t.Syscalls, t.Pending = p.events, p.syscall, len(p.pending)
	return t, nil
}
