package main

import (
	"errors"
	"fmt"
	"os"
	"strconv"
	"strings"

	"github.com/thomasjungblut/go-sstables/recordio"
	"github.com/thomasjungblut/go-sstables/simpledb"
)

// ---------------------------------------------------------------------------------------------
// stream "db": SimpleDB sessions (C01, C06, C17): client programs x forced rotations / flushes /
// compaction cycles x close + reopen with other options, through both API flavours

type dbOpts struct {
	memstore  uint64
	threshold int
	maxSize   uint64
	ratioNum  int
	ratioDen  int
	rbuf      uint64
	wbuf      uint64
}

func genDbOpts(r *Rng) dbOpts {
	o := dbOpts{}
	if r.Chance(55) {
		o.memstore = 1 << 40 // rotations only where the program asks for them
	} else {
		o.memstore = uint64([]int{1, 10, 40, 120, 400, 2000}[r.Intn(6)])
	}
	o.threshold = []int{-1, 0, 0, 1, 1, 2, 3, 10}[r.Intn(8)]
	o.maxSize = uint64([]int{0, 1, 200, 400, 1000, 5000, 1 << 30}[r.Intn(7)])
	rat := [][2]int{{0, 1}, {1, 4}, {1, 2}, {1, 1}, {1, 5}}[r.Intn(5)]
	o.ratioNum, o.ratioDen = rat[0], rat[1]
	bufs := []int{16, 64, 512, 4096, 1 << 20, 4 << 20}
	o.rbuf = uint64(bufs[r.Intn(len(bufs))])
	o.wbuf = uint64(bufs[r.Intn(len(bufs))])
	return o
}

func (o dbOpts) extra() []simpledb.ExtraOption {
	return []simpledb.ExtraOption{
		simpledb.DisableCompactions(), // compaction cycles run only where the program places them (hook)
		simpledb.MemstoreSizeBytes(o.memstore),
		simpledb.CompactionFileThreshold(o.threshold),
		simpledb.CompactionMaxSizeBytes(o.maxSize),
		simpledb.CompactionRatio(float32(o.ratioNum) / float32(o.ratioDen)),
		simpledb.ReadBufferSizeBytes(o.rbuf),
		simpledb.WriteBufferSizeBytes(o.wbuf),
	}
}

func (o dbOpts) modelTok() string {
	return fmt.Sprintf("open:%d:%d:%d:%d", o.threshold, o.maxSize, o.ratioNum, o.ratioDen)
}

func dbRes(err error) string {
	switch {
	case err == nil:
		return "ok"
	case errors.Is(err, simpledb.ErrNotFound):
		return "notfound"
	case errors.Is(err, simpledb.ErrEmptyKeyValue):
		return "rejected"
	case errors.Is(err, simpledb.ErrNotOpenedYet), errors.Is(err, simpledb.ErrAlreadyClosed):
		return "notopen"
	}
	return "err:" + errKind(err) + ":" + err.Error()
}

func genNum(name string) (int, error) {
	i := strings.LastIndex(name, "_")
	if i < 0 {
		return 0, fmt.Errorf("unexpected table name %q", name)
	}
	return strconv.Atoi(strings.TrimLeft(name[i+1:], "0") + "")
}

func gensOf(names []string) (string, error) {
	var parts []string
	for _, n := range names {
		s := strings.TrimLeft(n[strings.LastIndex(n, "_")+1:], "0")
		if s == "" {
			s = "0"
		}
		if _, err := strconv.Atoi(s); err != nil {
			return "", fmt.Errorf("unexpected table name %q", n)
		}
		parts = append(parts, s)
	}
	return strings.Join(parts, ";"), nil
}

func runDb(res *Result, drv *Driver, seed uint64, n int, tier string, only int) error {
	res.Rule = "session programs: Put/Delete/Get through string and byte flavours incl. rejected calls, forced rotations, flush waits, compaction cycles (hook), " +
		"close + reopen with other options (memstore size, threshold, max size, ratio, buffers); every key of the universe is read after every step; " +
		"40 % of the sessions add rejected lifecycle calls at every position (any call before Open on the handle that is then opened, Open on the open handle, " +
		"any call / Open / Close on the closed handle); 6 % choose a log flavour per (re-)open (sync, async, direct I/O + sync = every " +
		"Put/Delete rejected by the log: oracle-only, the model is not told about those calls) and end with a restart under default options; " +
		"non-trivial = at least one flush and one accepted write; distinct = distinct step strings"
	for idx := 0; idx < n; idx++ {
		if only >= 0 && idx != only {
			continue
		}
		if err := dbOne(res, drv, NewRng(seed, uint64(idx)), idx, tier); err != nil {
			return err
		}
	}
	return nil
}

// O_DIRECT on the file system the sessions run on (checked once)
var dbDirectIO struct{ checked, ok bool }

func dbDirectIOAvailable() bool {
	if !dbDirectIO.checked {
		ok, err := recordio.IsDirectIOAvailable()
		dbDirectIO.checked, dbDirectIO.ok = true, ok && err == nil
	}
	return dbDirectIO.ok
}

func dbIsNotOpen(err error) bool {
	return errors.Is(err, simpledb.ErrNotOpenedYet) || errors.Is(err, simpledb.ErrAlreadyClosed)
}

func dbOne(res *Result, drv *Driver, r *Rng, idx int, tier string) error {
	dir, err := os.MkdirTemp("", "verif-db-")
	if err != nil {
		return err
	}
	defer os.RemoveAll(dir)
	res.Cases++

	// second generator state for the lifecycle / log-flavour dimensions (C17): sessions that use neither draw
	// exactly what they drew before these dimensions existed
	r2 := &Rng{s: r.s ^ 0x6c6966656379636c}
	r2.Next()
	// lifecycle sessions: rejected calls at every position of a handle's life (before Open, on the open handle,
	// after Close) - the same handle is then opened / a new one is opened and used normally
	lifecycle := r2.Chance(40)
	// log-flavour sessions: every (re-)open chooses how the write-ahead log is written: synchronous (default),
	// asynchronous, or direct I/O + synchronous - the last one cannot append, so EVERY Put / Delete of both
	// flavours is rejected with an error by the log.  (A direct-I/O log writes a whole 4 MiB block per rotation:
	// these sessions are kept few; direct I/O + asynchronous is exercised by the handles stream.)
	walSession := r2.Chance(6)
	if lifecycle {
		res.Stat("case:lifecycle-rejected-calls")
	}
	if walSession {
		res.Stat("case:log-flavours")
		if !dbDirectIOAvailable() {
			res.Stat("case:log-flavours:direct-io-unavailable-flavour-skipped")
		}
	}
	walMode := "sync"
	pickWal := func(first bool) {
		pReject := 65 // a rejecting phase mostly follows an accepting one (data to overwrite / delete is there) ...
		if first {
			pReject = 40
		} else if walMode == "direct-sync" {
			pReject = 15 // ... and is mostly followed by an accepting one
		}
		walMode = "sync"
		if !walSession {
			return
		}
		switch k := r2.Intn(100); {
		case k < pReject:
			walMode = "direct-sync"
		case k < pReject+(100-pReject)/3:
			walMode = "async"
		}
		if strings.HasPrefix(walMode, "direct") && !dbDirectIOAvailable() {
			walMode = "sync"
		}
	}
	pickWal(true)

	// key universe: short, long, non-UTF-8
	nk := 3 + r.Intn(5)
	var keys [][]byte
	for i := 0; i < nk; i++ {
		switch r.Intn(6) {
		case 0:
			keys = append(keys, []byte{0xff, 0xfe, byte(i)})
		case 1:
			keys = append(keys, append([]byte("long-key-"), bytesRepeat(byte('a'+i), 40+r.Intn(100))...))
		case 2:
			keys = append(keys, []byte{0x91, 0x8d, 0x4c, byte(i)})
		default:
			keys = append(keys, []byte{byte('a' + i)})
		}
	}
	genVal := func() []byte {
		switch r.Intn(10) {
		case 0:
			return bytesRepeat(byte(r.Next()), 200+r.Intn(4000))
		case 1:
			return []byte{0}
		case 2:
			return append([]byte{0x91, 0x8d, 0x4c}, r.Bytes(5)...)
		default:
			return r.Bytes(1 + r.Intn(30))
		}
	}

	ref := map[string][]byte{}
	var steps []string // model steps
	var impl []string  // implementation results in the model's output format
	var trace []string // human readable
	flushes, writes := 0, 0
	lastInternal := "none"
	var db *simpledb.DB
	opts := genDbOpts(r)
	lineage := r.Chance(25)
	if lineage {
		// C06 lineage: a big oldest table that the size limit excludes, small newer tables that shadow it
		opts.memstore = 1 << 40
		opts.maxSize = uint64(1000 + r.Intn(2500))
		opts.threshold = r.Intn(2)
		opts.ratioNum, opts.ratioDen = 1, 1
		if r.Chance(30) {
			opts.ratioNum, opts.ratioDen = 1, 2
		}
		res.Stat("case:lineage-excluding-oldest")
	}
	opened := false
	dead := false // the open handle refuses to work: the session cannot go on

	// C17 book-keeping: what the rejected calls of this session would have changed had they taken effect
	// (key -> readings), and which kinds of call were rejected on the current handle before it was opened
	rejEffects := map[string][]string{}
	logRejected := 0
	var handleRejected []string
	noteRejected := func(k []byte, reading string) {
		if len(k) > 0 {
			rejEffects[string(k)] = append(rejEffects[string(k)], reading)
		}
	}

	emit := func(step, result string) {
		steps = append(steps, step)
		impl = append(impl, result)
	}
	// a call through the open handle failed / returned something else than the reference
	failed := func(prop, sig, detail string, err error) {
		if dbIsNotOpen(err) && len(handleRejected) > 0 {
			// the handle was opened successfully after rejected calls and now claims not to be open
			what := "rejected-calls-before-open"
			if handleRejected[0] == "close" {
				what = "rejected-close-before-open"
			}
			res.Violate(idx, "C17", "open-handle-unusable:"+what, fmt.Sprintf("rejected on the fresh handle: %s; then Open() = nil; then %s: %s", strings.Join(handleRejected, "+"), sig, detail), strings.Join(trace, " "))
			dead = true
			return
		}
		res.Violate(idx, prop, sig, detail, strings.Join(trace, " "))
	}
	// rejected calls on a handle that is not open ("fresh": never opened, "closed"): all of them are errors and
	// none may change anything; the model answers `notopen` in its not-open / closed state as well
	probeNotOpen := func(d *simpledb.DB, state string) []string {
		seen := map[string]bool{}
		for i, n := 0, 1+r2.Intn(3); i < n; i++ {
			k := keys[r2.Intn(len(keys))]
			var err error
			var kind string
			switch c := r2.Intn(100); {
			case c < 40:
				kind = "close"
				err = safely(d.Close)
				emit("close", dbRes(err))
			case c < 50:
				kind = "get"
				_, err = d.Get(string(k))
				emit("g:"+gb(k), dbRes(err))
			case c < 60:
				kind = "get"
				_, err = d.GetBytes(k)
				emit("g:"+gb(k), dbRes(err))
			case c < 70:
				kind = "put"
				err = d.Put(string(k), "x")
				emit("ps:"+gb(k)+":78:0", dbRes(err))
				noteRejected(k, "val:78")
			case c < 80:
				kind = "put"
				err = d.PutBytes(k, []byte{0x79})
				emit("pb:"+gb(k)+":79:0", dbRes(err))
				noteRejected(k, "val:79")
			case c < 90:
				kind = "delete"
				err = d.Delete(string(k))
				emit("ds:"+gb(k), dbRes(err))
				noteRejected(k, "notfound")
			default:
				kind = "delete"
				err = d.DeleteBytes(k)
				emit("db:"+gb(k), dbRes(err))
				noteRejected(k, "notfound")
			}
			res.Evaluations++
			res.Stat("lifecycle:" + kind + "-on-" + state + "-handle")
			trace = append(trace, fmt.Sprintf("%s.%s(%x)=%s", state, kind, k, dbRes(err)))
			if err != nil {
				seen[kind] = true
			}
		}
		var kinds []string
		for _, k := range []string{"close", "delete", "get", "put"} {
			if seen[k] {
				kinds = append(kinds, k)
			}
		}
		return kinds
	}
	openDb := func() error {
		mk := func() (*simpledb.DB, error) {
			o := opts.extra()
			switch walMode {
			case "async":
				o = append(o, simpledb.EnableAsyncWAL())
			case "direct-sync":
				o = append(o, simpledb.EnableDirectIOWAL())
			}
			return simpledb.NewSimpleDB(dir, o...)
		}
		d, err := mk()
		if err != nil {
			return err
		}
		handleRejected = nil
		if lifecycle && r2.Chance(60) {
			kinds := probeNotOpen(d, "fresh")
			if r2.Chance(20) {
				// that handle is dropped without ever being opened
				res.Stat("lifecycle:fresh-handle-dropped-after-rejected-calls")
				trace = append(trace, "drop-handle")
				if d, err = mk(); err != nil {
					return err
				}
			} else {
				handleRejected = kinds
				res.Stat("lifecycle:open-after-rejected-calls-on-same-handle")
			}
		}
		if err := d.Open(); err != nil {
			res.Violate(idx, "C01", "open-failed", err.Error(), strings.Join(trace, " "))
			return nil
		}
		db = d
		opened = true
		emit(opts.modelTok(), "-")
		if walSession {
			res.Stat("open:log=" + walMode)
			trace = append(trace, fmt.Sprintf("open(mem=%d,thr=%d,max=%d,ratio=%d/%d,log=%s)", opts.memstore, opts.threshold, opts.maxSize, opts.ratioNum, opts.ratioDen, walMode))
		} else {
			trace = append(trace, fmt.Sprintf("open(mem=%d,thr=%d,max=%d,ratio=%d/%d)", opts.memstore, opts.threshold, opts.maxSize, opts.ratioNum, opts.ratioDen))
		}
		return nil
	}
	if err := openDb(); err != nil {
		return err
	}
	if !opened {
		return nil
	}
	// reads every key of the universe (alternating flavours) and checks it against the reference map
	readAll := func(ctx string) {
		for i, k := range keys {
			if dead {
				return
			}
			var got []byte
			var err error
			if (i+len(steps))%2 == 0 {
				var s string
				s, err = db.Get(string(k))
				got = []byte(s)
			} else {
				got, err = db.GetBytes(k)
			}
			out := dbRes(err)
			if err == nil {
				out = "val:" + gb(nonNil(got))
			}
			want := "notfound"
			if v, ok := ref[string(k)]; ok {
				want = "val:" + gb(v)
			}
			res.Evaluations++
			if out != want {
				prop := "C01"
				if ctx == "compact" {
					prop = "C06"
				}
				detail := fmt.Sprintf("Get(%x): want %s got %s", k, want, out)
				tookEffect := false
				for _, e := range rejEffects[string(k)] {
					tookEffect = tookEffect || e == out
				}
				if tookEffect {
					// the key reads as a call that returned an error would have left it
					res.Violate(idx, "C17", "rejected-call-took-effect:seen-after-"+ctx, detail, strings.Join(trace, " "))
					if ctx != "compact" {
						emit("g:"+gb(k), out)
						continue
					}
				}
				failed(prop, "get-mismatch:after-"+ctx, detail, err)
			}
			emit("g:"+gb(k), out)
		}
	}
	waitFlush := func() {
		db.VerifWaitFlushIdle()
		emit("flush", "-")
	}
	tablesTok := func() (string, []uint64, error) {
		names, sizes, _, _ := db.VerifTables()
		g, err := gensOf(names)
		return "t:" + g, sizes, err
	}
	rotate := func() {
		if err := db.VerifRotate(); err != nil {
			failed("C01", "rotate-failed", err.Error(), err)
		}
		emit("rot", "-")
		flushes++
		trace = append(trace, "rotate")
	}
	// Close of the open handle; afterwards, in lifecycle sessions, rejected calls on the closed handle
	closeDb := func(k []byte) bool {
		err := safely(db.Close)
		emit("close", dbRes(err))
		res.Evaluations++
		if err != nil {
			failed("C01", "close-failed", err.Error(), err)
			opened = false
			return false
		}
		opened = false
		trace = append(trace, "close")
		// a closed handle rejects calls
		if r.Chance(30) {
			_, gerr := db.Get(string(k))
			emit("g:"+gb(k), dbRes(gerr))
			perr := db.Put(string(k), "x")
			emit("ps:"+gb(k)+":78:0", dbRes(perr))
			noteRejected(k, "val:78")
		}
		if lifecycle && r2.Chance(60) {
			probeNotOpen(db, "closed")
			if r2.Chance(40) {
				// Open on the closed handle: rejected as well (oracle only: the model's re-open stands for a NEW handle)
				oerr := safely(db.Open)
				res.Stat("lifecycle:open-on-closed-handle")
				res.Evaluations++
				trace = append(trace, "closed.open()="+dbRes(oerr))
				if oerr == nil {
					res.Violate(idx, "C01", "lifecycle:open-accepted-on-closed-handle", "Open() after Close() returned nil", strings.Join(trace, " "))
					dead = true
					return false
				}
			}
		}
		flushes++
		return true
	}

	if lineage {
		// oldest table: large live values for the first two keys
		for i := 0; i < 2 && i < len(keys); i++ {
			v := bytesRepeat(byte('A'+i), 3000+r.Intn(1500))
			err := db.PutBytes(keys[i], v)
			if err != nil && walMode == "direct-sync" {
				logRejected++
				noteRejected(keys[i], "val:"+gb(v))
				res.Stat("op:put:rejected-by-direct-io-log")
				trace = append(trace, fmt.Sprintf("put(%x,%dB)=%s", keys[i], len(v), dbRes(err)))
				continue
			}
			emit("pb:"+gb(keys[i])+":"+gb(v)+":0", dbRes(err))
			if err == nil {
				ref[string(keys[i])] = v
				writes++
			}
			trace = append(trace, fmt.Sprintf("put(%x,%dB)=%s", keys[i], len(v), dbRes(err)))
		}
		_ = db.VerifRotate()
		emit("rot", "-")
		flushes++
		trace = append(trace, "rotate")
		readAll("flush")
	}
	nops := 10 + r.Intn(30)
	if tier == "thorough" && r.Chance(20) {
		nops = 60 + r.Intn(100)
	}
	for op := 0; op < nops && opened && !dead; op++ {
		k := keys[r.Intn(len(keys))]
		ctx := lastInternal
		c := r.Intn(100)
		if walSession && r2.Chance(10) {
			c = 99 // these sessions close and re-open (with another log flavour) more often
		}
		if lifecycle && r2.Chance(5) {
			// Open on the open handle: rejected, nothing changes (oracle only)
			oerr := safely(db.Open)
			res.Stat("lifecycle:open-on-open-handle")
			res.Evaluations++
			trace = append(trace, "open.open()="+dbRes(oerr))
			if oerr == nil {
				res.Violate(idx, "C01", "lifecycle:second-open-accepted", "Open() on an open handle returned nil", strings.Join(trace, " "))
				dead = true
				break
			}
			readAll("rejected-call")
		}
		switch {
		case c < 38: // put
			v := genVal()
			var err error
			useStr := r.Chance(50)
			if useStr {
				err = db.Put(string(k), string(v))
			} else {
				err = db.PutBytes(k, v)
			}
			out := dbRes(err)
			res.Stat("op:put")
			res.Evaluations++
			if err != nil && walMode == "direct-sync" && !dbIsNotOpen(err) {
				// rejected by the log: no effect now or later; the model (whose log accepts everything) is not told
				logRejected++
				noteRejected(k, "val:"+gb(v))
				res.Stat("op:put:rejected-by-direct-io-log")
				if !errors.Is(err, recordio.DirectIOSyncWriteErr) {
					res.Stat("op:put:rejected-by-direct-io-log:other-error")
				}
				trace = append(trace, fmt.Sprintf("put(%x,%s)=rejected-by-log", k, gb(v)))
				ctx = "log-rejected-call"
				break
			}
			rot := "0"
			if err == nil {
				ref[string(k)] = v
				writes++
				if db.VerifMemstoreEstimate() == 0 {
					rot = "1" // the size limit was exceeded: the memstore was rotated inside the call
					flushes++
					res.Stat("rotation:size-triggered")
					lastInternal = "flush"
				}
			}
			if useStr {
				emit("ps:"+gb(k)+":"+gb(v)+":"+rot, out)
			} else {
				emit("pb:"+gb(k)+":"+gb(v)+":"+rot, out)
			}
			trace = append(trace, fmt.Sprintf("put(%x,%dB)=%s", k, len(v), out))
			if out != "ok" {
				failed("C01", "valid-put-failed", out, err)
			}
		case c < 44: // rejected puts: empty / nil key or value through both flavours
			var kk, vv []byte = k, genVal()
			which := r.Intn(4)
			switch which {
			case 0:
				kk = []byte{}
			case 1:
				vv = []byte{}
			case 2:
				kk = nil
			case 3:
				vv = nil
			}
			var err error
			if which < 2 && r.Chance(50) {
				err = db.Put(string(kk), string(vv))
				emit("ps:"+gb(nonNil(kk))+":"+gb(nonNil(vv))+":0", dbRes(err))
			} else {
				err = db.PutBytes(kk, vv)
				emit("pb:"+gb(kk)+":"+gb(vv)+":0", dbRes(err))
			}
			trace = append(trace, fmt.Sprintf("badput(%s,%s)=%s", gb(kk), gb(vv), dbRes(err)))
			res.Stat("op:rejected-put")
			res.Evaluations++
			if !errors.Is(err, simpledb.ErrEmptyKeyValue) {
				res.Violate(idx, "C17", "empty-put-not-rejected", fmt.Sprintf("Put(%s,%s) = %s", gb(kk), gb(vv), dbRes(err)), strings.Join(trace, " "))
			} else {
				noteRejected(kk, "val:"+gb(nonNil(vv)))
			}
			ctx = "rejected-call"
		case c < 58: // delete (sometimes of the empty key: accepted, must delete nothing else)
			kk := k
			if r.Chance(10) {
				kk = []byte{}
			}
			var err error
			useStr := r.Chance(50)
			if useStr {
				err = db.Delete(string(kk))
			} else {
				if len(kk) == 0 && r.Chance(50) {
					kk = nil
				}
				err = db.DeleteBytes(kk)
			}
			res.Stat("op:delete")
			res.Evaluations++
			if err != nil && walMode == "direct-sync" && !dbIsNotOpen(err) {
				logRejected++
				noteRejected(kk, "notfound")
				res.Stat("op:delete:rejected-by-direct-io-log")
				trace = append(trace, fmt.Sprintf("del(%s)=rejected-by-log", gb(kk)))
				ctx = "log-rejected-call"
				break
			}
			if useStr {
				emit("ds:"+gb(kk), dbRes(err))
			} else {
				emit("db:"+gb(kk), dbRes(err))
			}
			if err == nil {
				delete(ref, string(kk))
				writes++
			}
			trace = append(trace, fmt.Sprintf("del(%s)=%s", gb(kk), dbRes(err)))
			if err != nil {
				failed("C01", "delete-failed", dbRes(err), err)
			}
		case c < 68: // forced rotation
			rotate()
			res.Stat("op:rotate")
			lastInternal = "flush"
			ctx = "flush"
		case c < 74:
			waitFlush()
			trace = append(trace, "waitflush")
			res.Stat("op:waitflush")
			t, _, err := tablesTok()
			if err != nil {
				return err
			}
			emit("tables", t)
			ctx = "flush"
		case c < 88: // one compaction cycle
			waitFlush()
			before, sizes, err := tablesTok()
			if err != nil {
				return err
			}
			emit("tables", before)
			var szs []string
			for _, s := range sizes {
				szs = append(szs, strconv.FormatUint(s, 10))
			}
			var sel []string
			err = safely(func() error {
				var e error
				sel, _, e = db.VerifCompactOnce()
				return e
			})
			res.Evaluations++
			if err != nil {
				res.Violate(idx, "C01", "compaction-failed", err.Error(), strings.Join(trace, " "))
				opened = false
				break
			}
			g, err := gensOf(sel)
			if err != nil {
				return err
			}
			emit("compact:"+strings.Join(szs, ";"), "sel:"+g)
			after, _, err := tablesTok()
			if err != nil {
				return err
			}
			emit("tables", after)
			trace = append(trace, fmt.Sprintf("compact[%s→sel %s→%s]", before, g, after))
			if len(sel) > 0 {
				res.Stat("op:compact:merged")
				if !strings.HasPrefix(before[2:]+";", g+";") {
					res.Stat("op:compact:excludes-oldest")
				}
			} else {
				res.Stat("op:compact:nothing-selected")
			}
			// C06: the selected tables are a gap-free run in age order
			if len(sel) > 0 && !strings.Contains(";"+before[2:]+";", ";"+g+";") {
				res.Violate(idx, "C06", "selection-not-contiguous", "tables "+before+" selected "+g, strings.Join(trace, " "))
			}
			lastInternal = "compact"
			ctx = "compact"
		default: // close + reopen with other options
			if !closeDb(k) {
				break
			}
			opts = genDbOpts(r)
			if logRejected > 0 {
				res.Stat("op:reopen:after-log-rejected-calls")
			}
			pickWal(false)
			if err := openDb(); err != nil {
				return err
			}
			res.Stat("op:reopen")
			lastInternal = "reopen"
			ctx = "reopen"
		}
		if !opened || dead {
			break
		}
		if ctx == "log-rejected-call" && r2.Chance(20) {
			// the rejected call stays without effect when the (unchanged) memstore is rotated and flushed
			readAll(ctx)
			rotate()
			waitFlush()
			res.Stat("op:rotate+flush:after-log-rejected-call")
			lastInternal = "flush"
			ctx = "log-rejected-call+flush"
		}
		readAll(ctx)
	}
	if opened && !dead && logRejected > 0 {
		// sessions with calls rejected by the log end with a clean restart under DEFAULT log options, a rotation and
		// a flush: the rejected calls stay without effect
		if closeDb(keys[0]) {
			walMode = "sync"
			if err := openDb(); err != nil {
				return err
			}
			if opened {
				res.Stat("final-reopen-with-default-log:after-log-rejected-calls")
				readAll("reopen")
				rotate()
				waitFlush()
				readAll("reopen+flush")
			}
		}
	}
	if opened && !dead {
		if err := safely(db.Close); err != nil {
			failed("C01", "close-failed", err.Error(), err)
		}
	}
	cs := strings.Join(steps, ",")
	if flushes > 0 && writes > 0 {
		res.NoteNontrivial(cs)
	}
	res.Sample(strings.Join(trace, " "))
	m, err := drv.Ask("db.run steps=" + cs)
	if err != nil {
		return err
	}
	res.Cmp(idx, "db.run", m, strings.Join(impl, " "), strings.Join(trace, " "))
	return nil
}

func bytesRepeat(b byte, n int) []byte {
	out := make([]byte, n)
	for i := range out {
		out[i] = b
	}
	return out
}
