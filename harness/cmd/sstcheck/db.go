package main

import (
	"errors"
	"fmt"
	"os"
	"strconv"
	"strings"

	"github.com/thomasjungblut/go-sstables/simpledb"
)

// ---------------------------------------------------------------------------------------------
// stream "db": SimpleDB sessions (C01, C06, C17): client programs x forced rotations / flushes /
// compaction cycles x close + reopen with other options, through both API flavours

type dbOpts struct {
	memstore  uint64
	threshold int
	maxSize   uint64
	ratioNum  int
	ratioDen  int
	rbuf      uint64
	wbuf      uint64
}

func genDbOpts(r *Rng) dbOpts {
	o := dbOpts{}
	if r.Chance(55) {
		o.memstore = 1 << 40 // rotations only where the program asks for them
	} else {
		o.memstore = uint64([]int{1, 10, 40, 120, 400, 2000}[r.Intn(6)])
	}
	o.threshold = []int{-1, 0, 0, 1, 1, 2, 3, 10}[r.Intn(8)]
	o.maxSize = uint64([]int{0, 1, 200, 400, 1000, 5000, 1 << 30}[r.Intn(7)])
	rat := [][2]int{{0, 1}, {1, 4}, {1, 2}, {1, 1}, {1, 5}}[r.Intn(5)]
	o.ratioNum, o.ratioDen = rat[0], rat[1]
	bufs := []int{16, 64, 512, 4096, 1 << 20, 4 << 20}
	o.rbuf = uint64(bufs[r.Intn(len(bufs))])
	o.wbuf = uint64(bufs[r.Intn(len(bufs))])
	return o
}

func (o dbOpts) extra() []simpledb.ExtraOption {
	return []simpledb.ExtraOption{
		simpledb.DisableCompactions(), // compaction cycles run only where the program places them (hook)
		simpledb.MemstoreSizeBytes(o.memstore),
		simpledb.CompactionFileThreshold(o.threshold),
		simpledb.CompactionMaxSizeBytes(o.maxSize),
		simpledb.CompactionRatio(float32(o.ratioNum) / float32(o.ratioDen)),
		simpledb.ReadBufferSizeBytes(o.rbuf),
		simpledb.WriteBufferSizeBytes(o.wbuf),
	}
}

func (o dbOpts) modelTok() string {
	return fmt.Sprintf("open:%d:%d:%d:%d", o.threshold, o.maxSize, o.ratioNum, o.ratioDen)
}

func dbRes(err error) string {
	switch {
	case err == nil:
		return "ok"
	case errors.Is(err, simpledb.ErrNotFound):
		return "notfound"
	case errors.Is(err, simpledb.ErrEmptyKeyValue):
		return "rejected"
	case errors.Is(err, simpledb.ErrNotOpenedYet), errors.Is(err, simpledb.ErrAlreadyClosed):
		return "notopen"
	}
	return "err:" + errKind(err) + ":" + err.Error()
}

func genNum(name string) (int, error) {
	i := strings.LastIndex(name, "_")
	if i < 0 {
		return 0, fmt.Errorf("unexpected table name %q", name)
	}
	return strconv.Atoi(strings.TrimLeft(name[i+1:], "0") + "")
}

func gensOf(names []string) (string, error) {
	var parts []string
	for _, n := range names {
		s := strings.TrimLeft(n[strings.LastIndex(n, "_")+1:], "0")
		if s == "" {
			s = "0"
		}
		if _, err := strconv.Atoi(s); err != nil {
			return "", fmt.Errorf("unexpected table name %q", n)
		}
		parts = append(parts, s)
	}
	return strings.Join(parts, ";"), nil
}

func runDb(res *Result, drv *Driver, seed uint64, n int, tier string, only int) error {
	res.Rule = "session programs: Put/Delete/Get through string and byte flavours incl. rejected calls, forced rotations, flush waits, compaction cycles (hook), " +
		"close + reopen with other options (memstore size, threshold, max size, ratio, buffers); every key of the universe is read after every step; " +
		"non-trivial = at least one flush and one accepted write; distinct = distinct step strings"
	for idx := 0; idx < n; idx++ {
		if only >= 0 && idx != only {
			continue
		}
		if err := dbOne(res, drv, NewRng(seed, uint64(idx)), idx, tier); err != nil {
			return err
		}
	}
	return nil
}

func dbOne(res *Result, drv *Driver, r *Rng, idx int, tier string) error {
	dir, err := os.MkdirTemp("", "verif-db-")
	if err != nil {
		return err
	}
	defer os.RemoveAll(dir)
	res.Cases++

	// key universe: short, long, non-UTF-8
	nk := 3 + r.Intn(5)
	var keys [][]byte
	for i := 0; i < nk; i++ {
		switch r.Intn(6) {
		case 0:
			keys = append(keys, []byte{0xff, 0xfe, byte(i)})
		case 1:
			keys = append(keys, append([]byte("long-key-"), bytesRepeat(byte('a'+i), 40+r.Intn(100))...))
		case 2:
			keys = append(keys, []byte{0x91, 0x8d, 0x4c, byte(i)})
		default:
			keys = append(keys, []byte{byte('a' + i)})
		}
	}
	genVal := func() []byte {
		switch r.Intn(10) {
		case 0:
			return bytesRepeat(byte(r.Next()), 200+r.Intn(4000))
		case 1:
			return []byte{0}
		case 2:
			return append([]byte{0x91, 0x8d, 0x4c}, r.Bytes(5)...)
		default:
			return r.Bytes(1 + r.Intn(30))
		}
	}

	ref := map[string][]byte{}
	var steps []string // model steps
	var impl []string  // implementation results in the model's output format
	var trace []string // human readable
	flushes, writes := 0, 0
	lastInternal := "none"
	var db *simpledb.DB
	opts := genDbOpts(r)
	lineage := r.Chance(25)
	if lineage {
		// C06 lineage: a big oldest table that the size limit excludes, small newer tables that shadow it
		opts.memstore = 1 << 40
		opts.maxSize = uint64(1000 + r.Intn(2500))
		opts.threshold = r.Intn(2)
		opts.ratioNum, opts.ratioDen = 1, 1
		if r.Chance(30) {
			opts.ratioNum, opts.ratioDen = 1, 2
		}
		res.Stat("case:lineage-excluding-oldest")
	}
	opened := false

	emit := func(step, result string) {
		steps = append(steps, step)
		impl = append(impl, result)
	}
	openDb := func() error {
		d, err := simpledb.NewSimpleDB(dir, opts.extra()...)
		if err != nil {
			return err
		}
		if err := d.Open(); err != nil {
			res.Violate(idx, "C01", "open-failed", err.Error(), strings.Join(trace, " "))
			return nil
		}
		db = d
		opened = true
		emit(opts.modelTok(), "-")
		trace = append(trace, fmt.Sprintf("open(mem=%d,thr=%d,max=%d,ratio=%d/%d)", opts.memstore, opts.threshold, opts.maxSize, opts.ratioNum, opts.ratioDen))
		return nil
	}
	if err := openDb(); err != nil {
		return err
	}
	if !opened {
		return nil
	}
	// reads every key of the universe (alternating flavours) and checks it against the reference map
	readAll := func(ctx string) {
		for i, k := range keys {
			var got []byte
			var err error
			if (i+len(steps))%2 == 0 {
				var s string
				s, err = db.Get(string(k))
				got = []byte(s)
			} else {
				got, err = db.GetBytes(k)
			}
			out := dbRes(err)
			if err == nil {
				out = "val:" + gb(nonNil(got))
			}
			want := "notfound"
			if v, ok := ref[string(k)]; ok {
				want = "val:" + gb(v)
			}
			res.Evaluations++
			if out != want {
				prop := "C01"
				if ctx == "compact" {
					prop = "C06"
				}
				res.Violate(idx, prop, "get-mismatch:after-"+ctx, fmt.Sprintf("Get(%x): want %s got %s", k, want, out), strings.Join(trace, " "))
			}
			emit("g:"+gb(k), out)
		}
	}
	waitFlush := func() {
		db.VerifWaitFlushIdle()
		emit("flush", "-")
	}
	tablesTok := func() (string, []uint64, error) {
		names, sizes, _, _ := db.VerifTables()
		g, err := gensOf(names)
		return "t:" + g, sizes, err
	}

	if lineage {
		// oldest table: large live values for the first two keys
		for i := 0; i < 2 && i < len(keys); i++ {
			v := bytesRepeat(byte('A'+i), 3000+r.Intn(1500))
			err := db.PutBytes(keys[i], v)
			emit("pb:"+gb(keys[i])+":"+gb(v)+":0", dbRes(err))
			if err == nil {
				ref[string(keys[i])] = v
				writes++
			}
			trace = append(trace, fmt.Sprintf("put(%x,%dB)=%s", keys[i], len(v), dbRes(err)))
		}
		_ = db.VerifRotate()
		emit("rot", "-")
		flushes++
		trace = append(trace, "rotate")
		readAll("flush")
	}
	nops := 10 + r.Intn(30)
	if tier == "thorough" && r.Chance(20) {
		nops = 60 + r.Intn(100)
	}
	for op := 0; op < nops && opened; op++ {
		k := keys[r.Intn(len(keys))]
		ctx := lastInternal
		switch c := r.Intn(100); {
		case c < 38: // put
			v := genVal()
			var err error
			useStr := r.Chance(50)
			if useStr {
				err = db.Put(string(k), string(v))
			} else {
				err = db.PutBytes(k, v)
			}
			out := dbRes(err)
			rot := "0"
			if err == nil {
				ref[string(k)] = v
				writes++
				if db.VerifMemstoreEstimate() == 0 {
					rot = "1" // the size limit was exceeded: the memstore was rotated inside the call
					flushes++
					res.Stat("rotation:size-triggered")
					lastInternal = "flush"
				}
			}
			if useStr {
				emit("ps:"+gb(k)+":"+gb(v)+":"+rot, out)
			} else {
				emit("pb:"+gb(k)+":"+gb(v)+":"+rot, out)
			}
			trace = append(trace, fmt.Sprintf("put(%x,%dB)=%s", k, len(v), out))
			res.Stat("op:put")
			res.Evaluations++
			if out != "ok" {
				res.Violate(idx, "C01", "valid-put-failed", out, strings.Join(trace, " "))
			}
		case c < 44: // rejected puts: empty / nil key or value through both flavours
			var kk, vv []byte = k, genVal()
			which := r.Intn(4)
			switch which {
			case 0:
				kk = []byte{}
			case 1:
				vv = []byte{}
			case 2:
				kk = nil
			case 3:
				vv = nil
			}
			var err error
			if which < 2 && r.Chance(50) {
				err = db.Put(string(kk), string(vv))
				emit("ps:"+gb(nonNil(kk))+":"+gb(nonNil(vv))+":0", dbRes(err))
			} else {
				err = db.PutBytes(kk, vv)
				emit("pb:"+gb(kk)+":"+gb(vv)+":0", dbRes(err))
			}
			trace = append(trace, fmt.Sprintf("badput(%s,%s)=%s", gb(kk), gb(vv), dbRes(err)))
			res.Stat("op:rejected-put")
			res.Evaluations++
			if !errors.Is(err, simpledb.ErrEmptyKeyValue) {
				res.Violate(idx, "C17", "empty-put-not-rejected", fmt.Sprintf("Put(%s,%s) = %s", gb(kk), gb(vv), dbRes(err)), strings.Join(trace, " "))
			}
			ctx = "rejected-call"
		case c < 58: // delete (sometimes of the empty key: accepted, must delete nothing else)
			kk := k
			if r.Chance(10) {
				kk = []byte{}
			}
			var err error
			if r.Chance(50) {
				err = db.Delete(string(kk))
				emit("ds:"+gb(kk), dbRes(err))
			} else {
				if len(kk) == 0 && r.Chance(50) {
					kk = nil
				}
				err = db.DeleteBytes(kk)
				emit("db:"+gb(kk), dbRes(err))
			}
			if err == nil {
				delete(ref, string(kk))
				writes++
			}
			trace = append(trace, fmt.Sprintf("del(%s)=%s", gb(kk), dbRes(err)))
			res.Stat("op:delete")
			res.Evaluations++
			if err != nil {
				res.Violate(idx, "C01", "delete-failed", dbRes(err), strings.Join(trace, " "))
			}
		case c < 68: // forced rotation
			if err := db.VerifRotate(); err != nil {
				res.Violate(idx, "C01", "rotate-failed", err.Error(), strings.Join(trace, " "))
			}
			emit("rot", "-")
			flushes++
			trace = append(trace, "rotate")
			res.Stat("op:rotate")
			lastInternal = "flush"
			ctx = "flush"
		case c < 74:
			waitFlush()
			trace = append(trace, "waitflush")
			res.Stat("op:waitflush")
			t, _, err := tablesTok()
			if err != nil {
				return err
			}
			emit("tables", t)
			ctx = "flush"
		case c < 88: // one compaction cycle
			waitFlush()
			before, sizes, err := tablesTok()
			if err != nil {
				return err
			}
			emit("tables", before)
			var szs []string
			for _, s := range sizes {
				szs = append(szs, strconv.FormatUint(s, 10))
			}
			var sel []string
			err = safely(func() error {
				var e error
				sel, _, e = db.VerifCompactOnce()
				return e
			})
			res.Evaluations++
			if err != nil {
				res.Violate(idx, "C01", "compaction-failed", err.Error(), strings.Join(trace, " "))
				opened = false
				break
			}
			g, err := gensOf(sel)
			if err != nil {
				return err
			}
			emit("compact:"+strings.Join(szs, ";"), "sel:"+g)
			after, _, err := tablesTok()
			if err != nil {
				return err
			}
			emit("tables", after)
			trace = append(trace, fmt.Sprintf("compact[%s→sel %s→%s]", before, g, after))
			if len(sel) > 0 {
				res.Stat("op:compact:merged")
				if !strings.HasPrefix(before[2:]+";", g+";") {
					res.Stat("op:compact:excludes-oldest")
				}
			} else {
				res.Stat("op:compact:nothing-selected")
			}
			// C06: the selected tables are a gap-free run in age order
			if len(sel) > 0 && !strings.Contains(";"+before[2:]+";", ";"+g+";") {
				res.Violate(idx, "C06", "selection-not-contiguous", "tables "+before+" selected "+g, strings.Join(trace, " "))
			}
			lastInternal = "compact"
			ctx = "compact"
		default: // close + reopen with other options
			err := db.Close()
			emit("close", dbRes(err))
			res.Evaluations++
			if err != nil {
				res.Violate(idx, "C01", "close-failed", err.Error(), strings.Join(trace, " "))
				opened = false
				break
			}
			// a closed handle rejects calls
			if r.Chance(30) {
				_, gerr := db.Get(string(k))
				emit("g:"+gb(k), dbRes(gerr))
				perr := db.Put(string(k), "x")
				emit("ps:"+gb(k)+":78:0", dbRes(perr))
			}
			flushes++
			opts = genDbOpts(r)
			opened = false
			trace = append(trace, "close")
			if err := openDb(); err != nil {
				return err
			}
			res.Stat("op:reopen")
			lastInternal = "reopen"
			ctx = "reopen"
		}
		if !opened {
			break
		}
		readAll(ctx)
	}
	if opened {
		if err := db.Close(); err != nil {
			res.Violate(idx, "C01", "close-failed", err.Error(), strings.Join(trace, " "))
		}
	}
	cs := strings.Join(steps, ",")
	if flushes > 0 && writes > 0 {
		res.NoteNontrivial(cs)
	}
	res.Sample(strings.Join(trace, " "))
	m, err := drv.Ask("db.run steps=" + cs)
	if err != nil {
		return err
	}
	res.Cmp(idx, "db.run", m, strings.Join(impl, " "), strings.Join(trace, " "))
	return nil
}

func bytesRepeat(b byte, n int) []byte {
	out := make([]byte, n)
	for i := range out {
		out[i] = b
	}
	return out
}
