package main

import (
	"bytes"
	"encoding/json"
	"errors"
	"flag"
	"fmt"
	"os"
	"os/exec"
	"path/filepath"
	"reflect"
	"runtime"
	"sort"
	"strconv"
	"strings"

	"github.com/thomasjungblut/go-sstables/recordio"
	rProto "github.com/thomasjungblut/go-sstables/recordio/proto"
	"github.com/thomasjungblut/go-sstables/simpledb"
	"github.com/thomasjungblut/go-sstables/skiplist"
	"github.com/thomasjungblut/go-sstables/sstables"
	sProto "github.com/thomasjungblut/go-sstables/sstables/proto"
)

// ---------------------------------------------------------------------------------------------
// stream "db": SimpleDB sessions (C01, C06, C17): client programs x forced rotations / flushes /
// compaction cycles x close + reopen with other options, through both API flavours

type dbOpts struct {
	memstore  uint64
	threshold int
	maxSize   uint64
	ratioNum  int
	ratioDen  int
	rbuf      uint64
	wbuf      uint64
}

func genDbOpts(r *Rng) dbOpts {
	o := dbOpts{}
	if r.Chance(55) {
		o.memstore = 1 << 40 // rotations only where the program asks for them
	} else {
		o.memstore = uint64([]int{1, 10, 40, 120, 400, 2000}[r.Intn(6)])
	}
	o.threshold = []int{-1, 0, 0, 1, 1, 2, 3, 10}[r.Intn(8)]
	o.maxSize = uint64([]int{0, 1, 200, 400, 1000, 5000, 1 << 30}[r.Intn(7)])
	rat := [][2]int{{0, 1}, {1, 4}, {1, 2}, {1, 1}, {1, 5}}[r.Intn(5)]
	o.ratioNum, o.ratioDen = rat[0], rat[1]
	bufs := []int{16, 64, 512, 4096, 1 << 20, 4 << 20}
	o.rbuf = uint64(bufs[r.Intn(len(bufs))])
	o.wbuf = uint64(bufs[r.Intn(len(bufs))])
	return o
}

func (o dbOpts) extra() []simpledb.ExtraOption {
	return []simpledb.ExtraOption{
		simpledb.DisableCompactions(), // compaction cycles run only where the program places them (hook)
		simpledb.MemstoreSizeBytes(o.memstore),
		simpledb.CompactionFileThreshold(o.threshold),
		simpledb.CompactionMaxSizeBytes(o.maxSize),
		simpledb.CompactionRatio(float32(o.ratioNum) / float32(o.ratioDen)),
		simpledb.ReadBufferSizeBytes(o.rbuf),
		simpledb.WriteBufferSizeBytes(o.wbuf),
	}
}

func (o dbOpts) modelTok() string {
	return fmt.Sprintf("open:%d:%d:%d:%d", o.threshold, o.maxSize, o.ratioNum, o.ratioDen)
}

func dbRes(err error) string {
	switch {
	case err == nil:
		return "ok"
	case errors.Is(err, simpledb.ErrNotFound):
		return "notfound"
	case errors.Is(err, simpledb.ErrEmptyKeyValue):
		return "rejected"
	case errors.Is(err, simpledb.ErrNotOpenedYet), errors.Is(err, simpledb.ErrAlreadyClosed):
		return "notopen"
	}
	return "err:" + errKind(err) + ":" + err.Error()
}

func genNum(name string) (int, error) {
	i := strings.LastIndex(name, "_")
	if i < 0 {
		return 0, fmt.Errorf("unexpected table name %q", name)
	}
	return strconv.Atoi(strings.TrimLeft(name[i+1:], "0") + "")
}

func gensOf(names []string) (string, error) {
	var parts []string
	for _, n := range names {
		s := strings.TrimLeft(n[strings.LastIndex(n, "_")+1:], "0")
		if s == "" {
			s = "0"
		}
		if _, err := strconv.Atoi(s); err != nil {
			return "", fmt.Errorf("unexpected table name %q", n)
		}
		parts = append(parts, s)
	}
	return strings.Join(parts, ";"), nil
}

func init() {
	crashChildModes["dbguard"] = dbGuardChildMain
}

const dbRule = "session programs: Put/Delete/Get through string and byte flavours incl. rejected calls, forced rotations, flush waits, compaction cycles (hook), " +
	"close + reopen with other options (memstore size, threshold, max size, ratio, buffers); every key of the universe is read after every step; " +
	"40 % of the sessions add rejected lifecycle calls at every position (any call before Open on the handle that is then opened, Open on the open handle, " +
	"any call / Open / Close on the closed handle); 6 % choose a log flavour per (re-)open (sync, async, direct I/O + sync = every " +
	"Put/Delete rejected by the log: oracle-only, the model is not told about those calls) and end with a restart under default options; " +
	"12 % start from a table layout whose neighbouring key ranges are disjoint / touch in exactly one key / overlap (big older tables the size limit excludes " +
	"below and/or above a run of small tables, boundary keys deleted inside the run and valued in the older tables) followed by a compaction cycle, a restart and a second cycle; " +
	"30 % add string-flavour probes (Delete(string) of keys that are only in tables / in no table at all, directly followed by string-flavour Get/Delete of other keys " +
	"of the same and of other lengths, all keys read through both flavours, then flush and/or restart and the reads again); " +
	"10 % start from a database directory left behind by an old release: 1..3 version-0 tables sstable_…001.. (the library's own v0_compat tables with / without " +
	"metadata file and bloom filter, and tables of the same layout with keys of the session's universe), the reference map starts from their content read through " +
	"the table reader before Open, the model receives the same content through its own steps; the legacy keys are read after every step like all others; " +
	"a session that fails is run again through the byte flavour only (flavour differential: passes there = the flavours disagree, C17); " +
	"the sessions run in a guarded child process: a process killed by a panic of a background goroutine is a violation with the session as failing input; " +
	"after the n regular sessions 2 + n/60 (at most 60) MANY-TABLES sessions: one database with a backlog of 70..150 tiny tables (1..2 puts / deletes each, forced rotation per table), " +
	"values in the oldest tables, tombstones of those keys in the newest, other keys in between, then compaction cycles under every kind of selection (size limit huge / tiny / between the table sizes, " +
	"ratio only, thresholds below / above the number of tables) with the flushed memstore readable / after an empty rotation / after a restart, every key read after each cycle, after an empty rotation " +
	"and after a restart, more tables and further cycles; " +
	"non-trivial = at least one flush and one accepted write; distinct = distinct step strings"

// runDb runs the sessions in a guarded child process (same executable, mode `dbguard`): the library's flusher and
// compactor goroutines end the whole process with log.Panicf when their work fails, and the failing session must
// survive that as a violation with a concrete input.  VERIF_DB_INPROC=1 runs the sessions in this process.
func runDb(res *Result, drv *Driver, seed uint64, n int, tier string, only int) error {
	res.Rule = dbRule
	if os.Getenv("VERIF_DB_INPROC") != "" {
		return dbLoop(res, drv, seed, 0, -1, n, tier, only, "", false)
	}
	return dbGuardParent(res, drv, seed, n, tier, only)
}

// dbLoop: the cases [from, upto) in this process (upto < 0: all of them); with a state directory the result so far
// is saved after every case.  The cases [0, n) are the regular sessions, the cases [n, n+dbManyExtra(n)) are the
// many-tables sessions (dbManySession).
func dbLoop(res *Result, drv *Driver, seed uint64, from, upto, n int, tier string, only int, stateDir string, bytesOnly bool) error {
	dbBaseN = n
	if upto < 0 {
		upto = n + dbManyExtra(n)
	}
	for idx := from; idx < upto; idx++ {
		if only >= 0 && idx != only {
			continue
		}
		dbJournalIdx = idx
		dbJournal(nil)
		var err error
		if bytesOnly {
			err = dbSessionFor(idx)(res, drv, NewRng(seed, uint64(idx)), idx, tier, true)
		} else {
			err = dbOne(res, drv, seed, idx, tier)
		}
		if err != nil {
			return err
		}
		if stateDir != "" {
			res.ModelLines = drv.lines
			b, err := json.Marshal(dbSnapshot{Next: idx + 1, Res: res})
			if err != nil {
				return err
			}
			tmp := filepath.Join(stateDir, "snap.tmp")
			if err := os.WriteFile(tmp, b, 0o644); err != nil {
				return err
			}
			if err := os.Rename(tmp, filepath.Join(stateDir, "snap.json")); err != nil {
				return err
			}
		}
	}
	return nil
}

type dbSnapshot struct {
	Next int     `json:"next"`
	Res  *Result `json:"res"`
}

// journal of the guarded child: index and trace of the session that is running (read by the parent if the process dies)
var dbJournalPath string
var dbJournalIdx int

func dbJournal(trace []string) {
	if dbJournalPath == "" {
		return
	}
	_ = os.WriteFile(dbJournalPath, []byte(strconv.Itoa(dbJournalIdx)+"\n"+strings.Join(trace, " ")), 0o644)
}

func dbGuardChildMain(args []string) int {
	fs := flag.NewFlagSet("dbguard", flag.ExitOnError)
	seed := fs.Uint64("seed", 1, "")
	n := fs.Int("n", 0, "")
	from := fs.Int("from", 0, "")
	upto := fs.Int("upto", -1, "")
	only := fs.Int("only", -1, "")
	tier := fs.String("tier", "quick", "")
	drvPath := fs.String("drv", "", "")
	state := fs.String("state", "", "")
	bytesOnly := fs.Bool("bytes-only", false, "")
	_ = fs.Parse(args)
	drv, err := StartDriver(*drvPath)
	if err != nil {
		fmt.Fprintln(os.Stderr, "cannot start model driver:", err)
		return 3
	}
	defer drv.Close()
	dbJournalPath = filepath.Join(*state, "cur.txt")
	res := NewResult("db", *seed, *tier)
	if err := dbLoop(res, drv, *seed, *from, *upto, *n, *tier, *only, *state, *bytesOnly); err != nil {
		fmt.Fprintln(os.Stderr, "harness error:", err)
		return 3
	}
	return 0
}

func dbArgValue(name string) string {
	for i, a := range os.Args {
		for _, p := range []string{"-" + name, "--" + name} {
			if a == p && i+1 < len(os.Args) {
				return os.Args[i+1]
			}
			if strings.HasPrefix(a, p+"=") {
				return a[len(p)+1:]
			}
		}
	}
	return ""
}

func dbMerge(dst, src *Result) {
	dst.Cases += src.Cases
	dst.Evaluations += src.Evaluations
	dst.Nontrivial += src.Nontrivial
	for k, v := range src.Stats {
		dst.Stats[k] += v
	}
	for _, s := range src.Samples {
		dst.Sample(s)
	}
	for _, d := range src.Disagreements {
		if len(dst.Disagreements) < 20 {
			dst.Disagreements = append(dst.Disagreements, d)
		}
	}
	for _, v := range src.Violations {
		k := 0
		for _, w := range dst.Violations {
			if w.Property == v.Property && w.Sig == v.Sig {
				k++
			}
		}
		if k < 3 {
			dst.Violations = append(dst.Violations, v)
		}
	}
}

// one guarded child over the cases [from, upto) of a run with n regular sessions (upto < 0: all cases): result of the
// completed cases, whether the process died, and if so in which case (index, trace so far, end of its stderr)
func dbGuardRun(seed uint64, from, upto, n int, tier string, only int, bytesOnly bool) (part *Result, lines int, died bool, idx int, trace, stderr string, err error) {
	state, err := os.MkdirTemp("", "verif-dbguard-")
	if err != nil {
		return nil, 0, false, 0, "", "", err
	}
	defer os.RemoveAll(state)
	exe, e := os.Executable()
	if e != nil {
		exe = os.Args[0]
	}
	args := []string{"dbguard", "--seed", strconv.FormatUint(seed, 10), "--n", strconv.Itoa(n), "--from", strconv.Itoa(from), "--upto", strconv.Itoa(upto), "--only", strconv.Itoa(only),
		"--tier", tier, "--drv", dbArgValue("drv"), "--state", state}
	if bytesOnly {
		args = append(args, "--bytes-only")
	}
	cmd := exec.Command(exe, args...)
	var se bytes.Buffer
	cmd.Stderr = &se
	runErr := cmd.Run()
	if b, e := os.ReadFile(filepath.Join(state, "snap.json")); e == nil {
		var snap dbSnapshot
		if e := json.Unmarshal(b, &snap); e == nil && snap.Res != nil {
			part = snap.Res
			lines = snap.Res.ModelLines
		}
	}
	if runErr == nil {
		return part, lines, false, 0, "", "", nil
	}
	stderr = se.String()
	var ee *exec.ExitError
	if !errors.As(runErr, &ee) {
		return part, lines, false, 0, "", stderr, runErr
	}
	if ee.ExitCode() == 3 {
		return part, lines, false, 0, "", stderr, fmt.Errorf("guarded child: %s", dbTail(stderr, 2000))
	}
	idx = from
	if b, e := os.ReadFile(filepath.Join(state, "cur.txt")); e == nil {
		parts := strings.SplitN(string(b), "\n", 2)
		if k, e := strconv.Atoi(parts[0]); e == nil {
			idx = k
		}
		if len(parts) > 1 {
			trace = parts[1]
		}
	}
	return part, lines, true, idx, trace, stderr, nil
}

func dbTail(s string, n int) string {
	if len(s) > n {
		return "…" + s[len(s)-n:]
	}
	return s
}

// the first lines of a Go panic report: message + the goroutine that panicked
func dbPanicHead(stderr string) (where, head string) {
	i := strings.Index(stderr, "panic: ")
	if i < 0 {
		i = strings.Index(stderr, "fatal error: ")
	}
	if i < 0 {
		return "no-panic-report", dbTail(stderr, 1500)
	}
	head = stderr[i:]
	if len(head) > 1500 {
		head = head[:1500] + "…"
	}
	switch {
	case strings.Contains(head, "flushMemstoreContinuously"):
		where = "flusher-goroutine"
	case strings.Contains(head, "backgroundCompaction"):
		where = "compactor-goroutine"
	default:
		where = "other-goroutine"
	}
	return where, head
}

func dbGuardParent(res *Result, drv *Driver, seed uint64, n int, tier string, only int) error {
	from, deaths := 0, 0
	total := n + dbManyExtra(n)
	for from < total {
		part, lines, died, idx, trace, stderr, err := dbGuardRun(seed, from, -1, n, tier, only, false)
		if part != nil {
			dbMerge(res, part)
			drv.lines += lines
		}
		if err != nil {
			return err
		}
		if !died {
			break
		}
		// the process running session idx was killed
		deaths++
		res.Cases++
		res.Evaluations++
		where, head := dbPanicHead(stderr)
		res.Stat("guard:process-died")
		res.Violate(idx, "C01", "process-killed-by-panic:"+where, head, trace)
		// flavour differential: the same session through the byte flavour only
		bpart, _, bdied, _, _, _, berr := dbGuardRun(seed, idx, idx+1, n, tier, idx, true)
		res.Evaluations++
		if berr == nil && !bdied && bpart != nil && len(bpart.Violations) == 0 && len(bpart.Disagreements) == 0 {
			res.Stat("flavour-differential:bytes-only-session-passes")
			res.Violate(idx, "C17", "flavours-disagree:process-killed-by-panic:"+where,
				"the session with string and byte flavour calls kills the process; the same session with every call made through the byte flavour passes. "+head, trace)
		} else {
			res.Stat("flavour-differential:bytes-only-session-fails-too")
		}
		if only >= 0 || deaths >= 8 {
			if deaths >= 8 {
				res.Stat("guard:gave-up-after-8-deaths")
			}
			break
		}
		from = idx + 1
	}
	return nil
}

// O_DIRECT on the file system the sessions run on (checked once)
var dbDirectIO struct{ checked, ok bool }

func dbDirectIOAvailable() bool {
	if !dbDirectIO.checked {
		ok, err := recordio.IsDirectIOAvailable()
		dbDirectIO.checked, dbDirectIO.ok = true, ok && err == nil
	}
	return dbDirectIO.ok
}

func dbIsNotOpen(err error) bool {
	return errors.Is(err, simpledb.ErrNotOpenedYet) || errors.Is(err, simpledb.ErrAlreadyClosed)
}

// dbOne: one session; a session that fails (violation or disagreement with the model) is run again with every call
// made through the byte flavour (same program otherwise).  If that run is clean the two API flavours disagree: C17.
func dbOne(res *Result, drv *Driver, seed uint64, idx int, tier string) error {
	before := map[string]int{}
	for k, v := range res.Stats {
		if strings.HasPrefix(k, "violation:") || k == "disagreements" {
			before[k] = v
		}
	}
	nv := len(res.Violations)
	session := dbSessionFor(idx)
	if err := session(res, drv, NewRng(seed, uint64(idx)), idx, tier, false); err != nil {
		return err
	}
	trace := dbLastTrace
	// what failed: the signature of the first new violation, else "the model disagrees"
	var sigs []string
	for k, v := range res.Stats {
		if strings.HasPrefix(k, "violation:") && v > before[k] {
			sigs = append(sigs, k[len("violation:"):])
		}
	}
	sort.Strings(sigs)
	first, detail := "", ""
	switch {
	case len(res.Violations) > nv:
		first, detail = res.Violations[nv].Property+":"+res.Violations[nv].Sig, res.Violations[nv].Detail
	case len(sigs) > 0:
		first = sigs[0]
	case res.Stats["disagreements"] > before["disagreements"]:
		first = "disagreement-with-the-model"
	default:
		return nil
	}
	scratch := NewResult("db", seed, tier)
	if err := session(scratch, drv, NewRng(seed, uint64(idx)), idx, tier, true); err != nil {
		return err
	}
	res.Evaluations++
	if len(scratch.Violations) == 0 && len(scratch.Disagreements) == 0 {
		res.Stat("flavour-differential:bytes-only-session-passes")
		res.Violate(idx, "C17", "flavours-disagree:"+first,
			"the session with string and byte flavour calls fails ("+first+" "+detail+"); the same session with every call made through the byte flavour passes", trace)
	} else {
		res.Stat("flavour-differential:bytes-only-session-fails-too")
	}
	return nil
}

// trace of the last session run by dbSession
var dbLastTrace string

func dbSession(res *Result, drv *Driver, r *Rng, idx int, tier string, bytesOnly bool) error {
	dir, err := os.MkdirTemp("", "verif-db-")
	if err != nil {
		return err
	}
	defer os.RemoveAll(dir)
	res.Cases++

	// second generator state for the lifecycle / log-flavour dimensions (C17): sessions that use neither draw
	// exactly what they drew before these dimensions existed
	r2 := &Rng{s: r.s ^ 0x6c6966656379636c}
	r2.Next()
	// lifecycle sessions: rejected calls at every position of a handle's life (before Open, on the open handle,
	// after Close) - the same handle is then opened / a new one is opened and used normally
	lifecycle := r2.Chance(40)
	// log-flavour sessions: every (re-)open chooses how the write-ahead log is written: synchronous (default),
	// asynchronous, or direct I/O + synchronous - the last one cannot append, so EVERY Put / Delete of both
	// flavours is rejected with an error by the log.  (A direct-I/O log writes a whole 4 MiB block per rotation:
	// these sessions are kept few; direct I/O + asynchronous is exercised by the handles stream.)
	walSession := r2.Chance(6)
	// third generator state for the table-layout and string-flavour-probe dimensions (C06, C17), same rule
	r3 := &Rng{s: r.s ^ 0x746f756368696e67}
	r3.Next()
	// layout sessions: the session starts from tables whose key ranges are disjoint / touch in one key / overlap
	touching := r3.Chance(12) && !walSession
	// probe sessions: string-flavour calls on keys that are not in the write memstore, see flavourProbe
	probes := r3.Chance(30) && !walSession
	// fourth generator state for the legacy-table dimension (C01, C06): the session starts from a database directory
	// that an old release left behind, see the legacy block below
	r4 := &Rng{s: r.s ^ 0x6c65676163797630}
	r4.Next()
	legacy := r4.Chance(10) && !walSession && !touching
	if touching {
		res.Stat("case:layout-neighbouring-key-ranges")
	}
	if probes {
		res.Stat("case:string-flavour-probes")
	}
	if lifecycle {
		res.Stat("case:lifecycle-rejected-calls")
	}
	if walSession {
		res.Stat("case:log-flavours")
		if !dbDirectIOAvailable() {
			res.Stat("case:log-flavours:direct-io-unavailable-flavour-skipped")
		}
	}
	walMode := "sync"
	pickWal := func(first bool) {
		pReject := 65 // a rejecting phase mostly follows an accepting one (data to overwrite / delete is there) ...
		if first {
			pReject = 40
		} else if walMode == "direct-sync" {
			pReject = 15 // ... and is mostly followed by an accepting one
		}
		walMode = "sync"
		if !walSession {
			return
		}
		switch k := r2.Intn(100); {
		case k < pReject:
			walMode = "direct-sync"
		case k < pReject+(100-pReject)/3:
			walMode = "async"
		}
		if strings.HasPrefix(walMode, "direct") && !dbDirectIOAvailable() {
			walMode = "sync"
		}
	}
	pickWal(true)

	// key universe: short, long, non-UTF-8
	nk := 3 + r.Intn(5)
	var keys [][]byte
	for i := 0; i < nk; i++ {
		switch r.Intn(6) {
		case 0:
			keys = append(keys, []byte{0xff, 0xfe, byte(i)})
		case 1:
			keys = append(keys, append([]byte("long-key-"), bytesRepeat(byte('a'+i), 40+r.Intn(100))...))
		case 2:
			keys = append(keys, []byte{0x91, 0x8d, 0x4c, byte(i)})
		default:
			keys = append(keys, []byte{byte('a' + i)})
		}
	}
	genVal := func() []byte {
		switch r.Intn(10) {
		case 0:
			return bytesRepeat(byte(r.Next()), 200+r.Intn(4000))
		case 1:
			return []byte{0}
		case 2:
			return append([]byte{0x91, 0x8d, 0x4c}, r.Bytes(5)...)
		default:
			return r.Bytes(1 + r.Intn(30))
		}
	}

	ref := map[string][]byte{}
	inMem := map[string]bool{} // keys with an entry (value or tombstone) in the current write memstore
	var steps []string         // model steps
	var impl []string          // implementation results in the model's output format
	var trace []string         // human readable
	defer func() { dbLastTrace = strings.Join(trace, " ") }()
	flushes, writes := 0, 0
	lastInternal := "none"
	var db *simpledb.DB
	opts := genDbOpts(r)
	lineage := r.Chance(25)
	if lineage {
		// C06 lineage: a big oldest table that the size limit excludes, small newer tables that shadow it
		opts.memstore = 1 << 40
		opts.maxSize = uint64(1000 + r.Intn(2500))
		opts.threshold = r.Intn(2)
		opts.ratioNum, opts.ratioDen = 1, 1
		if r.Chance(30) {
			opts.ratioNum, opts.ratioDen = 1, 2
		}
		if !touching {
			res.Stat("case:lineage-excluding-oldest")
		}
	}
	if touching {
		// as in the lineage sessions: rotations only where the program places them, a size limit that excludes the
		// big tables, a ratio that never selects a table without tombstones
		lineage = false
		opts.memstore = 1 << 40
		opts.maxSize = uint64(1000 + r3.Intn(2500))
		opts.threshold = r3.Intn(2)
		opts.ratioNum, opts.ratioDen = 1, 1
		if r3.Chance(30) {
			opts.ratioNum, opts.ratioDen = 1, 2
		}
	}
	opened := false
	dead := false // the open handle refuses to work: the session cannot go on

	// C17 book-keeping: what the rejected calls of this session would have changed had they taken effect
	// (key -> readings), and which kinds of call were rejected on the current handle before it was opened
	rejEffects := map[string][]string{}
	logRejected := 0
	var handleRejected []string
	noteRejected := func(k []byte, reading string) {
		if len(k) > 0 {
			rejEffects[string(k)] = append(rejEffects[string(k)], reading)
		}
	}

	emit := func(step, result string) {
		steps = append(steps, step)
		impl = append(impl, result)
	}
	// a call through the open handle failed / returned something else than the reference
	failed := func(prop, sig, detail string, err error) {
		if dbIsNotOpen(err) && len(handleRejected) > 0 {
			// the handle was opened successfully after rejected calls and now claims not to be open
			what := "rejected-calls-before-open"
			if handleRejected[0] == "close" {
				what = "rejected-close-before-open"
			}
			res.Violate(idx, "C17", "open-handle-unusable:"+what, fmt.Sprintf("rejected on the fresh handle: %s; then Open() = nil; then %s: %s", strings.Join(handleRejected, "+"), sig, detail), strings.Join(trace, " "))
			dead = true
			return
		}
		res.Violate(idx, prop, sig, detail, strings.Join(trace, " "))
	}
	// rejected calls on a handle that is not open ("fresh": never opened, "closed"): all of them are errors and
	// none may change anything; the model answers `notopen` in its not-open / closed state as well
	probeNotOpen := func(d *simpledb.DB, state string) []string {
		seen := map[string]bool{}
		for i, n := 0, 1+r2.Intn(3); i < n; i++ {
			k := keys[r2.Intn(len(keys))]
			var err error
			var kind string
			switch c := r2.Intn(100); {
			case c < 40:
				kind = "close"
				err = safely(d.Close)
				emit("close", dbRes(err))
			case c < 50 && !bytesOnly:
				kind = "get"
				_, err = d.Get(string(k))
				emit("g:"+gb(k), dbRes(err))
			case c < 60:
				kind = "get"
				_, err = d.GetBytes(k)
				emit("g:"+gb(k), dbRes(err))
			case c < 70 && !bytesOnly:
				kind = "put"
				err = d.Put(string(k), "x")
				emit("ps:"+gb(k)+":78:0", dbRes(err))
				noteRejected(k, "val:78")
			case c < 70:
				kind = "put"
				err = d.PutBytes(k, []byte{0x78})
				emit("pb:"+gb(k)+":78:0", dbRes(err))
				noteRejected(k, "val:78")
			case c < 80:
				kind = "put"
				err = d.PutBytes(k, []byte{0x79})
				emit("pb:"+gb(k)+":79:0", dbRes(err))
				noteRejected(k, "val:79")
			case c < 90 && !bytesOnly:
				kind = "delete"
				err = d.Delete(string(k))
				emit("ds:"+gb(k), dbRes(err))
				noteRejected(k, "notfound")
			default:
				kind = "delete"
				err = d.DeleteBytes(k)
				emit("db:"+gb(k), dbRes(err))
				noteRejected(k, "notfound")
			}
			res.Evaluations++
			res.Stat("lifecycle:" + kind + "-on-" + state + "-handle")
			trace = append(trace, fmt.Sprintf("%s.%s(%x)=%s", state, kind, k, dbRes(err)))
			if err != nil {
				seen[kind] = true
			}
		}
		var kinds []string
		for _, k := range []string{"close", "delete", "get", "put"} {
			if seen[k] {
				kinds = append(kinds, k)
			}
		}
		return kinds
	}
	openDb := func() error {
		mk := func() (*simpledb.DB, error) {
			o := opts.extra()
			switch walMode {
			case "async":
				o = append(o, simpledb.EnableAsyncWAL())
			case "direct-sync":
				o = append(o, simpledb.EnableDirectIOWAL())
			}
			return simpledb.NewSimpleDB(dir, o...)
		}
		d, err := mk()
		if err != nil {
			return err
		}
		handleRejected = nil
		if lifecycle && r2.Chance(60) {
			kinds := probeNotOpen(d, "fresh")
			if r2.Chance(20) {
				// that handle is dropped without ever being opened
				res.Stat("lifecycle:fresh-handle-dropped-after-rejected-calls")
				trace = append(trace, "drop-handle")
				if d, err = mk(); err != nil {
					return err
				}
			} else {
				handleRejected = kinds
				res.Stat("lifecycle:open-after-rejected-calls-on-same-handle")
			}
		}
		if err := d.Open(); err != nil {
			res.Violate(idx, "C01", "open-failed", err.Error(), strings.Join(trace, " "))
			return nil
		}
		db = d
		opened = true
		emit(opts.modelTok(), "-")
		if walSession {
			res.Stat("open:log=" + walMode)
			trace = append(trace, fmt.Sprintf("open(mem=%d,thr=%d,max=%d,ratio=%d/%d,log=%s)", opts.memstore, opts.threshold, opts.maxSize, opts.ratioNum, opts.ratioDen, walMode))
		} else {
			trace = append(trace, fmt.Sprintf("open(mem=%d,thr=%d,max=%d,ratio=%d/%d)", opts.memstore, opts.threshold, opts.maxSize, opts.ratioNum, opts.ratioDen))
		}
		return nil
	}
	// legacy sessions: the database directory already holds 1..3 version-0 tables (sstable_…001, …002, …) when the
	// session opens it: the library's own version-0 test tables (with / without metadata file, with / without bloom
	// filter) and tables of the same layout with keys of the session's universe.  The reference map starts from
	// their content, read through the library's table reader before the database is opened (and checked against
	// what was put there).  The model is given the same content through its own steps (open, puts, rotation, flush
	// per table, close), the implementation column of those steps is filled in by the harness.
	legacyNoMeta := map[string]bool{} // legacy tables without metadata file that no compaction has rewritten yet
	modelOff := false
	if legacy {
		res.Stat("case:legacy-tables")
		src := dbLegacyDir()
		if src == "" {
			res.Stat("legacy:library-test-tables-not-found:synthesised-only")
		}
		if r4.Chance(50) {
			// a legacy table takes part in a cycle when enough tables are candidates
			opts.threshold = []int{-1, 0, 0, 1}[r4.Intn(4)]
		}
		nt := []int{1, 1, 1, 2, 2, 3}[r4.Intn(6)]
		res.Stat(fmt.Sprintf("legacy:tables=%d", nt))
		emit(opts.modelTok(), "-")
		addKey := func(k []byte) {
			for _, o := range keys {
				if bytes.Equal(o, k) {
					return
				}
			}
			keys = append(keys, k)
		}
		for t := 1; t <= nt; t++ {
			name := fmt.Sprintf("%s_%015d", simpledb.SSTablePrefix, t)
			dst := filepath.Join(dir, name)
			var want [][2][]byte
			var what string
			if src != "" && r4.Chance(55) {
				g := dbLegacyGenuine[r4.Intn(len(dbLegacyGenuine))]
				if err := dbCopyDir(filepath.Join(src, g), dst); err != nil {
					return err
				}
				for i := 1; i <= 7; i++ {
					want = append(want, [2][]byte{{0, 0, 0, byte(i)}, {0, 0, 0, byte(i + 1)}})
				}
				what = "library:" + g
				res.Stat("legacy:table:" + what)
			} else {
				sorted := append([][]byte(nil), keys...)
				sort.Slice(sorted, func(i, j int) bool { return bytes.Compare(sorted[i], sorted[j]) < 0 })
				must := r4.Intn(len(sorted))
				for i, k := range sorted {
					if i > 0 && bytes.Equal(k, sorted[i-1]) {
						continue
					}
					if i != must && !r4.Chance(60) {
						continue
					}
					v := r4.Bytes(1 + r4.Intn(30))
					if r4.Chance(12) {
						v = bytesRepeat(byte(r4.Next()), 200+r4.Intn(4000))
					}
					want = append(want, [2][]byte{k, v})
				}
				comp := []int{recordio.CompressionTypeNone, recordio.CompressionTypeSnappy, recordio.CompressionTypeGZIP}[r4.Intn(3)]
				if err := dbWriteLegacyTable(dst, want, comp); err != nil {
					return err
				}
				what = fmt.Sprintf("synthesised:%d-keys:compression=%d", len(want), comp)
				res.Stat("legacy:table:synthesised")
			}
			_, merr := os.Stat(filepath.Join(dst, sstables.MetaFileName))
			hasMeta := merr == nil
			if !hasMeta {
				legacyNoMeta[name] = true
				res.Stat("legacy:table:without-metadata-file")
			} else {
				res.Stat("legacy:table:with-version-0-metadata-file")
			}
			trace = append(trace, fmt.Sprintf("legacy-table[%s=%s]", name, what))
			got, metaRecords, version, err := dbReadTable(dst)
			res.Evaluations++
			same := err == nil && len(got) == len(want) && version == 0
			for i := 0; same && i < len(got); i++ {
				same = bytes.Equal(got[i][0], want[i][0]) && bytes.Equal(got[i][1], want[i][1])
			}
			if !same {
				res.Violate(idx, "C01", "legacy-table:table-reader-disagrees-with-written-content",
					fmt.Sprintf("table reader on %s: err=%v version=%d, %d records, want %d", what, err, version, len(got), len(want)), strings.Join(trace, " "))
				return nil
			}
			if metaRecords == 0 && len(got) > 0 {
				res.Stat("legacy:table:metadata-reports-0-records-for-a-non-empty-table")
			}
			for _, kv := range got {
				addKey(kv[0])
				if _, ok := ref[string(kv[0])]; ok {
					res.Stat("legacy:key-in-several-legacy-tables")
				}
				ref[string(kv[0])] = kv[1]
				emit("pb:"+gb(kv[0])+":"+gb(kv[1])+":0", "ok")
			}
			emit("rot", "-")
			emit("flush", "-")
		}
		emit("close", "ok")
	}
	if err := openDb(); err != nil {
		return err
	}
	if !opened {
		return nil
	}
	// reads one key through the given flavour and checks it against the reference map
	readKey := func(k []byte, useStr bool, ctx string) {
		var got []byte
		var err error
		if useStr {
			var s string
			s, err = db.Get(string(k))
			got = []byte(s)
		} else {
			got, err = db.GetBytes(k)
		}
		out := dbRes(err)
		if err == nil {
			out = "val:" + gb(nonNil(got))
		}
		want := "notfound"
		if v, ok := ref[string(k)]; ok {
			want = "val:" + gb(v)
		}
		res.Evaluations++
		if out != want {
			prop := "C01"
			if strings.HasPrefix(ctx, "compact") {
				prop = "C06"
			}
			detail := fmt.Sprintf("Get%s(%x): want %s got %s", map[bool]string{true: "(string)", false: "Bytes"}[useStr], k, want, out)
			tookEffect := false
			for _, e := range rejEffects[string(k)] {
				tookEffect = tookEffect || e == out
			}
			if tookEffect {
				// the key reads as a call that returned an error would have left it
				res.Violate(idx, "C17", "rejected-call-took-effect:seen-after-"+ctx, detail, strings.Join(trace, " "))
				if ctx != "compact" {
					emit("g:"+gb(k), out)
					return
				}
			}
			failed(prop, "get-mismatch:after-"+ctx, detail, err)
			// the session ends here: handing a memstore that reads wrongly to the flusher may end the process
			dead = true
		}
		emit("g:"+gb(k), out)
	}
	// reads every key of the universe (alternating flavours)
	readAll := func(ctx string) {
		for i, k := range keys {
			if dead {
				return
			}
			readKey(k, (i+len(steps))%2 == 0 && !bytesOnly, ctx)
		}
	}
	// reads every key of the universe through the string flavour, then every key through the byte flavour
	readBoth := func(ctx string) {
		for _, useStr := range []bool{!bytesOnly, false} {
			for _, k := range keys {
				if dead {
					return
				}
				readKey(k, useStr, ctx)
			}
		}
	}
	waitFlush := func() {
		db.VerifWaitFlushIdle()
		emit("flush", "-")
	}
	tablesTok := func() (string, []uint64, error) {
		names, sizes, _, _ := db.VerifTables()
		g, err := gensOf(names)
		return "t:" + g, sizes, err
	}
	rotate := func() {
		trace = append(trace, "rotate")
		dbJournal(trace)
		if err := db.VerifRotate(); err != nil {
			failed("C01", "rotate-failed", err.Error(), err)
		}
		inMem = map[string]bool{}
		emit("rot", "-")
		flushes++
	}
	// one compaction cycle (hook): selection and live tables go to the model, C06 oracles
	compactCycle := func() error {
		waitFlush()
		before, sizes, err := tablesTok()
		if err != nil {
			return err
		}
		emit("tables", before)
		var szs []string
		for _, s := range sizes {
			szs = append(szs, strconv.FormatUint(s, 10))
		}
		if len(legacyNoMeta) > 0 && opts.maxSize == 0 && opts.ratioNum == 0 {
			// a table without metadata file reports 0 records and 0 bytes: with a size limit of 0 and a ratio of 0 the
			// selection (tombstone ratio >= 0 for tables WITH records) passes over it, while the model's tables know
			// their record count.  The model has no metadata-less tables: such a session is checked by the oracles only.
			names, _, _, _ := db.VerifTables()
			for _, n := range names {
				if legacyNoMeta[n] && !modelOff {
					modelOff = true
					res.Stat("legacy:oracle-only:cycle-with-size-limit-0-and-ratio-0-over-a-table-without-metadata")
				}
			}
		}
		dbJournal(append(trace, "compact["+before+"]"))
		var sel []string
		err = safely(func() error {
			var e error
			sel, _, e = db.VerifCompactOnce()
			return e
		})
		res.Evaluations++
		if err != nil {
			res.Violate(idx, "C01", "compaction-failed", err.Error(), strings.Join(trace, " "))
			opened = false
			return nil
		}
		g, err := gensOf(sel)
		if err != nil {
			return err
		}
		emit("compact:"+strings.Join(szs, ";"), "sel:"+g)
		after, _, err := tablesTok()
		if err != nil {
			return err
		}
		emit("tables", after)
		trace = append(trace, fmt.Sprintf("compact[%s→sel %s→%s]", before, g, after))
		for _, n := range sel {
			if legacyNoMeta[n] {
				delete(legacyNoMeta, n)
				res.Stat("legacy:cycle-merged-a-table-without-metadata")
			}
		}
		if legacy && len(sel) > 0 {
			res.Stat("legacy:cycle-merged")
		}
		if len(sel) > 0 {
			res.Stat("op:compact:merged")
			if !strings.HasPrefix(before[2:]+";", g+";") {
				res.Stat("op:compact:excludes-oldest")
			}
		} else {
			res.Stat("op:compact:nothing-selected")
		}
		// C06: the selected tables are a gap-free run in age order
		if len(sel) > 0 && !strings.Contains(";"+before[2:]+";", ";"+g+";") {
			res.Violate(idx, "C06", "selection-not-contiguous", "tables "+before+" selected "+g, strings.Join(trace, " "))
		}
		lastInternal = "compact"
		return nil
	}
	// Close of the open handle; afterwards, in lifecycle sessions, rejected calls on the closed handle
	closeDb := func(k []byte) bool {
		dbJournal(append(trace, "close"))
		err := safely(db.Close)
		inMem = map[string]bool{}
		emit("close", dbRes(err))
		res.Evaluations++
		if err != nil {
			failed("C01", "close-failed", err.Error(), err)
			opened = false
			return false
		}
		opened = false
		trace = append(trace, "close")
		// a closed handle rejects calls
		if r.Chance(30) {
			if bytesOnly {
				_, gerr := db.GetBytes(k)
				emit("g:"+gb(k), dbRes(gerr))
				perr := db.PutBytes(k, []byte{0x78})
				emit("pb:"+gb(k)+":78:0", dbRes(perr))
			} else {
				_, gerr := db.Get(string(k))
				emit("g:"+gb(k), dbRes(gerr))
				perr := db.Put(string(k), "x")
				emit("ps:"+gb(k)+":78:0", dbRes(perr))
			}
			noteRejected(k, "val:78")
		}
		if lifecycle && r2.Chance(60) {
			probeNotOpen(db, "closed")
			if r2.Chance(40) {
				// Open on the closed handle: rejected as well (oracle only: the model's re-open stands for a NEW handle)
				oerr := safely(db.Open)
				res.Stat("lifecycle:open-on-closed-handle")
				res.Evaluations++
				trace = append(trace, "closed.open()="+dbRes(oerr))
				if oerr == nil {
					res.Violate(idx, "C01", "lifecycle:open-accepted-on-closed-handle", "Open() after Close() returned nil", strings.Join(trace, " "))
					dead = true
					return false
				}
			}
		}
		flushes++
		return true
	}

	// accepted writes placed by the layout / probe generators (same book-keeping as the put / delete operations)
	flv := map[bool]string{true: "S", false: "B"}
	doPut := func(k, v []byte, useStr bool) {
		var err error
		if useStr {
			err = db.Put(string(k), string(v))
		} else {
			err = db.PutBytes(k, v)
		}
		res.Stat("op:put")
		res.Evaluations++
		rot := "0"
		if err == nil {
			ref[string(k)] = v
			writes++
			inMem[string(k)] = true
			if db.VerifMemstoreEstimate() == 0 {
				rot = "1"
				inMem = map[string]bool{}
				flushes++
				res.Stat("rotation:size-triggered")
				lastInternal = "flush"
			}
		}
		emit(map[bool]string{true: "ps:", false: "pb:"}[useStr]+gb(k)+":"+gb(v)+":"+rot, dbRes(err))
		trace = append(trace, fmt.Sprintf("put%s(%x,%dB)=%s", flv[useStr], k, len(v), dbRes(err)))
		if err != nil {
			failed("C01", "valid-put-failed", dbRes(err), err)
		}
	}
	doDel := func(k []byte, useStr bool) {
		var err error
		if useStr {
			err = db.Delete(string(k))
		} else {
			err = db.DeleteBytes(k)
		}
		res.Stat("op:delete")
		res.Evaluations++
		emit(map[bool]string{true: "ds:", false: "db:"}[useStr]+gb(k), dbRes(err))
		if err == nil {
			delete(ref, string(k))
			writes++
			if !inMem[string(k)] {
				res.Stat("op:delete:key-outside-write-memstore:" + map[bool]string{true: "string", false: "bytes"}[useStr])
			}
			inMem[string(k)] = true
		}
		trace = append(trace, fmt.Sprintf("del%s(%s)=%s", flv[useStr], gb(k), dbRes(err)))
		if err != nil {
			failed("C01", "delete-failed", dbRes(err), err)
		}
	}
	// close + open again with the same options
	restart := func() error {
		if !closeDb(keys[0]) {
			return nil
		}
		if err := openDb(); err != nil {
			return err
		}
		res.Stat("op:reopen")
		lastInternal = "reopen"
		return nil
	}
	// string-flavour probe (C17): Delete(string) of a key that has no entry in the write memstore (it lives only in
	// tables / in the memstore being flushed, or nowhere), directly followed by string-flavour Get / Delete calls with
	// OTHER keys of the same and of other lengths; then every key is read through both flavours; then the same after
	// a flush and / or a restart.  What the calls must do is what their byte twins do (reference map).
	flavourProbe := func() error {
		var cand [][]byte
		for _, k := range keys {
			if !inMem[string(k)] {
				cand = append(cand, k)
			}
		}
		if len(cand) == 0 || r3.Chance(25) {
			rotate()
			waitFlush()
			trace = append(trace, "waitflush")
			res.Stat("probe:rotation+flush-first")
			cand = keys
		}
		if dead {
			return nil
		}
		k := cand[r3.Intn(len(cand))]
		if _, ok := ref[string(k)]; ok {
			res.Stat("probe:string-delete:key-only-in-tables")
		} else {
			res.Stat("probe:string-delete:key-absent")
		}
		trace = append(trace, "probe{")
		doDel(k, !bytesOnly)
		var others, sameLen [][]byte
		for _, o := range keys {
			if string(o) != string(k) {
				others = append(others, o)
				if len(o) == len(k) {
					sameLen = append(sameLen, o)
				}
			}
		}
		for j, nc := 0, 1+r3.Intn(3); j < nc && !dead; j++ {
			pool := others
			if j == 0 && len(sameLen) > 0 && r3.Chance(70) {
				pool = sameLen
			}
			o := pool[r3.Intn(len(pool))]
			switch {
			case len(o) == len(k):
				res.Stat("probe:follow-up-key:same-length")
			case len(o) < len(k):
				res.Stat("probe:follow-up-key:shorter")
			default:
				res.Stat("probe:follow-up-key:longer")
			}
			if r3.Chance(70) {
				res.Stat("probe:follow-up:get")
				trace = append(trace, fmt.Sprintf("get%s(%x)", flv[!bytesOnly], o))
				readKey(o, !bytesOnly, "string-flavour-probe")
			} else {
				res.Stat("probe:follow-up:delete")
				doDel(o, !bytesOnly)
			}
		}
		trace = append(trace, "readboth")
		readBoth("string-flavour-probe")
		if !dead && r3.Chance(60) {
			rotate()
			waitFlush()
			trace = append(trace, "waitflush", "readboth")
			res.Stat("probe:then-flush")
			readBoth("string-flavour-probe+flush")
		}
		if !dead && r3.Chance(35) {
			if err := restart(); err != nil {
				return err
			}
			if !opened || dead {
				return nil
			}
			trace = append(trace, "readboth")
			res.Stat("probe:then-restart")
			readBoth("string-flavour-probe+restart")
		}
		trace = append(trace, "}")
		return nil
	}
	if legacy {
		// what the old release left behind reads as it was written
		readAll("open-with-legacy-tables")
	}
	if touching {
		// C06 layout: big older tables (excluded by the size limit, no tombstones) below and / or above a run of small
		// tables; the run's smallest / largest key relates to the older table's largest / smallest key as
		// touch (the same key), gap (the next key) or overlap (one key inside); boundary keys are mostly deleted
		// inside the run and always valued in the older tables
		sorted := append([][]byte(nil), keys...)
		sort.Slice(sorted, func(i, j int) bool { return bytes.Compare(sorted[i], sorted[j]) < 0 })
		ns := len(sorted)
		below, above := r3.Chance(70), r3.Chance(50)
		if !below && !above {
			below = true
		}
		b1 := r3.Intn(ns)
		b2 := b1 + r3.Intn(ns-b1)
		rel := func() (string, int) {
			switch c := r3.Intn(100); {
			case c < 60:
				return "touch", 0
			case c < 80:
				return "gap", 1
			}
			return "overlap", -1
		}
		clamp := func(i int) int {
			if i < 0 {
				return 0
			}
			if i >= ns {
				return ns - 1
			}
			return i
		}
		lo, hi := 0, ns-1
		if below {
			name, d := rel()
			lo = clamp(b1 + d)
			res.Stat("layout:older-table-below:" + name)
		} else {
			lo = r3.Intn(b2 + 1)
		}
		if above {
			name, d := rel()
			hi = clamp(b2 - d)
			res.Stat("layout:older-table-above:" + name)
		} else {
			hi = lo + r3.Intn(ns-lo)
		}
		if lo > hi {
			lo, hi = hi, lo
		}
		older := func(from, to, must int, what string) {
			var ks [][]byte
			for i := from; i <= to; i++ {
				if i == must || r3.Chance(50) {
					ks = append(ks, sorted[i])
				}
			}
			big := r3.Intn(len(ks))
			for i, k := range ks {
				v := r3.Bytes(1 + r3.Intn(20))
				if i == big {
					v = r3.Bytes(int(opts.maxSize) + 200 + r3.Intn(800)) // incompressible: the table exceeds the size limit
				}
				doPut(k, v, r3.Chance(50) && !bytesOnly)
			}
			trace = append(trace, "/*"+what+"*/")
			rotate()
		}
		if below && above && r3.Chance(50) {
			older(b2, ns-1, b2, "older-table-above")
			older(0, b1, b1, "older-table-below")
		} else {
			if below {
				older(0, b1, b1, "older-table-below")
			}
			if above {
				older(b2, ns-1, b2, "older-table-above")
			}
		}
		nt := opts.threshold + 1 + r3.Intn(2)
		loAt, hiAt := r3.Intn(nt), r3.Intn(nt)
		for t := 0; t < nt && !dead; t++ {
			nOps := 0
			for i := lo; i <= hi; i++ {
				boundary := i == lo || i == hi
				if !(boundary && (t == loAt && i == lo || t == hiAt && i == hi)) && !r3.Chance(40) {
					continue
				}
				pDel := 50
				if boundary {
					pDel = 75
				}
				if r3.Chance(pDel) {
					doDel(sorted[i], r3.Chance(50) && !bytesOnly)
				} else {
					doPut(sorted[i], r3.Bytes(1+r3.Intn(20)), r3.Chance(50) && !bytesOnly)
				}
				nOps++
			}
			if nOps == 0 {
				doPut(sorted[lo+r3.Intn(hi-lo+1)], r3.Bytes(1+r3.Intn(20)), r3.Chance(50) && !bytesOnly)
			}
			trace = append(trace, "/*run-table*/")
			rotate()
		}
		for _, i := range []int{lo, hi} {
			_, live := ref[string(sorted[i])]
			inOlder := below && i <= b1 || above && i >= b2
			if !live && inOlder {
				res.Stat("layout:boundary-key-deleted-in-run-valued-in-older-table")
			}
		}
		if !dead {
			readAll("flush")
		}
		// the memstore flushed last stays readable (and shadows the tables) until the next rotation or restart:
		// the cycle runs with it, after a rotation of the empty memstore, or after a restart
		switch r3.Intn(3) {
		case 1:
			if !dead {
				res.Stat("layout:cycle-after-empty-rotation")
				rotate()
				waitFlush()
			}
		case 2:
			if !dead {
				res.Stat("layout:cycle-after-restart")
				if err := restart(); err != nil {
					return err
				}
			}
		default:
			res.Stat("layout:cycle-with-flushed-memstore-readable")
		}
		if opened && !dead {
			if err := compactCycle(); err != nil {
				return err
			}
			if opened {
				readAll("compact")
			}
			if opened && !dead {
				rotate()
				waitFlush()
				readAll("compact+rotation")
			}
		}
		if opened && !dead && r3.Chance(60) {
			if err := restart(); err != nil {
				return err
			}
			if opened && !dead {
				readAll("reopen")
			}
			if opened && !dead {
				if err := compactCycle(); err != nil {
					return err
				}
				if opened {
					readAll("compact")
				}
			}
		}
	}
	if lineage {
		// oldest table: large live values for the first two keys
		for i := 0; i < 2 && i < len(keys); i++ {
			v := bytesRepeat(byte('A'+i), 3000+r.Intn(1500))
			err := db.PutBytes(keys[i], v)
			if err != nil && walMode == "direct-sync" {
				logRejected++
				noteRejected(keys[i], "val:"+gb(v))
				res.Stat("op:put:rejected-by-direct-io-log")
				trace = append(trace, fmt.Sprintf("put(%x,%dB)=%s", keys[i], len(v), dbRes(err)))
				continue
			}
			emit("pb:"+gb(keys[i])+":"+gb(v)+":0", dbRes(err))
			if err == nil {
				ref[string(keys[i])] = v
				writes++
			}
			trace = append(trace, fmt.Sprintf("put(%x,%dB)=%s", keys[i], len(v), dbRes(err)))
		}
		_ = db.VerifRotate()
		inMem = map[string]bool{}
		emit("rot", "-")
		flushes++
		trace = append(trace, "rotate")
		readAll("flush")
	}
	nops := 10 + r.Intn(30)
	if tier == "thorough" && r.Chance(20) {
		nops = 60 + r.Intn(100)
	}
	for op := 0; op < nops && opened && !dead; op++ {
		dbJournal(trace)
		k := keys[r.Intn(len(keys))]
		ctx := lastInternal
		c := r.Intn(100)
		if walSession && r2.Chance(10) {
			c = 99 // these sessions close and re-open (with another log flavour) more often
		}
		if probes && r3.Chance(8) {
			if err := flavourProbe(); err != nil {
				return err
			}
			if !opened || dead {
				break
			}
		}
		if lifecycle && r2.Chance(5) {
			// Open on the open handle: rejected, nothing changes (oracle only)
			oerr := safely(db.Open)
			res.Stat("lifecycle:open-on-open-handle")
			res.Evaluations++
			trace = append(trace, "open.open()="+dbRes(oerr))
			if oerr == nil {
				res.Violate(idx, "C01", "lifecycle:second-open-accepted", "Open() on an open handle returned nil", strings.Join(trace, " "))
				dead = true
				break
			}
			readAll("rejected-call")
		}
		switch {
		case c < 38: // put
			v := genVal()
			var err error
			useStr := r.Chance(50) && !bytesOnly
			if useStr {
				err = db.Put(string(k), string(v))
			} else {
				err = db.PutBytes(k, v)
			}
			out := dbRes(err)
			res.Stat("op:put")
			res.Evaluations++
			if err != nil && walMode == "direct-sync" && !dbIsNotOpen(err) {
				// rejected by the log: no effect now or later; the model (whose log accepts everything) is not told
				logRejected++
				noteRejected(k, "val:"+gb(v))
				res.Stat("op:put:rejected-by-direct-io-log")
				if !errors.Is(err, recordio.DirectIOSyncWriteErr) {
					res.Stat("op:put:rejected-by-direct-io-log:other-error")
				}
				trace = append(trace, fmt.Sprintf("put(%x,%s)=rejected-by-log", k, gb(v)))
				ctx = "log-rejected-call"
				break
			}
			rot := "0"
			if err == nil {
				ref[string(k)] = v
				writes++
				inMem[string(k)] = true
				if db.VerifMemstoreEstimate() == 0 {
					rot = "1" // the size limit was exceeded: the memstore was rotated inside the call
					inMem = map[string]bool{}
					flushes++
					res.Stat("rotation:size-triggered")
					lastInternal = "flush"
				}
			}
			if useStr {
				emit("ps:"+gb(k)+":"+gb(v)+":"+rot, out)
			} else {
				emit("pb:"+gb(k)+":"+gb(v)+":"+rot, out)
			}
			trace = append(trace, fmt.Sprintf("put%s(%x,%dB)=%s", map[bool]string{true: "S", false: "B"}[useStr], k, len(v), out))
			if out != "ok" {
				failed("C01", "valid-put-failed", out, err)
			}
		case c < 44: // rejected puts: empty / nil key or value through both flavours
			var kk, vv []byte = k, genVal()
			which := r.Intn(4)
			switch which {
			case 0:
				kk = []byte{}
			case 1:
				vv = []byte{}
			case 2:
				kk = nil
			case 3:
				vv = nil
			}
			var err error
			if which < 2 && r.Chance(50) && !bytesOnly {
				err = db.Put(string(kk), string(vv))
				emit("ps:"+gb(nonNil(kk))+":"+gb(nonNil(vv))+":0", dbRes(err))
			} else {
				err = db.PutBytes(kk, vv)
				emit("pb:"+gb(kk)+":"+gb(vv)+":0", dbRes(err))
			}
			trace = append(trace, fmt.Sprintf("badput(%s,%s)=%s", gb(kk), gb(vv), dbRes(err)))
			res.Stat("op:rejected-put")
			res.Evaluations++
			if !errors.Is(err, simpledb.ErrEmptyKeyValue) {
				res.Violate(idx, "C17", "empty-put-not-rejected", fmt.Sprintf("Put(%s,%s) = %s", gb(kk), gb(vv), dbRes(err)), strings.Join(trace, " "))
			} else {
				noteRejected(kk, "val:"+gb(nonNil(vv)))
			}
			ctx = "rejected-call"
		case c < 58: // delete (sometimes of the empty key: accepted, must delete nothing else)
			kk := k
			if r.Chance(10) {
				kk = []byte{}
			}
			var err error
			useStr := r.Chance(50) && !bytesOnly
			if useStr {
				err = db.Delete(string(kk))
			} else {
				if len(kk) == 0 && r.Chance(50) {
					kk = nil
				}
				err = db.DeleteBytes(kk)
			}
			res.Stat("op:delete")
			res.Evaluations++
			if err != nil && walMode == "direct-sync" && !dbIsNotOpen(err) {
				logRejected++
				noteRejected(kk, "notfound")
				res.Stat("op:delete:rejected-by-direct-io-log")
				trace = append(trace, fmt.Sprintf("del(%s)=rejected-by-log", gb(kk)))
				ctx = "log-rejected-call"
				break
			}
			if useStr {
				emit("ds:"+gb(kk), dbRes(err))
			} else {
				emit("db:"+gb(kk), dbRes(err))
			}
			if err == nil {
				delete(ref, string(kk))
				writes++
				if !inMem[string(kk)] {
					res.Stat("op:delete:key-outside-write-memstore:" + map[bool]string{true: "string", false: "bytes"}[useStr])
				}
				inMem[string(kk)] = true
			}
			trace = append(trace, fmt.Sprintf("del%s(%s)=%s", map[bool]string{true: "S", false: "B"}[useStr], gb(kk), dbRes(err)))
			if err != nil {
				failed("C01", "delete-failed", dbRes(err), err)
			}
		case c < 68: // forced rotation
			rotate()
			res.Stat("op:rotate")
			lastInternal = "flush"
			ctx = "flush"
		case c < 74:
			waitFlush()
			trace = append(trace, "waitflush")
			res.Stat("op:waitflush")
			t, _, err := tablesTok()
			if err != nil {
				return err
			}
			emit("tables", t)
			ctx = "flush"
		case c < 88: // one compaction cycle
			if err := compactCycle(); err != nil {
				return err
			}
			if !opened {
				break
			}
			ctx = "compact"
		default: // close + reopen with other options
			if !closeDb(k) {
				break
			}
			opts = genDbOpts(r)
			if logRejected > 0 {
				res.Stat("op:reopen:after-log-rejected-calls")
			}
			pickWal(false)
			if err := openDb(); err != nil {
				return err
			}
			res.Stat("op:reopen")
			lastInternal = "reopen"
			ctx = "reopen"
		}
		if !opened || dead {
			break
		}
		if ctx == "log-rejected-call" && r2.Chance(20) {
			// the rejected call stays without effect when the (unchanged) memstore is rotated and flushed
			readAll(ctx)
			rotate()
			waitFlush()
			res.Stat("op:rotate+flush:after-log-rejected-call")
			lastInternal = "flush"
			ctx = "log-rejected-call+flush"
		}
		readAll(ctx)
	}
	if opened && !dead && logRejected > 0 {
		// sessions with calls rejected by the log end with a clean restart under DEFAULT log options, a rotation and
		// a flush: the rejected calls stay without effect
		if closeDb(keys[0]) {
			walMode = "sync"
			if err := openDb(); err != nil {
				return err
			}
			if opened {
				res.Stat("final-reopen-with-default-log:after-log-rejected-calls")
				readAll("reopen")
				rotate()
				waitFlush()
				readAll("reopen+flush")
			}
		}
	}
	if opened && !dead {
		if err := safely(db.Close); err != nil {
			failed("C01", "close-failed", err.Error(), err)
		}
	} else if opened && db != nil {
		// an abandoned handle: the flusher finishes what it was handed before the directory is removed
		dbJournal(append(trace, "abandon-handle"))
		_ = safely(func() error { db.VerifWaitFlushIdle(); return nil })
	}
	cs := strings.Join(steps, ",")
	if flushes > 0 && writes > 0 {
		res.NoteNontrivial(cs)
	}
	res.Sample(strings.Join(trace, " "))
	if modelOff {
		return nil
	}
	m, err := drv.Ask("db.run steps=" + cs)
	if err != nil {
		return err
	}
	res.Cmp(idx, "db.run", m, strings.Join(impl, " "), strings.Join(trace, " "))
	return nil
}

// ---------------------------------------------------------------------------------------------
// many-tables sessions (C06, C01): the cases n, n+1, ... of a run.  One database collects a backlog of 70..150 tiny
// tables (compactions run only where the session places them), the oldest tables hold the values of the "old" keys,
// the newest tables their tombstones, the tables in between other keys.  Then compaction cycles run under every kind
// of selection.  The regular sessions never have more than a dozen tables.

// number of regular sessions of the run that is being executed (set by dbLoop)
var dbBaseN int

// dbManyExtra: number of many-tables sessions that follow the n regular ones
func dbManyExtra(n int) int {
	if n <= 0 {
		return 0
	}
	k := 2 + n/60
	if k > 60 {
		k = 60
	}
	return k
}

func dbSessionFor(idx int) func(res *Result, drv *Driver, r *Rng, idx int, tier string, bytesOnly bool) error {
	if idx >= dbBaseN {
		return dbManySession
	}
	return dbSession
}

func dbManySession(res *Result, drv *Driver, r *Rng, idx int, tier string, bytesOnly bool) error {
	dir, err := os.MkdirTemp("", "verif-db-")
	if err != nil {
		return err
	}
	defer os.RemoveAll(dir)
	res.Cases++
	res.Stat("case:many-tables")

	var steps, impl, trace []string
	defer func() { dbLastTrace = strings.Join(trace, " ") }()
	emit := func(step, result string) {
		steps = append(steps, step)
		impl = append(impl, result)
	}
	ref := map[string][]byte{}
	var db *simpledb.DB
	opened, dead := false, false
	writes, flushes := 0, 0

	// key universe: old keys (valued in the oldest tables, deleted in the newest), other keys (the tables in between)
	mkKey := func(i int) []byte {
		switch r.Intn(6) {
		case 0:
			return []byte{0xff, 0xfe, byte(i)}
		case 1:
			return append([]byte("long-key-"), bytesRepeat(byte('a'+i), 40+r.Intn(100))...)
		case 2:
			return []byte{0x91, 0x8d, 0x4c, byte(i)}
		}
		return []byte{byte('a' + i)}
	}
	nOld, nOther := 2+r.Intn(4), 2+r.Intn(3)
	var keys, oldKeys, otherKeys [][]byte
	for i := 0; i < nOld+nOther; i++ {
		k := mkKey(i)
		keys = append(keys, k)
		if i < nOld {
			oldKeys = append(oldKeys, k)
		} else {
			otherKeys = append(otherKeys, k)
		}
	}
	genVal := func() []byte {
		if r.Chance(6) {
			return r.Bytes(300 + r.Intn(600)) // incompressible: a table that a size limit between the table sizes excludes
		}
		return r.Bytes(1 + r.Intn(20))
	}

	// selection kinds
	opts := dbOpts{memstore: 1 << 40, rbuf: 4096, wbuf: 4096}
	ratios := [][2]int{{0, 1}, {1, 4}, {1, 2}, {1, 1}, {1, 5}}
	pickOpts := func(kind int, sizes []uint64, nTables int) string {
		bufs := []int{64, 4096, 1 << 20}
		opts.rbuf, opts.wbuf = uint64(bufs[r.Intn(len(bufs))]), uint64(bufs[r.Intn(len(bufs))])
		rat := ratios[r.Intn(len(ratios))]
		opts.ratioNum, opts.ratioDen = rat[0], rat[1]
		opts.threshold = []int{-1, 0, 1, 3, 10, 64}[r.Intn(6)]
		name := ""
		switch kind {
		case 0: // every table is smaller than the limit
			opts.maxSize = 1 << 30
			name = "size-limit-huge"
		case 1: // no table is smaller than the limit: the tombstone ratio alone decides
			opts.maxSize = uint64(r.Intn(2))
			if r.Chance(70) {
				rat = ratios[1+r.Intn(len(ratios)-1)]
				opts.ratioNum, opts.ratioDen = rat[0], rat[1]
			}
			name = fmt.Sprintf("size-limit-tiny:ratio=%d/%d", opts.ratioNum, opts.ratioDen)
		case 2: // a limit between the table sizes (and at one of them: `<` is strict)
			opts.maxSize = 200
			if len(sizes) > 0 {
				opts.maxSize = sizes[r.Intn(len(sizes))] + uint64(r.Intn(2))
			}
			opts.ratioNum, opts.ratioDen = 1, 1
			if r.Chance(40) {
				opts.ratioNum, opts.ratioDen = 1, 2
			}
			name = "size-limit-between-table-sizes"
		default: // the threshold relates to the number of tables: one below, equal, above
			opts.maxSize = 1 << 30
			opts.threshold = nTables - 1 + r.Intn(3)
			name = "threshold-around-number-of-tables"
		}
		return name
	}
	openDb := func() {
		d, err := simpledb.NewSimpleDB(dir, opts.extra()...)
		if err == nil {
			err = d.Open()
		}
		if err != nil {
			res.Violate(idx, "C01", "open-failed", err.Error(), strings.Join(trace, " "))
			opened = false
			return
		}
		db, opened = d, true
		emit(opts.modelTok(), "-")
		trace = append(trace, fmt.Sprintf("open(thr=%d,max=%d,ratio=%d/%d)", opts.threshold, opts.maxSize, opts.ratioNum, opts.ratioDen))
	}
	readKey := func(k []byte, useStr bool, ctx string) {
		var got []byte
		var err error
		if useStr {
			var s string
			s, err = db.Get(string(k))
			got = []byte(s)
		} else {
			got, err = db.GetBytes(k)
		}
		out := dbRes(err)
		if err == nil {
			out = "val:" + gb(nonNil(got))
		}
		want := "notfound"
		if v, ok := ref[string(k)]; ok {
			want = "val:" + gb(v)
		}
		res.Evaluations++
		if out != want {
			prop := "C01"
			if strings.HasPrefix(ctx, "compact") {
				prop = "C06"
			}
			res.Violate(idx, prop, "get-mismatch:many-tables:after-"+ctx,
				fmt.Sprintf("Get%s(%x): want %s got %s", map[bool]string{true: "(string)", false: "Bytes"}[useStr], k, want, out), strings.Join(trace, " "))
			dead = true
		}
		emit("g:"+gb(k), out)
	}
	readAll := func(ctx string) {
		for i, k := range keys {
			if dead || !opened {
				return
			}
			readKey(k, (i+len(steps))%2 == 0 && !bytesOnly, ctx)
		}
	}
	doPut := func(k []byte) string {
		v := genVal()
		useStr := r.Chance(30) && !bytesOnly
		var err error
		if useStr {
			err = db.Put(string(k), string(v))
		} else {
			err = db.PutBytes(k, v)
		}
		res.Stat("op:put")
		res.Evaluations++
		emit(map[bool]string{true: "ps:", false: "pb:"}[useStr]+gb(k)+":"+gb(v)+":0", dbRes(err))
		if err != nil {
			res.Violate(idx, "C01", "valid-put-failed", dbRes(err), strings.Join(trace, " "))
			dead = true
		} else {
			ref[string(k)] = v
			writes++
		}
		return fmt.Sprintf("+%x:%dB", k[len(k)-1:], len(v))
	}
	doDel := func(k []byte) string {
		useStr := r.Chance(30) && !bytesOnly
		var err error
		if useStr {
			err = db.Delete(string(k))
		} else {
			err = db.DeleteBytes(k)
		}
		res.Stat("op:delete")
		res.Evaluations++
		emit(map[bool]string{true: "ds:", false: "db:"}[useStr]+gb(k), dbRes(err))
		if err != nil {
			res.Violate(idx, "C01", "delete-failed", dbRes(err), strings.Join(trace, " "))
			dead = true
		} else {
			delete(ref, string(k))
			writes++
		}
		return fmt.Sprintf("-%x", k[len(k)-1:])
	}
	rotate := func() {
		dbJournal(trace)
		if err := db.VerifRotate(); err != nil {
			res.Violate(idx, "C01", "rotate-failed", err.Error(), strings.Join(trace, " "))
			dead = true
		}
		emit("rot", "-")
		flushes++
	}
	waitFlush := func() {
		db.VerifWaitFlushIdle()
		emit("flush", "-")
	}
	tablesTok := func() (string, []uint64, int, error) {
		names, sizes, _, _ := db.VerifTables()
		g, err := gensOf(names)
		return "t:" + g, sizes, len(names), err
	}
	// nt tables, one forced rotation each; phase 0: values of the old keys, 1: other keys, 2: tombstones of the old keys
	tableNo := 0
	build := func(nt, phase int) {
		for t := 0; t < nt && !dead; t++ {
			tableNo++
			var ops []string
			for o, no := 0, 1+r.Intn(2); o < no && !dead; o++ {
				var k []byte
				del := false
				switch phase {
				case 0:
					k = oldKeys[(t*2+o)%len(oldKeys)]
					if t*2+o >= len(oldKeys) {
						k = oldKeys[r.Intn(len(oldKeys))]
					}
				case 1:
					k, del = otherKeys[r.Intn(len(otherKeys))], r.Chance(40)
					if r.Chance(3) {
						k, del = oldKeys[r.Intn(len(oldKeys))], r.Chance(50)
					}
				default:
					k, del = oldKeys[r.Intn(len(oldKeys))], true
					if r.Chance(20) {
						k, del = keys[r.Intn(len(keys))], r.Chance(50)
					}
				}
				if del {
					ops = append(ops, doDel(k))
				} else {
					ops = append(ops, doPut(k))
				}
				if !dead {
					readKey(k, r.Chance(30) && !bytesOnly, "write")
				}
			}
			trace = append(trace, fmt.Sprintf("t%d[%s]", tableNo, strings.Join(ops, " ")))
			if dead {
				return
			}
			rotate()
			if r.Chance(10) {
				waitFlush()
			}
			if r.Chance(6) {
				readAll("flush")
			}
		}
	}
	compactCycle := func() error {
		waitFlush()
		before, sizes, _, err := tablesTok()
		if err != nil {
			return err
		}
		emit("tables", before)
		var szs []string
		for _, s := range sizes {
			szs = append(szs, strconv.FormatUint(s, 10))
		}
		dbJournal(append(trace, "compact["+before+"]"))
		var sel []string
		err = safely(func() error {
			var e error
			sel, _, e = db.VerifCompactOnce()
			return e
		})
		res.Evaluations++
		if err != nil {
			res.Violate(idx, "C01", "compaction-failed", err.Error(), strings.Join(trace, " "))
			dead = true
			return nil
		}
		g, err := gensOf(sel)
		if err != nil {
			return err
		}
		emit("compact:"+strings.Join(szs, ";"), "sel:"+g)
		after, _, _, err := tablesTok()
		if err != nil {
			return err
		}
		emit("tables", after)
		short := func(s string) string {
			p := strings.Split(s, ";")
			if len(p) > 6 {
				return fmt.Sprintf("%s;%s;…(%d tables)…;%s", p[0], p[1], len(p), p[len(p)-1])
			}
			return s
		}
		trace = append(trace, fmt.Sprintf("compact[%s→sel %s→%s]", short(before), short(g), short(after)))
		switch {
		case len(sel) == 0:
			res.Stat("many:cycle:nothing-selected")
		default:
			res.Stat("op:compact:merged")
			oldest := strings.HasPrefix(before[2:]+";", g+";")
			res.Stat(fmt.Sprintf("many:cycle:merged:%s:starts-at-oldest=%v", map[bool]string{true: "more-than-64-tables", false: "at-most-64-tables"}[len(sel) > 64], oldest))
			if len(sel) == len(sizes) {
				res.Stat("many:cycle:merged-all-tables")
			}
		}
		if len(sel) > 0 && !strings.Contains(";"+before[2:]+";", ";"+g+";") {
			res.Violate(idx, "C06", "selection-not-contiguous", "tables "+before+" selected "+g, strings.Join(trace, " "))
		}
		return nil
	}
	closeDb := func() {
		dbJournal(append(trace, "close"))
		err := safely(db.Close)
		emit("close", dbRes(err))
		res.Evaluations++
		opened = false
		flushes++
		if err != nil {
			res.Violate(idx, "C01", "close-failed", err.Error(), strings.Join(trace, " "))
			dead = true
			return
		}
		trace = append(trace, "close")
	}

	// the backlog
	total := 70 + r.Intn(81)
	if tier == "thorough" && r.Chance(15) {
		total = 150 + r.Intn(150)
	}
	nValues, nTombs := 1+r.Intn(5), 1+r.Intn(6)
	res.Stat(fmt.Sprintf("many:tables=%d..%d", total/20*20, total/20*20+19))
	firstKind := (idx - dbBaseN) % 4
	if firstKind == 3 {
		firstKind = r.Intn(4)
	}
	kindName := pickOpts(firstKind, nil, total)
	openDb()
	if !opened {
		return nil
	}
	build(nValues, 0)
	build(total-nValues-nTombs, 1)
	build(nTombs, 2)
	for _, k := range oldKeys {
		if _, live := ref[string(k)]; !live {
			res.Stat("many:old-key-deleted-in-newest-tables")
		}
	}
	for round := 0; round < 3 && opened && !dead; round++ {
		if round > 0 {
			// more tables on top of what the last cycle left, then another kind of selection
			build(2+r.Intn(8), 1+r.Intn(2))
			firstKind = r.Intn(4)
		}
		if dead {
			break
		}
		waitFlush()
		readAll("flush")
		// the memstore flushed last stays readable (and shadows the tables) until the next rotation or restart:
		// the cycle runs with it, after a rotation of the empty memstore, or after a restart (with the cycle's options)
		unmask := r.Intn(3)
		if round > 0 || firstKind == 2 {
			unmask = 2
		}
		switch unmask {
		case 1:
			res.Stat("many:cycle-after-empty-rotation")
			trace = append(trace, "rotate-empty")
			rotate()
			waitFlush()
			readAll("flush+rotation")
		case 2:
			res.Stat("many:cycle-after-restart")
			_, sizes, nTables, err := tablesTok()
			if err != nil {
				return err
			}
			closeDb()
			if dead {
				break
			}
			if round > 0 || firstKind == 2 {
				kindName = pickOpts(firstKind, sizes, nTables)
			}
			openDb()
			readAll("reopen")
		default:
			res.Stat("many:cycle-with-flushed-memstore-readable")
		}
		if !opened || dead {
			break
		}
		res.Stat("many:selection:" + strings.SplitN(kindName, ":", 2)[0])
		trace = append(trace, "/*"+kindName+"*/")
		if err := compactCycle(); err != nil {
			return err
		}
		readAll("compact")
		if opened && !dead {
			trace = append(trace, "rotate-empty")
			rotate()
			waitFlush()
			readAll("compact+rotation")
		}
		if opened && !dead && r.Chance(50) {
			// a second cycle under the same options picks up what the first one left
			if err := compactCycle(); err != nil {
				return err
			}
			readAll("compact")
		}
		if opened && !dead && round == 2 {
			closeDb()
			if !dead {
				openDb()
				readAll("compact+reopen")
			}
		}
	}
	if opened && db != nil {
		if dead {
			dbJournal(append(trace, "abandon-handle"))
			_ = safely(func() error { db.VerifWaitFlushIdle(); return nil })
		} else if err := safely(db.Close); err != nil {
			res.Violate(idx, "C01", "close-failed", err.Error(), strings.Join(trace, " "))
		}
	}
	cs := strings.Join(steps, ",")
	if flushes > 0 && writes > 0 {
		res.NoteNontrivial(cs)
	}
	res.Sample(strings.Join(trace, " "))
	m, err := drv.Ask("db.run steps=" + cs)
	if err != nil {
		return err
	}
	res.Cmp(idx, "db.run", m, strings.Join(impl, " "), strings.Join(trace, " "))
	return nil
}

func bytesRepeat(b byte, n int) []byte {
	out := make([]byte, n)
	for i := range out {
		out[i] = b
	}
	return out
}

// ---------------------------------------------------------------------------------------------
// legacy tables (sstables format version 0: every value is a DataEntry message, the index entries carry no value
// checksum; the oldest ones have no meta.pb.bin at all and load with all-zero metadata)

// the library's own version-0 tables (sstables/test_files/v0_compat): two without metadata file (one with a bloom
// filter), two with a version-0 metadata file (one written by recordio v2); every one holds the keys
// 00000001..00000007
var dbLegacyGenuine = []string{"SimpleWriteHappyPathSSTable", "SimpleWriteHappyPathSSTableWithBloom",
	"SimpleWriteHappyPathSSTableWithMetaData", "SimpleWriteHappyPathSSTableRecordIOV2"}

// directory of the library's version-0 tables: next to the source file of the sstables package this binary was
// built from
func dbLegacyDir() string {
	var cands []string
	if f := runtime.FuncForPC(reflect.ValueOf(sstables.NewSSTableReader).Pointer()); f != nil {
		file, _ := f.FileLine(f.Entry())
		cands = append(cands, filepath.Join(filepath.Dir(file), "test_files", "v0_compat"))
	}
	cands = append(cands, "/repo/sstables/test_files/v0_compat")
	for _, c := range cands {
		if st, err := os.Stat(filepath.Join(c, dbLegacyGenuine[0], sstables.IndexFileName)); err == nil && !st.IsDir() {
			return c
		}
	}
	return ""
}

func dbCopyDir(src, dst string) error {
	if err := os.MkdirAll(dst, 0o700); err != nil {
		return err
	}
	ents, err := os.ReadDir(src)
	if err != nil {
		return err
	}
	for _, e := range ents {
		b, err := os.ReadFile(filepath.Join(src, e.Name()))
		if err != nil {
			return err
		}
		if err := os.WriteFile(filepath.Join(dst, e.Name()), b, 0o600); err != nil {
			return err
		}
	}
	return nil
}

// dbWriteLegacyTable writes a version-0 table without metadata file the way the first releases did: data.rio holds
// one DataEntry message per record, index.rio one IndexEntry (key, offset of the data record) per record
func dbWriteLegacyTable(dst string, kvs [][2][]byte, compression int) (err error) {
	if err := os.MkdirAll(dst, 0o700); err != nil {
		return err
	}
	dw, err := rProto.NewWriter(rProto.Path(filepath.Join(dst, sstables.DataFileName)), rProto.CompressionType(compression))
	if err != nil {
		return err
	}
	if err := dw.Open(); err != nil {
		return err
	}
	defer func() { err = errors.Join(err, dw.Close()) }()
	iw, err := rProto.NewWriter(rProto.Path(filepath.Join(dst, sstables.IndexFileName)))
	if err != nil {
		return err
	}
	if err := iw.Open(); err != nil {
		return err
	}
	defer func() { err = errors.Join(err, iw.Close()) }()
	for _, kv := range kvs {
		off, err := dw.Write(&sProto.DataEntry{Value: kv[1]})
		if err != nil {
			return err
		}
		if _, err := iw.Write(&sProto.IndexEntry{Key: kv[0], ValueOffset: off}); err != nil {
			return err
		}
	}
	return nil
}

// dbReadTable: content of a table directory through the library's table reader (full scan, and every scanned key
// looked up again), plus the record count its metadata reports
func dbReadTable(path string) (kvs [][2][]byte, metaRecords uint64, version uint32, err error) {
	rd, err := sstables.NewSSTableReader(sstables.ReadBasePath(path), sstables.ReadWithKeyComparator(skiplist.BytesComparator{}))
	if err != nil {
		return nil, 0, 0, err
	}
	defer func() { err = errors.Join(err, rd.Close()) }()
	metaRecords, version = rd.MetaData().NumRecords, rd.MetaData().Version
	it, err := rd.Scan()
	if err != nil {
		return nil, 0, 0, err
	}
	for {
		k, v, e := it.Next()
		if errors.Is(e, sstables.Done) {
			break
		}
		if e != nil {
			return nil, 0, 0, e
		}
		kvs = append(kvs, [2][]byte{append([]byte{}, k...), append([]byte{}, v...)})
	}
	for _, kv := range kvs {
		g, e := rd.Get(kv[0])
		if e != nil {
			return nil, 0, 0, fmt.Errorf("Get(%x) of a scanned key: %w", kv[0], e)
		}
		if !bytes.Equal(g, kv[1]) {
			return nil, 0, 0, fmt.Errorf("Get(%x) = %x, the scan delivered %x", kv[0], g, kv[1])
		}
	}
	return kvs, metaRecords, version, nil
}
