package main

import (
	"bytes"
	"context"
	"crypto/sha256"
	"encoding/hex"
	"encoding/json"
	"errors"
	"flag"
	"fmt"
	"io"
	"log"
	"os"
	"os/exec"
	"path/filepath"
	"regexp"
	"runtime"
	"sort"
	"strconv"
	"strings"
	"sync"
	"sync/atomic"
	"time"

	"github.com/anishathalye/porcupine"
	"github.com/thomasjungblut/go-sstables/simpledb"

	"verif/harness/cmd/racestress/c18"
)

// ---------------------------------------------------------------------------------------------
// stream "conc" (C05): concurrent histories recorded from the real DB (child process), checked with porcupine
// against a register-per-key model; a sequential witness is then replayed through the Lean L6 model (`db.run`) and
// a micro-step schedule reproducing the recorded history through the Lean L7 model (`conc.exec`).
//
// Next to every recorded history a second child (`c18child`) runs the C18 oracles of package cmd/racestress/c18 in an
// ordinary build: returned slices are held and compared again after later Puts of the same key (single goroutine and
// reader/writer goroutines), fresh table readers get their first value reads from 8-12 goroutines at once.
//
// stream "race" (C18): the stress program cmd/racestress built with -race, run as a child per seed / GOMAXPROCS; it ends
// with the same package c18 under the race detector.

func init() {
	crashChildModes["concchild"] = concChildMain
	crashChildModes["c18child"] = c18ChildMain
	streams["conc"] = runConc
	streams["race"] = runRace
}

type concOp struct {
	T    int    `json:"t"`
	Kind string `json:"kind"` // g | p | d
	Key  string `json:"key"`  // hex
	Val  string `json:"val"`  // hex (puts)
	Out  string `json:"out"`  // ok | notfound | val:<hex> | err:<…>
	Call int64  `json:"call"`
	Ret  int64  `json:"ret"`
}

type concHook struct {
	Kind string `json:"kind"` // rot | wait | compact
	Sel  int    `json:"sel"`  // tables merged by a compaction cycle
	Err  string `json:"err"`
	Call int64  `json:"call"`
	Ret  int64  `json:"ret"`
}

type concHistory struct {
	Threads  int        `json:"threads"`
	Keys     int        `json:"keys"`
	Procs    int        `json:"procs"`
	Memstore uint64     `json:"memstore"`
	Async    bool       `json:"async"`
	Lineage  bool       `json:"lineage"`
	Opts     dbOpts     `json:"-"`
	OptsTok  string     `json:"opts_tok"`
	Ops      []concOp   `json:"ops"`
	Hooks    []concHook `json:"hooks"`
	Tables   int        `json:"tables_at_end"`
	CloseErr string     `json:"close_err"`
	Fresh    bool       `json:"fresh"`   // fresh-database history (concFreshChild)
	Notes    []string   `json:"notes"`   // input classes of a fresh-database history
	Gen2Ms   int        `json:"gen2_ms"` // fresh-database history: time between the first and the second rotation
}

// ---- the recorder (child process): a crash of the library (log.Panicf in a background goroutine) must not take the
// harness down silently

func concChildMain(args []string) int {
	log.SetOutput(io.Discard)
	fs := flag.NewFlagSet("concchild", flag.ExitOnError)
	seed := fs.Uint64("seed", 1, "")
	idx := fs.Uint64("idx", 0, "")
	tier := fs.String("tier", "quick", "")
	out := fs.String("out", "", "")
	fresh := fs.Bool("fresh", false, "")
	_ = fs.Parse(args)
	if *fresh {
		return concFreshChild(*seed, *idx, *tier, *out)
	}
	r := NewRng(*seed, *idx)
	h := concHistory{}
	h.Threads = 2 + r.Intn(7)
	h.Keys = 3 + r.Intn(6)
	total := 1000 + r.Intn(1000)
	if *tier == "thorough" {
		total = 1500 + r.Intn(2500)
		h.Procs = 1 + r.Intn(16)
	} else {
		h.Procs = []int{2, 4, 8}[r.Intn(3)]
	}
	runtime.GOMAXPROCS(h.Procs)
	h.Memstore = uint64([]int{120, 300, 800, 2500}[r.Intn(4)])
	h.Async = !r.Chance(20)
	o := dbOpts{memstore: h.Memstore, rbuf: 4096, wbuf: 4096}
	o.threshold = r.Intn(3)
	o.maxSize = uint64([]int{1 << 20, 1 << 20, 1500, 400}[r.Intn(4)])
	rat := [][2]int{{0, 1}, {1, 4}, {1, 1}, {1, 5}}[r.Intn(4)]
	o.ratioNum, o.ratioDen = rat[0], rat[1]
	h.Lineage = r.Chance(35)
	if h.Lineage {
		// many keys and a tiny memstore: a key is often in neither memstore, so that the ORDER of the tables decides a read
		h.Keys = 8 + r.Intn(5)
		o.memstore = uint64([]int{150, 300}[r.Intn(2)])
		h.Memstore = o.memstore
		// small limit: a merge of a few flushed tables exceeds it, so the merged table is not selected again and the order a
		// compaction cycle installs stays in place for the rest of the run
		o.maxSize = uint64(650 + r.Intn(150))
		o.threshold = r.Intn(2)
		o.ratioNum, o.ratioDen = 1, 1
	}
	h.OptsTok = o.modelTok()
	// the database lives on tmpfs when there is one: a table flush costs several fsyncs on a disk file system, which
	// would bound the number of rotations a quick run can afford (synchronisation is what is observed here, not durability)
	base := ""
	if st, err := os.Stat("/dev/shm"); err == nil && st.IsDir() && r.Chance(85) {
		base = "/dev/shm"
	}
	dir, err := os.MkdirTemp(base, "verif-conc-")
	if err != nil {
		fmt.Fprintln(os.Stderr, "HARNESS", err)
		return 4
	}
	defer os.RemoveAll(dir)
	opts := o.extra()
	if h.Async {
		opts = append(opts, simpledb.EnableAsyncWAL())
	}
	db, err := simpledb.NewSimpleDB(dir, opts...)
	if err != nil {
		fmt.Fprintln(os.Stderr, "HARNESS", err)
		return 4
	}
	if err := db.Open(); err != nil {
		fmt.Fprintln(os.Stderr, "OPEN-FAILED", err)
		return 5
	}
	var keys [][]byte
	for i := 0; i < h.Keys; i++ {
		switch r.Intn(5) {
		case 0:
			keys = append(keys, []byte{0xff, 0xfe, byte(i)})
		case 1:
			keys = append(keys, append([]byte("a-rather-long-key-"), bytesRepeat(byte('a'+i), 30)...))
		default:
			keys = append(keys, []byte{byte('a' + i)})
		}
	}
	var clock int64
	stamp := func() int64 { return atomic.AddInt64(&clock, 1) }
	perThread := total / h.Threads
	recs := make([][]concOp, h.Threads)
	// lineage (35%): before the goroutines start, thread 0 writes one large value per key, so that the oldest tables
	// exceed the compaction size limit and later compactions merge runs that do NOT start at the oldest table while
	// the clients overwrite and delete exactly those keys
	if h.Lineage {
		for i, k := range keys {
			// larger than the size limit on its own: with the tiny memstore every one of these puts rotates, and each of
			// the resulting one-key tables is excluded from compaction by its size
			// (incompressible: the size limit is compared with the size of the compressed data file)
			v := append([]byte(fmt.Sprintf("v0-pre%d-", i)), r.Bytes(int(o.maxSize)+200+r.Intn(500))...)
			op := concOp{T: 0, Kind: "p", Key: hex.EncodeToString(k), Val: hex.EncodeToString(v), Call: stamp()}
			op.Out = dbRes(db.PutBytes(k, v))
			op.Ret = stamp()
			recs[0] = append(recs[0], op)
		}
		hk := concHook{Kind: "rot", Call: stamp()}
		if err := db.VerifRotate(); err != nil {
			hk.Err = err.Error()
		}
		db.VerifWaitFlushIdle()
		hk.Ret = stamp()
		h.Hooks = append(h.Hooks, hk)
		if os.Getenv("VERIF_CONC_DEBUG") != "" {
			n, sz, _, _ := db.VerifTables()
			fmt.Fprintln(os.Stderr, "after preload:", n, sz, o.maxSize)
		}
	}
	var wg sync.WaitGroup
	start := make(chan struct{})
	for t := 0; t < h.Threads; t++ {
		wg.Add(1)
		go func(t int) {
			defer wg.Done()
			rr := NewRng(*seed*7919+*idx, uint64(1000+t))
			serial := 0
			<-start
			for i := 0; i < perThread; i++ {
				k := keys[rr.Intn(len(keys))]
				c := rr.Intn(100)
				if h.Lineage {
					// the first three keys are COLD: read often, written rarely — their last write stays in an old (compacted)
					// table for a long time, so what a read returns depends on where the compaction result was installed
					const cold = 3
					if (c < 45 && rr.Chance(40)) || (c >= 45 && rr.Chance(3)) {
						k = keys[rr.Intn(cold)]
					} else {
						k = keys[cold+rr.Intn(len(keys)-cold)]
					}
				}
				op := concOp{T: t, Key: hex.EncodeToString(k)}
				switch {
				case c < 45:
					op.Kind = "g"
					op.Call = stamp()
					var v []byte
					var err error
					if rr.Chance(50) {
						var s string
						s, err = db.Get(string(k))
						v = []byte(s)
					} else {
						v, err = db.GetBytes(k)
					}
					op.Ret = stamp()
					switch {
					case err == nil:
						op.Out = "val:" + hex.EncodeToString(v)
					case errors.Is(err, simpledb.ErrNotFound):
						op.Out = "notfound"
					default:
						op.Out = "err:" + err.Error()
					}
				case c < 80:
					op.Kind = "p"
					serial++
					v := []byte(fmt.Sprintf("v%d-%d-", t, serial)) // unique: a read identifies its write
					if h.Lineage {
						v = append(v, rr.Bytes(40+rr.Intn(100))...) // incompressible: table sizes follow the contents
					} else {
						v = append(v, bytesRepeat('x', rr.Intn(70))...)
					}
					op.Val = hex.EncodeToString(v)
					op.Call = stamp()
					var err error
					if rr.Chance(50) {
						err = db.Put(string(k), string(v))
					} else {
						err = db.PutBytes(k, v)
					}
					op.Ret = stamp()
					op.Out = dbRes(err)
				default:
					op.Kind = "d"
					op.Call = stamp()
					var err error
					if rr.Chance(50) {
						err = db.Delete(string(k))
					} else {
						err = db.DeleteBytes(k)
					}
					op.Ret = stamp()
					op.Out = dbRes(err)
				}
				recs[t] = append(recs[t], op)
				if rr.Chance(10) {
					runtime.Gosched()
				}
			}
		}(t)
	}
	stop := make(chan struct{})
	var hookWg sync.WaitGroup
	hookWg.Add(1)
	go func() {
		defer hookWg.Done()
		hr := NewRng(*seed*7919+*idx, 999)
		<-start
		for {
			select {
			case <-stop:
				return
			default:
			}
			time.Sleep(time.Duration(hr.Intn(400)) * time.Microsecond)
			hk := concHook{Call: stamp()}
			c := hr.Intn(100)
			if h.Lineage && c >= 75 {
				continue // fewer events: more client calls between two compaction cycles
			}
			switch {
			case c < 35:
				hk.Kind = "rot"
				if err := db.VerifRotate(); err != nil {
					hk.Err = err.Error()
				}
			case c < 50:
				hk.Kind = "wait"
				db.VerifWaitFlushIdle()
			default:
				hk.Kind = "compact"
				if os.Getenv("VERIF_CONC_DEBUG") != "" {
					n, sz, _, _ := db.VerifTables()
					fmt.Fprintln(os.Stderr, "before compaction:", n, sz)
				}
				sel, _, err := db.VerifCompactOnce()
				if os.Getenv("VERIF_CONC_DEBUG") != "" {
					n, sz, _, _ := db.VerifTables()
					fmt.Fprintln(os.Stderr, "  selected", sel, "after:", n, sz)
				}
				hk.Sel = len(sel)
				if err != nil {
					hk.Err = err.Error()
				}
			}
			hk.Ret = stamp()
			h.Hooks = append(h.Hooks, hk)
		}
	}()
	close(start)
	wg.Wait()
	close(stop)
	hookWg.Wait()
	names, _, _, _ := db.VerifTables()
	h.Tables = len(names)
	if err := db.Close(); err != nil {
		h.CloseErr = err.Error()
	}
	for _, rs := range recs {
		h.Ops = append(h.Ops, rs...)
	}
	b, _ := json.Marshal(&h)
	if err := os.WriteFile(*out, b, 0o644); err != nil {
		fmt.Fprintln(os.Stderr, "HARNESS", err)
		return 4
	}
	return 0
}

// ---------------------------------------------------------------------------------------------
// fresh-database histories (C05): the cases n, n+1, ... of a run of stream conc.  The database is NEW (no table on
// disk).  Thread 0 fills the first memstore with 8-32 MiB of incompressible values (its flush takes a while), the
// memstore is rotated, and while the flusher is still writing table 1 the same thread deletes keys of that first
// generation and rotates again (second generation), writes a little more and rotates a third time - now the deleted
// keys are in neither memstore, what a Get returns is decided by the tables alone.  Then all threads read every key
// (and write the other keys) while a hook goroutine forces rotations, flush waits and compaction cycles.  The oracle is
// the one of the other histories: porcupine + witness search + replay through the two Lean models.  Values longer than
// 512 bytes are recorded by their first 24 bytes (unique prefix), their length and a SHA-256 digest (concAbbrev), in
// the Put and in the Get alike.

func concAbbrev(v []byte) string {
	if len(v) <= 512 {
		return hex.EncodeToString(v)
	}
	sum := sha256.Sum256(v)
	return hex.EncodeToString(v[:24]) + fmt.Sprintf("%08x", len(v)) + hex.EncodeToString(sum[:12])
}

// number of fresh-database histories that follow the n regular ones
func concFreshExtra(n int) int {
	if n <= 0 {
		return 0
	}
	return 1 + n/10
}

func concFreshChild(seed, idx uint64, tier, out string) int {
	r := NewRng(seed^0x6672657368646221, idx)
	h := concHistory{Fresh: true}
	h.Threads = 3 + r.Intn(6)
	if tier == "thorough" {
		h.Procs = 1 + r.Intn(16)
	} else {
		h.Procs = []int{2, 4, 8}[r.Intn(3)]
	}
	runtime.GOMAXPROCS(h.Procs)
	// the first rotation: inside the Put that exceeds a 1 MiB memstore, or forced by the hook
	sizeTriggered := r.Chance(50)
	firstMiB := []int{8, 12, 16, 24, 32}[r.Intn(5)]
	o := dbOpts{memstore: 1 << 32, rbuf: 4096}
	if sizeTriggered {
		o.memstore = 1 << 20
	}
	h.Memstore = o.memstore
	o.wbuf = uint64([]int{4096, 1 << 20, 4 << 20}[r.Intn(3)])
	o.threshold = r.Intn(3)
	o.maxSize = uint64([]int{1 << 20, 1 << 30}[r.Intn(2)]) // the big first table is excluded from / takes part in the cycles
	rat := [][2]int{{0, 1}, {1, 4}, {1, 1}, {1, 5}}[r.Intn(4)]
	o.ratioNum, o.ratioDen = rat[0], rat[1]
	h.Async = r.Chance(75)
	h.OptsTok = o.modelTok()
	base := ""
	if st, err := os.Stat("/dev/shm"); err == nil && st.IsDir() && r.Chance(50) {
		base = "/dev/shm"
	}
	dir, err := os.MkdirTemp(base, "verif-conc-fresh-")
	if err != nil {
		fmt.Fprintln(os.Stderr, "HARNESS", err)
		return 4
	}
	defer os.RemoveAll(dir)
	opts := o.extra()
	if h.Async {
		opts = append(opts, simpledb.EnableAsyncWAL())
	}
	db, err := simpledb.NewSimpleDB(dir, opts...)
	if err != nil {
		fmt.Fprintln(os.Stderr, "HARNESS", err)
		return 4
	}
	if err := db.Open(); err != nil {
		fmt.Fprintln(os.Stderr, "OPEN-FAILED", err)
		return 5
	}
	nGen1, nOther := 2+r.Intn(4), 2+r.Intn(3)
	h.Keys = nGen1 + nOther
	var keys [][]byte
	for i := 0; i < h.Keys; i++ {
		switch r.Intn(5) {
		case 0:
			keys = append(keys, []byte{0xff, 0xfe, byte(i)})
		case 1:
			keys = append(keys, append([]byte("a-rather-long-key-"), bytesRepeat(byte('a'+i), 30)...))
		default:
			keys = append(keys, []byte{byte('a' + i)})
		}
	}
	gen1, others := keys[:nGen1], keys[nGen1:]
	var clock int64
	stamp := func() int64 { return atomic.AddInt64(&clock, 1) }
	recs := make([][]concOp, h.Threads)
	note := func(s string) { h.Notes = append(h.Notes, s) }
	serial := 0
	put := func(t int, k []byte, size int) {
		serial++
		v := []byte(fmt.Sprintf("v%d-%d-pre-%016x-", t, serial, r.Next())) // unique: a read identifies its write
		if size > len(v) {
			v = append(v, r.Bytes(size-len(v))...) // incompressible
		}
		op := concOp{T: t, Kind: "p", Key: hex.EncodeToString(k), Val: concAbbrev(v), Call: stamp()}
		var err error
		if r.Chance(50) && size < 1<<20 {
			err = db.Put(string(k), string(v))
		} else {
			err = db.PutBytes(k, v)
		}
		op.Ret = stamp()
		op.Out = dbRes(err)
		recs[t] = append(recs[t], op)
	}
	del := func(t int, k []byte) {
		op := concOp{T: t, Kind: "d", Key: hex.EncodeToString(k), Call: stamp()}
		var err error
		if r.Chance(50) {
			err = db.Delete(string(k))
		} else {
			err = db.DeleteBytes(k)
		}
		op.Ret = stamp()
		op.Out = dbRes(err)
		recs[t] = append(recs[t], op)
	}
	hook := func(kind string) {
		hk := concHook{Kind: kind, Call: stamp()}
		switch kind {
		case "rot":
			if err := db.VerifRotate(); err != nil {
				hk.Err = err.Error()
			}
		case "wait":
			db.VerifWaitFlushIdle()
		}
		hk.Ret = stamp()
		h.Hooks = append(h.Hooks, hk)
	}
	tables := func() int {
		names, _, _, _ := db.VerifTables()
		return len(names)
	}
	// generation 1: every first-generation key gets a value, 8-32 MiB in total
	note(fmt.Sprintf("first-memstore-MiB:%d", firstMiB))
	if sizeTriggered {
		note("first-rotation:size-triggered")
		// small values first (below the limit), then one big value: that Put rotates
		for _, k := range gen1[:nGen1-1] {
			put(0, k, 40+r.Intn(2000))
		}
		put(0, gen1[nGen1-1], firstMiB<<20)
	} else {
		note("first-rotation:forced")
		for _, k := range gen1 {
			put(0, k, (firstMiB<<20)/nGen1)
		}
		hook("rot")
	}
	// generation 2, at once: deletes of first-generation keys (at least one), sometimes a small overwrite
	t0 := time.Now()
	nDel := 0
	for i, k := range gen1 {
		if r.Chance(70) || (i == nGen1-1 && nDel == 0) {
			del(0, k)
			nDel++
		} else if r.Chance(30) {
			put(0, k, 30+r.Intn(60))
		}
	}
	if tables() == 0 {
		note("second-rotation-decided-while-first-flush-runs")
	} else {
		note("second-rotation-decided-after-first-flush")
	}
	if sizeTriggered && r.Chance(70) {
		put(0, others[0], 1<<20+200<<10) // exceeds the 1 MiB limit: rotates
	} else {
		put(0, others[0], 30+r.Intn(60))
		hook("rot")
	}
	h.Gen2Ms = int(time.Since(t0).Milliseconds())
	// generation 3: a little more, third rotation: the second generation leaves the memstore pair
	for _, k := range others[1:] {
		if r.Chance(60) {
			put(0, k, 30+r.Intn(60))
		}
	}
	put(0, others[r.Intn(len(others))], 30+r.Intn(60))
	hook("rot")
	if r.Chance(50) {
		hook("wait")
	}
	// all threads read every key; writes go to the other keys (rarely to a first-generation key)
	perThread := 60 + r.Intn(100)
	var wg sync.WaitGroup
	start := make(chan struct{})
	for t := 0; t < h.Threads; t++ {
		wg.Add(1)
		go func(t int) {
			defer wg.Done()
			rr := NewRng(seed*7919+idx, uint64(5000+t))
			ser := 0
			<-start
			for i := 0; i < perThread; i++ {
				k := keys[rr.Intn(len(keys))]
				c := rr.Intn(100)
				if i < len(gen1) {
					k, c = gen1[(i+t)%len(gen1)], 0 // first of all: every first-generation key
				} else if c >= 75 && !rr.Chance(8) {
					k = others[rr.Intn(len(others))]
				}
				op := concOp{T: t, Key: hex.EncodeToString(k)}
				switch {
				case c < 75:
					op.Kind = "g"
					op.Call = stamp()
					var v []byte
					var err error
					if rr.Chance(50) {
						var s string
						s, err = db.Get(string(k))
						v = []byte(s)
					} else {
						v, err = db.GetBytes(k)
					}
					op.Ret = stamp()
					switch {
					case err == nil:
						op.Out = "val:" + concAbbrev(v)
					case errors.Is(err, simpledb.ErrNotFound):
						op.Out = "notfound"
					default:
						op.Out = "err:" + err.Error()
					}
				case c < 90:
					op.Kind = "p"
					ser++
					v := append([]byte(fmt.Sprintf("v%d-%d-", t, ser)), bytesRepeat('x', rr.Intn(70))...)
					op.Val = hex.EncodeToString(v)
					op.Call = stamp()
					var err error
					if rr.Chance(50) {
						err = db.Put(string(k), string(v))
					} else {
						err = db.PutBytes(k, v)
					}
					op.Ret = stamp()
					op.Out = dbRes(err)
				default:
					op.Kind = "d"
					op.Call = stamp()
					var err error
					if rr.Chance(50) {
						err = db.Delete(string(k))
					} else {
						err = db.DeleteBytes(k)
					}
					op.Ret = stamp()
					op.Out = dbRes(err)
				}
				recs[t] = append(recs[t], op)
				if rr.Chance(10) {
					runtime.Gosched()
				}
			}
		}(t)
	}
	stop := make(chan struct{})
	var hookWg sync.WaitGroup
	hookWg.Add(1)
	go func() {
		defer hookWg.Done()
		hr := NewRng(seed*7919+idx, 4999)
		<-start
		for {
			select {
			case <-stop:
				return
			default:
			}
			time.Sleep(time.Duration(200+hr.Intn(1500)) * time.Microsecond)
			hk := concHook{Call: stamp()}
			switch c := hr.Intn(100); {
			case c < 40:
				hk.Kind = "rot"
				if err := db.VerifRotate(); err != nil {
					hk.Err = err.Error()
				}
			case c < 60:
				hk.Kind = "wait"
				db.VerifWaitFlushIdle()
			default:
				hk.Kind = "compact"
				sel, _, err := db.VerifCompactOnce()
				hk.Sel = len(sel)
				if err != nil {
					hk.Err = err.Error()
				}
			}
			hk.Ret = stamp()
			h.Hooks = append(h.Hooks, hk)
		}
	}()
	close(start)
	wg.Wait()
	close(stop)
	hookWg.Wait()
	h.Tables = tables()
	if err := db.Close(); err != nil {
		h.CloseErr = err.Error()
	}
	for _, rs := range recs {
		h.Ops = append(h.Ops, rs...)
	}
	b, _ := json.Marshal(&h)
	if err := os.WriteFile(out, b, 0o644); err != nil {
		fmt.Fprintln(os.Stderr, "HARNESS", err)
		return 4
	}
	return 0
}

// ---- C18 in stream conc: the held-result and fresh-reader oracles of package cmd/racestress/c18 (the code stream `race`
// runs under the race detector) in an ordinary build, one child process per case; all random choices come from the
// package's own PRNG stream (seed ^ salt), the recorder's cases are unchanged

type c18Out struct {
	Violations []c18.Violation `json:"violations"`
	Stats      map[string]int  `json:"stats"`
	Ops        int64           `json:"ops"`
	Procs      int             `json:"procs"`
	Err        string          `json:"err"`
}

func c18ChildMain(args []string) int {
	log.SetOutput(io.Discard)
	fs := flag.NewFlagSet("c18child", flag.ExitOnError)
	seed := fs.Uint64("seed", 1, "")
	idx := fs.Uint64("idx", 0, "")
	tier := fs.String("tier", "quick", "")
	out := fs.String("out", "", "")
	_ = fs.Parse(args)
	r := NewRng(*seed^0xC18C18C18, *idx)
	o := c18Out{Procs: []int{4, 8, 16}[r.Intn(3)]}
	runtime.GOMAXPROCS(o.Procs)
	held, fresh, rounds, programs := 30*time.Millisecond, 90*time.Millisecond, 150, 2
	if *tier == "thorough" {
		held, fresh, rounds, programs = 300*time.Millisecond, 800*time.Millisecond, 400, 6
	}
	base := ""
	if st, err := os.Stat("/dev/shm"); err == nil && st.IsDir() {
		base = "/dev/shm"
	}
	dir, err := os.MkdirTemp(base, "verif-conc-c18-")
	if err != nil {
		fmt.Fprintln(os.Stderr, "HARNESS", err)
		return 4
	}
	defer os.RemoveAll(dir)
	sink := c18.NewSink()
	// case numbers 1.. : case 0 of a seed is what the stress program of stream `race` runs
	cidx := *idx + 1
	t0 := time.Now()
	lap := func(name string) {
		sink.Stat("ms:"+name, int(time.Since(t0).Milliseconds()))
		t0 = time.Now()
	}
	err = c18.Alias(*seed, cidx, dir, programs, sink)
	lap("alias")
	if err == nil {
		err = c18.Held(*seed, cidx, dir, held, sink)
		lap("held")
	}
	if err == nil {
		err = c18.Fresh(*seed, cidx, dir, fresh, rounds, sink)
		lap("fresh")
	}
	if err != nil {
		o.Err = err.Error()
	}
	o.Violations, o.Stats, o.Ops = sink.Violations, sink.Stats, sink.Ops
	b, _ := json.Marshal(&o)
	if err := os.WriteFile(*out, b, 0o644); err != nil {
		fmt.Fprintln(os.Stderr, "HARNESS", err)
		return 4
	}
	return 0
}

// runs the child and files its findings under C18
func concC18(res *Result, seed uint64, idx int, tier string, tmp string) error {
	out := filepath.Join(tmp, fmt.Sprintf("c18-%d.json", idx))
	cs := fmt.Sprintf("c18child seed=%d idx=%d tier=%s", seed, idx, tier)
	_, stderr, rc, err := runChild(180*time.Second, nil, "", selfExe(), "c18child", "--seed", fmt.Sprint(seed), "--idx", fmt.Sprint(idx), "--tier", tier, "--out", out)
	if err != nil && rc == -1 {
		return err
	}
	if rc == 4 {
		return fmt.Errorf("c18child: %s", tail(stderr, 500))
	}
	if rc != 0 || err != nil {
		sig := "c18child-crashed"
		if m := regexp.MustCompile(`(?m)^(panic|fatal error): ([^\n]{0,80})`).FindStringSubmatch(stderr); m != nil {
			sig = "crash:" + strings.Fields(m[2] + " x")[0]
		}
		if err != nil {
			sig = "c18child-hung"
		}
		res.Violate(idx, "C18", sig, fmt.Sprintf("rc=%d %v stderr: %s", rc, err, tail(stderr, 1500)), cs)
		return nil
	}
	b, err := os.ReadFile(out)
	if err != nil {
		return err
	}
	_ = os.Remove(out)
	var o c18Out
	if err := json.Unmarshal(b, &o); err != nil {
		return err
	}
	if o.Err != "" {
		return fmt.Errorf("c18child: %s", o.Err)
	}
	for k, v := range o.Stats {
		if !strings.HasPrefix(k, "violations:") {
			res.Stats["c18:"+k] += v
		}
	}
	res.Stat(fmt.Sprintf("c18:procs:%d", o.Procs))
	res.Evaluations += int(o.Ops)
	for _, v := range o.Violations {
		res.Violate(idx, "C18", v.Sig, v.Detail, cs+" | "+v.Input)
	}
	return nil
}

// ---- register-per-key model for porcupine

type regState struct{ v string } // "" = absent (values are never empty)

func (s regState) String() string         { return s.v }
func (s regState) Clone() regState        { return s }
func (s regState) Equals(o regState) bool { return s.v == o.v }
func regStep(s regState, in concOp, out string) (bool, regState) {
	switch in.Kind {
	case "g":
		if out == "notfound" {
			return s.v == "", s
		}
		return s.v != "" && out == "val:"+s.v, s
	case "p":
		return out == "ok", regState{in.Val}
	default:
		return out == "ok", regState{""}
	}
}

var regModel = porcupine.Model[regState, concOp, string]{
	Init: func() regState { return regState{} },
	Partition: func(history []porcupine.Operation[concOp, string]) [][]porcupine.Operation[concOp, string] {
		idx := map[string]int{}
		var parts [][]porcupine.Operation[concOp, string]
		for _, op := range history {
			i, ok := idx[op.Input.Key]
			if !ok {
				i = len(parts)
				idx[op.Input.Key] = i
				parts = append(parts, nil)
			}
			parts[i] = append(parts[i], op)
		}
		return parts
	},
	Step:              func(s regState, in concOp, out string) (bool, regState) { return regStep(s, in, out) },
	DescribeOperation: func(in concOp, out string) string { return in.Kind + "(" + in.Key + ")→" + out },
}

// ---- own witness search (Wing–Gong–Lowe) for one key: porcupine does not export the order it found.
// ops must be sorted by Call.  Returns the indices in a linearisation order, or nil.
func linearizeKey(ops []concOp) []int {
	n := len(ops)
	done := make([]bool, n)
	order := make([]int, 0, n)
	memo := map[string]bool{}
	keyOf := func(first int, v string) string {
		last := first
		for i := n - 1; i > first; i-- {
			if done[i] {
				last = i
				break
			}
		}
		var sb strings.Builder
		sb.WriteString(strconv.Itoa(first))
		sb.WriteByte('|')
		for i := first; i <= last; i++ {
			if done[i] {
				sb.WriteByte('1')
			} else {
				sb.WriteByte('0')
			}
		}
		sb.WriteByte('|')
		sb.WriteString(v)
		return sb.String()
	}
	var rec func(first int, st regState) bool
	rec = func(first int, st regState) bool {
		for first < n && done[first] {
			first++
		}
		if first == n {
			return true
		}
		k := keyOf(first, st.v)
		if memo[k] {
			return false
		}
		// candidates: not yet linearised, called before every other unlinearised call has returned
		minRet := int64(1) << 62
		for i := first; i < n && ops[i].Call < minRet; i++ {
			if !done[i] && ops[i].Ret < minRet {
				minRet = ops[i].Ret
			}
		}
		for i := first; i < n && ops[i].Call < minRet; i++ {
			if done[i] {
				continue
			}
			ok, ns := regStep(st, ops[i], ops[i].Out)
			if !ok {
				continue
			}
			done[i] = true
			order = append(order, i)
			if rec(first, ns) {
				return true
			}
			order = order[:len(order)-1]
			done[i] = false
		}
		memo[k] = true
		return false
	}
	if rec(0, regState{}) {
		return order
	}
	return nil
}

// classifies a non-linearizable per-key history (ops sorted by Call)
func classifyNonLin(ops []concOp) string {
	writer := map[string]int{}
	for i, o := range ops {
		if o.Kind == "p" {
			writer[o.Val] = i
		}
	}
	for _, g := range ops {
		if g.Kind != "g" {
			continue
		}
		if strings.HasPrefix(g.Out, "val:") {
			p, ok := writer[g.Out[4:]]
			if !ok {
				return "non-linearizable:get-saw-value-never-written"
			}
			if ops[p].Call > g.Ret {
				return "non-linearizable:get-saw-future-value"
			}
			for _, w := range ops {
				if w.Kind != "g" && w.Call > ops[p].Ret && w.Ret < g.Call {
					if w.Kind == "d" {
						return "non-linearizable:get-saw-deleted-value"
					}
					return "non-linearizable:get-saw-overwritten-value"
				}
			}
		} else if g.Out == "notfound" {
			for _, p := range ops {
				if p.Kind != "p" || p.Ret > g.Call {
					continue
				}
				shadowed := false
				for _, d := range ops {
					if d.Kind == "d" && d.Ret > p.Call && d.Call < g.Ret {
						shadowed = true
					}
				}
				if !shadowed {
					return "non-linearizable:get-missed-a-completed-put"
				}
			}
		}
	}
	return "non-linearizable:other"
}

func concHistString(ops []concOp, max int) string {
	var sb strings.Builder
	for i, o := range ops {
		if i >= max {
			fmt.Fprintf(&sb, "… (%d more)", len(ops)-max)
			break
		}
		v := o.Val
		if len(v) > 16 {
			v = v[:16] + "…"
		}
		out := o.Out
		if len(out) > 24 {
			out = out[:24] + "…"
		}
		fmt.Fprintf(&sb, "[%d,%d] t%d %s(%s%s)=%s; ", o.Call, o.Ret, o.T, o.Kind, o.Key, map[bool]string{true: "," + v, false: ""}[o.Kind == "p"], out)
	}
	return sb.String()
}

func selfExe() string {
	if p, err := os.Executable(); err == nil {
		return p
	}
	return os.Args[0]
}

func runChild(timeout time.Duration, env []string, dir string, name string, args ...string) (stdout, stderr string, rc int, err error) {
	ctx, cancel := context.WithTimeout(context.Background(), timeout)
	defer cancel()
	cmd := exec.CommandContext(ctx, name, args...)
	var so, se bytes.Buffer
	cmd.Stdout, cmd.Stderr = &so, &se
	cmd.Dir = dir
	if env != nil {
		cmd.Env = env
	}
	e := cmd.Run()
	rc = 0
	if e != nil {
		var ee *exec.ExitError
		if errors.As(e, &ee) {
			rc = ee.ExitCode()
		} else {
			return so.String(), se.String(), -1, e
		}
		if ctx.Err() != nil {
			return so.String(), se.String(), rc, fmt.Errorf("timeout after %v", timeout)
		}
	}
	return so.String(), se.String(), rc, nil
}

func tail(s string, n int) string {
	if len(s) > n {
		return "…" + s[len(s)-n:]
	}
	return s
}

// the oracle can fail: three hand-made histories that are NOT linearizable must be rejected by porcupine and by the
// witness search, and classified; one overlapping history that IS linearizable must be accepted
func concSelfTest(res *Result) error {
	mk := func(t int, kind, val, out string, call, ret int64) concOp {
		return concOp{T: t, Kind: kind, Key: "61", Val: val, Out: out, Call: call, Ret: ret}
	}
	cases := []struct {
		name string
		ops  []concOp
		ok   bool
		sig  string
	}{
		{"stale-read-after-delete", []concOp{mk(0, "p", "01", "ok", 1, 2), mk(0, "d", "", "ok", 3, 4), mk(1, "g", "", "val:01", 5, 6)}, false, "non-linearizable:get-saw-deleted-value"},
		{"stale-read-after-overwrite", []concOp{mk(0, "p", "01", "ok", 1, 2), mk(0, "p", "02", "ok", 3, 4), mk(1, "g", "", "val:01", 5, 6)}, false, "non-linearizable:get-saw-overwritten-value"},
		{"missed-put", []concOp{mk(0, "p", "01", "ok", 1, 2), mk(1, "g", "", "notfound", 3, 4)}, false, "non-linearizable:get-missed-a-completed-put"},
		{"overlapping-ok", []concOp{mk(0, "p", "01", "ok", 1, 6), mk(1, "g", "", "notfound", 2, 3), mk(2, "g", "", "val:01", 4, 5), mk(1, "d", "", "ok", 7, 9), mk(2, "g", "", "val:01", 8, 10)}, true, ""},
	}
	for _, c := range cases {
		var pops []porcupine.Operation[concOp, string]
		for _, o := range c.ops {
			pops = append(pops, porcupine.Operation[concOp, string]{ClientId: o.T, Input: o, Call: o.Call, Output: o.Out, Return: o.Ret})
		}
		v := porcupine.CheckOperationsTimeout(regModel, pops, 10*time.Second)
		w := linearizeKey(c.ops)
		res.Evaluations++
		if (v == porcupine.Ok) != c.ok || (w != nil) != c.ok || (!c.ok && classifyNonLin(c.ops) != c.sig) {
			return fmt.Errorf("oracle self-test %q failed: porcupine=%s witness=%v class=%s", c.name, v, w, classifyNonLin(c.ops))
		}
		res.Stat("selftest:" + c.name)
	}
	return nil
}

func runConc(res *Result, drv *Driver, seed uint64, n int, tier string, only int) error {
	res.Rule = "recorded concurrent histories of the real DB (child process): 2–8 client goroutines issuing Get/Put/Delete (string and byte flavours) with unique values on 3–8 keys, " +
		"tiny memstore (size-triggered rotations), a hook goroutine forcing rotations / flush waits / compaction cycles; checked with porcupine (register per key, partitioned); " +
		"a sequential witness is replayed through the Lean L6 model and a lock-admissible micro-step schedule reproducing the recorded invocation/response order, with random background " +
		"micro-steps injected, through the Lean L7 model; non-trivial = overlapping calls and at least one rotation or compaction during the run; distinct = distinct histories; " +
		"C18 part (child c18child per case, package cmd/racestress/c18 in an ordinary build): deterministic Get/Put/Delete programs on a memstore and a DB handle whose returned slices " +
		"(and Put arguments) are compared again after every later step, readers holding results while writers overwrite the same keys, and a small table re-opened with every read " +
		"option combination with 8-12 goroutines issuing their first value reads on the fresh reader behind a start barrier; " +
		"after the n regular histories 1 + n/10 FRESH-DATABASE histories: a new database whose first memstore holds 8-32 MiB of incompressible values (slow first flush; first rotation " +
		"size-triggered or forced), at once deletes of keys of that first generation and a second rotation (decided while the first flush is still running), a third rotation, then 3-8 goroutines " +
		"reading every key and writing the other keys with the hook goroutine running; same oracles (values above 512 bytes recorded by prefix, length and SHA-256)"
	tmp, err := os.MkdirTemp("", "verif-conc-parent-")
	if err != nil {
		return err
	}
	defer os.RemoveAll(tmp)
	if err := concSelfTest(res); err != nil {
		return err
	}
	// the C18 part of every case runs in its own child next to the recorders (two at a time); the findings are merged in
	// case order afterwards
	subs := make([]*Result, n)
	suberr := make([]error, n)
	work := make(chan int, n)
	for idx := 0; idx < n; idx++ {
		if only < 0 || idx == only {
			work <- idx
		}
	}
	close(work)
	var c18wg sync.WaitGroup
	for w := 0; w < 2; w++ {
		c18wg.Add(1)
		go func() {
			defer c18wg.Done()
			for idx := range work {
				subs[idx] = NewResult("conc-c18", seed, tier)
				suberr[idx] = concC18(subs[idx], seed, idx, tier, tmp)
			}
		}()
	}
	var firstErr error
	for idx := 0; idx < n && firstErr == nil; idx++ {
		if only >= 0 && idx != only {
			continue
		}
		firstErr = concOne(res, drv, seed, idx, tier, tmp, false)
	}
	// fresh-database histories (recorder + linearizability oracle + model replays; no C18 part)
	for idx := n; idx < n+concFreshExtra(n) && firstErr == nil; idx++ {
		if only >= 0 && idx != only {
			continue
		}
		firstErr = concOne(res, drv, seed, idx, tier, tmp, true)
	}
	c18wg.Wait()
	if firstErr != nil {
		return firstErr
	}
	for idx, sub := range subs {
		if sub == nil {
			continue
		}
		if suberr[idx] != nil {
			return suberr[idx]
		}
		for k, v := range sub.Stats {
			res.Stats[k] += v
		}
		res.Evaluations += sub.Evaluations
		for _, v := range sub.Violations { // at most three examples per signature (the counts are in the statistics)
			k := 0
			for _, w := range res.Violations {
				if w.Property == v.Property && w.Sig == v.Sig {
					k++
				}
			}
			if k < 3 {
				res.Violations = append(res.Violations, v)
			}
		}
	}
	return nil
}

func concOne(res *Result, drv *Driver, seed uint64, idx int, tier string, tmp string, fresh bool) error {
	res.Cases++
	tPhase := time.Now()
	phase := func(name string) {
		res.Stats["ms:"+name] += int(time.Since(tPhase).Milliseconds())
		tPhase = time.Now()
	}
	out := filepath.Join(tmp, fmt.Sprintf("hist-%d.json", idx))
	childArgs := []string{"concchild", "--seed", fmt.Sprint(seed), "--idx", fmt.Sprint(idx), "--tier", tier, "--out", out}
	if fresh {
		childArgs = append(childArgs, "--fresh")
	}
	_, stderr, rc, err := runChild(180*time.Second, nil, "", selfExe(), childArgs...)
	if err != nil && rc == -1 {
		return err
	}
	if rc == 4 {
		return fmt.Errorf("recorder: %s", tail(stderr, 500))
	}
	if rc != 0 || err != nil {
		sig := "recorder-crashed"
		if m := regexp.MustCompile(`panic: ([^\n]{0,60})`).FindStringSubmatch(stderr); m != nil {
			sig = "recorder-crashed:" + strings.Fields(m[1] + " x")[0]
		}
		if err != nil {
			sig = "recorder-hung"
		}
		res.Violate(idx, "C05", sig, fmt.Sprintf("rc=%d %v stderr: %s", rc, err, tail(stderr, 1500)), fmt.Sprintf("concchild seed=%d idx=%d tier=%s fresh=%v", seed, idx, tier, fresh))
		return nil
	}
	phase("recorder")
	b, err := os.ReadFile(out)
	if err != nil {
		return err
	}
	_ = os.Remove(out)
	var h concHistory
	if err := json.Unmarshal(b, &h); err != nil {
		return err
	}
	cs := fmt.Sprintf("threads=%d keys=%d procs=%d memstore=%d async=%v %s ops=%d hooks=%d", h.Threads, h.Keys, h.Procs, h.Memstore, h.Async, h.OptsTok, len(h.Ops), len(h.Hooks))
	if h.Fresh {
		cs = "fresh-database[" + strings.Join(h.Notes, ",") + fmt.Sprintf(",ms-between-rotation-1-and-2:%d] ", h.Gen2Ms) + cs
		res.Stat("case:fresh-database-slow-first-flush")
		for _, nt := range h.Notes {
			res.Stat("fresh:" + nt)
		}
	}
	res.Stat(fmt.Sprintf("threads:%d", h.Threads))
	res.Stat(fmt.Sprintf("procs:%d", h.Procs))
	res.Stat(fmt.Sprintf("memstore:%d", h.Memstore))
	if h.Lineage {
		res.Stat("case:lineage-excluding-oldest")
	}
	rot, comp := 0, 0
	for _, hk := range h.Hooks {
		res.Stats["hook:"+hk.Kind]++
		if hk.Kind == "rot" {
			rot++
		}
		if hk.Kind == "compact" && hk.Sel > 0 {
			comp++
			res.Stats["hook:compact:merged"]++
		}
		if hk.Err != "" {
			res.Violate(idx, "C05", "hook-failed:"+hk.Kind, hk.Err, cs)
		}
	}
	if h.CloseErr != "" {
		res.Violate(idx, "C05", "close-failed", h.CloseErr, cs)
	}
	sort.SliceStable(h.Ops, func(i, j int) bool { return h.Ops[i].Call < h.Ops[j].Call })
	// every accepted call must succeed
	for _, o := range h.Ops {
		res.Stats["op:"+o.Kind]++
		bad := (o.Kind != "g" && o.Out != "ok") || (o.Kind == "g" && o.Out != "notfound" && !strings.HasPrefix(o.Out, "val:"))
		if bad {
			res.Violate(idx, "C05", "op-failed:"+o.Kind, concHistString([]concOp{o}, 1), cs)
			return nil
		}
	}
	// overlap statistics
	overlaps := 0
	maxRet := int64(0)
	for _, o := range h.Ops {
		if o.Call < maxRet {
			overlaps++
		}
		if o.Ret > maxRet {
			maxRet = o.Ret
		}
	}
	res.Stats["ops:overlapping-an-earlier-call"] += overlaps
	res.Stats["ops:total"] += len(h.Ops)
	res.Stats["tables-at-end"] += h.Tables

	// 1. porcupine
	var pops []porcupine.Operation[concOp, string]
	for _, o := range h.Ops {
		pops = append(pops, porcupine.Operation[concOp, string]{ClientId: o.T, Input: o, Call: o.Call, Output: o.Out, Return: o.Ret})
	}
	verdict := porcupine.CheckOperationsTimeout(regModel, pops, 120*time.Second)
	res.Evaluations++
	res.Stat("porcupine:" + string(verdict))
	phase("porcupine")
	// per-key witness
	byKey := map[string][]int{}
	var keyOrder []string
	for i, o := range h.Ops {
		if _, ok := byKey[o.Key]; !ok {
			keyOrder = append(keyOrder, o.Key)
		}
		byKey[o.Key] = append(byKey[o.Key], i)
	}
	perKey := map[string][]int{}
	for _, k := range keyOrder {
		var ops []concOp
		for _, i := range byKey[k] {
			ops = append(ops, h.Ops[i])
		}
		ord := linearizeKey(ops)
		if ord == nil {
			if verdict == porcupine.Ok {
				return fmt.Errorf("case %d: porcupine accepts key %s but the witness search fails", idx, k)
			}
			res.Violate(idx, "C05", classifyNonLin(ops), "history of key "+k+": "+concHistString(ops, 400), cs)
			return nil
		}
		for _, j := range ord {
			perKey[k] = append(perKey[k], byKey[k][j])
		}
	}
	if verdict == porcupine.Illegal {
		return fmt.Errorf("case %d: porcupine rejects the history but every key has a witness", idx)
	}
	if verdict != porcupine.Ok {
		return fmt.Errorf("case %d: porcupine timed out", idx)
	}
	// 2. global witness: repeatedly take, among the heads of the per-key orders, the call invoked first (locality)
	var witness []int
	head := map[string]int{}
	for len(witness) < len(h.Ops) {
		best := -1
		bk := ""
		for _, k := range keyOrder {
			if head[k] < len(perKey[k]) {
				i := perKey[k][head[k]]
				if best < 0 || h.Ops[i].Call < h.Ops[best].Call {
					best, bk = i, k
				}
			}
		}
		witness = append(witness, best)
		head[bk]++
	}
	phase("witness")
	pos := make([]int, len(h.Ops))
	for p, i := range witness {
		pos[i] = p
	}
	for i := range h.Ops { // real time is respected (cheap O(n·threads) check of the construction)
		for j := i + 1; j < len(h.Ops) && j < i+4*h.Threads; j++ {
			if h.Ops[i].Ret < h.Ops[j].Call && pos[i] > pos[j] {
				return fmt.Errorf("case %d: merged witness violates real time", idx)
			}
		}
	}
	if overlaps > 0 && rot+comp > 0 {
		hsum := fmt.Sprint(len(h.Ops), h.Ops[len(h.Ops)/2], h.Threads, h.OptsTok)
		res.NoteNontrivial(hsum)
	}
	if len(res.Samples) < 3 {
		res.Sample(cs + " | " + concHistString(h.Ops[:min(6, len(h.Ops))], 6))
	}
	r := NewRng(seed*31+7, uint64(idx))
	tok := func(hexs string) string {
		if hexs == "" {
			return "."
		}
		return hexs
	}
	// 3. the witness through the L6 model; forced rotations are placed where the hook called them
	{
		steps := []string{h.OptsTok}
		impl := []string{"-"}
		hk := 0
		for _, i := range witness {
			o := h.Ops[i]
			for hk < len(h.Hooks) && h.Hooks[hk].Call < o.Call {
				if h.Hooks[hk].Kind == "rot" {
					steps = append(steps, "rot")
					impl = append(impl, "-")
				} else if h.Hooks[hk].Kind == "wait" {
					steps = append(steps, "flush")
					impl = append(impl, "-")
				}
				hk++
			}
			switch o.Kind {
			case "g":
				steps = append(steps, "g:"+tok(o.Key))
			case "p":
				steps = append(steps, "pb:"+tok(o.Key)+":"+tok(o.Val)+":"+strconv.Itoa(r.Intn(2)))
			default:
				steps = append(steps, "db:"+tok(o.Key))
			}
			impl = append(impl, o.Out)
		}
		m, err := drv.Ask("db.run steps=" + strings.Join(steps, ","))
		if err != nil {
			return err
		}
		res.Evaluations += len(witness)
		res.Cmp(idx, "db.run(sequential witness)", m, strings.Join(impl, " "), cs)
		phase("lean-db.run")
	}
	// 4. a lock-admissible micro-step schedule with the recorded invocation/response order through the L7 model
	{
		type ev struct {
			stamp int64
			op    int
			call  bool
		}
		var evs []ev
		for i, o := range h.Ops {
			evs = append(evs, ev{o.Call, i, true}, ev{o.Ret, i, false})
		}
		sort.Slice(evs, func(a, b int) bool { return evs[a].stamp < evs[b].stamp })
		var sched []string
		emit := func(t string) int { sched = append(sched, t); return len(sched) - 1 }
		invoked := make([]bool, len(h.Ops))
		lin := make([]bool, len(h.Ops))
		invIdx := make([]int, len(h.Ops))
		var pendingRm []int // threads between readTables and readMem
		selected := false
		flushReaders := func() {
			for _, t := range pendingRm {
				emit(fmt.Sprintf("rm:%d", t))
			}
			pendingRm = nil
		}
		rmOf := func(t int) {
			for i, x := range pendingRm {
				if x == t {
					emit(fmt.Sprintf("rm:%d", t))
					pendingRm = append(pendingRm[:i], pendingRm[i+1:]...)
					return
				}
			}
		}
		j := 0
		linearize := func() {
			o := h.Ops[witness[j]]
			if o.Kind == "g" {
				emit(fmt.Sprintf("rt:%d", o.T))
				pendingRm = append(pendingRm, o.T)
				if r.Chance(40) {
					rmOf(o.T)
				}
			} else {
				flushReaders()
				emit(fmt.Sprintf("w:%d:%d", o.T, r.Intn(2)))
			}
			lin[witness[j]] = true
			j++
		}
		background := func() {
			switch c := r.Intn(100); {
			case c < 12:
				emit("ar")
				res.Stats["l7:addReader"]++
			case c < 16:
				flushReaders()
				emit("hrot")
				res.Stats["l7:hookRotate"]++
			case c < 22:
				if !selected {
					var sz []string
					for k := r.Intn(7); k > 0; k-- {
						sz = append(sz, strconv.Itoa([]int{0, 10, 10, 200, 5000}[r.Intn(5)]))
					}
					emit("sel:" + strings.Join(sz, ";"))
					selected = true
				} else {
					flushReaders()
					emit("refl")
					selected = false
					res.Stats["l7:reflect"]++
				}
			}
		}
		var want []string
		for _, e := range evs {
			background()
			o := h.Ops[e.op]
			if e.call {
				switch o.Kind {
				case "g":
					invIdx[e.op] = emit(fmt.Sprintf("i:%d:g:%s", o.T, tok(o.Key)))
				case "p":
					invIdx[e.op] = emit(fmt.Sprintf("i:%d:p:%s:%s", o.T, tok(o.Key), tok(o.Val)))
				default:
					invIdx[e.op] = emit(fmt.Sprintf("i:%d:d:%s", o.T, tok(o.Key)))
				}
				invoked[e.op] = true
				for j < len(witness) && invoked[witness[j]] && r.Chance(45) { // take effect early
					linearize()
				}
				continue
			}
			for !lin[e.op] { // … or as late as possible
				if !invoked[witness[j]] {
					return fmt.Errorf("case %d: witness order is not realisable", idx)
				}
				linearize()
			}
			if len(pendingRm) > 1 {
				res.Stats["l7:overlapping-readers"]++
			}
			rmOf(o.T)
			at := emit(fmt.Sprintf("r:%d", o.T))
			want = append(want, fmt.Sprintf("%d:%d:%d:%s", o.T, invIdx[e.op], at, o.Out))
		}
		m, err := drv.Ask("conc.exec opts=" + strings.TrimPrefix(h.OptsTok, "open:") + " sched=" + strings.Join(sched, ","))
		if err != nil {
			return err
		}
		if i := strings.Index(m, " | "); i >= 0 {
			m = m[:i]
		}
		res.Evaluations += len(want)
		res.Cmp(idx, "conc.exec(micro-step schedule)", m, "ok "+strings.Join(want, " "), cs)
		phase("lean-conc.exec")
	}
	return nil
}

// ---------------------------------------------------------------------------------------------
// stream "race"

func harnessDir() string {
	if d := os.Getenv("VERIF_HARNESS"); d != "" {
		return d
	}
	cands := []string{}
	// the module this binary was built from (…/harness/cmd/sstcheck/conc.go): the stress program must link the same
	// library as the running binary (go.mod's replace directive), also when the harness is a scratch copy
	if _, file, _, ok := runtime.Caller(0); ok && filepath.IsAbs(file) {
		cands = append(cands, filepath.Dir(filepath.Dir(filepath.Dir(file))))
	}
	if exe, err := os.Executable(); err == nil {
		cands = append(cands, filepath.Join(filepath.Dir(exe), "harness"), filepath.Join(filepath.Dir(filepath.Dir(exe)), "harness"))
	}
	if wd, err := os.Getwd(); err == nil {
		cands = append(cands, filepath.Join(wd, "harness"), wd)
	}
	cands = append(cands, "/verif/harness")
	for _, c := range cands {
		if _, err := os.Stat(filepath.Join(c, "cmd", "racestress", "main.go")); err == nil {
			return c
		}
	}
	return "/verif/harness"
}

var raceFrame = regexp.MustCompile(`(?m)^  ([A-Za-z0-9_./*()\-\[\]·]+)\(`)

// the function names at the top of the two stacks of the first race report
func raceSig(stderr string) string {
	i := strings.Index(stderr, "WARNING: DATA RACE")
	if i < 0 {
		return "race:unparsed"
	}
	rep := stderr[i:]
	if j := strings.Index(rep, "=================="); j > 0 {
		rep = rep[:j]
	}
	var tops []string
	for _, block := range strings.Split(rep, "\n\n") {
		if strings.Contains(block, " by goroutine") || strings.Contains(block, "by main goroutine") {
			if m := raceFrame.FindStringSubmatch(block); m != nil && !strings.HasPrefix(strings.TrimSpace(block), "Goroutine") {
				f := m[1]
				f = f[strings.LastIndex(f, "/")+1:]
				tops = append(tops, f)
			}
		}
		if len(tops) == 2 {
			break
		}
	}
	sort.Strings(tops)
	return "race:" + strings.Join(tops, "|")
}

func runRace(res *Result, drv *Driver, seed uint64, n int, tier string, only int) error {
	res.Rule = "cmd/racestress built with `go build -race -tags verif`, one child process per (seed, GOMAXPROCS): N goroutines each hammer one SimpleDB handle (Get/Put/Delete + hook goroutine), " +
		"one SSTableReader (Get/Contains/ScanRange/ScanStartingAt) and one MMapReader (ReadNextAt/SeekNext) at the same time; every result is compared with the single-threaded answer computed beforehand; " +
		"afterwards (mode c18, package cmd/racestress/c18) returned slices are held and compared again while/after other goroutines overwrite the same keys, and a table is re-opened with every read option " +
		"combination with 8-12 goroutines issuing their first value reads on the fresh reader behind a start barrier; " +
		"a race report, a panic / crash or a wrong answer is a violation; non-trivial = all three handles exercised with forced rotations and merged compactions; distinct = distinct (seed, procs)"
	tmp, err := os.MkdirTemp("", "verif-race-")
	if err != nil {
		return err
	}
	defer os.RemoveAll(tmp)
	bin := filepath.Join(tmp, "racestress")
	env := os.Environ()
	if os.Getenv("GOFLAGS") == "" {
		env = append(env, "GOFLAGS=-mod=mod")
	}
	if os.Getenv("GOPROXY") == "" {
		env = append(env, "GOPROXY=off")
	}
	t0 := time.Now()
	_, berr, rc, err := runChild(15*time.Minute, env, harnessDir(), "go", "build", "-race", "-tags", "verif", "-o", bin, "./cmd/racestress")
	if err != nil || rc != 0 {
		return fmt.Errorf("building the stress program with -race failed (rc=%d, %v): %s", rc, err, tail(berr, 1500))
	}
	res.Stats["build-race-ms"] = int(time.Since(t0).Milliseconds())
	dur := 4 * time.Second
	procsList := []int{4, 2, 8}
	if tier == "thorough" {
		dur = 20 * time.Second
		procsList = []int{1, 2, 3, 4, 6, 8, 12, 16}
	}
	for idx := 0; idx < n; idx++ {
		if only >= 0 && idx != only {
			continue
		}
		res.Cases++
		procs := procsList[idx%len(procsList)]
		workers := []int{4, 6, 8}[(idx/len(procsList))%3]
		cs := fmt.Sprintf("racestress -seed %d -dur %v -workers %d -procs %d", seed*1000+uint64(idx), dur, workers, procs)
		cenv := append(os.Environ(), "GORACE=halt_on_error=0 exitcode=66")
		stdout, stderr, rc, err := runChild(dur*6+3*time.Minute, cenv, tmp, bin, "-seed", fmt.Sprint(seed*1000+uint64(idx)), "-dur", dur.String(),
			"-workers", fmt.Sprint(workers), "-procs", fmt.Sprint(procs))
		if err != nil && strings.Contains(err.Error(), "timeout") && !strings.Contains(stderr, "WARNING: DATA RACE") {
			// a race-instrumented program on an overloaded machine can exceed the limit without hanging: only a hang that
			// shows again with three times the limit is reported
			res.Stat("stress-program-timeout:retried-once-with-longer-limit")
			stdout, stderr, rc, err = runChild(3*(dur*6+3*time.Minute), cenv, tmp, bin, "-seed", fmt.Sprint(seed*1000+uint64(idx)), "-dur", dur.String(),
				"-workers", fmt.Sprint(workers), "-procs", fmt.Sprint(procs))
		}
		res.Stat(fmt.Sprintf("procs:%d", procs))
		modes := 0
		rotations, compactions := 0.0, 0.0
		for _, line := range strings.Split(stdout, "\n") {
			switch {
			case strings.HasPrefix(line, "STAT "):
				var m map[string]any
				if json.Unmarshal([]byte(line[5:]), &m) == nil {
					mode, _ := m["mode"].(string)
					ops, _ := m["ops"].(float64)
					res.Stats["ops:"+mode] += int(ops)
					res.Evaluations += int(ops)
					if mode == "c18" { // held results / fresh readers: the input classes of package c18
						if cl, ok := m["classes"].(map[string]any); ok {
							for k, v := range cl {
								if f, ok := v.(float64); ok && !strings.HasPrefix(k, "violations:") {
									res.Stats["c18:"+k] += int(f)
								}
							}
						}
						continue
					}
					modes++
					if mode == "db" {
						rotations, _ = m["rotations_forced"].(float64)
						compactions, _ = m["compactions_merged"].(float64)
						res.Stats["db:rotations-forced"] += int(rotations)
						res.Stats["db:compactions-merged"] += int(compactions)
					}
				}
			case strings.HasPrefix(line, "MISMATCH "):
				f := strings.SplitN(line, " ", 3)
				res.Violate(idx, "C18", "wrong-answer:"+f[1], line, cs)
			case strings.HasPrefix(line, "VIOLATION "):
				var v c18.Violation
				if json.Unmarshal([]byte(line[10:]), &v) != nil {
					return fmt.Errorf("stress program: unparsable line %s", line)
				}
				res.Violate(idx, "C18", v.Sig, v.Detail, cs+" | "+v.Input)
			case strings.HasPrefix(line, "PANIC "):
				f := strings.SplitN(line, " ", 3)
				res.Violate(idx, "C18", "panic:"+f[1], line, cs)
			case strings.HasPrefix(line, "HARNESS "):
				return fmt.Errorf("stress program: %s", line)
			}
		}
		if strings.Contains(stderr, "WARNING: DATA RACE") {
			i := strings.Index(stderr, "WARNING: DATA RACE")
			rep := stderr[i:]
			if len(rep) > 3500 {
				rep = rep[:3500] + "…"
			}
			res.Violate(idx, "C18", raceSig(stderr), rep, cs)
			res.Stats["race-reports"] += strings.Count(stderr, "WARNING: DATA RACE")
		} else if err != nil {
			res.Violate(idx, "C18", "stress-program-hung", fmt.Sprintf("%v; stderr: %s", err, tail(stderr, 1500)), cs)
		} else if rc != 0 && rc != 3 {
			sig := "stress-program-crashed"
			if m := regexp.MustCompile(`(?m)^(panic|fatal error): ([^\n]{0,80})`).FindStringSubmatch(stderr); m != nil {
				sig = "crash:" + strings.Join(strings.Fields(m[2] + " x")[:1], "")
			}
			res.Violate(idx, "C18", sig, fmt.Sprintf("rc=%d stderr: %s", rc, tail(stderr, 2500)), cs)
		}
		if modes == 3 && rotations > 0 && compactions > 0 {
			res.NoteNontrivial(cs)
		}
		if len(res.Samples) < 3 {
			res.Sample(cs + " → " + strings.ReplaceAll(strings.TrimSpace(stdout), "\n", " "))
		}
	}
	return nil
}
